package main

// C19 — Command-line values mean what the manual says.
//
// Every value goes through the real flag.Value of package main (vegeta binary built with
// -tags verif, line protocol of /repo/verif_main.go) and through the Lean model (drv19);
// the two lines must be equal. Independently, an oracle written from README.md is
// evaluated on the implementation's outputs.

import (
	"bytes"
	"encoding/json"
	"fmt"
	"math"
	"math/big"
	"net"
	"os"
	"path/filepath"
	"sort"
	"strconv"
	"strings"
	"time"

	"vharness/gen"
	"vharness/kit"
	"vharness/run"
)

func main() { run.Main("C19", runC19) }

// kase: one operation on the implementation (Impl), the same on the model (Model), and
// the oracle evaluated on the implementation's answer.
type kase struct {
	Op     string   `json:"op"`       // stream name
	Args   []string `json:"args_hex"` // raw arguments, hex
	Text   []string `json:"args_text"`
	impl   string
	model  string
	oracle func(out string, s *kit.Summary, k *kase)
}

func hexAll(xs []string) []string {
	out := make([]string, len(xs))
	for i, x := range xs {
		out[i] = kit.HexS(x)
	}
	return out
}

func mk(op, implOp, modelOp string, args []string, oracle func(string, *kit.Summary, *kase)) *kase {
	h := hexAll(args)
	return &kase{Op: op, Args: h, Text: args, impl: implOp + " " + strings.Join(h, " "), model: modelOp + " " + strings.Join(h, " "), oracle: oracle}
}

func normalise(out string) string {
	if strings.HasPrefix(out, "panic") {
		return "panic"
	}
	return out
}

func viol(s *kit.Summary, k *kase, kind, what, exp, obs string, key map[string]interface{}) {
	s.Violate(kit.Violation{Kind: kind, What: what, Input: k, Expected: exp, Observed: obs, Key: key})
}

// runCases: all implementation ops through one vegeta process, all model ops through the driver.
func runCases(c *run.Ctx, s *kit.Summary, name string, ks []*kase) {
	if len(ks) == 0 {
		return
	}
	ops := make([]string, len(ks))
	for i, k := range ks {
		ops[i] = k.impl
	}
	outs, err := kit.RunVegeta(c.Vegeta, ops)
	if err != nil {
		s.Diverge(name, "(vegeta-verif failure)", err.Error(), "")
		return
	}
	st := &kit.Stream{Name: name}
	for i, k := range ks {
		o := normalise(outs[i])
		st.Add(k.model, o)
		s.Count(name + ":" + strings.Fields(o + " _")[0])
		if o == "panic" {
			// a panic is C16's clause (its check runs the same parsers); here it only fails whatever
			// oracle expected a value for this input
			s.Count(name + ":panic (judged by C16)")
		}
		if k.oracle != nil {
			k.oracle(o, s, k)
		}
		if i < 1 {
			s.Sample(map[string]interface{}{"op": k.impl, "text": k.Text, "impl": o})
		}
	}
	st.Diff(c.Driver, s)
}

/* ---------- rate ---------- */

func rateOracle(rc gen.RateCase) func(string, *kit.Summary, *kase) {
	return func(out string, s *kit.Summary, k *kase) {
		f := strings.Fields(out)
		accepted := len(f) == 4 && f[0] == "ok"
		var freq, per int64
		if accepted {
			freq, _ = strconv.ParseInt(f[1], 10, 64)
			per, _ = strconv.ParseInt(f[2], 10, 64)
		}
		s.Count("rate.kind:" + rc.Kind)
		switch rc.Kind {
		case "word": // "infinity": the manual: unlimited rate, to be used with -max-workers
			if !accepted {
				viol(s, k, "rate_word_rejected", "-rate=infinity rejected", "accepted", out, map[string]interface{}{"value": rc.Text})
			} else if !(freq == 0 || per == 0) {
				viol(s, k, "rate_infinity_ignored", "-rate=infinity leaves a limited rate (the default) in place",
					"unlimited rate (Freq==0 or Per==0)", fmt.Sprintf("Freq=%d Per=%d", freq, per), map[string]interface{}{"value": rc.Text})
			}
		case "zero":
			if rc.Text == "0" && !(accepted && freq == 0) {
				viol(s, k, "rate_zero", "-rate=0 is not an unlimited rate", "accepted, Freq==0", out, nil)
			}
			if rc.Text != "0" && accepted {
				if freq != 0 {
					viol(s, k, "rate_zero", "an accepted -rate with N = 0 does not store a zero frequency", "Freq==0", out, nil)
				}
				if _, err := time.ParseDuration(rc.D); rc.D == "" || err != nil {
					s.Count("rate.zero_with_malformed_unit_accepted")
				}
			}
		case "big", "odd":
			// integers beyond int64 and spellings the manual does not settle: no demand either way
			s.Count("rate." + rc.Kind + ":" + strings.Fields(out + " _")[0])
		case "malformed":
			if accepted {
				viol(s, k, "rate_accepts_malformed", "malformed -rate value accepted", "error", out, map[string]interface{}{"value": rc.Text})
			}
		case "n", "nu", "nd", "neg":
			d, err := time.ParseDuration(rc.D)
			if err != nil {
				// the generated duration does not fit time.Duration (e.g. 1073741824h): what becomes of it is
				// not fixed by the property (the clearly malformed ones are in gen.RateMalformed)
				s.Count("rate.duration_out_of_range:" + strings.Fields(out + " _")[0])
				return
			}
			if rc.Kind == "neg" {
				return // the manual says nothing about negative rates: model comparison only
			}
			if !accepted || freq != rc.N.Int64() || per != int64(d) {
				viol(s, k, "rate_meaning", "accepted -rate N/D does not mean N per D", fmt.Sprintf("Freq=%s Per=%d", rc.N, int64(d)), out,
					map[string]interface{}{"kind": rc.Kind})
			}
		}
	}
}

func rateStringOracle(freq, per int64) func(string, *kit.Summary, *kase) {
	return func(out string, s *kit.Summary, k *kase) {
		if freq <= 0 || per <= 0 {
			return
		}
		f := strings.Fields(out)
		if len(f) != 4 || f[2] != strconv.FormatInt(freq, 10) || f[3] != strconv.FormatInt(per, 10) {
			viol(s, k, "rate_string_roundtrip", "a rate's printed form does not parse back to the same rate", fmt.Sprintf("%d %d", freq, per), out, nil)
		}
	}
}

/* ---------- map-valued flags ---------- */

// expected rendering of a map in verifHeaderString's format
func mapString(keys []string, m map[string][]string) string {
	ks := append([]string{}, keys...)
	sort.Strings(ks)
	var sb strings.Builder
	sb.WriteString(strconv.Itoa(len(ks)))
	for _, k := range ks {
		sb.WriteString(" " + kit.HexS(k) + " " + strconv.Itoa(len(m[k])))
		for _, v := range m[k] {
			sb.WriteString(" " + kit.HexS(v))
		}
	}
	return sb.String()
}

type accum struct {
	keys []string
	m    map[string][]string
}

func (a *accum) add(k, v string) {
	if a.m == nil {
		a.m = map[string][]string{}
	}
	if _, ok := a.m[k]; !ok {
		a.keys = append(a.keys, k)
	}
	a.m[k] = append(a.m[k], v)
}

func (a *accum) String() string { return mapString(a.keys, a.m) }

// checkAccum judges the hook's line `ok <status per value> <map>` of an accumulating flag (-header,
// -connect-to) against the WELL-FORMED values only: each of them must be accepted, and under every
// key they name the values must be theirs, in command-line order. What happens to values that are not
// "key: value" / "src:port:dst:port" is not fixed by the property: if all values are well formed the map
// must be exactly theirs, otherwise extra entries are tolerated. recognised=false: the line is not in
// the hook's format (no verdict).
func checkAccum(out string, good []bool, exp *accum) (ok, recognised bool) {
	f := strings.Fields(out)
	if len(f) < 3 || f[0] != "ok" || len(f[1]) != len(good) {
		return false, false
	}
	n, err := strconv.Atoi(f[2])
	if err != nil {
		return false, false
	}
	got := map[string][]string{}
	pos := 3
	for e := 0; e < n; e++ {
		if pos+1 >= len(f) {
			return false, false
		}
		key := string(kit.UnHex(f[pos]))
		cnt, err := strconv.Atoi(f[pos+1])
		if err != nil || pos+2+cnt > len(f) {
			return false, false
		}
		for j := 0; j < cnt; j++ {
			got[key] = append(got[key], string(kit.UnHex(f[pos+2+j])))
		}
		pos += 2 + cnt
	}
	allGood := true
	for i, g := range good {
		allGood = allGood && g
		if g && f[1][i] != 'k' {
			return false, true
		}
	}
	if allGood && len(got) != len(exp.keys) {
		return false, true
	}
	for _, k := range exp.keys {
		want, have := exp.m[k], got[k]
		if allGood {
			if strings.Join(want, "\x00") != strings.Join(have, "\x00") || len(want) != len(have) {
				return false, true
			}
			continue
		}
		j := 0 // want must be a subsequence of have
		for _, h := range have {
			if j < len(want) && h == want[j] {
				j++
			}
		}
		if j != len(want) {
			return false, true
		}
	}
	return true, true
}

func genHeaders(r *kit.Rng) ([]string, []bool, *accum) {
	n := 1 + r.Pick(8)
	var texts []string
	var good []bool
	acc := &accum{}
	for i := 0; i < n; i++ {
		h := gen.Header(r)
		texts = append(texts, h.Text)
		good = append(good, h.OK)
		if h.OK {
			acc.add(h.Key, h.Val)
		}
	}
	return texts, good, acc
}

func genConnectTo(r *kit.Rng) ([]string, []bool, *accum) {
	n := 1 + r.Pick(6)
	var texts []string
	var good []bool
	acc := &accum{}
	for i := 0; i < n; i++ {
		h := gen.ConnectTo(r)
		texts = append(texts, h.Text)
		good = append(good, h.OK)
		if h.OK {
			acc.add(h.Src, h.Dst)
		}
	}
	return texts, good, acc
}

/* ---------- command lines ---------- */

type cmdline struct {
	args  []string // real arguments
	model []string // tokens of the model op
	// documented meaning
	rateWord  string // last -rate value
	lastRate  gen.RateCase
	nRate     int
	rateUnits map[string]bool // duration texts of the -rate flags so far ("" = none given)
	nMaxBody  int
	nTTL      int
	// replay from arguments alone: parts of the documented meaning that are not rebuilt
	skipMaxBody, skipAccum bool
	maxWorkers             *uint64
	headers                accum
	connectTo              accum
	maxBody                *big.Int
	maxBodyDoc             bool // the last -max-body is written like the manual\'s examples
	ttl                    string
	ok                     bool
}

// goodRate: a -rate value the manual defines: N, N/unit, N/D with N ≥ 0 in int64 and a parsable D, or a special word.
func goodRate(r *kit.Rng, kinds string) gen.RateCase {
	for {
		rc := gen.Rate(r)
		ok := rc.Kind == "n" || rc.Kind == "nu" || rc.Kind == "nd" || rc.Text == "0" || rc.Kind == "word"
		if !ok || (kinds != "" && !strings.Contains(kinds, rc.Kind)) {
			continue
		}
		if rc.D != "" {
			if _, err := time.ParseDuration(rc.D); err != nil {
				continue
			}
		}
		return rc
	}
}

func (c *cmdline) addRate(rc gen.RateCase) {
	c.args = append(c.args, "-rate="+rc.Text)
	c.model = append(c.model, "rate", kit.HexS(rc.Text))
	c.rateWord = rc.Text
	c.lastRate = rc
	c.nRate++
	if c.rateUnits == nil {
		c.rateUnits = map[string]bool{}
	}
	u := ""
	if rc.Kind == "nu" || rc.Kind == "nd" {
		u = rc.D
	}
	c.rateUnits[u] = true
}

func genCmdline(r *kit.Rng) *cmdline {
	c := &cmdline{ok: true}
	n := r.Pick(9)
	// state carried from one occurrence of a flag to the next: often give -rate twice or three
	// times with different units (a unit, then none; none, then a unit; a word in between)
	repeatRate := r.Chance(0.35)
	if repeatRate {
		c.addRate(goodRate(r, r.PickStr([]string{"nu", "nd", "nu nd", "n", "word zero"})))
	}
	for i := 0; i < n; i++ {
		switch r.Pick(7) {
		case 0, 1:
			c.addRate(goodRate(r, ""))
		case 2:
			h := gen.Header(r)
			if !h.OK {
				continue
			}
			if r.Chance(0.5) {
				c.args = append(c.args, "-header="+h.Text)
			} else {
				c.args = append(c.args, "-header", h.Text)
			}
			c.model = append(c.model, "header", kit.HexS(h.Text))
			c.headers.add(h.Key, h.Val)
		case 3:
			sc := gen.Size(r)
			if sc.Kind != "size" && sc.Kind != "minus1" {
				continue
			}
			c.args = append(c.args, "-max-body="+sc.Text)
			c.model = append(c.model, "maxbody", kit.HexS(sc.Text))
			c.maxBody = sc.Bytes
			c.maxBodyDoc = sc.Doc
			c.nMaxBody++
		case 4:
			t := gen.TTL(r)
			if t.Kind == "malformed" {
				continue
			}
			if _, err := time.ParseDuration(t.Text); err != nil && t.Text != "-1" {
				continue
			}
			c.args = append(c.args, "-dns-ttl="+t.Text)
			c.model = append(c.model, "dnsttl", kit.HexS(t.Text))
			c.ttl = t.Text
			c.nTTL++
		case 5:
			ct := gen.ConnectTo(r)
			if !ct.OK {
				continue
			}
			c.args = append(c.args, "-connect-to="+ct.Text)
			c.model = append(c.model, "connectto", kit.HexS(ct.Text))
			c.connectTo.add(ct.Src, ct.Dst)
		case 6:
			mw := uint64(r.Range(1, 100000))
			if r.Chance(0.2) {
				mw = r.Uint64()
			}
			if r.Chance(0.05) {
				mw = math.MaxUint64
			}
			c.args = append(c.args, "-max-workers="+strconv.FormatUint(mw, 10))
			c.model = append(c.model, "maxworkers", strconv.FormatUint(mw, 10))
			c.maxWorkers = &mw
		}
	}
	if repeatRate {
		// the last -rate: prefer a form whose unit differs from an earlier one
		c.addRate(goodRate(r, r.PickStr([]string{"n", "n", "nu", "nd", "zero", "word", "n nu nd"})))
	}
	return c
}

// guardConfirm(rate) runs the real `vegeta attack -rate=<rate>` without -max-workers and reports whether
// the attack actually ran (requests were sent). Set by runC19 / replay; results are cached per word.
var guardConfirm func(rateWord string) bool

func cmdlineOracle(c *cmdline) func(string, *kit.Summary, *kase) {
	return func(out string, s *kit.Summary, k *kase) {
		f := strings.Fields(out)
		if len(f) < 8 || f[0] != "ok" {
			viol(s, k, "cmdline_rejected", "command line of well-formed documented values rejected", "ok", out, nil)
			return
		}
		freq, _ := strconv.ParseInt(f[1], 10, 64)
		per, _ := strconv.ParseInt(f[2], 10, 64)
		guard := f[4]
		unlimitedWanted := c.rateWord == "0" || c.rateWord == "infinity"
		if unlimitedWanted {
			s.Count("cmdline.rate:" + c.rateWord)
			unl := freq == 0 || per == 0
			wantGuard := c.maxWorkers == nil || *c.maxWorkers == math.MaxUint64
			if unl && wantGuard && guard != "guard" && guardConfirm != nil && !guardConfirm(c.rateWord) {
				// the hook recognises the guard by the wording of its error; the real command refuses to run:
				// the guard is there (reworded)
				s.Count("cmdline.guard_confirmed_by_running_the_command")
				guard = "guard"
			}
			if c.rateWord == "infinity" && (!unl || (wantGuard && guard != "guard")) {
				viol(s, k, "rate_infinity_ignored", "-rate=infinity: rate stays limited and -max-workers is not demanded",
					"unlimited rate; guard demands -max-workers when it is not set", fmt.Sprintf("Freq=%d Per=%d guard=%s", freq, per, guard),
					map[string]interface{}{"value": "infinity"})
			} else if c.rateWord == "0" && (!unl || (wantGuard && guard != "guard")) {
				viol(s, k, "rate_zero_unguarded", "-rate=0 does not demand -max-workers", "guard", out, nil)
			}
			if !wantGuard && guard == "guard" && c.maxWorkers != nil {
				viol(s, k, "guard_spurious", "-max-workers was set but is still demanded", "pass", out, nil)
			}
		} else if guard == "guard" {
			viol(s, k, "guard_spurious", "a limited rate demands -max-workers", "pass", out, nil)
		}
		s.Count(fmt.Sprintf("cmdline.rate_flags=%d", min(c.nRate, 3)))
		if c.nRate >= 2 {
			s.Count(fmt.Sprintf("cmdline.rate_repeated:distinct_units=%d", min(len(c.rateUnits), 3)))
		}
		if unlimitedWanted && c.maxWorkers != nil {
			s.Count("cmdline.unlimited_with_max_workers")
		}
		// the last -rate wins and means exactly N per D, whatever earlier -rate flags said
		if rc := c.lastRate; c.nRate > 0 && (rc.Kind == "n" || rc.Kind == "nu" || rc.Kind == "nd") {
			d, err := time.ParseDuration(rc.D)
			if err == nil && rc.N.IsInt64() && rc.N.Sign() > 0 {
				if rc.Kind == "n" && c.nRate >= 2 && len(c.rateUnits) >= 2 {
					s.Count("cmdline.rate_repeated:unit_then_bare")
				}
				if freq != rc.N.Int64() || per != int64(d) {
					viol(s, k, "rate_meaning", "the last -rate flag does not mean N per D (D = 1s when absent)",
						fmt.Sprintf("Freq=%s Per=%d", rc.N, int64(d)), fmt.Sprintf("Freq=%d Per=%d", freq, per),
						map[string]interface{}{"kind": rc.Kind, "repeated": c.nRate >= 2})
				}
			}
		}
		// documented defaults of the flags that were not given (README usage: default 50/1s,
		// max-workers 18446744073709551615, max-body -1, dns-ttl 0s)
		// the defaults of flags that are not given are not a clause of the property (they are pinned by the
		// theorems' source facts): counted, compared with the model, not judged
		if c.nRate == 0 && (freq != 50 || per != int64(time.Second)) {
			s.Count("cmdline.default_differs:rate")
		}
		if c.maxWorkers == nil && f[3] != "18446744073709551615" {
			s.Count("cmdline.default_differs:max-workers")
		}
		if c.maxBody == nil && !c.skipMaxBody && f[5] != "-1" {
			s.Count("cmdline.default_differs:max-body")
		}
		if c.ttl == "" && f[6] != "0" {
			s.Count("cmdline.default_differs:dns-ttl")
		}
		if c.nMaxBody >= 2 {
			s.Count("cmdline.max_body_repeated")
		}
		if c.nTTL >= 2 {
			s.Count("cmdline.dns_ttl_repeated")
		}
		if c.maxWorkers != nil && f[3] != strconv.FormatUint(*c.maxWorkers, 10) {
			s.Count("cmdline.max_workers_value_differs") // the property speaks of -max-workers only as demanded by an unlimited rate
		}
		if c.maxBody != nil && c.maxBodyDoc && f[5] != c.maxBody.String() {
			viol(s, k, "max_body_meaning", "-max-body value differs from the documented notation", c.maxBody.String(), f[5], nil)
		}
		if c.ttl != "" {
			exp := int64(-1)
			if c.ttl != "-1" {
				d, _ := time.ParseDuration(c.ttl)
				exp = int64(d)
			}
			got, gerr := strconv.ParseInt(f[6], 10, 64)
			if gerr != nil || (exp < 0 && got >= 0) || (exp >= 0 && got != exp) { // any negative value disables caching
				viol(s, k, "dns_ttl_meaning", "-dns-ttl value differs from the documented meaning", fmt.Sprint(exp), f[6], nil)
			}
		}
		rest := strings.SplitN(out, " ", 8)[7]
		if exp := c.headers.String() + " | " + c.connectTo.String(); !c.skipAccum && rest != exp {
			viol(s, k, "cmdline_accumulate", "repeated -header / -connect-to flags did not accumulate as documented", exp, rest, nil)
		}
	}
}

/* ---------- the run ---------- */

func runC19(c *run.Ctx, s *kit.Summary) {
	r := kit.NewRng(c.Seed)
	s.Rule = "flag values generated from the manual's grammar (wide N x every unit x multiples, special words, every documented size notation, header lines with arbitrary spacing/case, connect-to tuples, resolver lists, whole command lines with repeated flags in any order) plus curated malformed values and byte-level mutations; non-trivial = distinct value that is not one of the fixed special words"
	if c.Replay != "" {
		replay(c, s)
		return
	}
	guardConfirm = newGuardConfirm(c, s)
	corpus(c, s)
	mut := func(t string) string { return gen.Mutate(r, t) }

	var ks []*kase
	for i := 0; i < c.N(8000, 500000); i++ {
		rc := gen.Rate(r)
		if r.Chance(0.12) {
			rc = gen.RateCase{Text: mut(rc.Text), Kind: "mutated"}
		}
		s.Case("rate:"+rc.Text, len(rc.Text) > 1 && rc.Kind != "word")
		ks = append(ks, mk("rate", "flag.rate", "c19.rate", []string{rc.Text}, rateOracle(rc)))
	}
	// every fixed malformed value at least once
	for _, t := range gen.RateMalformed {
		ks = append(ks, mk("rate", "flag.rate", "c19.rate", []string{t}, rateOracle(gen.RateCase{Text: t, Kind: "malformed"})))
	}
	for i := 0; i < c.N(300, 20000); i++ { // numbers in unusual shapes (long digit runs around a decimal point, leading zeros, exponents): model comparison only
		ks = append(ks, mk("rate", "flag.rate", "c19.rate", []string{gen.NumericShapes(r, gen.Rate(r).Text)}, nil))
		s.Count("rate:numeric shapes")
	}
	runCases(c, s, "rate", ks)

	ks = nil
	for i := 0; i < c.N(4000, 300000); i++ {
		freq, per := r.Int64Edge(), r.Int64Edge()
		if r.Chance(0.6) {
			freq = r.Range(1, 1<<uint(1+r.Pick(62)))
			per = r.Range(1, 1<<uint(1+r.Pick(62)))
		}
		if r.Chance(0.3) {
			per = r.Range(1, 7200) * r.PickI64([]int64{1, 1000, 1000000, 1000000000, 60000000000, 3600000000000, 500000000})
		}
		a := []string{strconv.FormatInt(freq, 10), strconv.FormatInt(per, 10)}
		k := &kase{Op: "ratestring", Text: a, impl: "flag.ratestring " + a[0] + " " + a[1], model: "c19.ratestring " + a[0] + " " + a[1], oracle: rateStringOracle(freq, per)}
		s.Case("ratestring:"+a[0]+"/"+a[1], freq > 0 && per > 0)
		if freq > 0 && per > 0 {
			s.Count("ratestring:in_domain")
		}
		ks = append(ks, k)
	}
	runCases(c, s, "ratestring", ks)

	ks = nil
	for i := 0; i < c.N(4000, 200000); i++ {
		texts, good, acc := genHeaders(r)
		mutated := r.Chance(0.1)
		if mutated {
			j := r.Pick(len(texts))
			texts[j] = mut(texts[j])
		}
		want := acc.String()
		s.Case("headers:"+strings.Join(texts, "\x00"), len(texts) > 1)
		s.Count(fmt.Sprintf("headers:n=%d", len(texts)))
		for _, k := range acc.keys {
			if len(acc.m[k]) > 1 {
				s.Count("headers:repeated_key")
				break
			}
		}
		var or func(string, *kit.Summary, *kase)
		if !mutated {
			or = func(out string, s *kit.Summary, k *kase) {
				ok, rec := checkAccum(out, good, acc)
				if !rec {
					s.Skipped["headers: hook line not recognised"]++
				} else if !ok {
					viol(s, k, "headers_accumulate", "repeated -header values do not accumulate with key case preserved", want, out, nil)
				}
			}
		}
		ks = append(ks, mk("headers", "flag.headers", "c19.headers", texts, or))
	}
	// every special name in every case variant: each spelling is a key of its own, stored as typed
	for _, name := range gen.SpecialHeaderNames {
		vs := gen.CaseVariants(name)
		var texts []string
		var acc accum
		for round := 0; round < 2; round++ {
			for i, k := range vs {
				val := fmt.Sprintf("v%d%d", round, i)
				texts = append(texts, k+": "+val)
				acc.add(k, val)
			}
		}
		want := "ok " + strings.Repeat("k", len(texts)) + " " + acc.String()
		ks = append(ks, mk("headers", "flag.headers", "c19.headers", texts, func(out string, s *kit.Summary, k *kase) {
			s.Count("headers:special_name_case_variants")
			if out != want {
				viol(s, k, "headers_accumulate", "a -header key is not stored exactly as typed (spellings differing only by case are keys of their own)", want, out,
					map[string]interface{}{"special_name": true})
			}
		}))
	}
	for _, t := range gen.HeaderMalformed {
		// what becomes of a value that is not "key: value" is not fixed by the property; the good values
		// around it must still accumulate
		texts := []string{"A: 1", t, "A: 2"}
		acc := &accum{}
		acc.add("A", "1")
		acc.add("A", "2")
		ks = append(ks, mk("headers", "flag.headers", "c19.headers", texts, func(out string, s *kit.Summary, k *kase) {
			s.Count("headers:fixed_malformed")
			if ok, rec := checkAccum(out, []bool{true, false, true}, acc); rec && !ok {
				viol(s, k, "headers_accumulate", "a value that is not \"key: value\" disturbed the accumulated headers", acc.String(), out, nil)
			}
		}))
		ks = append(ks, mk("headers", "flag.headers", "c19.headers", []string{t}, nil))
	}
	runCases(c, s, "headers", ks)

	ks = nil
	for _, d := range gen.SizeDocumented {
		d := d
		ks = append(ks, mk("maxbody", "flag.maxbody", "c19.maxbody", []string{d[0]}, func(out string, s *kit.Summary, k *kase) {
			// the manual's arrow ("10 MB" -> 10MB) says which size is meant; how the flag prints it is not part of
			// the property
			f := strings.Fields(out)
			want := gen.SizeOfDocumented(d[0]).String()
			if len(f) < 2 || f[0] != "ok" || f[1] != want {
				viol(s, k, "max_body_documented", "documented -max-body example is not interpreted as the manual says", d[1]+" = "+want+" bytes", out, nil)
			}
		}))
	}
	for i := 0; i < c.N(6000, 300000); i++ {
		sc := gen.Size(r)
		if r.Chance(0.1) {
			sc = gen.SizeCase{Text: mut(sc.Text), Kind: "mutated"}
		}
		s.Case("maxbody:"+sc.Text, sc.Kind != "minus1")
		s.Count("maxbody.kind:" + sc.Kind)
		ks = append(ks, mk("maxbody", "flag.maxbody", "c19.maxbody", []string{sc.Text}, func(out string, s *kit.Summary, k *kase) {
			f := strings.Fields(out)
			switch sc.Kind {
			case "minus1", "size":
				if !sc.Doc {
					s.Count("maxbody:notation_beyond_the_manual (model only)")
					return
				}
				if len(f) < 2 || f[0] != "ok" || f[1] != sc.Bytes.String() {
					viol(s, k, "max_body_meaning", "-max-body value differs from the documented notation", sc.Bytes.String(), out, nil)
				}
			case "overflow":
				// sizes beyond int64: the property does not say what becomes of them
				s.Count("maxbody:beyond_int64:" + strings.Fields(out + " _")[0])
			}
		}))
	}
	for i := 0; i < c.N(300, 20000); i++ { // numbers in unusual shapes (long digit runs around a decimal point, leading zeros, exponents): model comparison only
		ks = append(ks, mk("maxbody", "flag.maxbody", "c19.maxbody", []string{gen.NumericShapes(r, gen.Size(r).Text)}, nil))
		s.Count("maxbody:numeric shapes")
	}
	runCases(c, s, "maxbody", ks)

	ks = nil
	for i := 0; i < c.N(4000, 200000); i++ {
		t := gen.TTL(r)
		if r.Chance(0.1) {
			t = gen.TTLCase{Text: mut(t.Text), Kind: "mutated"}
		}
		s.Case("dnsttl:"+t.Text, t.Kind == "dur" || t.Kind == "mutated")
		s.Count("dnsttl.kind:" + t.Kind)
		ks = append(ks, mk("dnsttl", "flag.dnsttl", "c19.dnsttl", []string{t.Text}, func(out string, s *kit.Summary, k *kase) {
			f := strings.Fields(out)
			switch t.Kind {
			case "minus1":
				if v, err := strconv.ParseInt(strings.Join(f[1:min(2, len(f))], ""), 10, 64); len(f) < 2 || f[0] != "ok" || err != nil || v >= 0 {
					viol(s, k, "dns_ttl_meaning", "-dns-ttl=-1 does not give a negative (caching disabled) value", "a negative value", out, nil)
				}
			case "zero":
				if len(f) < 2 || f[0] != "ok" || f[1] != "0" {
					viol(s, k, "dns_ttl_meaning", "zero -dns-ttl does not give 0 (cache forever)", "0", out, nil)
				}
			case "dur":
				d, err := time.ParseDuration(t.Text)
				if err != nil {
					return // not a duration: what becomes of it is not fixed by the property
				}
				got, gerr := int64(0), fmt.Errorf("no value")
				if len(f) >= 2 && f[0] == "ok" {
					got, gerr = strconv.ParseInt(f[1], 10, 64)
				}
				switch {
				case gerr != nil:
					viol(s, k, "dns_ttl_meaning", "a -dns-ttl duration was refused", fmt.Sprint(int64(d)), out, nil)
				case d < 0 && got >= 0, d >= 0 && got != int64(d):
					// a negative duration disables caching whatever its size; any other is taken as written
					viol(s, k, "dns_ttl_meaning", "-dns-ttl duration not taken as written", fmt.Sprint(int64(d)), out, nil)
				}
			case "malformed":
				s.Count("dnsttl:not_a_duration:" + strings.Fields(out + " _")[0])
			}
		}))
	}
	for _, t := range gen.TTLMalformed {
		ks = append(ks, mk("dnsttl", "flag.dnsttl", "c19.dnsttl", []string{t}, nil)) // model comparison only
	}
	for i := 0; i < c.N(300, 20000); i++ { // numbers in unusual shapes (long digit runs around a decimal point, leading zeros, exponents): model comparison only
		ks = append(ks, mk("dnsttl", "flag.dnsttl", "c19.dnsttl", []string{gen.NumericShapes(r, gen.TTL(r).Text)}, nil))
		s.Count("dnsttl:numeric shapes")
	}
	runCases(c, s, "dnsttl", ks)

	ks = nil
	for i := 0; i < c.N(4000, 200000); i++ {
		texts, good, acc := genConnectTo(r)
		mutated := r.Chance(0.1)
		if mutated {
			j := r.Pick(len(texts))
			texts[j] = mut(texts[j])
		}
		s.Case("connectto:"+strings.Join(texts, "\x00"), len(texts) > 1)
		var or func(string, *kit.Summary, *kase)
		if !mutated {
			want := acc.String()
			or = func(out string, s *kit.Summary, k *kase) {
				// the hook appends the flag's String(): not part of the map
				line := out
				if i := strings.LastIndex(out, " "); i > 0 {
					line = out[:i]
				}
				ok, rec := checkAccum(line, good, acc)
				if !rec {
					s.Skipped["connectto: hook line not recognised"]++
				} else if !ok {
					viol(s, k, "connect_to_mapping", "-connect-to values do not build the documented src -> [dst…] mapping", want, out, nil)
				}
			}
		}
		ks = append(ks, mk("connectto", "flag.connectto", "c19.connectto", texts, or))
	}
	for _, t := range gen.ConnectToMalformed {
		// what becomes of a value that is not src:port:dst:port is not fixed by the property; the good
		// values around it must still build the mapping
		texts := []string{"a:1:b:2", t, "a:1:c:3"}
		acc := &accum{}
		acc.add("a:1", "b:2")
		acc.add("a:1", "c:3")
		ks = append(ks, mk("connectto", "flag.connectto", "c19.connectto", texts, func(out string, s *kit.Summary, k *kase) {
			s.Count("connectto:fixed_malformed")
			line := out
			if i := strings.LastIndex(out, " "); i > 0 {
				line = out[:i]
			}
			if ok, rec := checkAccum(line, []bool{true, false, true}, acc); rec && !ok {
				viol(s, k, "connect_to_mapping", "a value that is not src:port:dst:port disturbed the mapping", acc.String(), out, nil)
			}
		}))
		ks = append(ks, mk("connectto", "flag.connectto", "c19.connectto", []string{t}, nil))
	}
	runCases(c, s, "connectto", ks)

	ks = nil
	for i := 0; i < c.N(2000, 100000); i++ {
		n := 1 + r.Pick(5)
		parts := make([]string, n)
		for j := range parts {
			parts[j] = r.PickStr([]string{"a.pem", "b", "", " c ", "/etc/ssl/x.crt", "1.2.3.4", "ü"})
			if r.Chance(0.3) {
				parts[j] = gen.Resolver(r).Text
			}
		}
		t := strings.Join(parts, ",")
		if r.Chance(0.1) {
			t = mut(t)
			parts = nil
		}
		s.Case("csl:"+t, n > 1)
		ks = append(ks, mk("csl", "flag.csl", "c19.csl", []string{t}, func(out string, s *kit.Summary, k *kase) {
			// comma separated lists as such are not a clause of the property (the -resolvers stream judges what
			// the list means): model comparison only
			_ = parts
		}))
	}
	runCases(c, s, "csl", ks)

	ks = nil
	for i := 0; i < c.N(6000, 300000); i++ {
		n := 1 + r.Pick(4)
		var parts, normal []string
		doc := true
		for j := 0; j < n; j++ {
			rc := gen.Resolver(r)
			if rc.Kind == "malformed" && r.Chance(0.7) && n > 1 {
				rc = gen.Resolver(r)
			}
			parts = append(parts, rc.Text)
			normal = append(normal, rc.Normal)
			doc = doc && rc.OK && rc.Doc
			s.Count("resolvers.kind:" + rc.Kind)
		}
		t := strings.Join(parts, ",")
		mutated := r.Chance(0.12)
		if mutated {
			t = mut(t)
		}
		s.Case("resolvers:"+t, true)
		ks = append(ks, mk("resolvers", "flag.resolvers", "c19.resolvers", []string{t}, func(out string, s *kit.Summary, k *kase) {
			if !acceptedResolversAreAddresses(out, s, k) {
				return
			}
			if mutated || !doc {
				// lists with an address the manual does not describe (no IP literal, odd port, brackets around
				// IPv4 …): neither acceptance nor refusal is demanded
				s.Count("resolvers:beyond_the_manual (model only)")
				return
			}
			// documented addresses must be accepted and denote the same dial targets: same IP, same port
			// (53 when none was given) — whatever the spelling of the normalised address
			f := strings.Fields(out)
			ok := len(f) == 2+len(normal) && f[0] == "ok"
			for j := 0; ok && j < len(normal); j++ {
				ok = sameDialTarget(string(kit.UnHex(f[2+j])), normal[j])
			}
			if !ok {
				viol(s, k, "resolver_normalisation", "-resolvers list does not denote the documented dial targets (ip[:port], default port 53)", strings.Join(normal, ","), out, nil)
			}
		}))
	}
	for _, text := range []string{"1.1.1.1,", ",1.1.1.1", "1.1.1.1,,8.8.8.8", "1.1.1.1, ", "1.1.1.1, 8.8.8.8", ",", " , "} {
		ks = append(ks, mk("resolvers", "flag.resolvers", "c19.resolvers", []string{text}, func(out string, s *kit.Summary, k *kase) {
			s.Count("resolvers:empty_or_blank_items")
			acceptedResolversAreAddresses(out, s, k)
		}))
	}
	for _, t := range gen.ResolverMalformed {
		for _, text := range []string{t, "1.2.3.4," + t, t + ",1.2.3.4:53"} {
			if strings.Contains(t, ",") {
				continue
			}
			ks = append(ks, mk("resolvers", "flag.resolvers", "c19.resolvers", []string{text}, func(out string, s *kit.Summary, k *kase) {
				acceptedResolversAreAddresses(out, s, k) // refusal is not demanded; an accepted list must be addresses
			}))
		}
	}
	for i := 0; i < c.N(300, 20000); i++ { // numbers in unusual shapes (long digit runs around a decimal point, leading zeros, exponents): model comparison only
		ks = append(ks, mk("resolvers", "flag.resolvers", "c19.resolvers", []string{gen.NumericShapes(r, gen.Resolver(r).Text)}, nil))
		s.Count("resolvers:numeric shapes")
	}
	runCases(c, s, "resolvers", ks)

	ks = nil
	for i := 0; i < c.N(1000, 50000); i++ {
		n := 1 + r.Pick(5)
		addrs := make([]string, n)
		for j := range addrs {
			addrs[j] = gen.IPv4(r) + ":53"
		}
		cnt := 1 + r.Pick(20)
		var exp []string
		for j := 1; j <= cnt; j++ {
			exp = append(exp, kit.HexS(addrs[j%n]))
		}
		h := hexAll(addrs)
		k := &kase{Op: "rotation", Text: append([]string{strconv.Itoa(cnt)}, addrs...), Args: h,
			impl:  "resolver.rotation " + strconv.Itoa(cnt) + " " + strings.Join(h, " "),
			model: "c19.rotation " + strconv.Itoa(cnt) + " " + strings.Join(h, " ")}
		_ = exp
		k.oracle = func(out string, s *kit.Summary, k *kase) {
			// the manual says the listed addresses are used for DNS resolution, not in which order or where the
			// rotation starts: every address dialed must be one of the list (the order is compared with the model only)
			f := strings.Fields(out)
			ok := len(f) == cnt+1 && f[0] == "ok"
			for j := 1; ok && j < len(f); j++ {
				ok = false
				for _, a := range addrs {
					ok = ok || f[j] == kit.HexS(a)
				}
			}
			if !ok {
				viol(s, k, "resolver_rotation", "a resolver address that was not configured is dialed", "only "+strings.Join(addrs, ","), out, nil)
			}
		}
		s.Case("rotation:"+k.impl, n > 1)
		ks = append(ks, k)
	}
	runCases(c, s, "rotation", ks)

	ks = nil
	for i := 0; i < c.N(4000, 200000); i++ {
		cl := genCmdline(r)
		h := hexAll(cl.args)
		k := &kase{Op: "cmdline", Text: cl.args, Args: h, impl: strings.TrimRight("attack.cmdline "+strings.Join(h, " "), " "),
			model: strings.TrimRight("c19.cmdline "+strings.Join(cl.model, " "), " "), oracle: cmdlineOracle(cl)}
		s.Case("cmdline:"+strings.Join(cl.args, "\x00"), len(cl.args) > 1)
		s.Count(fmt.Sprintf("cmdline:flags=%d", len(cl.args)))
		ks = append(ks, k)
	}
	runCases(c, s, "cmdline", ks)

	// the real attack command against raw TCP listeners: what reaches the wire
	runE2E(c, s, r)
	runE2EMulti(c, s, r)
	runDNSLib(c, s, r)
}

// acceptedResolversAreAddresses: whatever list the flag accepts, every address it will dial must be an
// ip:port (an accepted -resolvers value means "use these servers"); judged on every input, documented or not.
func acceptedResolversAreAddresses(out string, s *kit.Summary, k *kase) bool {
	f := strings.Fields(out)
	if len(f) < 2 || f[0] != "ok" {
		return true
	}
	for _, h := range f[2:] {
		a := string(kit.UnHex(h))
		if !sameDialTarget(a, a) {
			viol(s, k, "resolver_normalisation", "an accepted -resolvers value contains something that is not an ip:port dial target", "ip:port addresses only", out,
				map[string]interface{}{"accepted_non_address": true})
			return false
		}
	}
	if len(f) == 2 {
		s.Count("resolvers:accepted_empty_list")
	}
	return true
}

// sameDialTarget: two host:port texts name the same IP and the same port number.
func sameDialTarget(a, b string) bool {
	ha, pa, ea := net.SplitHostPort(a)
	hb, pb, eb := net.SplitHostPort(b)
	if ea != nil || eb != nil {
		return false
	}
	ia, ib := net.ParseIP(ha), net.ParseIP(hb)
	na, e1 := strconv.ParseUint(pa, 10, 16)
	nb, e2 := strconv.ParseUint(pb, 10, 16)
	return ia != nil && ib != nil && ia.Equal(ib) && e1 == nil && e2 == nil && na == nb
}

// rateCaseOfText: what the manual says a -rate text means (N, N/unit, N/D, the special words).
func rateCaseOfText(t string) gen.RateCase {
	switch t {
	case "infinity":
		return gen.RateCase{Text: t, Kind: "word"}
	case "0":
		return gen.RateCase{Text: t, Kind: "zero", N: big.NewInt(0), D: "1s"}
	}
	nb, db, has := strings.Cut(t, "/")
	n, ok := new(big.Int).SetString(strings.TrimPrefix(nb, "+"), 10)
	if !ok || strings.ContainsAny(nb, "_ ") {
		return gen.RateCase{Text: t, Kind: "mutated"}
	}
	rc := gen.RateCase{Text: t, Kind: "n", N: n, D: "1s"}
	if has {
		rc.Kind, rc.D = "nd", db
		for _, u := range gen.RateUnits {
			if db == u {
				rc.Kind, rc.D = "nu", "1"+u
			}
		}
	}
	switch {
	case !n.IsInt64():
		rc.Kind = "big"
	case n.Sign() < 0:
		rc.Kind = "neg"
	case n.Sign() == 0:
		rc.Kind = "zero"
	}
	return rc
}

// replay: {"input": {"op":…, "args_hex":[…], "args_text":[…]}} — re-run that one case with the stream's oracle.
func replay(c *run.Ctx, s *kit.Summary) {
	guardConfirm = newGuardConfirm(c, s)
	if raw, err := os.ReadFile(c.Replay); err == nil && (bytes.Contains(raw, []byte(`"op": "dns-lib"`)) || bytes.Contains(raw, []byte(`"op":"dns-lib"`))) {
		replayDNSLib(c, s, raw)
		return
	}
	if raw, err := os.ReadFile(c.Replay); err == nil && (bytes.Contains(raw, []byte(`"op": "e2e-multi"`)) || bytes.Contains(raw, []byte(`"op":"e2e-multi"`))) {
		replayE2EMulti(c, s, raw)
		return
	}
	if raw, err := os.ReadFile(c.Replay); err == nil && bytes.Contains(raw, []byte(`"op": "e2e"`)) || bytes.Contains(raw, []byte(`"op":"e2e"`)) {
		replayE2E(c, s, raw)
		return
	}
	k, op := loadCase(c.Replay)
	s.Case("replay", true)
	runCases(c, s, op, []*kase{k})
}

// corpus: defect witnesses and minimised past failures under corpus/C19, run first.
func corpus(c *run.Ctx, s *kit.Summary) {
	files, _ := filepath.Glob(filepath.Join("corpus", "C19", "*.json"))
	sort.Strings(files)
	for _, f := range files {
		k, op := loadCase(f)
		s.Case("corpus:"+f, true)
		s.Count("corpus")
		runCases(c, s, op, []*kase{k})
	}
}

func loadCase(path string) (*kase, string) {
	b, err := os.ReadFile(path)
	if err != nil {
		panic(err)
	}
	var rec struct {
		Kind  string `json:"kind"`
		Input struct {
			Op   string   `json:"op"`
			Args []string `json:"args_hex"`
			Text []string `json:"args_text"`
		} `json:"input"`
	}
	if err := json.Unmarshal(b, &rec); err != nil {
		panic(err)
	}
	args := rec.Input.Text
	if len(rec.Input.Args) == len(args) && rec.Input.Op != "ratestring" && rec.Input.Op != "rotation" {
		for i, h := range rec.Input.Args {
			args[i] = string(kit.UnHex(h))
		}
	}
	var k *kase
	switch rec.Input.Op {
	case "rate":
		rc := rateCaseOfText(args[0])
		for _, m := range gen.RateMalformed {
			if m == args[0] {
				rc = gen.RateCase{Text: args[0], Kind: "malformed"}
			}
		}
		k = mk("rate", "flag.rate", "c19.rate", args, rateOracle(rc))
	case "cmdline":
		cl := &cmdline{ok: true, skipAccum: true}
		for i := 0; i < len(args); i++ {
			a := args[i]
			name, val, _ := strings.Cut(strings.TrimLeft(a, "-"), "=")
			if !strings.Contains(a, "=") && i+1 < len(args) {
				i++
				val = args[i]
			}
			tok := map[string]string{"rate": "rate", "header": "header", "max-body": "maxbody", "dns-ttl": "dnsttl", "connect-to": "connectto"}[name]
			switch name {
			case "rate":
				rc := rateCaseOfText(val)
				cl.rateWord = val
				cl.lastRate = rc
				cl.nRate++
				if cl.rateUnits == nil {
					cl.rateUnits = map[string]bool{}
				}
				u := ""
				if rc.Kind == "nu" || rc.Kind == "nd" {
					u = rc.D
				}
				cl.rateUnits[u] = true
			case "max-body":
				cl.skipMaxBody = true
			case "dns-ttl":
				cl.ttl = val
				cl.nTTL++
			case "max-workers":
				mw, _ := strconv.ParseUint(val, 10, 64)
				cl.maxWorkers = &mw
				cl.model = append(cl.model, "maxworkers", val)
				continue
			}
			cl.model = append(cl.model, tok, kit.HexS(val))
		}
		h := hexAll(args)
		// the header / connect-to / max-body parts of the oracle are not rebuilt from the arguments alone
		k = &kase{Op: "cmdline", Text: args, Args: h, impl: strings.TrimRight("attack.cmdline "+strings.Join(h, " "), " "),
			model: strings.TrimRight("c19.cmdline "+strings.Join(cl.model, " "), " "), oracle: cmdlineOracle(cl)}
	default:
		implOp := map[string]string{"ratestring": "flag.ratestring", "headers": "flag.headers", "maxbody": "flag.maxbody", "dnsttl": "flag.dnsttl",
			"connectto": "flag.connectto", "csl": "flag.csl", "resolvers": "flag.resolvers", "rotation": "resolver.rotation"}[rec.Input.Op]
		if implOp == "" {
			panic("unknown op in replay: " + rec.Input.Op)
		}
		if rec.Input.Op == "ratestring" || rec.Input.Op == "rotation" {
			rest := strings.Join(args, " ")
			if rec.Input.Op == "rotation" {
				rest = args[0] + " " + strings.Join(hexAll(args[1:]), " ")
			}
			k = &kase{Op: rec.Input.Op, Text: args, impl: implOp + " " + rest, model: "c19." + rec.Input.Op + " " + rest}
			if rec.Input.Op == "ratestring" {
				f, _ := strconv.ParseInt(args[0], 10, 64)
				p, _ := strconv.ParseInt(args[1], 10, 64)
				k.oracle = rateStringOracle(f, p)
			}
		} else {
			k = mk(rec.Input.Op, implOp, "c19."+rec.Input.Op, args, nil)
		}
	}
	return k, rec.Input.Op
}
