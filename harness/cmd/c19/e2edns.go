package main

// The library option behind -dns-ttl, observed by what it does: vegeta.DNSCaching(ttl) on a real
// Attacker (connection reuse off, so every hit dials) against a host name only the harness's DNS
// stub knows; the address lookups the stub sees are counted against the hits.
//
// Compared with the model (dnsMode: negative = no caching, zero = for ever, positive = refreshed
// every ttl); judged as the manual says: "A zero value caches forever. A negative value disables
// caching altogether."

import (
	"context"
	"encoding/json"
	"fmt"
	"math"
	"net"
	"strconv"
	"sync"
	"time"

	vegeta "github.com/tsenart/vegeta/v12/lib"

	"vharness/kit"
	"vharness/run"
)

type dnsLibCase struct {
	Op   string `json:"op"` // "dns-lib"
	TTL  int64  `json:"ttl_ns"`
	Text string `json:"args_text"`
}

const dnsLibRun = 260 * time.Millisecond

func dnsLibTTLs(c *run.Ctx, r *kit.Rng) []int64 {
	out := []int64{-1, -2, -1000, -1e6, -1e9, -5e9, -30e9, -300e9, -3600e9, math.MinInt64, math.MinInt64 + 1, 0, 5e9, 3600e9, math.MaxInt64}
	for i := 0; i < c.N(6, 60); i++ {
		v := r.Range(1, 1<<62) >> uint(r.Pick(62))
		switch r.Pick(3) {
		case 0:
			out = append(out, -v)
		case 1:
			out = append(out, 5e9+v%(1<<60)) // positive and longer than the run
		default:
			out = append(out, -1-v%1000)
		}
	}
	return out
}

// dnsLibObserve: one attack with DNSCaching(ttl); returns hits answered and address lookups seen.
func dnsLibObserve(stub *dnsStub, rs *rawServer, label string, ttl int64) (hits, lookups int) {
	_, port, _ := net.SplitHostPort(rs.addr(0))
	atk := vegeta.NewAttacker(vegeta.KeepAlive(false), vegeta.Workers(1), vegeta.Timeout(2*time.Second), vegeta.DNSCaching(time.Duration(ttl)))
	tr := vegeta.NewStaticTargeter(vegeta.Target{Method: "GET", URL: "http://" + label + ".test:" + port + "/dns"})
	for res := range atk.Attack(tr, vegeta.Rate{Freq: 50, Per: time.Second}, dnsLibRun, "dns-lib") {
		if res.Error == "" && res.Code == 200 {
			hits++
		}
	}
	return hits, stub.aQueries(label)
}

func dnsLibClass(hits, lookups int) string {
	switch {
	case hits < 6:
		return "unclear"
	case lookups >= hits/2:
		return "disabled"
	case lookups <= 4:
		return "cached"
	}
	return "unclear"
}

// withStubResolver: the process-wide resolver points at the stub for the time of f (what `vegeta attack
// -resolvers` does for the command).
func withStubResolver(stub *dnsStub, f func()) {
	old := net.DefaultResolver
	net.DefaultResolver = &net.Resolver{PreferGo: true, Dial: func(ctx context.Context, network, _ string) (net.Conn, error) {
		var d net.Dialer
		return d.DialContext(ctx, "udp", stub.addr())
	}}
	defer func() { net.DefaultResolver = old }()
	f()
}

func judgeDNSLib(s *kit.Summary, st *kit.Stream, k *dnsLibCase, hits, lookups int) {
	cls := dnsLibClass(hits, lookups)
	s.Count("dns-lib:" + cls)
	if cls == "unclear" {
		s.Skipped["dns-lib: too few hits or an unclear number of lookups"]++
		return
	}
	got := fmt.Sprintf("%d hits answered, %d address lookups", hits, lookups)
	key := map[string]interface{}{"lib": true}
	switch {
	case k.TTL < 0 && cls != "disabled":
		s.Violate(kit.Violation{Kind: "dns_ttl_meaning", What: "a negative DNS ttl (as -dns-ttl hands it over) did not disable caching", Input: k,
			Expected: "no caching: about one address lookup per hit", Observed: got, Key: key})
	case k.TTL == 0 && cls != "cached":
		s.Violate(kit.Violation{Kind: "dns_ttl_meaning", What: "a zero DNS ttl does not cache for ever", Input: k, Expected: "lookups for the first hit only", Observed: got, Key: key})
	}
	if st != nil {
		st.Add(fmt.Sprintf("c19.dnsmode %d %d", k.TTL, int64(2*time.Second)), cls)
	}
}

func runDNSLib(c *run.Ctx, s *kit.Summary, r *kit.Rng) {
	stub, err := newDNSStub()
	if err != nil {
		s.Skipped["e2e: cannot listen (dns)"]++
		return
	}
	defer stub.close()
	rs, err := newRawServer(1)
	if err != nil {
		s.Skipped["e2e: cannot listen"]++
		return
	}
	defer rs.close()
	ttls := dnsLibTTLs(c, r)
	type obs struct{ hits, lookups int }
	res := make([]obs, len(ttls))
	withStubResolver(stub, func() {
		var wg sync.WaitGroup
		sem := make(chan struct{}, 4)
		for i, ttl := range ttls {
			wg.Add(1)
			sem <- struct{}{}
			go func(i int, ttl int64) {
				defer wg.Done()
				defer func() { <-sem }()
				h, l := dnsLibObserve(stub, rs, "ttl"+strconv.Itoa(i), ttl)
				res[i] = obs{h, l}
			}(i, ttl)
		}
		wg.Wait()
	})
	st := &kit.Stream{Name: "dns-lib"}
	for i, ttl := range ttls {
		k := &dnsLibCase{Op: "dns-lib", TTL: ttl, Text: "vegeta.DNSCaching(" + time.Duration(ttl).String() + ")"}
		s.Case("dns-lib:"+strconv.FormatInt(ttl, 10), true)
		judgeDNSLib(s, st, k, res[i].hits, res[i].lookups)
	}
	st.Diff(c.Driver, s)
}

func replayDNSLib(c *run.Ctx, s *kit.Summary, raw []byte) {
	var rec struct {
		Input dnsLibCase `json:"input"`
	}
	if err := json.Unmarshal(raw, &rec); err != nil {
		panic(err)
	}
	s.Case("replay", true)
	stub, err := newDNSStub()
	if err != nil {
		panic(err)
	}
	defer stub.close()
	rs, err := newRawServer(1)
	if err != nil {
		panic(err)
	}
	defer rs.close()
	var h, l int
	withStubResolver(stub, func() { h, l = dnsLibObserve(stub, rs, "ttl0", rec.Input.TTL) })
	st := &kit.Stream{Name: "dns-lib"}
	judgeDNSLib(s, st, &rec.Input, h, l)
	st.Diff(c.Driver, s)
}
