package main

// The property's own predicate, written from the statement of C01 and evaluated on the
// real pacers' return values; independent of the Lean model.
//
//   S(t)  declared cumulative schedule (integral of the instantaneous rate over [0,t])
//   upper        at every release instant t' with count n':  n' <= S(t') + 1
//   wait_behind  Pace(t,n) = (w>0, false)  only if  n >= floor(S(t))   (i.e. n+1 > S(t))
//   lower        (constant, sine) if Pace(t,n) = (w>0,false) then at the prescribed release
//                instant tr = t+w:  S(tr) - (n+1) <= 1 + (n+1)·rmax·1ns
//   panic        no parameter values make Pace panic
// Constant schedules are exact (128-bit integers / math/big); linear ones are evaluated in
// float64 and decided exactly with math/big rationals near the boundary; the sine schedule
// needs cos and is evaluated in float64 with an exactly reduced argument.  Float schedules
// get 1e-6 hits (+1e-9 relative) of slack so that rounding noise can never raise an alarm.

import (
	"fmt"
	"math"
	"math/big"
	"math/bits"
)

type u128 struct{ hi, lo uint64 }

func mul128(a, b uint64) u128 { h, l := bits.Mul64(a, b); return u128{h, l} }
func (a u128) add(b u128) u128 {
	l, c := bits.Add64(a.lo, b.lo, 0)
	h, _ := bits.Add64(a.hi, b.hi, c)
	return u128{h, l}
}
func (a u128) addU(b uint64) u128 { return a.add(u128{0, b}) }
func (a u128) cmp(b u128) int {
	switch {
	case a.hi != b.hi:
		if a.hi < b.hi {
			return -1
		}
		return 1
	case a.lo != b.lo:
		if a.lo < b.lo {
			return -1
		}
		return 1
	}
	return 0
}

type sched interface {
	// tooFarAhead: n - S(t) > 1
	tooFarAhead(n uint64, t int64) bool
	// onSchedule: n >= floor(S(t))
	onSchedule(n uint64, t int64) bool
	// tooFarBehind: S(tr) - n1 > 1 + n1·rmax·1ns
	tooFarBehind(n1 uint64, tr int64) bool
	hasLower() bool
	// ahead: n - S(t) > 0 (beyond the float slack): the count is strictly ahead of the schedule
	ahead(n uint64, t int64) bool
	// S as text for reports
	show(t int64) string
}

// ---- constant: S(t) = freq·t/per, exact (freq, per > 0, t >= 0) ----
type constSched struct{ freq, per uint64 }

func (c constSched) tooFarAhead(n uint64, t int64) bool {
	// n·per > freq·t + per
	return mul128(n, c.per).cmp(mul128(c.freq, uint64(t)).addU(c.per)) > 0
}
func (c constSched) onSchedule(n uint64, t int64) bool {
	// (n+1)·per > freq·t
	return mul128(n, c.per).addU(c.per).cmp(mul128(c.freq, uint64(t))) > 0
}
func (c constSched) tooFarBehind(n1 uint64, tr int64) bool {
	// freq·tr > n1·per + per + n1·freq
	return mul128(c.freq, uint64(tr)).cmp(mul128(n1, c.per).addU(c.per).add(mul128(n1, c.freq))) > 0
}
func (c constSched) hasLower() bool { return true }
func (c constSched) ahead(n uint64, t int64) bool {
	return mul128(n, c.per).cmp(mul128(c.freq, uint64(t))) > 0 // n·per > freq·t
}
func (c constSched) show(t int64) string {
	r := new(big.Rat).SetFrac(new(big.Int).Mul(new(big.Int).SetUint64(c.freq), big.NewInt(t)), new(big.Int).SetUint64(c.per))
	return r.FloatString(6)
}

// ---- sine: H(t) = M·t + (A·P/2π)(cos O − cos(O + 2π·t/P)) ----
type sineSched struct {
	m, a, p, o float64 // hits/ns, hits/ns, ns, rad
	pi         int64
}

func newSineSched(x *in) sineSched {
	return sineSched{m: float64(x.MeanFreq) / float64(x.MeanPer), a: float64(x.AmpFreq) / float64(x.AmpPer),
		p: float64(x.Period), o: x.startAt(), pi: x.Period}
}
func (s sineSched) H(t int64) float64 {
	if t <= 0 {
		return 0
	}
	frac := float64(t%s.pi) / s.p // exact reduction of t/P to [0,1)
	return s.m*float64(t) + s.a*s.p/(2*math.Pi)*(math.Cos(s.o)-math.Cos(s.o+2*math.Pi*frac))
}
func slack(h float64) float64 { return 1e-6 + 1e-9*math.Abs(h) }
func (s sineSched) tooFarAhead(n uint64, t int64) bool {
	h := s.H(t)
	return float64(n)-h > 1+slack(h)
}
func (s sineSched) onSchedule(n uint64, t int64) bool {
	h := s.H(t)
	return float64(n)+1 > h-slack(h)
}
func (s sineSched) tooFarBehind(n1 uint64, tr int64) bool {
	h := s.H(tr)
	return h-float64(n1) > 1+float64(n1)*(s.m+math.Abs(s.a))+slack(h)
}
func (s sineSched) hasLower() bool { return true }
func (s sineSched) ahead(n uint64, t int64) bool {
	h := s.H(t)
	return float64(n)-h > slack(h)
}
func (s sineSched) show(t int64) string { return fmt.Sprintf("%.6f", s.H(t)) }

// ---- linear: H(t) = a·x²/2 + b·x, x = t/1e9 s, b = freq/per·1e9; exact rationals near the boundary ----
type linSched struct {
	a, b   float64
	ar, br *big.Rat
}

func newLinSched(x *in) linSched {
	l := linSched{a: x.slope(), b: float64(x.Freq) / float64(x.Per) * 1e9}
	l.ar = new(big.Rat).SetFloat64(l.a)
	l.br = new(big.Rat).SetFrac(new(big.Int).Mul(big.NewInt(x.Freq), big.NewInt(1000000000)), big.NewInt(x.Per))
	return l
}
func (l linSched) Hf(t int64) (h, mag float64) {
	if t < 0 {
		return 0, 0
	}
	x := float64(t) / 1e9
	q, r := l.a*x*x/2, l.b*x
	return q + r, math.Abs(q) + math.Abs(r)
}
func (l linSched) Hr(t int64) *big.Rat {
	if t < 0 {
		return new(big.Rat)
	}
	x := new(big.Rat).SetFrac(big.NewInt(t), big.NewInt(1000000000))
	q := new(big.Rat).Mul(l.ar, x)
	q.Mul(q, x)
	q.Quo(q, big.NewRat(2, 1))
	r := new(big.Rat).Mul(l.br, x)
	return q.Add(q, r)
}

// gt decides  lhs(n) − H(t) > bound  with 1e-6 slack, exactly when the float evaluation is close.
func (l linSched) gt(n float64, nExact uint64, t int64, bound float64, sign float64) bool {
	h, mag := l.Hf(t)
	sl := 1e-6 + 1e-9*(mag+n) // float slack, as for the sine schedule: rounding noise must never raise an alarm
	v := sign*(n-h) - bound
	if math.IsNaN(v) || math.IsInf(v, 0) || math.IsInf(sl, 0) || math.IsNaN(sl) {
		return v > sl // beyond float64 range: decided in floats (NaN: not a violation)
	}
	if math.Abs(v-sl) > 1e-3+1e-12*(mag+n) {
		return v > sl
	}
	d := new(big.Rat).Sub(new(big.Rat).SetInt(new(big.Int).SetUint64(nExact)), l.Hr(t))
	if sign < 0 {
		d.Neg(d)
	}
	bb := new(big.Rat).SetFloat64(bound + sl)
	return d.Cmp(bb) > 0
}
func (l linSched) tooFarAhead(n uint64, t int64) bool { return l.gt(float64(n), n, t, 1, 1) }
func (l linSched) onSchedule(n uint64, t int64) bool {
	// n+1 > H(t) − slack   ⇔  not( H(t) − n > 1 + slack ) up to the boundary
	return !l.gt(float64(n), n, t, 1, -1)
}
func (l linSched) tooFarBehind(uint64, int64) bool { return false }
func (l linSched) hasLower() bool                  { return false }
func (l linSched) ahead(n uint64, t int64) bool    { return l.gt(float64(n), n, t, 0, 1) }
func (l linSched) show(t int64) string             { h, _ := l.Hf(t); return fmt.Sprintf("%.6f", h) }

func scheduleOf(x *in) sched {
	switch x.Pacer {
	case "const":
		if x.Freq > 0 && x.Per > 0 {
			return constSched{uint64(x.Freq), uint64(x.Per)}
		}
	case "sine":
		sp := newSineSched(x)
		// the domain invalid() accepts and in which the schedule is increasing: positive period and mean,
		// amplitude of either sign with a magnitude from zero up to just below the mean
		if x.Period > 0 && x.MeanFreq > 0 && x.MeanPer > 0 && x.AmpPer > 0 && math.Abs(sp.a) < sp.m &&
			!math.IsNaN(sp.o) && !math.IsInf(sp.o, 0) {
			return sp
		}
	case "linear":
		if x.Freq > 0 && x.Per > 0 && !math.IsNaN(x.slope()) && !math.IsInf(x.slope(), 0) {
			return newLinSched(x)
		}
	}
	return nil
}

// subNs: from this rate on (hits per nanosecond) one nanosecond of rounding is a sizeable fraction of a
// hit; violations there are classed apart (time.Duration cannot express the hit interval).
const subNs = 0.1

func linRateNs(x *in, t int64) float64 {
	return (x.slope()*float64(t)/1e9 + float64(x.Freq)/float64(x.Per)*1e9) / 1e9
}

// rateOf: the instantaneous rate (hits per second) whose integral the oracle's schedule is —
// d/dt of S, written out per pacer; scale is the magnitude of its terms (for the tolerance).
func rateOf(x *in, t int64) (rate, scale float64, ok bool) {
	switch x.Pacer {
	case "const":
		if x.Freq > 0 && x.Per > 0 {
			r := float64(x.Freq) / float64(x.Per) * 1e9
			return r, r, true
		}
	case "sine":
		if sch := scheduleOf(x); sch != nil && t >= 0 {
			sp := sch.(sineSched)
			frac := float64(t%sp.pi) / sp.p
			// the code evaluates sin at the unreduced angle O + 2π·t/P, whose rounding error grows with
			// t/P: allow 1e-15 relative of that angle on the amplitude term (scale is multiplied by 1e-9)
			ang := math.Abs(sp.o) + 2*math.Pi*float64(t)/sp.p
			return (sp.m + sp.a*math.Sin(sp.o+2*math.Pi*frac)) * 1e9, (sp.m + math.Abs(sp.a)*(1+ang*1e-6)) * 1e9, true
		}
	case "linear":
		if sch := scheduleOf(x); sch != nil {
			l := sch.(linSched)
			xs := float64(t) / 1e9
			return l.a*xs + l.b, math.Abs(l.a*xs) + l.b, true
		}
	}
	return 0, 0, false
}

// firstOrder: the answer of the documented linear algorithm at (t, n), computed from the oracle's
// own schedule and rate: trunc(round(1e9/rate(t)) · (n+1−H(t))).  ok=false where it is not defined
// or numerically delicate (catch-up branch, rate <= 0, count on an integer boundary of H).
func firstOrder(x *in, l linSched, t int64, n uint64) (w float64, ok bool) {
	if n == 0 || t < 0 {
		return 0, false
	}
	h, mag := l.Hf(t)
	r := l.a*float64(t)/1e9 + l.b
	if !(r > 0) || h < 0 {
		return 0, false
	}
	if fl := math.Floor(h); float64(n) < fl || math.Abs(h-math.Round(h)) < 1e-9*(1+mag) {
		return 0, false
	}
	return math.Trunc(math.Round(1e9/r) * (float64(n+1) - h)), true
}

type finding struct {
	kind, what, expected, observed, clause string
	step                                   int
	key                                    map[string]interface{}
}

const p61 = 2305843009213693951

func digestStep(h uint64, t int64, n uint64) uint64 {
	hi, lo := bits.Mul64(h, 1000003)
	var c uint64
	lo, c = bits.Add64(lo, uint64(t)%p61, 0)
	hi += c
	lo, c = bits.Add64(lo, n, 0)
	hi += c
	_, r := bits.Div64(hi%p61, lo, p61)
	return r
}

type loopOut struct {
	steps  int
	lastT  int64
	lastN  uint64
	digest uint64
	end    int // as closedLoopEnd of the model: 0 exhausted, 1 stop, 2 panic, 3 clock
}

// runLoop drives the real pacer in the closed loop of the statement in virtual time and evaluates
// the oracle at every step.  `each` (optional) sees every Pace call.  At most one finding per clause.
func runLoop(x *in, each func(k int, t int64, n uint64, line string)) (loopOut, []finding) {
	p := x.pacer()
	sch := scheduleOf(x)
	t, n := x.T0, x.N0
	out := loopOut{digest: 7}
	var fs []finding
	seen := map[string]bool{}
	unconverged := false
	add := func(f finding) {
		if !seen[f.clause] {
			seen[f.clause] = true
			fs = append(fs, f)
		}
	}
	var ss sineSched
	if x.Pacer == "sine" && sch != nil {
		ss = sch.(sineSched)
	}
	// linear: the two known findings are about the documented first-order algorithm; an answer that
	// is not the one that algorithm gives makes every later violation of this run a fresh one
	linDeviates := false
	sameInstant := 0
	const floodK = 3
	for k := 0; k < x.Steps; k++ {
		w, stop, pk, line := pace(p, t, n)
		if each != nil {
			each(k, t, n, line)
		}
		if gs != nil {
			if f, bad := negativeWait(gs, x, t, n, w, stop, pk); bad {
				f.step = k
				add(f)
			}
		}
		// "once the declared rate is <= 0 no further hit is due": more than floodK releases at one
		// virtual instant while the rate is not positive AND the count is already ahead of the schedule
		// is a flood (catching up from behind without waiting is what the statement asks for)
		if sch != nil && !pk && !stop && x.Pacer == "linear" {
			if r, _, ok := rateOf(x, t); ok && r <= 0 && w <= 0 && sch.ahead(n, t) {
				sameInstant++
				if sameInstant > floodK {
					kind := "linear_flood_after_rate_nonpositive"
					if x.slope() < 0 && !linDeviates {
						kind = "linear_negative_slope_ahead" // part of that known finding on the unchanged code, gated by model_agrees
					}
					add(finding{kind: kind, clause: "flood", step: k,
						what:     "hits keep being released at one instant although the declared rate is not positive any more",
						expected: fmt.Sprintf("stop (or wait) at t=%d: rate %.3g hits/s, schedule %s", t, r, sch.show(t)),
						observed: fmt.Sprintf("%d consecutive answers (%d, false) at the same instant, count %d", sameInstant, w, n)})
				}
			} else {
				sameInstant = 0
			}
		}
		if x.Pacer == "linear" && sch != nil && !pk && !stop {
			if fo, ok := firstOrder(x, sch.(linSched), t, n); ok && math.Abs(fo) < 9e18 &&
				math.Abs(float64(w)-fo) > math.Max(2, 1e-6*math.Abs(fo)) {
				linDeviates = true
			}
		}
		if pk {
			out.end = 2
			kind := x.Pacer + "_panic"
			if x.Pacer == "const" {
				kind = "const_div_by_zero"
			}
			add(finding{kind: kind, clause: "panic", step: k, what: "Pace panicked",
				expected: "no parameter values make a pacer panic", observed: fmt.Sprintf("panic at Pace(%d, %d)", t, n)})
			return out, fs
		}
		if stop {
			out.end = 1
			return out, fs
		}
		if x.Pacer == "sine" && sch != nil && w < 0 {
			// a negative wait comes from the inversion loop only; is it a converged one?
			if tr := t + w; tr > t || math.Abs(float64(n+1)-ss.H(tr)) >= 2e-3 {
				unconverged = true
			}
		}
		if sch != nil && w > 0 {
			if !sch.onSchedule(n, t) {
				add(finding{kind: x.Pacer + "_wait_while_behind", clause: "wait_behind", step: k,
					what:     "positive wait although the count is behind the schedule",
					expected: fmt.Sprintf("wait <= 0 at elapsed=%d hits=%d (schedule %s)", t, n, sch.show(t)),
					observed: fmt.Sprintf("wait %d", w)})
			}
			if tr := t + w; tr > 0 && sch.hasLower() {
				if x.Pacer == "sine" && math.Abs(float64(n+1)-ss.H(tr)) >= 2e-3 {
					unconverged = true
				}
				if sch.tooFarBehind(n+1, tr) {
					kind := x.Pacer + "_lower"
					switch {
					case x.Pacer == "sine" && ss.m+math.Abs(ss.a) >= subNs:
						kind = "sine_subnanosecond_interval"
					case x.Pacer == "sine" && unconverged:
						kind = "sine_unconverged_runaway"
					}
					add(finding{kind: kind, clause: "lower", step: k,
						what:     "the prescribed release instant leaves the count more than one hit behind the schedule",
						expected: fmt.Sprintf("S(%d) - %d <= 1 + quantisation (S = %s)", tr, n+1, sch.show(tr)),
						observed: fmt.Sprintf("Pace(%d, %d) = wait %d", t, n, w)})
				}
			}
		}
		var stall uint64
		if k < len(x.Stalls) {
			stall = x.Stalls[k]
		}
		t1 := t
		if w > 0 {
			t1 += w
		}
		if t1 < t || stall > uint64(math.MaxInt64-t1) {
			out.end = 3
			return out, fs
		}
		t1 += int64(stall)
		t, n = t1, n+1
		out.steps, out.lastT, out.lastN = k+1, t, n
		out.digest = digestStep(out.digest, t, n)
		if sch != nil && sch.tooFarAhead(n, t) {
			kind := x.Pacer + "_upper"
			var key map[string]interface{}
			switch {
			case x.Pacer == "const" && x.Per%x.Freq != 0:
				kind = "const_truncated_interval_runs_ahead"
			case x.Pacer == "sine" && ss.m+math.Abs(ss.a) >= subNs:
				kind = "sine_subnanosecond_interval"
			case x.Pacer == "sine" && unconverged:
				kind = "sine_unconverged_runaway"
			case x.Pacer == "linear" && linDeviates:
				key = map[string]interface{}{"deviates_from_first_order_wait": true}
			case x.Pacer == "linear" && linRateNs(x, t) >= subNs:
				kind = "linear_subnanosecond_interval"
				key = map[string]interface{}{"rate_hits_per_ns": linRateNs(x, t)}
			case x.Pacer == "linear" && x.slope() < 0:
				kind = "linear_negative_slope_ahead"
			}
			add(finding{kind: kind, clause: "upper", step: k, key: key,
				what:     "the hit count exceeds the declared schedule by more than one hit",
				expected: fmt.Sprintf("count <= S(t)+1 = %s+1 at t=%d", sch.show(t), t),
				observed: fmt.Sprintf("count %d after step %d", n, k)})
		}
	}
	return out, fs
}
