package main

import (
	"fmt"
	"math"
	"strconv"
	"time"

	vegeta "github.com/tsenart/vegeta/v12/lib"
	"vharness/kit"
)

// in is one replayable input of the C01 harness: a pacer with its parameters and either one
// (elapsed, hits) point or a closed-loop run in virtual time from (T0, N0) with a stall history.
type in struct {
	Pacer string `json:"pacer"` // const | sine | linear
	Mode  string `json:"mode"`  // point | loop

	// const: Freq, Per.  linear: Freq, Per = StartAt rate, Slope.
	Freq int64 `json:"freq"`
	Per  int64 `json:"per"`
	// sine
	Period   int64 `json:"period,omitempty"`
	MeanFreq int64 `json:"mean_freq,omitempty"`
	MeanPer  int64 `json:"mean_per,omitempty"`
	AmpFreq  int64 `json:"amp_freq,omitempty"`
	AmpPer   int64 `json:"amp_per,omitempty"`
	// floats travel as IEEE-754 bit patterns (JSON cannot carry NaN/Inf); *_text is for the reader
	StartAtBits uint64 `json:"start_at_bits,omitempty"`
	SlopeBits   uint64 `json:"slope_bits,omitempty"`
	FloatText   string `json:"float_text,omitempty"`

	Elapsed int64  `json:"elapsed"`
	Hits    uint64 `json:"hits"`

	// loop: run Steps steps; stall k is Stalls[k] (0 beyond the list)
	T0     int64    `json:"t0,omitempty"`
	N0     uint64   `json:"n0,omitempty"`
	Steps  int      `json:"steps,omitempty"`
	Stalls []uint64 `json:"stalls,omitempty"`

	// e2e: the real Attack loop runs this pacer for DurationNs of real time
	DurationNs int64 `json:"duration_ns,omitempty"`
}

func (x *in) startAt() float64 { return math.Float64frombits(x.StartAtBits) }
func (x *in) slope() float64   { return math.Float64frombits(x.SlopeBits) }

func (x *in) pacer() vegeta.Pacer {
	switch x.Pacer {
	case "const":
		return vegeta.ConstantPacer{Freq: int(x.Freq), Per: time.Duration(x.Per)}
	case "sine":
		return vegeta.SinePacer{Period: time.Duration(x.Period),
			Mean:    vegeta.Rate{Freq: int(x.MeanFreq), Per: time.Duration(x.MeanPer)},
			Amp:     vegeta.Rate{Freq: int(x.AmpFreq), Per: time.Duration(x.AmpPer)},
			StartAt: x.startAt()}
	case "linear":
		return vegeta.LinearPacer{StartAt: vegeta.Rate{Freq: int(x.Freq), Per: time.Duration(x.Per)}, Slope: x.slope()}
	}
	panic("unknown pacer kind " + x.Pacer)
}

// params renders the parameter tokens of the driver ops.
func (x *in) params() string {
	switch x.Pacer {
	case "const":
		return fmt.Sprintf("%d %d", x.Freq, x.Per)
	case "sine":
		return fmt.Sprintf("%d %d %d %d %d %d", x.Period, x.MeanFreq, x.MeanPer, x.AmpFreq, x.AmpPer, x.StartAtBits)
	case "linear":
		return fmt.Sprintf("%d %d %d", x.Freq, x.Per, x.SlopeBits)
	}
	panic("unknown pacer kind")
}

func (x *in) setText() {
	switch x.Pacer {
	case "sine":
		x.FloatText = "start_at=" + strconv.FormatFloat(x.startAt(), 'g', -1, 64)
	case "linear":
		x.FloatText = "slope=" + strconv.FormatFloat(x.slope(), 'g', -1, 64)
	}
}

// pace calls the real Pace under recover and canonicalises the result.
func pace(p vegeta.Pacer, elapsed int64, hits uint64) (w int64, stop, panicked bool, line string) {
	var d time.Duration
	pk, _ := kit.Recover(func() { d, stop = p.Pace(time.Duration(elapsed), hits) })
	switch {
	case pk:
		return 0, false, true, "panic"
	case stop:
		return int64(d), true, false, "ok stop"
	}
	return int64(d), false, false, "ok wait " + strconv.FormatInt(int64(d), 10)
}

func rateLine(p vegeta.Pacer, elapsed int64) (float64, string) {
	var f float64
	pk, _ := kit.Recover(func() { f = p.Rate(time.Duration(elapsed)) })
	if pk {
		return 0, "panic"
	}
	if math.IsNaN(f) {
		return f, "ok nan"
	}
	return f, "ok " + strconv.FormatUint(math.Float64bits(f), 10)
}

// key fields common to all violations of one input
func (x *in) key(extra map[string]interface{}) map[string]interface{} {
	k := map[string]interface{}{"pacer": x.Pacer, "mode": x.Mode}
	switch x.Pacer {
	case "const":
		k["freq_gt_per"] = x.Freq > x.Per
		k["freq_divides_per"] = x.Freq != 0 && x.Per%x.Freq == 0
	case "sine":
		m := float64(x.MeanFreq) / float64(x.MeanPer)
		a := float64(x.AmpFreq) / float64(x.AmpPer)
		r := math.Abs(a) / m
		if math.IsNaN(r) || math.IsInf(r, 0) || m <= 0 {
			r = -1
		}
		k["amp_over_mean"] = r // magnitude; the sign is in amp_negative
		k["amp_negative"] = a < 0
		hpp := m * float64(x.Period)
		if math.IsNaN(hpp) || math.IsInf(hpp, 0) {
			hpp = -1
		}
		k["hits_per_period"] = hpp
		k["trough_hits_per_period"] = hpp * (1 - r)
		pk := m + math.Abs(a)
		if math.IsNaN(pk) || math.IsInf(pk, 0) {
			pk = -1
		}
		k["peak_hits_per_ns"] = pk
	case "linear":
		k["slope_negative"] = x.slope() < 0
		k["slope_finite"] = !math.IsNaN(x.slope()) && !math.IsInf(x.slope(), 0)
		if b := float64(x.Freq) / float64(x.Per); !math.IsNaN(b) && !math.IsInf(b, 0) {
			k["start_hits_per_ns"] = b
		}
	}
	for a, b := range extra {
		k[a] = b
	}
	return k
}
