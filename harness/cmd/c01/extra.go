package main

// Oracles added by the mutation-minded audit (all derived from the property text, all evaluated on
// the real code's outputs):
//   rate         Rate(t) is the derivative of the declared schedule ("the integral of its instantaneous rate")
//   overflow     linear: an overflowing wait stops the attack instead of wrapping; sine, linear: hits == MaxUint64 stops
//   negative     sine: negative period / mean stop the attack
//   contract     sine, linear (slope >= 0): at a state consistent with the closed loop (n <= S(t)+1) a
//                positive wait w releases the next hit on schedule: n+1 <= S(t+w)+1, and for the sine
//                pacer S(t+w)-(n+1) <= 1 + quantisation
//   e2e          the real Attack loop driven by the real pacers: hit k never starts before the schedule
//                allows it (a lower bound on real time only), a stopping pacer releases nothing

import (
	"fmt"
	"math"
	"net/http"
	"sort"
	"sync"
	"time"

	vegeta "github.com/tsenart/vegeta/v12/lib"
	"vharness/kit"
)

// negativeWait: "Pace never answers with a negative wait and stop=false" (valid parameters, elapsed >= 0):
// a pacer either waits (>= 0) or stops; a negative duration is what a wrapped product looks like.
// A wait of exactly MinInt64 is the wrapped float->int64 conversion (kind linear_overflow_wraps).
func negativeWait(s *kit.Summary, x *in, t int64, n uint64, w int64, stop, pk bool) (finding, bool) {
	if pk || stop || w >= 0 || t < 0 || scheduleOf(x) == nil {
		return finding{}, false
	}
	kind := x.Pacer + "_negative_wait"
	if x.Pacer == "linear" {
		// beyond one hit per nanosecond (interval rounds to 0) and for schedules beyond 1e18 hits the
		// float products are 0·Inf / Inf−Inf (NaN): not judged
		r, _, _ := rateOf(x, t)
		h, _ := scheduleOf(x).(linSched).Hf(t)
		if !(math.Abs(r) <= 1e9) || !(math.Abs(h) < 1e18) {
			s.Count("linear:negative_wait_outside_float_range_not_judged")
			return finding{}, false
		}
		if w == math.MinInt64 {
			kind = "linear_overflow_wraps"
		}
	}
	return finding{kind: kind, clause: "negative_wait",
		what:     "Pace answered with a negative wait and stop=false",
		expected: "a wait >= 0, or stop", observed: fmt.Sprintf("Pace(%d, %d) = (%d, false)", t, n, w)}, true
}

// hitsOverflow: at hits == MaxUint64 the next count does not exist; "arithmetic overflow stops the attack".
func hitsOverflow(s *kit.Summary, x *in, w int64, stop, pk bool) {
	if x.Hits != math.MaxUint64 || pk || stop || scheduleOf(x) == nil || x.Elapsed < 0 {
		return
	}
	report(s, x, finding{kind: x.Pacer + "_hits_overflow_not_stopped", clause: "hits_overflow",
		what:     "hits+1 overflows uint64 but the attack is not stopped",
		expected: "stop", observed: fmt.Sprintf("(%d, false)", w)})
}

func rateOracle(s *kit.Summary, x *in, t int64) {
	want, scale, ok := rateOf(x, t)
	if !ok {
		return
	}
	var got float64
	pk, _ := kit.Recover(func() { got = x.pacer().Rate(time.Duration(t)) })
	s.Count(x.Pacer + ".rate_oracle:checked")
	if pk || math.IsNaN(got) || math.Abs(got-want) > 1e-9*scale+1e-12 {
		obs := fmt.Sprintf("Rate(%d) = %g", t, got)
		if pk {
			obs = "Rate panicked"
		}
		report(s, x, finding{kind: x.Pacer + "_rate_not_schedule_derivative", clause: "rate",
			what:     "Rate() is not the instantaneous rate whose integral is the declared schedule",
			expected: fmt.Sprintf("%g hits/s", want), observed: obs})
	}
}

// linearOverflow: wait = interval·(hits+1−H(t)) reaching 2^63 must stop the attack, not wrap
// (a margin of 1e-9 relative keeps float noise of the oracle's own product out).
func linearOverflow(st *streams, s *kit.Summary, x *in, w int64, stop, pk bool) {
	sch := scheduleOf(x)
	if sch == nil || pk || x.Elapsed < 0 || x.Hits == 0 || x.slope() < 0 {
		return
	}
	l := sch.(linSched)
	h, _ := l.Hf(x.Elapsed)
	r := l.a*float64(x.Elapsed)/1e9 + l.b
	if !(r > 0) || !(h >= 0) || float64(x.Hits) < math.Floor(h) {
		return
	}
	interval := math.Round(1e9 / r)
	exact := interval * (float64(x.Hits+1) - h)
	if !(exact >= 9.223372036854775808e18*(1+1e-9)) {
		return
	}
	if stop {
		s.Count("linear.point:overflowing_wait_stopped")
		return
	}
	report(s, x, judged(st, x, finding{kind: "linear_overflow_wraps", clause: "wrap",
		what:     "an overflowing wait does not stop the attack",
		expected: fmt.Sprintf("stop (interval %.0f ns x %.3f hits to wait exceeds MaxInt64)", interval, float64(x.Hits+1)-h),
		observed: fmt.Sprintf("(%d, false)", w)}))
}

// pointContract: see the header.  Only states the closed loop can be in (n <= S(t)+1) are judged.
func pointContract(st *streams, s *kit.Summary, x *in, w int64, stop, pk bool) {
	sch := scheduleOf(x)
	if sch == nil || pk || stop || w <= 0 || x.Elapsed < 0 || x.Hits == 0 || w > math.MaxInt64-x.Elapsed {
		return
	}
	t, n, tr := x.Elapsed, x.Hits, x.Elapsed+w
	switch x.Pacer {
	case "sine":
		ss := sch.(sineSched)
		if ss.m+math.Abs(ss.a) >= subNs/10 || float64(n) > ss.H(t)+1 {
			return
		}
		s.Count("sine.contract:checked")
		h := ss.H(tr)
		if float64(n+1) > h+1+slack(h) {
			report(s, x, finding{kind: "sine_upper", clause: "point_contract",
				what:     "the prescribed release instant is more than one hit ahead of the schedule",
				expected: fmt.Sprintf("%d <= S(%d)+1 = %.6f+1", n+1, tr, h), observed: fmt.Sprintf("wait %d", w)})
		}
		if ss.tooFarBehind(n+1, tr) {
			report(s, x, finding{kind: "sine_lower", clause: "point_contract",
				what:     "the prescribed release instant leaves the count more than one hit behind the schedule",
				expected: fmt.Sprintf("S(%d) - %d <= 1 + quantisation (S = %.6f)", tr, n+1, h), observed: fmt.Sprintf("wait %d", w)})
		}
	case "linear":
		l := sch.(linSched)
		h0, _ := l.Hf(t)
		if l.a < 0 || (l.a*float64(tr)/1e9+l.b)/1e9 >= subNs/10 || float64(n) > h0+1 {
			return
		}
		s.Count("linear.contract:checked")
		if l.gt(float64(n+1), n+1, tr, 1, 1) {
			report(s, x, judged(st, x, finding{kind: "linear_upper", clause: "point_contract",
				what:     "the prescribed release instant is more than one hit ahead of the schedule (slope >= 0)",
				expected: fmt.Sprintf("%d <= S(%d)+1 = %s+1", n+1, tr, l.show(tr)), observed: fmt.Sprintf("wait %d", w)}))
		}
	}
}

// ---- the real Attack loop driven by the real pacers ----

type stampRT struct {
	mu sync.Mutex
	at []time.Time
}

func (r *stampRT) RoundTrip(*http.Request) (*http.Response, error) {
	now := time.Now()
	r.mu.Lock()
	r.at = append(r.at, now)
	r.mu.Unlock()
	return &http.Response{StatusCode: 200, Body: http.NoBody, Header: http.Header{}}, nil
}

// e2e runs x.pacer() through (*Attacker).Attack for x.DurationNs of real time.  Every hit enters the
// transport after the loop slept the wait the pacer asked for, and the attack began no earlier than
// T0, so `entry_k − T0` is a LOWER bound of the elapsed time at which hit k was released; with a
// non-decreasing schedule the statement gives k <= S(entry_k − T0) + 1 (constant pacer: k <= S).
func e2e(s *kit.Summary, x *in) {
	rt := &stampRT{}
	atk := vegeta.NewAttacker(vegeta.Workers(2), vegeta.Client(&http.Client{Transport: rt}))
	tr := vegeta.NewStaticTargeter(vegeta.Target{Method: "GET", URL: "http://verif.invalid/"})
	sch := scheduleOf(x)
	t0 := time.Now()
	res := atk.Attack(tr, x.pacer(), time.Duration(x.DurationNs), "c01")
	nres, closed := 0, false
	timeout := time.After(time.Duration(x.DurationNs) + 20*time.Second)
	for !closed {
		select {
		case _, ok := <-res:
			if !ok {
				closed = true
			} else {
				nres++
			}
		case <-timeout:
			atk.Stop()
			report(s, x, finding{kind: "attack_loop_does_not_end", clause: "e2e", what: "the attack did not end 20s after its duration",
				expected: "results channel closed", observed: fmt.Sprintf("%d results so far", nres)})
			return
		}
	}
	rt.mu.Lock()
	at := append([]time.Time(nil), rt.at...)
	rt.mu.Unlock()
	sort.Slice(at, func(i, j int) bool { return at[i].Before(at[j]) })
	s.CountN("e2e:hits", len(at))
	s.Case(fmt.Sprintf("e2e %s %s %d", x.Pacer, x.params(), x.DurationNs), len(at) >= 5)
	stopping := (x.Pacer == "const" || x.Pacer == "linear") && x.Freq != 0 && x.Per != 0 && (x.Freq < 0 || x.Per < 0)
	if stopping {
		s.Count("e2e:stopping_pacer")
		if len(at) != 0 {
			report(s, x, finding{kind: "attack_loop_ignores_stop", clause: "e2e", what: "hits were released although the pacer says stop",
				expected: "0 hits", observed: fmt.Sprintf("%d hits", len(at))})
		}
		return
	}
	if sch == nil {
		return
	}
	for i, a := range at {
		k, e := uint64(i+1), int64(a.Sub(t0))
		bad := false
		if c, ok := sch.(constSched); ok {
			bad = mul128(k, c.per).cmp(mul128(c.freq, uint64(e))) > 0 // k·per > freq·e
		} else {
			bad = sch.tooFarAhead(k, e)
		}
		if bad {
			report(s, x, finding{kind: "attack_loop_ahead_of_pacer", clause: "e2e",
				what:     "the real attack loop released a hit before the pacer's schedule allows it",
				expected: fmt.Sprintf("hit %d not before the schedule reaches it (S(%d ns) = %s)", k, e, sch.show(e)),
				observed: fmt.Sprintf("hit %d entered the transport %d ns after the attack was started", k, e)})
			return
		}
	}
}

func e2eCases(r *kit.Rng) []*in {
	f := func(v float64) uint64 { return math.Float64bits(v) }
	xs := []*in{
		{Pacer: "const", Freq: 1000, Per: 1000000000, DurationNs: 60e6},
		{Pacer: "const", Freq: r.Range(200, 5000), Per: 1000000000, DurationNs: 50e6},
		{Pacer: "const", Freq: 3, Per: 1000000, DurationNs: 30e6}, // Freq does not divide Per
		{Pacer: "const", Freq: -1, Per: 1000000000, DurationNs: 20e6},
		{Pacer: "linear", Freq: 500, Per: 1000000000, SlopeBits: f(float64(r.Range(0, 40000))), DurationNs: 60e6},
		{Pacer: "linear", Freq: 1, Per: -1000000000, SlopeBits: f(1), DurationNs: 20e6},
		{Pacer: "sine", Period: 40000000, MeanFreq: 2000, MeanPer: 1000000000, AmpFreq: r.PickI64([]int64{1500, -1500, 1900}), AmpPer: 1000000000,
			StartAtBits: f(sineStarts[r.Pick(4)]), DurationNs: 80e6},
	}
	for _, x := range xs {
		x.Mode = "e2e"
		x.setText()
	}
	return xs
}
