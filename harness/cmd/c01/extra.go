package main

// Oracles added by the mutation-minded audit (all derived from the property text, all evaluated on
// the real code's outputs):
//   rate         Rate(t) is the derivative of the declared schedule ("the integral of its instantaneous rate")
//   overflow     linear: an overflowing wait stops the attack instead of wrapping; sine, linear: hits == MaxUint64 stops
//   negative     sine: negative period / mean stop the attack
//   contract     sine, linear (slope >= 0): at a state consistent with the closed loop (n <= S(t)+1) a
//                positive wait w releases the next hit on schedule: n+1 <= S(t+w)+1, and for the sine
//                pacer S(t+w)-(n+1) <= 1 + quantisation
//   e2e          the real Attack loop driven by the real pacers: hit k never starts before the schedule
//                allows it (a lower bound on real time only), a stopping pacer releases nothing

import (
	"fmt"
	"math"
	"net/http"
	"sort"
	"sync"
	"time"

	vegeta "github.com/tsenart/vegeta/v12/lib"
	"vharness/kit"
)

// negativeWait: "arithmetic overflow stops the attack instead of wrapping" as far as it can be read off
// the answer: a NEGATIVE wait with stop=false although the count is strictly AHEAD of the schedule.
// (The text does not fix waits: a negative or zero wait while the count is on or behind the schedule
// just means "no wait" and is fine; ahead of the schedule a pacer has to wait or stop, and a negative
// duration there is what a wrapped product looks like.)
func negativeWait(s *kit.Summary, x *in, t int64, n uint64, w int64, stop, pk bool) (finding, bool) {
	sch := scheduleOf(x)
	if pk || stop || w >= 0 || t < 0 || sch == nil {
		return finding{}, false
	}
	if !sch.ahead(n, t) {
		s.Count(x.Pacer + ":negative_wait_while_not_ahead_accepted")
		return finding{}, false
	}
	kind := x.Pacer + "_negative_wait"
	if x.Pacer == "linear" {
		// beyond one hit per nanosecond (interval rounds to 0) and for schedules beyond 1e18 hits the
		// float products are 0·Inf / Inf−Inf (NaN): not judged
		r, _, _ := rateOf(x, t)
		h, _ := sch.(linSched).Hf(t)
		if !(math.Abs(r) <= 1e9) || !(math.Abs(h) < 1e18) {
			s.Count("linear:negative_wait_outside_float_range_not_judged")
			return finding{}, false
		}
		if w == math.MinInt64 {
			kind = "linear_overflow_wraps"
		}
	}
	if x.Pacer == "const" {
		kind = "const_overflow_guard_off_by_one"
	}
	return finding{kind: kind, clause: "negative_wait",
		what:     "negative wait with stop=false although the count is ahead of the schedule (a wrapped value)",
		expected: fmt.Sprintf("a wait >= 0, or stop (schedule %s)", sch.show(t)), observed: fmt.Sprintf("Pace(%d, %d) = (%d, false)", t, n, w)}, true
}

// overflowRegion: "arithmetic overflow stops the attack instead of wrapping", at the counts where the
// schedule cannot reach hits+1 within representable time (S(MaxInt64 ns) < hits+1: the deadline of the
// next hit does not fit a time.Duration).  There the answer has to be stop, or a wait after which the
// count is still within one hit of the schedule, hits <= S(elapsed+wait); anything else — typically
// (0,false) or a small wait out of a wrapped deadline — puts the count ahead of the declared schedule
// for good.  Not judged: a wait whose end lies beyond MaxInt64, negative slopes, rates of 0.01 hit/ns up.
func overflowRegion(s *kit.Summary, x *in, w int64, stop, pk bool) {
	sch := scheduleOf(x)
	if sch == nil || pk || x.Elapsed < 0 || x.Hits == math.MaxUint64 || !sch.ahead(x.Hits+1, math.MaxInt64) {
		return
	}
	switch x.Pacer {
	case "linear":
		if l := sch.(linSched); l.a < 0 || (l.a*9.223372036854775807e9+l.b)/1e9 >= subNs/10 {
			return
		}
	case "sine":
		if ss := sch.(sineSched); ss.m+math.Abs(ss.a) >= subNs/10 {
			return
		}
	}
	if stop {
		s.Count(x.Pacer + ".overflow_region:stopped")
		return
	}
	wp := w
	if wp < 0 {
		wp = 0
	}
	if wp > math.MaxInt64-x.Elapsed {
		s.Count(x.Pacer + ".overflow_region:wait_ends_beyond_maxint64_not_judged")
		return
	}
	if !sch.ahead(x.Hits, x.Elapsed+wp) {
		s.Count(x.Pacer + ".overflow_region:wait_within_one_hit")
		return
	}
	kind := map[string]string{"const": "const_overflow_guard_off_by_one", "linear": "linear_overflow_wraps", "sine": "sine_overflow_wraps"}[x.Pacer]
	report(s, x, finding{kind: kind, clause: "overflow_region",
		what:     "the next hit's deadline is beyond the representable time, yet the answer is neither stop nor a wait that keeps the count within one hit of the schedule (a wrapped deadline)",
		expected: fmt.Sprintf("stop, or a wait w with %d <= S(%d+w)  (S(MaxInt64) = %s)", x.Hits, x.Elapsed, sch.show(math.MaxInt64)),
		observed: fmt.Sprintf("(%d, false), S(%d) = %s", w, x.Elapsed+wp, sch.show(x.Elapsed+wp))})
}

func rateOracle(s *kit.Summary, x *in, t int64) {
	want, scale, ok := rateOf(x, t)
	if !ok {
		return
	}
	var got float64
	pk, _ := kit.Recover(func() { got = x.pacer().Rate(time.Duration(t)) })
	s.Count(x.Pacer + ".rate_oracle:checked")
	if pk || math.IsNaN(got) || math.Abs(got-want) > 1e-9*scale+1e-12 {
		obs := fmt.Sprintf("Rate(%d) = %g", t, got)
		if pk {
			obs = "Rate panicked"
		}
		report(s, x, finding{kind: x.Pacer + "_rate_not_schedule_derivative", clause: "rate",
			what:     "Rate() is not the instantaneous rate whose integral is the declared schedule",
			expected: fmt.Sprintf("%g hits/s", want), observed: obs})
	}
}

// linearOverflow: where the first-order product interval·(hits+1−H(t)) reaches 2^63 the unchanged code
// stops.  The text demands only that nothing WRAPS there (negativeWait judges that); a positive wait is
// as good as a stop.  This function only records how the region is answered.
func linearOverflow(st *streams, s *kit.Summary, x *in, w int64, stop, pk bool) {
	sch := scheduleOf(x)
	if sch == nil || pk || x.Elapsed < 0 || x.Hits == 0 || x.slope() < 0 {
		return
	}
	l := sch.(linSched)
	h, _ := l.Hf(x.Elapsed)
	r := l.a*float64(x.Elapsed)/1e9 + l.b
	if !(r > 0) || !(h >= 0) || float64(x.Hits) < math.Floor(h) {
		return
	}
	if exact := math.Round(1e9/r) * (float64(x.Hits+1) - h); exact >= 9.223372036854775808e18*(1+1e-9) {
		switch {
		case stop:
			s.Count("linear.point:overflowing_wait_stopped")
		case w >= 0:
			s.Count("linear.point:overflowing_wait_answered_with_a_wait")
		default:
			s.Count("linear.point:overflowing_wait_negative")
		}
	}
}

// pointContract: the lower clause at one point (constant and sine pacers): from a state the closed loop
// can be in (n <= S(t)+1) a positive wait w prescribes the release instant t+w, at which the count n+1
// may be at most one hit plus the nanosecond quantisation behind the schedule.  (The upper clause is
// judged along the closed loops only: whether a state ahead of the schedule is reachable depends on
// the pacer itself.)
func pointContract(st *streams, s *kit.Summary, x *in, w int64, stop, pk bool) {
	sch := scheduleOf(x)
	if sch == nil || !sch.hasLower() || pk || stop || w <= 0 || x.Elapsed < 0 || w > math.MaxInt64-x.Elapsed {
		return
	}
	t, n, tr := x.Elapsed, x.Hits, x.Elapsed+w
	if n == math.MaxUint64 || sch.tooFarAhead(n, t) {
		return
	}
	if ss, ok := sch.(sineSched); ok && ss.m+math.Abs(ss.a) >= subNs/10 {
		return
	}
	s.Count(x.Pacer + ".contract:checked")
	if sch.tooFarBehind(n+1, tr) {
		report(s, x, finding{kind: x.Pacer + "_lower", clause: "point_contract",
			what:     "the prescribed release instant leaves the count more than one hit behind the schedule",
			expected: fmt.Sprintf("S(%d) - %d <= 1 + quantisation (S = %s)", tr, n+1, sch.show(tr)), observed: fmt.Sprintf("wait %d", w)})
	}
}

// ---- the real Attack loop driven by the real pacers ----

type stampRT struct {
	mu sync.Mutex
	at []time.Time
}

func (r *stampRT) RoundTrip(*http.Request) (*http.Response, error) {
	now := time.Now()
	r.mu.Lock()
	r.at = append(r.at, now)
	r.mu.Unlock()
	return &http.Response{StatusCode: 200, Body: http.NoBody, Header: http.Header{}}, nil
}

// e2e runs x.pacer() through (*Attacker).Attack for x.DurationNs of real time.  Every hit enters the
// transport after the loop slept the wait the pacer asked for, and the attack began no earlier than
// T0, so `entry_k − T0` is a LOWER bound of the elapsed time at which hit k was released; with a
// non-decreasing schedule the statement gives k <= S(entry_k − T0) + 1.
func e2e(s *kit.Summary, x *in) {
	rt := &stampRT{}
	atk := vegeta.NewAttacker(vegeta.Workers(2), vegeta.Client(&http.Client{Transport: rt}))
	tr := vegeta.NewStaticTargeter(vegeta.Target{Method: "GET", URL: "http://verif.invalid/"})
	sch := scheduleOf(x)
	t0 := time.Now()
	res := atk.Attack(tr, x.pacer(), time.Duration(x.DurationNs), "c01")
	nres, closed := 0, false
	timeout := time.After(time.Duration(x.DurationNs) + 20*time.Second)
	for !closed {
		select {
		case _, ok := <-res:
			if !ok {
				closed = true
			} else {
				nres++
			}
		case <-timeout:
			atk.Stop()
			// that the attack ends is the sibling property C04's clause: no verdict from this channel
			s.Skipped["e2e: the attack did not end within 20s after its duration (C04's clause), run not judged"]++
			return
		}
	}
	rt.mu.Lock()
	at := append([]time.Time(nil), rt.at...)
	rt.mu.Unlock()
	sort.Slice(at, func(i, j int) bool { return at[i].Before(at[j]) })
	s.CountN("e2e:hits", len(at))
	s.Case(fmt.Sprintf("e2e %s %s %d", x.Pacer, x.params(), x.DurationNs), len(at) >= 5)
	stopping := (x.Pacer == "const" || x.Pacer == "linear") && x.Freq != 0 && x.Per != 0 && (x.Freq < 0 || x.Per < 0)
	if stopping {
		// "when the pacer says stop no further hit is released" is C04's clause; here it is only recorded
		s.Count(fmt.Sprintf("e2e:stopping_pacer_hits=%d", len(at)))
		return
	}
	if sch == nil {
		return
	}
	for i, a := range at {
		k, e := uint64(i+1), int64(a.Sub(t0))
		if sch.tooFarAhead(k, e) {
			report(s, x, finding{kind: "attack_loop_ahead_of_pacer", clause: "e2e",
				what:     "the real attack loop released a hit before the pacer's schedule allows it",
				expected: fmt.Sprintf("hit %d not before the schedule reaches it (S(%d ns) = %s)", k, e, sch.show(e)),
				observed: fmt.Sprintf("hit %d entered the transport %d ns after the attack was started", k, e)})
			return
		}
	}
}

func e2eCases(r *kit.Rng) []*in {
	f := func(v float64) uint64 { return math.Float64bits(v) }
	xs := []*in{
		{Pacer: "const", Freq: 1000, Per: 1000000000, DurationNs: 60e6},
		{Pacer: "const", Freq: r.Range(200, 5000), Per: 1000000000, DurationNs: 50e6},
		{Pacer: "const", Freq: 3, Per: 1000000, DurationNs: 30e6}, // Freq does not divide Per
		{Pacer: "const", Freq: -1, Per: 1000000000, DurationNs: 20e6},
		{Pacer: "linear", Freq: 500, Per: 1000000000, SlopeBits: f(float64(r.Range(0, 40000))), DurationNs: 60e6},
		{Pacer: "linear", Freq: 1, Per: -1000000000, SlopeBits: f(1), DurationNs: 20e6},
		{Pacer: "sine", Period: 40000000, MeanFreq: 2000, MeanPer: 1000000000, AmpFreq: r.PickI64([]int64{1500, -1500, 1900}), AmpPer: 1000000000,
			StartAtBits: f(sineStarts[r.Pick(4)]), DurationNs: 80e6},
	}
	for _, x := range xs {
		x.Mode = "e2e"
		x.setText()
	}
	return xs
}
