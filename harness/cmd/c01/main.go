// Harness of property C01 — pacers keep the hit count on their declared schedule in closed loop.
//
//	(i)   point cases (kind, params, elapsed, hits): real Pace/Rate (under recover) against the Lean model;
//	      constant and linear pacers exactly, the sine pacer as integers with tolerance max(2ns, 1e-9·|w|)
//	(ii)  closed-loop trajectories in virtual time with random stall histories, step by step
//	(iii) the property's own predicate (oracle.go) on the real pacers along those trajectories and on the points
package main

import (
	"encoding/json"
	"fmt"
	"math"
	"math/big"
	"os"
	"path/filepath"
	"sort"
	"strconv"
	"strings"
	"time"

	"vharness/kit"
	"vharness/run"
)

func main() { run.Main("C01", runC01) }

const chunk = 200000

// exact stream with chunked flushing
type xstream struct {
	kit.Stream
	c *run.Ctx
	s *kit.Summary
}

func (x *xstream) add(op, impl string) {
	x.Add(op, impl)
	if len(x.Ops) >= chunk {
		x.flush()
	}
}
func (x *xstream) flush() {
	if len(x.Ops) > 0 {
		x.Diff(x.c.Driver, x.s)
		x.Ops, x.Impl = nil, nil
	}
}

// tolerant stream for the sine pacer: both lines are parsed and compared numerically
type tstream struct {
	name      string
	ops, impl []string
	scale     []float64 // rate ops: magnitude for the absolute tolerance
	c         *run.Ctx
	s         *kit.Summary
}

func (t *tstream) add(op, impl string, scale float64) {
	t.ops, t.impl, t.scale = append(t.ops, op), append(t.impl, impl), append(t.scale, scale)
	if len(t.ops) >= chunk {
		t.flush()
	}
}

func (t *tstream) flush() {
	if len(t.ops) == 0 {
		return
	}
	t.s.Streams[t.name] += len(t.ops)
	outs, err := kit.RunDriver(t.c.Driver, t.ops)
	if err != nil {
		t.s.Diverge(t.name, "(driver failure)", "", err.Error())
	} else {
		var bad []int
		for i := range t.ops {
			if !t.compare(t.impl[i], outs[i], t.scale[i]) {
				bad = append(bad, i)
			}
		}
		t.settle(bad, outs)
	}
	t.ops, t.impl, t.scale = nil, nil, nil
}

// settle: for the sine Pace points that differ, ask the model whether the point is ill-conditioned
// (its result flips under a 4-ulp change of sin/cos or a 1ns change of a guess); those are counted
// as skipped, every other difference is a divergence.
func (t *tstream) settle(bad []int, outs []string) {
	if len(bad) == 0 {
		return
	}
	ill := make([]string, len(bad))
	if !strings.HasSuffix(t.name, "rate") {
		q := make([]string, len(bad))
		for j, i := range bad {
			q[j] = strings.Replace(t.ops[i], "c01.sine.pace", "c01.sine.ill", 1)
		}
		if r, err := kit.RunDriver(t.c.Driver, q); err == nil {
			ill = r
		}
	}
	for j, i := range bad {
		if ill[j] == "ok ill=1" {
			t.s.Skipped[t.name+": ill-conditioned (result flips under a 4-ulp change of sin/cos or a 1ns change of a guess), not compared"]++
			continue
		}
		t.s.Diverge(t.name, t.ops[i], t.impl[i], outs[i])
	}
}

// compare reports whether implementation and model agree (exactly or within the tolerance).
func (t *tstream) compare(impl, model string, scale float64) bool {
	mf := strings.Fields(model)
	fi := strings.Fields(impl)
	if strings.HasSuffix(t.name, "rate") {
		if impl == model {
			t.s.Count(t.name + ":bit_exact")
			return true
		}
		if len(mf) == 2 && len(fi) == 2 && mf[0] == "ok" && fi[0] == "ok" && mf[1] != "nan" && fi[1] != "nan" {
			a, e1 := strconv.ParseUint(fi[1], 10, 64)
			b, e2 := strconv.ParseUint(mf[1], 10, 64)
			if e1 == nil && e2 == nil {
				fa, fb := math.Float64frombits(a), math.Float64frombits(b)
				if math.Abs(fa-fb) <= 1e-12*scale+1e-12*math.Abs(fa) {
					t.s.Count(t.name + ":within_tolerance")
					return true
				}
			}
		}
		return false
	}
	core := mf
	for len(core) > 0 && strings.Contains(core[len(core)-1], "=") {
		if strings.HasPrefix(core[len(core)-1], "exit=") {
			t.s.Count("sine.exit:" + core[len(core)-1][5:])
		}
		core = core[:len(core)-1]
	}
	if strings.Join(core, " ") == impl {
		t.s.Count(t.name + ":exact")
		return true
	}
	if len(core) == 3 && len(fi) == 3 && core[1] == "wait" && fi[1] == "wait" {
		a, e1 := strconv.ParseInt(fi[2], 10, 64)
		b, e2 := strconv.ParseInt(core[2], 10, 64)
		if e1 == nil && e2 == nil {
			d := new(big.Int).Sub(big.NewInt(a), big.NewInt(b))
			df, _ := new(big.Float).SetInt(d.Abs(d)).Float64()
			if df <= math.Max(2, 1e-9*math.Abs(float64(a))) {
				t.s.Count(t.name + ":within_tolerance")
				return true
			}
		}
	}
	return false
}

// set once in runC01: the streams (driver access for `judged`) and the summary (counters in the oracle)
var (
	gst *streams
	gs  *kit.Summary
)

func report(s *kit.Summary, x *in, f finding) {
	if _, done := f.key["model_agrees"]; !done && gst != nil && f.clause != "rate" {
		f = judged(gst, x, f)
	}
	k := x.key(f.key)
	k["clause"] = f.clause
	if r, ok := k["amp_over_mean"].(float64); ok {
		b := ">=0.99"
		switch {
		case r < 0.5:
			b = "<0.5"
		case r < 0.75:
			b = "0.5..0.75"
		case r < 0.9:
			b = "0.75..0.9"
		case r < 0.99:
			b = "0.9..0.99"
		}
		s.Count("sine.violation:" + f.kind + ":" + f.clause + ":amp_over_mean" + b)
		if os.Getenv("C01_DEBUG") != "" && r < 0.75 {
			y := *x
			y.Stalls = nil
			fmt.Fprintf(os.Stderr, "DEBUG %s %s %v %+v nstalls=%d exp=%s obs=%s\n", f.kind, f.clause, k, y, len(x.Stalls), f.expected, f.observed)
		}
	}
	s.Violate(kit.Violation{Kind: f.kind, What: f.what, Input: x, Expected: f.expected, Observed: f.observed, Key: k})
}

// constPointFindings: the sign/zero, no-panic, no-wrap and positive-wait clauses at one point.
func constPointFindings(x *in, w int64, stop, panicked bool) []finding {
	var fs []finding
	freq, per := x.Freq, x.Per
	if panicked {
		return []finding{{kind: "const_div_by_zero", clause: "panic", what: "ConstantPacer.Pace panicked",
			expected: "no parameter values make a pacer panic", observed: "panic (integer divide by zero)"}}
	}
	switch {
	case (freq == 0 || per == 0) && (freq < 0 || per < 0):
		return fs // one field zero, the other negative: the text allows "unlimited" as well as "stop"
	case freq == 0 || per == 0:
		if stop || w > 0 {
			fs = append(fs, finding{kind: "const_zero_not_unlimited", clause: "zero", what: "zero frequency/unit must mean unlimited rate",
				expected: "no wait, no stop", observed: fmt.Sprintf("(%d, %v)", w, stop)})
		}
		return fs
	case freq < 0 || per < 0:
		if !stop {
			fs = append(fs, finding{kind: "const_negative_not_stopped", clause: "negative", what: "negative frequency/unit must stop the attack",
				expected: "stop", observed: fmt.Sprintf("(%d, false)", w)})
		}
		return fs
	}
	if x.Elapsed < 0 || stop {
		// a stop is never forbidden for positive parameters; a negative elapsed is not an elapsed time
		return fs
	}
	// The text does not fix the wait, only: a positive wait only when the count is on or ahead of the
	// schedule, (hits+1)·per > freq·elapsed.  (Wrapped values: negativeWait; lower clause: pointContract.)
	if w > 0 {
		n1 := new(big.Int).Add(new(big.Int).SetUint64(x.Hits), big.NewInt(1))
		if new(big.Int).Mul(n1, big.NewInt(per)).Cmp(new(big.Int).Mul(big.NewInt(freq), big.NewInt(x.Elapsed))) <= 0 {
			fs = append(fs, finding{kind: "const_wait_while_behind", clause: "wait_behind", what: "positive wait although the count is behind the schedule",
				expected: "wait <= 0", observed: fmt.Sprintf("wait %d", w)})
		}
	}
	return fs
}

func branchOf(w int64, stop, panicked bool) string {
	switch {
	case panicked:
		return "panic"
	case stop:
		return "stop"
	case w > 0:
		return "wait>0"
	case w < 0:
		return "wait<0"
	}
	return "wait=0"
}

type streams struct {
	constPace, constRate, constLoop, linPace, linRate, linLoop *xstream
	sinePace, sineRate                                         *tstream
}

func (st *streams) flush() {
	for _, x := range []*xstream{st.constPace, st.constRate, st.constLoop, st.linPace, st.linRate, st.linLoop} {
		x.flush()
	}
	st.sinePace.flush()
	st.sineRate.flush()
}

func newStreams(c *run.Ctx, s *kit.Summary) *streams {
	x := func(n string) *xstream { return &xstream{Stream: kit.Stream{Name: n}, c: c, s: s} }
	t := func(n string) *tstream { return &tstream{name: n, c: c, s: s} }
	return &streams{constPace: x("c01.const.pace"), constRate: x("c01.const.rate"), constLoop: x("c01.const.loop"),
		linPace: x("c01.linear.pace"), linRate: x("c01.linear.rate"), linLoop: x("c01.linear.loop"),
		sinePace: t("c01.sine.pace"), sineRate: t("c01.sine.rate")}
}

// point evaluates one point case: correspondence op(s) plus the point oracle.
func point(st *streams, s *kit.Summary, x *in, withRate bool) {
	p := x.pacer()
	w, stop, pk, line := pace(p, x.Elapsed, x.Hits)
	op := fmt.Sprintf("c01.%s.pace %s %d %d", x.Pacer, x.params(), x.Elapsed, x.Hits)
	s.Count(x.Pacer + ".point:" + branchOf(w, stop, pk))
	if f, bad := negativeWait(s, x, x.Elapsed, x.Hits, w, stop, pk); bad {
		report(s, x, judged(st, x, f))
	}
	overflowRegion(s, x, w, stop, pk)
	switch x.Pacer {
	case "const":
		st.constPace.add(op, line)
		for _, f := range constPointFindings(x, w, stop, pk) {
			report(s, x, judged(st, x, f))
		}
		pointContract(st, s, x, w, stop, pk)
		if withRate {
			_, rl := rateLine(p, x.Elapsed)
			st.constRate.add(fmt.Sprintf("c01.const.rate %s", x.params()), rl)
			rateOracle(s, x, x.Elapsed)
		}
		s.Case(op, x.Freq > 0 && x.Per > 0)
	case "sine":
		st.sinePace.add(op, line, 0)
		if pk {
			report(s, x, finding{kind: "sine_panic", clause: "panic", what: "SinePacer.Pace panicked", expected: "no panic", observed: "panic"})
		}
		if withRate {
			_, rl := rateLine(p, x.Elapsed)
			sc := (math.Abs(float64(x.MeanFreq)/float64(x.MeanPer)) + math.Abs(float64(x.AmpFreq)/float64(x.AmpPer))) * 1e9
			st.sineRate.add(fmt.Sprintf("c01.sine.rate %s %d", x.params(), x.Elapsed), rl, sc)
			rateOracle(s, x, x.Elapsed)
		}
		if !pk && !stop && (x.Period < 0 || (x.MeanFreq < 0) != (x.MeanPer < 0) && x.MeanFreq != 0 && x.MeanPer != 0) {
			report(s, x, finding{kind: "sine_negative_not_stopped", clause: "negative", what: "negative period / mean rate must stop the attack",
				expected: "stop", observed: fmt.Sprintf("(%d, false)", w)})
		}
		waitBehind(s, x, w, stop, pk)
		pointContract(st, s, x, w, stop, pk)
		s.Case(op, scheduleOf(x) != nil)
	case "linear":
		st.linPace.add(op, line)
		switch {
		case pk:
			report(s, x, finding{kind: "linear_panic", clause: "panic", what: "LinearPacer.Pace panicked", expected: "no panic", observed: "panic"})
		case (x.Freq == 0 || x.Per == 0) && (x.Freq < 0 || x.Per < 0):
			// one field zero, the other negative: "unlimited" and "stop" are both what the text says
		case (x.Freq == 0 || x.Per == 0) && (stop || w > 0):
			report(s, x, finding{kind: "linear_zero_not_unlimited", clause: "zero", what: "zero frequency/unit must mean unlimited rate",
				expected: "no wait, no stop", observed: fmt.Sprintf("(%d, %v)", w, stop)})
		case x.Freq != 0 && x.Per != 0 && (x.Freq < 0 || x.Per < 0) && !stop:
			report(s, x, finding{kind: "linear_negative_not_stopped", clause: "negative", what: "negative frequency/unit must stop the attack",
				expected: "stop", observed: fmt.Sprintf("(%d, false)", w)})
		}
		if withRate {
			_, rl := rateLine(p, x.Elapsed)
			st.linRate.add(fmt.Sprintf("c01.linear.rate %s %d", x.params(), x.Elapsed), rl)
			rateOracle(s, x, x.Elapsed)
		}
		waitBehind(s, x, w, stop, pk)
		linearOverflow(st, s, x, w, stop, pk)
		pointContract(st, s, x, w, stop, pk)
		s.Case(op, scheduleOf(x) != nil)
	}
}

// waitBehind: "a positive wait only when the count is on or ahead of the schedule" at one point
// (sine / linear with valid parameters, elapsed >= 0).
func waitBehind(s *kit.Summary, x *in, w int64, stop, pk bool) {
	if pk || stop || w <= 0 || x.Elapsed < 0 {
		return
	}
	if sch := scheduleOf(x); sch != nil && !sch.onSchedule(x.Hits, x.Elapsed) {
		report(s, x, finding{kind: x.Pacer + "_wait_while_behind", clause: "wait_behind",
			what:     "positive wait although the count is behind the schedule",
			expected: fmt.Sprintf("wait <= 0 (schedule %s)", sch.show(x.Elapsed)), observed: fmt.Sprintf("wait %d", w)})
	}
}

// loop runs one closed-loop trajectory: oracle at every step, correspondence of the whole trajectory
// (constant, linear: digest of the model's own closed loop) and of every sampled Pace call (all kinds).
func loop(st *streams, s *kit.Summary, x *in, forced bool) {
	var each func(k int, t int64, n uint64, line string)
	if forced {
		each = func(k int, t int64, n uint64, line string) {
			if k >= 300 && k%17 != 0 {
				return
			}
			op := fmt.Sprintf("c01.%s.pace %s %d %d", x.Pacer, x.params(), t, n)
			switch x.Pacer {
			case "const":
				st.constPace.add(op, line)
			case "sine":
				st.sinePace.add(op, line, 0)
			case "linear":
				st.linPace.add(op, line)
			}
		}
	}
	out, fs := runLoop(x, each)
	s.Count(fmt.Sprintf("%s.loop:end=%d", x.Pacer, out.end))
	s.CountN(x.Pacer+".loop:steps", out.steps)
	s.Case(fmt.Sprintf("loop %s %s %d %d %d %v", x.Pacer, x.params(), x.T0, x.N0, x.Steps, len(x.Stalls)), out.steps >= 10)
	if x.Pacer != "sine" {
		op, impl := loopOp(x, out)
		if x.Pacer == "const" {
			st.constLoop.add(op, impl)
		} else {
			st.linLoop.add(op, impl)
		}
	}
	for _, f := range fs {
		// shrink: does the same clause already fail without any stall?
		y := *x
		y.Stalls, y.Steps = nil, f.step+1
		_, fs2 := runLoop(&y, nil)
		done := false
		for _, g := range fs2 {
			if g.clause == f.clause && g.kind == f.kind {
				y.Steps = g.step + 1
				report(s, &y, judged(st, &y, g))
				done = true
				break
			}
		}
		if !done {
			z := *x
			z.Steps = f.step + 1
			if len(z.Stalls) > z.Steps {
				z.Stalls = z.Stalls[:z.Steps]
			}
			report(s, &z, judged(st, &z, f))
		}
	}
}

// loopOp renders the driver op and the implementation's digest line of a closed-loop input.
func loopOp(x *in, out loopOut) (op, impl string) {
	stalls := make([]uint64, x.Steps)
	copy(stalls, x.Stalls)
	return fmt.Sprintf("c01.%s.loop %s %d %d %s", x.Pacer, x.params(), x.T0, x.N0, kit.Uints(stalls)),
		fmt.Sprintf("ok %d %d %d %d end=%d", out.steps, out.lastT, out.lastN, out.digest, out.end)
}

var knownLinearKinds = map[string]string{"linear_negative_slope_ahead": "linear_upper", "linear_subnanosecond_interval": "linear_upper"}

// judged adds the key field `model_agrees` to a finding of the constant or linear pacer: does the
// Lean model of the UNCHANGED code give the same trajectory (loop) / answer (point) for this very
// input?  A known-finding kind is kept only when it does; a violation on an input where implementation
// and model differ is a different defect and gets the fresh kind.
func judged(st *streams, x *in, f finding) finding {
	if x.Pacer == "sine" || x.Mode == "e2e" {
		return f
	}
	var op, impl string
	if x.Mode == "loop" {
		out, _ := runLoop(x, nil)
		op, impl = loopOp(x, out)
	} else {
		_, _, _, line := pace(x.pacer(), x.Elapsed, x.Hits)
		op, impl = fmt.Sprintf("c01.%s.pace %s %d %d", x.Pacer, x.params(), x.Elapsed, x.Hits), line
	}
	agrees := false
	if outs, err := kit.RunDriver(st.linLoop.c.Driver, []string{op}); err == nil && len(outs) == 1 {
		agrees = outs[0] == impl
	}
	if f.key == nil {
		f.key = map[string]interface{}{}
	}
	f.key["model_agrees"] = agrees
	if fresh, ok := knownLinearKinds[f.kind]; ok && !agrees {
		f.kind = fresh
	}
	st.linLoop.s.Count(fmt.Sprintf("%s.violation:model_agrees=%v", x.Pacer, agrees))
	return f
}

func ampSign(x *in) string {
	switch {
	case x.AmpFreq < 0 && x.AmpPer > 0 || x.AmpFreq > 0 && x.AmpPer < 0:
		return "negative"
	case x.AmpFreq == 0:
		return "zero"
	}
	return "positive"
}

func typicalInterval(x *in) int64 {
	var hpn float64
	switch x.Pacer {
	case "sine":
		hpn = float64(x.MeanFreq) / float64(x.MeanPer)
	default:
		hpn = float64(x.Freq) / float64(x.Per)
	}
	if !(hpn > 0) {
		return 1000
	}
	iv := 1 / hpn
	if iv > 1e15 {
		return 1e15
	}
	if iv < 1 {
		return 1
	}
	return int64(iv)
}

func replay(c *run.Ctx, s *kit.Summary, st *streams) {
	b, err := os.ReadFile(c.Replay)
	if err != nil {
		panic(err)
	}
	var rec struct {
		Kind  string `json:"kind"`
		Input in     `json:"input"`
	}
	if err := json.Unmarshal(b, &rec); err != nil {
		panic(err)
	}
	x := &rec.Input
	s.Sample(map[string]interface{}{"replay": x})
	switch x.Mode {
	case "loop":
		loop(st, s, x, true)
	case "e2e":
		e2e(s, x)
	default:
		point(st, s, x, true)
	}
	st.flush()
}

func runC01(c *run.Ctx, s *kit.Summary) {
	r := kit.NewRng(c.Seed)
	st := newStreams(c, s)
	gst, gs = st, s
	s.Rule = "points: (kind, params, elapsed, hits) with params from every time unit, extremes of the integer ranges, Freq≷Per, zero/negative, " +
		"hits around the schedule and around MaxInt64/interval; loops: closed loop in virtual time from (0,0), random stall histories " +
		"(none / sparse / bursts / jitter), sine/linear loops at 1..1e6 hits/s, sine amplitudes of both signs with |amp|/mean from 0 to 0.999999 (a few up to and above one hit per nanosecond), " +
		"corpus/C01 witnesses first; linear: hit counts around the overflow guard, negative slopes with a stall past the zero of the rate; " +
		"constant: hit counts where the 128-bit quotient leaves 64 bits and where the next deadline crosses 2^63-1, 2^63, 2^64-1, 2^64 ns (±2, Freq/Per also near 1 hit/ns); linear, sine: counts the schedule reaches at the end of representable time; the real Attack loop driven by the real pacers (e2e); non-trivial = positive (valid) parameters for a point, ≥10 released hits for a loop"
	if c.Replay != "" {
		replay(c, s, st)
		return
	}

	// corpus: minimised defect witnesses, replayed first
	dir := os.Getenv("VERIF_CORPUS")
	if dir == "" {
		dir = filepath.Join(filepath.Dir(filepath.Dir(os.Args[0])), "corpus", "C01")
	}
	if files, err := filepath.Glob(filepath.Join(dir, "*.json")); err == nil {
		sort.Strings(files)
		for _, f := range files {
			b, err := os.ReadFile(f)
			if err != nil {
				continue
			}
			var rec struct {
				Input in `json:"input"`
			}
			if json.Unmarshal(b, &rec) != nil {
				continue
			}
			s.Count("corpus:replayed")
			if x := &rec.Input; x.Mode == "loop" {
				loop(st, s, x, true)
			} else {
				point(st, s, x, true)
			}
		}
		st.flush()
	}

	t0 := time.Now()
	phase := func(name string) {
		s.Extra["wall_s:"+name] = math.Round(time.Since(t0).Seconds()*10) / 10
		t0 = time.Now()
	}
	// (i) point cases ---------------------------------------------------------------------------
	for i := 0; i < c.N(80000, 2500000); i++ {
		x := &in{Pacer: "const", Mode: "point"}
		var class string
		x.Freq, x.Per, class = genConstParams(r)
		x.Elapsed, x.Hits = genConstPoint(r, x.Freq, x.Per)
		if i%8 == 5 {
			if f, p, e, h, ok := boundaryProbe(r, x.Freq, x.Per); ok {
				x.Freq, x.Per, x.Elapsed, x.Hits, class = f, p, e, h, "word_boundary_probe"
			}
		}
		s.Count("const.params:" + class)
		point(st, s, x, i%4 == 0)
		if i < 2 {
			s.Sample(x)
		}
	}
	for i := 0; i < c.N(60000, 1500000); i++ {
		var x *in
		real := !r.Chance(0.25)
		if real {
			x = genSineRealistic(r)
		} else {
			x = genSineExtreme(r)
		}
		x.Mode = "point"
		x.Elapsed, x.Hits = genSinePoint(r, x, real)
		if i%25 == 9 {
			x = genSineBoundary(r)
			s.Count("sine.params:end_of_time_boundary")
		}
		s.Count(fmt.Sprintf("sine.params:realistic=%v", real))
		s.Count("sine.point:amp_sign=" + ampSign(x))
		point(st, s, x, i%4 == 0)
		if i < 1 {
			s.Sample(x)
		}
	}
	for i := 0; i < c.N(60000, 1000000); i++ {
		var x *in
		real := !r.Chance(0.3)
		if real {
			x = genLinearRealistic(r)
		} else {
			x = genLinearExtreme(r)
		}
		x.Mode = "point"
		x.Elapsed, x.Hits = genLinearPoint(r, x, real)
		if i%20 == 7 {
			x = genLinearGuard(r)
			x.Mode = "point"
			s.Count("linear.params:overflow_guard_region")
		}
		s.Count(fmt.Sprintf("linear.params:realistic=%v", real))
		point(st, s, x, i%4 == 0)
		if i < 1 {
			s.Sample(x)
		}
	}
	// the documented witnesses, always
	for _, x := range []*in{
		{Pacer: "const", Mode: "point", Freq: 2, Per: 1},
		{Pacer: "const", Mode: "point", Freq: 1, Per: math.MaxInt64 / 10, Elapsed: 0, Hits: 10},
		{Pacer: "const", Mode: "point", Freq: 1, Per: math.MaxInt64 / 10, Elapsed: math.MaxInt64, Hits: 11},
		{Pacer: "const", Mode: "point", Freq: 1, Per: 3600000000000, Elapsed: math.MaxInt64, Hits: 2562048},
	} {
		point(st, s, x, true)
	}
	st.flush()
	phase("points")

	// (ii)+(iii) closed loops --------------------------------------------------------------------
	steps := c.N(2000, 10000)
	for i := 0; i < c.N(150, 1500); i++ {
		x := &in{Pacer: "const", Mode: "loop"}
		for {
			x.Freq, x.Per, _ = genConstParams(r)
			if x.Freq > 0 && x.Per > 0 && (x.Freq <= x.Per || r.Chance(0.5)) {
				break
			}
		}
		x.Steps = steps
		if i%25 == 0 { // a few long runs at realistic rates whose interval is truncated
			x.Freq, x.Per, x.Steps = r.PickI64([]int64{30000, 7, 999, 123457, 3}), 1000000000, c.N(250000, 400000)
		}
		if i%10 == 3 {
			// frequencies at the top of the int range with units so large that (hits+1)·Per crosses the
			// 64-bit word boundary (and the sum with Freq-1 the 2^64 boundary) within the first hits
			x.Freq = maxI64 - r.Range(0, int64(1)<<uint(r.Pick(62)))
			if x.Freq < 1<<61 {
				x.Freq = 1<<61 + r.Range(0, 1<<60)
			}
			x.Per = maxI64/r.Range(1, 64) - r.Range(0, 3)
			x.Steps = 400
			s.Count("const.loop:word_boundary_class")
		}
		if x.Freq <= x.Per || r.Chance(0.5) {
			x.Stalls = genStalls(r, x.Steps, typicalInterval(x))
		}
		if i%10 == 3 && r.Chance(0.7) {
			x.Stalls = nil
		}
		loop(st, s, x, true)
		if i < 1 {
			y := *x
			y.Stalls = nil
			s.Sample(map[string]interface{}{"loop": y, "stalls": len(x.Stalls)})
		}
	}
	st.flush()
	phase("const loops")
	for i := 0; i < c.N(100, 1200); i++ {
		x := genSineRealistic(r)
		x.Mode, x.Steps = "loop", steps
		s.Count("sine.loop:amp_sign=" + ampSign(x))
		x.Stalls = genStalls(r, x.Steps, typicalInterval(x))
		loop(st, s, x, true)
	}
	st.flush()
	phase("sine loops")
	for i := 0; i < c.N(100, 1200); i++ {
		x := genLinearRealistic(r)
		x.Mode, x.Steps = "loop", steps
		x.Stalls = genStalls(r, x.Steps, typicalInterval(x))
		if a := x.slope(); a < 0 && r.Chance(0.4) {
			// one long stall that carries the attack beyond the instant the declared rate reaches zero
			// (x0 = b/|a| seconds), up to three times that far
			x0 := float64(x.Freq) / float64(x.Per) * 1e9 / -a * 1e9
			if x0 > 0 && x0 < 1e15 {
				if x.Stalls == nil {
					x.Stalls = make([]uint64, x.Steps)
				}
				x.Stalls[r.Pick(1+r.Pick(200))%len(x.Stalls)] = uint64(x0 * (0.2 + 3*r.Float64()))
				s.Count("linear.loop:stall_past_zero_rate")
			}
		}
		loop(st, s, x, true)
	}
	st.flush()
	phase("linear loops")

	// (iv) the real Attack loop driven by the real pacers (real time, lower bounds only)
	for rep := 0; rep < c.N(1, 4); rep++ {
		for _, x := range e2eCases(r) {
			s.Count("e2e:" + x.Pacer)
			e2e(s, x)
		}
	}
	phase("e2e")
}
