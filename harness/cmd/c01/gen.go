package main

import (
	"math"
	"math/big"

	"vharness/kit"
)

var units = []int64{1, 1000, 1000000, 1000000000, 60000000000, 3600000000000}

const maxI64 = math.MaxInt64

func genConstParams(r *kit.Rng) (freq, per int64, class string) {
	switch r.Pick(12) {
	case 0:
		return r.Int64Edge(), r.Int64Edge(), "edge"
	case 1:
		return r.Range(1, 1000), r.PickI64(units), "small_freq_unit"
	case 2:
		return r.Range(1, 1000000), 1000000000, "per_second"
	case 3:
		per = r.Range(1, 1000)
		if r.Chance(0.3) {
			per = r.PickI64(units)
		}
		return per + r.Range(1, 1<<uint(r.Pick(40))), per, "freq_gt_per"
	case 4:
		per = r.Range(1, 100)
		return r.Range(1, per), per, "tiny_per"
	case 5:
		return r.Range(1, 3), maxI64/r.Range(1, 20) - r.Range(0, 2), "huge_per"
	case 6:
		return r.PickI64([]int64{0, -1, 1, -5, 7, math.MinInt64}), r.PickI64([]int64{0, -1, 1, -1000000000, 1000000000, math.MinInt64}), "zero_neg"
	case 7:
		return r.PickI64([]int64{30000, 3, 7, 50, 999, 1 << 20, 123457}), 1000000000, "notable"
	case 8:
		per = r.PickI64(units[1:])
		k := r.PickI64([]int64{1, 2, 4, 5, 8, 10, 20, 25, 40, 50, 100, 125, 200, 250, 500, 1000})
		return k, per, "divides"
	default:
		per = r.Range(1, int64(1)<<uint(r.Pick(62)+1))
		freq = r.Range(1, int64(1)<<uint(r.Pick(40)+1))
		return freq, per, "random"
	}
}

func clampAdd(a, d int64) int64 {
	if d > 0 && a > maxI64-d {
		return maxI64
	}
	if d < 0 && a < math.MinInt64-d {
		return math.MinInt64
	}
	return a + d
}

func genConstPoint(r *kit.Rng, freq, per int64) (elapsed int64, hits uint64) {
	var interval int64
	if freq > 0 && per > 0 {
		interval = per / freq
	}
	switch r.Pick(8) {
	case 0:
		elapsed = 0
	case 1:
		elapsed = r.Int64Edge()
	case 2:
		if per > 0 {
			k := r.Range(0, 1000)
			if k < maxI64/per {
				elapsed = clampAdd(k*per, r.Range(-2, 2))
			}
		}
	case 3:
		elapsed = maxI64 - r.Range(0, 3)
	case 4:
		elapsed = -r.Range(1, 1<<uint(r.Pick(62)+1))
	default:
		if per > 0 && per < maxI64/128 {
			elapsed = r.Range(0, 100*per)
		} else {
			elapsed = r.Range(0, maxI64)
		}
	}
	d := uint64(r.Range(0, 4)) - 2
	switch r.Pick(8) {
	case 0:
		hits = 0
	case 1:
		// around the rational schedule floor(freq·elapsed/per)
		if freq > 0 && per > 0 && elapsed > 0 {
			f := float64(freq) / float64(per) * float64(elapsed)
			if f < 1.8e19 {
				hits = uint64(f) + d
			}
		}
	case 2:
		if interval > 0 && elapsed > 0 {
			hits = uint64(elapsed/interval) + d
		}
	case 3, 4:
		// boundary of the overflow guard
		if interval > 0 {
			hits = uint64(maxI64/interval) + d
		}
	case 5:
		hits = math.MaxUint64 - uint64(r.Range(0, 2))
	case 6:
		hits = uint64(r.Int64Edge())
		if freq > 0 && per > freq && r.Chance(0.6) {
			// where ceil((hits+1)·per/freq) crosses 2^64 (the 128-bit quotient no longer fits 64 bits)
			q := new(big.Int).Lsh(big.NewInt(freq), 64)
			q.Div(q, big.NewInt(per))
			if q.IsUint64() {
				hits = q.Uint64() + d
			}
		}
	default:
		hits = uint64(r.Range(0, 1<<uint(r.Pick(40)+1)))
	}
	return
}

// boundaryProbe: hit counts at which the deadline of the next hit crosses a word boundary.  For a
// schedule reaching B hits' worth of nanoseconds at count c (constant pacer: (h+1)·Per/Freq = B) the
// probe takes B in {2^63-1, 2^63, 2^64-1, 2^64} and hits = that count -1 ± 2, at elapsed 0, small, in
// the middle or at the end of representable time.  Half of the probes pick Freq/Per near one hit per
// nanosecond, where quotient and remainder of the 128-bit division both matter.
func boundaryProbe(r *kit.Rng, freq, per int64) (f, p, elapsed int64, hits uint64, ok bool) {
	f, p = freq, per
	if f <= 0 || p <= 0 || r.Chance(0.5) {
		p = r.Range(1, int64(1)<<uint(r.Pick(20)+1))
		f = r.Range(p/4+1, 4*p)
		if r.Chance(0.3) {
			f = r.Range(1, 64)
		}
	}
	b := new(big.Int).Lsh(big.NewInt(1), uint(63+r.Pick(2)))
	if r.Chance(0.5) {
		b.Sub(b, big.NewInt(1))
	}
	// count c with c·per/f ≈ B:  c = floor(B·f/per), and the neighbours
	c := new(big.Int).Mul(b, big.NewInt(f))
	c.Div(c, big.NewInt(p))
	c.Add(c, big.NewInt(r.Range(-3, 2))) // hits = c-1 ± 2
	if c.Sign() < 0 || !c.IsUint64() {
		return f, p, 0, 0, false
	}
	switch r.Pick(4) {
	case 0:
		elapsed = 0
	case 1:
		elapsed = r.Range(0, 1000000)
	case 2:
		elapsed = r.Range(0, maxI64)
	default:
		elapsed = maxI64 - r.Range(0, 1000)
	}
	return f, p, elapsed, c.Uint64(), true
}

var sinePeriods = []int64{1000000, 10000000, 100000000, 1000000000, 10000000000, 60000000000, 600000000000, 3600000000000}
var sineRatios = []float64{0, 0.1, 0.25, 0.5, 0.75, 0.9, 0.95, 0.99, 0.995, 0.999, 0.9999, 0.999999}
var sineStarts = []float64{0, math.Pi / 2, math.Pi, 3 * math.Pi / 2}

// genSineRealistic: period 1ms..1h, mean 1..~1e6 hits/s, amplitude from 0 up to just below the mean.
func genSineRealistic(r *kit.Rng) *in {
	x := &in{Pacer: "sine"}
	x.Period = r.PickI64(sinePeriods)
	if r.Chance(0.3) {
		x.Period = r.Range(1000000, 3600000000000)
	}
	x.MeanPer = 1000000000
	if r.Chance(0.2) {
		x.MeanPer = r.PickI64([]int64{1000000, 60000000000, 1000000000})
	}
	x.MeanFreq = r.Range(1, int64(1)<<uint(r.Pick(20)+1))
	x.AmpPer = x.MeanPer
	switch r.Pick(6) {
	case 0:
		x.AmpFreq = x.MeanFreq - 1 // just below the mean
	case 1:
		// different unit, still below the mean
		x.AmpPer = x.MeanPer * 60
		x.AmpFreq = int64(float64(x.MeanFreq) * 60 * sineRatios[r.Pick(len(sineRatios))])
	default:
		x.AmpFreq = int64(float64(x.MeanFreq) * sineRatios[r.Pick(len(sineRatios))])
	}
	// invalid() accepts every amplitude below the mean, also negative ones (a wave shifted by half a
	// period): both signs with the same weight
	if r.Chance(0.5) {
		x.AmpFreq = -x.AmpFreq
	}
	var st float64
	switch r.Pick(4) {
	case 0:
		st = r.Float64() * 2 * math.Pi
	case 1:
		st = (r.Float64() - 0.5) * 100
	default:
		st = sineStarts[r.Pick(len(sineStarts))]
	}
	x.StartAtBits = math.Float64bits(st)
	x.setText()
	return x
}

func edgeFloat(r *kit.Rng) float64 {
	switch r.Pick(8) {
	case 0:
		return math.NaN()
	case 1:
		return math.Inf(1 - 2*r.Pick(2))
	case 2:
		return math.Float64frombits(r.Uint64())
	case 3:
		return 0
	case 4:
		return (r.Float64() - 0.5) * math.Pow(10, float64(r.Pick(40)-10))
	default:
		return (r.Float64() - 0.5) * 200
	}
}

func genSineExtreme(r *kit.Rng) *in {
	x := &in{Pacer: "sine"}
	e := func() int64 {
		if r.Chance(0.5) {
			return r.Int64Edge()
		}
		return r.PickI64([]int64{0, 1, -1, 1000000000, 50, 100, math.MaxInt64, math.MinInt64})
	}
	x.Period, x.MeanFreq, x.MeanPer, x.AmpFreq, x.AmpPer = e(), e(), e(), e(), e()
	x.StartAtBits = math.Float64bits(edgeFloat(r))
	x.setText()
	return x
}

func genSinePoint(r *kit.Rng, x *in, realistic bool) (elapsed int64, hits uint64) {
	if !realistic || r.Chance(0.05) {
		elapsed = r.Int64Edge()
		hits = uint64(r.Int64Edge())
		if r.Chance(0.3) {
			hits = uint64(r.Range(0, 1000))
		}
		return
	}
	elapsed = r.Range(0, 3*x.Period)
	if r.Chance(0.2) {
		elapsed = r.Range(0, 3600000000000)
	}
	h := newSineSched(x).H(elapsed)
	switch r.Pick(6) {
	case 0:
		hits = uint64(r.Range(0, int64(h)+10))
	default:
		v := int64(h) + r.Range(-2, 3)
		if v < 0 {
			v = 0
		}
		hits = uint64(v)
	}
	return
}

func genLinearRealistic(r *kit.Rng) *in {
	x := &in{Pacer: "linear"}
	x.Per = 1000000000
	if r.Chance(0.15) {
		x.Per = r.PickI64([]int64{1000000, 60000000000})
	}
	x.Freq = r.Range(1, int64(1)<<uint(r.Pick(17)+1))
	if r.Chance(0.03) { // around and above one hit per nanosecond
		x.Per, x.Freq = r.PickI64([]int64{1, 10, 100}), r.Range(1, 300)
	}
	b := float64(x.Freq) / float64(x.Per) * 1e9
	var a float64
	switch r.Pick(8) {
	case 0:
		a = 0
	case 1:
		a = float64(r.Range(1, 1000))
	case 2:
		a = -float64(r.Range(1, 100))
	case 3:
		a = b * (r.Float64() - 0.3)
	case 4:
		a = -b / float64(r.Range(1, 60)) // rate reaches zero after 1..60 s
	case 5:
		a = r.Float64() * 10
	default:
		a = float64(r.Range(-50, 500)) / 10
	}
	x.SlopeBits = math.Float64bits(a)
	x.setText()
	return x
}

// genLinearGuard: a slow start rate and hit counts around the overflow guard MaxInt64/interval.
func genLinearGuard(r *kit.Rng) *in {
	x := &in{Pacer: "linear"}
	x.Freq = r.Range(1, 3)
	x.Per = maxI64/r.Range(1, 1000) - r.Range(0, 5)
	if r.Chance(0.5) {
		x.Per = r.PickI64(units[3:]) * r.Range(1, 1000)
	}
	x.SlopeBits = math.Float64bits(0)
	if r.Chance(0.3) {
		x.SlopeBits = math.Float64bits(r.Float64() * 1e-12)
	}
	x.setText()
	interval := math.Round(float64(x.Per) / float64(x.Freq))
	x.Elapsed = r.Range(0, 1000)
	q := uint64(float64(maxI64) / interval)
	switch r.Pick(4) {
	case 0:
		x.Hits = q + uint64(r.Range(0, 4)) - 2
	case 1:
		x.Hits = q*uint64(r.Range(2, 5)) + uint64(r.Range(0, 3))
	case 2:
		x.Hits = q + uint64(r.Range(1, 1000000))
	default:
		x.Hits = uint64(r.Range(1, 1<<uint(r.Pick(62)+1)))
	}
	if r.Chance(0.3) {
		// around the count the schedule reaches at the end of representable time
		hEnd, _ := newLinSched(x).Hf(maxI64)
		if hEnd >= 0 && hEnd < 1e15 {
			x.Hits = uint64(hEnd) + uint64(r.Range(0, 4)) - 2
		}
		x.Elapsed = r.PickI64([]int64{0, r.Range(0, 1000000), r.Range(0, maxI64), maxI64 - r.Range(0, 1000)})
	}
	if x.Hits == 0 || x.Hits > 1<<63 {
		x.Hits = 1
	}
	return x
}

// genSineBoundary: a slow sine pacer probed at the counts its schedule reaches at the end of
// representable time (where the next deadline stops fitting a time.Duration).
func genSineBoundary(r *kit.Rng) *in {
	x := &in{Pacer: "sine", Mode: "point"}
	x.Period = r.PickI64([]int64{3600000000000, 86400000000000, 60000000000})
	x.MeanPer = r.PickI64(units[3:]) * r.Range(1, 100000)
	x.MeanFreq = r.Range(1, 5)
	x.AmpPer = x.MeanPer
	x.AmpFreq = r.PickI64([]int64{0, 1, -1, x.MeanFreq - 1})
	if x.AmpFreq >= x.MeanFreq || -x.AmpFreq >= x.MeanFreq {
		x.AmpFreq = 0
	}
	x.StartAtBits = math.Float64bits(sineStarts[r.Pick(len(sineStarts))])
	x.setText()
	hEnd := newSineSched(x).H(maxI64)
	x.Hits = 1
	if hEnd >= 2 && hEnd < 1e15 {
		x.Hits = uint64(hEnd) + uint64(r.Range(0, 4)) - 2
	}
	x.Elapsed = r.PickI64([]int64{0, r.Range(0, 1000000), r.Range(0, maxI64), maxI64 - r.Range(0, 1000)})
	return x
}

func genLinearExtreme(r *kit.Rng) *in {
	x := &in{Pacer: "linear"}
	x.Freq, x.Per = r.Int64Edge(), r.Int64Edge()
	if r.Chance(0.15) { // zero and negative fields
		x.Freq = r.PickI64([]int64{0, -1, 1, -7, 50, math.MinInt64})
		x.Per = r.PickI64([]int64{0, -1, 1000000000, -1000000000, math.MinInt64})
	}
	if r.Chance(0.5) {
		x.Freq, x.Per = r.Range(1, 100000), r.PickI64(units)
	}
	x.SlopeBits = math.Float64bits(edgeFloat(r))
	x.setText()
	return x
}

func genLinearPoint(r *kit.Rng, x *in, realistic bool) (elapsed int64, hits uint64) {
	if !realistic || r.Chance(0.05) {
		elapsed = r.Int64Edge()
		hits = uint64(r.Int64Edge())
		if r.Chance(0.3) {
			hits = uint64(r.Range(0, 1000))
		}
		return
	}
	elapsed = r.Range(0, 120000000000)
	if r.Chance(0.2) {
		elapsed = r.Range(0, 1000000000) // sub-second: Seconds() fraction path
	}
	h, _ := newLinSched(x).Hf(elapsed)
	if h < 0 || h > 1e18 {
		h = 0
	}
	v := int64(h) + r.Range(-2, 3)
	if v < 0 || r.Chance(0.1) {
		v = r.Range(0, 5)
	}
	return elapsed, uint64(v)
}

// genStalls: an arbitrary stall history; `iv` is a typical hit interval in ns.
func genStalls(r *kit.Rng, steps int, iv int64) []uint64 {
	if iv < 1 {
		iv = 1
	}
	if iv > 1<<50 {
		iv = 1 << 50
	}
	mode := r.Pick(6)
	if mode == 0 {
		return nil // the attacker follows the pacer exactly
	}
	st := make([]uint64, steps)
	for k := range st {
		switch mode {
		case 1:
			if r.Chance(0.1) {
				st[k] = uint64(r.Range(0, 3*iv))
			}
		case 2:
			if r.Chance(0.02) {
				st[k] = uint64(r.Range(0, 200*iv))
			}
		case 3:
			st[k] = uint64(r.Range(0, iv/4+1))
		case 4:
			switch r.Pick(20) {
			case 0:
				st[k] = uint64(r.Range(0, 50*iv))
			case 1, 2, 3:
				st[k] = uint64(r.Range(0, iv))
			}
		default:
			if r.Chance(0.5) {
				st[k] = uint64(r.Range(0, 2))
			}
		}
	}
	return st
}
