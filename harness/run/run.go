// Package run: command-line entry shared by the per-property harness binaries.
//
//	cNN -seed N -tier quick|thorough -driver <lean driver> -vegeta <vegeta-verif> -work <dir> -out <summary.json> [-replay file] [-scale x]
package run

import (
	"flag"
	"os"

	"vharness/kit"
)

type Ctx struct {
	Seed   int64
	Tier   string
	Driver string // Lean driver binary of this property
	Vegeta string // vegeta binary built with -tags verif (package-main line protocol)
	Replay string // replay file (optional)
	Scale  float64
	Work   string // scratch directory (removed by the caller afterwards)
}

// N picks the volume for the tier, scaled.
func (c *Ctx) N(quick, thorough int) int {
	n := quick
	if c.Tier == "thorough" {
		n = thorough
	}
	n = int(float64(n) * c.Scale)
	if n < 1 {
		n = 1
	}
	return n
}

func Main(prop string, f func(*Ctx, *kit.Summary)) {
	fs := flag.NewFlagSet(prop, flag.ExitOnError)
	c := &Ctx{}
	fs.Int64Var(&c.Seed, "seed", 1, "PRNG seed")
	fs.StringVar(&c.Tier, "tier", "quick", "quick|thorough")
	fs.StringVar(&c.Driver, "driver", "/verif/lean/.lake/build/bin/drv"+prop[1:], "Lean driver binary")
	fs.StringVar(&c.Vegeta, "vegeta", "/verif/.build/vegeta-verif", "vegeta binary built with -tags verif")
	fs.StringVar(&c.Replay, "replay", "", "replay file")
	fs.Float64Var(&c.Scale, "scale", 1, "volume multiplier")
	fs.StringVar(&c.Work, "work", "", "scratch directory")
	out := fs.String("out", "-", "summary output")
	fs.Parse(os.Args[1:])
	if c.Work == "" {
		d, err := os.MkdirTemp("", "vh-"+prop)
		if err != nil {
			panic(err)
		}
		c.Work = d
		defer os.RemoveAll(d)
	}
	s := kit.NewSummary(prop, c.Seed, c.Tier)
	f(c, s)
	s.Write(*out)
}
