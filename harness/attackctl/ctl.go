// Package attackctl: controlled-schedule driver for the real Attacker.Attack.
// The pacer, the targeter, the HTTP transport and the consumer are harness objects that
// block until the scheduler releases them; after every command the driver waits for
// quiescence of all attack goroutines (read from goroutine dumps) and records what is observable.
package attackctl

import (
	"bytes"
	"crypto/tls"
	"errors"
	"fmt"
	"io"
	"net"
	"net/http"
	"runtime"
	"sort"
	"strconv"
	"strings"
	"sync"
	"time"

	vegeta "github.com/tsenart/vegeta/v12/lib"
)

// Obs is what the harness can see at quiescence.
type Obs struct {
	PaceBlocked bool     `json:"pace_blocked"`
	Count       uint64   `json:"count"` // hits argument of the outstanding (or last) Pace call
	InTransport []uint64 `json:"in_transport"`
	Delivered   []uint64 `json:"delivered"`
	Closed      bool     `json:"closed"`
	Alive       int      `json:"alive"`
}

func (o Obs) Tokens() string {
	var sb strings.Builder
	b := func(x bool) string {
		if x {
			return "1"
		}
		return "0"
	}
	sb.WriteString(b(o.PaceBlocked) + " " + strconv.FormatUint(o.Count, 10) + " " + strconv.Itoa(len(o.InTransport)))
	for _, s := range o.InTransport {
		sb.WriteString(" " + strconv.FormatUint(s, 10))
	}
	sb.WriteString(" " + b(o.Closed) + " " + strconv.Itoa(o.Alive) + " " + strconv.Itoa(len(o.Delivered)))
	for _, s := range o.Delivered {
		sb.WriteString(" " + strconv.FormatUint(s, 10))
	}
	return sb.String()
}

type paceAns struct {
	wait time.Duration
	stop bool
}

type Ctl struct {
	settle time.Duration // the wait handed to the loop by the last ReleasePace, not yet waited out by Quiesce
	mu     sync.Mutex

	atk *vegeta.Attacker
	res <-chan *vegeta.Result

	// pacer
	paceBlocked bool
	paceHits    uint64
	paceArgs    []uint64
	paceElapsed []time.Duration
	du          time.Duration
	paceCh      chan paceAns
	nRelease    int

	// targeter
	failMode   bool
	tgtCalls   int
	tgtErrored int

	// transport
	inTr map[uint64]chan struct{}
	hwm  int

	// consumer
	delivered []uint64
	closed    bool
	results   []*vegeta.Result

	StopReturns []bool
}

// Pacer side.
type ctlPacer struct{ c *Ctl }

func (p ctlPacer) Pace(elapsed time.Duration, hits uint64) (time.Duration, bool) {
	c := p.c
	c.mu.Lock()
	c.paceBlocked = true
	c.paceHits = hits
	c.paceArgs = append(c.paceArgs, hits)
	c.paceElapsed = append(c.paceElapsed, elapsed)
	c.mu.Unlock()
	a := <-c.paceCh
	c.mu.Lock()
	c.paceBlocked = false
	c.mu.Unlock()
	return a.wait, a.stop
}
func (p ctlPacer) Rate(time.Duration) float64 { return 0 }

type rt struct{ c *Ctl }

func (t rt) RoundTrip(req *http.Request) (*http.Response, error) {
	c := t.c
	seq, _ := strconv.ParseUint(req.Header.Get("X-Vegeta-Seq"), 10, 64)
	ch := make(chan struct{})
	c.mu.Lock()
	c.inTr[seq] = ch
	if len(c.inTr) > c.hwm {
		c.hwm = len(c.inTr)
	}
	c.mu.Unlock()
	<-ch
	// how an exchange ends has nothing to do with scheduling: some fail inside the transport, some are answered
	// with an error status, most succeed
	switch seq % 5 {
	case 1:
		return nil, &net.OpError{Op: "dial", Net: "tcp", Err: errors.New("verif: connection refused")}
	case 3:
		return &http.Response{StatusCode: 503, Status: "503 Service Unavailable", Proto: "HTTP/1.1", ProtoMajor: 1, ProtoMinor: 1,
			Header: http.Header{}, Body: io.NopCloser(bytes.NewReader([]byte("busy"))), Request: req}, nil
	}
	return &http.Response{StatusCode: 200, Status: "200 OK", Proto: "HTTP/1.1", ProtoMajor: 1, ProtoMinor: 1,
		Header: http.Header{}, Body: io.NopCloser(bytes.NewReader(nil)), Request: req}, nil
}

// New starts a controlled attack (duration 0) and waits for the first quiescence.
func New(workers, maxWorkers uint64, maxFirst bool) *Ctl {
	return NewWithDuration(workers, maxWorkers, maxFirst, 0)
}

// NewWithDuration is New with an attack duration.
func NewWithDuration(workers, maxWorkers uint64, maxFirst bool, du time.Duration) *Ctl {
	c := &Ctl{paceCh: make(chan paceAns), inTr: map[uint64]chan struct{}{}, du: du}
	// the two options may be given in either order
	opts := []func(*vegeta.Attacker){vegeta.Workers(workers), vegeta.MaxWorkers(maxWorkers)}
	if maxFirst {
		opts[0], opts[1] = opts[1], opts[0]
	}
	// bystander options: settings of the attacker that have nothing to do with scheduling (they configure the default
	// client, which vegeta.Client then replaces, or fields the hit path reads). Whatever their value, the attack is the
	// same transition system; which ones are set varies with the configuration.
	opts = append(opts, Bystanders(workers*31+maxWorkers*7+uint64(du))...)
	opts = append(opts, vegeta.Client(&http.Client{Transport: rt{c}}))
	c.atk = vegeta.NewAttacker(opts...)
	tr := vegeta.Targeter(func(t *vegeta.Target) error {
		c.mu.Lock()
		defer c.mu.Unlock()
		c.tgtCalls++
		if c.failMode {
			c.tgtErrored++
			if c.tgtCalls%2 == 0 {
				return vegeta.ErrNoTargets // what the file-backed targeters return at the end of their input
			}
			return fmt.Errorf("verif: targeter failure")
		}
		t.Method = "GET"
		t.URL = "http://verif.invalid/" + strconv.Itoa(c.tgtCalls)
		return nil
	})
	c.res = c.atk.Attack(tr, ctlPacer{c}, c.du, "ctl")
	return c
}

// Bystanders returns a selection (determined by k) of attacker options that do not concern scheduling.
func Bystanders(k uint64) []func(*vegeta.Attacker) {
	all := []func(*vegeta.Attacker){
		vegeta.SessionTickets(true), vegeta.HTTP2(false), vegeta.KeepAlive(false), vegeta.Redirects(vegeta.NoFollow), vegeta.Redirects(3),
		vegeta.MaxBody(0), vegeta.MaxBody(16), vegeta.Timeout(5 * time.Second), vegeta.Connections(7), vegeta.MaxConnections(3),
		vegeta.ChunkedBody(true), vegeta.ProxyHeader(http.Header{"X-Verif": []string{"1"}}), vegeta.TLSConfig(&tls.Config{}),
		vegeta.SessionTickets(false), vegeta.HTTP2(true), vegeta.KeepAlive(true),
	}
	var out []func(*vegeta.Attacker)
	if k%3 == 0 {
		return out // a third of the configurations: none
	}
	for i, o := range all {
		if (k>>uint(i%16))&1 == 1 || (k+uint64(i))%5 == 0 {
			out = append(out, o)
		}
	}
	return out
}

// goroutine dump inspection --------------------------------------------------

var blockedStates = map[string]bool{
	"chan receive": true, "chan send": true, "select": true, "semacquire": true,
	"sync.Mutex.Lock": true, "sync.WaitGroup.Wait": true, "sync.Cond.Wait": true, // not "sleep": the loop sleeping for a pacer wait is about to move
	"chan receive (nil chan)": true, "select (no cases)": true, "IO wait": true,
}

// attackGoroutines returns (alive, allBlocked) for the goroutines of this process that run
// the attack's main loop or a worker.
func attackGoroutines() (alive int, blocked bool) {
	buf := make([]byte, 1<<16)
	for {
		n := runtime.Stack(buf, true)
		if n < len(buf) {
			buf = buf[:n]
			break
		}
		buf = make([]byte, 2*len(buf))
	}
	blocked = true
	for _, g := range strings.Split(string(buf), "\n\n") {
		// the goroutine's own frames (the "created by" trailer names Attack for every goroutine it starts)
		first := g
		if i := strings.Index(g, "\ncreated by"); i >= 0 {
			first = g[:i]
		}
		// main loop: Attack.func1 (and its deferred closure); worker: (*Attacker).attack; a goroutine that
		// was started but has not run yet shows only the go-statement wrapper Attack.gowrapN / Attack.func1.gowrapN
		if !strings.Contains(first, "lib.(*Attacker).attack(") && !strings.Contains(first, "lib.(*Attacker).Attack.") {
			continue
		}
		alive++
		hdr := g[:strings.Index(g, "\n")]
		st := hdr[strings.Index(hdr, "[")+1 : strings.LastIndex(hdr, "]")]
		if i := strings.Index(st, ","); i >= 0 { // "chan receive, 2 minutes"
			st = st[:i]
		}
		if !blockedStates[st] {
			blocked = false
		}
	}
	return
}

func (c *Ctl) snapshot() Obs {
	c.mu.Lock()
	defer c.mu.Unlock()
	o := Obs{PaceBlocked: c.paceBlocked, Count: c.paceHits, Closed: c.closed,
		InTransport: make([]uint64, 0, len(c.inTr)), Delivered: append([]uint64{}, c.delivered...)}
	for s := range c.inTr {
		o.InTransport = append(o.InTransport, s)
	}
	sort.Slice(o.InTransport, func(i, j int) bool { return o.InTransport[i] < o.InTransport[j] })
	return o
}

func obsEq(a, b Obs) bool { return a.Tokens() == b.Tokens() }

// Quiesce waits until every attack goroutine is parked and the observables are stable.
func (c *Ctl) Quiesce() (Obs, bool) {
	// the loop may sit out the wait the harness has just handed to it in any way it likes (time.Sleep shows as
	// "sleep" in a goroutine dump, a timer in a select as "select" — which looks parked): wait it out first
	c.mu.Lock()
	w := c.settle
	c.settle = 0
	c.mu.Unlock()
	if w > 0 {
		time.Sleep(w + time.Millisecond)
	}
	deadline := time.Now().Add(5 * time.Second)
	var last Obs
	stable := 0
	for time.Now().Before(deadline) {
		runtime.Gosched()
		alive, blocked := attackGoroutines()
		o := c.snapshot()
		o.Alive = alive
		if blocked && stable > 0 && obsEq(o, last) {
			stable++
			if stable >= 3 {
				return o, true
			}
		} else if blocked {
			stable = 1
		} else {
			stable = 0
		}
		last = o
		time.Sleep(50 * time.Microsecond)
	}
	return last, false
}

// Commands ---------------------------------------------------------------------

// ReleasePace answers the outstanding Pace call.
func (c *Ctl) ReleasePace(stop bool) bool {
	c.mu.Lock()
	ok := c.paceBlocked
	c.mu.Unlock()
	if !ok {
		return false
	}
	// the wait handed back varies (zero = "behind schedule", small positive = "on schedule"): how the loop
	// treats a released hit must not depend on it
	c.mu.Lock()
	c.nRelease++
	w := []time.Duration{0, 50 * time.Microsecond, 0, time.Microsecond, 200 * time.Microsecond}[c.nRelease%5]
	c.mu.Unlock()
	if stop {
		w = 0
	}
	c.mu.Lock()
	c.settle = w
	c.mu.Unlock()
	c.paceCh <- paceAns{w, stop}
	return true
}

// ReleaseTransport lets the exchange of hit seq complete.
func (c *Ctl) ReleaseTransport(seq uint64) bool {
	c.mu.Lock()
	ch, ok := c.inTr[seq]
	if ok {
		delete(c.inTr, seq)
	}
	c.mu.Unlock()
	if ok {
		close(ch)
	}
	return ok
}

// Receive takes one result: "g<seq>", "n" (nobody sending), "c" (closed).
func (c *Ctl) Receive() string {
	select {
	case r, ok := <-c.res:
		c.mu.Lock()
		defer c.mu.Unlock()
		if !ok {
			c.closed = true
			return "c"
		}
		c.delivered = append(c.delivered, r.Seq)
		c.results = append(c.results, r)
		return "g" + strconv.FormatUint(r.Seq, 10)
	case <-time.After(15 * time.Millisecond):
		return "n"
	}
}

func (c *Ctl) Stop() bool {
	b := c.atk.Stop()
	c.mu.Lock()
	c.StopReturns = append(c.StopReturns, b)
	c.mu.Unlock()
	return b
}

func (c *Ctl) SetFail(f bool) {
	c.mu.Lock()
	c.failMode = f
	c.mu.Unlock()
}

func (c *Ctl) TargeterErrors() int { c.mu.Lock(); defer c.mu.Unlock(); return c.tgtErrored }
func (c *Ctl) TargeterCalls() int  { c.mu.Lock(); defer c.mu.Unlock(); return c.tgtCalls }
func (c *Ctl) HighWater() int      { c.mu.Lock(); defer c.mu.Unlock(); return c.hwm }
func (c *Ctl) PaceElapsed() []time.Duration {
	c.mu.Lock()
	defer c.mu.Unlock()
	return append([]time.Duration{}, c.paceElapsed...)
}
func (c *Ctl) PaceArgs() []uint64 {
	c.mu.Lock()
	defer c.mu.Unlock()
	return append([]uint64{}, c.paceArgs...)
}
func (c *Ctl) Results() []*vegeta.Result {
	c.mu.Lock()
	defer c.mu.Unlock()
	return append([]*vegeta.Result{}, c.results...)
}
func (c *Ctl) Stopped() bool { return c.atk.VerifStopped() }
