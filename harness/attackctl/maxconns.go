package attackctl

import (
	"fmt"
	"net/http"
	"net/http/httptest"
	"sync"
	"time"

	vegeta "github.com/tsenart/vegeta/v12/lib"
	"vharness/kit"
	"vharness/run"
)

// MaxConnsRuns: the worker cap is max-workers, whatever other limits are configured. k servers (k hosts),
// MaxConnections(1) (one connection per HOST), MaxWorkers(m >= k), targets rotating over the servers, every
// request held: each of the k servers must come to hold a request at the same time — a released hit starts
// while fewer than max-workers are busy — and never more than m requests are in flight.
func MaxConnsRuns(c *run.Ctx, s *kit.Summary, r *kit.Rng) {
	n := c.N(3, 20)
	for i := 0; i < n; i++ {
		k := 2 + r.Pick(3)
		m := uint64(k + r.Pick(3))
		w := uint64(r.Pick(3))
		var mu sync.Mutex
		held := make([]int, k)
		cur, peak := 0, 0
		release := make(chan struct{})
		var srvs []*httptest.Server
		var tgts []vegeta.Target
		for j := 0; j < k; j++ {
			j := j
			srv := httptest.NewServer(http.HandlerFunc(func(rw http.ResponseWriter, _ *http.Request) {
				mu.Lock()
				held[j]++
				cur++
				if cur > peak {
					peak = cur
				}
				mu.Unlock()
				<-release
				mu.Lock()
				cur--
				mu.Unlock()
				fmt.Fprint(rw, "ok")
			}))
			srvs = append(srvs, srv)
			tgts = append(tgts, vegeta.Target{Method: "GET", URL: srv.URL + "/"})
		}
		opts := []func(*vegeta.Attacker){vegeta.Workers(w), vegeta.MaxWorkers(m), vegeta.MaxConnections(1)}
		r.Shuffle(len(opts), func(a, b int) { opts[a], opts[b] = opts[b], opts[a] })
		atk := vegeta.NewAttacker(opts...)
		hits := uint64(3 * k)
		res := atk.Attack(vegeta.NewStaticTargeter(tgts...), &stressPacer{limit: hits, onSchedule: i%2 == 0}, 0, "maxconns")
		done := make(chan int)
		go func() {
			cnt := 0
			for range res {
				cnt++
			}
			done <- cnt
		}()
		deadline := time.Now().Add(10 * time.Second)
		all := false
		for time.Now().Before(deadline) && !all {
			mu.Lock()
			all = true
			for _, h := range held {
				if h == 0 {
					all = false
				}
			}
			mu.Unlock()
			time.Sleep(2 * time.Millisecond)
		}
		time.Sleep(50 * time.Millisecond)
		mu.Lock()
		p := peak
		hs := append([]int{}, held...)
		mu.Unlock()
		close(release)
		var cnt int
		select {
		case cnt = <-done:
		case <-time.After(60 * time.Second):
			cnt = -1
		}
		for _, srv := range srvs {
			srv.Close()
		}
		s.Case(fmt.Sprint("maxconns:", k, m, w), true)
		s.Count("maxconns:runs")
		in := map[string]interface{}{"servers": k, "max_workers": m, "workers": w, "max_connections_per_host": 1, "hits": hits}
		if !all {
			s.Violate(kit.Violation{Kind: "free_capacity_not_used", What: "with one connection per host, k hosts and max-workers >= k, a released hit for an idle host did not start within 10 s although fewer than max-workers requests were in flight",
				Input: in, Expected: fmt.Sprint("a held request at each of the ", k, " servers"), Observed: fmt.Sprint("held per server: ", hs)})
		}
		if uint64(p) > m {
			s.Violate(kit.Violation{Kind: "inflight_exceeds_max", What: "max-connections run: more requests in flight than max-workers", Input: in, Expected: fmt.Sprint("<= ", m), Observed: fmt.Sprint(p)})
		}
		if cnt != int(hits) {
			s.Diverge("sibling-property:results_not_exactly_started_hits", fmt.Sprint(in), fmt.Sprint(cnt, " results"), fmt.Sprint(hits, " results (C02)"))
		}
	}
}
