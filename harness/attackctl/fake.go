package attackctl

import (
	"bytes"
	"errors"
	"io"
	"net"
	"net/http"
	"strconv"
	"strings"

	"vharness/kit"
	"vharness/run"
)

type hookRT struct{ f func(seq uint64) }

func (t hookRT) RoundTrip(req *http.Request) (*http.Response, error) {
	seq, _ := strconv.ParseUint(req.Header.Get("X-Vegeta-Seq"), 10, 64)
	t.f(seq)
	// how an exchange ends is none of the scheduler's business: some fail inside the transport, some get an error status
	switch seq % 5 {
	case 1:
		return nil, &net.OpError{Op: "read", Net: "tcp", Err: errors.New("verif: connection reset by peer")}
	case 3:
		return &http.Response{StatusCode: 503, Status: "503 Service Unavailable", Proto: "HTTP/1.1", ProtoMajor: 1, ProtoMinor: 1,
			Header: http.Header{}, Body: io.NopCloser(bytes.NewReader([]byte("busy"))), Request: req}, nil
	}
	return &http.Response{StatusCode: 200, Status: "200 OK", Proto: "HTTP/1.1", ProtoMajor: 1, ProtoMinor: 1,
		Header: http.Header{}, Body: io.NopCloser(bytes.NewReader(nil)), Request: req}, nil
}

func newFakeClient(f func(seq uint64)) *http.Client { return &http.Client{Transport: hookRT{f}} }

// NewFakeClient returns an http.Client whose transport calls f with the hit's sequence number
// and answers 200 with an empty body.
func NewFakeClient(f func(seq uint64)) *http.Client { return newFakeClient(f) }

// pumpStream checks the CLI result pump (processAttack in attack.go) against its Lean model.
func pumpStream(c *run.Ctx, s *kit.Summary, r *kit.Rng) {
	var ops []string
	alpha := "rrrrsce"
	n := c.N(300, 3000)
	for i := 0; i < n; i++ {
		l := 1 + r.Pick(9)
		b := make([]byte, l)
		for k := range b {
			b[k] = alpha[r.Pick(len(alpha))]
		}
		ops = append(ops, "pump "+string(b))
	}
	outs, err := kit.RunVegeta(c.Vegeta, ops)
	if err != nil {
		s.Diverge("c02.pump", "(vegeta-verif failure)", err.Error(), "")
		return
	}
	st := &kit.Stream{Name: "c02.pump"}
	for i := range ops {
		// the number of events the hook managed to offer is not an observable of the pump
		if j := strings.Index(outs[i], "consumed="); j >= 0 {
			if k := strings.Index(outs[i][j:], " "); k >= 0 {
				outs[i] = outs[i][:j] + outs[i][j+k+1:]
			}
		}
		script := ops[i][5:]
		st.Add("c02.pump "+script, outs[i])
		s.Case("pump:"+script, len(script) > 2)
		// oracle from the statement: every result that arrived before the pump returned was written
		// exactly once, in order; a first signal keeps draining, a second one ends it.
		exp := pumpOracle(script)
		if outs[i] != exp {
			s.Violate(kit.Violation{Kind: "cli_pump", What: "result pump of the attack command lost, duplicated or reordered results, or mishandled the two-stage signal",
				Input: script, Expected: exp, Observed: outs[i]})
		}
	}
	st.Diff(c.Driver, s)
}

// pumpOracle: reference written from the documented behaviour (first signal: stop the attack and
// keep writing results until the channel closes; second signal: return at once).
func pumpOracle(script string) string {
	consumed, sigs, encoded := 0, 0, []string{}
	returned := "running"
	failNext := false
	seq := 0
loop:
	for _, ev := range script {
		switch ev {
		case 'e':
			failNext = true
			consumed++
		case 'r':
			consumed++
			if failNext {
				returned = "error"
				break loop
			}
			encoded = append(encoded, strconv.Itoa(seq))
			seq++
		case 's':
			consumed++
			sigs++
			if sigs == 2 {
				returned = "nil"
				break loop
			}
		case 'c':
			consumed++
			returned = "nil"
			break loop
		}
	}
	stopped := sigs > 0
	_ = consumed
	out := "ok returned=" + returned + " stopped=" + strconv.FormatBool(stopped) +
		" encoded=" + strconv.Itoa(len(encoded)) + " "
	for i, e := range encoded {
		if i > 0 {
			out += ","
		}
		out += e
	}
	return out
}
