package attackctl

import (
	"bufio"
	"fmt"
	"net"
	"net/http"
	"sort"
	"time"

	vegeta "github.com/tsenart/vegeta/v12/lib"
	"vharness/kit"
	"vharness/run"
)

// FlakyKeepAliveRuns: real attacks (real transport, keep-alive on) against a raw TCP server that answers the FIRST
// request on every connection and hangs up when a second one arrives on it — a load balancer's idle-timeout race.
// With methods net/http does not replay by itself (POST, PUT, DELETE, PATCH) such a hit fails; it is still a started
// hit: exactly one result per started hit, sequence numbers exactly 0..n-1, channel closed, nobody left behind.
func FlakyKeepAliveRuns(c *run.Ctx, s *kit.Summary, r *kit.Rng) {
	n := c.N(4, 40)
	for i := 0; i < n; i++ {
		ln, err := net.Listen("tcp", "127.0.0.1:0")
		if err != nil {
			s.Skipped["flaky: cannot listen"]++
			return
		}
		go func() {
			for {
				conn, err := ln.Accept()
				if err != nil {
					return
				}
				go func(conn net.Conn) {
					defer conn.Close()
					br := bufio.NewReader(conn)
					req, err := http.ReadRequest(br)
					if err != nil {
						return
					}
					if req.Body != nil {
						buf := make([]byte, 4096)
						for {
							if _, e := req.Body.Read(buf); e != nil {
								break
							}
						}
					}
					fmt.Fprint(conn, "HTTP/1.1 200 OK\r\nContent-Length: 2\r\nContent-Type: text/plain\r\n\r\nok")
					// wait for the next request on this connection, then hang up without answering
					conn.SetReadDeadline(time.Now().Add(20 * time.Second))
					br.Peek(1)
				}(conn)
			}
		}()
		method := []string{"POST", "PUT", "DELETE", "PATCH", "GET"}[i%5]
		workers := uint64(1 + r.Pick(3))
		hits := uint64(6 + r.Pick(8))
		atk := vegeta.NewAttacker(vegeta.Workers(workers), vegeta.MaxWorkers(workers), vegeta.KeepAlive(true), vegeta.Timeout(10*time.Second))
		tgt := vegeta.Target{Method: method, URL: "http://" + ln.Addr().String() + "/"}
		if method != "GET" && method != "DELETE" {
			tgt.Body = []byte("payload")
		}
		res := atk.Attack(vegeta.NewStaticTargeter(tgt), &stressPacer{limit: hits}, 0, "flaky")
		var seqs []uint64
		failed := 0
		closed := false
		deadline := time.After(60 * time.Second)
	recv:
		for {
			select {
			case x, ok := <-res:
				if !ok {
					closed = true
					break recv
				}
				seqs = append(seqs, x.Seq)
				if x.Error != "" {
					failed++
				}
			case <-deadline:
				break recv
			}
		}
		ln.Close()
		in := map[string]interface{}{"scenario": "server answers the first request on each connection and hangs up on the second", "method": method, "workers": workers, "hits_released": hits}
		s.Case(fmt.Sprint("flaky:", i), true)
		s.Count("flaky:method=" + method)
		s.Count(fmt.Sprintf("flaky:some_hits_failed=%v", failed > 0))
		if !closed {
			atk.Stop()
			s.Violate(kit.Violation{Kind: "attack_does_not_end", What: "flaky keep-alive: the results channel was not closed within 60 s after the pacer said stop", Input: in})
			continue
		}
		sort.Slice(seqs, func(a, b int) bool { return seqs[a] < seqs[b] })
		okSeq := uint64(len(seqs)) == hits
		for j, q := range seqs {
			if q != uint64(j) {
				okSeq = false
			}
		}
		if !okSeq {
			s.Violate(kit.Violation{Kind: "results_not_exactly_started_hits", What: "flaky keep-alive: delivered sequence numbers are not exactly 0..n-1 for the hits the pacer released", Input: in,
				Expected: fmt.Sprintf("0..%d", hits-1), Observed: fmt.Sprint(seqs)})
		}
		var left []string
		for k := 0; k < 25; k++ {
			if left = libGoroutines(); len(left) == 0 {
				break
			}
			time.Sleep(10 * time.Millisecond)
		}
		if len(left) > 0 {
			s.Violate(kit.Violation{Kind: "goroutine_left_behind", What: "flaky keep-alive: goroutines executing attack code are alive after the results channel was closed", Input: in,
				Expected: "none", Observed: fmt.Sprint(len(left))})
		}
	}
}
