package attackctl

import (
	"fmt"
	"io"
	"net/http"
	"strings"
	"time"

	vegeta "github.com/tsenart/vegeta/v12/lib"
	"vharness/kit"
	"vharness/run"
)

type okRT struct{ delay time.Duration }

func (t okRT) RoundTrip(req *http.Request) (*http.Response, error) {
	if t.delay > 0 {
		time.Sleep(t.delay)
	}
	return &http.Response{StatusCode: 200, Status: "200 OK", Body: io.NopCloser(strings.NewReader("ok")), Header: http.Header{}, Request: req, ContentLength: -1}, nil
}

// LazyTargeterRuns: attacks driven directly by the library's own stream targeters (JSON and http format) over
// a pipe that ends in the middle of the attack — what `vegeta attack -lazy` does. When the targets run dry
// the targeter fails, which is a stop condition: the results channel must be closed, every started hit must
// have delivered exactly one result with sequence numbers 0..n-1, and no goroutine may stay behind.
func LazyTargeterRuns(c *run.Ctx, s *kit.Summary, r *kit.Rng) {
	n := c.N(6, 60)
	for i := 0; i < n; i++ {
		format := []string{"json", "http"}[i%2]
		ntargets := 1 + r.Pick(12)
		workers := uint64(1 + r.Pick(6))
		maxw := workers + uint64(r.Pick(6))
		pr, pw := io.Pipe()
		var tr vegeta.Targeter
		if format == "json" {
			tr = vegeta.NewJSONTargeter(pr, nil, nil)
		} else {
			tr = vegeta.NewHTTPTargeter(pr, nil, nil)
		}
		tail := []string{"", "\n", "\n\n", "   \n"}[r.Pick(4)] // how the stream ends
		go func() {
			for k := 0; k < ntargets; k++ {
				if format == "json" {
					fmt.Fprintf(pw, "{\"method\":\"GET\",\"url\":\"http://verif.invalid/%d\"}\n", k)
				} else {
					fmt.Fprintf(pw, "GET http://verif.invalid/%d\n\n", k)
				}
				if k%3 == 2 {
					time.Sleep(time.Duration(r.Pick(3)) * time.Millisecond)
				}
			}
			io.WriteString(pw, tail)
			time.Sleep(time.Duration(1+r.Pick(20)) * time.Millisecond)
			pw.Close() // end of input while workers are waiting in the targeter
		}()
		atk := vegeta.NewAttacker(vegeta.Workers(workers), vegeta.MaxWorkers(maxw), vegeta.Client(&http.Client{Transport: okRT{time.Duration(r.Pick(3)) * time.Millisecond}}))
		res := atk.Attack(tr, &stressPacer{limit: 1 << 40, onSchedule: i%4 < 2}, 0, "lazy")
		var got []*vegeta.Result
		closed := false
		timeout := time.After(30 * time.Second)
	loop:
		for {
			select {
			case x, ok := <-res:
				if !ok {
					closed = true
					break loop
				}
				got = append(got, x)
			case <-timeout:
				break loop
			}
		}
		s.Case(fmt.Sprint("lazy:", format, ntargets, workers, maxw, len(tail)), true)
		s.Count("lazy:runs format=" + format)
		in := map[string]interface{}{"scenario": "lazy stream targeter over a pipe that ends mid-attack", "format": format, "targets": ntargets,
			"workers": workers, "max_workers": maxw, "stream_tail": tail}
		if !closed {
			atk.Stop()
			pr.Close()
			s.Violate(kit.Violation{Kind: "attack_does_not_end", What: "the targets ran dry (the targeter failed) but the results channel was not closed within 30 s", Input: in,
				Observed: fmt.Sprint(len(got), " results so far")})
			return // its goroutines stay: later runs of this process could not be judged
		}
		seen := map[uint64]bool{}
		good := 0
		for _, g := range got {
			seen[g.Seq] = true
			if g.Error == "" {
				good++
			}
		}
		okSeq := len(seen) == len(got)
		for q := 0; q < len(got) && okSeq; q++ {
			okSeq = seen[uint64(q)]
		}
		if !okSeq {
			s.Violate(kit.Violation{Kind: "results_not_exactly_started_hits", What: "lazy run: the delivered sequence numbers are not exactly 0..n-1", Input: in, Observed: fmt.Sprint(len(got), " results, ", len(seen), " distinct")})
		}
		if good != ntargets {
			s.Violate(kit.Violation{Kind: "results_not_exactly_started_hits", What: "lazy run: the number of successful hits differs from the number of targets in the stream", Input: in,
				Expected: fmt.Sprint(ntargets), Observed: fmt.Sprint(good)})
		}
		var left []string
		deadline := time.Now().Add(10 * time.Second)
		for {
			left = libGoroutines()
			if len(left) == 0 || time.Now().After(deadline) {
				break
			}
			time.Sleep(5 * time.Millisecond)
		}
		if len(left) > 0 {
			st := left[0]
			if len(st) > 1500 {
				st = st[:1500]
			}
			s.Violate(kit.Violation{Kind: "goroutine_left_behind", What: "lazy run: goroutines executing the attack's code are alive 10 s after the results channel was closed", Input: in,
				Observed: fmt.Sprintf("%d, e.g.\n%s", len(left), st)})
			return
		}
	}
}
