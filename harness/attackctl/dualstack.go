package attackctl

import (
	"context"
	"fmt"
	"net"
	"net/http"
	"net/http/httptest"
	"path/filepath"
	"reflect"
	"runtime"
	"strings"
	"sync/atomic"
	"time"

	"github.com/miekg/dns"
	vegeta "github.com/tsenart/vegeta/v12/lib"
	"vharness/kit"
	"vharness/run"
)

var libDirOnce string

// libDir is the directory of vegeta's lib package as it appears in stack traces.
func libDir() string {
	if libDirOnce == "" {
		f := runtime.FuncForPC(reflect.ValueOf(vegeta.NewAttacker).Pointer())
		file, _ := f.FileLine(f.Entry())
		libDirOnce = filepath.Dir(file) + "/"
	}
	return libDirOnce
}

// libGoroutines returns the stacks of goroutines that are executing code of vegeta's lib package.
func libGoroutines() []string {
	buf := make([]byte, 1<<18)
	for {
		n := runtime.Stack(buf, true)
		if n < len(buf) {
			buf = buf[:n]
			break
		}
		buf = make([]byte, 2*len(buf))
	}
	var out []string
	for _, g := range strings.Split(string(buf), "\n\n") {
		first := g
		if i := strings.Index(g, "\ncreated by"); i >= 0 {
			first = g[:i]
		}
		// by source file, not by function name: closures of lib inlined into a harness function carry the
		// harness function's name
		if strings.Contains(first, libDir()) {
			out = append(out, g)
		}
	}
	return out
}

// DualStackRuns: real attacks (real transport, real dial path with DNS caching) against a loopback server
// reached through a name that resolves to an IPv4 AND an IPv6 address, where the dial to one family hangs
// until it is cancelled. Besides the C02 clauses on the results, "no goroutine of the attack is left behind"
// is judged on every goroutine that executes code of the lib package (dial helpers included).
func DualStackRuns(c *run.Ctx, s *kit.Summary, r *kit.Rng) {
	pc, err := net.ListenPacket("udp", "127.0.0.1:0")
	if err != nil {
		s.Skipped["dualstack: no loopback udp socket"]++
		return
	}
	const name = "dual.verif.test."
	h := dns.HandlerFunc(func(w dns.ResponseWriter, q *dns.Msg) {
		m := &dns.Msg{}
		m.SetReply(q)
		for _, qu := range q.Question {
			if qu.Name != name {
				m.SetRcode(q, dns.RcodeNameError)
				continue
			}
			hd := dns.RR_Header{Name: qu.Name, Class: dns.ClassINET, Ttl: 60, Rrtype: qu.Qtype}
			switch qu.Qtype {
			case dns.TypeA:
				m.Answer = append(m.Answer, &dns.A{Hdr: hd, A: net.ParseIP("127.0.0.1").To4()})
			case dns.TypeAAAA:
				m.Answer = append(m.Answer, &dns.AAAA{Hdr: hd, AAAA: net.ParseIP("::1")})
			}
		}
		w.WriteMsg(m)
	})
	started := make(chan struct{})
	srv := &dns.Server{PacketConn: pc, Handler: h, NotifyStartedFunc: func() { close(started) }}
	go srv.ActivateAndServe()
	<-started
	defer srv.Shutdown()
	addr := pc.LocalAddr().String()
	old := net.DefaultResolver
	net.DefaultResolver = &net.Resolver{PreferGo: true, Dial: func(ctx context.Context, _, _ string) (net.Conn, error) {
		var d net.Dialer
		return d.DialContext(ctx, "udp", addr)
	}}
	defer func() { net.DefaultResolver = old }()

	web := httptest.NewServer(http.HandlerFunc(func(w http.ResponseWriter, _ *http.Request) { fmt.Fprint(w, "ok") }))
	defer web.Close()
	_, port, _ := net.SplitHostPort(web.Listener.Addr().String())

	n := c.N(4, 24)
	for i := 0; i < n; i++ {
		hang := []string{"v6", "v6", "none-v6-refused"}[r.Pick(3)]
		hits := uint64(3 + r.Pick(6))
		var dials, dials6 int64
		base := func(ctx context.Context, network, a string) (net.Conn, error) {
			atomic.AddInt64(&dials, 1)
			v6 := strings.HasPrefix(a, "[")
			if v6 {
				atomic.AddInt64(&dials6, 1)
			}
			if v6 && hang == "v6" {
				<-ctx.Done() // a black-holed route: nothing happens until the dial is abandoned
				return nil, ctx.Err()
			}
			if v6 {
				return nil, fmt.Errorf("verif: connection refused")
			}
			var d net.Dialer
			return d.DialContext(ctx, network, a)
		}
		// KeepAlive(false) first: it installs the plain dialer, which the later options then wrap
		ttl := []time.Duration{0, 0, 30 * time.Millisecond}[i%3] // with a positive ttl a refresh goroutine belongs to the attack too
		atk := vegeta.NewAttacker(vegeta.KeepAlive(false), vegeta.VerifBaseDial(base), vegeta.DNSCaching(ttl),
			vegeta.Workers(uint64(1+r.Pick(3))), vegeta.MaxWorkers(4))
		tr := vegeta.NewStaticTargeter(vegeta.Target{Method: "GET", URL: "http://dual.verif.test:" + port + "/"})
		var got []*vegeta.Result
		for res := range atk.Attack(tr, &stressPacer{limit: hits}, 0, "dualstack") {
			got = append(got, res)
		}
		s.Case(fmt.Sprint("dualstack:", i, hang, hits), true)
		s.Count("dualstack:runs hang=" + hang)
		in := map[string]interface{}{"scenario": "dual-stack name, DNSCaching(ttl), KeepAlive(false)", "dns_ttl_ns": int64(ttl), "hanging_family": hang, "hits": hits}
		s.Count(fmt.Sprintf("dualstack:dns_ttl_positive=%v", ttl > 0))
		seen := map[uint64]bool{}
		okc := 0
		for _, g := range got {
			seen[g.Seq] = true
			if g.Code == 200 {
				okc++
			}
		}
		if uint64(len(got)) != hits || uint64(len(seen)) != hits {
			s.Violate(kit.Violation{Kind: "results_not_exactly_started_hits", What: "dual-stack run: the delivered results are not one per released hit", Input: in,
				Expected: fmt.Sprint(hits), Observed: fmt.Sprint(len(got), " results, ", len(seen), " distinct sequence numbers")})
		}
		s.CountN("dualstack:base_dials_ipv6", int(atomic.LoadInt64(&dials6)))
		s.CountN("dualstack:base_dials", int(atomic.LoadInt64(&dials)))
		if okc == 0 || atomic.LoadInt64(&dials6) == 0 {
			s.Skipped["dualstack: loopback server not reached through both families"]++
			continue
		}
		// generous: cancelled dials need a moment to notice
		var left []string
		deadline := time.Now().Add(10 * time.Second)
		for {
			left = libGoroutines()
			if len(left) == 0 || time.Now().After(deadline) {
				break
			}
			time.Sleep(5 * time.Millisecond)
		}
		if len(left) > 0 {
			st := left[0]
			if len(st) > 1500 {
				st = st[:1500]
			}
			s.Violate(kit.Violation{Kind: "goroutine_left_behind", What: "dual-stack run: goroutines executing the attack's code are alive 10 s after the results channel was closed", Input: in,
				Expected: "0", Observed: fmt.Sprintf("%d, e.g.\n%s", len(left), st)})
			return // they stay for the life of the process: later runs could not be judged
		}
	}
}
