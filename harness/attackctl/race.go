package attackctl

import (
	"bufio"
	"encoding/json"
	"fmt"
	"os"
	"os/exec"
	"path/filepath"
	"strings"

	"vharness/kit"
	"vharness/run"
)

// HarnessDir is the harness module's directory.
func HarnessDir() string { return harnessDir() }

func harnessDir() string {
	if exe, err := os.Executable(); err == nil {
		d := filepath.Join(filepath.Dir(exe), "..", "harness")
		if _, err := os.Stat(filepath.Join(d, "go.mod")); err == nil {
			return d
		}
	}
	return "/verif/harness"
}

// accessFrames returns, for one race report, the top frame of each of the two conflicting accesses.
func AccessFrames(rep string) []string { return accessFrames(rep) }

func accessFrames(rep string) []string {
	var tops []string
	lines := strings.Split(rep, "\n")
	for i, ln := range lines {
		t := strings.TrimSpace(ln)
		if (strings.HasPrefix(t, "Read at") || strings.HasPrefix(t, "Write at") || strings.HasPrefix(t, "Previous read at") ||
			strings.HasPrefix(t, "Previous write at") || strings.HasPrefix(t, "Atomic") || strings.HasPrefix(t, "Previous atomic")) && i+1 < len(lines) {
			tops = append(tops, strings.TrimSpace(lines[i+1]))
		}
	}
	return tops
}

// RaceRun builds the property's harness binary with the race detector and runs stress and Stop-race jobs of
// the real attack in it. A report whose conflicting accesses are not both inside the harness itself breaks
// the tie between model and code (the attack loop, its workers, Stop and hit are the only other code running).
func RaceRun(cmdPkg string, c *run.Ctx, s *kit.Summary, r *kit.Rng) {
	bin := filepath.Join(c.Work, "vh_attack_race")
	cmd := exec.Command("go", "build", "-race", "-tags", "verif", "-o", bin, cmdPkg)
	cmd.Dir = harnessDir()
	cmd.Env = append(os.Environ(), "GOFLAGS=-mod=mod", "GOPROXY=off", "GOSUMDB=off", "GOTOOLCHAIN=local", "CGO_ENABLED=1")
	if out, err := cmd.CombinedOutput(); err != nil {
		s.Skipped["race_detector_build_failed"]++
		msg := string(out)
		if len(msg) > 600 {
			msg = msg[len(msg)-600:]
		}
		s.Extra["race_detector"] = "not run: go build -race failed: " + err.Error() + ": " + msg
		return
	}
	var jobs []Job
	n := c.N(24, 600)
	for i := 0; i < n; i++ {
		jobs = append(jobs, Job{Kind: "stress", Workers: uint64(r.Intn(12)), Max: uint64(1 + r.Intn(16)), Seed: r.Int63(), Len: 30 + r.Intn(200), MaxFirst: r.Intn(2) == 0})
	}
	jobs = append(jobs, Job{Kind: "stoprace", Workers: 4, Len: c.N(500, 10000)})
	logp := filepath.Join(c.Work, "attack_race_report")
	child := exec.Command(bin)
	child.Env = append(os.Environ(), "VH_CHILD=1", "VH_RACE=1", "GORACE=halt_on_error=0 exitcode=0 log_path="+logp)
	in, _ := json.Marshal(jobs)
	child.Stdin = strings.NewReader(string(in))
	var errb strings.Builder
	child.Stderr = &errb
	stdout, _ := child.StdoutPipe()
	if err := child.Start(); err != nil {
		s.Skipped["race_detector_child_failed"]++
		return
	}
	sc := bufio.NewScanner(stdout)
	sc.Buffer(make([]byte, 1<<20), 1<<28)
	done := 0
	for sc.Scan() {
		var o Outcome
		if json.Unmarshal(sc.Bytes(), &o) == nil {
			done++
			s.Count("race_build:job:" + o.Job.Kind)
		}
	}
	err := child.Wait()
	if ee, ok := err.(*exec.ExitError); ok && ee.ExitCode() != ExitDirty && done < len(jobs) {
		msg := errb.String()
		if len(msg) > 3000 {
			msg = msg[:3000]
		}
		s.Violate(kit.Violation{Kind: "attack_crashed", What: "(race build) the real attack crashed the process", Input: jobs[done], Observed: msg})
	}
	reports, _ := filepath.Glob(logp + ".*")
	nrep, nown := 0, 0
	for _, p := range reports {
		b, _ := os.ReadFile(p)
		for _, rep := range strings.Split(string(b), "==================") {
			if !strings.Contains(rep, "WARNING: DATA RACE") {
				continue
			}
			tops := accessFrames(rep)
			own := len(tops) >= 2
			for _, t := range tops {
				if !strings.HasPrefix(t, "vharness/") && !strings.HasPrefix(t, "main.") {
					own = false
				}
			}
			if own {
				nown++ // both accesses in the harness's own code: not the attack's race
				continue
			}
			nrep++
			if len(rep) > 3500 {
				rep = rep[:3500]
			}
			// not by itself a violation of the property: the transition system's atomic steps presuppose a
			// data-race-free attack path, so a report breaks that tie (a correspondence obligation)
			s.Diverge("attack.race_free", "stress / Stop-race jobs under the race detector; conflicting accesses: "+strings.Join(tops, " | "), rep,
				"no data race (the model's atomic steps presuppose a data-race-free attack path)")
		}
	}
	s.Extra["race_detector"] = fmt.Sprintf("ran: %d of %d stress / Stop-race jobs in the -race build, %d race reports (%d inside the harness itself, ignored)", done, len(jobs), nrep, nown)
}
