package attackctl

import (
	"bufio"
	"encoding/json"
	"fmt"
	"math/rand"
	"os"
	"runtime"
	"sort"
	"strconv"
	"strings"
	"sync"
	"sync/atomic"
	"time"

	vegeta "github.com/tsenart/vegeta/v12/lib"
	"vharness/kit"
	"vharness/run"
)

// Job is one controlled run: a random walk of commands (or an explicit script).
type Job struct {
	Kind     string   `json:"kind"` // "ctl" | "stress" | "stoprace"
	Workers  uint64   `json:"workers"`
	Max      uint64   `json:"max"`
	Seed     int64    `json:"seed"`
	Len      int      `json:"len"`
	MaxFirst bool     `json:"max_first,omitempty"` // MaxWorkers option given before Workers
	Script   []string `json:"script,omitempty"`    // explicit commands (replay / exhaustive)
}

type Step struct {
	Cmd    string `json:"cmd"`
	CmdObs string `json:"cmd_obs"`
	Obs    Obs    `json:"obs"`
}

type Finding struct {
	Kind     string                 `json:"kind"`
	What     string                 `json:"what"`
	Expected string                 `json:"expected,omitempty"`
	Observed string                 `json:"observed,omitempty"`
	Key      map[string]interface{} `json:"key,omitempty"`
}

type Outcome struct {
	Job      Job            `json:"job"`
	Obs0     Obs            `json:"obs0"`
	Steps    []Step         `json:"steps"`
	Findings []Finding      `json:"findings"`
	Crashed  bool           `json:"crashed"`
	CrashMsg string         `json:"crash_msg,omitempty"`
	Unquiet  bool           `json:"unquiet"` // quiescence could not be established (inconclusive, not a violation)
	HWM      int            `json:"hwm"`
	Stats    map[string]int `json:"stats,omitempty"`
}

// ExitDirty: the child stopped before a job because goroutines of an earlier attack were still alive.
const ExitDirty = 75

func noAttackGoroutines(d time.Duration) bool {
	deadline := time.Now().Add(d)
	for {
		alive, _ := attackGoroutines()
		if alive == 0 {
			return true
		}
		if time.Now().After(deadline) {
			return false
		}
		time.Sleep(time.Millisecond)
	}
}

func ChildMain() {
	var jobs []Job
	if err := json.NewDecoder(os.Stdin).Decode(&jobs); err != nil {
		fmt.Fprintln(os.Stderr, "child: bad jobs:", err)
		os.Exit(3)
	}
	w := bufio.NewWriter(os.Stdout)
	for _, j := range jobs {
		// every job starts from a process without attack goroutines; if a previous job left some
		// behind (it ended inconclusively) this process is abandoned and the parent starts a fresh one
		if !noAttackGoroutines(3 * time.Second) {
			w.Flush()
			os.Exit(ExitDirty)
		}
		var o Outcome
		switch j.Kind {
		case "stress":
			o = runStress(j)
		case "stoprace":
			o = runStopRace(j)
		default:
			o = runCtl(j)
		}
		b, _ := json.Marshal(o)
		w.Write(b)
		w.WriteByte('\n')
		w.Flush()
	}
}

// runCtl executes one controlled run and evaluates the statements of C02/C03 directly.
func runCtl(j Job) Outcome {
	out := Outcome{Job: j, Stats: map[string]int{}}
	r := rand.New(rand.NewSource(j.Seed))
	c := New(j.Workers, j.Max, j.MaxFirst)
	o, ok := c.Quiesce()
	if !ok {
		out.Unquiet = true
		return out
	}
	out.Obs0 = o
	failMode := false
	terminated := false
	stopping := false // a stop condition has been raised by the harness
	step := func(cmd string) bool {
		before := o
		if c.TargeterErrors() > 0 { // a failing targeter stops the attack by itself
			stopping = true
		}
		co := "-"
		switch {
		case cmd == "P":
			if !c.ReleasePace(false) {
				return true
			}
		case cmd == "X":
			if !c.ReleasePace(true) {
				return true
			}
			stopping = true
		case cmd[0] == 'T':
			seq, _ := strconv.ParseUint(cmd[1:], 10, 64)
			if !c.ReleaseTransport(seq) {
				return true
			}
		case cmd == "R":
			co = c.Receive()
			if co == "c" {
				terminated = true
				if !stopping && c.TargeterErrors() == 0 {
					out.Findings = append(out.Findings, Finding{Kind: "closed_without_stop_condition",
						What: "the results channel was closed although the pacer never said stop, no duration was set, the targeter never failed and Stop was not called"})
				}
			}
		case cmd == "S":
			if c.Stop() {
				co = "t"
			} else {
				co = "f"
			}
			stopping = true
		case cmd == "F":
			failMode = true
			c.SetFail(true)
		case cmd == "G":
			failMode = false
			c.SetFail(false)
		}
		var q bool
		o, q = c.Quiesce()
		if !q {
			out.Unquiet = true
			return false
		}
		out.Steps = append(out.Steps, Step{cmd, co, o})
		out.Stats["cmd:"+cmd[:1]]++
		// ---- C03 oracle: free capacity is used / saturation waits for one consumption ----
		if cmd == "P" && !stopping && !failMode && !before.Closed {
			busyBefore := len(before.InTransport) + pendingSends(before, c)
			if uint64(busyBefore) < j.Max && len(o.InTransport) != len(before.InTransport)+1 {
				out.Findings = append(out.Findings, Finding{Kind: "free_capacity_not_used",
					What:     "the pacer released a hit while fewer than max-workers were busy, but no new request reached the transport without another one finishing",
					Expected: fmt.Sprint(len(before.InTransport) + 1), Observed: fmt.Sprint(len(o.InTransport)),
					Key: map[string]interface{}{"max": j.Max, "busy": busyBefore}})
			}
		}
		// ---- C03 oracle: "when all are busy it starts as soon as one result has been consumed" ----
		// Between commands the loop is parked either in the pacer (PaceBlocked) or in the hand-off of a released hit. If
		// it was in the hand-off with every worker busy and the consumer has now taken a result, the freed worker takes
		// the pending hit: one more request reaches the transport.
		if cmd == "R" && strings.HasPrefix(co, "g") && !before.PaceBlocked && !stopping && !failMode && !before.Closed && c.TargeterErrors() == 0 {
			busyBefore := len(before.InTransport) + pendingSends(before, c)
			if uint64(busyBefore) >= j.Max && len(o.InTransport) != len(before.InTransport)+1 {
				out.Findings = append(out.Findings, Finding{Kind: "free_capacity_not_used",
					What:     "every worker was busy and a released hit was waiting; a result has been consumed, yet the waiting hit did not start (no new request reached the transport)",
					Expected: fmt.Sprint(len(before.InTransport) + 1), Observed: fmt.Sprint(len(o.InTransport)),
					Key: map[string]interface{}{"max": j.Max, "busy": busyBefore, "after": "result consumed"}})
			}
		}
		// hits started (the targeter was consulted) whose result the consumer has not taken yet
		if started := c.TargeterCalls(); uint64(started-len(o.Delivered)) > j.Max {
			out.Findings = append(out.Findings, Finding{Kind: "inflight_exceeds_max",
				What:     "more hits have started and not yet been taken by the consumer than max-workers",
				Expected: "<= " + fmt.Sprint(j.Max), Observed: fmt.Sprintf("%d started, %d consumed", started, len(o.Delivered))})
		}
		if uint64(len(o.InTransport)) > j.Max {
			out.Findings = append(out.Findings, Finding{Kind: "inflight_exceeds_max",
				What: "more requests inside the transport than max-workers", Expected: "<= " + fmt.Sprint(j.Max), Observed: fmt.Sprint(len(o.InTransport))})
		}
		return true
	}
	cmds := j.Script
	for i := 0; (len(j.Script) == 0 && i < j.Len) || i < len(cmds); i++ {
		if terminated {
			break
		}
		var cmd string
		if len(j.Script) > 0 {
			cmd = cmds[i]
		} else {
			cmd = pickCmd(r, o, failMode)
		}
		if !step(cmd) {
			break
		}
	}
	// systematic drain: stop, release everything, consume until closed
	if !out.Unquiet && !terminated {
		// a failed targeter has already raised the stop condition: half of those runs are drained WITHOUT an
		// explicit Stop call — the attack must end by itself
		if c.TargeterErrors() > 0 && r.Intn(2) == 0 {
			out.Stats["drain:without_stop_call_after_targeter_failure"]++
		} else {
			step("S")
		}
		paceAfterStop := 0
		for guard := 0; guard < 10000 && !terminated && !out.Unquiet; guard++ {
			switch {
			case o.PaceBlocked:
				// After Stop the loop may still win the race "send a tick" against "see the stop signal" while a
				// worker is free (Go's select picks at random), once per iteration: 64 wins in a row do not happen
				// (2^-64) unless the loop no longer looks at the stop signal.
				if paceAfterStop++; paceAfterStop > 64 {
					out.Findings = append(out.Findings, Finding{Kind: "attack_does_not_end",
						What: "after Stop the attack keeps consulting the pacer and releasing hits (more than 64 consultations after the stop signal)"})
					guard = 10000
					break
				}
				step("P")
			case len(o.InTransport) > 0:
				step("T" + strconv.FormatUint(o.InTransport[0], 10))
			default:
				before := len(o.Delivered)
				step("R")
				if !terminated && len(o.Delivered) == before && !o.PaceBlocked && len(o.InTransport) == 0 {
					// nothing to receive, nothing to release, not closed: the attack is stuck
					out.Findings = append(out.Findings, Finding{Kind: "attack_does_not_end",
						What: "after Stop, with every request released and every result consumed, the results channel is not closed"})
					guard = 10000
				}
			}
		}
	}
	out.HWM = c.HighWater()
	if out.Unquiet {
		return out
	}
	// ---- C02 oracle on the finished run ----
	seqs := append([]uint64{}, o.Delivered...)
	sort.Slice(seqs, func(a, b int) bool { return seqs[a] < seqs[b] })
	started := c.TargeterCalls()
	okSeq := len(seqs) == started
	for i, s := range seqs {
		if s != uint64(i) {
			okSeq = false
		}
	}
	if terminated && !okSeq {
		out.Findings = append(out.Findings, Finding{Kind: "results_not_exactly_started_hits",
			What:     "the delivered sequence numbers are not exactly 0..n-1 for the n hits that started",
			Expected: fmt.Sprintf("0..%d", started-1), Observed: fmt.Sprint(o.Delivered)})
	}
	if terminated {
		// no goroutine of the attack is left behind
		// generous: on a loaded machine the last goroutines may need a while to be scheduled
		alive := 0
		if !noAttackGoroutines(20 * time.Second) {
			alive, _ = attackGoroutines()
		}
		if alive > 0 {
			out.Findings = append(out.Findings, Finding{Kind: "goroutine_left_behind",
				What: "attack goroutines alive after the results channel was closed", Observed: fmt.Sprint(alive)})
		}
		if !c.Stopped() {
			// the property does not say that the attack raises the stop signal itself when it ends on its own — only
			// that among all Stop calls exactly one reports true. The unchanged code does (deferred Stop), the model too:
			// a difference here is a broken tie, not a violation
			out.Findings = append(out.Findings, Finding{Kind: "model_only:not_stopped_at_end", What: "the attack ended without the stop signal being raised"})
		}
	}
	trues := 0
	for _, b := range c.StopReturns {
		if b {
			trues++
		}
	}
	if trues > 1 {
		out.Findings = append(out.Findings, Finding{Kind: "stop_more_than_one_true", What: "more than one Stop call reported that it initiated the stop", Observed: fmt.Sprint(c.StopReturns)})
	}
	if uint64(out.HWM) > j.Max {
		out.Findings = append(out.Findings, Finding{Kind: "inflight_exceeds_max", What: "transport high-water mark above max-workers", Observed: fmt.Sprint(out.HWM)})
	}
	return out
}

// pendingSends estimates workers blocked on the results channel: hits that left the transport
// (or failed in the targeter) and were not delivered yet.
func pendingSends(o Obs, c *Ctl) int {
	started := c.TargeterCalls()
	return started - len(o.InTransport) - len(o.Delivered)
}

func pickCmd(r *rand.Rand, o Obs, failMode bool) string {
	for {
		switch r.Intn(12) {
		case 0, 1, 2, 3:
			if o.PaceBlocked {
				return "P"
			}
		case 4:
			if o.PaceBlocked && r.Intn(6) == 0 {
				return "X"
			}
		case 5, 6, 7:
			if len(o.InTransport) > 0 {
				return "T" + strconv.FormatUint(o.InTransport[r.Intn(len(o.InTransport))], 10)
			}
		case 8, 9:
			return "R"
		case 10:
			if r.Intn(5) == 0 {
				return "S"
			}
		case 11:
			if r.Intn(4) == 0 {
				if failMode {
					return "G"
				}
				return "F"
			}
		}
	}
}

// ---------------------------------------------------------------------------------
// stress: real scheduler, many workers, slow/stalled consumer, Stop racing everything.

type stressPacer struct {
	n          uint64
	limit      uint64
	onSchedule bool
}

func (p *stressPacer) Pace(_ time.Duration, hits uint64) (time.Duration, bool) {
	if hits >= p.limit {
		return 0, true
	}
	if p.onSchedule && hits%3 != 0 {
		return time.Microsecond, false // "on schedule": a tiny positive wait
	}
	return 0, false
}
func (p *stressPacer) Rate(time.Duration) float64 { return 0 }

func runStress(j Job) Outcome {
	out := Outcome{Job: j, Stats: map[string]int{}}
	r := rand.New(rand.NewSource(j.Seed))
	var inflight, hwm, started int64
	var failAfter int64 = -1
	if r.Intn(3) == 0 {
		failAfter = int64(r.Intn(j.Len + 1))
	}
	failNoTargets := r.Intn(2) == 0
	tr := vegeta.Targeter(func(t *vegeta.Target) error {
		n := atomic.AddInt64(&started, 1)
		if failAfter >= 0 && n > failAfter {
			if failNoTargets {
				return vegeta.ErrNoTargets
			}
			return fmt.Errorf("verif: targeter failure")
		}
		t.Method, t.URL = "GET", "http://verif.invalid/"
		return nil
	})
	client := newFakeClient(func(seq uint64) {
		n := atomic.AddInt64(&inflight, 1)
		for {
			h := atomic.LoadInt64(&hwm)
			if n <= h || atomic.CompareAndSwapInt64(&hwm, h, n) {
				break
			}
		}
		if seq%7 == 0 {
			runtime.Gosched()
		}
		if seq%13 == 0 {
			time.Sleep(time.Duration(seq%5) * 10 * time.Microsecond)
		}
		atomic.AddInt64(&inflight, -1)
	})
	opts := []func(*vegeta.Attacker){vegeta.Workers(j.Workers), vegeta.MaxWorkers(j.Max)}
	if j.MaxFirst {
		opts[0], opts[1] = opts[1], opts[0]
	}
	opts = append(opts, Bystanders(uint64(j.Seed)>>3)...)
	atk := vegeta.NewAttacker(append(opts, vegeta.Client(client))...)
	limit := uint64(j.Len)
	stopAt := -1
	if r.Intn(2) == 0 {
		stopAt = r.Intn(j.Len + 1)
	}
	nStoppers := 1 + r.Intn(3)
	res := atk.Attack(tr, &stressPacer{limit: limit, onSchedule: j.Seed%2 == 0}, 0, "stress")
	var got []uint64
	var stopReturns []bool
	var smu sync.Mutex
	var swg sync.WaitGroup
	slow := r.Intn(3) == 0
	worstInFlight := int64(0)
	hung := false
	for {
		var rr *vegeta.Result
		var open bool
		select {
		case rr, open = <-res:
		case <-time.After(30 * time.Second):
			// the fake transport answers at once and the consumer is here: half a minute without a result and without
			// the channel being closed means the attack is stuck (nothing in this run ever waits that long)
			hung = true
		}
		if hung || !open {
			break
		}
		// started is read AFTER the receive: every hit counted here had started before its result or a
		// later one was taken, so started − consumed-before-this-receive is a lower bound of the true peak
		if d := atomic.LoadInt64(&started) - int64(len(got)); d > worstInFlight {
			worstInFlight = d
		}
		got = append(got, rr.Seq)
		if slow && len(got)%17 == 0 {
			time.Sleep(50 * time.Microsecond)
		}
		if len(got) == stopAt {
			for k := 0; k < nStoppers; k++ {
				swg.Add(1)
				go func() {
					defer swg.Done()
					b := atk.Stop()
					smu.Lock()
					stopReturns = append(stopReturns, b)
					smu.Unlock()
				}()
			}
		}
	}
	if hung {
		atk.Stop()
		out.Findings = append(out.Findings, Finding{Kind: "attack_does_not_end",
			What:     "stress: no result arrived for 30 s and the results channel was not closed, although the pacer says stop after a fixed number of hits and every request is answered at once",
			Expected: fmt.Sprintf("channel closed after at most %d results", limit), Observed: fmt.Sprintf("%d results, channel still open", len(got)),
			Key: map[string]interface{}{"workers": j.Workers, "max": j.Max}})
		return out
	}
	swg.Wait()
	out.HWM = int(hwm)
	out.Stats["results"] = len(got)
	sort.Slice(got, func(a, b int) bool { return got[a] < got[b] })
	n := int(atomic.LoadInt64(&started))
	ok := len(got) == n
	for i, s := range got {
		if s != uint64(i) {
			ok = false
		}
	}
	if stopAt < 0 && failAfter < 0 && uint64(len(got)) != limit {
		out.Findings = append(out.Findings, Finding{Kind: "attack_ended_early_or_late",
			What:     "stress: no Stop call and no targeter failure, yet the number of results differs from the number of hits the pacer released before saying stop",
			Expected: fmt.Sprint(limit), Observed: fmt.Sprint(len(got))})
	}
	if failAfter >= 0 && int64(len(got)) > failAfter+int64(j.Max)+64 {
		// the failing hit raises the stop signal; after it the loop can only win the race against the signal
		// while a worker is free (2^-64 for 64 wins in a row) and at most max-workers hits are in flight
		out.Findings = append(out.Findings, Finding{Kind: "attack_does_not_end",
			What:     "stress: the attack keeps releasing hits after the targeter has failed",
			Expected: fmt.Sprintf("<= %d results (targeter fails from call %d on)", failAfter+int64(j.Max)+64, failAfter+1), Observed: fmt.Sprint(len(got)),
			Key: map[string]interface{}{"targeter_error_is_ErrNoTargets": failNoTargets}})
	}
	if !ok {
		out.Findings = append(out.Findings, Finding{Kind: "results_not_exactly_started_hits",
			What: "stress: delivered sequence numbers are not exactly 0..n-1 for the n started hits", Expected: fmt.Sprintf("0..%d", n-1), Observed: fmt.Sprintf("%d results", len(got))})
	}
	if failAfter < 0 && uint64(worstInFlight) > j.Max+1 {
		// +1: the hit whose result is being received right now may already have been replaced by a new one
		out.Findings = append(out.Findings, Finding{Kind: "inflight_exceeds_max", What: "stress: hits started and not yet consumed above max-workers",
			Expected: "<= " + fmt.Sprint(j.Max+1), Observed: fmt.Sprint(worstInFlight)})
	}
	if uint64(hwm) > j.Max {
		out.Findings = append(out.Findings, Finding{Kind: "inflight_exceeds_max", What: "stress: concurrent transport entries above max-workers", Expected: "<= " + fmt.Sprint(j.Max), Observed: fmt.Sprint(hwm)})
	}
	trues := 0
	for _, b := range stopReturns {
		if b {
			trues++
		}
	}
	// the attack's own deferred Stop also counts as a call; once it ran, every later call must say false
	if trues > 1 {
		out.Findings = append(out.Findings, Finding{Kind: "stop_more_than_one_true", What: "stress: more than one concurrent Stop call returned true", Observed: fmt.Sprint(stopReturns)})
	}
	alive := 0
	if !noAttackGoroutines(20 * time.Second) {
		alive, _ = attackGoroutines()
	}
	if alive > 0 {
		out.Findings = append(out.Findings, Finding{Kind: "goroutine_left_behind", What: "stress: attack goroutines alive after the channel was closed", Observed: fmt.Sprint(alive)})
	} else if atk.Stop() {
		// the attack's own deferred Stop runs after close(results); once its goroutine is gone it has run
		out.Findings = append(out.Findings, Finding{Kind: "model_only:stop_true_after_end", What: "Stop returned true after every goroutine of the attack had gone (in the unchanged code its own deferred Stop is the initiating call)"})
	}
	return out
}

// runStopRace: many trials of k goroutines calling Stop on a fresh attacker at once.
func runStopRace(j Job) Outcome {
	out := Outcome{Job: j, Stats: map[string]int{}}
	k := int(j.Workers)
	bad := 0
	var witness []bool
	for t := 0; t < j.Len; t++ {
		atk := vegeta.NewAttacker()
		rets := make([]bool, k)
		var wg sync.WaitGroup
		start := make(chan struct{})
		for i := 0; i < k; i++ {
			wg.Add(1)
			go func(i int) {
				defer wg.Done()
				<-start
				rets[i] = atk.Stop()
			}(i)
		}
		close(start)
		wg.Wait()
		trues := 0
		for _, b := range rets {
			if b {
				trues++
			}
		}
		if trues != 1 {
			bad++
			if witness == nil {
				witness = rets
			}
		}
	}
	out.Stats["trials"] = j.Len
	out.Stats["bad"] = bad
	if bad > 0 {
		out.Findings = append(out.Findings, Finding{Kind: "stop_concurrent_not_exactly_one_true",
			What:     fmt.Sprintf("%d concurrent Stop calls on a fresh attacker: not exactly one returned true in %d of %d trials", k, bad, j.Len),
			Expected: "exactly one true", Observed: fmt.Sprint(witness), Key: map[string]interface{}{"callers": k}})
	}
	return out
}

var _ = strings.Join

// ---------------------------------------------------------------------------------

// RunCommon is the body shared by the C02 and C03 harness binaries.
func RunCommon(prop string, c *run.Ctx, s *kit.Summary, children func([]Job, int) []Outcome) {
	r := kit.NewRng(c.Seed)
	s.Rule = "controlled runs: random walks over the commands {release pacer, pacer stop, release transport of hit s, receive, Stop, targeter fail on/off} against the real Attack for every (workers,max) in {0..3}x{1..3}, each followed by a systematic drain; quiescence from goroutine dumps; each recorded trace is replayed through the Lean trace acceptor. Non-trivial = distinct trace with at least 4 commands and at least one hit. Stress runs: real scheduler, up to 64 workers, racing Stop calls. Stop race: k goroutines call Stop on a fresh attacker."
	var jobs []Job
	if c.Replay != "" {
		var rec struct {
			Input Job `json:"input"`
		}
		b, err := os.ReadFile(c.Replay)
		if err != nil || json.Unmarshal(b, &rec) != nil {
			fmt.Fprintln(os.Stderr, "cannot read replay file")
			os.Exit(2)
		}
		jobs = []Job{rec.Input}
	} else {
		nctl := c.N(900, 20000)
		for i := 0; i < nctl; i++ {
			w := uint64(r.Intn(4))
			m := uint64(1 + r.Intn(3))
			jobs = append(jobs, Job{Kind: "ctl", Workers: w, Max: m, Seed: r.Int63(), Len: 4 + r.Intn(14), MaxFirst: r.Intn(2) == 0})
		}
		// exhaustive short command sequences for the smallest configurations
		if c.Tier == "thorough" {
			alpha := []string{"P", "X", "T0", "T1", "R", "S", "F"}
			var rec func(pre []string, d int)
			rec = func(pre []string, d int) {
				if d == 0 {
					for _, cfg := range [][2]uint64{{0, 1}, {1, 1}, {1, 2}, {2, 2}, {3, 2}} {
						jobs = append(jobs, Job{Kind: "ctl", Workers: cfg[0], Max: cfg[1], Script: append([]string{}, pre...), MaxFirst: len(jobs)%2 == 0})
					}
					return
				}
				for _, a := range alpha {
					rec(append(pre, a), d-1)
				}
			}
			rec(nil, 4)
		}
		nstress := c.N(150, 4000)
		for i := 0; i < nstress; i++ {
			m := uint64(1 + r.Intn(64))
			jobs = append(jobs, Job{Kind: "stress", Workers: uint64(r.Intn(70)), Max: m, Seed: r.Int63(), Len: 50 + r.Intn(c.N(400, 3000)), MaxFirst: r.Intn(2) == 0})
		}
		for k := 2; k <= 8; k *= 2 {
			jobs = append(jobs, Job{Kind: "stoprace", Workers: uint64(k), Len: c.N(20000, 400000)})
		}
	}
	outs := children(jobs, 12)
	st := &kit.Stream{Name: "c02.accept"}
	for i, o := range outs {
		key := fmt.Sprint(o.Job.Kind, o.Job.Workers, o.Job.Max)
		if o.Crashed {
			if prop == "C03" { // a crash is C02's business (closed only after every hit delivered); here: the run cannot be judged
				jb, _ := json.Marshal(o.Job)
				s.Diverge("sibling-property:attack_crashed", string(jb), o.CrashMsg, "the attack does not crash (C02)")
				continue
			}
			s.Violate(kit.Violation{Kind: "attack_crashed", What: "the real attack crashed the process (e.g. send on closed channel / close of closed channel)",
				Input: o.Job, Observed: o.CrashMsg})
			continue
		}
		if o.Unquiet {
			s.Skipped["quiescence_not_established"]++
			continue
		}
		for _, f := range o.Findings {
			// the two checks share these runs; each reports as a violation only what ITS property says. A finding
			// of the sibling property still means the run cannot be explained by the model: a broken tie.
			c03kind := f.Kind == "inflight_exceeds_max" || f.Kind == "free_capacity_not_used"
			if strings.HasPrefix(f.Kind, "model_only:") {
				jb, _ := json.Marshal(o.Job)
				s.Diverge(f.Kind, string(jb), f.What, "as the unchanged code and the model do (not demanded by the property text)")
				continue
			}
			if (prop == "C03") != c03kind {
				jb, _ := json.Marshal(o.Job)
				s.Diverge("sibling-property:"+f.Kind, string(jb), f.What+" — observed "+f.Observed, "holds (finding of the sibling property "+map[bool]string{true: "C03", false: "C02"}[c03kind]+")")
				continue
			}
			s.Violate(kit.Violation{Kind: f.Kind, What: f.What, Input: o.Job, Expected: f.Expected, Observed: f.Observed, Key: f.Key})
		}
		s.Count("job:" + o.Job.Kind)
		s.Count(fmt.Sprintf("option_order:max_first=%v", o.Job.MaxFirst))
		s.Count(fmt.Sprintf("cfg:w%d/m%d", min64(o.Job.Workers, 4), min64(o.Job.Max, 4)))
		for k, v := range o.Stats {
			s.CountN(k, v)
		}
		if o.Job.Kind != "ctl" {
			s.Case(key+fmt.Sprint(o.Job.Seed), true)
			continue
		}
		var sb strings.Builder
		fmt.Fprintf(&sb, "c02.accept %d %d %s %d", o.Job.Workers, o.Job.Max, o.Obs0.Tokens(), len(o.Steps))
		cmdline := make([]string, 0, len(o.Steps))
		for _, stp := range o.Steps {
			sb.WriteString(" " + stp.Cmd + " " + stp.CmdObs + " " + stp.Obs.Tokens())
			cmdline = append(cmdline, stp.Cmd+":"+stp.CmdObs)
		}
		last := Obs{}
		if len(o.Steps) > 0 {
			last = o.Steps[len(o.Steps)-1].Obs
		}
		s.Case(key+strings.Join(cmdline, ","), len(o.Steps) >= 4 && len(last.Delivered) > 0)
		st.Add(sb.String(), "ok")
		if i < 3 {
			s.Sample(map[string]interface{}{"workers": o.Job.Workers, "max": o.Job.Max, "trace": cmdline, "final": last})
		}
	}
	s.Extra["traces_validated_against_impl"] = len(st.Ops)
	st.Diff(c.Driver, s)
	if prop == "C02" {
		pumpStream(c, s, r)
		if c.Replay == "" {
			RaceRun("./cmd/c02", c, s, r)
			DualStackRuns(c, s, r)
			LazyTargeterRuns(c, s, r)
			SlowBodyRuns(c, s, r)
			FlakyKeepAliveRuns(c, s, r)
		}
	}
}

func min64(a, b uint64) uint64 {
	if a < b {
		return a
	}
	return b
}
