package attackctl

import (
	"fmt"
	"net/http"
	"net/http/httptest"
	"sort"
	"strings"
	"sync"
	"time"

	vegeta "github.com/tsenart/vegeta/v12/lib"
	"vharness/kit"
	"vharness/run"
)

// SlowBodyRuns: real attacks (real transport) against a loopback server whose response bodies arrive in two
// parts with a pause between them, with and without a -max-body limit smaller than the first part, with a
// pacer that stops after a few hits. Whatever the attack does with the part of a body it does not keep, once
// the results channel is closed no goroutine executing code of the lib package may be left (the property:
// "no goroutine of the attack is left behind"), every started hit has delivered exactly one result and the
// sequence numbers are 0..n-1.
func SlowBodyRuns(c *run.Ctx, s *kit.Summary, r *kit.Rng) {
	n := c.N(4, 40)
	for i := 0; i < n; i++ {
		pause := time.Duration(300+r.Pick(300)) * time.Millisecond
		var mu sync.Mutex
		served := 0
		srv := httptest.NewServer(http.HandlerFunc(func(rw http.ResponseWriter, rq *http.Request) {
			rw.Header().Set("Content-Length", "128")
			rw.Write([]byte(strings.Repeat("a", 64)))
			if f, ok := rw.(http.Flusher); ok {
				f.Flush()
			}
			time.Sleep(pause)
			rw.Write([]byte(strings.Repeat("b", 64)))
			mu.Lock()
			served++
			mu.Unlock()
		}))
		hits := uint64(2 + r.Pick(4))
		maxBody := []int64{16, 0, 64, 100, -1, 128, 1000}[i%7]
		keep := i%2 == 0
		atk := vegeta.NewAttacker(vegeta.Workers(hits), vegeta.MaxWorkers(hits), vegeta.MaxBody(maxBody), vegeta.KeepAlive(keep), vegeta.Timeout(20*time.Second))
		tr := vegeta.NewStaticTargeter(vegeta.Target{Method: "GET", URL: srv.URL + "/"})
		res := atk.Attack(tr, &stressPacer{limit: hits}, 0, "slowbody")
		var seqs []uint64
		closed := false
		deadline := time.After(30 * time.Second)
	recv:
		for {
			select {
			case x, ok := <-res:
				if !ok {
					closed = true
					break recv
				}
				seqs = append(seqs, x.Seq)
			case <-deadline:
				break recv
			}
		}
		in := map[string]interface{}{"scenario": "response body of 128 bytes sent in two halves with a pause between them", "pause": pause.String(), "max_body": maxBody,
			"keepalive": keep, "hits": hits}
		s.Case(fmt.Sprint("slowbody:", i), true)
		s.Count(fmt.Sprintf("slowbody:max_body=%d", maxBody))
		if !closed {
			atk.Stop()
			s.Violate(kit.Violation{Kind: "attack_does_not_end", What: "slow bodies: the results channel was not closed within 30 s after the pacer said stop", Input: in})
			srv.Close()
			continue
		}
		// the teardown of the attack's own goroutines takes a moment; what is judged is what is still there after it
		var left []string
		for k := 0; k < 25; k++ {
			if left = libGoroutines(); len(left) == 0 {
				break
			}
			time.Sleep(10 * time.Millisecond)
		}
		if len(left) > 0 {
			g := left[0]
			if len(g) > 1200 {
				g = g[:1200]
			}
			s.Violate(kit.Violation{Kind: "goroutine_left_behind", What: "slow bodies: goroutines executing attack code are alive after the results channel was closed", Input: in,
				Expected: "none", Observed: fmt.Sprintf("%d, e.g. %s", len(left), g)})
		}
		sort.Slice(seqs, func(a, b int) bool { return seqs[a] < seqs[b] })
		okSeq := uint64(len(seqs)) == hits
		for j, q := range seqs {
			if q != uint64(j) {
				okSeq = false
			}
		}
		if !okSeq {
			s.Violate(kit.Violation{Kind: "results_not_exactly_started_hits", What: "slow bodies: delivered sequence numbers are not exactly 0..n-1 for the hits the pacer released", Input: in,
				Expected: fmt.Sprintf("0..%d", hits-1), Observed: fmt.Sprint(seqs)})
		}
		srv.Close()
	}
}
