module vharness

go 1.22

require (
	github.com/influxdata/tdigest v0.0.1
	github.com/mailru/easyjson v0.7.7
	github.com/miekg/dns v1.1.61
	github.com/prometheus/client_golang v1.19.1
	github.com/prometheus/client_model v0.6.1
	github.com/prometheus/common v0.55.0
	github.com/tsenart/vegeta/v12 v12.0.0
)

require (
	github.com/beorn7/perks v1.0.1 // indirect
	github.com/cespare/xxhash/v2 v2.3.0 // indirect
	github.com/josharian/intern v1.0.0 // indirect
	github.com/munnerz/goautoneg v0.0.0-20191010083416-a7dc8b61c822 // indirect
	github.com/prometheus/procfs v0.15.1 // indirect
	github.com/rs/dnscache v0.0.0-20230804202142-fc85eb664529 // indirect
	github.com/tsenart/go-tsz v0.0.0-20180814235614-0bd30b3df1c3 // indirect
	golang.org/x/net v0.27.0 // indirect
	golang.org/x/sync v0.7.0 // indirect
	golang.org/x/sys v0.22.0 // indirect
	golang.org/x/text v0.16.0 // indirect
	google.golang.org/protobuf v1.34.2 // indirect
)

replace github.com/tsenart/vegeta/v12 => /repo
