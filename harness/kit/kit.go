// Package kit: shared plumbing of the correspondence harness — PRNG, line protocol,
// driver pipe, diffing, and the JSON summary handed to tools/check.py.
package kit

import (
	"bufio"
	"bytes"
	"encoding/hex"
	"encoding/json"
	"fmt"
	"math/rand"
	"os"
	"os/exec"
	"sort"
	"strconv"
	"strings"
)

// Hex encodes a byte string for the line protocol ("-" for empty).
func Hex(b []byte) string {
	if len(b) == 0 {
		return "-"
	}
	return hex.EncodeToString(b)
}

func HexS(s string) string { return Hex([]byte(s)) }

func UnHex(s string) []byte {
	if s == "-" {
		return nil
	}
	b, err := hex.DecodeString(s)
	if err != nil {
		panic(err)
	}
	return b
}

func Ints(xs []int64) string {
	var sb strings.Builder
	sb.WriteString(strconv.Itoa(len(xs)))
	for _, x := range xs {
		sb.WriteByte(' ')
		sb.WriteString(strconv.FormatInt(x, 10))
	}
	return sb.String()
}

func Uints(xs []uint64) string {
	var sb strings.Builder
	sb.WriteString(strconv.Itoa(len(xs)))
	for _, x := range xs {
		sb.WriteByte(' ')
		sb.WriteString(strconv.FormatUint(x, 10))
	}
	return sb.String()
}

func B(b bool) string {
	if b {
		return "1"
	}
	return "0"
}

// Divergence: model and implementation disagree on one operation.
type Divergence struct {
	Stream string `json:"stream"`
	Op     string `json:"op"`
	Impl   string `json:"impl"`
	Model  string `json:"model"`
}

// Violation: the implementation breaks the property's own predicate on a concrete input.
type Violation struct {
	Kind     string                 `json:"kind"`  // short class, used to match known findings
	What     string                 `json:"what"`  // human text
	Input    interface{}            `json:"input"` // concrete input / history (replayable)
	Expected string                 `json:"expected,omitempty"`
	Observed string                 `json:"observed,omitempty"`
	Key      map[string]interface{} `json:"key,omitempty"` // fields the known-findings predicates look at
}

// Summary is what one harness run reports.
type Summary struct {
	Property    string                 `json:"property"`
	Seed        int64                  `json:"seed"`
	Tier        string                 `json:"tier"`
	Evaluations int                    `json:"evaluations"`
	Nontrivial  int                    `json:"distinct_nontrivial"`
	Rule        string                 `json:"rule"`
	Streams     map[string]int         `json:"streams"`
	Dist        map[string]int         `json:"distribution"`
	Samples     []interface{}          `json:"samples"`
	Divergences []Divergence           `json:"divergences"`
	NDiverge    int                    `json:"n_divergences"`
	Violations  []Violation            `json:"violations"`
	NViol       int                    `json:"n_violations"`
	ViolKinds   map[string]int         `json:"violation_kinds"`
	Skipped     map[string]int         `json:"skipped,omitempty"`
	Extra       map[string]interface{} `json:"extra,omitempty"`
	distinct    map[string]struct{}
}

func NewSummary(prop string, seed int64, tier string) *Summary {
	return &Summary{Property: prop, Seed: seed, Tier: tier,
		Streams: map[string]int{}, Dist: map[string]int{}, Skipped: map[string]int{},
		Extra: map[string]interface{}{}, distinct: map[string]struct{}{}, ViolKinds: map[string]int{},
		Samples: []interface{}{}, Divergences: []Divergence{}, Violations: []Violation{}}
}

func (s *Summary) Count(k string)         { s.Dist[k]++ }
func (s *Summary) CountN(k string, n int) { s.Dist[k] += n }

// Case records one evaluated case; nontrivial cases are counted once per distinct key.
func (s *Summary) Case(key string, nontrivial bool) {
	s.Evaluations++
	if nontrivial {
		if _, ok := s.distinct[key]; !ok {
			s.distinct[key] = struct{}{}
			s.Nontrivial = len(s.distinct)
		}
	}
}

func (s *Summary) Sample(x interface{}) {
	if len(s.Samples) < 6 {
		s.Samples = append(s.Samples, x)
	}
}

func (s *Summary) Diverge(stream, op, impl, model string) {
	s.NDiverge++
	if len(s.Divergences) < 20 {
		s.Divergences = append(s.Divergences, Divergence{stream, clip(op), clip(impl), clip(model)})
	}
}

func (s *Summary) Violate(v Violation) {
	s.NViol++
	s.ViolKinds[v.Kind]++
	if s.ViolKinds[v.Kind] <= 300 {
		s.Violations = append(s.Violations, v)
	}
}

func clip(s string) string {
	if len(s) > 4000 {
		return s[:4000] + "…"
	}
	return s
}

func (s *Summary) Write(path string) {
	b, err := json.MarshalIndent(s, "", " ")
	if err != nil {
		panic(err)
	}
	if path == "" || path == "-" {
		os.Stdout.Write(b)
		return
	}
	if err := os.WriteFile(path, b, 0o644); err != nil {
		panic(err)
	}
}

// RunDriver pipes the op lines through the Lean driver and returns one output line per op.
func RunDriver(driver string, ops []string) ([]string, error) {
	if len(ops) == 0 {
		return nil, nil
	}
	cmd := exec.Command(driver)
	var in bytes.Buffer
	for _, o := range ops {
		in.WriteString(o)
		in.WriteByte('\n')
	}
	cmd.Stdin = &in
	var out bytes.Buffer
	cmd.Stdout = &out
	cmd.Stderr = os.Stderr
	if err := cmd.Run(); err != nil {
		return nil, fmt.Errorf("driver: %w", err)
	}
	sc := bufio.NewScanner(&out)
	sc.Buffer(make([]byte, 1<<20), 1<<30)
	var lines []string
	for sc.Scan() {
		lines = append(lines, sc.Text())
	}
	if len(lines) != len(ops) {
		return lines, fmt.Errorf("driver returned %d lines for %d ops", len(lines), len(ops))
	}
	return lines, nil
}

// Stream is a batch of (op, implementation output) pairs to be diffed against the model.
type Stream struct {
	Name string
	Ops  []string
	Impl []string
}

func (st *Stream) Add(op, impl string) {
	st.Ops = append(st.Ops, op)
	st.Impl = append(st.Impl, impl)
}

// Diff runs the driver on the stream and records divergences.
func (st *Stream) Diff(driver string, s *Summary) {
	s.Streams[st.Name] += len(st.Ops)
	outs, err := RunDriver(driver, st.Ops)
	if err != nil {
		s.Diverge(st.Name, "(driver failure)", "", err.Error())
		return
	}
	for i := range st.Ops {
		if outs[i] != st.Impl[i] {
			s.Diverge(st.Name, st.Ops[i], st.Impl[i], outs[i])
		}
	}
}

// Rng wraps math/rand with helpers; every random choice of a run derives from one seed.
type Rng struct{ *rand.Rand }

func NewRng(seed int64) *Rng { return &Rng{rand.New(rand.NewSource(seed))} }

func (r *Rng) Pick(n int) int        { return r.Intn(n) }
func (r *Rng) Chance(p float64) bool { return r.Float64() < p }
func (r *Rng) Range(lo, hi int64) int64 { // inclusive
	if hi <= lo {
		return lo
	}
	span := uint64(hi - lo)
	if span == ^uint64(0) {
		return int64(r.Uint64())
	}
	return lo + int64(r.Uint64()%(span+1))
}
func (r *Rng) PickStr(xs []string) string { return xs[r.Intn(len(xs))] }
func (r *Rng) PickI64(xs []int64) int64   { return xs[r.Intn(len(xs))] }

// Int64Edge returns a boundary-biased int64.
func (r *Rng) Int64Edge() int64 {
	switch r.Intn(8) {
	case 0:
		return r.PickI64([]int64{0, 1, -1, 2, 9223372036854775807, -9223372036854775808, 9223372036854775806, -9223372036854775807})
	case 1:
		return r.Range(-1000, 1000)
	case 2:
		return int64(r.Uint64())
	case 3:
		return int64(1) << uint(r.Intn(63))
	case 4:
		return (int64(1) << uint(r.Intn(63))) - 1
	default:
		return r.Range(0, 1<<uint(r.Intn(62)+1))
	}
}

func SortedKeys(m map[string]int) []string {
	ks := make([]string, 0, len(m))
	for k := range m {
		ks = append(ks, k)
	}
	sort.Strings(ks)
	return ks
}

// Recover runs f and reports whether it panicked (with the panic text).
func Recover(f func()) (panicked bool, msg string) {
	defer func() {
		if r := recover(); r != nil {
			panicked = true
			msg = fmt.Sprint(r)
		}
	}()
	f()
	return
}

// RunVegeta pipes op lines through the vegeta binary built with -tags verif
// (package-main line-protocol driver) and returns one output line per op.
func RunVegeta(bin string, ops []string) ([]string, error) {
	if len(ops) == 0 {
		return nil, nil
	}
	cmd := exec.Command(bin)
	cmd.Env = append(os.Environ(), "VEGETA_VERIF_DRIVER=1")
	var in bytes.Buffer
	for _, o := range ops {
		in.WriteString(o)
		in.WriteByte('\n')
	}
	cmd.Stdin = &in
	var out bytes.Buffer
	cmd.Stdout = &out
	cmd.Stderr = os.Stderr
	if err := cmd.Run(); err != nil {
		return nil, fmt.Errorf("vegeta-verif: %w", err)
	}
	sc := bufio.NewScanner(&out)
	sc.Buffer(make([]byte, 1<<20), 1<<30)
	var lines []string
	for sc.Scan() {
		lines = append(lines, sc.Text())
	}
	if len(lines) != len(ops) {
		return lines, fmt.Errorf("vegeta-verif returned %d lines for %d ops", len(lines), len(ops))
	}
	return lines, nil
}
