package gen

// Generators of textual command-line flag values (C19, C16): each returns the text and
// what the manual says it means, so that an oracle can be evaluated without parsing the
// text again.

import (
	"fmt"
	"math"
	"math/big"
	"strconv"
	"strings"

	"vharness/kit"
)

// RateUnits are the bare units the manual's `-rate=N/unit` examples use (Go duration units).
var RateUnits = []string{"ns", "us", "µs", "ms", "s", "m", "h"}

// RateCase: a -rate value with its documented meaning.
type RateCase struct {
	Text string
	Kind string   // n | nd | nu | zero | word | big | neg | malformed
	N    *big.Int // the integer in front (nil for words/malformed)
	D    string   // the duration text that D stands for ("1s" when absent, "1"+unit for a bare unit)
}

// WideInt: an integer from a wide, boundary-biased range as decimal text with optional
// sign / leading zeros.
func WideInt(r *kit.Rng) (*big.Int, string) {
	var n *big.Int
	switch r.Pick(10) {
	case 0:
		n = big.NewInt(r.Range(1, 9))
	case 1, 2, 3:
		n = big.NewInt(r.Range(1, 100000))
	case 4:
		n = big.NewInt(r.Int64Edge())
	case 5:
		n = new(big.Int).SetUint64(r.Uint64())
	case 6: // around the int64 boundary
		n = new(big.Int).Add(big.NewInt(math.MaxInt64), big.NewInt(r.Range(-3, 3)))
	case 7:
		n = new(big.Int).Lsh(big.NewInt(1), uint(r.Pick(70)))
	case 8:
		n = new(big.Int).Neg(new(big.Int).Add(big.NewInt(math.MaxInt64), big.NewInt(r.Range(-3, 3))))
	default:
		n = big.NewInt(r.Range(1, 1<<40))
	}
	t := n.String()
	if n.Sign() >= 0 {
		if r.Chance(0.05) {
			t = "+" + t
		}
	}
	if r.Chance(0.05) {
		// leading zeros after the sign
		if strings.HasPrefix(t, "-") || strings.HasPrefix(t, "+") {
			t = t[:1] + strings.Repeat("0", 1+r.Pick(3)) + t[1:]
		} else {
			t = strings.Repeat("0", 1+r.Pick(3)) + t
		}
	}
	return n, t
}

// Multiple: a duration text that is a multiple of one unit or a compound duration.
func Multiple(r *kit.Rng) string {
	u := r.PickStr(DurUnits)
	switch r.Pick(6) {
	case 0:
		return "1" + u
	case 1:
		return strconv.FormatInt(r.Range(2, 1000), 10) + u
	case 2:
		return strconv.FormatInt(r.Range(0, 100), 10) + "." + strconv.FormatInt(r.Range(0, 999), 10) + u
	case 3:
		return fmt.Sprintf("%dh%dm%ds", r.Range(0, 30), r.Range(0, 59), r.Range(0, 59))
	case 4:
		return fmt.Sprintf("%dm%d.%03ds", r.Range(0, 59), r.Range(0, 59), r.Range(0, 999))
	default:
		return strconv.FormatInt(r.Range(1, 1<<30), 10) + u
	}
}

// RateMalformed: values that are not "N" or "N/D" under any reading of the manual (no integer in
// front, no duration or unit behind the slash, something else than a slash between them).
var RateMalformed = []string{
	"", "/", "abc", "fast", "5/", "/s", "/1s", "5//s", "5/1s/", "5/1s/2s", "5/2/3s", "five/s",
	"5/x", "5/1x", "5/ss", "5:1s", "5\\1s", "5/1.s.", "5/.s", "--5/s", "+-5", "5/μ",
}

// RateOdd: values the unchanged code refuses but about which the manual says nothing definite (a
// more lenient reading could accept them: other spellings of the word, blanks, other number
// syntaxes, numbers beyond int64, durations beyond the range). No oracle; model comparison only.
var RateOdd = []string{
	"Infinity", "INFINITY", "inf", "infinite", "infinity ", " infinity", "1.5", "1.5/s", "1e3", "0x10", "5/1", "5/sec", "5/1 s", "5 /s", " 5/s", "5/s ",
	"5/1sec", "5_000/s", "٥/s", "5/1d", "9223372036854775808", "-9223372036854775809", "99999999999999999999/s", "1/9223372036854775808ns", "1/10000000000h",
}

func Rate(r *kit.Rng) RateCase {
	switch r.Pick(16) {
	case 0:
		return RateCase{Text: "0", Kind: "zero", N: big.NewInt(0), D: "1s"}
	case 1:
		return RateCase{Text: "infinity", Kind: "word"}
	case 2:
		t := r.PickStr([]string{"0/1s", "0/s", "00", "+0", "-0", "0/5m", "0/garbage", "0/"})
		return RateCase{Text: t, Kind: "zero", N: big.NewInt(0)}
	case 3:
		if r.Chance(0.5) {
			return RateCase{Text: r.PickStr(RateOdd), Kind: "odd"}
		}
		return RateCase{Text: r.PickStr(RateMalformed), Kind: "malformed"}
	case 4, 5, 6:
		n, t := WideInt(r)
		return classify(RateCase{Text: t, Kind: "n", N: n, D: "1s"})
	case 7, 8, 9, 10:
		n, t := WideInt(r)
		u := r.PickStr(RateUnits)
		return classify(RateCase{Text: t + "/" + u, Kind: "nu", N: n, D: "1" + u})
	default:
		n, t := WideInt(r)
		d := Multiple(r)
		return classify(RateCase{Text: t + "/" + d, Kind: "nd", N: n, D: d})
	}
}

func classify(c RateCase) RateCase {
	switch {
	case !c.N.IsInt64():
		c.Kind = "big"
	case c.N.Sign() < 0:
		c.Kind = "neg"
	case c.N.Sign() == 0:
		c.Kind = "zero"
	}
	return c
}

// HeaderCase: one -header value; Key/Val are the trimmed key and value the manual's
// "Key: value" stands for, OK whether it is well formed.
type HeaderCase struct {
	Text     string
	Key, Val string
	OK       bool
}

var headerKeys = []string{"Content-Type", "content-type", "CONTENT-TYPE", "X-Request-Id", "x-request-id", "X-request-ID",
	"Accept", "accept", "Host", "Authorization", "X-Account-ID", "x-ACCOUNT-id", "Cookie", "X_Odd.Key", "é-clé", "K"}
var headerVals = []string{"text/plain", "application/json; charset=utf-8", "8080", "Bearer abc:def", "a:b:c", "x", "a b  c", "\"quoted\"", "ünï", "v=1;w=2", "http://h:80/p?q=1"}
var HeaderSpaces = []string{"", " ", "  ", "\t", " \t ", " ", " "}

// SpecialHeaderNames: names that net/http or vegeta treat specially somewhere (written by the
// transport itself, excluded from the generic header write, set by the attacker), plus names with
// digits, underscores and dots. A -header flag must store every one of them exactly as typed.
var SpecialHeaderNames = []string{"host", "user-agent", "content-length", "transfer-encoding", "trailer", "connection", "accept-encoding",
	"content-type", "authorization", "cookie", "x-vegeta-seq", "x-vegeta-attack", "expect", "te", "upgrade", "date", "accept", "referer",
	"x-b3-traceid", "x_under_score", "x.dotted.name", "x-1", "x-amz-meta-1a", "etag", "www-authenticate", "content-md5"}

// CaseVariants: the spellings of a header name that differ only by case.
func CaseVariants(name string) []string {
	lower := strings.ToLower(name)
	upper := strings.ToUpper(name)
	canon := []byte(lower)
	up := true
	for i, c := range canon {
		if up && c >= 'a' && c <= 'z' {
			canon[i] = c - 32
		}
		up = c == '-'
	}
	alt := []byte(lower)
	for i, c := range alt {
		if i%2 == 1 && c >= 'a' && c <= 'z' {
			alt[i] = c - 32
		}
	}
	firstLower := []byte(string(canon))
	if len(firstLower) > 0 && firstLower[0] >= 'A' && firstLower[0] <= 'Z' {
		firstLower[0] += 32
	}
	out := []string{}
	seen := map[string]bool{}
	for _, v := range []string{lower, upper, string(canon), string(alt), string(firstLower)} {
		if !seen[v] {
			seen[v] = true
			out = append(out, v)
		}
	}
	return out
}

// HeaderMalformed: values that are not "Key: value" with a non-empty key and value.
var HeaderMalformed = []string{"", ":", " : ", "novalue", "Key", "Key:", "Key:   ", ":value", "  :value", "Key :\t", "\u00a0:\u00a0", "\u00a0:\u2003", "Key:\u00a0"}

func Header(r *kit.Rng) HeaderCase {
	if r.Chance(0.15) {
		return HeaderCase{Text: r.PickStr(HeaderMalformed)}
	}
	k, v := r.PickStr(headerKeys), r.PickStr(headerVals)
	if r.Chance(0.2) {
		k = "K" + strconv.FormatInt(r.Range(0, 20), 10)
	} else if r.Chance(0.45) {
		k = r.PickStr(CaseVariants(r.PickStr(SpecialHeaderNames)))
	}
	if r.Chance(0.2) {
		v = strconv.FormatInt(r.Range(0, 1000), 10)
	}
	t := r.PickStr(HeaderSpaces) + k + r.PickStr(HeaderSpaces) + ":" + r.PickStr(HeaderSpaces) + v + r.PickStr(HeaderSpaces)
	return HeaderCase{Text: t, Key: k, Val: v, OK: true}
}

// SizeCase: a -max-body value in one of the documented notations.
type SizeCase struct {
	Text  string
	Kind  string   // minus1 | size | overflow | malformed
	Bytes *big.Int // documented meaning (1024-based)
	// Doc: written like the manual's examples — digits, at most one blank, then nothing or a kilo…peta
	// unit as a letter, letter+B or word (any case). Only these carry an oracle; exa, "b"/"byte", other
	// spacing and leading zeros are compared with the model only.
	Doc bool
}

var sizeUnits = []struct {
	names []string
	shift uint
}{
	{[]string{"", "B", "b", "byte", "BYTE", "Byte"}, 0},
	{[]string{"K", "k", "KB", "kb", "kB", "kilo", "Kilo", "kilobyte", "kilobytes", "KILOBYTES", "KiloByte"}, 10},
	{[]string{"M", "m", "MB", "mb", "mB", "mega", "MEGA", "megabyte", "megabytes", "Megabytes"}, 20},
	{[]string{"G", "g", "GB", "gb", "gB", "giga", "Giga", "gigabyte", "gigabytes", "GIGABYTE"}, 30},
	{[]string{"T", "t", "TB", "tb", "tB", "tera", "TERA", "terabyte", "terabytes", "TeraBytes"}, 40},
	{[]string{"P", "p", "PB", "pb", "pB", "peta", "Peta", "petabyte", "petabytes", "PETABYTES"}, 50},
	{[]string{"E", "e", "EB", "eb", "eB"}, 60},
}

var SizeMalformed = []string{"abc", "MB", " 10MB", "-2", "-10MB", "1.5MB", "10 XB", "10 M B", "10MBs", "ten", "0x10", "1e3", "+5", "10 bytes", "10 exabytes", "1_000", "--1", "-1 ", " -1", "10 Mb", "1Kb", "3 Gb", "2Tb", "1Pb", "1Eb",
	"5 \u212ab", "5\u212a", "1 g\u0130ga", "2 k\u0130lobyte", "3 \u212a\u0130lo", "7 \u00b5b", "1 m\u00e9ga"}

// SizeDocumented are the manual's own examples with the printed form it documents.
var SizeDocumented = [][2]string{{"10 MB", "10MB"}, {"10240 g", "10TB"}, {"2000", "2000B"}, {"1tB", "1TB"}, {"5 peta", "5PB"}, {"28 kilobytes", "28KB"}, {"1 gigabyte", "1GB"}}

func Size(r *kit.Rng) SizeCase {
	switch r.Pick(12) {
	case 0:
		return SizeCase{Text: "-1", Kind: "minus1", Bytes: big.NewInt(-1), Doc: true}
	case 1:
		return SizeCase{Text: r.PickStr(SizeMalformed), Kind: "malformed"}
	case 2:
		d := SizeDocumented[r.Pick(len(SizeDocumented))]
		c := sizeOf(d[0])
		return c
	}
	u := sizeUnits[r.Pick(len(sizeUnits))]
	var n *big.Int
	switch r.Pick(6) {
	case 0:
		n = big.NewInt(r.Range(0, 10))
	case 1: // around the largest value that still fits int64 / uint64 for this unit
		lim := new(big.Int).Rsh(new(big.Int).Lsh(big.NewInt(1), uint(63+r.Pick(2))), u.shift)
		n = new(big.Int).Add(lim, big.NewInt(r.Range(-2, 2)))
		if n.Sign() < 0 {
			n = big.NewInt(0)
		}
	case 2:
		n = new(big.Int).SetUint64(r.Uint64() >> uint(r.Pick(64)))
	case 3: // around the digit-loop overflow of uint64
		n = new(big.Int).Add(new(big.Int).SetUint64(math.MaxUint64), big.NewInt(r.Range(-20, 20)))
	default:
		n = big.NewInt(r.Range(0, 100000))
	}
	t := n.String()
	doc := true
	if r.Chance(0.05) {
		t = strings.Repeat("0", 1+r.Pick(2)) + t
		doc = false
	}
	sp, name, tail := r.PickStr([]string{"", "", " ", " ", "  ", "\t"}), r.PickStr(u.names), r.PickStr([]string{"", "", "", " ", "\n"})
	t += sp + name + tail
	doc = doc && len(sp) <= 1 && sp != "\t" && tail == "" && u.shift >= 10 && u.shift <= 50
	if u.shift == 0 && name == "" && sp == "" && tail == "" {
		doc = true // a plain number of bytes ("2000")
	}
	c := SizeCase{Text: t, Kind: "size", Bytes: new(big.Int).Lsh(n, u.shift), Doc: doc}
	if !c.Bytes.IsInt64() {
		c.Kind = "overflow"
	}
	return c
}

// SizeOfDocumented: the number of bytes one of the manual's examples stands for.
func SizeOfDocumented(text string) *big.Int { return sizeOf(text).Bytes }

func sizeOf(text string) SizeCase {
	i := 0
	for i < len(text) && text[i] >= '0' && text[i] <= '9' {
		i++
	}
	n, _ := new(big.Int).SetString(text[:i], 10)
	unit := strings.ToLower(strings.TrimSpace(text[i:]))
	for _, u := range sizeUnits {
		for _, nm := range u.names {
			if strings.ToLower(nm) == unit {
				return SizeCase{Text: text, Kind: "size", Bytes: new(big.Int).Lsh(n, u.shift), Doc: true}
			}
		}
	}
	return SizeCase{Text: text, Kind: "malformed"}
}

// Host names / addresses for -connect-to and -resolvers.
var hostNames = []string{"localhost", "example.com", "google.com", "a.b.c.d.example", "svc-1.internal", "h", "xn--bcher-kva.example", "UPPER.Example", "my_host"}

func IPv4(r *kit.Rng) string {
	if r.Chance(0.2) {
		return r.PickStr([]string{"0.0.0.0", "127.0.0.1", "255.255.255.255", "10.0.0.1", "192.168.1.254", "1.2.3.4", "8.8.8.8"})
	}
	return fmt.Sprintf("%d.%d.%d.%d", r.Pick(256), r.Pick(256), r.Pick(256), r.Pick(256))
}

func IPv6(r *kit.Rng) string {
	if r.Chance(0.4) {
		return r.PickStr([]string{"::", "::1", "fe80::1", "2001:db8::1", "2001:db8:0:0:0:0:2:1", "::ffff:1.2.3.4", "1:2:3:4:5:6:7:8", "1:2:3:4:5:6:1.2.3.4", "1::", "0:0:0:0:0:0:0:0", "ABCD:ef01::", "::1.2.3.4", "1:2:3:4:5:6:7::"})
	}
	n := 8
	groups := make([]string, n)
	for i := range groups {
		groups[i] = strconv.FormatInt(r.Range(0, 0xffff), 16)
	}
	if r.Chance(0.5) { // compress a run
		i := r.Pick(n)
		j := i + 1 + r.Pick(n-i)
		left, right := strings.Join(groups[:i], ":"), strings.Join(groups[j:], ":")
		return left + "::" + right
	}
	return strings.Join(groups, ":")
}

func Port(r *kit.Rng) string {
	switch r.Pick(6) {
	case 0:
		return r.PickStr([]string{"0", "1", "53", "80", "443", "8080", "65535"})
	case 1:
		return "0" + strconv.FormatInt(r.Range(0, 65535), 10)
	default:
		return strconv.FormatInt(r.Range(0, 65535), 10)
	}
}

func HostOrIPv4(r *kit.Rng) string {
	if r.Chance(0.5) {
		return IPv4(r)
	}
	return r.PickStr(hostNames)
}

// ConnectToCase: one -connect-to value and the mapping entry the manual documents.
type ConnectToCase struct {
	Text     string
	Src, Dst string
	OK       bool
}

var ConnectToMalformed = []string{"", ":", "::", "::::", "a:1:b", "a:1:b:2:3", "a:1", "a", "[::1]:80:b:2", "a:1:[::1]:2", "[a:1:b:2", "a]:1:b:2", "a:1:[b:2", "a:1:b]:2",
	"a:1:b:2]", "[a]:1:b:2:", "a:[1:b:2", "google.com:80:localhost"}

func ConnectTo(r *kit.Rng) ConnectToCase {
	if r.Chance(0.15) {
		return ConnectToCase{Text: r.PickStr(ConnectToMalformed)}
	}
	src := HostOrIPv4(r) + ":" + Port(r)
	if r.Chance(0.4) {
		src = r.PickStr([]string{"google.com:80", "example.com:443", "10.0.0.1:8080"})
	}
	dst := HostOrIPv4(r) + ":" + Port(r)
	return ConnectToCase{Text: src + ":" + dst, Src: src, Dst: dst, OK: true}
}

// ResolverCase: one resolver address and its documented normal form.
type ResolverCase struct {
	Text   string
	Normal string
	OK     bool
	Kind   string
	// Doc: written as the manual documents resolver addresses (ip or ip:port with a plain decimal
	// port; IPv6 in brackets). Only these must be accepted.
	Doc bool
}

var ResolverMalformed = []string{"", " ", "1.1.1.1 ", " 1.1.1.1", ":", ":53", "localhost", "localhost:53", "example.com", "1.2.3", "1.2.3.4.5", "256.1.1.1", "1.2.3.4:", "1.2.3.4:65536", "1.2.3.4:-1", "1.2.3.4:dns",
	"1.2.3.4:+53", "1.2.3.4:5 3", "::1", "::1:53", "[::1]", "[::1]:", "[::1]:65536", "[1.2.3.4:53", "1.2.3.4]:53", "[fe80::1%eth0]:53", "01.2.3.4", "1.2.3.4 ", " 1.2.3.4",
	"[::1]]:53", "[[::1]:53", "[:::1]:53", "[1:2:3:4:5:6:7:8:9]:53", "[12345::]:53", "[1::2::3]:53", "[::g]:53", "[1:2:3:4:5:6:7]:53", "[1:2:3:4:5:6:7:8::]:53", "1.2.3.4:99999999999999999999"}

func Resolver(r *kit.Rng) ResolverCase {
	switch r.Pick(8) {
	case 0:
		return ResolverCase{Text: r.PickStr(ResolverMalformed), Kind: "malformed"}
	case 1, 2:
		ip := IPv4(r)
		return ResolverCase{Text: ip, Normal: ip + ":53", OK: true, Kind: "v4", Doc: true}
	case 3, 4:
		pt := Port(r)
		t := IPv4(r) + ":" + pt
		return ResolverCase{Text: t, Normal: t, OK: true, Kind: "v4port", Doc: !(len(pt) > 1 && pt[0] == '0')}
	case 5:
		t := "[" + IPv4(r) + "]:" + Port(r) // brackets around IPv4: SplitHostPort accepts, host is an IP
		return ResolverCase{Text: t, Normal: t, OK: true, Kind: "v4bracket"}
	default:
		pt := Port(r)
		t := "[" + IPv6(r) + "]:" + pt
		return ResolverCase{Text: t, Normal: t, OK: true, Kind: "v6port", Doc: !(len(pt) > 1 && pt[0] == '0')}
	}
}

// TTLCase: a -dns-ttl value.
type TTLCase struct {
	Text string
	Kind string // minus1 | zero | dur | malformed
}

var TTLMalformed = []string{"", "abc", "5", "1", "-2", "- 1", "-1 ", " -1", "1 s", "5sec", "s", "1d", "forever", "disabled", "0x1s", "1e3s", "--1s"}

func TTL(r *kit.Rng) TTLCase {
	switch r.Pick(8) {
	case 0:
		return TTLCase{"-1", "minus1"}
	case 1:
		return TTLCase{r.PickStr([]string{"0", "0s", "0ms", "+0", "-0", "0h0m0s"}), "zero"}
	case 2:
		return TTLCase{r.PickStr(TTLMalformed), "malformed"}
	case 3:
		return TTLCase{DurText(r), "dur"}
	default:
		return TTLCase{Multiple(r), "dur"}
	}
}

/* ---------- numeric shapes ---------- */

// Digits: a run of n decimal digits; leading zeros, all zeros and all nines are frequent.
func Digits(r *kit.Rng, n int) string {
	b := make([]byte, n)
	switch r.Pick(5) {
	case 0:
		for i := range b {
			b[i] = '0'
		}
	case 1:
		for i := range b {
			b[i] = '9'
		}
	default:
		z := 0
		if r.Chance(0.5) {
			z = r.Pick(n + 1) // leading zeros
		}
		for i := range b {
			if i < z {
				b[i] = '0'
			} else {
				b[i] = byte('0' + r.Pick(10))
			}
		}
	}
	return string(b)
}

// NumericShapes: a value of a numeric flag (or any text holding a number) with one of its digit
// runs reshaped: a decimal point followed by 1–70 digits, a run of 1–70 digits in its place,
// leading zeros, one digit repeated many times, an exponent. A text without a digit gets a number
// inserted somewhere.
func NumericShapes(r *kit.Rng, text string) string {
	type span struct{ a, b int }
	var runs []span
	for i := 0; i < len(text); {
		if text[i] < '0' || text[i] > '9' {
			i++
			continue
		}
		j := i
		for j < len(text) && text[j] >= '0' && text[j] <= '9' {
			j++
		}
		runs = append(runs, span{i, j})
		i = j
	}
	long := func() int {
		if r.Chance(0.5) {
			return 1 + r.Pick(70)
		}
		edges := []int{1, 2, 9, 10, 15, 16, 17, 18, 19, 20, 21, 22, 30, 38, 39, 40, 64, 65, 70}
		return edges[r.Pick(len(edges))]
	}
	if len(runs) == 0 {
		p := r.Pick(len(text) + 1)
		return text[:p] + Digits(r, long()) + r.PickStr([]string{"", ".", "." + Digits(r, long())}) + text[p:]
	}
	s := runs[r.Pick(len(runs))]
	pre, run, post := text[:s.a], text[s.a:s.b], text[s.b:]
	switch r.Pick(8) {
	case 0, 1: // a fraction after the run
		return pre + run + "." + Digits(r, long()) + post
	case 2: // a fraction in front of it
		return pre + Digits(r, 1+r.Pick(3)) + "." + r.PickStr([]string{"", Digits(r, long())}) + run + post
	case 3: // a long run in its place
		return pre + Digits(r, long()) + post
	case 4: // leading zeros
		return pre + strings.Repeat("0", long()) + run + post
	case 5: // one digit of the run many times
		p := r.Pick(len(run))
		return pre + run[:p] + strings.Repeat(run[p:p+1], long()) + run[p:] + post
	case 6: // exponent forms
		return pre + run + r.PickStr([]string{"e", "E", "e+", "e-", "E-", ".0e", "." + Digits(r, 1+r.Pick(25)) + "e"}) + Digits(r, 1+r.Pick(4)) + post
	default: // a bare point, several points
		return pre + run + r.PickStr([]string{".", "..", ".." + Digits(r, 2), "." + Digits(r, long()) + "." + Digits(r, 3)}) + post
	}
}
