package gen

import "vharness/kit"

// RandomBytes: 0..max uniformly random bytes, biased towards short inputs.
func RandomBytes(r *kit.Rng, max int) []byte {
	n := r.Pick(max + 1)
	if r.Chance(0.5) {
		n = r.Pick(16)
	}
	b := make([]byte, n)
	for i := range b {
		b[i] = byte(r.Pick(256))
	}
	return b
}

// Splice: a prefix of a followed by a suffix of b.
func Splice(r *kit.Rng, a, b []byte) []byte {
	i, j := r.Pick(len(a)+1), r.Pick(len(b)+1)
	return append(append([]byte{}, a[:i]...), b[j:]...)
}

// MutateDoc applies the structured mutations of the C16 quantifier to a valid document:
// bit flips, deletions, duplications, truncations, insertions (gen.Mutate), and with some
// probability a splice with another valid document of the same format.
func MutateDoc(r *kit.Rng, doc, other []byte) []byte {
	if other != nil && r.Chance(0.2) {
		doc = Splice(r, doc, other)
		if r.Chance(0.5) {
			return doc
		}
	}
	out := []byte(Mutate(r, string(doc)))
	if r.Chance(0.15) {
		out = []byte(Mutate(r, string(out)))
	}
	return out
}
