package gen

// Results inside the intersection of what gob, CSV and JSON can all represent up to
// Result.Equal (used by the C08 and C13 harnesses, where records travel through several
// encodings and cross-encoding equality has to be meaningful):
//   - texts are valid UTF-8 without the pair "\r\n" (the CSV reader folds CR LF inside a quoted field into LF;
//     a lone CR, also at the start or end of a text or after a LF, is carried by all three; JSON replaces
//     invalid UTF-8 by U+FFFD). SpiceText adds what only some of the encodings carry.
//   - headers are nil, empty (kept apart from nil by all three encodings) or a map of canonical token keys with ≥1 value each,
//     values without control bytes (HTAB allowed inside) and without leading/trailing blanks
//   - timestamps 1970…2200 at nanosecond precision, zone offsets in whole minutes
//
// A ResultSpec is the serialisable form (replay files); ToResult builds the vegeta.Result.

import (
	"net/http"
	"net/textproto"
	"strconv"
	"strings"
	"time"
	"unicode/utf8"

	vegeta "github.com/tsenart/vegeta/v12/lib"
	"vharness/kit"
)

type ResultSpec struct {
	Attack   string              `json:"attack"`
	Seq      uint64              `json:"seq"`
	Code     uint16              `json:"code"`
	TsNano   int64               `json:"ts_nano"`
	ZoneMin  int                 `json:"zone_min"`           // offset east of UTC in minutes; 0 = UTC
	Local    bool                `json:"local,omitempty"`    // the time.Time carries time.Local (the zone of the TZ the harness runs under)
	FarYear  int                 `json:"far_year,omitempty"` // ≠ 0: the timestamp is 2 January of that year (outside the int64-nanosecond range; only gob can carry it, JSON refuses years > 9999)
	Latency  int64               `json:"latency"`
	BytesOut uint64              `json:"bytes_out"`
	BytesIn  uint64              `json:"bytes_in"`
	Error    string              `json:"error"`
	Body     []byte              `json:"body"`
	Method   string              `json:"method"`
	URL      string              `json:"url"`
	Headers  map[string][]string `json:"headers"`
}

func (s ResultSpec) ToResult() vegeta.Result {
	loc := time.UTC
	if s.ZoneMin != 0 {
		loc = time.FixedZone("", s.ZoneMin*60)
	}
	r := vegeta.Result{
		Attack: s.Attack, Seq: s.Seq, Code: s.Code, Timestamp: time.Unix(0, s.TsNano).In(loc),
		Latency: time.Duration(s.Latency), BytesOut: s.BytesOut, BytesIn: s.BytesIn, Error: s.Error,
		Body: s.Body, Method: s.Method, URL: s.URL,
	}
	if s.Local {
		r.Timestamp = r.Timestamp.In(time.Local)
	}
	if s.FarYear != 0 {
		r.Timestamp = time.Date(s.FarYear, 1, 2, 3, 4, 5, 6, time.UTC)
	}
	if s.Headers != nil {
		r.Headers = http.Header{}
		for k, v := range s.Headers {
			r.Headers[k] = append([]string{}, v...)
		}
	}
	return r
}

// 2200-12-31T23:59:59.999999999Z
const MaxTsNano = 7289654399999999999

var interRunes = []rune("\r\f\u2028\u2029\u0085abcXYZ019 ,\"'\n\t;:{}[]\\/<>&=-_.%+äßλ→日本  �\U0001F600\x00\x01\x7f")

// InterText: valid UTF-8 without CR LF, boundary-biased (quotes, commas, newlines, lone carriage returns,
// NUL, tab, form feed, U+2028, blanks, escapes).
func InterText(r *kit.Rng, maxLen int) string {
	switch r.Pick(10) {
	case 0:
		return ""
	case 1:
		return r.PickStr([]string{" ", "\"", ",", "\n", "\"\"", " x", "x ", "\\.", "\\", "null", "{}", "\n\n", "a,b", "-", "0", "#", "\t", " x"})
	}
	n := 1 + r.Pick(maxLen)
	var sb strings.Builder
	for i := 0; i < n; i++ {
		sb.WriteRune(interRunes[r.Pick(len(interRunes))])
	}
	s := strings.ReplaceAll(sb.String(), "\r\n", "\r \n")
	if !utf8.ValidString(s) || strings.Contains(s, "\r\n") {
		panic("generator: text outside the intersection domain")
	}
	return s
}

var interKeyParts = []string{"X", "Content", "Type", "Length", "Set", "Cookie", "Etag", "A1", "Www", "Authenticate", "Z9z"}

func interHeaderValue(r *kit.Rng) string {
	// net/textproto rejects control bytes other than HTAB in values, and trims blanks
	v := strings.Map(func(c rune) rune {
		if c < 0x20 && c != '\t' || c == 0x7f {
			return -1
		}
		return c
	}, InterText(r, 12))
	return strings.Trim(v, " \t")
}

// ServerHeaders: what consecutive responses of one server look like — the same keys in every result,
// first values from a tiny pool (so that neighbouring results often agree in every FIRST value), later
// values of the multi-valued keys unique per result (`uniq`).
func ServerHeaders(r *kit.Rng, uniq uint64) map[string][]string {
	u := strconv.FormatUint(uniq, 10)
	h := map[string][]string{
		"Content-Type": {r.PickStr([]string{"text/html", "application/json"})},
		"Set-Cookie":   {"lang=" + r.PickStr([]string{"en", "de"}), "sid=" + u},
		"Vary":         {"Accept-Encoding", "X-" + u},
	}
	if r.Chance(0.5) {
		h["Set-Cookie"] = append(h["Set-Cookie"], "t="+u+"; Path=/")
	}
	return h
}

func InterHeaders(r *kit.Rng) map[string][]string {
	if r.Chance(0.3) {
		return nil
	}
	if r.Chance(0.12) {
		// empty, not nil (a response with a status line and no header lines): all three encodings keep it
		// apart from nil (gob: a map of 0 entries, CSV: "DQo=" vs an empty column, JSON: {} vs null), and
		// Result.Equal treats the two as different
		return map[string][]string{}
	}
	h := map[string][]string{}
	n := 1 + r.Pick(4)
	for i := 0; i < n; i++ {
		k := interKeyParts[r.Pick(len(interKeyParts))]
		for j := r.Pick(3); j > 0; j-- {
			k += "-" + interKeyParts[r.Pick(len(interKeyParts))]
		}
		k = textproto.CanonicalMIMEHeaderKey(k)
		m := 1 + r.Pick(3)
		vs := make([]string, m)
		for j := range vs {
			vs[j] = interHeaderValue(r)
		}
		h[k] = vs
	}
	return h
}

func interBody(r *kit.Rng, size int) []byte {
	if size < 0 {
		switch r.Pick(6) {
		case 0:
			return nil
		case 1:
			return []byte{}
		case 2:
			size = 1 + r.Pick(3)
		default:
			size = r.Pick(200)
		}
	}
	b := make([]byte, size)
	if size > 2048 { // big bodies: a random 257-byte block repeated (cheap; still not periodic in any power of two)
		blk := make([]byte, 257)
		r.Read(blk)
		for i := 0; i < size; i += len(blk) {
			copy(b[i:], blk)
		}
		b[size-1], b[size/2] = byte(r.Pick(256)), byte(r.Pick(256))
		return b
	}
	switch r.Pick(3) {
	case 0:
		r.Read(b)
	case 1:
		for i := range b {
			b[i] = "{\"a\":1,\n}"[i%9]
		}
	default:
		for i := range b {
			b[i] = byte(r.Pick(4)) * 85
		}
	}
	return b
}

// InterResult generates one result of the intersection domain. bodySize < 0: small random body.
// Latencies are non-negative.
func InterResult(r *kit.Rng, seq uint64, bodySize int) ResultSpec {
	s := ResultSpec{Seq: seq, Attack: InterText(r, 10), Error: InterText(r, 20), Method: r.PickStr([]string{"GET", "POST", "", "PUT", "get"}),
		URL: "http://h/" + InterText(r, 15), Headers: InterHeaders(r), Body: interBody(r, bodySize)}
	if r.Chance(0.2) {
		s.Headers = ServerHeaders(r, seq)
	}
	if r.Chance(0.5) {
		s.Error = ""
	}
	switch r.Pick(6) {
	case 0:
		s.Code = uint16(r.PickI64([]int64{0, 199, 200, 399, 400, 65535, 100, 500}))
	case 1:
		s.Code = uint16(r.Pick(65536))
	default:
		s.Code = uint16(r.PickI64([]int64{200, 200, 200, 201, 302, 404, 500, 503}))
	}
	switch r.Pick(8) {
	case 0:
		s.TsNano = r.PickI64([]int64{0, 1, 999999999, 1000000000, MaxTsNano, MaxTsNano - 1})
	case 1:
		s.TsNano = r.Range(0, MaxTsNano)
	default:
		s.TsNano = 1700000000000000000 + r.Range(0, 60000000000)
	}
	if r.Chance(0.3) {
		s.ZoneMin = int(r.PickI64([]int64{60, -60, 330, -480, 14 * 60, -12 * 60, 1, 120, -585}))
	} else if r.Chance(0.15) {
		s.Local = true
	}
	switch r.Pick(8) {
	case 0:
		s.Latency = r.PickI64([]int64{1, 2, 999, 1000, 1000000, 1000000000})
	case 1:
		s.Latency = r.Range(1, 1<<50)
	default:
		s.Latency = r.Range(1, 2000000000)
	}
	switch r.Pick(6) {
	case 0:
		s.BytesIn, s.BytesOut = r.Uint64(), r.Uint64()
	case 1:
		s.BytesIn, s.BytesOut = 0, 0
	default:
		s.BytesIn, s.BytesOut = uint64(len(s.Body)), uint64(r.Pick(5000))
	}
	return s
}

// SpiceText puts into the texts of a result what only some encodings carry: the pair CR LF (gob and
// JSON keep it, CSV folds it into LF) and invalid UTF-8 (gob and CSV keep the bytes, JSON writes U+FFFD).
// The caller says which of the two the path of the result allows.
func SpiceText(r *kit.Rng, s *ResultSpec, crlf, invalidUTF8 bool) (spiced string) {
	field := []*string{&s.Error, &s.Attack, &s.Method, &s.URL}[r.Pick(4)]
	switch {
	case crlf && (!invalidUTF8 || r.Chance(0.5)):
		*field += r.PickStr([]string{"\r\n", "a\r\nb", "\r\n\r\n", "x\n\r\n"})
		return "crlf"
	case invalidUTF8:
		*field += r.PickStr([]string{"\xff", "\xc3", "a\xfe\xffb", "\xe2\x80", "\xed\xa0\x80", "\xc0\xaf"})
		return "invalid-utf8"
	}
	return ""
}
