package gen

// Generators and canonical renderings for vegeta.Result (properties C07, C09).

import (
	"math/big"
	"net/http"
	"net/textproto"
	"sort"
	"strconv"
	"strings"
	"time"

	vegeta "github.com/tsenart/vegeta/v12/lib"
	"vharness/kit"
)

// ResultFields is the hand list of vegeta.Result's fields the generators, canonicalisers and the
// Lean model know about; harnesses compare it with reflection so that a new field fails loudly.
var ResultFields = []string{"Attack string attack", "Seq uint64 seq", "Code uint16 code", "Timestamp time.Time timestamp",
	"Latency time.Duration latency", "BytesOut uint64 bytes_out", "BytesIn uint64 bytes_in", "Error string error",
	"Body []uint8 body", "Method string method", "URL string url", "Headers http.Header headers"}

var textAtoms = []string{"a", "b", "Z", "0", "9", "foo", "bar", "http://x/y?q=1&r=2", "GET", "POST", "\u00e9a", "\u65e5\u672c", "\U0001F600", "\u00df",
	"\"", "\"\"", ",", ",,", "\n", "\n\n", " ", "  ", "\t", "\\", "\\.", "\\n", "\\\"", "\\\\", "\\u0041", "<", ">", "&", "'", "/", ":", ";", "=", "{", "}", "[", "]",
	"\u00a0", "\u1680", "\u2000", "\u200a", "\u0085", "\u3000", "\u2028", "\u2029", "\u202f", "\u205f", "\ufffd", "\u07ff", "\u0800", "\uffff", "\U00010000", "\U0010ffff",
	"\x00", "\x01", "\x08", "\x0b", "\x0c", "\x1f", "\x7f", "null", "true", "-1", "1e9", "Z", "+", "="}

// TextOpts selects the domain of generated texts.
type TextOpts struct {
	CR     bool // may contain '\r' (but never "\r\n" unless CRLF)
	CRLF   bool // may contain "\r\n"
	MaxLen int
}

// Text generates a valid UTF-8 text with quotes, commas, newlines, leading/trailing blanks,
// multi-byte runes, control bytes and characters special to CSV/JSON/HTML.
func Text(r *kit.Rng, o TextOpts) string {
	switch r.Pick(12) {
	case 0:
		return ""
	case 1:
		return r.PickStr([]string{"\\.", " ", "\n", "\"", ",", "a", "x y", " a", "a ", "\ta", "a\n", "\na", "\u00a0a", "\u2028", "\"a\"", "a,b", "'", "\\"})
	}
	n := 1 + r.Pick(8)
	if r.Chance(0.1) {
		n = 1 + r.Pick(40)
	}
	var sb strings.Builder
	for i := 0; i < n; i++ {
		switch {
		case o.CRLF && r.Chance(0.03):
			sb.WriteString("\r\n")
		case o.CR && r.Chance(0.03):
			sb.WriteString("\r")
		case r.Chance(0.08):
			sb.WriteRune(rune(r.Pick(0x80)))
		case r.Chance(0.05):
			c := rune(r.Pick(0x110000))
			if c >= 0xD800 && c < 0xE000 {
				c = 0xE000
			}
			sb.WriteRune(c)
		default:
			sb.WriteString(r.PickStr(textAtoms))
		}
	}
	s := sb.String()
	if !o.CR {
		s = strings.ReplaceAll(s, "\r", "")
	} else if !o.CRLF {
		for strings.Contains(s, "\r\n") {
			s = strings.ReplaceAll(s, "\r\n", "\r")
		}
	}
	if o.MaxLen > 0 && len(s) > o.MaxLen {
		s = strings.ToValidUTF8(s[:o.MaxLen], "")
	}
	return s
}

const MaxTimestampNs = 7289654400*1000000000 - 1 // 2200-12-31T23:59:59.999999999Z

// TimestampNs generates a boundary-biased instant between 1970 and 2200 (Unix nanoseconds).
func TimestampNs(r *kit.Rng) int64 {
	secs := []int64{0, 1, 59, 60, 86399, 86400, 951782400 /*2000-02-29*/, 951868799, 951868800, 4107542400, /*2100-03-01*/
		4107456000 /*2100-02-28*/, 4107542399, 1582934400 /*2020-02-29*/, 1609459199, 1609459200, 7258118400, 7289654399, 2147483647, 2147483648,
		4102444800 /*2100-01-01*/, 946684799, 946684800, 978307199 /*2000-12-31*/, 68169600 /*1972-02-29*/, 94694399}
	var s int64
	switch r.Pick(4) {
	case 0:
		s = r.PickI64(secs)
	case 1:
		s = r.PickI64(secs) + r.Range(-2, 2)*86400
		if s < 0 {
			s = 0
		}
	default:
		s = r.Range(0, 7289654399)
	}
	var ns int64
	switch r.Pick(6) {
	case 0:
		ns = 0
	case 1:
		ns = r.PickI64([]int64{1, 999999999, 500000000, 100000000, 10, 1000, 1000000, 123456789, 120000000, 999999990, 900000000})
	case 2:
		ns = r.Range(0, 999) * r.PickI64([]int64{1, 1000, 1000000})
	default:
		ns = r.Range(0, 999999999)
	}
	if s > 7289654399 {
		s = 7289654399
	}
	return s*1000000000 + ns
}

var tokenChars = "abcdefghijklmnopqrstuvwxyzABCDEFGHIJKLMNOPQRSTUVWXYZ0123456789-!#$%&'*+.^_`|~"

// HeaderKey generates a canonical MIME header key (as net/http yields them).
func HeaderKey(r *kit.Rng) string {
	if r.Chance(0.5) {
		return r.PickStr([]string{"Content-Type", "Content-Length", "Date", "Set-Cookie", "X-Request-Id", "Etag", "Vary", "Server", "A", "X-1", "Www-Authenticate"})
	}
	n := 1 + r.Pick(10)
	b := make([]byte, n)
	for i := range b {
		if r.Chance(0.15) {
			b[i] = '-'
		} else {
			b[i] = tokenChars[r.Pick(len(tokenChars))]
		}
	}
	return textproto.CanonicalMIMEHeaderKey(string(b))
}

// HeaderValue generates a header value without control bytes and without leading/trailing blanks.
func HeaderValue(r *kit.Rng) string {
	if r.Chance(0.1) {
		return ""
	}
	atoms := []string{"a", "text/html; charset=utf-8", "0", "1234", "W/\"abc\"", "a, b", "x=y; Path=/", "\u00e9", "\u65e5\u672c", "\U0001F600", ":", "\\", "<>&", "\u00a0", "'", "a  b", "\u2028", "Mon, 02 Jan 2006 15:04:05 GMT", "\x7e", "{}"}
	n := 1 + r.Pick(3)
	parts := make([]string, n)
	for i := range parts {
		parts[i] = r.PickStr(atoms)
	}
	return strings.TrimSpace(strings.Join(parts, r.PickStr([]string{"", " ", ",", "; "})))
}

// Headers generates nil / empty / single / multi-valued header maps.
func Headers(r *kit.Rng, maxKeys int) http.Header {
	switch r.Pick(6) {
	case 0:
		return nil
	case 1:
		return http.Header{}
	}
	n := 1 + r.Pick(4)
	if n > maxKeys {
		n = maxKeys
	}
	h := http.Header{}
	for i := 0; i < n; i++ {
		k := HeaderKey(r)
		m := 1
		if r.Chance(0.3) {
			m = 2 + r.Pick(3)
		}
		for j := 0; j < m; j++ {
			h[k] = append(h[k], HeaderValue(r))
		}
	}
	return h
}

// Body generates nil / empty / arbitrary byte bodies (all residues of length mod 3, some large).
func Body(r *kit.Rng, maxLen int) []byte {
	switch r.Pick(8) {
	case 0:
		return nil
	case 1:
		return []byte{}
	case 2:
		n := r.Pick(maxLen + 1)
		b := make([]byte, n)
		r.Read(b)
		return b
	case 3:
		return []byte(Text(r, TextOpts{CR: true, CRLF: true}))
	}
	n := r.Pick(12)
	b := make([]byte, n)
	r.Read(b)
	if r.Chance(0.3) {
		for i := range b {
			b[i] = r.PickStr([]string{"\x00", "\xff", "\xfb", "\x3f", "\x3e", "\n", "\r", "=", "\xf0"})[0]
		}
	}
	return b
}

func uint64Edge(r *kit.Rng) uint64 {
	switch r.Pick(6) {
	case 0:
		return []uint64{0, 1, 9, 10, 127, 128, 255, 256, 65535, 65536, 1<<32 - 1, 1 << 32, 1<<63 - 1, 1 << 63, 1<<64 - 1, 1<<64 - 2, 9999999999999999999, 10000000000000000000}[r.Pick(18)]
	case 1:
		return uint64(r.Pick(1000))
	case 2:
		return r.Uint64()
	default:
		return r.Uint64() >> uint(r.Pick(64))
	}
}

// ResultOpts selects the domain of a generated result.
type ResultOpts struct {
	Text           TextOpts
	MaxBody        int
	MaxKeys        int  // header keys (0 = no limit)
	Zone           bool // timestamps may carry a fixed zone with whole-minute offset (JSON, gob)
	ZoneOddSeconds bool // zones may have an offset that is not a whole minute (gob: MarshalBinary version 2)
	NoZoneMinus1   bool // never the offset of -1 minute (Time.MarshalBinary, hence gob, reserves it for UTC and fails)
	Loc            *time.Location
}

// Result generates one result over the full quantifier of C07.
func Result(r *kit.Rng, o ResultOpts) vegeta.Result {
	if o.MaxKeys == 0 {
		o.MaxKeys = 4
	}
	if o.MaxBody == 0 {
		o.MaxBody = 200
	}
	loc := time.UTC
	if o.Zone && r.Chance(0.3) {
		min := int(r.Range(-14*60, 14*60))
		if r.Chance(0.2) {
			min = int(r.PickI64([]int64{-1439, 1439, 1, -1, 60, -60, 330, 345, -570}))
		}
		if min == -1 && o.NoZoneMinus1 {
			min = -2
		}
		sec := min * 60
		if o.ZoneOddSeconds && r.Chance(0.3) {
			sec += int(r.Range(-59, 59))
			if sec/60 == -1 {
				sec -= 120
			}
		}
		if o.ZoneOddSeconds && r.Chance(0.1) {
			sec = 0 // a non-UTC location with offset 0
		}
		loc = time.FixedZone("", sec)
	}
	ts := time.Unix(0, TimestampNs(r)).In(loc)
	// Go's own binary time codec (which gob uses) does not round-trip every zone offset: a NEGATIVE number of odd
	// seconds is written as int8 and read back as uint8 (e.g. -5m16s comes back as -1m20s: same instant, another
	// offset), and an offset that comes back within (-2m, -1m] cannot be encoded again at all ("unexpected zone
	// offset"). A timestamp whose zone does not survive decode → encode in the standard library is not an input any
	// of the properties quantifies over: fall back to the whole-minute offset.
	if b, err := ts.MarshalBinary(); err == nil {
		var u time.Time
		if u.UnmarshalBinary(b) == nil {
			if _, err2 := u.MarshalBinary(); err2 != nil {
				_, off := ts.Zone()
				z := off - off%60
				if z == -60 {
					z = -120 // -1 minute is the codec's marker for UTC and cannot be encoded either
				}
				ts = ts.In(time.FixedZone("", z))
			}
		}
	}
	code := uint16(uint64Edge(r))
	if r.Chance(0.5) {
		code = uint16(r.PickI64([]int64{0, 200, 201, 301, 404, 500, 503, 65535}))
	}
	return vegeta.Result{
		Attack:    Text(r, o.Text),
		Seq:       uint64Edge(r),
		Code:      code,
		Timestamp: ts,
		Latency:   time.Duration(r.Int64Edge()),
		BytesOut:  uint64Edge(r),
		BytesIn:   uint64Edge(r),
		Error:     Text(r, o.Text),
		Body:      Body(r, o.MaxBody),
		Method:    Text(r, o.Text),
		URL:       Text(r, o.Text),
		Headers:   Headers(r, o.MaxKeys),
	}
}

// UnixNanoBig is the instant of t in Unix nanoseconds without int64 overflow.
func UnixNanoBig(t time.Time) string {
	x := new(big.Int).Mul(big.NewInt(t.Unix()), big.NewInt(1000000000))
	x.Add(x, big.NewInt(int64(t.Nanosecond())))
	return x.String()
}

func optHex(b []byte) string {
	if b == nil {
		return "n"
	}
	return kit.Hex(b)
}

// HeaderToken renders a header map as driver tokens (nil = "n"; keys sorted).
func HeaderToken(h http.Header) string {
	if h == nil {
		return "n"
	}
	ks := make([]string, 0, len(h))
	for k := range h {
		ks = append(ks, k)
	}
	sort.Strings(ks)
	var sb strings.Builder
	sb.WriteString(strconv.Itoa(len(ks)))
	for _, k := range ks {
		sb.WriteString(" " + kit.HexS(k) + " " + strconv.Itoa(len(h[k])))
		for _, v := range h[k] {
			sb.WriteString(" " + kit.HexS(v))
		}
	}
	return sb.String()
}

// ResultLine renders a result in the driver's token format (see lean/Vegeta/Driver/C07.lean).
func ResultLine(x *vegeta.Result) string {
	return strings.Join([]string{kit.HexS(x.Attack), strconv.FormatUint(x.Seq, 10), strconv.FormatUint(uint64(x.Code), 10),
		UnixNanoBig(x.Timestamp), strconv.FormatInt(int64(x.Latency), 10), strconv.FormatUint(x.BytesOut, 10),
		strconv.FormatUint(x.BytesIn, 10), kit.HexS(x.Error), optHex(x.Body), kit.HexS(x.Method), kit.HexS(x.URL), HeaderToken(x.Headers)}, " ")
}

// ResultLineNorm is ResultLine with a nil body rendered like an empty one (decoders may return either).
func ResultLineNorm(x *vegeta.Result) string {
	y := *x
	if y.Body == nil {
		y.Body = []byte{}
	}
	return ResultLine(&y)
}

// ResultsLine renders a decoded prefix and how decoding ended ("eof" or "err").
func ResultsLine(rs []vegeta.Result, term string, norm bool) string {
	var sb strings.Builder
	sb.WriteString(strconv.Itoa(len(rs)))
	for i := range rs {
		if norm {
			sb.WriteString(" | " + ResultLineNorm(&rs[i]))
		} else {
			sb.WriteString(" | " + ResultLine(&rs[i]))
		}
	}
	sb.WriteString(" | " + term)
	return sb.String()
}

// ParseResultLine is the inverse of ResultLine (timestamps come back in UTC).
func ParseResultLine(line string) (vegeta.Result, error) {
	f := strings.Fields(line)
	var x vegeta.Result
	if len(f) < 12 {
		return x, strconv.ErrSyntax
	}
	x.Attack = string(kit.UnHex(f[0]))
	x.Seq, _ = strconv.ParseUint(f[1], 10, 64)
	code, _ := strconv.ParseUint(f[2], 10, 16)
	x.Code = uint16(code)
	ts, ok := new(big.Int).SetString(f[3], 10)
	if !ok {
		return x, strconv.ErrSyntax
	}
	q, m := new(big.Int).DivMod(ts, big.NewInt(1000000000), new(big.Int))
	x.Timestamp = time.Unix(q.Int64(), m.Int64()).UTC()
	lat, _ := strconv.ParseInt(f[4], 10, 64)
	x.Latency = time.Duration(lat)
	x.BytesOut, _ = strconv.ParseUint(f[5], 10, 64)
	x.BytesIn, _ = strconv.ParseUint(f[6], 10, 64)
	x.Error = string(kit.UnHex(f[7]))
	if f[8] != "n" {
		x.Body = kit.UnHex(f[8])
		if x.Body == nil {
			x.Body = []byte{}
		}
	}
	x.Method = string(kit.UnHex(f[9]))
	x.URL = string(kit.UnHex(f[10]))
	if f[11] != "n" {
		x.Headers = http.Header{}
		n, _ := strconv.Atoi(f[11])
		i := 12
		for k := 0; k < n && i+1 < len(f); k++ {
			key := string(kit.UnHex(f[i]))
			m, _ := strconv.Atoi(f[i+1])
			i += 2
			vs := []string{}
			for j := 0; j < m && i < len(f); j++ {
				vs = append(vs, string(kit.UnHex(f[i])))
				i++
			}
			x.Headers[key] = vs
		}
	}
	return x, nil
}

// SameResult is an equality on results written for the harness, independent of Result.Equal: all scalar
// fields equal, timestamps the same instant, bodies equal as byte strings (nil = empty), headers
// with the same keys and, key by key, the same values in the same order.
func SameResult(a, b *vegeta.Result) bool {
	if a.Attack != b.Attack || a.Seq != b.Seq || a.Code != b.Code || a.Latency != b.Latency || a.BytesOut != b.BytesOut ||
		a.BytesIn != b.BytesIn || a.Error != b.Error || a.Method != b.Method || a.URL != b.URL {
		return false
	}
	if a.Timestamp.Unix() != b.Timestamp.Unix() || a.Timestamp.Nanosecond() != b.Timestamp.Nanosecond() {
		return false
	}
	if string(a.Body) != string(b.Body) {
		return false
	}
	// (whether a nil and an empty map are "equal" is left to Result.Equal, which the callers also ask)
	if len(a.Headers) != len(b.Headers) {
		return false
	}
	for k, va := range a.Headers {
		vb, ok := b.Headers[k]
		if !ok || len(va) != len(vb) {
			return false
		}
		for i := range va {
			if va[i] != vb[i] {
				return false
			}
		}
	}
	return true
}

// CloneResult is a deep copy.
func CloneResult(x *vegeta.Result) vegeta.Result {
	y := *x
	if x.Body != nil {
		y.Body = append([]byte{}, x.Body...)
	}
	if x.Headers != nil {
		y.Headers = http.Header{}
		for k, v := range x.Headers {
			if v == nil {
				y.Headers[k] = nil
			} else {
				y.Headers[k] = append([]string{}, v...)
			}
		}
	}
	return y
}

// LongText builds a valid UTF-8 text of exactly n bytes out of the atoms of Text (quotes, commas,
// newlines, blanks, multi-byte runes; CR only if allowed), padded with ASCII letters.
func LongText(r *kit.Rng, o TextOpts, n int) string {
	var sb strings.Builder
	for sb.Len() < n {
		t := Text(r, o)
		if t == "" {
			t = "x"
		}
		if sb.Len()+len(t) > n {
			sb.WriteString(strings.Repeat("y", n-sb.Len()))
			break
		}
		sb.WriteString(t)
	}
	s := sb.String()
	if !o.CRLF {
		for strings.Contains(s, "\r\n") { // atoms glued together may form CRLF
			s = strings.ReplaceAll(s, "\r\n", "\ry")
		}
	}
	return s
}

// BigFieldKinds are the ways Inflate can make a record large.
var BigFieldKinds = []string{"body", "error", "url", "attack", "header-value", "header-many-keys", "header-many-values"}

// Inflate makes x's encoded size grow by about n bytes through the given field.
func Inflate(r *kit.Rng, x *vegeta.Result, kind string, n int, o TextOpts) {
	switch kind {
	case "body":
		b := make([]byte, n)
		r.Read(b)
		x.Body = b
	case "error":
		x.Error = LongText(r, o, n)
	case "url":
		x.URL = "http://h/" + LongText(r, o, n)
	case "attack":
		x.Attack = LongText(r, o, n)
	case "header-value":
		if x.Headers == nil {
			x.Headers = http.Header{}
		}
		v := strings.Repeat("v", n/2) + " " + strings.Repeat("w", n-n/2-1)
		x.Headers["X-Big"] = []string{v}
	case "header-many-keys":
		if x.Headers == nil {
			x.Headers = http.Header{}
		}
		for i := 0; i*24 < n; i++ {
			x.Headers["X-K"+strconv.Itoa(i)] = []string{"value-" + strconv.Itoa(i)}
		}
	case "header-many-values":
		if x.Headers == nil {
			x.Headers = http.Header{}
		}
		var vs []string
		for i := 0; i*16 < n; i++ {
			vs = append(vs, "v"+strconv.Itoa(i))
		}
		x.Headers["Set-Cookie"] = vs
	}
}
