// Package gen: generators shared by several property harnesses.
package gen

import (
	"strconv"
	"strings"

	"vharness/kit"
)

var DurUnits = []string{"ns", "us", "µs", "μs", "ms", "s", "m", "h"}

// DurText generates a duration text in Go's grammar.
func DurText(r *kit.Rng) string {
	var sb strings.Builder
	if r.Chance(0.15) {
		sb.WriteString(r.PickStr([]string{"-", "+"}))
	}
	n := 1 + r.Pick(3)
	if r.Chance(0.05) {
		return sb.String() + "0"
	}
	for i := 0; i < n; i++ {
		switch r.Pick(6) {
		case 0:
			sb.WriteString(strconv.FormatInt(r.Range(0, 1000), 10))
		case 1:
			sb.WriteString(strconv.FormatUint(r.Uint64()>>uint(r.Pick(64)), 10))
		case 2:
			sb.WriteString(strconv.FormatInt(r.Range(0, 100), 10) + "." + strconv.FormatInt(r.Range(0, 999999), 10))
		case 3:
			sb.WriteString("." + strconv.FormatInt(r.Range(0, 99999), 10))
		case 4:
			sb.WriteString(strconv.FormatInt(r.Range(0, 3000000), 10) + ".")
		default:
			sb.WriteString(strconv.FormatInt(r.Range(1, 60), 10))
		}
		sb.WriteString(r.PickStr(DurUnits))
	}
	return sb.String()
}

// Mutate applies 1..3 byte-level mutations (bit flip, delete, duplicate, truncate, insert, rotate).
func Mutate(r *kit.Rng, s string) string {
	b := []byte(s)
	for k := 0; k <= r.Pick(3); k++ {
		switch r.Pick(6) {
		case 0: // bit flip
			if len(b) > 0 {
				b[r.Pick(len(b))] ^= 1 << uint(r.Pick(8))
			}
		case 1: // delete
			if len(b) > 0 {
				i := r.Pick(len(b))
				b = append(b[:i:i], b[i+1:]...)
			}
		case 2: // duplicate a span
			if len(b) > 0 {
				i := r.Pick(len(b))
				j := i + r.Pick(len(b)-i)
				b = append(b[:j:j], append(append([]byte{}, b[i:j]...), b[j:]...)...)
			}
		case 3: // truncate
			if len(b) > 0 {
				b = b[:r.Pick(len(b))]
			}
		case 4: // insert interesting byte
			ins := []byte(" \t\n\r,.[]-+0e9:#@\x00\xc2\xa0\x85\xe2\x80\xa8\xff{}\"\\")
			i := r.Pick(len(b) + 1)
			b = append(b[:i:i], append([]byte{ins[r.Pick(len(ins))]}, b[i:]...)...)
		case 5: // splice two halves swapped
			if len(b) > 1 {
				i := r.Pick(len(b))
				b = append(append([]byte{}, b[i:]...), b[:i]...)
			}
		}
	}
	return string(b)
}
