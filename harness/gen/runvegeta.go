package gen

// RunVegetaGuarded: like kit.RunVegeta (op lines through the vegeta binary built with -tags verif),
// but an in-process command that never returns does not hang the harness: if no answer arrives
// within `stall`, the process is killed and the index of the unanswered op is reported, so that the
// harness can turn "the command never ends" into a violation with a concrete input (e.g. report or
// encode over a decoder that never signals the end of input).

import (
	"bufio"
	"fmt"
	"io"
	"os"
	"os/exec"
	"syscall"
	"time"
)

// returns the answers received (one per op, in order) and hungAt = index of the op that was being
// executed when the process stalled (-1 if all ops were answered).
func RunVegetaGuarded(bin string, ops []string, stall time.Duration) (lines []string, hungAt int, err error) {
	return RunVegetaGuardedEnv(bin, ops, stall, false)
}

// RunVegetaGuardedEnv: with ignoreSIGINT the vegeta process STARTS with SIGINT ignored, as a background job of
// a non-interactive shell, a `nohup`/`trap ” INT` wrapper or many supervisors start it (an ignored
// disposition is inherited across exec).
func RunVegetaGuardedEnv(bin string, ops []string, stall time.Duration, ignoreSIGINT bool) (lines []string, hungAt int, err error) {
	if len(ops) == 0 {
		return nil, -1, nil
	}
	cmd := exec.Command(bin)
	if ignoreSIGINT {
		// through a shell, so that the disposition of this (multi-threaded) process need not be touched
		cmd = exec.Command("/bin/sh", "-c", `trap '' INT; exec "$0"`, bin)
	}
	cmd.Env = append(os.Environ(), "VEGETA_VERIF_DRIVER=1")
	stdin, err := cmd.StdinPipe()
	if err != nil {
		return nil, -1, err
	}
	stdout, err := cmd.StdoutPipe()
	if err != nil {
		return nil, -1, err
	}
	cmd.Stderr = os.Stderr
	if err := cmd.Start(); err != nil {
		return nil, -1, fmt.Errorf("vegeta-verif: %w", err)
	}
	go func() {
		w := bufio.NewWriter(stdin)
		for _, o := range ops {
			if _, err := io.WriteString(w, o+"\n"); err != nil {
				break
			}
		}
		w.Flush()
		stdin.Close()
	}()
	got := make(chan string, 64)
	go func() {
		sc := bufio.NewScanner(stdout)
		sc.Buffer(make([]byte, 1<<20), 1<<30)
		for sc.Scan() {
			got <- sc.Text()
		}
		close(got)
	}()
	timer := time.NewTimer(stall)
	defer timer.Stop()
	for len(lines) < len(ops) {
		select {
		case l, ok := <-got:
			if !ok {
				cmd.Wait()
				return lines, -1, fmt.Errorf("vegeta-verif returned %d lines for %d ops", len(lines), len(ops))
			}
			lines = append(lines, l)
			if !timer.Stop() {
				select {
				case <-timer.C:
				default:
				}
			}
			timer.Reset(stall)
		case <-timer.C:
			cmd.Process.Kill()
			cmd.Wait()
			return lines, len(lines), nil
		}
	}
	cmd.Wait()
	return lines, -1, nil
}

// SlowSink makes `path` a named pipe and drains it slowly in the background (`chunk` bytes, then a pause
// of `delay`): a command writing its output there is a producer whose consumer falls behind. The bytes
// arrive on the returned channel once the writer has closed the pipe — or, if nothing was ever written,
// after `cancel` is closed.
func SlowSink(path string, chunk int, delay time.Duration, cancel <-chan struct{}) (<-chan []byte, error) {
	if err := syscall.Mkfifo(path, 0o600); err != nil {
		return nil, err
	}
	f, err := os.OpenFile(path, os.O_RDONLY|syscall.O_NONBLOCK, 0)
	if err != nil {
		return nil, err
	}
	out := make(chan []byte, 1)
	go func() {
		defer f.Close()
		var all []byte
		buf := make([]byte, chunk)
		saw := false
		for {
			n, err := f.Read(buf)
			if n > 0 {
				all = append(all, buf[:n]...)
				saw = true
				time.Sleep(delay)
				continue
			}
			if err != nil && err != io.EOF {
				break
			}
			if saw { // every writer has closed
				break
			}
			select {
			case <-cancel:
				out <- all
				return
			case <-time.After(time.Millisecond):
			}
		}
		out <- all
	}()
	return out, nil
}
