import Vegeta.Driver.Loop
import Vegeta.Driver.C12
import Vegeta.Driver.C17
/-! Driver executable of property C17: its own operations (`c17.*`) plus the shared
duration/histogram operations (`dur.*`, `hist.*`). -/
def main : IO Unit := Vegeta.Driver.mainLoop fun op args =>
  if op.startsWith "hist." || op.startsWith "dur." then Vegeta.Driver.C12.handle op args
  else Vegeta.Driver.C17.handle op args
