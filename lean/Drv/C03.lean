import Vegeta.Driver.Loop
import Vegeta.Driver.C12
import Vegeta.Driver.C03
/-! Driver executable of property C03: its own operations (`c03.*`) plus the shared
duration/histogram operations (`dur.*`, `hist.*`). -/
def main : IO Unit := Vegeta.Driver.mainLoop fun op args =>
  if op.startsWith "hist." || op.startsWith "dur." then Vegeta.Driver.C12.handle op args
  else Vegeta.Driver.C03.handle op args
