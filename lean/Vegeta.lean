-- Root of the `Vegeta` library: models, specs, regenerated facts, proofs and property theorems.
import Vegeta.Go.Basic
import Vegeta.Go.Proto
import Vegeta.Go.SoftF64
import Vegeta.Go.Duration
import Vegeta.Extracted.Facts
import Vegeta.Model.Histogram
import Vegeta.Props.C12
