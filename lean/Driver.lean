import Vegeta.Driver.Hist
/-! Line-protocol driver: one operation per input line, one result line per operation. -/

def dispatch (line : String) : String :=
  match line.splitOn " " with
  | [] => "bad-op"
  | op :: args =>
    let r : Option String :=
      if op.startsWith "hist." || op.startsWith "dur." then Vegeta.Driver.Hist.handle op args
      else none
    match r with
    | some s => s
    | none => "bad-op"

partial def loop (hin : IO.FS.Stream) (hout : IO.FS.Stream) : IO Unit := do
  let line ← hin.getLine
  if line.isEmpty then return ()
  let l := (line.dropEndWhile (fun c => c == '\n' || c == '\r')).toString
  hout.putStrLn (dispatch l)
  loop hin hout

def main : IO Unit := do
  let hin ← IO.getStdin
  let hout ← IO.getStdout
  loop hin hout
  hout.flush
