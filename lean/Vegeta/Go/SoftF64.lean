/-
SoftF64: an executable IEEE-754 binary64 in pure Nat/Int (round-to-nearest-even),
kernel-reducible, so that theorems can speak about the rounded computations that the
Go code performs.  Only the operations vegeta uses on modelled paths are defined:
conversion from integers, + − × ÷, comparisons, truncation to int64/uint64 with
Go/amd64's out-of-range result, floor/round-half-away.
Transcendental functions (sin, cos, asin, pow) are NOT defined here.
-/
import Vegeta.Go.Basic
namespace Vegeta.Go

structure F64 where
  bits : Nat
  deriving DecidableEq, Repr, Inhabited

namespace F64

def p52 : Nat := 4503599627370496          -- 2^52
def p53 : Nat := 9007199254740992          -- 2^53
def p63 : Nat := 9223372036854775808       -- 2^63
def expMask : Nat := 2047

def sign (x : F64) : Bool := x.bits / p63 % 2 == 1
def bexp (x : F64) : Nat := x.bits / p52 % 2048
def frac (x : F64) : Nat := x.bits % p52

def isNaN (x : F64) : Bool := x.bexp == 2047 && x.frac != 0
def isInf (x : F64) : Bool := x.bexp == 2047 && x.frac == 0
def isFinite (x : F64) : Bool := x.bexp != 2047
def isZero (x : F64) : Bool := x.bexp == 0 && x.frac == 0

def posZero : F64 := ⟨0⟩
def negZero : F64 := ⟨p63⟩
def inf (neg : Bool) : F64 := ⟨(if neg then p63 else 0) + 2047 * p52⟩
def nan : F64 := ⟨0x7FF8000000000001⟩
def zero (neg : Bool) : F64 := if neg then negZero else posZero

/-- Magnitude of a finite value as `m * 2^e`. -/
def mant (x : F64) : Nat := if x.bexp == 0 then x.frac else p52 + x.frac
def expo (x : F64) : Int := if x.bexp == 0 then -1074 else (x.bexp : Int) - 1075

/-- `⌊log2 n⌋` for `n > 0` (0 for 0). -/
def log2 (n : Nat) : Nat := Nat.log2 n

/-- Round the positive rational `n / d` (`d > 0`) to the nearest binary64, ties to even. -/
def roundRat (neg : Bool) (n d : Nat) : F64 :=
  if n == 0 then zero neg else
  if d == 0 then inf neg else
  let sgn := if neg then p63 else 0
  -- first guess of k with 2^52 ≤ n·2^k/d < 2^53
  let k0 : Int := 52 - ((log2 n : Int) - (log2 d : Int))
  let q0 := if k0 ≥ 0 then n * 2 ^ k0.toNat / d else n / (d * 2 ^ (-k0).toNat)
  let k1 : Int := if q0 ≥ p53 then k0 - 1 else if q0 < p52 then k0 + 1 else k0
  -- clamp for subnormals: biased exponent = 1075 - k must be ≥ 1
  let k : Int := if k1 > 1074 then 1074 else k1
  let num := if k ≥ 0 then n * 2 ^ k.toNat else n
  let den := if k ≥ 0 then d else d * 2 ^ (-k).toNat
  let q := num / den
  let r := num % den
  let q' := if 2 * r > den then q + 1 else if 2 * r == den then q + q % 2 else q
  let biased : Int := 1075 - k
  -- (biased-1)*2^52 + q'  (carry from rounding propagates into the exponent)
  let body : Int := (biased - 1) * (p52 : Int) + (q' : Int)
  if body ≥ (2047 * p52 : Nat) then inf neg else ⟨sgn + body.toNat⟩

def ofNat (n : Nat) : F64 := roundRat false n 1
def ofInt (i : Int) : F64 := roundRat (i < 0) i.natAbs 1

/-- exact `m * 2^e` rounded. -/
def ofScaled (neg : Bool) (m : Nat) (e : Int) : F64 :=
  if e ≥ 0 then roundRat neg (m * 2 ^ e.toNat) 1 else roundRat neg m (2 ^ (-e).toNat)

def neg (x : F64) : F64 := if x.sign then ⟨x.bits - p63⟩ else ⟨x.bits + p63⟩
def abs (x : F64) : F64 := if x.sign then ⟨x.bits - p63⟩ else x

def add (x y : F64) : F64 :=
  if x.isNaN || y.isNaN then nan else
  if x.isInf then (if y.isInf && x.sign != y.sign then nan else x) else
  if y.isInf then y else
  let e := min x.expo y.expo
  let mx : Int := (x.mant : Int) * 2 ^ (x.expo - e).toNat
  let my : Int := (y.mant : Int) * 2 ^ (y.expo - e).toNat
  let s : Int := (if x.sign then -mx else mx) + (if y.sign then -my else my)
  if s == 0 then (if x.sign && y.sign then negZero else posZero)
  else ofScaled (s < 0) s.natAbs e

def sub (x y : F64) : F64 := add x (neg y)

def mul (x y : F64) : F64 :=
  if x.isNaN || y.isNaN then nan else
  let sg := x.sign != y.sign
  if x.isInf || y.isInf then (if x.isZero || y.isZero then nan else inf sg) else
  if x.isZero || y.isZero then zero sg else
  ofScaled sg (x.mant * y.mant) (x.expo + y.expo)

def div (x y : F64) : F64 :=
  if x.isNaN || y.isNaN then nan else
  let sg := x.sign != y.sign
  if x.isInf then (if y.isInf then nan else inf sg) else
  if y.isInf then zero sg else
  if y.isZero then (if x.isZero then nan else inf sg) else
  if x.isZero then zero sg else
  let de := x.expo - y.expo
  if de ≥ 0 then roundRat sg (x.mant * 2 ^ de.toNat) y.mant
  else roundRat sg x.mant (y.mant * 2 ^ (-de).toNat)

/-- Signed integer numerator of a finite value scaled to a common exponent, for comparison. -/
def cmpKey (x y : F64) : Int × Int :=
  let e := min x.expo y.expo
  let mx : Int := (x.mant : Int) * 2 ^ (x.expo - e).toNat
  let my : Int := (y.mant : Int) * 2 ^ (y.expo - e).toNat
  ((if x.sign then -mx else mx), (if y.sign then -my else my))

def lt (x y : F64) : Bool :=
  if x.isNaN || y.isNaN then false else
  if x.isInf then (x.sign && !(y.isInf && y.sign)) else
  if y.isInf then !y.sign else
  let (a, b) := cmpKey x y; a < b

def le (x y : F64) : Bool :=
  if x.isNaN || y.isNaN then false else
  if x.isInf then (x.sign || (y.isInf && !y.sign)) else
  if y.isInf then !y.sign else
  let (a, b) := cmpKey x y; a ≤ b

def eq (x y : F64) : Bool :=
  if x.isNaN || y.isNaN then false else
  if x.isInf || y.isInf then x.bits == y.bits else
  let (a, b) := cmpKey x y; a == b

/-- Truncation toward zero of a finite value, as an unbounded integer. -/
def truncInt (x : F64) : Int :=
  let m : Int := x.mant
  let v : Int := if x.expo ≥ 0 then m * 2 ^ x.expo.toNat else m / 2 ^ (-x.expo).toNat
  if x.sign then -v else v

/-- Go on amd64: `int64(f)` is CVTTSD2SI — NaN and out-of-range give 0x8000000000000000. -/
def toInt64 (x : F64) : Int :=
  if !x.isFinite then minInt64 else
  let t := x.truncInt
  if minInt64 ≤ t ∧ t ≤ maxInt64 then t else minInt64

/-- Go on amd64: `uint64(f)`: below 2^63 via CVTTSD2SI (negatives wrap as the signed result
reinterpreted; NaN gives 2^63), otherwise `(f - 2^63)` converted and the top bit OR-ed in, so
+Inf and values ≥ 2^64 give 2^63 (observed with go1.23.5). Result in [0, 2^64). -/
def toUInt64 (x : F64) : Int :=
  if lt x (ofNat p63) then wrapU64 (toInt64 x)
  else
    let v := toInt64 (sub x (ofNat p63))
    if v < 0 then (p63 : Int) else v + (p63 : Int)

/-- `math.Floor` on finite values. -/
def floorInt (x : F64) : Int :=
  let m : Int := x.mant
  if x.expo ≥ 0 then (if x.sign then -(m * 2 ^ x.expo.toNat) else m * 2 ^ x.expo.toNat)
  else
    let d : Int := 2 ^ (-x.expo).toNat
    if x.sign then -((m + d - 1) / d) else m / d

/-- `math.Round`: nearest integer, halves away from zero; non-finite values unchanged. -/
def round (x : F64) : F64 :=
  if !x.isFinite then x else
  if x.expo ≥ 0 then x else
  let d : Nat := 2 ^ (-x.expo).toNat
  let q := x.mant / d
  let r := x.mant % d
  let q' := if 2 * r ≥ d then q + 1 else q
  if q' == 0 then zero x.sign else roundRat x.sign q' 1

/-- Decimal literal `m × 10^e` rounded (how Go evaluates constants like `1e9`, `1e-3`). -/
def ofDecimal (m : Nat) (e : Int) : F64 :=
  if e ≥ 0 then roundRat false (m * 10 ^ e.toNat) 1 else roundRat false m (10 ^ (-e).toNat)

end F64
end Vegeta.Go
