/-
Line-protocol helpers for the driver (boundary code, not part of any theorem).
Byte strings travel hex-encoded ("-" for the empty string), integers in decimal.
-/
import Vegeta.Go.Basic
namespace Vegeta.Go

abbrev Byte := Nat
abbrev Bytes := List Nat

namespace Proto

def hexDigit (n : Nat) : Char :=
  if n < 10 then Char.ofNat (48 + n) else Char.ofNat (87 + n)

def hexEncode (bs : Bytes) : String :=
  if bs.isEmpty then "-" else
  String.ofList (bs.flatMap fun b => [hexDigit ((b / 16) % 16), hexDigit (b % 16)])

def hexVal (c : Char) : Option Nat :=
  let n := c.toNat
  if 48 ≤ n ∧ n ≤ 57 then some (n - 48)
  else if 97 ≤ n ∧ n ≤ 102 then some (n - 87)
  else if 65 ≤ n ∧ n ≤ 70 then some (n - 55)
  else none

def hexDecodeChars : List Char → Option Bytes
  | [] => some []
  | [_] => none
  | a :: b :: rest => do
    let x ← hexVal a
    let y ← hexVal b
    let r ← hexDecodeChars rest
    pure ((x * 16 + y) :: r)

def hexDecode (s : String) : Option Bytes :=
  if s == "-" then some [] else hexDecodeChars s.toList

def ofString (s : String) : Bytes := s.toUTF8.toList.map (·.toNat)

abbrev P := StateT (List String) Option

def tok : P String := do
  match (← get) with
  | [] => failure
  | t :: ts => set ts; pure t

def int : P Int := do
  let t ← tok
  match t.toInt? with
  | some i => pure i
  | none => failure

def nat : P Nat := do
  let t ← tok
  match t.toNat? with
  | some i => pure i
  | none => failure

def bytes : P Bytes := do
  let t ← tok
  match hexDecode t with
  | some b => pure b
  | none => failure

def bool : P Bool := do
  let t ← tok
  pure (t == "1")

def listOf {α} (p : P α) : P (List α) := do
  let n ← nat
  let rec go : Nat → List α → P (List α)
    | 0, acc => pure acc.reverse
    | k+1, acc => do let a ← p; go k (a :: acc)
  go n []

def atEnd : P Bool := do pure (← get).isEmpty

def showInts (xs : List Int) : String :=
  toString xs.length ++ xs.foldl (fun s x => s ++ " " ++ toString x) ""

def showNats (xs : List Nat) : String :=
  toString xs.length ++ xs.foldl (fun s x => s ++ " " ++ toString x) ""

def showBytesList (xs : List Bytes) : String :=
  toString xs.length ++ xs.foldl (fun s x => s ++ " " ++ hexEncode x) ""

end Proto
end Vegeta.Go
