/-
Go semantics kit (core-only): outcomes, fixed-width integer wrap, truncated
division.  Everything here is executable and kernel-reducible.
-/
namespace Vegeta.Go

/-- Result of a modelled Go call: a value, a returned `error`, or a run-time panic.
"Never panics" theorems are statements `f x ≠ .panic`, not consequences of totality. -/
inductive Outcome (α : Type) where
  | ok    : α → Outcome α
  | error : Nat → Outcome α      -- error class (small enum per model)
  | panic : Outcome α
  deriving Repr, DecidableEq

namespace Outcome
def isPanic {α} : Outcome α → Bool
  | .panic => true
  | _ => false
def isOk {α} : Outcome α → Bool
  | .ok _ => true
  | _ => false
def bind {α β} (o : Outcome α) (f : α → Outcome β) : Outcome β :=
  match o with
  | .ok a => f a
  | .error e => .error e
  | .panic => .panic
instance : Monad Outcome where
  pure := .ok
  bind := bind
end Outcome

def two63 : Nat := 9223372036854775808
def two64 : Nat := 18446744073709551616
def maxInt64 : Int := 9223372036854775807
def minInt64 : Int := -9223372036854775808

/-- Reduce an integer to the `uint64` range (Go conversion / wrap-around). -/
def wrapU64 (x : Int) : Int := x % (two64 : Int)

/-- Reduce an integer to the `int64` range (two's complement wrap-around). -/
def wrapS64 (x : Int) : Int :=
  let m := x % (two64 : Int)
  if m ≥ (two63 : Int) then m - (two64 : Int) else m

def inS64 (x : Int) : Prop := minInt64 ≤ x ∧ x ≤ maxInt64
instance (x : Int) : Decidable (inS64 x) := by unfold inS64; infer_instance

def inU64 (x : Int) : Prop := 0 ≤ x ∧ x < (two64 : Int)
instance (x : Int) : Decidable (inU64 x) := by unfold inU64; infer_instance

theorem wrapS64_id {x : Int} (h : inS64 x) : wrapS64 x = x := by
  unfold inS64 minInt64 maxInt64 at h
  unfold wrapS64 two64 two63
  simp only []
  split <;> omega

theorem wrapU64_id {x : Int} (h : inU64 x) : wrapU64 x = x := by
  unfold inU64 two64 at h
  unfold wrapU64 two64
  omega

theorem wrapU64_range (x : Int) : inU64 (wrapU64 x) := by
  unfold inU64 wrapU64 two64; omega

theorem wrapS64_range (x : Int) : inS64 (wrapS64 x) := by
  unfold inS64 wrapS64 two64 two63 minInt64 maxInt64
  simp only []
  split <;> omega

end Vegeta.Go
