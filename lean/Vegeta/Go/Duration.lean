/-
Model of Go's `time.ParseDuration` and `time.Duration.String` (Go 1.22/1.23 source),
over byte lists.  Tied to the real functions by the correspondence check (C12, C19).
-/
import Vegeta.Go.Proto
import Vegeta.Go.SoftF64
namespace Vegeta.Go.Duration
open Vegeta.Go

def isDigit (c : Nat) : Bool := 48 ≤ c && c ≤ 57

def p63 : Nat := 9223372036854775808

/-- `leadingInt`: consumes `[0-9]*`; `none` on overflow beyond 2^63. -/
def leadingInt : Bytes → Nat → Option (Nat × Bytes)
  | [], x => some (x, [])
  | c :: rest, x =>
    if isDigit c then
      if x > p63 / 10 then none else
      let x' := x * 10 + (c - 48)
      if x' > p63 then none else leadingInt rest x'
    else some (x, c :: rest)

/-- `leadingFraction`: consumes `[0-9]*`, returns (x, number of accepted digits, rest).
Go keeps `scale` as a float64 multiplied by 10 per accepted digit (`scale *= 10`): exact up to 10^22, but leading
zeros are accepted digits too, so more than 22 digits can be accepted ("0.00000009999999999999999999s") and the
product is then the ITERATED rounded one, not the correctly rounded 10^digits — see `scalePow`. -/
def leadingFraction : Bytes → Nat → Nat → Bool → (Nat × Nat × Bytes)
  | [], x, k, _ => (x, k, [])
  | c :: rest, x, k, ovf =>
    if isDigit c then
      if ovf then leadingFraction rest x k true else
      if x > (p63 - 1) / 10 then leadingFraction rest x k true else
      let y := x * 10 + (c - 48)
      if y > p63 then leadingFraction rest x k true else
      leadingFraction rest y (k + 1) false
    else (x, k, c :: rest)

/-- Split off the unit: the longest prefix without `.` or digits. -/
def spanUnit : Bytes → Bytes × Bytes
  | [] => ([], [])
  | c :: rest =>
    if c == 46 || isDigit c then ([], c :: rest)
    else let (u, r) := spanUnit rest; (c :: u, r)

def unitValue (u : Bytes) : Option Nat :=
  if u == [110, 115] then some 1                      -- ns
  else if u == [117, 115] then some 1000              -- us
  else if u == [194, 181, 115] then some 1000         -- µs (U+00B5)
  else if u == [206, 188, 115] then some 1000         -- μs (U+03BC)
  else if u == [109, 115] then some 1000000           -- ms
  else if u == [115] then some 1000000000             -- s
  else if u == [109] then some 60000000000            -- m
  else if u == [104] then some 3600000000000          -- h
  else none

/-- error classes -/
def eInvalid : Nat := 1
def eMissingUnit : Nat := 2
def eUnknownUnit : Nat := 3

theorem spanUnit_snd_le (s : Bytes) : (spanUnit s).2.length ≤ s.length := by
  induction s with
  | nil => simp [spanUnit]
  | cons c rest ih =>
    unfold spanUnit
    split
    · simp
    · simp only [List.length_cons]; omega

theorem leadingInt_le : ∀ (s : Bytes) (x : Nat) (v : Nat) (r : Bytes),
    leadingInt s x = some (v, r) → r.length ≤ s.length := by
  intro s
  induction s with
  | nil => intro x v r h; simp [leadingInt] at h; simp [h.2.symm]
  | cons c rest ih =>
    intro x v r h
    unfold leadingInt at h
    split at h
    · split at h
      · simp at h
      · simp only [] at h
        split at h
        · simp at h
        · have := ih _ _ _ h; simp; omega
    · simp at h; simp [← h.2]

theorem leadingFraction_le : ∀ (s : Bytes) (x k : Nat) (o : Bool),
    (leadingFraction s x k o).2.2.length ≤ s.length := by
  intro s
  induction s with
  | nil => intro x k o; simp [leadingFraction]
  | cons c rest ih =>
    intro x k o
    unfold leadingFraction
    split
    · split
      · have := ih x k true; simp; omega
      · split
        · have := ih x k true; simp; omega
        · simp only []
          split
          · have := ih x k true; simp; omega
          · have := ih (x * 10 + (c - 48)) (k+1) false; simp; omega
    · simp

/-- `scale` after `k` accepted digits: `1` multiplied by `10` in float64 `k` times. -/
def scalePow : Nat → F64
  | 0 => F64.ofNat 1
  | k+1 => F64.mul (scalePow k) (F64.ofNat 10)

/-- The main loop of `ParseDuration` over the remaining input, accumulating `d`.
Structural recursion on a fuel argument (`parseLoop` supplies `len+1`, and every iteration
consumes at least the non-empty unit, so the fuel never runs out: `parseLoop_fuel_irrelevant`). -/
def parseLoopF : Nat → Bytes → Nat → Outcome Nat
  | 0, _, _ => .error 99
  | fuel+1, s, d =>
  match s with
  | [] => .ok d
  | c0 :: _ =>
    if !(c0 == 46 || isDigit c0) then .error eInvalid else
    match leadingInt s 0 with
    | none => .error eInvalid
    | some (v, s1) =>
      let pre := s.length != s1.length
      let (f, k, s2, post) : Nat × Nat × Bytes × Bool :=
        match s1 with
        | 46 :: t => let (f, k, s2) := leadingFraction t 0 0 false; (f, k, s2, t.length != s2.length)
        | _ => (0, 0, s1, false)
      if !pre && !post then .error eInvalid else
      match spanUnit s2 with
      | (uu, ur) =>
      if uu = [] then .error eMissingUnit else
      match unitValue uu with
      | none => .error eUnknownUnit
      | some unit =>
        if v > p63 / unit then .error eInvalid else
        let v1 := v * unit
        let v2 : Option Nat :=
          if f > 0 then
            -- v += uint64(float64(f) * (float64(unit) / scale))
            let fl := F64.mul (F64.ofNat f) (F64.div (F64.ofNat unit) (scalePow k))
            let add := F64.toUInt64 fl
            let v' := (v1 + add.toNat) % two64
            if v' > p63 then none else some v'
          else some v1
        match v2 with
        | none => .error eInvalid
        | some v' =>
          let d' := (d + v') % two64
          if d' > p63 then .error eInvalid else parseLoopF fuel ur d'

def parseLoop (s : Bytes) (d : Nat) : Outcome Nat := parseLoopF (s.length + 1) s d

/-- `time.ParseDuration`. Returns nanoseconds. -/
def parse (s : Bytes) : Outcome Int :=
  let (neg, s1) : Bool × Bytes :=
    match s with
    | 45 :: t => (true, t)
    | 43 :: t => (false, t)
    | _ => (false, s)
  if s1 == [48] then .ok 0 else
  if s1 == [] then .error eInvalid else
  match parseLoop s1 0 with
  | .ok d =>
    if neg then .ok (wrapS64 (-(d : Int)))
    else if d > p63 - 1 then .error eInvalid else .ok d
  | .error e => .error e
  | .panic => .panic

/-! ### Duration.String -/

def digitsRev : Nat → Nat → List Nat
  | 0, _ => []
  | fuel+1, n => if n < 10 then [48 + n] else (48 + n % 10) :: digitsRev fuel (n / 10)

/-- decimal digits of a natural number -/
def fmtNat (n : Nat) : Bytes := (digitsRev (n + 1) n).reverse

/-- `fmtFrac`: fraction of `v / 10^prec` without trailing zeros (with leading '.'), and `v / 10^prec`. -/
def fmtFrac : Nat → Nat → Bool → Bytes → Bytes × Nat
  | 0, v, pr, acc => (if pr then 46 :: acc else acc, v)
  | p+1, v, pr, acc =>
    let digit := v % 10
    let pr' := pr || digit != 0
    fmtFrac p (v / 10) pr' (if pr' then (48 + digit) :: acc else acc)

def toString (d : Int) : Bytes :=
  let neg := d < 0
  let u : Nat := (if neg then wrapU64 (-d) else wrapU64 d).toNat
  let body : Bytes :=
    if u < 1000000000 then
      if u == 0 then [48, 115]
      else if u < 1000 then fmtNat u ++ [110, 115]
      else if u < 1000000 then
        let (fr, v) := fmtFrac 3 u false []
        fmtNat v ++ fr ++ [194, 181, 115]
      else
        let (fr, v) := fmtFrac 6 u false []
        fmtNat v ++ fr ++ [109, 115]
    else
      let (fr, secs) := fmtFrac 9 u false []
      let sPart := fmtNat (secs % 60) ++ fr ++ [115]
      let mins := secs / 60
      if mins > 0 then
        let mPart := fmtNat (mins % 60) ++ [109]
        let hrs := mins / 60
        if hrs > 0 then fmtNat hrs ++ [104] ++ mPart ++ sPart else mPart ++ sPart
      else sPart
  if neg then 45 :: body else body

end Vegeta.Go.Duration
