/-
Proofs about the decimal integer text forms (`strconv.FormatInt/FormatUint`,
`strconv.ParseUint/ParseInt`) of `Vegeta.Model.CodecDecimal`, and agreement of the
spec reader's plain decimal parser (`Vegeta.Spec.Layout.specNat/specInt`).
-/
import Vegeta.Model.CodecResult
import Vegeta.Spec.Layout
namespace Vegeta.Proofs.Codec
open Vegeta.Go Vegeta.Model.Codec

/-! ### `digitsRev` -/

theorem digitsRev_digits (fuel n : Nat) : ∀ c ∈ digitsRev fuel n, 48 ≤ c ∧ c ≤ 57 := by
  induction fuel generalizing n with
  | zero => intro c hc; simp [digitsRev] at hc
  | succ fuel ih =>
    intro c hc
    unfold digitsRev at hc
    split at hc
    · simp only [List.mem_singleton] at hc
      omega
    · simp only [List.mem_cons] at hc
      rcases hc with hc | hc
      · omega
      · exact ih _ c hc

theorem digitsRev_ne_nil (fuel n : Nat) : digitsRev (fuel + 1) n ≠ [] := by
  unfold digitsRev
  split <;> simp

/-- parsing the digits of `n` (most significant first) from accumulator 0 arrives at `n` -/
theorem parseUintLoop_digitsRev (M : Nat) (fuel n : Nat) (s : Bytes)
    (hf : n < fuel) (hM : n ≤ M) (h64 : n < two64) :
    parseUintLoop M ((digitsRev fuel n).reverse ++ s) 0 = parseUintLoop M s n := by
  induction fuel generalizing n s with
  | zero => omega
  | succ fuel ih =>
    unfold digitsRev
    split
    · rename_i hlt
      simp only [List.reverse_cons, List.reverse_nil, List.nil_append, List.singleton_append]
      rw [parseUintLoop]
      unfold two64 at h64
      have h1 : (48 ≤ 48 + n ∧ 48 + n ≤ 57) := by omega
      have h2 : ¬ (0 ≥ cutoff10) := by unfold cutoff10; omega
      have h3 : 0 * 10 + (48 + n - 48) = n := by omega
      have h4 : ¬ (n ≥ two64 ∨ n > M) := by unfold two64; omega
      simp only [h1, h2, h3, h4, and_self, if_true, if_false]
    · rename_i hge
      simp only [List.reverse_cons, List.append_assoc, List.singleton_append]
      unfold two64 at h64
      rw [ih (n / 10) _ (by omega) (by omega) (by unfold two64; omega)]
      rw [parseUintLoop]
      have h1 : (48 ≤ 48 + n % 10 ∧ 48 + n % 10 ≤ 57) := by omega
      have h2 : ¬ (n / 10 ≥ cutoff10) := by unfold cutoff10; omega
      have h3 : n / 10 * 10 + (48 + n % 10 - 48) = n := by omega
      have h4 : ¬ (n ≥ two64 ∨ n > M) := by unfold two64; omega
      simp only [h1, h2, h3, h4, and_self, if_true, if_false]

theorem digitsVal_digitsRev (fuel n : Nat) (hf : n < fuel) :
    Vegeta.Spec.Layout.digitsVal (digitsRev fuel n).reverse = n := by
  induction fuel generalizing n with
  | zero => omega
  | succ fuel ih =>
    unfold digitsRev
    split
    · simp [Vegeta.Spec.Layout.digitsVal]
    · have := ih (n / 10) (by omega)
      unfold Vegeta.Spec.Layout.digitsVal at this ⊢
      simp only [List.reverse_cons, List.foldl_append, List.foldl_cons, List.foldl_nil, this]
      omega

/-! ### shape of the formatted text -/

theorem fmtNat_digits (n : Nat) : ∀ c ∈ fmtNat n, 48 ≤ c ∧ c ≤ 57 := by
  intro c hc
  unfold fmtNat at hc
  exact digitsRev_digits _ _ c (List.mem_reverse.mp hc)

theorem fmtNat_ne_nil (n : Nat) : fmtNat n ≠ [] := by
  unfold fmtNat
  intro h
  exact digitsRev_ne_nil n n (List.reverse_eq_nil_iff.mp h)

theorem fmtInt_ne_nil (i : Int) : fmtInt i ≠ [] := by
  unfold fmtInt
  split
  · simp
  · exact fmtNat_ne_nil _

theorem fmtInt_chars (i : Int) : ∀ c ∈ fmtInt i, c = 45 ∨ (48 ≤ c ∧ c ≤ 57) := by
  intro c hc
  unfold fmtInt at hc
  split at hc
  · simp only [List.mem_cons] at hc
    rcases hc with hc | hc
    · exact Or.inl hc
    · exact Or.inr (fmtNat_digits _ c hc)
  · exact Or.inr (fmtNat_digits _ c hc)

/-- first byte is a digit and all later bytes are digits -/
theorem fmtNat_cons (n : Nat) :
    ∃ d r, fmtNat n = d :: r ∧ (48 ≤ d ∧ d ≤ 57) ∧ ∀ c ∈ r, 48 ≤ c ∧ c ≤ 57 := by
  have hd := fmtNat_digits n
  have hn := fmtNat_ne_nil n
  cases h : fmtNat n with
  | nil => exact absurd h hn
  | cons d r =>
    rw [h] at hd
    exact ⟨d, r, rfl, hd d (by simp), fun c hc => hd c (by simp [hc])⟩

/-- first byte is a digit (or '-' for a negative number) and all later bytes are digits -/
theorem fmtInt_cons (i : Int) :
    ∃ d r, fmtInt i = d :: r ∧ (d = 45 ∨ (48 ≤ d ∧ d ≤ 57)) ∧ ∀ c ∈ r, 48 ≤ c ∧ c ≤ 57 := by
  unfold fmtInt
  split
  · exact ⟨45, fmtNat i.natAbs, rfl, Or.inl rfl, fmtNat_digits _⟩
  · obtain ⟨d, r, h, hd, hr⟩ := fmtNat_cons i.natAbs
    exact ⟨d, r, h, Or.inr hd, hr⟩

/-! ### round trips -/

theorem two_pow_64 : (2 : Nat) ^ 64 = 18446744073709551616 := by decide

/-- strconv.ParseUint ∘ strconv.FormatUint = id -/
theorem parseUint_fmtNat (bits n : Nat) (hb : bits ≤ 64) (h : n < 2 ^ bits) :
    parseUint bits (fmtNat n) = .ok n := by
  have hp : 2 ^ bits ≤ 2 ^ 64 := Nat.pow_le_pow_right (by decide) hb
  rw [two_pow_64] at hp
  unfold parseUint
  have hne : (fmtNat n).isEmpty = false := by
    have := fmtNat_ne_nil n
    cases hh : fmtNat n with
    | nil => exact absurd hh this
    | cons _ _ => rfl
  rw [hne]
  simp only [Bool.false_eq_true, if_false]
  have := parseUintLoop_digitsRev (2 ^ bits - 1) (n + 1) n [] (by omega) (by omega)
    (by unfold two64; omega)
  rw [List.append_nil] at this
  unfold fmtNat
  rw [this, parseUintLoop]

/-- strconv.ParseInt ∘ strconv.FormatInt = id on int64 -/
theorem parseInt_fmtInt (i : Int) (h : inS64 i) : parseInt 64 (fmtInt i) = .ok i := by
  unfold inS64 minInt64 maxInt64 at h
  have h63 : (2 : Nat) ^ (64 - 1) = 9223372036854775808 := by decide
  unfold fmtInt
  split
  · rename_i hneg
    unfold parseInt
    have hp := parseUint_fmtNat 64 i.natAbs (Nat.le_refl _) (by rw [two_pow_64]; omega)
    simp only [beq_self_eq_true, Bool.or_true, if_true, hp, h63]
    simp only [Bool.not_true, Bool.false_and, Bool.true_and, Bool.false_eq_true, if_false,
      decide_eq_true_eq]
    have : ¬ (i.natAbs > 9223372036854775808) := by omega
    simp only [this, if_false]
    congr 1
    omega
  · rename_i hnn
    obtain ⟨d, r, hdr, hd, _⟩ := fmtNat_cons i.natAbs
    have hp := parseUint_fmtNat 64 i.natAbs (Nat.le_refl _) (by rw [two_pow_64]; omega)
    rw [hdr] at hp ⊢
    unfold parseInt
    have h45 : (d == 45) = false := by
      rw [beq_eq_false_iff_ne]; omega
    have h43 : (d == 43) = false := by
      rw [beq_eq_false_iff_ne]; omega
    simp only [h45, h43, Bool.or_false, Bool.false_eq_true, if_false, hp, h63]
    simp only [Bool.not_false, Bool.true_and, Bool.false_and, Bool.false_eq_true, if_false,
      decide_eq_true_eq]
    have : ¬ (i.natAbs ≥ 9223372036854775808) := by omega
    simp only [this, if_false]
    congr 1
    omega

/-! ### the spec reader's plain decimal parser agrees -/

theorem specNat_fmtNat (n : Nat) : Vegeta.Spec.Layout.specNat (fmtNat n) = some n := by
  unfold Vegeta.Spec.Layout.specNat
  have hne : (fmtNat n).isEmpty = false := by
    have := fmtNat_ne_nil n
    cases hh : fmtNat n with
    | nil => exact absurd hh this
    | cons _ _ => rfl
  have hall : (fmtNat n).all isDigitB = true := by
    rw [List.all_eq_true]
    intro c hc
    have := fmtNat_digits n c hc
    unfold isDigitB
    simp [this.1, this.2]
  have hv : Vegeta.Spec.Layout.digitsVal (fmtNat n) = n := by
    unfold fmtNat
    exact digitsVal_digitsRev (n + 1) n (by omega)
  simp [hne, hall, hv]

theorem specInt_fmtInt (i : Int) : Vegeta.Spec.Layout.specInt (fmtInt i) = some i := by
  unfold fmtInt
  split
  · rename_i hneg
    unfold Vegeta.Spec.Layout.specInt
    simp only [specNat_fmtNat]
    show some (-((i.natAbs : Nat) : Int)) = some i
    congr 1
    omega
  · rename_i hnn
    obtain ⟨d, r, hdr, hd, _⟩ := fmtNat_cons i.natAbs
    have hs := specNat_fmtNat i.natAbs
    rw [hdr] at hs ⊢
    unfold Vegeta.Spec.Layout.specInt
    split
    · rename_i heq
      injection heq with h1 _
      omega
    · rw [hs]
      show some ((i.natAbs : Nat) : Int) = some i
      congr 1
      omega

/-! ### examples -/

example : fmtNat 0 = [48] := by decide
example : fmtNat 65535 = [54, 53, 53, 51, 53] := by decide
example : fmtInt (-120) = [45, 49, 50, 48] := by decide
example : parseUint 16 (fmtNat 65535) = .ok 65535 := by decide
example : parseUint 16 [54, 53, 53, 51, 54] = .error eRange := by decide
example : parseUint 16 [] = .error eSyntax := by decide
example : parseUint 64 [49, 95, 48] = .error eSyntax := by decide
example : parseInt 64 [45] = .error eSyntax := by decide
example : parseInt 64 (fmtInt minInt64) = .ok minInt64 := parseInt_fmtInt _ (by decide)
example : parseInt 64 (fmtInt maxInt64) = .ok maxInt64 := parseInt_fmtInt _ (by decide)

end Vegeta.Proofs.Codec
