/-
Inductive invariants of the attack transition system (Model/Attack.lean), proved for every
step and lifted to every reachable state: all interleavings, all worker counts, no depth bound.
-/
import Vegeta.Model.Attack
namespace Vegeta.Proofs.Attack
open Vegeta.Model.Attack

def afterCloseTicks : PC → Bool
  | .waitWG | .closeResults | .finalStop | .done => true
  | _ => false

def afterWait : PC → Bool
  | .closeResults | .finalStop | .done => true
  | _ => false

def afterCloseResults : PC → Bool
  | .finalStop | .done => true
  | _ => false

/-! ### list lemmas -/

theorem countP_modify {α} (p : α → Bool) (f : α → α) : ∀ (l : List α) (i : Nat) (a : α), l[i]? = some a →
    (l.modify i f).countP p + (if p a then 1 else 0) = l.countP p + (if p (f a) then 1 else 0) := by
  intro l
  induction l with
  | nil => intro i a h; simp at h
  | cons x xs ih =>
    intro i a h
    cases i with
    | zero =>
      simp at h; subst h
      simp [List.modify, List.countP_cons]; omega
    | succ i =>
      simp at h
      have := ih i a h
      simp [List.modify, List.countP_cons] at this ⊢; omega

theorem getElem?_modify' {α} (f : α → α) (l : List α) (i j : Nat) :
    (l.modify i f)[j]? = if i = j then l[j]?.map f else l[j]? := by
  rw [List.getElem?_modify]; split <;> simp_all

theorem countP_zero_all {α} (p : α → Bool) (l : List α) (h : l.countP p = 0) (i : Nat) (a : α)
    (ha : l[i]? = some a) : p a = false := by
  have hm : a ∈ l := List.mem_of_getElem? ha
  cases hp : p a with
  | false => rfl
  | true =>
    have : 0 < l.countP p := List.countP_pos_iff.mpr ⟨a, hm, hp⟩
    omega

/-! ### the core invariant (C02, C03) -/

macro "inv_close" : tactic => `(tactic| first
  | assumption
  | omega
  | (simp_all [csN, busyHits, afterCloseTicks, afterCloseResults, afterWait]; done)
  | (simp_all [csN, busyHits, afterCloseTicks, afterCloseResults, afterWait] <;> first | assumption | omega))


structure Core (s : St) : Prop where
  pop    : s.starting + s.idle + s.got + csN s + busyHits s + s.exited = s.nworkers
  maxw   : s.nworkers ≤ s.maxW
  tryS   : s.pc = .trySend → s.nworkers < s.maxW
  seqlen : s.seq = s.hits.length
  seqidx : ∀ (i : Nat) (h : Hit), s.hits[i]? = some h → h.seq = i
  cnt    : s.count = s.got + csN s + s.seq
  tc     : s.ticksClosed = afterCloseTicks s.pc
  rc     : s.resultsClosed = afterCloseResults s.pc
  ex     : afterWait s.pc = true → s.exited = s.nworkers
  np     : s.panicked = false
  blk    : s.pc = .blockSend → s.maxW ≤ s.nworkers ∨ 1 ≤ s.starting + s.idle
  exz    : s.ticksClosed = false → s.exited = 0

theorem core_init (w m d : Nat) : Core (init w m d) := by
  constructor <;> simp [init, csN, busyHits, afterCloseTicks, afterCloseResults, afterWait]
  · split <;> omega

theorem doStop_fields (s : St) :
    (doStop s).pc = s.pc ∧ (doStop s).count = s.count ∧ (doStop s).nworkers = s.nworkers ∧
    (doStop s).starting = s.starting ∧ (doStop s).idle = s.idle ∧ (doStop s).got = s.got ∧
    (doStop s).cs = s.cs ∧ (doStop s).exited = s.exited ∧ (doStop s).seq = s.seq ∧
    (doStop s).hits = s.hits ∧ (doStop s).ticksClosed = s.ticksClosed ∧
    (doStop s).resultsClosed = s.resultsClosed ∧ (doStop s).panicked = s.panicked ∧
    (doStop s).maxW = s.maxW ∧ (doStop s).now = s.now ∧ (doStop s).delivered = s.delivered ∧
    (doStop s).du = s.du ∧ (doStop s).wakeAt = s.wakeAt ∧ (doStop s).paceLog = s.paceLog ∧
    (doStop s).releases = s.releases := by
  unfold doStop; split <;> simp

theorem busy_modify_same (s : St) (i : Nat) (h : Hit) (f : Hit → Hit) (hi : s.hits[i]? = some h)
    (hp : (h.phase ≠ .delivered) = ((f h).phase ≠ .delivered)) :
    (setHit s.hits i f).countP (fun h => h.phase ≠ .delivered) = busyHits s := by
  have := countP_modify (fun h : Hit => decide (h.phase ≠ .delivered)) f s.hits i h hi
  unfold busyHits setHit
  simp only [decide_not, ne_eq] at this hp ⊢
  by_cases hd : h.phase = .delivered
  · have : (f h).phase = .delivered := by simpa [hd] using hp
    simp_all
  · have : ¬ (f h).phase = .delivered := by simpa [hd] using hp
    simp_all

theorem seqidx_modify (hs : List Hit) (i : Nat) (f : Hit → Hit) (hf : ∀ h, (f h).seq = h.seq)
    (hidx : ∀ (j : Nat) (h : Hit), hs[j]? = some h → h.seq = j) : ∀ (j : Nat) (h : Hit), (setHit hs i f)[j]? = some h → h.seq = j := by
  intro j h hj
  unfold setHit at hj
  rw [getElem?_modify'] at hj
  split at hj
  · cases hg : hs[j]? with
    | none => simp [hg] at hj
    | some a => simp [hg] at hj; subst hj; rw [hf]; exact hidx j a hg
  · exact hidx j h hj

theorem core_step (s s' : St) (l : Lbl) (hc : Core s) (hs : step s l = some s') : Core s' := by
  obtain ⟨pop, maxw, tryS, seqlen, seqidx, cnt, tc, rc, ex, np, blk, exz⟩ := hc
  cases l with
  | advance d => simp [step] at hs; subst hs; constructor <;> dsimp only [csN, busyHits] <;> inv_close
  | deadline =>
    simp only [step] at hs; split at hs <;> simp at hs; subst hs
    constructor <;> dsimp only [csN, busyHits] <;> inv_close
  | paceStop =>
    simp only [step] at hs; split at hs <;> simp at hs; subst hs
    constructor <;> dsimp only [csN, busyHits] <;> inv_close
  | paceWait w =>
    simp only [step] at hs; split at hs <;> simp at hs; subst hs
    constructor <;> dsimp only [csN, busyHits] <;> inv_close
  | wake =>
    simp only [step] at hs; split at hs <;> simp at hs; subst hs
    rename_i hg
    by_cases hlt : s.nworkers < s.maxW
    · constructor <;> simp only [csN, busyHits, hlt, ↓reduceIte] <;> inv_close
    · constructor <;> simp only [csN, busyHits, hlt, ↓reduceIte] <;> first
        | inv_close
        | (intro _; left; omega)
  | tick =>
    simp only [step] at hs; split at hs <;> simp at hs; subst hs
    rename_i hg
    rcases hg.1 with hp | hp <;> constructor <;> dsimp only [csN, busyHits] <;> inv_close
  | seeStop =>
    simp only [step] at hs; split at hs <;> simp at hs; subst hs
    rename_i hg
    rcases hg.1 with hp | hp <;> constructor <;> dsimp only [csN, busyHits] <;> inv_close
  | spawn =>
    simp only [step] at hs; split at hs <;> simp at hs; subst hs
    rename_i hg
    have := tryS hg.1
    constructor <;> dsimp only [csN, busyHits] <;> inv_close
  | closeTicks =>
    simp only [step] at hs; split at hs <;> simp at hs; subst hs
    constructor <;> dsimp only [csN, busyHits] <;> inv_close
  | wgDone =>
    simp only [step] at hs; split at hs <;> simp at hs; subst hs
    constructor <;> dsimp only [csN, busyHits] <;> inv_close
  | closeResults =>
    simp only [step] at hs; split at hs <;> simp at hs; subst hs
    constructor <;> dsimp only [csN, busyHits] <;> inv_close
  | finalStop =>
    simp only [step] at hs; split at hs <;> simp at hs; subst hs
    have hf := doStop_fields s
    constructor <;> dsimp only [csN, busyHits] <;> inv_close
  | ready =>
    simp only [step] at hs; split at hs <;> simp at hs; subst hs
    constructor <;> dsimp only [csN, busyHits] <;> inv_close
  | exit =>
    simp only [step] at hs; split at hs <;> simp at hs; subst hs
    rename_i hg
    have hpc : afterCloseTicks s.pc = true := by rw [← tc]; exact hg.2
    have hnt : s.pc ≠ .trySend := by intro h; rw [h] at hpc; simp [afterCloseTicks] at hpc
    have hnb : s.pc ≠ .blockSend := by intro h; rw [h] at hpc; simp [afterCloseTicks] at hpc
    have hex : afterWait s.pc = true → False := by
      intro h; have := ex h; simp only [csN, busyHits] at pop; omega
    constructor <;> dsimp only [csN, busyHits] <;> first | inv_close | (intro h; exact absurd h hnt) | (intro h; exact absurd h hnb) | (intro h; exact (hex h).elim)
  | csEnter =>
    simp only [step] at hs; split at hs <;> simp at hs; subst hs
    rename_i hg
    constructor <;> dsimp only [csN, busyHits] <;> inv_close
  | csLeave =>
    simp only [step] at hs
    split at hs
    · rename_i t hcs
      simp at hs; subst hs
      constructor <;> dsimp only [csN, busyHits] <;> first
        | (simp_all [csN, busyHits, List.countP_append] <;> omega)
        | inv_close
        | skip
      · intro i h hi
        rw [List.getElem?_append] at hi
        split at hi
        · exact seqidx i h hi
        · rename_i hlt
          have : i - s.hits.length = 0 := by
            cases hk : i - s.hits.length with
            | zero => rfl
            | succ k => rw [hk] at hi; simp at hi
          rw [this] at hi; simp at hi; subst hi; simp; omega
    · simp at hs
  | tgtErr i =>
    simp only [step] at hs
    split at hs
    · rename_i h hi
      split at hs <;> simp at hs; subst hs
      rename_i hg
      have hb := busy_modify_same s i h (fun h => { h with phase := .stopping, tgtErr := true }) hi (by simp [hg.1])
      have hsi := seqidx_modify s.hits i (fun h => { h with phase := .stopping, tgtErr := true }) (by intro h; rfl) seqidx
      have hl : (setHit s.hits i (fun h => { h with phase := .stopping, tgtErr := true })).length = s.hits.length := by simp [setHit]
      constructor <;> dsimp only [csN, busyHits] <;> first | (rw [hb]; inv_close) | (rw [hl]; inv_close) | inv_close
    · simp at hs
  | stopRet i =>
    simp only [step] at hs
    split at hs
    · rename_i h hi
      split at hs <;> simp at hs; subst hs
      rename_i hg
      have hf := doStop_fields s
      have hb := busy_modify_same s i h (fun h => { h with phase := .sending, fin := some s.now }) hi (by simp [hg])
      have hsi := seqidx_modify s.hits i (fun h => { h with phase := .sending, fin := some s.now }) (by intro h; rfl) seqidx
      have hl : (setHit s.hits i (fun h => { h with phase := .sending, fin := some s.now })).length = s.hits.length := by simp [setHit]
      obtain ⟨f1, f2, f3, f4, f5, f6, f7, f8, f9, f10, f11, f12, f13, f14, f15, f16, f17, f18, f19, f20⟩ := hf
      constructor <;> dsimp only [csN, busyHits] <;> simp only [f1, f2, f3, f4, f5, f6, f7, f8, f9, f10, f11, f12, f13, f14] <;>
        first | (rw [hb]; inv_close) | (rw [hl]; inv_close) | inv_close
    · simp at hs
  | enter i =>
    simp only [step] at hs
    split at hs
    · rename_i h hi
      split at hs <;> simp at hs; subst hs
      rename_i hg
      have hb := busy_modify_same s i h (fun h => { h with entered := some s.now }) hi (by simp)
      have hsi := seqidx_modify s.hits i (fun h => { h with entered := some s.now }) (by intro h; rfl) seqidx
      have hl : (setHit s.hits i (fun h => { h with entered := some s.now })).length = s.hits.length := by simp [setHit]
      constructor <;> dsimp only [csN, busyHits] <;> first | (rw [hb]; inv_close) | (rw [hl]; inv_close) | inv_close
    · simp at hs
  | leave i =>
    simp only [step] at hs
    split at hs
    · rename_i h hi
      split at hs <;> simp at hs; subst hs
      rename_i hg
      have hb := busy_modify_same s i h (fun h => { h with left := some s.now }) hi (by simp)
      have hsi := seqidx_modify s.hits i (fun h => { h with left := some s.now }) (by intro h; rfl) seqidx
      have hl : (setHit s.hits i (fun h => { h with left := some s.now })).length = s.hits.length := by simp [setHit]
      constructor <;> dsimp only [csN, busyHits] <;> first | (rw [hb]; inv_close) | (rw [hl]; inv_close) | inv_close
    · simp at hs
  | finish i =>
    simp only [step] at hs
    split at hs
    · rename_i h hi
      split at hs <;> simp at hs; subst hs
      rename_i hg
      have hb := busy_modify_same s i h (fun h => { h with phase := .sending, fin := some s.now }) hi (by simp [hg.1])
      have hsi := seqidx_modify s.hits i (fun h => { h with phase := .sending, fin := some s.now }) (by intro h; rfl) seqidx
      have hl : (setHit s.hits i (fun h => { h with phase := .sending, fin := some s.now })).length = s.hits.length := by simp [setHit]
      constructor <;> dsimp only [csN, busyHits] <;> first | (rw [hb]; inv_close) | (rw [hl]; inv_close) | inv_close
    · simp at hs
  | deliver i =>
    simp only [step] at hs
    split at hs
    · rename_i h hi
      split at hs
      · rename_i hg
        -- a hit in phase `sending` exists, so some worker is busy, so results cannot be closed
        have hbusy : 0 < busyHits s := by
          unfold busyHits
          exact List.countP_pos_iff.mpr ⟨h, List.mem_of_getElem? hi, by simp [hg]⟩
        have hnaw : afterWait s.pc = true → False := by
          intro haw; have := ex haw; omega
        split at hs
        · rename_i hrc
          exfalso
          rw [rc] at hrc
          apply hnaw
          cases hp : s.pc <;> simp_all [afterCloseResults, afterWait]
        · simp at hs; subst hs
          have hm := countP_modify (fun h : Hit => decide (h.phase ≠ .delivered)) (fun h => { h with phase := .delivered }) s.hits i h hi
          simp [hg] at hm
          have hsi := seqidx_modify s.hits i (fun h => { h with phase := .delivered }) (by intro h; rfl) seqidx
          have hl : (setHit s.hits i (fun h => { h with phase := .delivered })).length = s.hits.length := by simp [setHit]
          unfold busyHits at pop hbusy
          simp only [ne_eq, decide_not] at pop hbusy
          constructor <;> dsimp only [csN, busyHits, setHit] <;> first
            | (simp only [ne_eq, decide_not]; simp only [csN] at pop; omega)
            | (rw [hl]; inv_close)
            | (intro haw; exact (hnaw haw).elim)
            | (intro hb; rcases blk hb with h | h
               · left; exact h
               · right; omega)
            | inv_close
      · simp at hs
    · simp at hs
  | stop =>
    simp only [step] at hs; simp at hs; subst hs
    obtain ⟨f1, f2, f3, f4, f5, f6, f7, f8, f9, f10, f11, f12, f13, f14, f15, f16, f17, f18, f19, f20⟩ := doStop_fields s
    constructor <;> simp only [csN, busyHits, f1, f2, f3, f4, f5, f6, f7, f8, f9, f10, f11, f12, f13, f14] <;> inv_close

theorem core_reachable {w m d : Nat} {s : St} (h : Reachable w m d s) : Core s := by
  induction h with
  | init => exact core_init w m d
  | step l _ hs ih => exact core_step _ _ l ih hs

/-! ### delivery log and Stop return values (C02) -/

def isDel (hs : List Hit) (i : Nat) : Prop := ∃ h, hs[i]? = some h ∧ h.phase = .delivered

structure Deliv (s : St) : Prop where
  nodup : s.delivered.Nodup
  mem   : ∀ i, i ∈ s.delivered ↔ isDel s.hits i
  stop1 : (s.stopReturns.count true) = if s.stopClosed then 1 else 0
  stopc : s.stopReturns ≠ [] → s.stopClosed = true

theorem isDel_modify_ne (hs : List Hit) (i : Nat) (a : Hit) (f : Hit → Hit) (hi : hs[i]? = some a)
    (h1 : a.phase ≠ .delivered) (h2 : (f a).phase ≠ .delivered) (j : Nat) :
    isDel (setHit hs i f) j ↔ isDel hs j := by
  unfold isDel setHit
  rw [getElem?_modify']
  by_cases hij : i = j
  · subst hij
    simp only [↓reduceIte, hi, Option.map_some, Option.some.injEq, exists_eq_left']
    constructor
    · intro hp; exact absurd hp h2
    · intro hp; exact absurd hp h1
  · simp [hij]

theorem isDel_append (hs : List Hit) (h : Hit) (hp : h.phase ≠ .delivered) (j : Nat) :
    isDel (hs ++ [h]) j ↔ isDel hs j := by
  unfold isDel
  rw [List.getElem?_append]
  split
  · rfl
  · rename_i hlt
    constructor
    · rintro ⟨h', he, hp'⟩
      cases hk : j - hs.length with
      | zero => rw [hk] at he; simp at he; subst he; exact absurd hp' hp
      | succ k => rw [hk] at he; simp at he
    · rintro ⟨h', he, _⟩
      have : hs[j]? = none := List.getElem?_eq_none (by omega)
      rw [this] at he; cases he

theorem doStop_deliv (s : St) :
    ((doStop s).stopReturns.count true = if (doStop s).stopClosed then 1 else 0) ↔
    (s.stopReturns.count true = if s.stopClosed then 1 else 0) := by
  unfold doStop
  by_cases h : s.stopClosed <;> simp [h]

theorem deliv_init (w m d : Nat) : Deliv (init w m d) := by
  constructor <;> simp [init, isDel]

theorem deliv_step (s s' : St) (l : Lbl) (hc : Deliv s) (hs : step s l = some s') : Deliv s' := by
  obtain ⟨nodup, mem, stop1, stopc⟩ := hc
  have hstopc : (doStop s).stopReturns ≠ [] → (doStop s).stopClosed = true := by
    unfold doStop; split <;> simp_all
  cases l with
  | advance d => simp [step] at hs; subst hs; exact ⟨nodup, mem, stop1, stopc⟩
  | deadline => simp only [step] at hs; split at hs <;> simp at hs; subst hs; exact ⟨nodup, mem, stop1, stopc⟩
  | paceStop => simp only [step] at hs; split at hs <;> simp at hs; subst hs; exact ⟨nodup, mem, stop1, stopc⟩
  | paceWait w => simp only [step] at hs; split at hs <;> simp at hs; subst hs; exact ⟨nodup, mem, stop1, stopc⟩
  | wake => simp only [step] at hs; split at hs <;> simp at hs; subst hs; exact ⟨nodup, mem, stop1, stopc⟩
  | tick => simp only [step] at hs; split at hs <;> simp at hs; subst hs; exact ⟨nodup, mem, stop1, stopc⟩
  | seeStop => simp only [step] at hs; split at hs <;> simp at hs; subst hs; exact ⟨nodup, mem, stop1, stopc⟩
  | spawn => simp only [step] at hs; split at hs <;> simp at hs; subst hs; exact ⟨nodup, mem, stop1, stopc⟩
  | closeTicks => simp only [step] at hs; split at hs <;> simp at hs; subst hs; exact ⟨nodup, mem, stop1, stopc⟩
  | wgDone => simp only [step] at hs; split at hs <;> simp at hs; subst hs; exact ⟨nodup, mem, stop1, stopc⟩
  | closeResults => simp only [step] at hs; split at hs <;> simp at hs; subst hs; exact ⟨nodup, mem, stop1, stopc⟩
  | finalStop =>
    simp only [step] at hs; split at hs <;> simp at hs; subst hs
    obtain ⟨f1, f2, f3, f4, f5, f6, f7, f8, f9, f10, f11, f12, f13, f14, f15, f16, f17, f18, f19, f20⟩ := doStop_fields s
    refine ⟨by simpa [f16] using nodup, by simpa [f16, f10] using mem, (doStop_deliv s).mpr stop1, hstopc⟩
  | ready => simp only [step] at hs; split at hs <;> simp at hs; subst hs; exact ⟨nodup, mem, stop1, stopc⟩
  | exit => simp only [step] at hs; split at hs <;> simp at hs; subst hs; exact ⟨nodup, mem, stop1, stopc⟩
  | csEnter => simp only [step] at hs; split at hs <;> simp at hs; subst hs; exact ⟨nodup, mem, stop1, stopc⟩
  | csLeave =>
    simp only [step] at hs
    split at hs
    · simp at hs; subst hs
      refine ⟨nodup, ?_, stop1, stopc⟩
      intro i; rw [mem i]; exact (isDel_append _ _ (by simp) i).symm
    · simp at hs
  | tgtErr i =>
    simp only [step] at hs
    split at hs
    · rename_i h hi
      split at hs <;> simp at hs; subst hs
      rename_i hg
      refine ⟨nodup, ?_, stop1, stopc⟩
      intro j; rw [mem j]; exact (isDel_modify_ne _ _ h _ hi (by simp [hg.1]) (by simp) j).symm
    · simp at hs
  | stopRet i =>
    simp only [step] at hs
    split at hs
    · rename_i h hi
      split at hs <;> simp at hs; subst hs
      rename_i hg
      obtain ⟨f1, f2, f3, f4, f5, f6, f7, f8, f9, f10, f11, f12, f13, f14, f15, f16, f17, f18, f19, f20⟩ := doStop_fields s
      refine ⟨by simpa [f16] using nodup, ?_, (doStop_deliv s).mpr stop1, hstopc⟩
      intro j; simp only [f16, f10]; rw [mem j]; exact (isDel_modify_ne _ _ h _ hi (by simp [hg]) (by simp) j).symm
    · simp at hs
  | enter i =>
    simp only [step] at hs
    split at hs
    · rename_i h hi
      split at hs <;> simp at hs; subst hs
      rename_i hg
      refine ⟨nodup, ?_, stop1, stopc⟩
      intro j; rw [mem j]; exact (isDel_modify_ne _ _ h _ hi (by simp [hg.1]) (by simp [hg.1]) j).symm
    · simp at hs
  | leave i =>
    simp only [step] at hs
    split at hs
    · rename_i h hi
      split at hs <;> simp at hs; subst hs
      rename_i hg
      refine ⟨nodup, ?_, stop1, stopc⟩
      intro j; rw [mem j]; exact (isDel_modify_ne _ _ h _ hi (by simp [hg.1]) (by simp [hg.1]) j).symm
    · simp at hs
  | finish i =>
    simp only [step] at hs
    split at hs
    · rename_i h hi
      split at hs <;> simp at hs; subst hs
      rename_i hg
      refine ⟨nodup, ?_, stop1, stopc⟩
      intro j; rw [mem j]; exact (isDel_modify_ne _ _ h _ hi (by simp [hg.1]) (by simp) j).symm
    · simp at hs
  | deliver i =>
    simp only [step] at hs
    split at hs
    · rename_i h hi
      split at hs
      · rename_i hg
        split at hs
        · simp at hs; subst hs; exact ⟨nodup, mem, stop1, stopc⟩
        · simp at hs; subst hs
          have hni : i ∉ s.delivered := by
            rw [mem i]; rintro ⟨h', he, hp⟩
            rw [hi] at he; cases he; rw [hg] at hp; cases hp
          refine ⟨List.nodup_cons.mpr ⟨hni, nodup⟩, ?_, stop1, stopc⟩
          intro j
          unfold isDel setHit
          rw [getElem?_modify']
          by_cases hij : i = j
          · subst hij; simp [hi]
          · simp only [hij, ↓reduceIte, List.mem_cons]
            rw [mem j]; unfold isDel
            constructor
            · rintro (h | h)
              · exact absurd h.symm hij
              · exact h
            · intro h; exact Or.inr h
      · simp at hs
    · simp at hs
  | stop =>
    simp only [step] at hs; simp at hs; subst hs
    obtain ⟨f1, f2, f3, f4, f5, f6, f7, f8, f9, f10, f11, f12, f13, f14, f15, f16, f17, f18, f19, f20⟩ := doStop_fields s
    refine ⟨by simpa [f16] using nodup, by simpa [f16, f10] using mem, (doStop_deliv s).mpr stop1, hstopc⟩

theorem deliv_reachable {w m d : Nat} {s : St} (h : Reachable w m d s) : Deliv s := by
  induction h with
  | init => exact deliv_init w m d
  | step l _ hs ih => exact deliv_step _ _ l ih hs

/-! ### clock invariants (C05, C04) -/

/-- the instant the next sequence number's timestamp will carry -/
def clk (s : St) : Nat := match s.cs with | some t => t | none => s.now

def HitOK (now : Nat) (h : Hit) : Prop :=
  h.ts ≤ now ∧
  (∀ e, h.entered = some e → h.ts ≤ e ∧ e ≤ now) ∧
  (∀ l, h.left = some l → ∃ e, h.entered = some e ∧ e ≤ l ∧ l ≤ now) ∧
  (∀ f, h.fin = some f → h.ts ≤ f ∧ f ≤ now ∧ (∀ e, h.entered = some e → ∃ l, h.left = some l ∧ l ≤ f)) ∧
  (h.phase = .hitting → h.fin = none) ∧
  (h.phase = .stopping → h.entered = none ∧ h.fin = none) ∧
  ((h.phase = .sending ∨ h.phase = .delivered) → h.fin ≠ none)

structure Times (s : St) : Prop where
  csle   : ∀ t, s.cs = some t → t ≤ s.now
  tsle   : ∀ h ∈ s.hits, h.ts ≤ clk s
  sorted : (s.hits.map (·.ts)).Pairwise (· ≤ ·)
  hit    : ∀ h ∈ s.hits, HitOK s.now h

theorem hitOK_mono {n m : Nat} {h : Hit} (hnm : n ≤ m) (hk : HitOK n h) : HitOK m h := by
  obtain ⟨a, b, c, d, e, f, g⟩ := hk
  refine ⟨by omega, ?_, ?_, ?_, e, f, g⟩
  · intro x hx; have := b x hx; omega
  · intro x hx; obtain ⟨y, hy, h1, h2⟩ := c x hx; exact ⟨y, hy, h1, by omega⟩
  · intro x hx; obtain ⟨h1, h2, h3⟩ := d x hx; exact ⟨h1, by omega, h3⟩

theorem mem_modify {α} (f : α → α) (l : List α) (i : Nat) (x : α) (hx : x ∈ l.modify i f) :
    x ∈ l ∨ ∃ a, l[i]? = some a ∧ x = f a := by
  obtain ⟨j, hj⟩ := List.getElem?_of_mem hx
  rw [getElem?_modify'] at hj
  split at hj
  · rename_i hij; subst hij
    cases hg : l[i]? with
    | none => simp [hg] at hj
    | some a => simp [hg] at hj; exact Or.inr ⟨a, rfl, hj.symm⟩
  · exact Or.inl (List.mem_of_getElem? hj)

theorem map_ts_modify (l : List Hit) (i : Nat) (f : Hit → Hit) (hf : ∀ h, (f h).ts = h.ts) :
    (l.modify i f).map (·.ts) = l.map (·.ts) := by
  apply List.ext_getElem?
  intro j
  simp only [List.getElem?_map, getElem?_modify']
  split
  · cases l[j]? <;> simp [hf]
  · rfl

theorem times_modify (s : St) (i : Nat) (a : Hit) (f : Hit → Hit) (ht : Times s) (hi : s.hits[i]? = some a)
    (hf : ∀ h, (f h).ts = h.ts) (hok : HitOK s.now a → HitOK s.now (f a)) :
    Times { s with hits := setHit s.hits i f } := by
  obtain ⟨csle, tsle, sorted, hit⟩ := ht
  have ha : a ∈ s.hits := List.mem_of_getElem? hi
  refine ⟨csle, ?_, ?_, ?_⟩
  · intro h hh
    rcases mem_modify f s.hits i h hh with hm | ⟨b, hb, rfl⟩
    · exact tsle h hm
    · rw [hi] at hb; cases hb; rw [hf]; exact tsle a ha
  · show ((s.hits.modify i f).map (·.ts)).Pairwise (· ≤ ·)
    rw [map_ts_modify _ _ _ hf]; exact sorted
  · intro h hh
    rcases mem_modify f s.hits i h hh with hm | ⟨b, hb, rfl⟩
    · exact hit h hm
    · rw [hi] at hb; cases hb; exact hok (hit a ha)

theorem times_init (w m d : Nat) : Times (init w m d) := by
  constructor <;> simp [init]

theorem times_step (s s' : St) (l : Lbl) (hc : Times s) (hs : step s l = some s') : Times s' := by
  have hc' := hc
  obtain ⟨csle, tsle, sorted, hit⟩ := hc
  cases l with
  | advance d =>
    simp [step] at hs; subst hs
    refine ⟨by intro t ht; have := csle t ht; simp; omega, ?_, sorted, fun h hh => hitOK_mono (by simp) (hit h hh)⟩
    intro h hh; have := tsle h hh
    unfold clk at this ⊢; simp only []
    split <;> simp_all <;> omega
  | deadline => simp only [step] at hs; split at hs <;> simp at hs; subst hs; exact ⟨csle, tsle, sorted, hit⟩
  | paceStop => simp only [step] at hs; split at hs <;> simp at hs; subst hs; exact ⟨csle, tsle, sorted, hit⟩
  | paceWait w => simp only [step] at hs; split at hs <;> simp at hs; subst hs; exact ⟨csle, tsle, sorted, hit⟩
  | wake => simp only [step] at hs; split at hs <;> simp at hs; subst hs; exact ⟨csle, tsle, sorted, hit⟩
  | tick => simp only [step] at hs; split at hs <;> simp at hs; subst hs; exact ⟨csle, tsle, sorted, hit⟩
  | seeStop => simp only [step] at hs; split at hs <;> simp at hs; subst hs; exact ⟨csle, tsle, sorted, hit⟩
  | spawn => simp only [step] at hs; split at hs <;> simp at hs; subst hs; exact ⟨csle, tsle, sorted, hit⟩
  | closeTicks => simp only [step] at hs; split at hs <;> simp at hs; subst hs; exact ⟨csle, tsle, sorted, hit⟩
  | wgDone => simp only [step] at hs; split at hs <;> simp at hs; subst hs; exact ⟨csle, tsle, sorted, hit⟩
  | closeResults => simp only [step] at hs; split at hs <;> simp at hs; subst hs; exact ⟨csle, tsle, sorted, hit⟩
  | finalStop =>
    simp only [step] at hs; split at hs <;> simp at hs; subst hs
    obtain ⟨f1, f2, f3, f4, f5, f6, f7, f8, f9, f10, f11, f12, f13, f14, f15, f16, f17, f18, f19, f20⟩ := doStop_fields s
    exact ⟨by simpa [f7, f15] using csle, by simpa [clk, f7, f15, f10] using tsle, by simpa [f10] using sorted, by simpa [f10, f15] using hit⟩
  | ready => simp only [step] at hs; split at hs <;> simp at hs; subst hs; exact ⟨csle, tsle, sorted, hit⟩
  | exit => simp only [step] at hs; split at hs <;> simp at hs; subst hs; exact ⟨csle, tsle, sorted, hit⟩
  | csEnter =>
    simp only [step] at hs; split at hs <;> simp at hs; subst hs
    rename_i hg
    refine ⟨by intro t ht; simp at ht; simp; omega, ?_, sorted, hit⟩
    intro h hh; have := tsle h hh; simp [clk, hg.2] at this ⊢; exact this
  | csLeave =>
    simp only [step] at hs
    split at hs
    · rename_i t hcs
      simp at hs; subst hs
      have htn := csle t hcs
      refine ⟨by simp, ?_, ?_, ?_⟩
      · intro h hh
        simp only [List.mem_append, List.mem_singleton] at hh
        rcases hh with hh | rfl
        · have := tsle h hh; simp [clk, hcs] at this ⊢; omega
        · simp [clk]; exact htn
      · simp only [List.map_append, List.map_cons, List.map_nil]
        rw [List.pairwise_append]
        refine ⟨sorted, by simp, ?_⟩
        intro x hx y hy
        simp at hy; subst hy
        obtain ⟨h, hh, rfl⟩ := List.mem_map.mp hx
        have := tsle h hh; simpa [clk, hcs] using this
      · intro h hh
        simp only [List.mem_append, List.mem_singleton] at hh
        rcases hh with hh | rfl
        · exact hit h hh
        · simp [HitOK]; exact htn
    · simp at hs
  | tgtErr i =>
    simp only [step] at hs
    split at hs
    · rename_i h hi
      split at hs <;> simp at hs; subst hs
      rename_i hg
      apply times_modify s i h _ hc' hi (by intro h; rfl)
      rintro ⟨a, b, c, d, e, f, g⟩
      refine ⟨a, b, c, d, by simp, by simp; exact ⟨hg.2, e hg.1⟩, by simp⟩
    · simp at hs
  | stopRet i =>
    simp only [step] at hs
    split at hs
    · rename_i h hi
      split at hs <;> simp at hs; subst hs
      rename_i hg
      obtain ⟨f1, f2, f3, f4, f5, f6, f7, f8, f9, f10, f11, f12, f13, f14, f15, f16, f17, f18, f19, f20⟩ := doStop_fields s
      have := times_modify s i h (fun h => { h with phase := .sending, fin := some s.now }) hc' hi (by intro h; rfl) (by
        rintro ⟨a, b, c, d, e, f, g⟩
        have hen := (f hg).1
        refine ⟨a, b, c, ?_, by simp, by simp, by simp⟩
        intro x hx; simp at hx; subst hx
        exact ⟨a, Nat.le_refl _, by intro e he; simp at he; rw [hen] at he; cases he⟩)
      obtain ⟨t1, t2, t3, t4⟩ := this
      exact ⟨by simpa [f7, f15] using t1, by simpa [clk, f7, f15, f10] using t2, by simpa [f10] using t3, by simpa [f10, f15] using t4⟩
    · simp at hs
  | enter i =>
    simp only [step] at hs
    split at hs
    · rename_i h hi
      split at hs <;> simp at hs; subst hs
      rename_i hg
      apply times_modify s i h _ hc' hi (by intro h; rfl)
      rintro ⟨a, b, c, d, e, f, g⟩
      have hl : h.left = none := by
        cases hl : h.left with
        | none => rfl
        | some l => obtain ⟨e', he', _⟩ := c l hl; rw [hg.2] at he'; cases he'
      refine ⟨a, ?_, ?_, ?_, by simpa using e, by simp [hg.1], by simp [hg.1]⟩
      · intro x hx; simp at hx; subst hx; exact ⟨a, Nat.le_refl _⟩
      · intro x hx; simp at hx; rw [hl] at hx; cases hx
      · intro x hx; simp at hx; rw [e hg.1] at hx; cases hx
    · simp at hs
  | leave i =>
    simp only [step] at hs
    split at hs
    · rename_i h hi
      split at hs <;> simp at hs; subst hs
      rename_i hg
      apply times_modify s i h _ hc' hi (by intro h; rfl)
      rintro ⟨a, b, c, d, e, f, g⟩
      refine ⟨a, b, ?_, ?_, by simpa using e, by simp [hg.1], by simp [hg.1]⟩
      · intro x hx; simp at hx; subst hx
        cases he : h.entered with
        | none => exact absurd he hg.2.1
        | some e' => exact ⟨e', rfl, (b e' he).2, Nat.le_refl _⟩
      · intro x hx; simp at hx; rw [e hg.1] at hx; cases hx
    · simp at hs
  | finish i =>
    simp only [step] at hs
    split at hs
    · rename_i h hi
      split at hs <;> simp at hs; subst hs
      rename_i hg
      apply times_modify s i h _ hc' hi (by intro h; rfl)
      rintro ⟨a, b, c, d, e, f, g⟩
      refine ⟨a, b, c, ?_, by simp, by simp, by simp⟩
      intro x hx; simp at hx; subst hx
      refine ⟨a, Nat.le_refl _, ?_⟩
      intro e' he'
      simp only [] at he'
      rcases hg.2 with hn | hn
      · rw [hn] at he'; cases he'
      · cases hl : h.left with
        | none => exact absurd hl hn
        | some l => obtain ⟨_, _, _, h3⟩ := c l hl; exact ⟨l, rfl, h3⟩
    · simp at hs
  | deliver i =>
    simp only [step] at hs
    split at hs
    · rename_i h hi
      split at hs
      · rename_i hg
        split at hs
        · simp at hs; subst hs; exact ⟨csle, tsle, sorted, hit⟩
        · simp at hs; subst hs
          have := times_modify s i h (fun h => { h with phase := .delivered }) hc' hi (by intro h; rfl) (by
            rintro ⟨a, b, c, d, e, f, g⟩
            exact ⟨a, b, c, d, by simp, by simp, by simpa using g (Or.inl hg)⟩)
          obtain ⟨t1, t2, t3, t4⟩ := this
          exact ⟨t1, by simpa [clk] using t2, t3, t4⟩
      · simp at hs
    · simp at hs
  | stop =>
    simp only [step] at hs; simp at hs; subst hs
    obtain ⟨f1, f2, f3, f4, f5, f6, f7, f8, f9, f10, f11, f12, f13, f14, f15, f16, f17, f18, f19, f20⟩ := doStop_fields s
    exact ⟨by simpa [f7, f15] using csle, by simpa [clk, f7, f15, f10] using tsle, by simpa [f10] using sorted, by simpa [f10, f15] using hit⟩

theorem times_reachable {w m d : Nat} {s : St} (h : Reachable w m d s) : Times s := by
  induction h with
  | init => exact times_init w m d
  | step l _ hs ih => exact times_step _ _ l ih hs

/-! ### pacer-consultation invariants (C04) -/

def LogOK : List (Nat × Nat × Option Int) → Prop
  | [] => True
  | (e, c, _) :: rest => c = rest.length ∧ (∀ x ∈ rest, x.1 ≤ e) ∧ LogOK rest

def pending (pc : PC) : Prop := pc = .sleep ∨ pc = .trySend ∨ pc = .blockSend

instance (pc : PC) : Decidable (pending pc) := by unfold pending; infer_instance

structure Pace (s : St) : Prop where
  log      : LogOK s.paceLog
  lenle    : s.count ≤ s.paceLog.length ∧ s.paceLog.length ≤ s.count + 1
  atPace   : s.pc = .pace → s.paceLog.length = s.count
  pend     : pending s.pc → ∃ e w rest, s.paceLog = (e, s.count, some w) :: rest ∧
               (s.pc = .sleep → s.wakeAt = e + w.toNat) ∧ (s.pc ≠ .sleep → e + w.toNat ≤ s.now)
  elapsed  : ∀ x ∈ s.paceLog, x.1 ≤ s.now
  dead     : s.du > 0 → ∀ x ∈ s.paceLog, x.1 ≤ s.du
  rel      : s.releases.length = s.count
  relnow   : ∀ r ∈ s.releases, r ≤ s.now
  late1    : s.du > 0 → (s.releases.filter (fun r => decide (r > s.du))).length ≤ 1
  lateDone : s.du > 0 → (∃ r ∈ s.releases, r > s.du) → ¬ pending s.pc
  stopFin  : (∃ e c rest, s.paceLog = (e, c, none) :: rest) → s.pc = .closeTicks ∨ afterCloseTicks s.pc = true

theorem pace_init (w m d : Nat) : Pace (init w m d) := by
  constructor <;> simp [init, LogOK, pending]

theorem filter_none_of_forall (l : List Nat) (d : Nat) (h : ¬ ∃ r ∈ l, r > d) :
    (l.filter (fun r => decide (r > d))).length = 0 := by
  rw [List.length_eq_zero_iff, List.filter_eq_nil_iff]
  intro a ha; simp; exact Nat.le_of_not_lt (fun hh => h ⟨a, ha, hh⟩)

/-- steps that touch neither the main goroutine's control state, the clock nor the logs -/
theorem pace_frame (s s' : St) (hp : Pace s) (h1 : s'.pc = s.pc) (h2 : s'.count = s.count)
    (h3 : s'.paceLog = s.paceLog) (h4 : s'.releases = s.releases) (h5 : s'.now = s.now)
    (h6 : s'.du = s.du) (h7 : s'.wakeAt = s.wakeAt) : Pace s' := by
  obtain ⟨a, b, c, d, e, f, g, h, i, j, k⟩ := hp
  constructor <;> simp only [h1, h2, h3, h4, h5, h6, h7] <;> assumption

theorem pace_step (s s' : St) (l : Lbl) (hc : Pace s) (hs : step s l = some s') : Pace s' := by
  have hc' := hc
  obtain ⟨log, lenle, atPace, pend, elapsed, dead, rel, relnow, late1, lateDone, stopFin⟩ := hc
  cases l with
  | advance d =>
    simp [step] at hs; subst hs
    refine ⟨log, lenle, atPace, ?_, ?_, dead, rel, ?_, late1, lateDone, stopFin⟩
    · intro hp; obtain ⟨e, w, rest, h1, h2, h3⟩ := pend hp
      exact ⟨e, w, rest, h1, h2, fun hn => by have := h3 hn; simp; omega⟩
    · intro x hx; have := elapsed x hx; simp; omega
    · intro r hr; have := relnow r hr; simp; omega
  | deadline =>
    simp only [step] at hs; split at hs <;> simp at hs; subst hs
    rename_i hg
    refine ⟨log, lenle, by simp, by simp [pending], elapsed, dead, rel, relnow, late1, by simp [pending], by simp⟩
  | paceStop =>
    simp only [step] at hs; split at hs <;> simp at hs; subst hs
    rename_i hg
    have hl := atPace hg.1
    have hnd : ¬ (s.du > 0 ∧ s.now > s.du) := by
      have := hg.2; simp [pastDeadline] at this; intro ⟨a, b⟩; exact absurd (this a) (by omega)
    refine ⟨⟨by simp [hl], fun x hx => elapsed x hx, log⟩, by simp; omega, by simp, by simp [pending], ?_, ?_, rel, relnow, late1, by simp [pending], by simp⟩
    · intro x hx; simp at hx; rcases hx with rfl | hx
      · simp
      · exact elapsed x hx
    · intro hd x hx; dsimp only at hd; simp at hx; rcases hx with rfl | hx
      · simp; omega
      · exact dead hd x hx
  | paceWait w =>
    simp only [step] at hs; split at hs <;> simp at hs; subst hs
    rename_i hg
    have hl := atPace hg.1
    have hnd : ¬ (s.du > 0 ∧ s.now > s.du) := by
      have := hg.2; simp [pastDeadline] at this; intro ⟨a, b⟩; exact absurd (this a) (by omega)
    refine ⟨⟨by simp [hl], fun x hx => elapsed x hx, log⟩, by simp; omega, by simp, ?_, ?_, ?_, rel, relnow, late1, ?_, by simp⟩
    · intro _; exact ⟨s.now, w, s.paceLog, rfl, by simp, by simp⟩
    · intro x hx; simp at hx; rcases hx with rfl | hx
      · simp
      · exact elapsed x hx
    · intro hd x hx; dsimp only at hd; simp at hx; rcases hx with rfl | hx
      · simp; omega
      · exact dead hd x hx
    · intro hd ⟨r, hr, hlt⟩
      dsimp only at hd hr hlt
      have := relnow r hr
      exact absurd ⟨hd, by omega⟩ hnd
  | wake =>
    simp only [step] at hs; split at hs <;> simp at hs; subst hs
    rename_i hg
    obtain ⟨e, w, rest, h1, h2, h3⟩ := pend (Or.inl hg.1)
    have hw := h2 hg.1
    refine ⟨log, lenle, ?_, ?_, elapsed, dead, rel, relnow, late1, ?_, ?_⟩
    · intro h; split at h <;> cases h
    · intro _; refine ⟨e, w, rest, h1, ?_, ?_⟩
      · intro h; split at h <;> cases h
      · intro _; simp only []; omega
    · intro hd hr; exact absurd (Or.inl hg.1) (lateDone hd hr)
    · intro hh; rcases stopFin hh with h | h
      · rw [hg.1] at h; cases h
      · rw [hg.1] at h; simp [afterCloseTicks] at h
  | tick =>
    simp only [step] at hs; split at hs <;> simp at hs; subst hs
    rename_i hg
    have hpend : pending s.pc := by rcases hg.1 with h | h <;> simp [pending, h]
    obtain ⟨e, w, rest, h1, h2, h3⟩ := pend hpend
    have hlen : s.paceLog.length = s.count + 1 := by
      have := log; rw [h1] at this; simp [LogOK] at this; rw [h1]; simp; omega
    refine ⟨log, by simp; omega, by simp; omega, by simp [pending], elapsed, dead, by simp [rel], ?_, ?_, by simp [pending], ?_⟩
    · intro r hr; simp at hr; rcases hr with rfl | hr
      · exact Nat.le_refl _
      · exact relnow r hr
    · intro hd
      by_cases hex : ∃ r ∈ s.releases, r > s.du
      · exact absurd hpend (lateDone hd hex)
      · have h0 := filter_none_of_forall s.releases s.du hex
        simp only [List.filter_cons]
        split <;> simp [h0]
    · intro hh; rcases stopFin hh with h | h
      · rcases hg.1 with h' | h' <;> rw [h'] at h <;> cases h
      · rcases hg.1 with h' | h' <;> rw [h'] at h <;> simp [afterCloseTicks] at h
  | seeStop =>
    simp only [step] at hs; split at hs <;> simp at hs; subst hs
    refine ⟨log, lenle, by simp, by simp [pending], elapsed, dead, rel, relnow, late1, by simp [pending], by simp⟩
  | spawn =>
    simp only [step] at hs; split at hs <;> simp at hs; subst hs
    rename_i hg
    obtain ⟨e, w, rest, h1, h2, h3⟩ := pend (Or.inr (Or.inl hg.1))
    refine ⟨log, lenle, by simp, ?_, elapsed, dead, rel, relnow, late1, ?_, ?_⟩
    · intro _; exact ⟨e, w, rest, h1, by simp, fun _ => h3 (by rw [hg.1]; simp)⟩
    · intro hd hr; exact absurd (Or.inr (Or.inl hg.1)) (lateDone hd hr)
    · intro hh; rcases stopFin hh with h | h
      · rw [hg.1] at h; cases h
      · rw [hg.1] at h; simp [afterCloseTicks] at h
  | closeTicks =>
    simp only [step] at hs; split at hs <;> simp at hs; subst hs
    refine ⟨log, lenle, by simp, by simp [pending], elapsed, dead, rel, relnow, late1, by simp [pending], by simp [afterCloseTicks]⟩
  | wgDone =>
    simp only [step] at hs; split at hs <;> simp at hs; subst hs
    refine ⟨log, lenle, by simp, by simp [pending], elapsed, dead, rel, relnow, late1, by simp [pending], by simp [afterCloseTicks]⟩
  | closeResults =>
    simp only [step] at hs; split at hs <;> simp at hs; subst hs
    refine ⟨log, lenle, by simp, by simp [pending], elapsed, dead, rel, relnow, late1, by simp [pending], by simp [afterCloseTicks]⟩
  | finalStop =>
    simp only [step] at hs; split at hs <;> simp at hs; subst hs
    obtain ⟨f1, f2, f3, f4, f5, f6, f7, f8, f9, f10, f11, f12, f13, f14, f15, f16, f17, f18, f19, f20⟩ := doStop_fields s
    constructor <;> simp only [f2, f15, f17, f18, f19, f20] <;> first | assumption | simp [pending, afterCloseTicks]
  | ready => simp only [step] at hs; split at hs <;> simp at hs; subst hs; exact pace_frame s _ hc' rfl rfl rfl rfl rfl rfl rfl
  | exit => simp only [step] at hs; split at hs <;> simp at hs; subst hs; exact pace_frame s _ hc' rfl rfl rfl rfl rfl rfl rfl
  | csEnter => simp only [step] at hs; split at hs <;> simp at hs; subst hs; exact pace_frame s _ hc' rfl rfl rfl rfl rfl rfl rfl
  | csLeave =>
    simp only [step] at hs
    split at hs
    · simp at hs; subst hs; exact pace_frame s _ hc' rfl rfl rfl rfl rfl rfl rfl
    · simp at hs
  | tgtErr i =>
    simp only [step] at hs
    split at hs
    · split at hs <;> simp at hs; subst hs; exact pace_frame s _ hc' rfl rfl rfl rfl rfl rfl rfl
    · simp at hs
  | stopRet i =>
    simp only [step] at hs
    split at hs
    · split at hs <;> simp at hs; subst hs
      obtain ⟨f1, f2, f3, f4, f5, f6, f7, f8, f9, f10, f11, f12, f13, f14, f15, f16, f17, f18, f19, f20⟩ := doStop_fields s
      exact pace_frame s _ hc' f1 f2 f19 f20 f15 f17 f18
    · simp at hs
  | enter i =>
    simp only [step] at hs
    split at hs
    · split at hs <;> simp at hs; subst hs; exact pace_frame s _ hc' rfl rfl rfl rfl rfl rfl rfl
    · simp at hs
  | leave i =>
    simp only [step] at hs
    split at hs
    · split at hs <;> simp at hs; subst hs; exact pace_frame s _ hc' rfl rfl rfl rfl rfl rfl rfl
    · simp at hs
  | finish i =>
    simp only [step] at hs
    split at hs
    · split at hs <;> simp at hs; subst hs; exact pace_frame s _ hc' rfl rfl rfl rfl rfl rfl rfl
    · simp at hs
  | deliver i =>
    simp only [step] at hs
    split at hs
    · split at hs
      · split at hs
        · simp at hs; subst hs; exact pace_frame s _ hc' rfl rfl rfl rfl rfl rfl rfl
        · simp at hs; subst hs; exact pace_frame s _ hc' rfl rfl rfl rfl rfl rfl rfl
      · simp at hs
    · simp at hs
  | stop =>
    simp only [step] at hs; simp at hs; subst hs
    obtain ⟨f1, f2, f3, f4, f5, f6, f7, f8, f9, f10, f11, f12, f13, f14, f15, f16, f17, f18, f19, f20⟩ := doStop_fields s
    exact pace_frame s _ hc' f1 f2 f19 f20 f15 f17 f18

theorem pace_reachable {w m d : Nat} {s : St} (h : Reachable w m d s) : Pace s := by
  induction h with
  | init => exact pace_init w m d
  | step l _ hs ih => exact pace_step _ _ l ih hs

/-! ### the deferred Stop has run in terminal states -/

theorem doStop_closed (s : St) : (doStop s).stopClosed = true := by
  unfold doStop; split <;> simp_all

theorem stop_mono_step (s s' : St) (l : Lbl) (hs : step s l = some s') :
    (s.stopClosed = true → s'.stopClosed = true) ∧ (s'.pc = .done → s.pc = .done ∨ s'.stopClosed = true) := by
  cases l <;> simp only [step] at hs <;> (repeat' split at hs) <;> simp at hs <;> subst hs <;>
    simp_all [doStop_closed, (doStop_fields s).1] <;> (try (unfold doStop; split <;> simp_all))

theorem done_stopped {w m d : Nat} {s : St} (h : Reachable w m d s) : s.pc = .done → s.stopClosed = true := by
  induction h with
  | init => intro h; simp [init] at h
  | step l _ hs ih =>
    intro hd
    obtain ⟨h1, h2⟩ := stop_mono_step _ _ l hs
    rcases h2 hd with h | h
    · exact h1 (ih h)
    · exact h

end Vegeta.Proofs.Attack
