/-
Proofs about the model of encoding/gob's message framing (`Vegeta.Model.GobFrame`):
the length prefix round-trips, one message is read back exactly, a proper prefix of a message is
`incomplete` (never a message, never malformed), and a stream of messages cut at an arbitrary byte
offset parses to exactly the messages lying wholly before the cut (**frame_prefix_safe**).
-/
import Vegeta.Model.GobFrame
namespace Vegeta.Proofs.GobFrame
open Vegeta.Go Vegeta.Model.GobFrame

/-- what a reader that follows the framing must see of a stream cut after `k` bytes: the frames that
lie wholly before the cut, then `eof` if the cut is exactly at a frame boundary, else `incomplete` -/
def cutFrames : List Bytes → Nat → List Bytes × FrameRes
  | [], _ => ([], .eof)
  | f :: fs, k =>
    if k = 0 then ([], .eof)
    else if k < (encodeFrame f).length then ([], .incomplete)
    else let q := cutFrames fs (k - (encodeFrame f).length); (f :: q.1, q.2)

/-! ### The big-endian length prefix -/

theorem beValue_snoc (xs : Bytes) (b : Nat) : beValue (xs ++ [b]) = beValue xs * 256 + b := by
  simp [beValue, List.foldl_append]

theorem beValue_beBytesF : ∀ (fuel n : Nat), n < fuel → beValue (beBytesF fuel n) = n := by
  intro fuel
  induction fuel with
  | zero => intro n h; omega
  | succ f ih =>
    intro n h
    unfold beBytesF
    split
    · subst_vars; rfl
    · rw [beValue_snoc, ih (n / 256) (by omega)]; omega

/-- the length prefix decodes to the length -/
theorem beValue_beBytes (n : Nat) : beValue (beBytes n) = n :=
  beValue_beBytesF (n + 1) n (by omega)

theorem beBytesF_length_le : ∀ (fuel n k : Nat), n < 256 ^ k → (beBytesF fuel n).length ≤ k := by
  intro fuel
  induction fuel with
  | zero => intro n k _; simp [beBytesF]
  | succ f ih =>
    intro n k h
    unfold beBytesF
    split
    · simp
    · rename_i hn
      cases k with
      | zero => simp at h; omega
      | succ k =>
        have : n / 256 < 256 ^ k := by
          rw [Nat.pow_succ] at h
          exact Nat.div_lt_of_lt_mul (by rw [Nat.mul_comm]; exact h)
        have := ih (n / 256) k this
        simp; omega

theorem beBytes_length_le (n : Nat) (h : n < 2 ^ 64) : (beBytes n).length ≤ 8 :=
  beBytesF_length_le (n + 1) n 8 (by
    have : (256 : Nat) ^ 8 = 2 ^ 64 := by decide
    omega)

theorem beBytes_length_pos (n : Nat) (h : 0 < n) : 0 < (beBytes n).length := by
  unfold beBytes beBytesF
  split
  · omega
  · simp

/-! ### One message -/

theorem tooBig_lt : tooBig < 2 ^ 64 := by decide

theorem encodeFrame_length_pos (p : Bytes) : 0 < (encodeFrame p).length := by
  unfold encodeFrame encodeUint
  split <;> simp

/-- shape of a long (≥ 128) count: the first byte and what it announces -/
theorem beBytes_len_bounds (n : Nat) (h128 : 128 ≤ n) (h : n < tooBig) :
    1 ≤ (beBytes n).length ∧ (beBytes n).length ≤ 8 :=
  ⟨beBytes_length_pos n (by omega), beBytes_length_le n (by have := tooBig_lt; omega)⟩

/-- one message: `recvMessage` reads back exactly the payload and stops exactly after it -/
theorem parseFrame_encodeFrame (p rest : Bytes) (h : p.length < tooBig) :
    parseFrame (encodeFrame p ++ rest) = .frame p rest := by
  unfold encodeFrame encodeUint
  split
  · rename_i hlt
    simp only [List.cons_append, List.nil_append, parseFrame]
    rw [if_pos (by omega)]
    simp [takePayload]
  · rename_i hge
    have ⟨h1, h8⟩ := beBytes_len_bounds p.length (by omega) h
    simp only [List.cons_append, parseFrame]
    rw [if_neg (by omega)]
    have e : 256 - (256 - (beBytes p.length).length) = (beBytes p.length).length := by omega
    simp only [e]
    rw [if_neg (by omega), if_neg (by simp)]
    have ht : List.take (beBytes p.length).length (beBytes p.length ++ p ++ rest) = beBytes p.length := by
      simp [List.append_assoc]
    have hd : List.drop (beBytes p.length).length (beBytes p.length ++ p ++ rest) = p ++ rest := by
      simp [List.append_assoc]
    rw [ht, hd, beValue_beBytes, if_neg (by omega)]
    simp [takePayload]

/-- a proper, non-empty prefix of one message is never a message and never malformed: it is `incomplete` -/
theorem parseFrame_prefix (p : Bytes) (h : p.length < tooBig) (k : Nat) (hk0 : 0 < k)
    (hk : k < (encodeFrame p).length) : parseFrame ((encodeFrame p).take k) = .incomplete := by
  obtain ⟨j, rfl⟩ : ∃ j, k = j + 1 := ⟨k - 1, by omega⟩
  revert hk
  unfold encodeFrame encodeUint
  split
  · rename_i hlt
    intro hk
    simp only [List.cons_append, List.nil_append, List.take_succ_cons, parseFrame]
    rw [if_pos (by omega)]
    simp at hk
    simp [takePayload]
    omega
  · rename_i hge
    intro hk
    have ⟨h1, h8⟩ := beBytes_len_bounds p.length (by omega) h
    simp only [List.cons_append, List.take_succ_cons, parseFrame]
    rw [if_neg (by omega)]
    have e : 256 - (256 - (beBytes p.length).length) = (beBytes p.length).length := by omega
    simp only [e]
    rw [if_neg (by omega)]
    simp at hk
    by_cases hj : j < (beBytes p.length).length
    · rw [if_pos (by simp; omega)]
    · rw [if_neg (by simp; omega)]
      have ht : List.take (beBytes p.length).length (List.take j (beBytes p.length ++ p)) = beBytes p.length := by
        rw [List.take_take, Nat.min_eq_left (by omega)]; simp
      have hd : List.drop (beBytes p.length).length (List.take j (beBytes p.length ++ p))
          = List.take (j - (beBytes p.length).length) p := by
        rw [List.drop_take]; simp
      rw [ht, hd, beValue_beBytes, if_neg (by omega)]
      simp [takePayload]
      omega

/-! ### Streams of messages -/

theorem encodeFrames_cons (f : Bytes) (fs : List Bytes) :
    encodeFrames (f :: fs) = encodeFrame f ++ encodeFrames fs := by
  simp [encodeFrames]

theorem encodeFrames_nil : encodeFrames [] = [] := rfl

/-- fuel-generalised form of `frame_prefix_safe` -/
theorem parseFramesF_cut : ∀ (fs : List Bytes), (∀ f ∈ fs, f.length < tooBig) → ∀ (k fuel : Nat),
    ((encodeFrames fs).take k).length < fuel →
    parseFramesF fuel ((encodeFrames fs).take k) = cutFrames fs k := by
  intro fs
  induction fs with
  | nil =>
    intro _ k fuel hf
    cases fuel with
    | zero => omega
    | succ fuel => simp [encodeFrames_nil, parseFramesF, parseFrame, cutFrames]
  | cons f fs ih =>
    intro hfs k fuel hf
    have hflen : f.length < tooBig := hfs f (by simp)
    have hpos := encodeFrame_length_pos f
    cases fuel with
    | zero => omega
    | succ fuel =>
      rw [encodeFrames_cons] at hf ⊢
      unfold cutFrames
      by_cases hk0 : k = 0
      · subst hk0
        simp [parseFramesF, parseFrame]
      · rw [if_neg hk0]
        by_cases hk : k < (encodeFrame f).length
        · rw [if_pos hk, List.take_append_of_le_length (by omega)]
          simp only [parseFramesF]
          rw [parseFrame_prefix f hflen k (by omega) hk]
        · rw [if_neg hk]
          have ht : List.take k (encodeFrame f ++ encodeFrames fs)
              = encodeFrame f ++ List.take (k - (encodeFrame f).length) (encodeFrames fs) := by
            rw [List.take_append, List.take_of_length_le (by omega)]
          rw [ht] at hf ⊢
          simp only [parseFramesF]
          rw [parseFrame_encodeFrame f _ hflen]
          simp only
          rw [ih (fun g hg => hfs g (by simp [hg])) _ fuel (by simp at hf ⊢; omega)]

/-- **frame_prefix_safe**: for any list of frames and any cut offset, parsing the cut stream yields
exactly the frames lying wholly before the cut, then `eof` (cut at a boundary) or `incomplete`. -/
theorem frame_prefix_safe (fs : List Bytes) (hfs : ∀ f ∈ fs, f.length < tooBig) (k : Nat) :
    parseFrames ((encodeFrames fs).take k) = cutFrames fs k :=
  parseFramesF_cut fs hfs k _ (by omega)

/-- the frames reported for a cut are a prefix of the written ones, they fit before the cut, and the
next frame (if any) does not -/
theorem cutFrames_prefix (fs : List Bytes) (k : Nat) :
    ∃ m, m ≤ fs.length ∧ (cutFrames fs k).1 = fs.take m ∧ (encodeFrames (fs.take m)).length ≤ k ∧
      (∀ f, fs[m]? = some f → k < (encodeFrames (fs.take (m + 1))).length) := by
  induction fs generalizing k with
  | nil => exact ⟨0, by simp [cutFrames, encodeFrames_nil]⟩
  | cons f fs ih =>
    have hpos := encodeFrame_length_pos f
    unfold cutFrames
    by_cases hk0 : k = 0
    · subst hk0
      refine ⟨0, by simp, by simp, by simp [encodeFrames_nil], ?_⟩
      intro g _
      simp [encodeFrames_cons, encodeFrames_nil]; omega
    · rw [if_neg hk0]
      by_cases hk : k < (encodeFrame f).length
      · rw [if_pos hk]
        refine ⟨0, by simp, by simp, by simp [encodeFrames_nil], ?_⟩
        intro g _
        simp [encodeFrames_cons, encodeFrames_nil]; omega
      · rw [if_neg hk]
        obtain ⟨m, hm, h1, h2, h3⟩ := ih (k - (encodeFrame f).length)
        refine ⟨m + 1, by simp; omega, by simp [h1], ?_, ?_⟩
        · simp [encodeFrames_cons]; omega
        · intro g hg
          have := h3 g (by simpa using hg)
          simp [encodeFrames_cons] at this ⊢; omega

/-- the cut keeps everything once it is past the end: all frames, then `eof` -/
theorem cutFrames_all (fs : List Bytes) (k : Nat) (hk : (encodeFrames fs).length ≤ k) :
    cutFrames fs k = (fs, .eof) := by
  induction fs generalizing k with
  | nil => simp [cutFrames]
  | cons f fs ih =>
    have hpos := encodeFrame_length_pos f
    rw [encodeFrames_cons] at hk
    simp at hk
    unfold cutFrames
    rw [if_neg (by omega), if_neg (by omega)]
    simp [ih (k - (encodeFrame f).length) (by omega)]

/-- without a cut: all frames, then end of stream -/
theorem parseFrames_encodeFrames (fs : List Bytes) (hfs : ∀ f ∈ fs, f.length < tooBig) :
    parseFrames (encodeFrames fs) = (fs, .eof) := by
  have h := frame_prefix_safe fs hfs (encodeFrames fs).length
  rw [List.take_length] at h
  rw [h, cutFrames_all fs _ (Nat.le_refl _)]

/-! ### Sanity checks -/

example : encodeUint 0 = [0] := by decide
example : encodeUint 127 = [127] := by decide
example : encodeUint 128 = [255, 128] := by decide
example : encodeUint 255 = [255, 255] := by decide
example : encodeUint 256 = [254, 1, 0] := by decide
example : encodeUint 65536 = [253, 1, 0, 0] := by decide
example : beValue [1, 0] = 256 := by decide
example : encodeFrame [7, 8] = [2, 7, 8] := by decide
example : parseFrame [2, 7, 8, 9] = .frame [7, 8] [9] := by decide
example : parseFrame [2, 7] = .incomplete := by decide
example : parseFrame [254, 1] = .incomplete := by decide
example : parseFrame [247, 1] = .bad := by decide
example : parseFrame [] = .eof := by decide
example : parseFrames (encodeFrames [[1,2,3],[],[9]]) = ([[1,2,3],[],[9]], .eof) := by decide
example : encodeFrames [[1,2,3],[],[9]] = [3,1,2,3,0,1,9] := by decide
-- cut inside the first frame, at the boundaries, and inside the last frame
example : parseFrames ((encodeFrames [[1,2,3],[],[9]]).take 0) = ([], .eof) := by decide
example : parseFrames ((encodeFrames [[1,2,3],[],[9]]).take 3) = ([], .incomplete) := by decide
example : parseFrames ((encodeFrames [[1,2,3],[],[9]]).take 4) = ([[1,2,3]], .eof) := by decide
example : parseFrames ((encodeFrames [[1,2,3],[],[9]]).take 5) = ([[1,2,3],[]], .eof) := by decide
example : parseFrames ((encodeFrames [[1,2,3],[],[9]]).take 6) = ([[1,2,3],[]], .incomplete) := by decide
example : parseFrames ((encodeFrames [[1,2,3],[],[9]]).take 7) = ([[1,2,3],[],[9]], .eof) := by decide
example : cutFrames [[1,2,3],[],[9]] 6 = ([[1,2,3],[]], .incomplete) := by decide
example : cutFrames [[1,2,3],[],[9]] 5 = ([[1,2,3],[]], .eof) := by decide

end Vegeta.Proofs.GobFrame
