/-
Helper lemmas for C17: the float comparison `F64.lt` is transitive, and the model's stable
insertion sort returns a sorted permutation.
-/
import Vegeta.Model.Plot
namespace Vegeta.Proofs.PlotSort
open Vegeta.Go Vegeta.Model.Plot

/-! ### insertion sort -/

theorem insertBy_perm {α} (lt : α → α → Bool) (x : α) (ys : List α) :
    (insertBy lt x ys).Perm (x :: ys) := by
  induction ys with
  | nil => exact List.Perm.refl _
  | cons y ys ih =>
    unfold insertBy
    split
    · exact List.Perm.refl _
    · exact ((List.Perm.cons y ih).trans (List.Perm.swap x y ys))

theorem sortBy_perm {α} (lt : α → α → Bool) (xs : List α) : (sortBy lt xs).Perm xs := by
  induction xs with
  | nil => exact List.Perm.refl _
  | cons x xs ih =>
    show (insertBy lt x (sortBy lt xs)).Perm (x :: xs)
    exact (insertBy_perm lt x _).trans (List.Perm.cons x ih)

/-- sorted: no later element is smaller than an earlier one -/
def Sorted {α} (lt : α → α → Bool) (xs : List α) : Prop := xs.Pairwise (fun a b => lt b a = false)

theorem insertBy_sorted {α} (lt : α → α → Bool)
    (hirr : ∀ a, lt a a = false)
    (htrans : ∀ a b c, lt a b = true → lt b c = true → lt a c = true)
    (x : α) (ys : List α) (h : Sorted lt ys) : Sorted lt (insertBy lt x ys) := by
  induction ys with
  | nil => simp [insertBy, Sorted]
  | cons y ys ih =>
    unfold Sorted at h ih ⊢
    rw [List.pairwise_cons] at h
    obtain ⟨hy, hys⟩ := h
    unfold insertBy
    split
    · rename_i hxy
      rw [List.pairwise_cons]
      refine ⟨?_, List.pairwise_cons.mpr ⟨hy, hys⟩⟩
      intro z hz
      rw [List.mem_cons] at hz
      cases hzx : lt z x with
      | false => rfl
      | true =>
        rcases hz with hz | hz
        · subst hz
          have := htrans x z x hxy hzx
          rw [hirr x] at this; cases this
        · have := htrans z x y hzx hxy
          rw [hy z hz] at this; cases this
    · rename_i hxy
      rw [List.pairwise_cons]
      refine ⟨?_, ih hys⟩
      intro z hz
      have hz' := (insertBy_perm lt x ys).mem_iff.mp hz
      rw [List.mem_cons] at hz'
      rcases hz' with hz' | hz'
      · subst hz'; simpa using hxy
      · exact hy z hz'

theorem sortBy_sorted {α} (lt : α → α → Bool)
    (hirr : ∀ a, lt a a = false)
    (htrans : ∀ a b c, lt a b = true → lt b c = true → lt a c = true)
    (xs : List α) : Sorted lt (sortBy lt xs) := by
  induction xs with
  | nil => simp [sortBy, Sorted]
  | cons x xs ih => exact insertBy_sorted lt hirr htrans x _ ih

/-! ### `F64.lt` is a strict order -/

/-- order-preserving integer key of a finite value -/
def fkey (x : F64) : Int :=
  (if x.sign then -(x.mant : Int) else (x.mant : Int)) * 2 ^ (x.expo + 1074).toNat

theorem expo_ge (x : F64) : -1074 ≤ x.expo := by
  unfold F64.expo
  split
  · omega
  · rename_i h
    have : x.bexp ≠ 0 := by simpa using h
    omega

theorem pow_split (a b : Nat) : (2 : Int) ^ (a + b) = 2 ^ a * 2 ^ b := by
  rw [Int.pow_add]

theorem cmpKey_fkey (x y : F64) :
    ((F64.cmpKey x y).1 < (F64.cmpKey x y).2) ↔ fkey x < fkey y := by
  have hx := expo_ge x
  have hy := expo_ge y
  unfold F64.cmpKey fkey
  simp only []
  generalize hE : min x.expo y.expo = e
  have he : -1074 ≤ e := by omega
  have hex : e ≤ x.expo := by omega
  have hey : e ≤ y.expo := by omega
  have hpx : (2 : Int) ^ (x.expo + 1074).toNat = 2 ^ (x.expo - e).toNat * 2 ^ (e + 1074).toNat := by
    rw [← Int.pow_add]; congr 1; omega
  have hpy : (2 : Int) ^ (y.expo + 1074).toNat = 2 ^ (y.expo - e).toNat * 2 ^ (e + 1074).toNat := by
    rw [← Int.pow_add]; congr 1; omega
  rw [hpx, hpy]
  have hpos : (0 : Int) < 2 ^ (e + 1074).toNat := Int.pow_pos (by omega)
  generalize (2 : Int) ^ (e + 1074).toNat = c at hpos
  generalize (2 : Int) ^ (x.expo - e).toNat = px
  generalize (2 : Int) ^ (y.expo - e).toNat = py
  have e1 : (if x.sign then -(x.mant : Int) else (x.mant : Int)) * (px * c)
      = (if x.sign then -((x.mant : Int) * px) else (x.mant : Int) * px) * c := by
    split <;> simp only [Int.neg_mul, Int.mul_assoc]
  have e2 : (if y.sign then -(y.mant : Int) else (y.mant : Int)) * (py * c)
      = (if y.sign then -((y.mant : Int) * py) else (y.mant : Int) * py) * c := by
    split <;> simp only [Int.neg_mul, Int.mul_assoc]
  rw [e1, e2]
  constructor
  · intro h; exact Int.mul_lt_mul_of_pos_right h hpos
  · intro h; exact Int.lt_of_mul_lt_mul_right h (Int.le_of_lt hpos)

theorem lt_irrefl (x : F64) : F64.lt x x = false := by
  unfold F64.lt
  split
  · rfl
  · split
    · rename_i h; simp [h]
    · unfold F64.cmpKey
      simp

theorem lt_trans (x y z : F64) (h1 : F64.lt x y = true) (h2 : F64.lt y z = true) :
    F64.lt x z = true := by
  unfold F64.lt at h1 h2 ⊢
  by_cases nx : x.isNaN = true
  · simp [nx] at h1
  by_cases ny : y.isNaN = true
  · simp [ny] at h1
  by_cases nz : z.isNaN = true
  · simp [nz] at h2
  simp only [nx, ny, nz, Bool.or_self, Bool.false_eq_true, ↓reduceIte] at h1 h2 ⊢
  by_cases ix : x.isInf = true
  · simp only [ix, ↓reduceIte, Bool.and_eq_true, Bool.not_eq_eq_eq_not, Bool.not_true, Bool.and_eq_false_imp] at h1 ⊢
    refine ⟨h1.1, ?_⟩
    intro iz
    by_cases iy : y.isInf = true
    · simp only [iy, ↓reduceIte, Bool.and_eq_true] at h2
      simp [iz] at h2
      exact absurd h2.1 (by simp [h1.2 iy])
    · simp only [iy, Bool.false_eq_true, ↓reduceIte, iz] at h2
      simpa using h2
  · simp only [ix, Bool.false_eq_true, ↓reduceIte] at h1 ⊢
    by_cases iy : y.isInf = true
    · simp only [iy, ↓reduceIte] at h1 h2
      simp only [Bool.not_eq_eq_eq_not, Bool.not_true] at h1
      simp [h1] at h2
    · simp only [iy, Bool.false_eq_true, ↓reduceIte] at h1 h2
      by_cases iz : z.isInf = true
      · simp only [iz, ↓reduceIte] at h2 ⊢
        exact h2
      · simp only [iz, Bool.false_eq_true, ↓reduceIte] at h2 ⊢
        simp only [decide_eq_true_eq] at h1 h2 ⊢
        have a := (cmpKey_fkey x y).mp h1
        have b := (cmpKey_fkey y z).mp h2
        exact (cmpKey_fkey x z).mpr (Int.lt_trans a b)

theorem rowLt_irrefl (a : List F64) : rowLt a a = false := lt_irrefl _

theorem rowLt_trans (a b c : List F64) (h1 : rowLt a b = true) (h2 : rowLt b c = true) :
    rowLt a c = true := lt_trans _ _ _ h1 h2

end Vegeta.Proofs.PlotSort
