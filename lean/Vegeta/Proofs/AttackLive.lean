/-
Termination of the closing sequence of an attack (C02, C04 "the attack then ends"):
once the main loop has left its `for` loop (pacer stop, deadline, Stop seen), every step any
attack goroutine or the consumer takes strictly decreases a natural-number measure, and some
such step is always enabled until the terminal state is reached.  Hence under the sole
assumption that enabled goroutines are eventually scheduled and the consumer keeps receiving,
the attack ends; the clock and external Stop calls cannot prevent it.
-/
import Vegeta.Proofs.AttackInv
namespace Vegeta.Proofs.Attack
open Vegeta.Model.Attack

def closing : PC → Bool
  | .closeTicks | .waitWG | .closeResults | .finalStop | .done => true
  | _ => false

def pcRank : PC → Nat
  | .closeTicks => 4 | .waitWG => 3 | .closeResults => 2 | .finalStop => 1 | _ => 0

/-- remaining steps of the worker that owns this hit (including its final `exit`) -/
def hitW (h : Hit) : Nat :=
  match h.phase with
  | .delivered => 0
  | .sending => 2
  | .stopping => 3
  | .hitting =>
    match h.entered, h.left with
    | none, _ => 5
    | some _, none => 4
    | some _, some _ => 3

def hitsW (hs : List Hit) : Nat := (hs.map hitW).sum

def mu (s : St) : Nat :=
  pcRank s.pc + 2 * s.starting + s.idle + 7 * s.got + 6 * csN s + hitsW s.hits

/-- labels of the environment: the clock and external Stop calls -/
def isEnv : Lbl → Bool
  | .advance _ | .stop => true
  | _ => false

theorem sum_modify (w : Hit → Nat) : ∀ (l : List Hit) (i : Nat) (a : Hit) (f : Hit → Hit), l[i]? = some a →
    ((l.modify i f).map w).sum + w a = (l.map w).sum + w (f a) := by
  intro l
  induction l with
  | nil => intro i a f h; simp at h
  | cons x xs ih =>
    intro i a f h
    cases i with
    | zero => simp at h; subst h; simp [List.modify]; omega
    | succ i =>
      simp at h
      have := ih i a f h
      simp [List.modify] at this ⊢; omega

theorem hitsW_modify (s : St) (i : Nat) (a : Hit) (f : Hit → Hit) (hi : s.hits[i]? = some a) :
    hitsW (setHit s.hits i f) + hitW a = hitsW s.hits + hitW (f a) := sum_modify hitW s.hits i a f hi

/-- **Every non-environment step taken during the closing sequence strictly decreases `mu`.** -/
theorem closing_step_decreases (s s' : St) (l : Lbl) (hc : Core s) (hcl : closing s.pc = true) (henv : isEnv l = false)
    (hs : step s l = some s') : mu s' < mu s ∧ closing s'.pc = true := by
  cases l with
  | advance d => simp [isEnv] at henv
  | stop => simp [isEnv] at henv
  | deadline => simp only [step] at hs; split at hs <;> simp at hs; rename_i hg; rw [hg.1] at hcl; simp [closing] at hcl
  | paceStop => simp only [step] at hs; split at hs <;> simp at hs; rename_i hg; rw [hg.1] at hcl; simp [closing] at hcl
  | paceWait w => simp only [step] at hs; split at hs <;> simp at hs; rename_i hg; rw [hg.1] at hcl; simp [closing] at hcl
  | wake => simp only [step] at hs; split at hs <;> simp at hs; rename_i hg; rw [hg.1] at hcl; simp [closing] at hcl
  | tick =>
    simp only [step] at hs; split at hs <;> simp at hs; rename_i hg
    rcases hg.1 with h | h <;> rw [h] at hcl <;> simp [closing] at hcl
  | seeStop =>
    simp only [step] at hs; split at hs <;> simp at hs; rename_i hg
    rcases hg.1 with h | h <;> rw [h] at hcl <;> simp [closing] at hcl
  | spawn => simp only [step] at hs; split at hs <;> simp at hs; rename_i hg; rw [hg.1] at hcl; simp [closing] at hcl
  | closeTicks =>
    simp only [step] at hs; split at hs <;> simp at hs; subst hs; rename_i hg
    simp [mu, hg, pcRank, closing, csN]
  | wgDone =>
    simp only [step] at hs; split at hs <;> simp at hs; subst hs; rename_i hg
    simp [mu, hg.1, pcRank, closing, csN]
  | closeResults =>
    simp only [step] at hs; split at hs <;> simp at hs; subst hs; rename_i hg
    simp [mu, hg, pcRank, closing, csN]
  | finalStop =>
    simp only [step] at hs; split at hs <;> simp at hs; subst hs; rename_i hg
    obtain ⟨f1, f2, f3, f4, f5, f6, f7, f8, f9, f10, _⟩ := doStop_fields s
    simp [mu, hg, pcRank, closing, csN, f4, f5, f6, f7, f10]
  | ready =>
    simp only [step] at hs; split at hs <;> simp at hs; subst hs; rename_i hg
    refine ⟨?_, hcl⟩; simp only [mu, csN]; omega
  | exit =>
    simp only [step] at hs; split at hs <;> simp at hs; subst hs; rename_i hg
    refine ⟨?_, hcl⟩; simp only [mu, csN]; omega
  | csEnter =>
    simp only [step] at hs; split at hs <;> simp at hs; subst hs; rename_i hg
    refine ⟨?_, hcl⟩; simp only [mu, csN, hg.2]; simp; omega
  | csLeave =>
    simp only [step] at hs
    split at hs
    · rename_i t hcs
      simp at hs; subst hs
      refine ⟨?_, hcl⟩
      simp only [mu, csN, hcs, hitsW, List.map_append, List.sum_append]
      simp [hitW]; omega
    · simp at hs
  | tgtErr i =>
    simp only [step] at hs
    split at hs
    · rename_i h hi
      split at hs <;> simp at hs; subst hs; rename_i hg
      have := hitsW_modify s i h (fun h => { h with phase := .stopping, tgtErr := true }) hi
      refine ⟨?_, hcl⟩
      simp only [mu, csN] at this ⊢
      have h1 : hitW h = 5 := by simp [hitW, hg.1, hg.2]
      have h2 : hitW { h with phase := .stopping, tgtErr := true } = 3 := by simp [hitW]
      omega
    · simp at hs
  | stopRet i =>
    simp only [step] at hs
    split at hs
    · rename_i h hi
      split at hs <;> simp at hs; subst hs; rename_i hg
      obtain ⟨f1, f2, f3, f4, f5, f6, f7, f8, f9, f10, _⟩ := doStop_fields s
      have := hitsW_modify s i h (fun h => { h with phase := .sending, fin := some s.now }) hi
      refine ⟨?_, by simpa [f1] using hcl⟩
      simp only [mu, csN, f1, f4, f5, f6, f7, f10] at this ⊢
      have h1 : hitW h = 3 := by simp [hitW, hg]
      have h2 : hitW { h with phase := .sending, fin := some s.now } = 2 := by simp [hitW]
      omega
    · simp at hs
  | enter i =>
    simp only [step] at hs
    split at hs
    · rename_i h hi
      split at hs <;> simp at hs; subst hs; rename_i hg
      have := hitsW_modify s i h (fun h => { h with entered := some s.now }) hi
      refine ⟨?_, hcl⟩
      simp only [mu, csN] at this ⊢
      have h1 : hitW h = 5 := by simp [hitW, hg.1, hg.2]
      have h2 : hitW { h with entered := some s.now } ≤ 4 := by
        simp only [hitW, hg.1]; cases h.left <;> simp
      omega
    · simp at hs
  | leave i =>
    simp only [step] at hs
    split at hs
    · rename_i h hi
      split at hs <;> simp at hs; subst hs; rename_i hg
      have := hitsW_modify s i h (fun h => { h with left := some s.now }) hi
      refine ⟨?_, hcl⟩
      simp only [mu, csN] at this ⊢
      obtain ⟨e, he⟩ : ∃ e, h.entered = some e := by
        cases he : h.entered with
        | none => exact absurd he hg.2.1
        | some e => exact ⟨e, rfl⟩
      have h1 : hitW h = 4 := by simp [hitW, hg.1, he, hg.2.2]
      have h2 : hitW { h with left := some s.now } = 3 := by simp [hitW, hg.1, he]
      omega
    · simp at hs
  | finish i =>
    simp only [step] at hs
    split at hs
    · rename_i h hi
      split at hs <;> simp at hs; subst hs; rename_i hg
      have := hitsW_modify s i h (fun h => { h with phase := .sending, fin := some s.now }) hi
      refine ⟨?_, hcl⟩
      simp only [mu, csN] at this ⊢
      have h1 : 3 ≤ hitW h := by
        simp only [hitW, hg.1]
        cases h.entered <;> cases h.left <;> simp
      have h2 : hitW { h with phase := .sending, fin := some s.now } = 2 := by simp [hitW]
      omega
    · simp at hs
  | deliver i =>
    simp only [step] at hs
    split at hs
    · rename_i h hi
      split at hs
      · rename_i hg
        split at hs
        · -- send on a closed channel cannot happen in a state satisfying the core invariant
          rename_i hrc
          exfalso
          have hbusy : 0 < busyHits s := by
            unfold busyHits
            exact List.countP_pos_iff.mpr ⟨h, List.mem_of_getElem? hi, by simp [hg]⟩
          rw [hc.rc] at hrc
          have haw : afterWait s.pc = true := by
            cases hp : s.pc <;> rw [hp] at hrc <;> simp [afterCloseResults] at hrc <;> rfl
          have := hc.ex haw
          have := hc.pop
          omega
        · simp at hs; subst hs
          have := hitsW_modify s i h (fun h => { h with phase := .delivered }) hi
          refine ⟨?_, hcl⟩
          simp only [mu, csN] at this ⊢
          have h1 : hitW h = 2 := by simp [hitW, hg]
          have h2 : hitW { h with phase := .delivered } = 0 := by simp [hitW]
          omega
      · simp at hs
    · simp at hs

/-- **The closing sequence never gets stuck**: in every state satisfying the core invariant whose
main goroutine is in its closing sequence and not yet done, some goroutine of the attack or the
consumer has an enabled step. -/
theorem closing_not_stuck (s : St) (hc : Core s) (hcl : closing s.pc = true) (hnd : s.pc ≠ .done) :
    ∃ l s', isEnv l = false ∧ step s l = some s' := by
  cases hp : s.pc with
  | pace => rw [hp] at hcl; simp [closing] at hcl
  | sleep => rw [hp] at hcl; simp [closing] at hcl
  | trySend => rw [hp] at hcl; simp [closing] at hcl
  | blockSend => rw [hp] at hcl; simp [closing] at hcl
  | done => exact absurd hp hnd
  | closeTicks => exact ⟨.closeTicks, by simp [step, hp, isEnv]⟩
  | closeResults => exact ⟨.closeResults, by simp [step, hp, isEnv]⟩
  | finalStop => exact ⟨.finalStop, by simp [step, hp, isEnv]⟩
  | waitWG =>
    have htc : s.ticksClosed = true := by rw [hc.tc, hp]; rfl
    have hrc : s.resultsClosed = false := by rw [hc.rc, hp]; rfl
    by_cases hex : s.exited = s.nworkers
    · exact ⟨.wgDone, by simp [step, hp, hex, isEnv]⟩
    · have hpop := hc.pop
      by_cases h1 : 0 < s.starting
      · exact ⟨.ready, by simp [step, h1, isEnv]⟩
      by_cases h2 : 0 < s.idle
      · exact ⟨.exit, by simp [step, h2, htc, isEnv]⟩
      cases hcs : s.cs with
      | some t => exact ⟨.csLeave, by simp [step, hcs, isEnv]⟩
      | none =>
        by_cases h3 : 0 < s.got
        · exact ⟨.csEnter, by simp [step, h3, hcs, isEnv]⟩
        · -- some hit still holds a worker
          have hb : 0 < busyHits s := by simp [csN, hcs] at hpop; omega
          unfold busyHits at hb
          obtain ⟨h, hm, hph⟩ := List.countP_pos_iff.mp hb
          obtain ⟨i, hi⟩ := List.getElem?_of_mem hm
          simp at hph
          cases hphase : h.phase with
          | delivered => exact absurd hphase hph
          | sending => exact ⟨.deliver i, by simp [step, hi, hphase, hrc, isEnv]⟩
          | stopping => exact ⟨.stopRet i, by simp [step, hi, hphase, isEnv]⟩
          | hitting =>
            cases he : h.entered with
            | none => exact ⟨.finish i, by simp [step, hi, hphase, he, isEnv]⟩
            | some e =>
              cases hl : h.left with
              | none => exact ⟨.leave i, by simp [step, hi, hphase, he, hl, isEnv]⟩
              | some l => exact ⟨.finish i, by simp [step, hi, hphase, he, hl, isEnv]⟩

/-- Environment steps (the clock, external Stop calls) neither increase the measure nor leave
the closing sequence. -/
theorem env_step_keeps_mu (s s' : St) (l : Lbl) (henv : isEnv l = true) (hs : step s l = some s') :
    mu s' = mu s ∧ s'.pc = s.pc := by
  cases l <;> simp [isEnv] at henv
  · simp [step] at hs; subst hs; simp [mu, csN]
  · simp [step] at hs; subst hs
    obtain ⟨f1, f2, f3, f4, f5, f6, f7, f8, f9, f10, _⟩ := doStop_fields s
    simp [mu, csN, f1, f4, f5, f6, f7, f10]

/-- **Bounded termination**: from a reachable closing state, any sequence of non-environment
steps has length at most `mu s`; together with `closing_not_stuck` every maximal run of the
attack's goroutines reaches `done`. -/
theorem closing_run_bounded {w m d : Nat} : ∀ (ls : List Lbl) (s s' : St), Reachable w m d s → closing s.pc = true →
    (∀ l ∈ ls, isEnv l = false) → run s ls = some s' → ls.length + mu s' ≤ mu s := by
  intro ls
  induction ls with
  | nil => intro s s' _ _ _ hr; simp [run] at hr; subst hr; simp
  | cons l ls ih =>
    intro s s' hreach hcl hall hr
    simp only [run] at hr
    split at hr
    · rename_i s1 hs1
      have hd := closing_step_decreases s s1 l (core_reachable hreach) hcl (hall l (by simp)) hs1
      have := ih s1 s' (Reachable.step l hreach hs1) hd.2 (fun x hx => hall x (by simp [hx])) hr
      simp only [List.length_cons]; omega
    · cases hr

end Vegeta.Proofs.Attack
