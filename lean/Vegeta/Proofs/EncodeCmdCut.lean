/-
The `encode` command (Model/EncodeCmd.lean) as a map over the records of its input: on complete
inputs and on inputs cut anywhere (JSON, gob) or at a record boundary (CSV), for every target codec.
-/
import Vegeta.Proofs.EncodeCmdDomain
import Vegeta.Proofs.GobValueResult
import Vegeta.Proofs.CodecCSVResult
import Vegeta.Proofs.CodecJSONResult
import Vegeta.Proofs.CodecRFC3339
import Vegeta.Proofs.StreamCut
namespace Vegeta.Proofs.EncodeCmd
open Vegeta.Go Vegeta.Model.Codec Vegeta.Model.GobFrame Vegeta.Model.GobValue Vegeta.Model.EncodeCmd
open Vegeta.Proofs.Codec Vegeta.Proofs.Gob Vegeta.Proofs.GobFrame

/-! ### JSON streams as lists of lines -/

theorem cmd_forall₂_length {α β : Type} {R : α → β → Prop} {as : List α} {bs : List β}
    (h : Forall₂ R as bs) : as.length = bs.length := by
  induction h with
  | nil => rfl
  | cons _ _ ih => simp [ih]

theorem cmd_take_flatten_le (n : Nat) (ls : List Bytes) : (ls.take n).flatten.length ≤ ls.flatten.length := by
  have : ls.flatten = (ls.take n).flatten ++ (ls.drop n).flatten := by
    rw [← List.flatten_append, List.take_append_drop]
  rw [this, List.length_append]; omega

theorem cmd_json_record (offMin : Int) (ho : offMin.natAbs < 1440) (r : Result) (hr : ReprJSONResult r) :
    ∃ b, encodeJSON offMin r = some b ∧ decodeJSONLine b = .ok r := by
  have h1 := hr.num.ts1
  unfold tsLimit at h1
  exact decodeJSONLine_encodeJSON offMin r hr (timeUnmarshal_timeMarshal _ _ hr.num.ts0 h1 ho)

theorem cmd_lines (offMin : Int) (ho : offMin.natAbs < 1440) (rs : List Result)
    (hrs : ∀ r ∈ rs, ReprJSONResult r) :
    ∃ lines, encodeJSONAll offMin rs = some lines.flatten ∧
      Forall₂ (fun l r => IsLine l ∧ decodeJSONLine l = .ok r) lines rs := by
  induction rs with
  | nil => exact ⟨[], rfl, .nil⟩
  | cons r rs ih =>
    obtain ⟨b, hb, hd⟩ := cmd_json_record offMin ho r (hrs r (by simp))
    obtain ⟨ls, hls, hf⟩ := ih (fun x hx => hrs x (by simp [hx]))
    refine ⟨b :: ls, ?_, .cons ⟨encodeJSON_single_newline offMin r b hb, hd⟩ hf⟩
    simp [encodeJSONAll, hb, hls]

/-- all lines lie before a cut at (or past) the end of the stream -/
theorem cmd_linesBefore_all (lines : List Bytes) : linesBefore lines lines.flatten.length = lines.length := by
  have hb := linesBefore_spec lines lines.flatten.length
  rcases Nat.lt_or_ge (linesBefore lines lines.flatten.length) lines.length with hlt | hge
  · exfalso
    have hget : lines[linesBefore lines lines.flatten.length]? =
        some lines[linesBefore lines lines.flatten.length] := List.getElem?_eq_getElem hlt
    have h3 := hb.2.2 _ hget
    have hsub := cmd_take_flatten_le (linesBefore lines lines.flatten.length + 1) lines
    omega
  · have := hb.1; omega

theorem cmd_json_roundtrip (offMin : Int) (ho : offMin.natAbs < 1440) (rs : List Result)
    (hrs : ∀ r ∈ rs, ReprJSONResult r) :
    ∃ s, encodeJSONAll offMin rs = some s ∧ decodeJSON s = (rs, .eof) := by
  obtain ⟨lines, hl, hf⟩ := cmd_lines offMin ho rs hrs
  refine ⟨lines.flatten, hl, ?_⟩
  have h := decodeJSON_cut lines rs hf lines.flatten.length
  have hlen : lines.length = rs.length := cmd_forall₂_length hf
  rw [List.take_length] at h
  rw [h, cmd_linesBefore_all, hlen, List.take_length]

/-! ### what the command's encoding loop writes -/

theorem cmd_csv_out (z : Zone) (st : EncState) (ds : List Result) :
    cmdEncode .csv z st ds = (encodeCSVAll ds, true) := by
  induction ds generalizing st with
  | nil => rfl
  | cons d ds ih =>
    simp only [cmdEncode, encCall, if_true, ih]
    simp [encodeCSVAll]

theorem cmd_json_out (z : Zone) (st : EncState) (hst : st.jsonFailed = false) (ds : List Result) (b : Bytes)
    (h : encodeJSONAll (zoneMin z) ds = some b) : cmdEncode .json z st ds = (b, true) := by
  induction ds generalizing b with
  | nil =>
    simp only [encodeJSONAll] at h
    cases h
    rfl
  | cons d ds ih =>
    simp only [encodeJSONAll] at h
    cases ha : encodeJSON (zoneMin z) d with
    | none => rw [ha] at h; simp at h
    | some a =>
      cases hb : encodeJSONAll (zoneMin z) ds with
      | none => rw [ha, hb] at h; simp at h
      | some b' =>
        rw [ha, hb] at h
        cases h
        simp only [cmdEncode, encCall, hst, Bool.false_eq_true, if_false, ha, if_true, ih b' hb]

theorem cmd_encodeFrames_append (a b : List Bytes) : encodeFrames (a ++ b) = encodeFrames a ++ encodeFrames b := by
  simp [encodeFrames]

theorem cmd_gob_out (z : Zone) (st : EncState) (ds : List Result) (ps : List Bytes)
    (h : valueFrames z ds = some ps) :
    cmdEncode .gob z st ds =
      ((if st.gobTypesSent = true ∨ ds = [] then [] else preamble) ++ encodeFrames ps, true) := by
  induction ds generalizing st ps with
  | nil =>
    simp only [valueFrames] at h
    cases h
    simp [cmdEncode, encodeFrames]
  | cons d ds ih =>
    simp only [valueFrames] at h
    cases hp : valuePayload z d with
    | none => rw [hp] at h; simp at h
    | some p =>
      cases hq : valueFrames z ds with
      | none => rw [hp, hq] at h; simp at h
      | some qs =>
        rw [hp, hq] at h
        cases h
        simp only [cmdEncode, encCall, hp, if_true, ih _ qs hq, true_or, encodeFrames_cons, List.nil_append]
        cases st.gobTypesSent <;> simp

/-! ### the encoding half -/

/-- the encoding half of the command on decoded records of the target's domain: every call succeeds and the
output decodes (with the target's decoder) to the records, one by one, then end-of-stream -/
theorem cmdEncode_roundtrip (dst : Codec) (zd : Zone) (ds : List Result) (hd : ∀ d ∈ ds, ReprFor dst zd d) :
    (cmdEncode dst zd {} ds).2 = true ∧
    decodeWith dst (cmdEncode dst zd {} ds).1 = (ds.map (decodedBy dst), .eof) := by
  cases dst with
  | csv =>
    rw [cmd_csv_out]
    exact ⟨rfl, decodeCSV_encodeCSVAll ds hd⟩
  | json =>
    cases ds with
    | nil => exact ⟨rfl, by show decodeJSON [] = ([], Term.eof); decide⟩
    | cons d ds =>
      have ho : (zoneMin zd).natAbs < 1440 := (hd d (by simp)).2
      obtain ⟨s, hs, hdec⟩ := cmd_json_roundtrip (zoneMin zd) ho (d :: ds) (fun x hx => (hd x hx).1)
      rw [cmd_json_out zd {} rfl (d :: ds) s hs]
      refine ⟨rfl, ?_⟩
      show decodeJSON s = _
      rw [hdec]
      have : decodedBy .json = id := rfl
      rw [this, List.map_id]
  | gob =>
    cases ds with
    | nil => exact ⟨rfl, by show decodeGob [] = ([], Term.eof); decide⟩
    | cons d ds =>
      have hz : ZoneOK zd := (hd d (by simp)).2
      have hrs : ∀ x ∈ d :: ds, ReprGobResult zd x := fun x hx => (hd x hx).1
      obtain ⟨ps, hps, _⟩ := valueFrames_spec zd (d :: ds) hz hrs
      obtain ⟨s, hs, hdec⟩ := decodeGob_encodeGobAll zd (d :: ds) hz hrs
      rw [cmd_gob_out zd {} (d :: ds) ps hps]
      refine ⟨rfl, ?_⟩
      have hs' : encodeFrames (preFrames ++ ps) = s := by
        have : encodeGobAll zd (d :: ds) = (valueFrames zd (d :: ds)).map fun ps => encodeFrames (preFrames ++ ps) := rfl
        rw [this, hps] at hs
        exact Option.some.inj hs
      have hg : ∀ x, decodeWith .gob x = decodeGob x := fun _ => rfl
      have e : (if ({} : EncState).gobTypesSent = true ∨ d :: ds = [] then [] else preamble) ++ encodeFrames ps = s := by
        rw [← hs', cmd_encodeFrames_append, if_neg (by simp)]
        rfl
      dsimp only
      rw [e, hg, hdec]
      rfl

/-- the command, given what its decoder returns on the input -/
theorem cmd_of_decode (src dst : Codec) (zd : Zone) (inp : Bytes) (ds : List Result) (t : Term)
    (hdec : decodeWith src inp = (ds, t)) (hd : ∀ d ∈ ds, ReprFor dst zd d) :
    (encodeCmd src dst zd inp).2 = (t == .eof) ∧
    decodeWith dst (encodeCmd src dst zd inp).1 = (ds.map (decodedBy dst), .eof) := by
  obtain ⟨h1, h2⟩ := cmdEncode_roundtrip dst zd ds hd
  unfold encodeCmd
  simp only [hdec, h1, Bool.true_and]
  exact ⟨trivial, h2⟩

/-! ### the command -/

/-- **the `encode` command on a complete input is a map over the records**: for every source and target
codec and every stream, the output decodes to the input's records, each passed through the two decoders -/
theorem encodeCmd_complete (src dst : Codec) (zs zd : Zone) (rs : List Result)
    (hs : ∀ r ∈ rs, ReprFor src zs r) (hd : ∀ r ∈ rs, ReprFor dst zd (decodedBy src r)) :
    ∃ inp, encodeAllWith src zs rs = some inp ∧ (encodeCmd src dst zd inp).2 = true ∧
      decodeWith dst (encodeCmd src dst zd inp).1 = (rs.map (decodedBy dst ∘ decodedBy src), .eof) := by
  have hd' : ∀ d ∈ rs.map (decodedBy src), ReprFor dst zd d := by
    intro d hdm
    obtain ⟨r, hr, rfl⟩ := List.mem_map.1 hdm
    exact hd r hr
  have key : ∃ inp, encodeAllWith src zs rs = some inp ∧
      decodeWith src inp = (rs.map (decodedBy src), .eof) := by
    cases src with
    | csv => exact ⟨encodeCSVAll rs, rfl, decodeCSV_encodeCSVAll rs hs⟩
    | json =>
      cases rs with
      | nil => exact ⟨[], rfl, by decide⟩
      | cons r rs =>
        have ho : (zoneMin zs).natAbs < 1440 := (hs r (by simp)).2
        obtain ⟨s, h1, h2⟩ := cmd_json_roundtrip (zoneMin zs) ho (r :: rs) (fun x hx => (hs x hx).1)
        refine ⟨s, h1, ?_⟩
        show decodeJSON s = _
        rw [h2]
        have : decodedBy .json = id := rfl
        rw [this, List.map_id]
    | gob =>
      cases rs with
      | nil => exact ⟨[], rfl, by decide⟩
      | cons r rs =>
        have hz : ZoneOK zs := (hs r (by simp)).2
        obtain ⟨s, h1, h2⟩ := decodeGob_encodeGobAll zs (r :: rs) hz (fun x hx => (hs x hx).1)
        exact ⟨s, h1, h2⟩
  obtain ⟨inp, h1, h2⟩ := key
  obtain ⟨h3, h4⟩ := cmd_of_decode src dst zd inp _ _ h2 hd'
  refine ⟨inp, h1, by rw [h3]; rfl, ?_⟩
  rw [h4, List.map_map]

/-- **JSON input cut after ANY number of bytes**: whatever the cut, the command returns nil (a torn last line is a
plain EOF) and its output decodes to exactly the records whose line lies wholly before the cut -/
theorem encodeCmd_cut_json (dst : Codec) (zs zd : Zone) (rs : List Result)
    (hs : ∀ r ∈ rs, ReprFor .json zs r) (hd : ∀ r ∈ rs, ReprFor dst zd r) (k : Nat) :
    ∃ lines, encodeJSONAll (zoneMin zs) rs = some lines.flatten ∧ lines.length = rs.length ∧
      (encodeCmd .json dst zd (lines.flatten.take k)).2 = true ∧
      decodeWith dst (encodeCmd .json dst zd (lines.flatten.take k)).1 =
        ((rs.take (linesBefore lines k)).map (decodedBy dst), .eof) := by
  cases rs with
  | nil =>
    refine ⟨[], rfl, rfl, ?_⟩
    obtain ⟨h3, h4⟩ := cmd_of_decode .json dst zd (([] : List Bytes).flatten.take k) [] .eof
      (by simp; decide) (by simp)
    exact ⟨by rw [h3]; rfl, by rw [h4]; simp⟩
  | cons r rs =>
    have ho : (zoneMin zs).natAbs < 1440 := (hs r (by simp)).2
    obtain ⟨lines, hl, hf⟩ := cmd_lines (zoneMin zs) ho (r :: rs) (fun x hx => (hs x hx).1)
    refine ⟨lines, hl, cmd_forall₂_length hf, ?_⟩
    have hdec : decodeWith .json (lines.flatten.take k) = ((r :: rs).take (linesBefore lines k), .eof) :=
      decodeJSON_cut lines (r :: rs) hf k
    obtain ⟨h3, h4⟩ := cmd_of_decode .json dst zd _ _ _ hdec
      (fun d hdm => hd d (List.mem_of_mem_take hdm))
    exact ⟨by rw [h3]; rfl, h4⟩

/-- **gob input cut after ANY number of bytes**: the output decodes to exactly the records whose value message
lies wholly before the cut — also when the command returns the decoder's error (cut inside a message) -/
theorem encodeCmd_cut_gob (dst : Codec) (zs zd : Zone) (rs : List Result)
    (hs : ∀ r ∈ rs, ReprFor .gob zs r) (hd : ∀ r ∈ rs, ReprFor dst zd (gobDecoded r)) (k : Nat) :
    ∃ ps, valueFrames zs rs = some ps ∧ ps.length = rs.length ∧
      decodeWith dst (encodeCmd .gob dst zd ((encodeFrames (preFrames ++ ps)).take k)).1 =
        ((rs.take ((cutFrames (preFrames ++ ps) k).1.length - 4)).map (decodedBy dst ∘ gobDecoded), .eof) ∧
      (encodeCmd .gob dst zd ((encodeFrames (preFrames ++ ps)).take k)).2 =
        (gobTerm (cutFrames (preFrames ++ ps) k).1 (cutFrames (preFrames ++ ps) k).2 true == .eof) := by
  cases rs with
  | nil =>
    refine ⟨[], rfl, rfl, ?_⟩
    have hdec : decodeWith .gob ((encodeFrames (preFrames ++ [])).take k) =
        (([] : List Result), gobTerm (cutFrames (preFrames ++ []) k).1 (cutFrames (preFrames ++ []) k).2 true) := by
      have hall : ∀ f ∈ preFrames ++ [], f.length < tooBig := by
        intro f hf
        rw [List.append_nil] at hf
        exact preFrames_lt f hf
      obtain ⟨m, hm, hc, _, _⟩ := cutFrames_prefix (preFrames ++ []) k
      show decodeGob _ = _
      unfold decodeGob
      simp only [frame_prefix_safe _ hall k]
      rw [hc, stripPre_take preFrames [] m]
      simp [decValues]
    obtain ⟨h3, h4⟩ := cmd_of_decode .gob dst zd _ _ _ hdec (by simp)
    exact ⟨by rw [h4]; simp, h3⟩
  | cons r rs =>
    have hz : ZoneOK zs := (hs r (by simp)).2
    obtain ⟨ps, h1, h2, hdec⟩ := decodeGob_cut zs (r :: rs) hz (fun x hx => (hs x hx).1) k
    refine ⟨ps, h1, h2, ?_⟩
    rw [← List.map_take] at hdec
    obtain ⟨h3, h4⟩ := cmd_of_decode .gob dst zd _ _ _ hdec (by
      intro d hdm
      obtain ⟨x, hx, rfl⟩ := List.mem_map.1 hdm
      exact hd x (List.mem_of_mem_take hx))
    exact ⟨by rw [h4, List.map_map], h3⟩

/-- **CSV input cut at any record boundary** -/
theorem encodeCmd_cut_csv (dst : Codec) (zd : Zone) (rs : List Result)
    (hs : ∀ r ∈ rs, ReprCSVResult r) (hd : ∀ r ∈ rs, ReprFor dst zd (csvDecoded r)) (m : Nat) :
    (encodeCmd .csv dst zd ((encodeCSVAll rs).take (encodeCSVAll (rs.take m)).length)).2 = true ∧
    decodeWith dst (encodeCmd .csv dst zd ((encodeCSVAll rs).take (encodeCSVAll (rs.take m)).length)).1 =
      ((rs.take m).map (decodedBy dst ∘ csvDecoded), .eof) := by
  rw [encodeCSVAll_take]
  have hdec : decodeWith .csv (encodeCSVAll (rs.take m)) = ((rs.take m).map csvDecoded, .eof) :=
    decodeCSV_encodeCSVAll _ (fun r hr => hs r (List.mem_of_mem_take hr))
  obtain ⟨h3, h4⟩ := cmd_of_decode .csv dst zd _ _ _ hdec (by
    intro d hdm
    obtain ⟨r, hr, rfl⟩ := List.mem_map.1 hdm
    exact hd r (List.mem_of_mem_take hr))
  exact ⟨by rw [h3]; rfl, by rw [h4, List.map_map]⟩

/-! ### sanity checks: the theorems are not vacuous -/

/-- a minimal result lying in the gob domain (zone UTC) and, after gob decoding, in the CSV domain -/
def cmdExample : Result := { timestamp := 1 }

theorem cmdExample_gob : ReprGobResult .utc cmdExample where
  num := ⟨by decide, by decide, by decide, by decide, by unfold inS64 minInt64 maxInt64; decide, by decide, by decide⟩
  headers := by intro h hh; cases hh
  size := by
    intro p hp
    have : valuePayload .utc cmdExample = some [255, 128, 4, 15, 1, 0, 0, 0, 14, 119, 145, 247, 0, 0, 0, 0, 1, 255, 255, 0] := by
      decide
    rw [this] at hp
    cases hp
    decide

theorem cmdExample_csv : ReprCSVResult (gobDecoded cmdExample) where
  num := by constructor <;> decide
  attack := by decide
  error := by decide
  method := by decide
  url := by decide
  body := by decide
  headers := by intro h hh; cases hh

example : ∃ inp, encodeAllWith .gob .utc [cmdExample] = some inp ∧ (encodeCmd .gob .csv .utc inp).2 = true ∧
    decodeWith .csv (encodeCmd .gob .csv .utc inp).1 = ([cmdExample].map (decodedBy .csv ∘ decodedBy .gob), .eof) :=
  encodeCmd_complete .gob .csv .utc .utc [cmdExample]
    (by intro r hr; simp at hr; subst hr; exact ⟨cmdExample_gob, trivial⟩)
    (by intro r hr; simp at hr; subst hr; exact cmdExample_csv)

-- the same input cut after 3 bytes of its single value message: no record comes out, the command reports the error
set_option maxRecDepth 20000 in
example : ∃ ps, valueFrames .utc [cmdExample] = some ps ∧ ps.length = 1 ∧
    decodeWith .csv (encodeCmd .gob .csv .utc ((encodeFrames (preFrames ++ ps)).take ((encodeFrames preFrames).length + 3))).1 =
      ([], .eof) ∧
    (encodeCmd .gob .csv .utc ((encodeFrames (preFrames ++ ps)).take ((encodeFrames preFrames).length + 3))).2 = false := by
  obtain ⟨ps, h1, h2, h3, h4⟩ := encodeCmd_cut_gob .csv .utc .utc [cmdExample]
    (by intro r hr; simp at hr; subst hr; exact ⟨cmdExample_gob, trivial⟩)
    (by intro r hr; simp at hr; subst hr; exact cmdExample_csv) ((encodeFrames preFrames).length + 3)
  have hps : valueFrames .utc [cmdExample] =
      some [[255, 128, 4, 15, 1, 0, 0, 0, 14, 119, 145, 247, 0, 0, 0, 0, 1, 255, 255, 0]] := by decide
  rw [hps] at h1
  cases h1
  have hc : cutFrames (preFrames ++ [[255, 128, 4, 15, 1, 0, 0, 0, 14, 119, 145, 247, 0, 0, 0, 0, 1, 255, 255, 0]])
      ((encodeFrames preFrames).length + 3) = (preFrames, .incomplete) := by decide
  rw [hc] at h3 h4
  exact ⟨_, rfl, rfl, h3, h4⟩

end Vegeta.Proofs.EncodeCmd
