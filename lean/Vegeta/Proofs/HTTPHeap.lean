/-
Heap-level lemmas for C14: what `append` on shared default slices does to the views of the
default map, of the target under construction and of targets returned earlier.
-/
import Vegeta.Model.HTTPTargets
import Vegeta.Proofs.HTTPTargetsL
namespace Vegeta.Proofs.HTTPHeap
open Vegeta.Go
open Vegeta.Model.HTTPTargets
open Vegeta.Proofs.HTTPTargetsL

/-- values of `key` among parsed header lines, in file order -/
def ownVals (hs : List (Bytes × Bytes)) (key : Bytes) : List Bytes :=
  (hs.filter fun kv => kv.1 = key).map (·.2)

theorem ownVals_append (a b : List (Bytes × Bytes)) (k : Bytes) : ownVals (a ++ b) k = ownVals a k ++ ownVals b k := by
  simp [ownVals]

/-- a slice is backed by an allocation of exactly its capacity (or has no capacity at all) -/
def SliceOK (h : Heap) (s : Slice) : Prop :=
  s.len ≤ s.cap ∧ (s.cap = 0 ∨ ∃ cells, h[s.arr]? = some cells ∧ cells.length = s.cap)

theorem sliceOK_nil (h : Heap) : SliceOK h nilSlice := ⟨Nat.le_refl _, Or.inl rfl⟩

theorem view_length {h : Heap} {s : Slice} (hs : SliceOK h s) : (view h s).length = s.len := by
  obtain ⟨h1, h2⟩ := hs
  rcases h2 with h0 | ⟨cells, hc, hl⟩
  · have : s.len = 0 := by omega
    simp [view, this]
  · simp [view, hc]; omega

theorem arr_lt_of_ok {h : Heap} {s : Slice} (hs : SliceOK h s) (hc : 0 < s.cap) : s.arr < h.length := by
  rcases hs.2 with h0 | ⟨cells, hc', _⟩
  · omega
  · rcases Nat.lt_or_ge s.arr h.length with h1 | h1
    · exact h1
    · rw [List.getElem?_eq_none h1] at hc'; cases hc'

/-- views only depend on the backing array -/
theorem view_congr {h h' : Heap} {s : Slice} (hs : s.len = 0 ∨ h'[s.arr]? = h[s.arr]?) : view h' s = view h s := by
  rcases hs with h0 | he
  · simp [view, h0]
  · simp [view, he]

theorem len_zero_of_cap_zero {h : Heap} {s : Slice} (hs : SliceOK h s) (hc : ¬ 0 < s.cap) : s.len = 0 := by
  have := hs.1; omega

/-! ### the map operations -/

theorem hlookup_hinsert (m : HMap) (k k' : Bytes) (s : Slice) :
    hlookup (hinsert m k s) k' = if k = k' then some s else hlookup m k' := by
  induction m with
  | nil =>
    simp only [hinsert, hlookup]
  | cons e r ih =>
    obtain ⟨k0, s0⟩ := e
    simp only [hinsert]
    by_cases h0 : k0 = k
    · subst h0
      simp only [↓reduceIte, hlookup]
      by_cases h1 : k0 = k' <;> simp [h1]
    · simp only [h0, ↓reduceIte, hlookup, ih]
      by_cases h1 : k0 = k'
      · subst h1
        have : ¬ k = k0 := fun e => h0 e.symm
        simp [this]
      · simp [h1]

/-! ### heap updates and views -/

theorem getElem?_modify_ne {α} (l : List α) (i a : Nat) (f : α → α) (h : i ≠ a) : (l.modify i f)[a]? = l[a]? := by
  rw [List.getElem?_modify]
  cases l[a]? <;> simp [h]

theorem getElem?_modify_eq {α} (l : List α) (i : Nat) (f : α → α) : (l.modify i f)[i]? = (l[i]?).map f := by
  rw [List.getElem?_modify]
  cases l[i]? <;> simp

theorem sliceOK_modify {h : Heap} {t : Slice} (i j : Nat) (v : Bytes) (ht : SliceOK h t) :
    SliceOK (h.modify i fun cells => cells.set j v) t := by
  refine ⟨ht.1, ?_⟩
  rcases ht.2 with h0 | ⟨cells, hc, hl⟩
  · exact Or.inl h0
  · right
    by_cases he : i = t.arr
    · subst he
      exact ⟨cells.set j v, by rw [getElem?_modify_eq, hc]; rfl, by simp [hl]⟩
    · exact ⟨cells, by rw [getElem?_modify_ne _ _ _ _ he, hc], hl⟩

theorem sliceOK_append {h : Heap} {t : Slice} (c : List Bytes) (ht : SliceOK h t) : SliceOK (h ++ [c]) t := by
  refine ⟨ht.1, ?_⟩
  rcases ht.2 with h0 | ⟨cells, hc, hl⟩
  · exact Or.inl h0
  · right
    have hlt : t.arr < h.length := by
      rcases Nat.lt_or_ge t.arr h.length with h1 | h1
      · exact h1
      · rw [List.getElem?_eq_none h1] at hc; cases hc
    exact ⟨cells, by rw [List.getElem?_append_left hlt, hc], hl⟩

theorem view_modify_other {h : Heap} {t : Slice} (i : Nat) (f : List Bytes → List Bytes) (hne : i ≠ t.arr) :
    view (h.modify i f) t = view h t :=
  view_congr (Or.inr (getElem?_modify_ne _ _ _ _ hne))

theorem view_modify_below {h : Heap} {t : Slice} (j : Nat) (v : Bytes) (hle : t.len ≤ j) :
    view (h.modify t.arr fun cells => cells.set j v) t = view h t := by
  simp only [view, getElem?_modify_eq]
  cases h[t.arr]? with
  | none => simp
  | some cells => simp [List.take_set_of_le hle]

theorem view_append {h : Heap} {t : Slice} (c : List Bytes) (ht : SliceOK h t) : view (h ++ [c]) t = view h t := by
  by_cases hc : 0 < t.cap
  · exact view_congr (Or.inr (List.getElem?_append_left (arr_lt_of_ok ht hc)))
  · exact view_congr (Or.inl (len_zero_of_cap_zero ht hc))

/-! ### append -/

theorem growCap_gt (c : Nat) : c < growCap c := by
  unfold growCap; split <;> omega

/-- `append` extends the view by the new value and keeps the slice well-formed -/
theorem appendStr_view (h : Heap) (s : Slice) (v : Bytes) (hs : SliceOK h s) :
    view (appendStr h s v).1 (appendStr h s v).2 = view h s ++ [v] ∧ SliceOK (appendStr h s v).1 (appendStr h s v).2 := by
  by_cases hlt : s.len < s.cap
  · simp only [appendStr, hlt, ↓reduceIte]
    obtain ⟨_, h2⟩ := hs
    rcases h2 with h0 | ⟨cells, hc, hl⟩
    · omega
    · have hm : (h.modify s.arr fun cells => cells.set s.len v)[s.arr]? = some (cells.set s.len v) := by
        rw [getElem?_modify_eq, hc]; rfl
      constructor
      · simp only [view, hm, hc, Option.getD_some]
        rw [List.take_add_one, List.take_set_of_le (Nat.le_refl _), List.getElem?_set]
        simp [hl, hlt]
      · exact ⟨by simp; omega, Or.inr ⟨_, hm, by simp [hl]⟩⟩
  · have hlen := view_length hs
    have hcap : s.len = s.cap := by have := hs.1; omega
    have hg := growCap_gt s.cap
    simp only [appendStr, hlt, ↓reduceIte]
    constructor
    · simp only [view, List.getElem?_concat_length, Option.getD_some]
      have : ((h[s.arr]?.getD []).take s.len ++ [v]).length = s.len + 1 := by
        have := hlen; simp only [view] at this; simp [this]
      rw [List.take_left' this]
    · refine ⟨by simp; omega, Or.inr ⟨_, List.getElem?_concat_length, ?_⟩⟩
      have := hlen; simp only [view] at this
      simp; omega

/-! ### the invariant of one call -/

/-- the default header map as the caller built it: every slice is backed by an allocation -/
structure WfDefaults (cfg : Cfg) (h : Heap) : Prop where
  ok : ∀ k s, hlookup cfg.hdr k = some s → SliceOK h s

/-- default values of a key as seen through heap `hS` -/
def dview (cfg : Cfg) (hS : Heap) (k : Bytes) : List Bytes :=
  match hlookup cfg.hdr k with
  | some s0 => view hS s0
  | none => []

/-- `h'` extends `h`: nothing that existed was touched -/
def Extends (h h' : Heap) : Prop := h.length ≤ h'.length ∧ ∀ a, a < h.length → h'[a]? = h[a]?

theorem extends_refl (h : Heap) : Extends h h := ⟨Nat.le_refl _, fun _ _ => rfl⟩

theorem extends_trans {a b c : Heap} (h1 : Extends a b) (h2 : Extends b c) : Extends a c :=
  ⟨Nat.le_trans h1.1 h2.1, fun i hi => by rw [h2.2 i (by have := h1.1; omega), h1.2 i hi]⟩

theorem extends_append (h : Heap) (c : List Bytes) : Extends h (h ++ [c]) :=
  ⟨by simp, fun a ha => List.getElem?_append_left ha⟩

theorem sliceOK_extends {h h' : Heap} {s : Slice} (e : Extends h h') (hs : SliceOK h s) : SliceOK h' s := by
  refine ⟨hs.1, ?_⟩
  rcases hs.2 with h0 | ⟨cells, hc, hl⟩
  · exact Or.inl h0
  · right
    have hlt : s.arr < h.length := by
      rcases Nat.lt_or_ge s.arr h.length with h1 | h1
      · exact h1
      · rw [List.getElem?_eq_none h1] at hc; cases hc
    exact ⟨cells, by rw [e.2 _ hlt, hc], hl⟩

theorem view_extends {h h' : Heap} {s : Slice} (e : Extends h h') (hs : SliceOK h s) : view h' s = view h s := by
  by_cases hc : 0 < s.cap
  · exact view_congr (Or.inr (e.2 _ (arr_lt_of_ok hs hc)))
  · exact view_congr (Or.inl (len_zero_of_cap_zero hs hc))

/-- State of the header map `m` under construction and of the heap `h`, relative to the heap
`hS` at the start of the call: nothing older than the call was touched, every entry of the map is
a nil slice or lives in an array allocated during this call, distinct keys in distinct arrays. -/
structure CallInv (hS : Heap) (m : HMap) (h : Heap) : Prop where
  ext : Extends hS h
  ok : ∀ k s, hlookup m k = some s → SliceOK h s
  fresh : ∀ k s, hlookup m k = some s → 0 < s.cap → hS.length ≤ s.arr
  distinct : ∀ k1 s1 k2 s2, hlookup m k1 = some s1 → hlookup m k2 = some s2 →
    0 < s1.cap → 0 < s2.cap → s1.arr = s2.arr → k1 = k2

/-- per key: the default values (as they were when the call started) then the own values added so far -/
def Vals (cfg : Cfg) (hS : Heap) (m : HMap) (h : Heap) (done : List (Bytes × Bytes)) : Prop :=
  ∀ k, view h ((hlookup m k).getD nilSlice) = dview cfg hS k ++ ownVals done k

theorem lookup_getD_ok {m : HMap} {h : Heap} (hok : ∀ k s, hlookup m k = some s → SliceOK h s) (k : Bytes) :
    SliceOK h ((hlookup m k).getD nilSlice) := by
  cases hk : hlookup m k with
  | none => exact sliceOK_nil h
  | some s => exact hok k s hk

/-! ### copying the defaults -/

/-- every entry of the copied map is nil or a fresh array of this call; distinct entries live in
distinct arrays; nothing older is touched -/
theorem copyDefaults_inv : ∀ (d : HMap) (h : Heap),
    Extends h (copyDefaults d h).2 ∧
    (∀ k s, hlookup (copyDefaults d h).1 k = some s →
      SliceOK (copyDefaults d h).2 s ∧ (0 < s.cap → h.length ≤ s.arr ∧ s.arr < (copyDefaults d h).2.length)) ∧
    (∀ k1 s1 k2 s2, hlookup (copyDefaults d h).1 k1 = some s1 → hlookup (copyDefaults d h).1 k2 = some s2 →
      0 < s1.cap → 0 < s2.cap → s1.arr = s2.arr → k1 = k2) := by
  intro d
  induction d with
  | nil => intro h; exact ⟨extends_refl h, (by intro k s hk; cases hk), (by intro k1 s1 k2 s2 hk; cases hk)⟩
  | cons e r ih =>
    intro h
    obtain ⟨k0, s0⟩ := e
    simp only [copyDefaults]
    by_cases hv : view h s0 = []
    · simp only [hv, ↓reduceIte]
      obtain ⟨e1, e2, e3⟩ := ih h
      refine ⟨e1, ?_, ?_⟩
      · intro k s hk
        simp only [hlookup] at hk
        split at hk
        · cases hk; exact ⟨sliceOK_nil _, by intro hc; simp [nilSlice] at hc⟩
        · exact e2 k s hk
      · intro k1 s1 k2 s2 h1 h2 c1 c2 harr
        simp only [hlookup] at h1 h2
        split at h1
        · cases h1; simp [nilSlice] at c1
        · split at h2
          · cases h2; simp [nilSlice] at c2
          · exact e3 k1 s1 k2 s2 h1 h2 c1 c2 harr
    · simp only [hv, ↓reduceIte]
      obtain ⟨e1, e2, e3⟩ := ih (h ++ [view h s0])
      have eh := extends_append h (view h s0)
      have hcell : (copyDefaults r (h ++ [view h s0])).2[h.length]? = some (view h s0) := by
        rw [e1.2 h.length (by simp)]; simp
      refine ⟨extends_trans eh e1, ?_, ?_⟩
      · intro k s hk
        simp only [hlookup] at hk
        split at hk
        · cases hk
          refine ⟨⟨Nat.le_refl _, Or.inr ⟨_, hcell, rfl⟩⟩, ?_⟩
          intro _
          have := e1.1; simp at this
          exact ⟨Nat.le_refl _, by simp only; omega⟩
        · obtain ⟨a, b⟩ := e2 k s hk
          exact ⟨a, fun hc => by have := b hc; simp at this; omega⟩
      · intro k1 s1 k2 s2 h1 h2 c1 c2 harr
        simp only [hlookup] at h1 h2
        split at h1 <;> split at h2
        · rename_i a b; rw [← a, ← b]
        · cases h1
          have := (e2 k2 s2 h2).2 c2
          simp at this harr; omega
        · cases h2
          have := (e2 k1 s1 h1).2 c1
          simp at this harr; omega
        · exact e3 k1 s1 k2 s2 h1 h2 c1 c2 harr

theorem copyDefaults_callInv (d : HMap) (h : Heap) : CallInv h (copyDefaults d h).1 (copyDefaults d h).2 := by
  obtain ⟨e1, e2, e3⟩ := copyDefaults_inv d h
  exact ⟨e1, fun k s hk => (e2 k s hk).1, fun k s hk hc => ((e2 k s hk).2 hc).1, e3⟩

/-- the copies show the default values; a key is present in the copy iff it is a default -/
theorem copyDefaults_views (hS : Heap) (k : Bytes) : ∀ (d : HMap) (h : Heap), Extends hS h →
    (hlookup d k = none → hlookup (copyDefaults d h).1 k = none) ∧
    (∀ s0, hlookup d k = some s0 → SliceOK hS s0 → ∃ s, hlookup (copyDefaults d h).1 k = some s ∧
      view (copyDefaults d h).2 s = view hS s0) := by
  intro d
  induction d with
  | nil => intro h _; exact ⟨fun _ => rfl, by intro s0 hk; cases hk⟩
  | cons e r ih =>
    intro h eh
    obtain ⟨k0, s0⟩ := e
    simp only [copyDefaults]
    by_cases hv : view h s0 = []
    · simp only [hv, ↓reduceIte, hlookup]
      by_cases hkk : k0 = k
      · simp only [hkk, ↓reduceIte]
        refine ⟨(by intro h0; cases h0), ?_⟩
        intro s0' hs hok
        cases hs
        refine ⟨nilSlice, rfl, ?_⟩
        rw [← view_extends eh hok, hv]; simp [view, nilSlice]
      · simp only [hkk, ↓reduceIte]
        exact ih h eh
    · simp only [hv, ↓reduceIte, hlookup]
      have eh1 : Extends hS (h ++ [view h s0]) := extends_trans eh (extends_append _ _)
      by_cases hkk : k0 = k
      · simp only [hkk, ↓reduceIte]
        refine ⟨(by intro h0; cases h0), ?_⟩
        intro s0' hs hok
        cases hs
        refine ⟨_, rfl, ?_⟩
        have e1 := (copyDefaults_inv r (h ++ [view h s0])).1
        have hcell : (copyDefaults r (h ++ [view h s0])).2[h.length]? = some (view h s0) := by
          rw [e1.2 h.length (by simp)]; simp
        have hvs : view h s0 = view hS s0 := view_extends eh hok
        generalize view h s0 = vs at hcell hvs ⊢
        show ((copyDefaults r (h ++ [vs])).2[h.length]?.getD []).take vs.length = view hS s0
        rw [hcell, ← hvs]; simp
      · simp only [hkk, ↓reduceIte]
        exact ih _ eh1

/-! ### one `append` -/

/-- one `tgt.Header[k] = append(tgt.Header[k], v)` preserves the invariant -/
theorem addHeader_inv (hS : Heap) (m : HMap) (h : Heap) (k v : Bytes) (inv : CallInv hS m h) :
    CallInv hS (addHeader m h k v).1 (addHeader m h k v).2 ∧
    ∀ (cfg : Cfg) (done : List (Bytes × Bytes)), Vals cfg hS m h done →
      Vals cfg hS (addHeader m h k v).1 (addHeader m h k v).2 (done ++ [(k, v)]) := by
  have hsok := lookup_getD_ok inv.ok k
  have hav := appendStr_view h ((hlookup m k).getD nilSlice) v hsok
  generalize hs : (hlookup m k).getD nilSlice = s at hsok hav
  have hlk : ∀ k', hlookup (addHeader m h k v).1 k' = if k = k' then some (appendStr h s v).2 else hlookup m k' := by
    intro k'; simp only [addHeader, hs, hlookup_hinsert]
  have hheap : (addHeader m h k v).2 = (appendStr h s v).1 := by simp only [addHeader, hs]
  by_cases hlt : s.len < s.cap
  · -- in place: s is a real entry of m, in an array of this call
    have hmk : hlookup m k = some s := by
      cases hk : hlookup m k with
      | none => rw [hk] at hs; simp at hs; subst hs; simp [nilSlice] at hlt
      | some s' => rw [hk] at hs; simp at hs; rw [hs]
    have hcap : 0 < s.cap := by omega
    have hfresh := inv.fresh k s hmk hcap
    have hnew : (appendStr h s v) = (h.modify s.arr (fun cells => cells.set s.len v), { s with len := s.len + 1 }) := by
      simp [appendStr, hlt]
    rw [hnew] at hlk hav hheap
    simp only at hlk hav hheap
    refine ⟨⟨?_, ?_, ?_, ?_⟩, ?_⟩
    · rw [hheap]
      refine ⟨by rw [List.length_modify]; exact inv.ext.1, ?_⟩
      intro a ha
      rw [← inv.ext.2 a ha]
      exact getElem?_modify_ne _ _ _ _ (by omega)
    · intro k' s' hk'
      rw [hlk] at hk'
      rw [hheap]
      split at hk'
      · cases hk'; exact hav.2
      · exact sliceOK_modify _ _ _ (inv.ok k' s' hk')
    · intro k' s' hk' hc'
      rw [hlk] at hk'
      split at hk'
      · cases hk'; exact hfresh
      · exact inv.fresh k' s' hk' hc'
    · intro k1 s1 k2 s2 h1 h2 c1 c2 harr
      rw [hlk] at h1 h2
      split at h1 <;> split at h2
      · rename_i a b; rw [← a, ← b]
      · rename_i a b; cases h1; subst a
        exact inv.distinct k s k2 s2 hmk h2 hcap c2 harr
      · rename_i a b; cases h2; subst b
        exact inv.distinct k1 s1 k s h1 hmk c1 hcap harr
      · exact inv.distinct k1 s1 k2 s2 h1 h2 c1 c2 harr
    · intro cfg done hvals k'
      have hvals_k := hvals k
      rw [hs] at hvals_k
      rw [hlk, hheap, ownVals_append]
      by_cases hkk : k = k'
      · subst hkk
        simp only [↓reduceIte, Option.getD_some]
        rw [hav.1, hvals_k]
        simp [ownVals]
      · simp only [hkk, ↓reduceIte]
        have hov : ownVals [(k, v)] k' = [] := by simp [ownVals, hkk]
        rw [hov, List.append_nil, ← hvals k']
        cases hk' : hlookup m k' with
        | none => simp [view, nilSlice]
        | some s' =>
          simp only [Option.getD_some]
          by_cases hc' : 0 < s'.cap
          · apply view_modify_other
            intro he
            exact hkk (inv.distinct k s k' s' hmk hk' hcap hc' he)
          · exact view_congr (Or.inl (len_zero_of_cap_zero (inv.ok k' s' hk') hc'))
  · -- reallocation
    have hnew : (appendStr h s v) = (h ++ [view h s ++ [v] ++ List.replicate (growCap s.cap - (s.len + 1)) []],
        { arr := h.length, len := s.len + 1, cap := growCap s.cap }) := by
      simp [appendStr, hlt]
    rw [hnew] at hlk hav hheap
    simp only at hlk hav hheap
    refine ⟨⟨?_, ?_, ?_, ?_⟩, ?_⟩
    · rw [hheap]; exact extends_trans inv.ext (extends_append _ _)
    · intro k' s' hk'
      rw [hlk] at hk'
      rw [hheap]
      split at hk'
      · cases hk'; exact hav.2
      · exact sliceOK_append _ (inv.ok k' s' hk')
    · intro k' s' hk' hc'
      rw [hlk] at hk'
      split at hk'
      · cases hk'; exact inv.ext.1
      · exact inv.fresh k' s' hk' hc'
    · intro k1 s1 k2 s2 h1 h2 c1 c2 harr
      rw [hlk] at h1 h2
      split at h1 <;> split at h2
      · rename_i a b; rw [← a, ← b]
      · cases h1
        have := arr_lt_of_ok (inv.ok k2 s2 h2) c2
        simp at harr; omega
      · cases h2
        have := arr_lt_of_ok (inv.ok k1 s1 h1) c1
        simp at harr; omega
      · exact inv.distinct k1 s1 k2 s2 h1 h2 c1 c2 harr
    · intro cfg done hvals k'
      have hvals_k := hvals k
      rw [hs] at hvals_k
      rw [hlk, hheap, ownVals_append]
      by_cases hkk : k = k'
      · subst hkk
        simp only [↓reduceIte, Option.getD_some]
        rw [hav.1, hvals_k]
        simp [ownVals]
      · simp only [hkk, ↓reduceIte]
        have hov : ownVals [(k, v)] k' = [] := by simp [ownVals, hkk]
        rw [hov, List.append_nil, ← hvals k']
        exact view_append _ (lookup_getD_ok inv.ok k')

/-! ### a whole call is a fold of `addHeader` over the header lines it parsed -/

def applyOwn (m : HMap) (h : Heap) : List (Bytes × Bytes) → HMap × Heap
  | [] => (m, h)
  | (k, v) :: r => applyOwn (addHeader m h k v).1 (addHeader m h k v).2 r

theorem applyOwn_inv (hS : Heap) (own : List (Bytes × Bytes)) :
    ∀ (m : HMap) (h : Heap), CallInv hS m h →
      CallInv hS (applyOwn m h own).1 (applyOwn m h own).2 ∧
      ∀ (cfg : Cfg) (done : List (Bytes × Bytes)), Vals cfg hS m h done →
        Vals cfg hS (applyOwn m h own).1 (applyOwn m h own).2 (done ++ own) := by
  induction own with
  | nil => intro m h inv; exact ⟨inv, fun cfg done hv => by simpa [applyOwn] using hv⟩
  | cons e r ih =>
    intro m h inv
    obtain ⟨k, v⟩ := e
    obtain ⟨i1, v1⟩ := addHeader_inv hS m h k v inv
    obtain ⟨i2, v2⟩ := ih _ _ i1
    refine ⟨i2, ?_⟩
    intro cfg done hv
    have := v2 cfg (done ++ [(k, v)]) (v1 cfg done hv)
    simpa [applyOwn] using this


theorem applyOwn_append (m : HMap) (h : Heap) (a b : List (Bytes × Bytes)) :
    applyOwn m h (a ++ b) = applyOwn (applyOwn m h a).1 (applyOwn m h a).2 b := by
  induction a generalizing m h with
  | nil => rfl
  | cons e r ih => obtain ⟨k, v⟩ := e; simp only [List.cons_append, applyOwn, ih]

theorem headerStep_stop {cfg : Cfg} {line : Bytes} {tgt tgt' : Target} {h h' : Heap} {e : Option Nat}
    (hs : headerStep cfg line tgt h = .stop e tgt' h') :
    h' = h ∧ tgt'.header = tgt.header ∧ tgt'.method = tgt.method ∧ tgt'.url = tgt.url := by
  unfold headerStep at hs
  split at hs
  · cases hs; exact ⟨rfl, rfl, rfl, rfl⟩
  · split at hs
    · cases hs
    · split at hs
      · split at hs <;> (cases hs; exact ⟨rfl, rfl, rfl, rfl⟩)
      · split at hs
        · cases hs; exact ⟨rfl, rfl, rfl, rfl⟩
        · dsimp only at hs
          split at hs
          · cases hs; exact ⟨rfl, rfl, rfl, rfl⟩
          · cases hs

theorem headerStep_next {cfg : Cfg} {line : Bytes} {tgt tgt' : Target} {h h' : Heap}
    (hs : headerStep cfg line tgt h = .next tgt' h') :
    tgt'.method = tgt.method ∧ tgt'.url = tgt.url ∧ tgt'.body = tgt.body ∧
    ((tgt'.header = tgt.header ∧ h' = h) ∨
      ∃ k v, tgt'.header = (addHeader tgt.header h k v).1 ∧ h' = (addHeader tgt.header h k v).2) := by
  unfold headerStep at hs
  split at hs
  · cases hs
  · split at hs
    · cases hs; exact ⟨rfl, rfl, rfl, Or.inl ⟨rfl, rfl⟩⟩
    · split at hs
      · split at hs <;> cases hs
      · split at hs
        · cases hs
        · dsimp only at hs
          split at hs
          · cases hs
          · rename_i k0 v0 _ _
            cases hs
            exact ⟨rfl, rfl, rfl, Or.inr ⟨_, _, rfl, rfl⟩⟩

/-- the header loop adds some list of header lines, in order, and touches nothing else -/
theorem headerL_fold (cfg : Cfg) : ∀ (ls : List Bytes) (tgt : Target) (h : Heap),
    ∃ own, ((headerL cfg ls tgt h).2.2.1.header, (headerL cfg ls tgt h).2.2.2) = applyOwn tgt.header h own ∧
      (headerL cfg ls tgt h).2.2.1.method = tgt.method ∧ (headerL cfg ls tgt h).2.2.1.url = tgt.url := by
  intro ls
  induction ls with
  | nil => intro tgt h; exact ⟨[], rfl, rfl, rfl⟩
  | cons t r ih =>
    intro tgt h
    simp only [headerL]
    cases hs : headerStep cfg (Vegeta.Model.Histogram.trimSpace t) tgt h with
    | stop e tgt' h' =>
      obtain ⟨e1, e2, e3, e4⟩ := headerStep_stop hs
      exact ⟨[], by simp [applyOwn, e1, e2], e3, e4⟩
    | next tgt' h' =>
      obtain ⟨e1, e2, _, e4⟩ := headerStep_next hs
      obtain ⟨own, o1, o2, o3⟩ := ih tgt' h'
      rcases e4 with ⟨a, b⟩ | ⟨k, v, a, b⟩
      · exact ⟨own, by simp only; rw [o1, a, b], by simp only; rw [o2, e1], by simp only; rw [o3, e2]⟩
      · refine ⟨(k, v) :: own, ?_, by simp only; rw [o2, e1], by simp only; rw [o3, e2]⟩
        simp only [applyOwn]; rw [o1, a, b]

theorem requestLine_header {cfg : Cfg} {line : Bytes} {hdr : HMap} {tgt : Target} (h : requestLine cfg line hdr = .ok tgt) :
    tgt.header = hdr ∧ tgt.body = cfg.body := by
  unfold requestLine at h
  split at h
  · cases h
  · split at h
    · cases h
    · split at h
      · cases h
      · cases h; exact ⟨rfl, rfl⟩

/-- the heap effect of a call that got past the skip loop: the defaults are copied, then the
parsed header lines are added to the copy; a returned target carries the resulting map. A call
that reports exhaustion leaves the heap alone. -/
theorem callL_fold (cfg : Cfg) (ls : List Bytes) (h : Heap) :
    ((callL cfg ls h).2.2 = h ∧ ∀ t, (callL cfg ls h).1 ≠ .ok t) ∨
    ∃ own, (callL cfg ls h).2.2 = (applyOwn (copyDefaults cfg.hdr h).1 (copyDefaults cfg.hdr h).2 own).2 ∧
      ∀ t, (callL cfg ls h).1 = .ok t → t.header = (applyOwn (copyDefaults cfg.hdr h).1 (copyDefaults cfg.hdr h).2 own).1 := by
  unfold callL
  cases skipL ls with
  | none => exact Or.inl ⟨rfl, by intro t ht; cases ht⟩
  | some lr =>
    obtain ⟨line, r⟩ := lr
    right
    simp only
    cases hrq : requestLine cfg line (copyDefaults cfg.hdr h).1 with
    | error e => exact ⟨[], rfl, by intro t ht; cases ht⟩
    | ok tgt =>
      have hh := (requestLine_header hrq).1
      simp only
      split
      · exact ⟨[], rfl, by intro t ht; cases ht; exact hh⟩
      · obtain ⟨own, o1, _, _⟩ := headerL_fold cfg (peekL r []).2 tgt (copyDefaults cfg.hdr h).2
        rw [hh] at o1
        generalize headerL cfg (peekL r []).2 tgt (copyDefaults cfg.hdr h).2 = res at o1
        obtain ⟨e, r3, t3, h3⟩ := res
        simp only at o1
        cases e with
        | none =>
          refine ⟨own, ?_, ?_⟩
          · simp only; rw [← o1]
          · intro t ht; cases ht; rw [← o1]
        | some e =>
          refine ⟨own, ?_, by intro t ht; cases ht⟩
          simp only; rw [← o1]

/-! ### consequences for one call and for sequences of calls -/

/-- **Frame**: a call touches nothing that existed before it, whatever the input and the
defaults; the slices of a returned target are well formed in the heap after the call. -/
theorem callL_frame (cfg : Cfg) (ls : List Bytes) (h : Heap) :
    Extends h (callL cfg ls h).2.2 ∧
    ∀ t, (callL cfg ls h).1 = .ok t → ∀ k s, hlookup t.header k = some s → SliceOK (callL cfg ls h).2.2 s := by
  rcases callL_fold cfg ls h with ⟨h1, h2⟩ | ⟨own, o1, o2⟩
  · rw [h1]; exact ⟨extends_refl h, fun t ht => absurd ht (h2 t)⟩
  · have inv := (applyOwn_inv h own _ _ (copyDefaults_callInv cfg.hdr h)).1
    rw [o1]
    refine ⟨inv.ext, ?_⟩
    intro t ht k s hk
    rw [o2 t ht] at hk
    exact inv.ok k s hk

theorem callsL_frame (cfg : Cfg) : ∀ (n : Nat) (ls : List Bytes) (h : Heap), Extends h (callsL cfg n ls h).2.2 := by
  intro n
  induction n with
  | zero => intro ls h; exact extends_refl h
  | succ n ih =>
    intro ls h
    simp only [callsL]
    exact extends_trans (callL_frame cfg ls h).1 (ih _ _)

/-- every target returned by any of `n` calls has, in the final heap, the view it had right
after its own call — for every input and every default header map -/
theorem callsL_stable (cfg : Cfg) : ∀ (n : Nat) (ls : List Bytes) (h : Heap),
    ∀ r ∈ (callsL cfg n ls h).1, ∀ t, r.1 = .ok t → ∀ k s, hlookup t.header k = some s →
      SliceOK r.2 s ∧ view (callsL cfg n ls h).2.2 s = view r.2 s := by
  intro n
  induction n with
  | zero => intro ls h r hr; simp [callsL] at hr
  | succ n ih =>
    intro ls h r hr t ht k s hk
    have f := callL_frame cfg ls h
    simp only [callsL] at hr ⊢
    simp only [List.mem_cons] at hr
    rcases hr with rfl | hr
    · have hok := f.2 t ht k s hk
      exact ⟨hok, view_extends (callsL_frame cfg n _ _) hok⟩
    · exact ih _ _ r hr t ht k s hk

/-- the defaults keep their values over any calls -/
theorem callsL_defaults (cfg : Cfg) (n : Nat) (ls : List Bytes) (h : Heap) (wf : WfDefaults cfg h) :
    ∀ k s0, hlookup cfg.hdr k = some s0 → view (callsL cfg n ls h).2.2 s0 = view h s0 :=
  fun k s0 hk => view_extends (callsL_frame cfg n ls h) (wf.ok k s0 hk)

theorem wf_extends {cfg : Cfg} {h h' : Heap} (e : Extends h h') (wf : WfDefaults cfg h) : WfDefaults cfg h' :=
  ⟨fun k s hk => sliceOK_extends e (wf.ok k s hk)⟩

/-! ### which keys a built header map has -/

theorem applyOwn_lookup_isSome (own : List (Bytes × Bytes)) : ∀ (m : HMap) (h : Heap) (k : Bytes),
    (hlookup (applyOwn m h own).1 k).isSome = ((hlookup m k).isSome || !(ownVals own k).isEmpty) := by
  induction own with
  | nil => intro m h k; simp [applyOwn, ownVals]
  | cons e r ih =>
    intro m h k
    obtain ⟨k', v⟩ := e
    simp only [applyOwn]
    rw [ih]
    have hl : hlookup (addHeader m h k' v).1 k = if k' = k then some (appendStr h ((hlookup m k').getD nilSlice) v).2 else hlookup m k := by
      simp only [addHeader, hlookup_hinsert]
    rw [hl]
    by_cases hkk : k' = k
    · subst hkk; simp [ownVals]
    · simp [hkk, ownVals]

/-- the header map a call builds from the heap `h`: copy the defaults, add the lines `own` -/
def built (cfg : Cfg) (h : Heap) (own : List (Bytes × Bytes)) : HMap × Heap :=
  applyOwn (copyDefaults cfg.hdr h).1 (copyDefaults cfg.hdr h).2 own

/-- **Merge semantics** of one decoded block: in the heap right after the call, the value list of
every key is the default values (as they were before the call) followed by the block's own
values in file order; a key is present iff it has a default or an own value. -/
theorem built_merge (cfg : Cfg) (h : Heap) (wf : WfDefaults cfg h) (own : List (Bytes × Bytes)) (k : Bytes) :
    (hlookup (built cfg h own).1 k).map (view (built cfg h own).2) =
      match (hlookup cfg.hdr k).map (view h), ownVals own k with
      | none, [] => none
      | none, vs => some vs
      | some ds, vs => some (ds ++ vs) := by
  have hcv := copyDefaults_views h k cfg.hdr h (extends_refl h)
  have v0 : Vals cfg h (copyDefaults cfg.hdr h).1 (copyDefaults cfg.hdr h).2 [] := by
    intro k'
    have hc := copyDefaults_views h k' cfg.hdr h (extends_refl h)
    simp only [dview, ownVals, List.filter_nil, List.map_nil, List.append_nil]
    cases hd : hlookup cfg.hdr k' with
    | none => rw [hc.1 hd]; simp [view, nilSlice]
    | some s0 =>
      obtain ⟨s, h1, h2⟩ := hc.2 s0 hd (wf.ok k' s0 hd)
      rw [h1]; exact h2
  have hv := (applyOwn_inv h own _ _ (copyDefaults_callInv cfg.hdr h)).2 cfg [] v0 k
  have hs := applyOwn_lookup_isSome own (copyDefaults cfg.hdr h).1 (copyDefaults cfg.hdr h).2 k
  simp only [List.nil_append] at hv
  simp only [built]
  cases hd : hlookup cfg.hdr k with
  | some s0 =>
    obtain ⟨s, h1, _⟩ := hcv.2 s0 hd (wf.ok k s0 hd)
    simp only [h1, Option.isSome_some, Bool.true_or] at hs
    cases hl : hlookup (applyOwn (copyDefaults cfg.hdr h).1 (copyDefaults cfg.hdr h).2 own).1 k with
    | none => rw [hl] at hs; cases hs
    | some s' =>
      rw [hl] at hv
      simp only [Option.getD_some, dview, hd] at hv
      simp only [Option.map_some, hv]
  | none =>
    simp only [hcv.1 hd, Option.isSome_none, Bool.false_or] at hs
    cases hl : hlookup (applyOwn (copyDefaults cfg.hdr h).1 (copyDefaults cfg.hdr h).2 own).1 k with
    | none =>
      rw [hl] at hs
      have : ownVals own k = [] := by
        cases ho : ownVals own k with
        | nil => rfl
        | cons a b => rw [ho] at hs; simp at hs
      simp [this]
    | some s' =>
      rw [hl] at hs hv
      simp only [Option.getD_some, dview, hd, List.nil_append] at hv
      cases ho : ownVals own k with
      | nil => rw [ho] at hs; simp at hs
      | cons a b => simp only [Option.map_some, Option.map_none, hv, ho]

theorem built_extends (cfg : Cfg) (h : Heap) (own : List (Bytes × Bytes)) : Extends h (built cfg h own).2 :=
  (applyOwn_inv h own _ _ (copyDefaults_callInv cfg.hdr h)).1.ext


/-! ### no shared backing arrays -/

/-- every value slice of a returned target lives in an array allocated during its own call
(index at or above the heap size before the call), and two keys of one target never share an array -/
theorem callL_arrays (cfg : Cfg) (ls : List Bytes) (h : Heap) (t : Target) (ht : (callL cfg ls h).1 = .ok t) :
    (∀ k s, hlookup t.header k = some s → 0 < s.cap → h.length ≤ s.arr ∧ s.arr < (callL cfg ls h).2.2.length) ∧
    (∀ k1 s1 k2 s2, hlookup t.header k1 = some s1 → hlookup t.header k2 = some s2 → 0 < s1.cap → 0 < s2.cap →
      s1.arr = s2.arr → k1 = k2) := by
  rcases callL_fold cfg ls h with ⟨_, h2⟩ | ⟨own, o1, o2⟩
  · exact absurd ht (h2 t)
  · have inv := (applyOwn_inv h own _ _ (copyDefaults_callInv cfg.hdr h)).1
    rw [o1, o2 t ht]
    exact ⟨fun k s hk hc => ⟨inv.fresh k s hk hc, arr_lt_of_ok (inv.ok k s hk) hc⟩, inv.distinct⟩

/-- the arrays of the targets handed out by successive calls are pairwise different, and none
of them existed before the first call (so none is an array of the default header map) -/
theorem callsL_arrays (cfg : Cfg) : ∀ (n : Nat) (ls : List Bytes) (h : Heap),
    (∀ r ∈ (callsL cfg n ls h).1, ∀ t, r.1 = .ok t → ∀ k s, hlookup t.header k = some s → 0 < s.cap →
      h.length ≤ s.arr ∧ s.arr < r.2.length) ∧
    List.Pairwise (fun (r1 r2 : Outcome Target × Heap) => ∀ t1 t2, r1.1 = .ok t1 → r2.1 = .ok t2 →
      ∀ k1 s1 k2 s2, hlookup t1.header k1 = some s1 → hlookup t2.header k2 = some s2 → 0 < s1.cap → 0 < s2.cap →
        s1.arr ≠ s2.arr) (callsL cfg n ls h).1 := by
  intro n
  induction n with
  | zero => intro ls h; simp [callsL]
  | succ n ih =>
    intro ls h
    obtain ⟨i1, i2⟩ := ih (callL cfg ls h).2.1 (callL cfg ls h).2.2
    have hext := (callL_frame cfg ls h).1
    simp only [callsL]
    constructor
    · intro r hr t ht k s hk hc
      simp only [List.mem_cons] at hr
      rcases hr with rfl | hr
      · exact (callL_arrays cfg ls h t ht).1 k s hk hc
      · have := i1 r hr t ht k s hk hc
        exact ⟨by have := hext.1; omega, this.2⟩
    · refine List.Pairwise.cons ?_ i2
      intro r2 hr2 t1 t2 ht1 ht2 k1 s1 k2 s2 hk1 hk2 c1 c2 heq
      have a1 := (callL_arrays cfg ls h t1 ht1).1 k1 s1 hk1 c1
      have a2 := i1 r2 hr2 t2 ht2 k2 s2 hk2 c2
      omega

end Vegeta.Proofs.HTTPHeap
