/-
Heap-level lemmas for C14: what `append` on shared default slices does to the views of the
default map, of the target under construction and of targets returned earlier.
-/
import Vegeta.Model.HTTPTargets
import Vegeta.Proofs.HTTPTargetsL
namespace Vegeta.Proofs.HTTPHeap
open Vegeta.Go
open Vegeta.Model.HTTPTargets
open Vegeta.Proofs.HTTPTargetsL

/-- values of `key` among parsed header lines, in file order -/
def ownVals (hs : List (Bytes × Bytes)) (key : Bytes) : List Bytes :=
  (hs.filter fun kv => kv.1 = key).map (·.2)

theorem ownVals_append (a b : List (Bytes × Bytes)) (k : Bytes) : ownVals (a ++ b) k = ownVals a k ++ ownVals b k := by
  simp [ownVals]

/-- a slice is backed by an allocation of exactly its capacity (or has no capacity at all) -/
def SliceOK (h : Heap) (s : Slice) : Prop :=
  s.len ≤ s.cap ∧ (s.cap = 0 ∨ ∃ cells, h[s.arr]? = some cells ∧ cells.length = s.cap)

theorem sliceOK_nil (h : Heap) : SliceOK h nilSlice := ⟨Nat.le_refl _, Or.inl rfl⟩

theorem view_length {h : Heap} {s : Slice} (hs : SliceOK h s) : (view h s).length = s.len := by
  obtain ⟨h1, h2⟩ := hs
  rcases h2 with h0 | ⟨cells, hc, hl⟩
  · have : s.len = 0 := by omega
    simp [view, this]
  · simp [view, hc]; omega

theorem arr_lt_of_ok {h : Heap} {s : Slice} (hs : SliceOK h s) (hc : 0 < s.cap) : s.arr < h.length := by
  rcases hs.2 with h0 | ⟨cells, hc', _⟩
  · omega
  · rcases Nat.lt_or_ge s.arr h.length with h1 | h1
    · exact h1
    · rw [List.getElem?_eq_none h1] at hc'; cases hc'

/-- views only depend on the backing array -/
theorem view_congr {h h' : Heap} {s : Slice} (hs : s.len = 0 ∨ h'[s.arr]? = h[s.arr]?) : view h' s = view h s := by
  rcases hs with h0 | he
  · simp [view, h0]
  · simp [view, he]

theorem len_zero_of_cap_zero {h : Heap} {s : Slice} (hs : SliceOK h s) (hc : ¬ 0 < s.cap) : s.len = 0 := by
  have := hs.1; omega

/-! ### the map operations -/

theorem hlookup_hinsert (m : HMap) (k k' : Bytes) (s : Slice) :
    hlookup (hinsert m k s) k' = if k = k' then some s else hlookup m k' := by
  induction m with
  | nil =>
    simp only [hinsert, hlookup]
  | cons e r ih =>
    obtain ⟨k0, s0⟩ := e
    simp only [hinsert]
    by_cases h0 : k0 = k
    · subst h0
      simp only [↓reduceIte, hlookup]
      by_cases h1 : k0 = k' <;> simp [h1]
    · simp only [h0, ↓reduceIte, hlookup, ih]
      by_cases h1 : k0 = k'
      · subst h1
        have : ¬ k = k0 := fun e => h0 e.symm
        simp [this]
      · simp [h1]

/-! ### heap updates and views -/

theorem getElem?_modify_ne {α} (l : List α) (i a : Nat) (f : α → α) (h : i ≠ a) : (l.modify i f)[a]? = l[a]? := by
  rw [List.getElem?_modify]
  cases l[a]? <;> simp [h]

theorem getElem?_modify_eq {α} (l : List α) (i : Nat) (f : α → α) : (l.modify i f)[i]? = (l[i]?).map f := by
  rw [List.getElem?_modify]
  cases l[i]? <;> simp

theorem sliceOK_modify {h : Heap} {t : Slice} (i j : Nat) (v : Bytes) (ht : SliceOK h t) :
    SliceOK (h.modify i fun cells => cells.set j v) t := by
  refine ⟨ht.1, ?_⟩
  rcases ht.2 with h0 | ⟨cells, hc, hl⟩
  · exact Or.inl h0
  · right
    by_cases he : i = t.arr
    · subst he
      exact ⟨cells.set j v, by rw [getElem?_modify_eq, hc]; rfl, by simp [hl]⟩
    · exact ⟨cells, by rw [getElem?_modify_ne _ _ _ _ he, hc], hl⟩

theorem sliceOK_append {h : Heap} {t : Slice} (c : List Bytes) (ht : SliceOK h t) : SliceOK (h ++ [c]) t := by
  refine ⟨ht.1, ?_⟩
  rcases ht.2 with h0 | ⟨cells, hc, hl⟩
  · exact Or.inl h0
  · right
    have hlt : t.arr < h.length := by
      rcases Nat.lt_or_ge t.arr h.length with h1 | h1
      · exact h1
      · rw [List.getElem?_eq_none h1] at hc; cases hc
    exact ⟨cells, by rw [List.getElem?_append_left hlt, hc], hl⟩

theorem view_modify_other {h : Heap} {t : Slice} (i : Nat) (f : List Bytes → List Bytes) (hne : i ≠ t.arr) :
    view (h.modify i f) t = view h t :=
  view_congr (Or.inr (getElem?_modify_ne _ _ _ _ hne))

theorem view_modify_below {h : Heap} {t : Slice} (j : Nat) (v : Bytes) (hle : t.len ≤ j) :
    view (h.modify t.arr fun cells => cells.set j v) t = view h t := by
  simp only [view, getElem?_modify_eq]
  cases h[t.arr]? with
  | none => simp
  | some cells => simp [List.take_set_of_le hle]

theorem view_append {h : Heap} {t : Slice} (c : List Bytes) (ht : SliceOK h t) : view (h ++ [c]) t = view h t := by
  by_cases hc : 0 < t.cap
  · exact view_congr (Or.inr (List.getElem?_append_left (arr_lt_of_ok ht hc)))
  · exact view_congr (Or.inl (len_zero_of_cap_zero ht hc))

/-! ### append -/

theorem growCap_gt (c : Nat) : c < growCap c := by
  unfold growCap; split <;> omega

/-- `append` extends the view by the new value and keeps the slice well-formed -/
theorem appendStr_view (h : Heap) (s : Slice) (v : Bytes) (hs : SliceOK h s) :
    view (appendStr h s v).1 (appendStr h s v).2 = view h s ++ [v] ∧ SliceOK (appendStr h s v).1 (appendStr h s v).2 := by
  by_cases hlt : s.len < s.cap
  · simp only [appendStr, hlt, ↓reduceIte]
    obtain ⟨_, h2⟩ := hs
    rcases h2 with h0 | ⟨cells, hc, hl⟩
    · omega
    · have hm : (h.modify s.arr fun cells => cells.set s.len v)[s.arr]? = some (cells.set s.len v) := by
        rw [getElem?_modify_eq, hc]; rfl
      constructor
      · simp only [view, hm, hc, Option.getD_some]
        rw [List.take_add_one, List.take_set_of_le (Nat.le_refl _), List.getElem?_set]
        simp [hl, hlt]
      · exact ⟨by simp; omega, Or.inr ⟨_, hm, by simp [hl]⟩⟩
  · have hlen := view_length hs
    have hcap : s.len = s.cap := by have := hs.1; omega
    have hg := growCap_gt s.cap
    simp only [appendStr, hlt, ↓reduceIte]
    constructor
    · simp only [view, List.getElem?_concat_length, Option.getD_some]
      have : ((h[s.arr]?.getD []).take s.len ++ [v]).length = s.len + 1 := by
        have := hlen; simp only [view] at this; simp [this]
      rw [List.take_left' this]
    · refine ⟨by simp; omega, Or.inr ⟨_, List.getElem?_concat_length, ?_⟩⟩
      have := hlen; simp only [view] at this
      simp; omega

/-! ### the invariant of one call -/

/-- the default header map as the caller built it: slices backed by allocations, distinct keys
do not share an allocation -/
structure WfDefaults (cfg : Cfg) (h : Heap) : Prop where
  ok : ∀ k s, hlookup cfg.hdr k = some s → SliceOK h s
  distinct : ∀ k1 s1 k2 s2, hlookup cfg.hdr k1 = some s1 → hlookup cfg.hdr k2 = some s2 →
    0 < s1.cap → 0 < s2.cap → s1.arr = s2.arr → k1 = k2

/-- default values of a key as seen through heap `hS` -/
def dview (cfg : Cfg) (hS : Heap) (k : Bytes) : List Bytes :=
  match hlookup cfg.hdr k with
  | some s0 => view hS s0
  | none => []

/-- no default slice with spare capacity lives in array `a` -/
def NotSpare (cfg : Cfg) (a : Nat) : Prop :=
  ∀ k s0, hlookup cfg.hdr k = some s0 → s0.arr = a → ¬ s0.len < s0.cap

/-- State of the header map `m` under construction and of the heap `h`, relative to the heap
`hS` at the start of the call, after the header lines `done` have been added. -/
structure CallInv (cfg : Cfg) (hS : Heap) (m : HMap) (h : Heap) (done : List (Bytes × Bytes)) : Prop where
  grow : hS.length ≤ h.length
  lens : ∀ a, a < hS.length → (h[a]?).map List.length = (hS[a]?).map List.length
  frame : ∀ a, a < hS.length → NotSpare cfg a → h[a]? = hS[a]?
  dviews : ∀ k s0, hlookup cfg.hdr k = some s0 → view h s0 = view hS s0
  ok : ∀ k s, hlookup m k = some s → SliceOK h s
  orig : ∀ k s, hlookup m k = some s → 0 < s.cap →
    hS.length ≤ s.arr ∨ ∃ s0, hlookup cfg.hdr k = some s0 ∧ s.arr = s0.arr ∧ s.cap = s0.cap ∧ s0.len ≤ s.len
  distinct : ∀ k1 s1 k2 s2, hlookup m k1 = some s1 → hlookup m k2 = some s2 →
    0 < s1.cap → 0 < s2.cap → s1.arr = s2.arr → k1 = k2
  vals : ∀ k, view h ((hlookup m k).getD nilSlice) = dview cfg hS k ++ ownVals done k

theorem callInv_init (cfg : Cfg) (hS : Heap) (wf : WfDefaults cfg hS) : CallInv cfg hS cfg.hdr hS [] where
  grow := Nat.le_refl _
  lens := fun _ _ => rfl
  frame := fun _ _ _ => rfl
  dviews := fun _ _ _ => rfl
  ok := wf.ok
  orig := fun k s hk _ => Or.inr ⟨s, hk, rfl, rfl, Nat.le_refl _⟩
  distinct := wf.distinct
  vals := by
    intro k
    simp only [dview, ownVals, List.filter_nil, List.map_nil, List.append_nil]
    cases hlookup cfg.hdr k with
    | none => simp [view, nilSlice]
    | some s => rfl

theorem lookup_getD_ok {m : HMap} {h : Heap} (hok : ∀ k s, hlookup m k = some s → SliceOK h s) (k : Bytes) :
    SliceOK h ((hlookup m k).getD nilSlice) := by
  cases hk : hlookup m k with
  | none => exact sliceOK_nil h
  | some s => exact hok k s hk

/-- one `tgt.Header[k] = append(tgt.Header[k], v)` preserves the invariant -/
theorem addHeader_inv (cfg : Cfg) (hS : Heap) (wf : WfDefaults cfg hS) (m : HMap) (h : Heap)
    (done : List (Bytes × Bytes)) (k v : Bytes) (inv : CallInv cfg hS m h done) :
    CallInv cfg hS (addHeader m h k v).1 (addHeader m h k v).2 (done ++ [(k, v)]) := by
  have hsok := lookup_getD_ok inv.ok k
  have hav := appendStr_view h ((hlookup m k).getD nilSlice) v hsok
  generalize hs : (hlookup m k).getD nilSlice = s at hsok hav
  have hvals_k := inv.vals k
  rw [hs] at hvals_k
  -- lookups in the new map
  have hlk : ∀ k', hlookup (addHeader m h k v).1 k' = if k = k' then some (appendStr h s v).2 else hlookup m k' := by
    intro k'; simp only [addHeader, hs, hlookup_hinsert]
  have hheap : (addHeader m h k v).2 = (appendStr h s v).1 := by simp only [addHeader, hs]
  by_cases hlt : s.len < s.cap
  · -- in place: s is a real entry of m
    have hmk : hlookup m k = some s := by
      cases hk : hlookup m k with
      | none => rw [hk] at hs; simp at hs; subst hs; simp [nilSlice] at hlt
      | some s' => rw [hk] at hs; simp at hs; rw [hs]
    have hcap : 0 < s.cap := by omega
    have hnew : (appendStr h s v) = (h.modify s.arr (fun cells => cells.set s.len v), { s with len := s.len + 1 }) := by
      simp [appendStr, hlt]
    rw [hnew] at hlk hav hheap
    simp only at hlk hav hheap
    -- is s a shared default slice?
    have horig := inv.orig k s hmk hcap
    refine ⟨?_, ?_, ?_, ?_, ?_, ?_, ?_, ?_⟩
    · rw [hheap, List.length_modify]; exact inv.grow
    · intro a ha
      rw [hheap, ← inv.lens a ha]
      by_cases he : s.arr = a
      · subst he; rw [getElem?_modify_eq]; cases h[s.arr]? <;> simp
      · rw [getElem?_modify_ne _ _ _ _ he]
    · intro a ha hns
      rw [hheap, ← inv.frame a ha hns]
      apply getElem?_modify_ne
      intro he
      rcases horig with hfresh | ⟨s0, h0, e1, e2, e3⟩
      · omega
      · exact hns k s0 h0 (by omega) (by omega)
    · intro k2 s2 hk2
      rw [hheap, ← inv.dviews k2 s2 hk2]
      by_cases he : s.arr = s2.arr
      · by_cases hc2 : 0 < s2.cap
        · rcases horig with hfresh | ⟨s0, h0, e1, e2, e3⟩
          · have := arr_lt_of_ok (wf.ok k2 s2 hk2) hc2; omega
          · have hkk : k = k2 := wf.distinct k s0 k2 s2 h0 hk2 (by omega) hc2 (by omega)
            subst hkk
            rw [h0] at hk2; cases hk2
            rw [he]; exact view_modify_below _ _ e3
        · exact view_congr (Or.inl (len_zero_of_cap_zero (wf.ok k2 s2 hk2) hc2))
      · exact view_modify_other _ _ he
    · intro k' s' hk'
      rw [hlk] at hk'
      rw [hheap]
      split at hk'
      · cases hk'; exact hav.2
      · exact sliceOK_modify _ _ _ (inv.ok k' s' hk')
    · intro k' s' hk' hc'
      rw [hlk] at hk'
      split at hk'
      · rename_i hkk; subst hkk; cases hk'
        rcases horig with hfresh | ⟨s0, h0, e1, e2, e3⟩
        · exact Or.inl hfresh
        · exact Or.inr ⟨s0, h0, e1, e2, by simp; omega⟩
      · exact inv.orig k' s' hk' hc'
    · intro k1 s1 k2 s2 h1 h2 c1 c2 harr
      rw [hlk] at h1 h2
      split at h1 <;> split at h2
      · rename_i a b; rw [← a, ← b]
      · rename_i a b; cases h1; subst a
        exact inv.distinct k s k2 s2 hmk h2 hcap c2 harr
      · rename_i a b; cases h2; subst b
        exact inv.distinct k1 s1 k s h1 hmk c1 hcap harr
      · exact inv.distinct k1 s1 k2 s2 h1 h2 c1 c2 harr
    · intro k'
      rw [hlk, hheap, ownVals_append]
      by_cases hkk : k = k'
      · subst hkk
        simp only [↓reduceIte, Option.getD_some]
        rw [hav.1, hvals_k]
        simp [ownVals]
      · simp only [hkk, ↓reduceIte]
        have hov : ownVals [(k, v)] k' = [] := by simp [ownVals, hkk]
        rw [hov, List.append_nil, ← inv.vals k']
        cases hk' : hlookup m k' with
        | none => simp [view, nilSlice]
        | some s' =>
          simp only [Option.getD_some]
          by_cases hc' : 0 < s'.cap
          · apply view_modify_other
            intro he
            exact hkk (inv.distinct k s k' s' hmk hk' hcap hc' he)
          · exact view_congr (Or.inl (len_zero_of_cap_zero (inv.ok k' s' hk') hc'))
  · -- reallocation
    have hnew : (appendStr h s v) = (h ++ [view h s ++ [v] ++ List.replicate (growCap s.cap - (s.len + 1)) []],
        { arr := h.length, len := s.len + 1, cap := growCap s.cap }) := by
      simp [appendStr, hlt]
    rw [hnew] at hlk hav hheap
    simp only at hlk hav hheap
    refine ⟨?_, ?_, ?_, ?_, ?_, ?_, ?_, ?_⟩
    · rw [hheap]; have := inv.grow; simp; omega
    · intro a ha
      rw [hheap, ← inv.lens a ha, List.getElem?_append_left (by have := inv.grow; omega)]
    · intro a ha hns
      rw [hheap, ← inv.frame a ha hns, List.getElem?_append_left (by have := inv.grow; omega)]
    · intro k2 s2 hk2
      rw [hheap, ← inv.dviews k2 s2 hk2]
      by_cases hc2 : 0 < s2.cap
      · have := arr_lt_of_ok (wf.ok k2 s2 hk2) hc2
        exact view_congr (Or.inr (List.getElem?_append_left (by have := inv.grow; omega)))
      · exact view_congr (Or.inl (len_zero_of_cap_zero (wf.ok k2 s2 hk2) hc2))
    · intro k' s' hk'
      rw [hlk] at hk'
      rw [hheap]
      split at hk'
      · cases hk'; exact hav.2
      · exact sliceOK_append _ (inv.ok k' s' hk')
    · intro k' s' hk' hc'
      rw [hlk] at hk'
      split at hk'
      · cases hk'; exact Or.inl inv.grow
      · exact inv.orig k' s' hk' hc'
    · intro k1 s1 k2 s2 h1 h2 c1 c2 harr
      rw [hlk] at h1 h2
      split at h1 <;> split at h2
      · rename_i a b; rw [← a, ← b]
      · cases h1
        have := arr_lt_of_ok (inv.ok k2 s2 h2) c2
        simp at harr; omega
      · cases h2
        have := arr_lt_of_ok (inv.ok k1 s1 h1) c1
        simp at harr; omega
      · exact inv.distinct k1 s1 k2 s2 h1 h2 c1 c2 harr
    · intro k'
      rw [hlk, hheap, ownVals_append]
      by_cases hkk : k = k'
      · subst hkk
        simp only [↓reduceIte, Option.getD_some]
        rw [hav.1, hvals_k]
        simp [ownVals]
      · simp only [hkk, ↓reduceIte]
        have hov : ownVals [(k, v)] k' = [] := by simp [ownVals, hkk]
        rw [hov, List.append_nil, ← inv.vals k']
        exact view_append _ (lookup_getD_ok inv.ok k')


/-! ### a whole call is a fold of `addHeader` over the header lines it parsed -/

def applyOwn (m : HMap) (h : Heap) : List (Bytes × Bytes) → HMap × Heap
  | [] => (m, h)
  | (k, v) :: r => applyOwn (addHeader m h k v).1 (addHeader m h k v).2 r

theorem applyOwn_append (m : HMap) (h : Heap) (a b : List (Bytes × Bytes)) :
    applyOwn m h (a ++ b) = applyOwn (applyOwn m h a).1 (applyOwn m h a).2 b := by
  induction a generalizing m h with
  | nil => rfl
  | cons e r ih => obtain ⟨k, v⟩ := e; simp only [List.cons_append, applyOwn, ih]

theorem applyOwn_inv (cfg : Cfg) (hS : Heap) (wf : WfDefaults cfg hS) (own : List (Bytes × Bytes)) :
    ∀ (m : HMap) (h : Heap) (done : List (Bytes × Bytes)), CallInv cfg hS m h done →
      CallInv cfg hS (applyOwn m h own).1 (applyOwn m h own).2 (done ++ own) := by
  induction own with
  | nil => intro m h done inv; simpa [applyOwn] using inv
  | cons e r ih =>
    intro m h done inv
    obtain ⟨k, v⟩ := e
    have := ih _ _ _ (addHeader_inv cfg hS wf m h done k v inv)
    simpa [applyOwn] using this

theorem headerStep_stop {cfg : Cfg} {line : Bytes} {tgt tgt' : Target} {h h' : Heap} {e : Option Nat}
    (hs : headerStep cfg line tgt h = .stop e tgt' h') :
    h' = h ∧ tgt'.header = tgt.header ∧ tgt'.method = tgt.method ∧ tgt'.url = tgt.url := by
  unfold headerStep at hs
  split at hs
  · cases hs; exact ⟨rfl, rfl, rfl, rfl⟩
  · split at hs
    · cases hs
    · split at hs
      · split at hs <;> (cases hs; exact ⟨rfl, rfl, rfl, rfl⟩)
      · split at hs
        · cases hs; exact ⟨rfl, rfl, rfl, rfl⟩
        · dsimp only at hs
          split at hs
          · cases hs; exact ⟨rfl, rfl, rfl, rfl⟩
          · cases hs

theorem headerStep_next {cfg : Cfg} {line : Bytes} {tgt tgt' : Target} {h h' : Heap}
    (hs : headerStep cfg line tgt h = .next tgt' h') :
    tgt'.method = tgt.method ∧ tgt'.url = tgt.url ∧ tgt'.body = tgt.body ∧
    ((tgt'.header = tgt.header ∧ h' = h) ∨
      ∃ k v, tgt'.header = (addHeader tgt.header h k v).1 ∧ h' = (addHeader tgt.header h k v).2) := by
  unfold headerStep at hs
  split at hs
  · cases hs
  · split at hs
    · cases hs; exact ⟨rfl, rfl, rfl, Or.inl ⟨rfl, rfl⟩⟩
    · split at hs
      · split at hs <;> cases hs
      · split at hs
        · cases hs
        · dsimp only at hs
          split at hs
          · cases hs
          · rename_i k0 v0 _ _
            cases hs
            exact ⟨rfl, rfl, rfl, Or.inr ⟨_, _, rfl, rfl⟩⟩

/-- the header loop adds some list of header lines, in order, and touches nothing else -/
theorem headerL_fold (cfg : Cfg) : ∀ (ls : List Bytes) (tgt : Target) (h : Heap),
    ∃ own, ((headerL cfg ls tgt h).2.2.1.header, (headerL cfg ls tgt h).2.2.2) = applyOwn tgt.header h own ∧
      (headerL cfg ls tgt h).2.2.1.method = tgt.method ∧ (headerL cfg ls tgt h).2.2.1.url = tgt.url := by
  intro ls
  induction ls with
  | nil => intro tgt h; exact ⟨[], rfl, rfl, rfl⟩
  | cons t r ih =>
    intro tgt h
    simp only [headerL]
    cases hs : headerStep cfg (Vegeta.Model.Histogram.trimSpace t) tgt h with
    | stop e tgt' h' =>
      obtain ⟨e1, e2, e3, e4⟩ := headerStep_stop hs
      exact ⟨[], by simp [applyOwn, e1, e2], e3, e4⟩
    | next tgt' h' =>
      obtain ⟨e1, e2, _, e4⟩ := headerStep_next hs
      obtain ⟨own, o1, o2, o3⟩ := ih tgt' h'
      rcases e4 with ⟨a, b⟩ | ⟨k, v, a, b⟩
      · exact ⟨own, by simp only; rw [o1, a, b], by simp only; rw [o2, e1], by simp only; rw [o3, e2]⟩
      · refine ⟨(k, v) :: own, ?_, by simp only; rw [o2, e1], by simp only; rw [o3, e2]⟩
        simp only [applyOwn]; rw [o1, a, b]

theorem requestLine_header {cfg : Cfg} {line : Bytes} {tgt : Target} (h : requestLine cfg line = .ok tgt) :
    tgt.header = cfg.hdr ∧ tgt.body = cfg.body := by
  unfold requestLine at h
  split at h
  · cases h
  · split at h
    · cases h
    · split at h
      · cases h
      · cases h; exact ⟨rfl, rfl⟩

/-- the heap effect of a call is a fold over the header lines it parsed; a returned target
carries the resulting map -/
theorem callL_fold (cfg : Cfg) (ls : List Bytes) (h : Heap) :
    ∃ own, (callL cfg ls h).2.2 = (applyOwn cfg.hdr h own).2 ∧
      ∀ t, (callL cfg ls h).1 = .ok t → t.header = (applyOwn cfg.hdr h own).1 := by
  unfold callL
  cases skipL ls with
  | none => exact ⟨[], rfl, by intro t ht; cases ht⟩
  | some lr =>
    obtain ⟨line, r⟩ := lr
    simp only
    cases hrq : requestLine cfg line with
    | error e => exact ⟨[], rfl, by intro t ht; cases ht⟩
    | ok tgt =>
      have hh := (requestLine_header hrq).1
      simp only
      split
      · exact ⟨[], rfl, by intro t ht; cases ht; exact hh⟩
      · obtain ⟨own, o1, _, _⟩ := headerL_fold cfg r tgt h
        rw [hh] at o1
        generalize headerL cfg r tgt h = res at o1
        obtain ⟨e, r3, t3, h3⟩ := res
        simp only at o1
        cases e with
        | none =>
          refine ⟨own, ?_, ?_⟩
          · simp only; rw [← o1]
          · intro t ht; cases ht; rw [← o1]
        | some e =>
          refine ⟨own, ?_, by intro t ht; cases ht⟩
          simp only; rw [← o1]

/-! ### consequences for one call and for sequences of calls -/

/-- every default slice is full: `len = cap` -/
def FullDefaults (cfg : Cfg) : Prop := ∀ k s, hlookup cfg.hdr k = some s → s.len = s.cap

theorem sliceOK_of_lens {hS h : Heap} {s : Slice} (hs : SliceOK hS s)
    (lens : ∀ a, a < hS.length → (h[a]?).map List.length = (hS[a]?).map List.length) : SliceOK h s := by
  refine ⟨hs.1, ?_⟩
  rcases hs.2 with h0 | ⟨cells, hc, hl⟩
  · exact Or.inl h0
  · right
    have hlt : s.arr < hS.length := by
      rcases Nat.lt_or_ge s.arr hS.length with h1 | h1
      · exact h1
      · rw [List.getElem?_eq_none h1] at hc; cases hc
    have := lens s.arr hlt
    rw [hc] at this
    cases hh : h[s.arr]? with
    | none => rw [hh] at this; cases this
    | some c' => rw [hh] at this; simp at this; exact ⟨c', rfl, by omega⟩

structure CallFacts (cfg : Cfg) (h : Heap) (res : Outcome Target × List Bytes × Heap) : Prop where
  wf : WfDefaults cfg res.2.2
  dviews : ∀ k s0, hlookup cfg.hdr k = some s0 → view res.2.2 s0 = view h s0
  keep : ∀ s, SliceOK h s → SliceOK res.2.2 s
  frame : ∀ s, SliceOK h s → (0 < s.cap → NotSpare cfg s.arr) → view res.2.2 s = view h s
  merged : ∀ t, res.1 = .ok t → ∃ own, (∀ k s, hlookup t.header k = some s → SliceOK res.2.2 s) ∧
    ∀ k, view res.2.2 ((hlookup t.header k).getD nilSlice) = dview cfg h k ++ ownVals own k

theorem callL_facts (cfg : Cfg) (ls : List Bytes) (h : Heap) (wf : WfDefaults cfg h) :
    CallFacts cfg h (callL cfg ls h) := by
  obtain ⟨own, o1, o2⟩ := callL_fold cfg ls h
  have inv := applyOwn_inv cfg h wf own cfg.hdr h [] (callInv_init cfg h wf)
  rw [← o1] at inv
  refine ⟨⟨?_, wf.distinct⟩, inv.dviews, ?_, ?_, ?_⟩
  · intro k s hk; exact sliceOK_of_lens (wf.ok k s hk) inv.lens
  · intro s hs; exact sliceOK_of_lens hs inv.lens
  · intro s hs hns
    by_cases hc : 0 < s.cap
    · exact view_congr (Or.inr (inv.frame s.arr (arr_lt_of_ok hs hc) (hns hc)))
    · exact view_congr (Or.inl (len_zero_of_cap_zero hs hc))
  · intro t ht
    have := o2 t ht
    refine ⟨own, ?_, ?_⟩
    · intro k s hk; rw [this] at hk; exact inv.ok k s hk
    · intro k; rw [this]; simpa using inv.vals k

theorem notSpare_of_full {cfg : Cfg} (full : FullDefaults cfg) (a : Nat) : NotSpare cfg a := by
  intro k s0 hk _ hlt
  have := full k s0 hk; omega

/-- over any number of further calls: the defaults keep their values; with full default
slices every well-formed slice (hence every target returned earlier) keeps its view -/
theorem callsL_facts (cfg : Cfg) : ∀ (n : Nat) (ls : List Bytes) (h : Heap), WfDefaults cfg h →
    WfDefaults cfg (callsL cfg n ls h).2.2 ∧
    (∀ k s0, hlookup cfg.hdr k = some s0 → view (callsL cfg n ls h).2.2 s0 = view h s0) ∧
    (∀ s, SliceOK h s → SliceOK (callsL cfg n ls h).2.2 s) ∧
    (FullDefaults cfg → ∀ s, SliceOK h s → view (callsL cfg n ls h).2.2 s = view h s) := by
  intro n
  induction n with
  | zero => intro ls h wf; exact ⟨wf, fun _ _ _ => rfl, fun _ hs => hs, fun _ _ _ => rfl⟩
  | succ n ih =>
    intro ls h wf
    have f := callL_facts cfg ls h wf
    obtain ⟨w2, d2, k2, s2⟩ := ih (callL cfg ls h).2.1 (callL cfg ls h).2.2 f.wf
    simp only [callsL]
    refine ⟨w2, ?_, ?_, ?_⟩
    · intro k s0 hk; rw [d2 k s0 hk, f.dviews k s0 hk]
    · intro s hs; exact k2 s (f.keep s hs)
    · intro full s hs
      rw [s2 full s (f.keep s hs), f.frame s hs (fun _ => notSpare_of_full full _)]


/-- every target returned by any of `n` calls has, in the final heap, the view it had right
after its own call — provided no default slice has spare capacity -/
theorem callsL_stable (cfg : Cfg) (full : FullDefaults cfg) : ∀ (n : Nat) (ls : List Bytes) (h : Heap), WfDefaults cfg h →
    ∀ r ∈ (callsL cfg n ls h).1, ∀ t, r.1 = .ok t → ∀ k s, hlookup t.header k = some s →
      SliceOK r.2 s ∧ view (callsL cfg n ls h).2.2 s = view r.2 s := by
  intro n
  induction n with
  | zero => intro ls h _ r hr; simp [callsL] at hr
  | succ n ih =>
    intro ls h wf r hr t ht k s hk
    have f := callL_facts cfg ls h wf
    simp only [callsL] at hr ⊢
    simp only [List.mem_cons] at hr
    rcases hr with rfl | hr
    · obtain ⟨own, m1, _⟩ := f.merged t ht
      have hok := m1 k s hk
      exact ⟨hok, (callsL_facts cfg n _ _ f.wf).2.2.2 full s hok⟩
    · exact ih _ _ f.wf r hr t ht k s hk

/-- the defaults keep their values over any calls (spare capacity or not) -/
theorem callsL_defaults (cfg : Cfg) (n : Nat) (ls : List Bytes) (h : Heap) (wf : WfDefaults cfg h) :
    ∀ k s0, hlookup cfg.hdr k = some s0 → view (callsL cfg n ls h).2.2 s0 = view h s0 :=
  (callsL_facts cfg n ls h wf).2.1

/-! ### which keys a built header map has -/

theorem applyOwn_lookup_isSome (own : List (Bytes × Bytes)) : ∀ (m : HMap) (h : Heap) (k : Bytes),
    (hlookup (applyOwn m h own).1 k).isSome = ((hlookup m k).isSome || !(ownVals own k).isEmpty) := by
  induction own with
  | nil => intro m h k; simp [applyOwn, ownVals]
  | cons e r ih =>
    intro m h k
    obtain ⟨k', v⟩ := e
    simp only [applyOwn]
    rw [ih]
    have hl : hlookup (addHeader m h k' v).1 k = if k' = k then some (appendStr h ((hlookup m k').getD nilSlice) v).2 else hlookup m k := by
      simp only [addHeader, hlookup_hinsert]
    rw [hl]
    by_cases hkk : k' = k
    · subst hkk; simp [ownVals]
    · simp [hkk, ownVals]

/-- **Merge semantics** of one decoded block: in the heap right after the call, the value list of
every key is the default values (as they were before the call) followed by the block's own
values in file order; a key is present iff it has a default or an own value. -/
theorem applyOwn_merge (cfg : Cfg) (h : Heap) (wf : WfDefaults cfg h) (own : List (Bytes × Bytes)) (k : Bytes) :
    (hlookup (applyOwn cfg.hdr h own).1 k).map (view (applyOwn cfg.hdr h own).2) =
      match (hlookup cfg.hdr k).map (view h), ownVals own k with
      | none, [] => none
      | none, vs => some vs
      | some ds, vs => some (ds ++ vs) := by
  have inv := applyOwn_inv cfg h wf own cfg.hdr h [] (callInv_init cfg h wf)
  have hv := inv.vals k
  have hs := applyOwn_lookup_isSome own cfg.hdr h k
  simp only [List.nil_append] at hv
  cases hd : hlookup cfg.hdr k with
  | some s0 =>
    simp only [hd, Option.isSome_some, Bool.true_or] at hs
    cases hl : hlookup (applyOwn cfg.hdr h own).1 k with
    | none => rw [hl] at hs; cases hs
    | some s =>
      rw [hl] at hv
      simp only [Option.getD_some, dview, hd] at hv
      simp only [Option.map_some, hv]
  | none =>
    simp only [hd, Option.isSome_none, Bool.false_or] at hs
    cases hl : hlookup (applyOwn cfg.hdr h own).1 k with
    | none =>
      rw [hl] at hs
      have : ownVals own k = [] := by
        cases ho : ownVals own k with
        | nil => rfl
        | cons a b => rw [ho] at hs; simp at hs
      simp [this]
    | some s =>
      rw [hl] at hs hv
      simp only [Option.getD_some, dview, hd, List.nil_append] at hv
      cases ho : ownVals own k with
      | nil => rw [ho] at hs; simp at hs
      | cons a b => simp only [Option.map_some, Option.map_none, hv, ho]

end Vegeta.Proofs.HTTPHeap
