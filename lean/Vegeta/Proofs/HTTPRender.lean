/-
Part 2 of the grammar proof: the lines `bufio.ScanLines` makes of a rendered document of
`Spec.TargetGrammar` are classified as the grammar says (request line, header line, body line,
comment, blank), so the results of `HTTPGrammar` apply.
-/
import Vegeta.Proofs.HTTPGrammar
namespace Vegeta.Proofs.HTTPRender
open Vegeta.Go
open Vegeta.Model.Histogram (trimSpace)
open Vegeta.Model.HTTPTargets
open Vegeta.Proofs.HTTPTargetsL Vegeta.Proofs.HTTPHeap Vegeta.Proofs.TargetText Vegeta.Proofs.HTTPGrammar
open Vegeta.Spec.TargetGrammar hiding Bytes

/-! ### classification of rendered lines (after `dropCR`) -/

theorem getLast?_append_ne {α} (a b : List α) (hb : b ≠ []) : (a ++ b).getLast? = b.getLast? := by
  rw [List.getLast?_append]
  cases hl : b.getLast? with
  | none => simp at hl; exact absurd hl hb
  | some x => rfl

theorem plain_ne_13 {c : Nat} (h : isPlain c = true) : c ≠ 13 := by
  have := plain_bounds h; omega

theorem edgePlain_last_ne_13 {s : Bytes} (h : EdgePlain s) (pre : Bytes) : (pre ++ s).getLast? ≠ some 13 := by
  obtain ⟨_, ⟨d, hd1, hd2⟩, _⟩ := h
  have hne : s ≠ [] := by intro h0; rw [h0] at hd1; cases hd1
  rw [getLast?_append_ne _ _ hne, hd1]
  intro h13; cases h13; exact plain_ne_13 hd2 rfl

theorem filler_class (f : Filler) (h : f.Legal) : IsFiller (dropCR f.line) := by
  cases f with
  | blank ws => exact Or.inl (trimSpace_pad _ (dropCR_pad ws h))
  | comment c =>
    obtain ⟨text', ht⟩ := dropCR_comment c.pre c.text
    right
    simp only [Filler.line, Comment.line, ht]
    exact trimSpace_head c.pre 35 text' h.1 (by decide)

theorem comment_class (c : Comment) (h : c.Legal) : IsComment (dropCR c.line) := by
  obtain ⟨text', ht⟩ := dropCR_comment c.pre c.text
  simp only [Comment.line, ht]
  exact trimSpace_head c.pre 35 text' h.1 (by decide)

theorem blank_class (ws : Bytes) (h : IsPad ws) : IsBlank (dropCR ws) := trimSpace_pad _ (dropCR_pad ws h)

/-- a padded `EdgePlain` string survives `dropCR` up to its padding -/
theorem dropCR_trim (pre s post : Bytes) (hpre : IsPad pre) (hpost : IsPad post) (hs : EdgePlain s) :
    trimSpace (dropCR (pre ++ s ++ post)) = s := by
  obtain ⟨post', hp, he⟩ := dropCR_append_pad (pre ++ s) post hpost (edgePlain_last_ne_13 hs pre)
  rw [he]
  exact trimSpace_edgePlain pre post' s hpre hp hs

theorem upper_plain {c : Nat} (h : 65 ≤ c ∧ c ≤ 90) : isPlain c = true := by
  simp [isPlain]; omega

theorem edgePlain_request (m u : Bytes) (hm : m ≠ []) (hup : ∀ c ∈ m, 65 ≤ c ∧ c ≤ 90) (hu : EdgePlain u) :
    EdgePlain (m ++ 32 :: u) := by
  obtain ⟨⟨c, hc1, hc2⟩, ⟨d, hd1, hd2⟩, h10⟩ := hu
  have hune : u ≠ [] := by intro h0; rw [h0] at hc1; cases hc1
  refine ⟨?_, ⟨d, ?_, hd2⟩, ?_⟩
  · cases m with
    | nil => exact absurd rfl hm
    | cons a t => exact ⟨a, rfl, upper_plain (hup a (by simp))⟩
  · rw [getLast?_append_ne _ _ (by simp), show (32 :: u) = [32] ++ u by rfl, getLast?_append_ne _ _ hune]
    exact hd1
  · intro hin
    simp at hin
    rcases hin with hin | hin
    · have := hup 10 hin; omega
    · exact h10 hin

theorem pad_ne_10 {ws : Bytes} (h : IsPad ws) : 10 ∉ ws := by
  intro hin; have := h 10 hin; simp [isPadByte] at this

theorem plain_ne_10 {c : Nat} (h : isPlain c = true) : c ≠ 10 := by
  have := plain_bounds h; omega

theorem edgePlain_ne_nil {s : Bytes} (h : EdgePlain s) : s ≠ [] := by
  obtain ⟨⟨c, hc1, _⟩, _, _⟩ := h
  intro h0; rw [h0] at hc1; cases hc1

theorem edgePlain_allPlain (k : Bytes) (hne : k ≠ []) (h : ∀ c ∈ k, isPlain c = true) : EdgePlain k := by
  refine ⟨?_, ?_, ?_⟩
  · cases k with
    | nil => exact absurd rfl hne
    | cons a t => exact ⟨a, rfl, h a (by simp)⟩
  · have := List.getLast?_eq_some_getLast hne
    exact ⟨_, this, h _ (List.getLast_mem hne)⟩
  · intro hin; exact plain_ne_10 (h 10 hin) rfl

theorem req_class (cfg : Cfg) (b : Block) (hb : b.Legal cfg.validURI cfg.fs) :
    IsReq cfg (dropCR b.reqLine) b.method b.url := by
  obtain ⟨_, hpre, hpost, hm, hup, hu, hv, _, _⟩ := hb
  have hshape : b.reqLine = b.pre ++ (b.method ++ 32 :: b.url) ++ b.post := by simp [Block.reqLine]
  exact ⟨by rw [hshape]; exact dropCR_trim _ _ _ hpre hpost (edgePlain_request _ _ hm hup hu), hm, hup, hv⟩

theorem hdr_class (h : HeaderLine) (hl : h.Legal) : IsHdr (dropCR h.line) h.key h.value := by
  obtain ⟨hk, hplain, h35, h64, hval, hpre, hmid, hpost⟩ := hl
  have hshape : h.line = h.pre ++ (h.key ++ 58 :: (h.mid ++ h.value)) ++ h.post := by simp [HeaderLine.line]
  have hvne := edgePlain_ne_nil hval
  have hedge : EdgePlain (h.key ++ 58 :: (h.mid ++ h.value)) := by
    obtain ⟨_, ⟨d, hd1, hd2⟩, h10⟩ := hval
    refine ⟨?_, ⟨d, ?_, hd2⟩, ?_⟩
    · cases hkk : h.key with
      | nil => exact absurd hkk hk
      | cons a t => exact ⟨a, rfl, (hplain a (by simp [hkk])).1⟩
    · rw [getLast?_append_ne _ _ (by simp), show 58 :: (h.mid ++ h.value) = (58 :: h.mid) ++ h.value by rfl,
        getLast?_append_ne _ _ hvne]
      exact hd1
    · intro hin
      simp at hin
      rcases hin with hin | hin | hin
      · exact plain_ne_10 (hplain 10 hin).1 rfl
      · exact pad_ne_10 hmid hin
      · exact h10 hin
  refine ⟨h.mid, ?_, hk, hplain, h35, h64, ?_, ?_, hvne⟩
  · rw [hshape]; exact dropCR_trim _ _ _ hpre hpost hedge
  · have := trimSpace_edgePlain [] [] h.key isPad_nil isPad_nil (edgePlain_allPlain _ hk (fun c hc => (hplain c hc).1))
    simpa using this
  · have := trimSpace_edgePlain h.mid [] h.value hmid isPad_nil hval
    simpa using this

theorem body_class (cfg : Cfg) (bl : BodyLine) (hl : bl.Legal cfg.fs) :
    IsBody cfg (dropCR bl.line) bl.path ((cfg.fs bl.path).getD []) := by
  obtain ⟨hp, hpre, hpost, hsome⟩ := hl
  have hshape : bl.line = bl.pre ++ (64 :: bl.path) ++ bl.post := by simp [BodyLine.line]
  have hedge : EdgePlain (64 :: bl.path) := by
    obtain ⟨_, ⟨d, hd1, hd2⟩, h10⟩ := hp
    have hne : bl.path ≠ [] := by intro h0; rw [h0] at hd1; cases hd1
    refine ⟨⟨64, rfl, by decide⟩, ⟨d, ?_, hd2⟩, ?_⟩
    · rw [show 64 :: bl.path = [64] ++ bl.path by rfl, getLast?_append_ne _ _ hne]; exact hd1
    · intro hin; simp at hin; exact h10 hin
  refine ⟨by rw [hshape]; exact dropCR_trim _ _ _ hpre hpost hedge, ?_⟩
  cases hf : cfg.fs bl.path with
  | none => rw [hf] at hsome; cases hsome
  | some c => rfl

/-! ### from grammar blocks to classified blocks -/

def toAItem : Item → AItem
  | .header h => .hdr (dropCR h.line) h.key h.value
  | .comment c => .cmt (dropCR c.line)

def toABlock (cfg : Cfg) (b : Block) : ABlock :=
  { lead := b.lead.map fun f => dropCR f.line
    req := dropCR b.reqLine
    m := b.method
    u := b.url
    items := b.items.map toAItem
    body := b.body.map fun bl => (dropCR bl.line, bl.path, (cfg.fs bl.path).getD []) }

theorem toABlock_ok (cfg : Cfg) (b : Block) (hb : b.Legal cfg.validURI cfg.fs) : (toABlock cfg b).OK cfg := by
  refine ⟨?_, req_class cfg b hb, ?_, ?_⟩
  · intro l hl
    simp only [toABlock, List.mem_map] at hl
    obtain ⟨f, hf, rfl⟩ := hl
    exact filler_class f (hb.1 f hf)
  · intro it hit
    simp only [toABlock, List.mem_map] at hit
    obtain ⟨i, hi, rfl⟩ := hit
    have := hb.2.2.2.2.2.2.2.1 i hi
    cases i with
    | header h => exact hdr_class h this
    | comment c => exact comment_class c this
  · intro x hx
    simp only [toABlock, Option.map_eq_some_iff] at hx
    obtain ⟨bl, hbl, rfl⟩ := hx
    exact body_class cfg bl (hb.2.2.2.2.2.2.2.2 bl hbl)

theorem ownOf_toAItem (items : List Item) :
    ownOf (items.map toAItem) = (items.filterMap fun
      | .header h => some (h.key, h.value)
      | .comment _ => none) := by
  induction items with
  | nil => rfl
  | cons it r ih =>
    cases it with
    | header h => simp [toAItem, ownOf, ih]
    | comment c => simp [toAItem, ownOf, ih]

/-- the lines of a block after `dropCR` are the lines of its classified block -/
theorem block_lines_map (cfg : Cfg) (b : Block) :
    b.lines.map dropCR =
      (toABlock cfg b).lead ++ (toABlock cfg b).req ::
        ((toABlock cfg b).items.map AItem.line ++ (toABlock cfg b).bodyLines) := by
  simp only [Block.lines, toABlock, ABlock.bodyLines, List.map_append, List.map_cons, List.map_map]
  congr 1
  · congr 1
    congr 1
    · apply List.map_congr_left
      intro it _
      cases it <;> rfl
    · cases b.body <;> rfl

theorem core_cons (trail : List Bytes) (b : ABlock) (bs : List ABlock) :
    core trail b bs = b.req :: (b.items.map AItem.line ++ b.bodyLines ++ docLines trail bs) := by
  cases bs with
  | nil => simp [core, docLines]
  | cons b' r => simp [core, docLines]

theorem doc_lines_map (cfg : Cfg) (blocks : List Block) (trail : List Bytes) :
    (blocks.flatMap Block.lines).map dropCR ++ trail = docLines trail (blocks.map (toABlock cfg)) := by
  induction blocks with
  | nil => rfl
  | cons b r ih =>
    rw [List.map_cons, show docLines trail (toABlock cfg b :: r.map (toABlock cfg)) =
        (toABlock cfg b).lead ++ core trail (toABlock cfg b) (r.map (toABlock cfg)) by rfl, core_cons, ← ih,
      List.flatMap_cons, List.map_append, block_lines_map cfg b]
    simp


/-! ### the scanner on a rendered document -/

theorem filler_no_nl (f : Filler) (h : f.Legal) : 10 ∉ f.line := by
  cases f with
  | blank ws => exact pad_ne_10 h
  | comment c =>
    intro hin
    simp [Filler.line, Comment.line] at hin
    rcases hin with hin | hin
    · exact pad_ne_10 h.1 hin
    · exact h.2 hin

theorem block_no_nl (cfg : Cfg) (b : Block) (hb : b.Legal cfg.validURI cfg.fs) : ∀ l ∈ b.lines, 10 ∉ l := by
  obtain ⟨hlead, hpre, hpost, hm, hup, hu, hv, hitems, hbody⟩ := hb
  intro l hl
  simp only [Block.lines, List.mem_append, List.mem_map, List.mem_cons] at hl
  rcases hl with ⟨f, hf, rfl⟩ | rfl | ⟨it, hit, rfl⟩ | ⟨bl, hbl, rfl⟩
  · exact filler_no_nl f (hlead f hf)
  · intro hin
    simp [Block.reqLine] at hin
    rcases hin with hin | hin | hin | hin
    · exact pad_ne_10 hpre hin
    · have := hup 10 hin; omega
    · exact hu.2.2 hin
    · exact pad_ne_10 hpost hin
  · have hl := hitems it hit
    cases it with
    | header h =>
      obtain ⟨hk, hplain, _, _, hval, hpre', hmid, hpost'⟩ := hl
      intro hin
      simp [Item.line, HeaderLine.line] at hin
      rcases hin with hin | hin | hin | hin | hin
      · exact pad_ne_10 hpre' hin
      · exact plain_ne_10 (hplain 10 hin).1 rfl
      · exact pad_ne_10 hmid hin
      · exact hval.2.2 hin
      · exact pad_ne_10 hpost' hin
    | comment c => exact filler_no_nl (.comment c) hl
  · simp only [Option.mem_toList] at hbl
    obtain ⟨hp, hpre', hpost', _⟩ := hbody bl hbl
    intro hin
    simp [BodyLine.line] at hin
    rcases hin with hin | hin | hin
    · exact pad_ne_10 hpre' hin
    · exact hp.2.2 hin
    · exact pad_ne_10 hpost' hin

theorem doc_no_nl (cfg : Cfg) (d : Doc) (hd : d.Legal cfg.validURI cfg.fs) : ∀ l ∈ d.lines, 10 ∉ l := by
  intro l hl
  simp only [Doc.lines, List.mem_append, List.mem_flatMap, List.mem_map] at hl
  rcases hl with ⟨b, hb, hl⟩ | ⟨f, hf, rfl⟩
  · exact block_no_nl cfg b (hd.1 b hb) l hl
  · exact filler_no_nl f (hd.2.1 f hf)

/-- The file ends in a line terminator, or its last line is not empty.  (An unterminated
empty last line is no line at all: such a file is byte for byte the file with one line less
and `finalNewline = true`.) -/
def NormalEnd (d : Doc) : Prop := d.finalNewline = true ∨ d.lines.getLast? ≠ some []

theorem srcLines_render (cfg : Cfg) (d : Doc) (hd : d.Legal cfg.validURI cfg.fs) (hend : NormalEnd d) :
    srcLines (render d) = docLines (d.trail.map fun f => dropCR f.line) (d.blocks.map (toABlock cfg)) := by
  have hno := doc_no_nl cfg d hd
  have hsl : scanLines (render d) = d.lines := by
    unfold render
    cases hf : d.finalNewline with
    | true => exact scanLines_join_true _ hno
    | false =>
      rw [scanLines_join_false _ hno]
      rcases hend with h1 | h1
      · rw [hf] at h1; cases h1
      · simp [h1]
  rw [srcLines, hsl, ← doc_lines_map cfg d.blocks]
  simp [Doc.lines]

/-! ### separation -/

theorem lead_blank (cfg : Cfg) (b : Block) (hb : b.Legal cfg.validURI cfg.fs) (h : b.lead.any Filler.isBlank = true) :
    ∃ l ∈ (toABlock cfg b).lead, IsBlank l := by
  simp only [List.any_eq_true] at h
  obtain ⟨f, hf, hbl⟩ := h
  cases f with
  | blank ws =>
    exact ⟨dropCR ws, by simp only [toABlock, List.mem_map]; exact ⟨.blank ws, hf, rfl⟩, blank_class ws (hb.1 _ hf)⟩
  | comment c => cases hbl

theorem toAItem_isHdr (it : Item) : (toAItem it).isHdr = it.isHeader := by cases it <;> rfl

theorem asep_of_spec (cfg : Cfg) : ∀ (bs : List Block), (∀ b ∈ bs, b.Legal cfg.validURI cfg.fs) →
    Separated bs → ASep (bs.map (toABlock cfg)) := by
  intro bs
  induction bs with
  | nil => intro _ _; trivial
  | cons b r ih =>
    intro hl hs
    cases r with
    | nil => trivial
    | cons b' r' =>
      refine ⟨?_, ih (fun x hx => hl x (by simp [hx])) hs.2⟩
      intro hbody hhdr
      have hbn : b.body = none := by
        simp only [toABlock, Option.map_eq_none_iff] at hbody; exact hbody
      have hh : b.hasHeader = true := by
        obtain ⟨it, hit, hi⟩ := hhdr
        simp only [toABlock, List.mem_map] at hit
        obtain ⟨i, hi', rfl⟩ := hit
        rw [toAItem_isHdr] at hi
        simp only [Block.hasHeader, List.any_eq_true]
        exact ⟨i, hi', hi⟩
      exact lead_blank cfg b' (hl b' (by simp)) (hs.1 ⟨hh, hbn⟩)

/-! ### an unterminated empty last line is no line -/

theorem joinLines_snoc_nil : ∀ (L : List Bytes), L ≠ [] → joinLines (L ++ [[]]) false = joinLines L true := by
  intro L
  induction L with
  | nil => intro h; exact absurd rfl h
  | cons l r ih =>
    intro _
    cases r with
    | nil => simp [joinLines]
    | cons l2 r2 =>
      have := ih (by simp)
      simp only [List.cons_append, joinLines] at this ⊢
      rw [this]

theorem block_last_ne_nil (cfg : Cfg) (b : Block) (hb : b.Legal cfg.validURI cfg.fs) : b.lines.getLast? ≠ some [] := by
  intro h
  have hsuf : b.lines = b.lead.map Filler.line ++ (b.reqLine :: (b.items.map Item.line ++ b.body.toList.map BodyLine.line)) := rfl
  rw [hsuf, getLast?_append_ne _ _ (by simp)] at h
  have hmem := List.mem_of_getLast? h
  obtain ⟨_, _, _, hm, _, _, _, hitems, hbody⟩ := hb
  simp only [List.mem_cons, List.mem_append, List.mem_map] at hmem
  rcases hmem with hreq | ⟨it, hit, hl⟩ | ⟨bl, hbl, hl⟩
  · have : b.reqLine ≠ [] := by simp [Block.reqLine]
    exact this hreq.symm
  · have : it.line ≠ [] := by cases it <;> simp [Item.line, HeaderLine.line, Comment.line]
    exact this hl
  · have : bl.line ≠ [] := by simp [BodyLine.line]
    exact this hl

/-- every legal document renders to the same bytes as one with the same blocks that ends
normally (drop an unterminated empty last line of the trail, terminate the file instead) -/
theorem render_normalize (cfg : Cfg) (d : Doc) (hd : d.Legal cfg.validURI cfg.fs) :
    ∃ d' : Doc, d'.blocks = d.blocks ∧ d'.Legal cfg.validURI cfg.fs ∧ NormalEnd d' ∧ render d' = render d := by
  by_cases hend : NormalEnd d
  · exact ⟨d, rfl, hd, hend, rfl⟩
  · have hfn : d.finalNewline = false := by
      cases hf : d.finalNewline with
      | true => exact absurd (Or.inl hf) hend
      | false => rfl
    have hlast : d.lines.getLast? = some [] := by
      cases hl : d.lines.getLast? with
      | none => exact absurd (Or.inr (by rw [hl]; simp)) hend
      | some x =>
        by_cases hx : x = []
        · rw [hx]
        · exact absurd (Or.inr (by rw [hl]; intro h; cases h; exact hx rfl)) hend
    -- the empty last line is a blank line of the trail
    have htrail : ∃ T f, d.trail = T ++ [f] ∧ f.line = [] := by
      rcases eq_nil_or_snoc d.trail with ht | ⟨T, f, ht⟩
      · exfalso
        simp only [Doc.lines, ht, List.map_nil, List.append_nil] at hlast
        rcases eq_nil_or_snoc d.blocks with hb | ⟨bs, b, hb⟩
        · rw [hb] at hlast; simp at hlast
        · rw [hb, List.flatMap_append] at hlast
          have hbl : b.lines ≠ [] := by simp [Block.lines]
          simp only [List.flatMap_cons, List.flatMap_nil, List.append_nil] at hlast
          rw [getLast?_append_ne _ _ hbl] at hlast
          exact block_last_ne_nil cfg b (hd.1 b (by rw [hb]; simp)) hlast
      · refine ⟨T, f, ht, ?_⟩
        simp only [Doc.lines, ht, List.map_append, List.map_cons, List.map_nil, ← List.append_assoc] at hlast
        rw [getLast?_snoc] at hlast
        exact Option.some.inj hlast
    obtain ⟨T, f, ht, hf⟩ := htrail
    refine ⟨{ blocks := d.blocks, trail := T, finalNewline := true }, rfl, ⟨hd.1, ?_, hd.2.2⟩, Or.inl rfl, ?_⟩
    · intro x hx; exact hd.2.1 x (by rw [ht]; simp [hx])
    · simp only [render, Doc.lines, hfn, ht, List.map_append, List.map_cons, List.map_nil, hf, ← List.append_assoc]
      generalize d.blocks.flatMap Block.lines ++ T.map Filler.line = L
      by_cases hL : L = []
      · subst hL; simp [joinLines]
      · exact (joinLines_snoc_nil L hL).symm

/-! ### the described targets -/

/-- what the caller sees of a returned target in heap `h` agrees with the description -/
def Matches (h : Heap) (t : Target) (d : Described) : Prop :=
  t.method = d.method ∧ t.url = d.url ∧ t.body = d.body ∧ ∀ k, (hlookup t.header k).map (view h) = d.header k

/-- two lists of equal length whose elements are related position by position -/
inductive ListRel {α β : Type} (R : α → β → Prop) : List α → List β → Prop where
  | nil : ListRel R [] []
  | cons {a : α} {b : β} {as : List α} {bs : List β} : R a b → ListRel R as bs → ListRel R (a :: as) (b :: bs)

/-- the default header values as a function of the key -/
def defaultsOf (cfg : Cfg) (h : Heap) : Bytes → Option (List Bytes) := fun k => (hlookup cfg.hdr k).map (view h)

theorem defaultsOf_extends {cfg : Cfg} {h h' : Heap} (e : Extends h h') (wf : WfDefaults cfg h) (k : Bytes) :
    defaultsOf cfg h' k = defaultsOf cfg h k := by
  simp only [defaultsOf]
  cases hk : hlookup cfg.hdr k with
  | none => rfl
  | some s0 => simp [view_extends e (wf.ok k s0 hk)]

theorem expect_matches (cfg : Cfg) (h0 : Heap) : ∀ (bs : List Block) (h : Heap),
    (∀ b ∈ bs, b.Legal cfg.validURI cfg.fs) → WfDefaults cfg h → (∀ k, defaultsOf cfg h k = defaultsOf cfg h0 k) →
    ListRel (fun (r : Outcome Target × Heap) (b : Block) =>
        ∃ t, r.1 = .ok t ∧ Matches r.2 t (describe (defaultsOf cfg h0) cfg.body cfg.fs b))
      (expectL cfg (bs.map (toABlock cfg)) h).1 bs := by
  intro bs
  induction bs with
  | nil => intro h _ _ _; exact ListRel.nil
  | cons b r ih =>
    intro h hl wf hdv
    simp only [List.map_cons, expectL]
    have he := built_extends cfg h (ownOf (toABlock cfg b).items)
    refine ListRel.cons ⟨_, rfl, rfl, rfl, ?_, ?_⟩ ?_
    · simp only [ABlock.result, toABlock, describe]
      cases b.body <;> rfl
    · intro k
      have hm := built_merge cfg h wf (ownOf (toABlock cfg b).items) k
      simp only [ABlock.result]
      rw [hm]
      have h1 : (hlookup cfg.hdr k).map (view h) = defaultsOf cfg h0 k := hdv k
      have h2 : ownVals (ownOf (toABlock cfg b).items) k = ownValues b.headers k := by
        simp only [toABlock, ownOf_toAItem]; rfl
      rw [h1, h2]
      rfl
    · exact ih _ (fun x hx => hl x (by simp [hx])) (wf_extends he wf)
        (fun k => (defaultsOf_extends he wf k).trans (hdv k))

end Vegeta.Proofs.HTTPRender
