/-
C08 (and the second sentence of C13) at the command level: `decoder(files)` = per-file `DecoderFor`
+ round robin, the `encode` command loop, replacement of the output path.  Model: Model/Commands.lean.
Composes Proofs/Sniff.lean (DecoderFor), Props/C13.lean (round robin) and Proofs/ChainCodecs.lean
(the modelled gob/CSV/JSON codecs of C07).
-/
import Vegeta.Proofs.Sniff
import Vegeta.Proofs.ChainCodecs
import Vegeta.Props.C13
namespace Vegeta.Props.C08
open Vegeta.Go Vegeta.Model.DecoderFor Vegeta.Model.RoundRobin Vegeta.Model.Commands
open Vegeta.Props.C13 (AllEmpty fromInput aux_decode_spec aux_drain aux_flatten_set)

/-! ### `DecoderFor` inside `decoder(files)` -/

theorem aux_sniff_cons (i0 : Nat) (st : Sniff) (d : TrialDec) (ds : List TrialDec) :
    (sniffFrom i0 st (d :: ds)).1 =
      if d.accept then some (i0, ((Trial.start st).run d.script).2.st)
      else (sniffFrom (i0 + 1) ((Trial.start st).run d.script).2.st ds).1 := by
  simp only [sniffFrom]
  split <;> rfl

theorem aux_detect {F α} (fm : Formats F α) (reads : F → Bytes → Script) (s : Bytes) :
    ∀ (order : List F) (i0 : Nat) (st : Sniff), st.stream = s →
      match (sniffFrom i0 st (order.map fun f => ({ script := reads f s, accept := fm.accepts f s } : TrialDec))).1 with
      | some (i, st') => i0 ≤ i ∧ st'.stream = s ∧ order[i - i0]? = order.find? (fun f => fm.accepts f s) ∧
          (order.find? (fun f => fm.accepts f s)).isSome
      | none => order.find? (fun f => fm.accepts f s) = none := by
  intro order
  induction order with
  | nil => intro i0 st _; simp [sniffFrom]
  | cons f fs ih =>
    intro i0 st hst
    have ht := trial_preserves_stream s st (reads f s) hst
    rw [List.map_cons, aux_sniff_cons]
    by_cases ha : fm.accepts f s = true
    · simp [ha, ht.1]
    · have ha' : fm.accepts f s = false := by simpa using ha
      simp only [ha', Bool.false_eq_true, ↓reduceIte, List.find?_cons]
      have := ih (i0 + 1) _ ht.1
      cases hres : (sniffFrom (i0 + 1) ((Trial.start st).run (reads f s)).2.st
          (fs.map fun f => ({ script := reads f s, accept := fm.accepts f s } : TrialDec))).1 with
      | none => rw [hres] at this; exact this
      | some p =>
        obtain ⟨i, st'⟩ := p
        rw [hres] at this
        obtain ⟨h1, h2, h3, h4⟩ := this
        refine ⟨by omega, h2, ?_, h4⟩
        have e : i - i0 = (i - (i0 + 1)) + 1 := by omega
        rw [e]; simpa using h3

/-- **`DecoderFor` as `decoder(files)` uses it**: whatever the trial decoders read (any scripts, any
over-reading, any chunking), the result is the decoder of the FIRST format in the list whose trial
accepts, running over the whole original stream from byte 0 — or nil when none accepts. -/
theorem detect_spec {F α} (fm : Formats F α) (reads : F → Bytes → Script) (order : List F) (s : Bytes) :
    detect fm reads order s = (order.find? (fun f => fm.accepts f s)).map (fun f => fm.script f s) := by
  have := aux_detect fm reads s order 0 ⟨[], s⟩ rfl
  unfold detect decoderFor trialsOf
  split at this
  · rename_i i st' heq
    obtain ⟨_, h2, h3, h4⟩ := this
    simp only [heq, Nat.sub_zero] at h3 ⊢
    rw [h3, h2]
  · rename_i heq
    simp only [heq, this, Option.map_none]

/-- a well-formed input file: some format of the list is the first whose trial accepts the stream, and
its decoder yields the records `rs` and then `io.EOF` for ever -/
def WellFormed {F α} (fm : Formats F α) (order : List F) (s : Bytes) (rs : List α) : Prop :=
  ∃ f, order.find? (fun f => fm.accepts f s) = some f ∧ fm.script f s = ofRecords rs

/-- `decoder(files)` on well-formed files: one decoder per file, in argument order -/
theorem aux_openAll {F α} (fm : Formats F α) (reads : F → Bytes → Script) (order : List F) :
    ∀ (files : List Bytes) (inputs : List (List α)) (i0 : Nat), files.length = inputs.length →
      (∀ (k : Nat) (s : Bytes) (rs : List α), files[k]? = some s → inputs[k]? = some rs → WellFormed fm order s rs) →
      openAll fm reads order i0 (files.map some) = .ok (ofInputs inputs) := by
  intro files
  induction files with
  | nil => intro inputs i0 hl _; cases inputs <;> simp_all [openAll, ofInputs]
  | cons s files ih =>
    intro inputs i0 hl hw
    cases inputs with
    | nil => simp at hl
    | cons rs inputs =>
      obtain ⟨f, hf, hs⟩ := hw 0 s rs rfl rfl
      have := ih inputs (i0 + 1) (by simpa using hl) (fun k s' rs' h1 h2 => hw (k + 1) s' rs' (by simpa using h1) (by simpa using h2))
      simp only [List.map_cons, openAll, detect_spec, hf, Option.map_some, this, hs]
      rfl

/-- `decoder(files)` stops at the first file that cannot be opened or detected -/
theorem openAll_first_error {F α} (fm : Formats F α) (reads : F → Bytes → Script) (order : List F)
    (good : List Bytes) (inputs : List (List α)) (bad : Option Bytes) (rest : List (Option Bytes))
    (hl : good.length = inputs.length)
    (hw : ∀ (k : Nat) (s : Bytes) (rs : List α), good[k]? = some s → inputs[k]? = some rs → WellFormed fm order s rs)
    (hbad : ∀ s, bad = some s → order.find? (fun f => fm.accepts f s) = none) :
    ∃ e, openAll fm reads order 0 (good.map some ++ bad :: rest) = .error e ∧
      (e = .open_ good.length ∨ e = .detect good.length) := by
  suffices h : ∀ (good : List Bytes) (inputs : List (List α)) (i0 : Nat), good.length = inputs.length →
      (∀ (k : Nat) (s : Bytes) (rs : List α), good[k]? = some s → inputs[k]? = some rs → WellFormed fm order s rs) →
      ∃ e, openAll fm reads order i0 (good.map some ++ bad :: rest) = .error e ∧
        (e = .open_ (i0 + good.length) ∨ e = .detect (i0 + good.length)) by
    simpa using h good inputs 0 hl hw
  intro good
  induction good with
  | nil =>
    intro inputs i0 _ _
    cases bad with
    | none => exact ⟨_, rfl, Or.inl (by simp)⟩
    | some s =>
      refine ⟨.detect i0, ?_, Or.inr (by simp)⟩
      simp [openAll, detect_spec, hbad s rfl]
  | cons s good ih =>
    intro inputs i0 hl hw
    cases inputs with
    | nil => simp at hl
    | cons rs inputs =>
      obtain ⟨f, hf, hs⟩ := hw 0 s rs rfl rfl
      obtain ⟨e, he, hk⟩ := ih inputs (i0 + 1) (by simpa using hl)
        (fun k s' rs' h1 h2 => hw (k + 1) s' rs' (by simpa using h1) (by simpa using h2))
      refine ⟨e, ?_, ?_⟩
      · simp only [List.map_cons, List.cons_append, openAll, detect_spec, hf, Option.map_some, he]
      · simp only [List.length_cons]
        rcases hk with hk | hk
        · left; rw [hk]; congr 1; omega
        · right; rw [hk]; congr 1; omega

/-! ### the `encode` command -/

/-- what an encoder writes for a record sequence, up to its first failing `Encode` (exclusive);
`true` = every record was encoded -/
def encodePrefix {α σ} (enc : Encoder α σ) : σ → List α → Bytes × Bool
  | _, [] => ([], true)
  | e, a :: as =>
    match enc.step e a with
    | some (b, e') => let r := encodePrefix enc e' as; (b ++ r.1, r.2)
    | none => ([], false)

theorem aux_encodeLoop {α σ} (enc : Encoder α σ) (zero : α) : ∀ (fuel : Nat) (rem : List (List α)) (seq : Nat)
    (e : σ) (out : Bytes), 0 < rem.length → rem.flatten.length < fuel → seq + rem.length * fuel < two64 →
    encodeLoop enc zero fuel ⟨ofInputs rem, seq⟩ e out =
      (out ++ (encodePrefix enc e ((drain fuel ⟨ofInputs rem, seq⟩).1.map (·.2))).1,
       if (encodePrefix enc e ((drain fuel ⟨ofInputs rem, seq⟩).1.map (·.2))).2 then .ok else .failed .encode) := by
  intro fuel
  induction fuel with
  | zero => intro rem seq e out _ h; omega
  | succ fuel ih =>
    intro rem seq e out hn htot hw
    have hmul : rem.length * (fuel + 1) = rem.length * fuel + rem.length := Nat.mul_succ _ _
    rcases aux_decode_spec rem seq hn (by omega) with
      ⟨j, a, t, seq1, hget, hj, hseq1, hdec⟩ | ⟨hall, seq1, hseq1, hdec⟩
    · have hperm := aux_flatten_set rem j a t hget
      have hlen : (rem.set j t).length = rem.length := by simp
      have hfl : (rem.set j t).flatten.length + 1 = rem.flatten.length := by
        have := hperm.length_eq; simp only [List.length_cons] at this; omega
      simp only [encodeLoop, drain, hdec, List.map_cons, encodePrefix]
      cases hs : enc.step e a with
      | none => simp
      | some p =>
        obtain ⟨b, e'⟩ := p
        simp only []
        rw [ih (rem.set j t) seq1 e' (out ++ b) (by omega) (by omega) (by rw [hlen]; omega)]
        simp [List.append_assoc]
    · simp only [encodeLoop, drain, hdec, List.map_nil, encodePrefix, ↓reduceIte, List.append_nil]

/-- **The `encode` command over well-formed input files** (`n ≥ 1` files of any encodings in the
format list and any lengths): `decoder(files)` succeeds, the output path is replaced, and what is
written is the target encoder's output for exactly the records the round-robin decoder yields, in
that order — up to the first record the encoder refuses, in which case the command fails. -/
theorem encode_cmd_wellformed {F α σ} (fm : Formats F α) (reads : F → Bytes → Script) (order : List F)
    (zero : α) (enc : Encoder α σ) (files : List Bytes) (inputs : List (List α)) (prev : Option Bytes) (fuel : Nat)
    (hl : files.length = inputs.length)
    (hw : ∀ (k : Nat) (s : Bytes) (rs : List α), files[k]? = some s → inputs[k]? = some rs → WellFormed fm order s rs)
    (hn : 0 < inputs.length) (hfuel : inputs.flatten.length < fuel) (hwrap : inputs.length * fuel < two64) :
    encodeCmd fm reads order zero (some enc) (files.map some) prev fuel =
      (some (encodePrefix enc enc.init ((drain fuel (RR.init (ofInputs inputs))).1.map (·.2))).1,
       if (encodePrefix enc enc.init ((drain fuel (RR.init (ofInputs inputs))).1.map (·.2))).2 then .ok else .failed .encode) := by
  simp only [encodeCmd, aux_openAll fm reads order files inputs 0 hl hw, RR.init]
  rw [aux_encodeLoop enc zero fuel inputs 0 enc.init [] hn hfuel (by omega)]
  simp only [List.nil_append]
  rfl

/-- **The output of `encode` does not depend on what the output path held before** (`os.Create`
truncates): for ALL inputs — well-formed or not — and any two previous contents, the command ends
the same way; if `decoder(files)` succeeded the new content is the same, and if it failed the path
is left exactly as it was. -/
theorem encode_output_independent_of_previous_content {F α σ} (fm : Formats F α) (reads : F → Bytes → Script)
    (order : List F) (zero : α) (enc : Option (Encoder α σ)) (files : List (Option Bytes)) (prev prev' : Option Bytes)
    (fuel : Nat) :
    (encodeCmd fm reads order zero enc files prev fuel).2 = (encodeCmd fm reads order zero enc files prev' fuel).2 ∧
    ((∃ decs, openAll fm reads order 0 files = .ok decs) →
      (encodeCmd fm reads order zero enc files prev fuel).1 = (encodeCmd fm reads order zero enc files prev' fuel).1) ∧
    ((∃ e, openAll fm reads order 0 files = .error e) →
      (encodeCmd fm reads order zero enc files prev fuel).1 = prev) := by
  unfold encodeCmd
  cases ho : openAll fm reads order 0 files with
  | error e => simp
  | ok decs => cases enc <;> simp


/-! ### the `encode` command with the modelled codecs of C07 as targets -/

section Targets
open Vegeta.Model.Codec Vegeta.Proofs.Codec Vegeta.Model.GobFrame Vegeta.Model.GobValue Vegeta.Proofs.Gob

/-- the three encoder closures of lib/results.go (state: "this is the first `Encode` call", which only
the gob encoder looks at — it sends the type definitions then) -/
def encoderOf : AnyFmt → Encoder Result Bool
  | .gob z => ⟨true, fun first r => (encodeGobCall z.val first r).map (·, false)⟩
  | .csv => ⟨true, fun st r => some (encodeCSV r, st)⟩
  | .json z => ⟨true, fun st r => (encodeJSON z.val r).map (·, st)⟩

theorem aux_prefix_csv (st : Bool) (rs : List Result) :
    encodePrefix (encoderOf .csv) st rs = (encodeCSVAll rs, true) := by
  induction rs with
  | nil => rfl
  | cons r rs ih => simp [encodePrefix, encoderOf, encodeCSVAll, List.flatMap_cons] at ih ⊢; simp [ih]

theorem aux_prefix_json (z : JZone) (st : Bool) (rs : List Result) (s : Bytes)
    (h : encodeJSONAll z.val rs = some s) : encodePrefix (encoderOf (.json z)) st rs = (s, true) := by
  induction rs generalizing s with
  | nil => simp [encodeJSONAll] at h; subst h; rfl
  | cons r rs ih =>
    simp only [encodeJSONAll] at h
    cases h1 : encodeJSON z.val r with
    | none => rw [h1] at h; simp at h
    | some a =>
      cases h2 : encodeJSONAll z.val rs with
      | none => rw [h1, h2] at h; simp at h
      | some b =>
        rw [h1, h2] at h
        simp only [Option.some.injEq] at h
        subst h
        have hstep : (encoderOf (.json z)).step st r = some (a, st) := by
          show (encodeJSON z.val r).map _ = _; rw [h1]; rfl
        simp only [encodePrefix, hstep, ih b h2]

theorem aux_prefix_gob_rest (z : GZone) (rs : List Result) (ps : List Bytes) (h : valueFrames z.val rs = some ps) :
    encodePrefix (encoderOf (.gob z)) false rs = (encodeFrames ps, true) := by
  induction rs generalizing ps with
  | nil => simp [valueFrames] at h; subst h; rfl
  | cons r rs ih =>
    simp only [valueFrames] at h
    cases h1 : valuePayload z.val r with
    | none => rw [h1] at h; simp at h
    | some p =>
      cases h2 : valueFrames z.val rs with
      | none => rw [h1, h2] at h; simp at h
      | some ps' =>
        rw [h1, h2] at h
        simp only [Option.some.injEq] at h
        subst h
        have hstep : (encoderOf (.gob z)).step false r = some (encodeFrame p, false) := by
          show (encodeGobCall z.val false r).map _ = _; simp [encodeGobCall, h1]
        simp only [encodePrefix, hstep, ih ps' h2]
        simp [encodeFrames, List.flatMap_cons]

theorem aux_prefix_gob (z : GZone) (rs : List Result) (s : Bytes) (h : encodeGobAll z.val rs = some s) :
    encodePrefix (encoderOf (.gob z)) true rs = (s, true) := by
  cases rs with
  | nil => simp [encodeGobAll] at h; subst h; rfl
  | cons r rs =>
    simp only [encodeGobAll] at h
    cases hv : valueFrames z.val (r :: rs) with
    | none => rw [hv] at h; simp at h
    | some ps =>
      rw [hv] at h
      simp only [Option.map_some, Option.some.injEq] at h
      subst h
      simp only [valueFrames] at hv
      cases h1 : valuePayload z.val r with
      | none => rw [h1] at hv; simp at hv
      | some p =>
        cases h2 : valueFrames z.val rs with
        | none => rw [h1, h2] at hv; simp at hv
        | some ps' =>
          rw [h1, h2] at hv
          simp only [Option.some.injEq] at hv
          subst hv
          have hstep : (encoderOf (.gob z)).step true r = some (preamble ++ encodeFrame p, false) := by
            show (encodeGobCall z.val true r).map _ = _; simp [encodeGobCall, h1]
          show encodePrefix (encoderOf (.gob z)) true (r :: rs) = _
          simp only [encodePrefix, hstep, aux_prefix_gob_rest z rs ps' h2]
          simp [preamble, encodeFrames, List.flatMap_append, List.flatMap_cons, List.append_assoc]

/-- the command's encoder closures write exactly what the stream-level encoders of C07 denote -/
theorem aux_prefix_enc (f : AnyFmt) (rs : List Result) (s : Bytes) (h : allCodecs.enc f rs = some s) :
    encodePrefix (encoderOf f) (encoderOf f).init rs = (s, true) := by
  cases f with
  | gob z => exact aux_prefix_gob z rs s h
  | csv =>
    simp only [allCodecs, Option.some.injEq] at h
    subst h; exact aux_prefix_csv _ rs
  | json z => exact aux_prefix_json z _ rs s h

/-- **decode (output of the `encode` command) = the round-robin interleaving of the inputs.**
For every list of `n ≥ 1` well-formed input files (of any encodings of the format list, any lengths,
empty record lists included) whose records are in the common domain `ReprAll`, and every target
format (gob, CSV, JSON, in any zone): the command succeeds, replaces the output path, and its output
— decoded with the target format's decoder — is, up to `Result.Equal`, exactly the sequence the
round-robin decoder yields, followed by `io.EOF`; that sequence is a permutation of the union of the
inputs in which every input keeps its own order.  (The split oracle — same multiset for any split —
and the chain oracle — `n = 1`: the sequence itself — are corollaries.) -/
theorem encode_cmd_decodes_to_interleaving {F : Type} (fm : Formats F Result) (reads : F → Bytes → Script)
    (order : List F) (zero : Result) (target : AnyFmt) (files : List Bytes) (inputs : List (List Result))
    (prev : Option Bytes) (fuel : Nat)
    (hl : files.length = inputs.length)
    (hw : ∀ (k : Nat) (s : Bytes) (rs : List Result), files[k]? = some s → inputs[k]? = some rs → WellFormed fm order s rs)
    (hdom : ∀ rs ∈ inputs, ∀ r ∈ rs, ReprAll r)
    (hn : 0 < inputs.length) (hfuel : inputs.flatten.length < fuel) (hwrap : inputs.length * fuel < two64) :
    ∃ out st s decoded,
      drain fuel (RR.init (ofInputs inputs)) = (out, st, some Vegeta.Model.RoundRobin.eEOF) ∧
      encodeCmd fm reads order zero (some (encoderOf target)) (files.map some) prev fuel = (some s, .ok) ∧
      decodeAny target s = (decoded, .eof) ∧ equalAll decoded (out.map (·.2)) = true ∧
      (out.map (·.2)).Perm inputs.flatten ∧ (∀ i, fromInput out i = inputs.getD i []) := by
  obtain ⟨out, rem', seq', hdr, _, _, _, hp, hf, _⟩ := aux_drain fuel inputs 0 hn hfuel (by omega)
  have hdomOut : ∀ r ∈ out.map (·.2), ReprAll r := by
    intro r hr
    have := hp.mem_iff.mp hr
    obtain ⟨rs, hrs, hrr⟩ := List.mem_flatten.mp this
    exact hdom rs hrs r hrr
  obtain ⟨rs', hdec, hseq, _⟩ := roundTrips_all_formats.roundTrip target (out.map (·.2)) hdomOut
  cases henc : allCodecs.enc target (out.map (·.2)) with
  | none => rw [henc] at hdec; simp [allCodecs] at hdec
  | some s =>
    rw [henc] at hdec
    have hcmd := encode_cmd_wellformed fm reads order zero (encoderOf target) files inputs prev fuel hl hw hn hfuel hwrap
    have hdr' : drain fuel (RR.init (ofInputs inputs)) = (out, ⟨ofInputs rem', seq'⟩, some Vegeta.Model.RoundRobin.eEOF) := hdr
    rw [hdr'] at hcmd
    simp only [aux_prefix_enc target _ s henc, ↓reduceIte] at hcmd
    refine ⟨out, _, s, rs', hdr', hcmd, ?_, aux_seqEq_equalAll _ _ (fun r hr => (hdomOut r hr).1) hseq, hp, hf⟩
    simp only [allCodecs] at hdec
    cases hds : decodeAny target s with
    | mk o t =>
      rw [hds] at hdec
      cases t with
      | eof => simp only [Option.some.injEq] at hdec; rw [hdec]
      | err => cases hdec

end Targets


/-! ### non-vacuity -/

/-- a toy format family: the first byte of a stream names its format, the other bytes are the records -/
def toyFormats : Formats Nat Nat where
  accepts f s := s.head? == some f
  script _ s := ofRecords s.tail

def toyEncoder : Encoder Nat Unit := ⟨(), fun _ a => if a = 99 then none else some ([a], ())⟩

example : WellFormed toyFormats [0, 1, 2] [1, 7, 8] [7, 8] := ⟨1, by decide, rfl⟩

example : detect toyFormats (fun _ _ => [⟨4, 1⟩, ⟨4096, 3⟩]) [0, 1, 2] [1, 7, 8] = some (ofRecords [7, 8]) := by decide

/-- three files in three "encodings" and of unequal lengths: the output is the round-robin interleaving;
it replaces whatever the output path held -/
example : encodeCmd toyFormats (fun _ _ => [⟨4, 1⟩]) [0, 1, 2] 0 (some toyEncoder)
    [some [1, 7, 8], some [0, 5], some [2]] (some [42, 42, 42, 42, 42]) 10 = (some [7, 5, 8], .ok) := by decide

/-- a file in none of the formats: error naming its position, the output path is not touched -/
example : encodeCmd toyFormats (fun _ _ => [⟨4, 1⟩]) [0, 1, 2] 0 (some toyEncoder)
    [some [1, 7, 8], some [9, 9], some [2]] (some [42]) 10 = (some [42], .failed (.detect 1)) := by decide

/-- a record the encoder refuses: the command fails after what it had written -/
example : encodeCmd toyFormats (fun _ _ => []) [0, 1, 2] 0 (some toyEncoder)
    [some [1, 7, 99, 8], some [0, 5]] none 10 = (some [7, 5], .failed .encode) := by decide

/-- the hypotheses of `encode_cmd_decodes_to_interleaving` are satisfiable: two files holding C07's
example result -/
example : ∃ out st s decoded,
    drain 5 (RR.init (ofInputs [[Vegeta.Proofs.Codec.exampleResult], [Vegeta.Proofs.Codec.exampleResult]])) = (out, st, some Vegeta.Model.RoundRobin.eEOF) ∧
    encodeCmd (⟨fun _ _ => true, fun _ _ => ofRecords [Vegeta.Proofs.Codec.exampleResult]⟩ : Formats Unit Vegeta.Model.Codec.Result)
      (fun _ _ => []) [()] {} (some (encoderOf .csv)) ([[1], [2]].map some) none 5 = (some s, .ok) ∧
    decodeAny .csv s = (decoded, .eof) := by
  obtain ⟨out, st, s, decoded, h1, h2, h3, _⟩ := encode_cmd_decodes_to_interleaving
    (⟨fun _ _ => true, fun _ _ => ofRecords [Vegeta.Proofs.Codec.exampleResult]⟩ : Formats Unit Vegeta.Model.Codec.Result)
    (fun _ _ => []) [()] {} .csv [[1], [2]] [[Vegeta.Proofs.Codec.exampleResult], [Vegeta.Proofs.Codec.exampleResult]] none 5 rfl
    (by
      intro k s rs h1 h2
      refine ⟨(), rfl, ?_⟩
      rcases k with _ | _ | k
      · simp at h2; subst h2; rfl
      · simp at h2; subst h2; rfl
      · simp at h2)
    (by intro rs hrs r hr; simp at hrs; subst hrs; simp at hr; subst hr; exact aux_example_reprAll)
    (by decide) (by decide) (by decide)
  exact ⟨out, st, s, decoded, h1, h2, h3⟩

end Vegeta.Props.C08
