/-
Encoders as objects called repeatedly (`Vegeta.Model.EncodeCmd.encCalls`): whatever the sequence of calls
— encodable results or not, the caller going on after failures — the writer holds exactly the whole
records of the calls that returned nil (gob: after the type definitions, sent once), which calls those
are, and what the matching decoder reads back from it.
-/
import Vegeta.Proofs.EncodeCmdDomain
import Vegeta.Proofs.GobValueResult
import Vegeta.Proofs.CodecCSVResult
import Vegeta.Proofs.CodecJSONResult
import Vegeta.Proofs.CodecRFC3339
import Vegeta.Proofs.StreamCut
namespace Vegeta.Proofs.EncodeCmd
open Vegeta.Go Vegeta.Model.Codec Vegeta.Model.GobFrame Vegeta.Model.GobValue Vegeta.Model.EncodeCmd
open Vegeta.Proofs.Codec Vegeta.Proofs.Gob Vegeta.Proofs.GobFrame

/-! ### unfolding one call -/

theorem encCalls_cons (c : Codec) (st : EncState) (a : Zone × Result) (rest : List (Zone × Result)) :
    encCalls c st (a :: rest) =
      ((encCall c st a.1 a.2).bytes ++ (encCalls c (encCall c st a.1 a.2).st rest).1,
       (encCall c st a.1 a.2).ok :: (encCalls c (encCall c st a.1 a.2).st rest).2) := by
  cases a; rfl

theorem okCalls_nil (c : Codec) (st : EncState) : okCalls c st [] = [] := rfl

theorem okCalls_cons (c : Codec) (st : EncState) (a : Zone × Result) (rest : List (Zone × Result)) :
    okCalls c st (a :: rest) =
      if (encCall c st a.1 a.2).ok then a :: okCalls c (encCall c st a.1 a.2).st rest
      else okCalls c (encCall c st a.1 a.2).st rest := by
  unfold okCalls
  rw [encCalls_cons]
  simp only [List.zip_cons_cons, List.filter_cons]
  split <;> simp

/-! ### CSV -/

theorem csv_calls (st : EncState) (args : List (Zone × Result)) :
    encCalls .csv st args = (encodeCSVAll (args.map (·.2)), args.map (fun _ => true)) := by
  induction args generalizing st with
  | nil => rfl
  | cons a rest ih =>
    rw [encCalls_cons]
    simp only [encCall, ih, encodeCSVAll, List.map_cons, List.flatMap_cons]

theorem okCalls_csv (st : EncState) (args : List (Zone × Result)) : okCalls .csv st args = args := by
  induction args generalizing st with
  | nil => rfl
  | cons a rest ih =>
    rw [okCalls_cons]
    simp only [encCall, ih, if_true]

/-! ### JSON -/

/-- the call can marshal its result -/
def jsonOK (a : Zone × Result) : Bool := (encodeJSON (zoneMin a.1) a.2).isSome

theorem json_calls_failed (st : EncState) (hst : st.jsonFailed = true) (args : List (Zone × Result)) :
    encCalls .json st args = ([], args.map (fun _ => false)) := by
  induction args with
  | nil => rfl
  | cons a rest ih =>
    rw [encCalls_cons]
    simp only [encCall, hst, if_true, ih, List.map_cons, List.nil_append]

theorem okCalls_json_failed (st : EncState) (hst : st.jsonFailed = true) (args : List (Zone × Result)) :
    okCalls .json st args = [] := by
  induction args with
  | nil => rfl
  | cons a rest ih =>
    rw [okCalls_cons]
    simp [encCall, hst, ih]

theorem json_calls (st : EncState) (hst : st.jsonFailed = false) (args : List (Zone × Result)) :
    encCalls .json st args =
      ((args.takeWhile jsonOK).flatMap (recordOf .json),
       (args.takeWhile jsonOK).map (fun _ => true) ++ (args.dropWhile jsonOK).map (fun _ => false)) := by
  induction args with
  | nil => rfl
  | cons a rest ih =>
    rw [encCalls_cons]
    cases he : encodeJSON (zoneMin a.1) a.2 with
    | none =>
      have hj : jsonOK a = false := by simp [jsonOK, he]
      simp only [encCall, hst, he, List.takeWhile_cons, List.dropWhile_cons, hj]
      rw [json_calls_failed _ rfl]
      simp
    | some b =>
      have hj : jsonOK a = true := by simp [jsonOK, he]
      simp only [encCall, hst, he, List.takeWhile_cons, List.dropWhile_cons, hj]
      simp [recordOf, he, ih]

theorem okCalls_json (st : EncState) (hst : st.jsonFailed = false) (args : List (Zone × Result)) :
    okCalls .json st args = args.takeWhile jsonOK := by
  induction args with
  | nil => rfl
  | cons a rest ih =>
    rw [okCalls_cons]
    cases he : encodeJSON (zoneMin a.1) a.2 with
    | none =>
      have hj : jsonOK a = false := by simp [jsonOK, he]
      simp only [encCall, hst, he, List.takeWhile_cons, hj]
      simp [okCalls_json_failed]
    | some b =>
      have hj : jsonOK a = true := by simp [jsonOK, he]
      simp only [encCall, hst, he, List.takeWhile_cons, hj]
      simp [ih]

/-! ### gob -/

/-- the call can encode its result -/
def gobOK (a : Zone × Result) : Bool := (valuePayload a.1 a.2).isSome

theorem gob_calls (st : EncState) (args : List (Zone × Result)) :
    encCalls .gob st args =
      ((if st.gobTypesSent = true ∨ args = [] then [] else preamble) ++ (args.filter gobOK).flatMap (recordOf .gob),
       args.map gobOK) := by
  induction args generalizing st with
  | nil => simp [encCalls]
  | cons a rest ih =>
    rw [encCalls_cons]
    cases he : valuePayload a.1 a.2 with
    | none =>
      have hj : gobOK a = false := by simp [gobOK, he]
      simp only [encCall, he, ih, List.filter_cons, hj, List.map_cons]
      cases st.gobTypesSent <;> simp
    | some p =>
      have hj : gobOK a = true := by simp [gobOK, he]
      simp only [encCall, he, ih, List.filter_cons, hj, List.map_cons]
      cases st.gobTypesSent <;> simp [recordOf, he]

theorem okCalls_gob (st : EncState) (args : List (Zone × Result)) :
    okCalls .gob st args = args.filter gobOK := by
  induction args generalizing st with
  | nil => rfl
  | cons a rest ih =>
    rw [okCalls_cons]
    cases he : valuePayload a.1 a.2 with
    | none =>
      have hj : gobOK a = false := by simp [gobOK, he]
      simp [encCall, he, ih, hj]
    | some p =>
      have hj : gobOK a = true := by simp [gobOK, he]
      simp [encCall, he, ih, hj]

/-! ### whole records, and which calls return nil -/

/-- **every Encode call appends exactly one whole record or nothing** (gob: plus the type definitions, once,
on the first call): after ANY sequence of calls — encodable results or not, whatever the caller does about
errors — the writer holds the records of the calls that returned nil, in call order, and nothing else -/
theorem enc_calls_whole_records (c : Codec) (args : List (Zone × Result)) :
    (encCalls c {} args).1 =
      (if c = .gob ∧ args ≠ [] then preamble else []) ++ (okCalls c {} args).flatMap (recordOf c) := by
  cases c with
  | csv =>
    rw [csv_calls, okCalls_csv]
    simp only [encodeCSVAll, List.flatMap_map]
    rfl
  | json =>
    rw [json_calls _ rfl, okCalls_json _ rfl]
    simp
  | gob =>
    rw [gob_calls, okCalls_gob]
    by_cases h : args = [] <;> simp [h]

/-- which calls return nil. CSV: all. -/
theorem enc_calls_ok_csv (args : List (Zone × Result)) : (encCalls .csv {} args).2 = args.map (fun _ => true) := by
  rw [csv_calls]

/-- JSON: exactly the calls before the first result that cannot be marshalled — the encoder stays failed -/
theorem enc_calls_ok_json (args : List (Zone × Result)) :
    (encCalls .json {} args).2 =
      (args.takeWhile (fun a => (encodeJSON (zoneMin a.1) a.2).isSome)).map (fun _ => true) ++
      (args.dropWhile (fun a => (encodeJSON (zoneMin a.1) a.2).isSome)).map (fun _ => false) := by
  rw [json_calls _ rfl]
  rfl

/-- gob: exactly the calls whose result can be encoded; a failure does not affect later calls -/
theorem enc_calls_ok_gob (args : List (Zone × Result)) :
    (encCalls .gob {} args).2 = args.map (fun a => (valuePayload a.1 a.2).isSome) := by
  rw [gob_calls]
  rfl

/-! ### reading the writer's content back -/

/-- … hence what is at the writer after any call sequence decodes to exactly the results of the successful
calls (each in its codec's domain), then end-of-stream -/
theorem enc_calls_decode_csv (args : List (Zone × Result)) (h : ∀ a ∈ args, ReprCSVResult a.2) :
    decodeCSV (encCalls .csv {} args).1 = (args.map (fun a => csvDecoded a.2), .eof) := by
  rw [csv_calls]
  simp only
  rw [decodeCSV_encodeCSVAll _ (by
    intro r hr
    obtain ⟨a, ha, rfl⟩ := List.mem_map.mp hr
    exact h a ha)]
  simp

theorem forall₂_length {α β : Type} {R : α → β → Prop} {as : List α} {bs : List β}
    (h : Forall₂ R as bs) : as.length = bs.length := by
  induction h with
  | nil => rfl
  | cons _ _ ih => simp [ih]

theorem take_flatten_le (n : Nat) (ls : List Bytes) : (ls.take n).flatten.length ≤ ls.flatten.length := by
  have : ls.flatten = (ls.take n).flatten ++ (ls.drop n).flatten := by
    rw [← List.flatten_append, List.take_append_drop]
  rw [this, List.length_append]; omega

/-- record lines decoding one by one decode as a stream, then end-of-stream -/
theorem decodeJSON_lines (lines : List Bytes) (rs : List Result)
    (hf : Forall₂ (fun l r => IsLine l ∧ decodeJSONLine l = .ok r) lines rs) :
    decodeJSON lines.flatten = (rs, .eof) := by
  have h := decodeJSON_cut lines rs hf lines.flatten.length
  have hlen : lines.length = rs.length := forall₂_length hf
  have hb := linesBefore_spec lines lines.flatten.length
  have hall : linesBefore lines lines.flatten.length = lines.length := by
    rcases Nat.lt_or_ge (linesBefore lines lines.flatten.length) lines.length with hlt | hge
    · exfalso
      have hget : lines[linesBefore lines lines.flatten.length]? =
          some lines[linesBefore lines lines.flatten.length] := List.getElem?_eq_getElem hlt
      have h3 := hb.2.2 _ hget
      have hsub := take_flatten_le (linesBefore lines lines.flatten.length + 1) lines
      omega
    · have := hb.1; omega
  rw [List.take_length] at h
  rw [h, hall, hlen, List.take_length]

theorem json_lines (l : List (Zone × Result))
    (h : ∀ a ∈ l, ReprJSONResult a.2 ∧ (zoneMin a.1).natAbs < 1440) :
    Forall₂ (fun l r => IsLine l ∧ decodeJSONLine l = .ok r) (l.map (recordOf .json)) (l.map (·.2)) := by
  induction l with
  | nil => exact .nil
  | cons a l ih =>
    obtain ⟨hr, hz⟩ := h a (by simp)
    have ht : TimeOK a.2.timestamp (zoneMin a.1) := by
      obtain ⟨b, hb, hp, hc⟩ := timeUnmarshal_timeMarshal a.2.timestamp (zoneMin a.1) hr.num.ts0
        (by simpa [tsLimit] using hr.num.ts1) hz
      exact ⟨b, hb, hp, hc⟩
    obtain ⟨b, hb, hd⟩ := decodeJSONLine_encodeJSON (zoneMin a.1) a.2 hr ht
    have hrec : recordOf .json a = b := by simp [recordOf, hb]
    simp only [List.map_cons, hrec]
    exact .cons ⟨encodeJSON_single_newline _ _ b hb, hd⟩ (ih (fun x hx => h x (by simp [hx])))

theorem enc_calls_decode_json (args : List (Zone × Result))
    (h : ∀ a ∈ okCalls .json {} args, ReprJSONResult a.2 ∧ (zoneMin a.1).natAbs < 1440) :
    decodeJSON (encCalls .json {} args).1 = ((okCalls .json {} args).map (·.2), .eof) := by
  rw [enc_calls_whole_records]
  simp only [reduceCtorEq, false_and, if_false, List.nil_append]
  rw [List.flatMap_def]
  exact decodeJSON_lines _ _ (json_lines _ h)

/-- the value messages of calls in the gob domain (each with its own zone) -/
theorem gob_frames (l : List (Zone × Result)) (h : ∀ a ∈ l, ReprGobResult a.1 a.2 ∧ ZoneOK a.1) :
    ∃ ps, l.flatMap (recordOf .gob) = encodeFrames ps ∧ ps.length = l.length ∧ (∀ p ∈ ps, p.length < tooBig) ∧
      decValues ps = (l.map (fun a => gobDecoded a.2), true) := by
  induction l with
  | nil => exact ⟨[], rfl, rfl, by simp, rfl⟩
  | cons a l ih =>
    obtain ⟨ps, h1, h2, h3, h4⟩ := ih (fun x hx => h x (by simp [hx]))
    obtain ⟨hr, hz⟩ := h a (by simp)
    obtain ⟨p, hp1, hp2, hp3⟩ := decValue_valuePayload a.1 a.2 hz hr
    refine ⟨p :: ps, ?_, by simp [h2], ?_, ?_⟩
    · simp [recordOf, hp1, h1, encodeFrames_cons]
    · intro q hq
      rcases List.mem_cons.mp hq with rfl | hq
      · exact hp2
      · exact h3 q hq
    · simp [decValues, hp3, h4]

/-- gob: end-of-stream if a value was written (or nothing was called); after calls that all failed only type
definitions are at the writer, which reads as an unexpected end -/
theorem enc_calls_decode_gob (args : List (Zone × Result))
    (h : ∀ a ∈ okCalls .gob {} args, ReprGobResult a.1 a.2 ∧ ZoneOK a.1) :
    decodeGob (encCalls .gob {} args).1 =
      ((okCalls .gob {} args).map (fun a => gobDecoded a.2),
       if args = [] ∨ okCalls .gob {} args ≠ [] then .eof else .err) := by
  by_cases hargs : args = []
  · subst hargs
    decide
  · rw [enc_calls_whole_records]
    obtain ⟨ps, h1, h2, h3, h4⟩ := gob_frames _ h
    have hall : ∀ f ∈ preFrames ++ ps, f.length < tooBig := by
      intro f hf
      rcases List.mem_append.mp hf with h | h
      · exact preFrames_lt f h
      · exact h3 f h
    have hstream : (if Codec.gob = Codec.gob ∧ args ≠ [] then preamble else []) ++
        (okCalls .gob {} args).flatMap (recordOf .gob) = encodeFrames (preFrames ++ ps) := by
      rw [if_pos ⟨rfl, hargs⟩, h1]
      simp [preamble, encodeFrames]
    rw [hstream]
    unfold decodeGob
    simp only [parseFrames_encodeFrames _ hall]
    have hs := stripPre_take preFrames ps (preFrames ++ ps).length
    rw [List.take_length] at hs
    have h4len : preFrames.length = 4 := rfl
    have e : (preFrames ++ ps).length - preFrames.length = ps.length := by simp
    rw [e, List.take_length] at hs
    rw [hs]
    simp only [h4]
    rw [gobTerm_true]
    congr 1
    have hne : preFrames ++ ps ≠ [] := by
      intro hc
      have := congrArg List.length hc
      simp [h4len] at this
    have hl : (preFrames ++ ps).length = 4 + ps.length := by simp [h4len]
    by_cases hps : okCalls .gob {} args = []
    · have : ps.length = 0 := by rw [h2, hps]; rfl
      simp [hargs, hps, hne, hl, this]
    · have : 0 < ps.length := by rw [h2]; exact List.length_pos_iff.mpr hps
      simp [hps, hl, this]

/-! ### Sanity checks (non-vacuity) -/

/-- a result of year 10000: `Time.MarshalJSON` fails -/
def exLate : Result := { timestamp := 253402300800000000000 }
def exGood : Result := { timestamp := 1600000000000000123, attack := [97], body := some [104, 105] }

-- JSON: [ok, unencodable, ok] — the encoder stays failed
example : (encCalls .json {} [(.utc, exGood), (.utc, exLate), (.utc, exGood)]).2 = [true, false, false] := by decide
example : okCalls .json {} [(.utc, exGood), (.utc, exLate), (.utc, exGood)] = [(.utc, exGood)] := by decide

-- gob: a zone `Time.MarshalBinary` rejects (offset -1 minute) fails that call only
example : (encCalls .gob {} [(.utc, exGood), (.fixed (-60), exGood), (.utc, exGood)]).2 = [true, false, true] := by
  decide
example : okCalls .gob {} [(.utc, exGood), (.fixed (-60), exGood), (.utc, exGood)] = [(.utc, exGood), (.utc, exGood)] := by
  decide
-- a failing first call still sends the type definitions; they read as an unexpected end
set_option maxRecDepth 20000 in
example : (encCalls .gob {} [(.fixed (-60), exGood)]).1 = preamble ∧ decodeGob preamble = ([], .err) := by decide

end Vegeta.Proofs.EncodeCmd
