/-
The JSON targeter's header merge in the reference model: it refines the by-value model
(`JSONTargets.vmerge`) and never lets a target share a backing array with the defaults, with
another key, or with anything that existed before the call.
-/
import Vegeta.Model.JSONTargetsRef
import Vegeta.Proofs.HTTPHeap
import Vegeta.Proofs.JSONTargets
namespace Vegeta.Proofs.JSONTargetsRef
open Vegeta.Go
open Vegeta.Model.HTTPTargets (Slice Heap HMap view hlookup hinsert nilSlice growCap)
open Vegeta.Model.JSONTargets (VMap vlookup vset vappend vmerge)
open Vegeta.Model.JSONTargetsRef
open Vegeta.Proofs.HTTPHeap

theorem writeAt_length (i : Nat) (vs cells : List Bytes) (h : i + vs.length ≤ cells.length) :
    (writeAt i vs cells).length = cells.length := by
  simp [writeAt]; omega

theorem take_writeAt (i : Nat) (vs cells : List Bytes) (h : i + vs.length ≤ cells.length) :
    (writeAt i vs cells).take (i + vs.length) = cells.take i ++ vs := by
  have h1 : (cells.take i ++ vs).length = i + vs.length := by simp; omega
  rw [writeAt, List.take_left' h1]

theorem take_writeAt_below (i j : Nat) (vs cells : List Bytes) (hj : j ≤ i) (hi : i ≤ cells.length) :
    (writeAt i vs cells).take j = cells.take j := by
  rw [writeAt, List.append_assoc, List.take_append_of_le_length (by simp; omega), List.take_take]
  congr 1; omega

theorem sliceOK_modify' {h : Heap} {t : Slice} (i : Nat) (f : List Bytes → List Bytes)
    (hf : ∀ cells, h[i]? = some cells → (f cells).length = cells.length) (ht : SliceOK h t) :
    SliceOK (h.modify i f) t := by
  refine ⟨ht.1, ?_⟩
  rcases ht.2 with h0 | ⟨cells, hc, hl⟩
  · exact Or.inl h0
  · right
    by_cases he : i = t.arr
    · subst he
      exact ⟨f cells, by rw [getElem?_modify_eq, hc]; rfl, by rw [hf cells hc, hl]⟩
    · exact ⟨cells, by rw [getElem?_modify_ne _ _ _ _ he, hc], hl⟩

/-- `append(s, vs...)`: the view grows by `vs`; the result is `s`'s own array or a fresh one;
nothing but `s`'s array (and only when `s` has capacity) is written -/
theorem appendMany_spec (h : Heap) (s : Slice) (vs : List Bytes) (hs : SliceOK h s) :
    view (appendMany h s vs).1 (appendMany h s vs).2 = view h s ++ vs ∧
    SliceOK (appendMany h s vs).1 (appendMany h s vs).2 ∧
    h.length ≤ (appendMany h s vs).1.length ∧
    ((0 < (appendMany h s vs).2.cap → (appendMany h s vs).2.arr = s.arr ∧ 0 < s.cap ∨ (appendMany h s vs).2.arr = h.length)) ∧
    (∀ t, SliceOK h t → SliceOK (appendMany h s vs).1 t) ∧
    (∀ t, SliceOK h t → (0 < t.cap → 0 < s.cap → t.arr ≠ s.arr) → view (appendMany h s vs).1 t = view h t) ∧
    (∀ a, a < h.length → (0 < s.cap → a ≠ s.arr) → (appendMany h s vs).1[a]? = h[a]?) := by
  by_cases hv : vs = []
  · have e : appendMany h s vs = (h, s) := by simp [appendMany, hv]
    rw [e, hv]
    refine ⟨by simp, hs, Nat.le_refl _, ?_, fun t ht => ht, fun t _ _ => rfl, fun a _ _ => rfl⟩
    intro hc; exact Or.inl ⟨rfl, hc⟩
  · by_cases hfit : s.len + vs.length ≤ s.cap
    · have e : appendMany h s vs = (h.modify s.arr (writeAt s.len vs), { s with len := s.len + vs.length }) := by
        simp [appendMany, hv, hfit]
      rw [e]
      have hcap : 0 < s.cap := by
        have : 0 < vs.length := List.length_pos_iff.mpr hv
        omega
      rcases hs.2 with h0 | ⟨cells, hc, hl⟩
      · omega
      · have hm : (h.modify s.arr (writeAt s.len vs))[s.arr]? = some (writeAt s.len vs cells) := by
          rw [getElem?_modify_eq, hc]; rfl
        have hlen : (writeAt s.len vs cells).length = s.cap := by rw [writeAt_length _ _ _ (by omega), hl]
        refine ⟨?_, ⟨hfit, Or.inr ⟨_, hm, hlen⟩⟩, ?_, ?_, ?_, ?_, ?_⟩
        · show ((h.modify s.arr (writeAt s.len vs))[s.arr]?.getD []).take (s.len + vs.length) = (h[s.arr]?.getD []).take s.len ++ vs
          rw [hm, hc]
          exact take_writeAt _ _ _ (by omega)
        · rw [List.length_modify]; exact Nat.le_refl _
        · intro _; exact Or.inl ⟨rfl, hcap⟩
        · intro t ht
          apply sliceOK_modify' _ _ _ ht
          intro c hc'
          rw [hc] at hc'; cases hc'
          exact writeAt_length _ _ _ (by omega)
        · intro t ht hne
          by_cases hct : 0 < t.cap
          · exact view_modify_other _ _ (fun e => hne hct hcap e.symm)
          · exact view_congr (Or.inl (len_zero_of_cap_zero ht hct))
        · intro a _ hne
          exact getElem?_modify_ne _ _ _ _ (fun e => hne hcap e.symm)
    · have e : appendMany h s vs = (h ++ [view h s ++ vs ++ List.replicate (max (growCap s.cap) (s.len + vs.length) - (s.len + vs.length)) []],
          { arr := h.length, len := s.len + vs.length, cap := max (growCap s.cap) (s.len + vs.length) }) := by
        simp [appendMany, hv, hfit]
      rw [e]
      have hlen := view_length hs
      have hbig : s.len + vs.length ≤ max (growCap s.cap) (s.len + vs.length) := Nat.le_max_right _ _
      refine ⟨?_, ⟨hbig, Or.inr ⟨_, List.getElem?_concat_length, ?_⟩⟩, by simp, fun _ => Or.inr rfl,
        fun t ht => sliceOK_append _ ht, fun t ht _ => view_append _ ht, fun a ha _ => List.getElem?_append_left ha⟩
      · show ((h ++ [_])[h.length]?.getD []).take (s.len + vs.length) = view h s ++ vs
        rw [List.getElem?_concat_length]
        have : (view h s ++ vs).length = s.len + vs.length := by simp [hlen]
        simp only [Option.getD_some]
        rw [List.append_assoc (view h s) vs, ← List.append_assoc, List.take_left' this]
      · simp [hlen]; omega

/-- the header map `m` under construction from heap `hS` on: entries are nil or fresh, distinct
keys in distinct arrays, nothing older touched, and it shows exactly the by-value map `vm` -/
structure MInv (hS : Heap) (m : HMap) (h : Heap) (vm : VMap) : Prop where
  ext : Extends hS h
  ok : ∀ k s, hlookup m k = some s → SliceOK h s
  fresh : ∀ k s, hlookup m k = some s → 0 < s.cap → hS.length ≤ s.arr
  distinct : ∀ k1 s1 k2 s2, hlookup m k1 = some s1 → hlookup m k2 = some s2 →
    0 < s1.cap → 0 < s2.cap → s1.arr = s2.arr → k1 = k2
  keys : ∀ k, (hlookup m k).isSome = (vlookup vm k).isSome
  vals : ∀ k, view h ((hlookup m k).getD nilSlice) = (vlookup vm k).getD []

theorem minv_empty (h : Heap) : MInv h [] h [] :=
  ⟨extends_refl h, (by intro k s hk; cases hk), (by intro k s hk; cases hk), (by intro k1 s1 k2 s2 hk; cases hk),
   fun _ => rfl, fun _ => by simp [hlookup, vlookup, view, nilSlice]⟩

theorem mergeKey_inv (hS : Heap) (m : HMap) (h : Heap) (vm : VMap) (k : Bytes) (vs : List Bytes) (inv : MInv hS m h vm) :
    MInv hS (mergeKey m h k vs).1 (mergeKey m h k vs).2 (vappend vm k vs) := by
  have hsok := lookup_getD_ok inv.ok k
  have hvk := inv.vals k
  generalize hs : (hlookup m k).getD nilSlice = s at hsok hvk
  obtain ⟨a1, a2, a3, a4, a5, a6, a7⟩ := appendMany_spec h s vs hsok
  have hlk : ∀ k', hlookup (mergeKey m h k vs).1 k' = if k = k' then some (appendMany h s vs).2 else hlookup m k' := by
    intro k'; simp only [mergeKey, hs, hlookup_hinsert]
  have hheap : (mergeKey m h k vs).2 = (appendMany h s vs).1 := by simp only [mergeKey, hs]
  have hsm : 0 < s.cap → hlookup m k = some s := by
    intro hc
    cases hk : hlookup m k with
    | none => rw [hk] at hs; simp at hs; subst hs; simp [nilSlice] at hc
    | some s' => rw [hk] at hs; simp at hs; subst hs; rfl
  have hvl : ∀ k', vlookup (vappend vm k vs) k' = if k = k' then some ((vlookup vm k).getD [] ++ vs) else vlookup vm k' :=
    fun k' => Vegeta.Proofs.JSONTargets.vlookup_vappend vm k k' vs
  refine ⟨?_, ?_, ?_, ?_, ?_, ?_⟩
  · rw [hheap]
    refine ⟨Nat.le_trans inv.ext.1 a3, ?_⟩
    intro a ha
    rw [← inv.ext.2 a ha]
    apply a7 a (by have := inv.ext.1; omega)
    intro hc he
    have := inv.fresh k s (hsm hc) hc
    omega
  · intro k' s' hk'
    rw [hlk] at hk'; rw [hheap]
    split at hk'
    · cases hk'; exact a2
    · exact a5 s' (inv.ok k' s' hk')
  · intro k' s' hk' hc'
    rw [hlk] at hk'
    split at hk'
    · cases hk'
      rcases a4 hc' with ⟨e1, e2⟩ | e1
      · rw [e1]; exact inv.fresh k s (hsm e2) e2
      · rw [e1]; exact inv.ext.1
    · exact inv.fresh k' s' hk' hc'
  · intro k1 s1 k2 s2 h1 h2 c1 c2 harr
    rw [hlk] at h1 h2
    split at h1 <;> split at h2
    · rename_i a b; rw [← a, ← b]
    · rename_i a b; cases h1
      rcases a4 c1 with ⟨e1, e2⟩ | e1
      · rw [← a]; exact inv.distinct k s k2 s2 (hsm e2) h2 e2 c2 (by rw [← e1]; exact harr)
      · have := arr_lt_of_ok (inv.ok k2 s2 h2) c2; omega
    · rename_i a b; cases h2
      rcases a4 c2 with ⟨e1, e2⟩ | e1
      · rw [← b]; exact inv.distinct k1 s1 k s h1 (hsm e2) c1 e2 (by rw [← e1]; exact harr)
      · have := arr_lt_of_ok (inv.ok k1 s1 h1) c1; omega
    · exact inv.distinct k1 s1 k2 s2 h1 h2 c1 c2 harr
  · intro k'
    rw [hlk, hvl]
    by_cases hkk : k = k'
    · simp [hkk]
    · simp only [hkk, ↓reduceIte]; exact inv.keys k'
  · intro k'
    rw [hlk, hvl, hheap]
    by_cases hkk : k = k'
    · subst hkk
      simp only [↓reduceIte, Option.getD_some]
      rw [a1, hvk]
    · simp only [hkk, ↓reduceIte]
      rw [← inv.vals k']
      apply a6 _ (lookup_getD_ok inv.ok k')
      intro hc' hc he
      cases hk' : hlookup m k' with
      | none => rw [hk'] at hc'; simp [nilSlice] at hc'
      | some s' =>
        rw [hk'] at hc' he
        simp only [Option.getD_some] at hc' he
        exact hkk (inv.distinct k s k' s' (hsm hc) hk' hc hc' he.symm)

theorem mergeRef_inv (hS : Heap) : ∀ (src : List (Bytes × List Bytes)) (m : HMap) (h : Heap) (vm : VMap),
    MInv hS m h vm → MInv hS (mergeRef m h src).1 (mergeRef m h src).2 (vmerge vm src) := by
  intro src
  induction src with
  | nil => intro m h vm inv; exact inv
  | cons e r ih =>
    intro m h vm inv
    obtain ⟨k, vs⟩ := e
    have := ih _ _ _ (mergeKey_inv hS m h vm k vs inv)
    simpa [mergeRef, vmerge] using this

end Vegeta.Proofs.JSONTargetsRef
