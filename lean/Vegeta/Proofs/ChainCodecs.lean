/-
C08, transcoding chains for the *modelled* codecs: `chain_preserves` instantiated with the gob,
CSV and JSON result codecs of C07 (Model/GobValue.lean, Model/CodecResult.lean; round trips
`gob_roundtrip_explicit`, `decodeCSV_encodeCSVAll`, `json_roundtrip`).  No codec hypothesis is left:
`chain_preserves_all_formats` for chains over {gob, csv, json}, `chain_preserves_csv_json` for the
sub-family {csv, json} (on the larger domain `ReprBoth`, without gob's size clause).
-/
import Vegeta.Proofs.Chain
import Vegeta.Props.C07
namespace Vegeta.Props.C08
open Vegeta.Go Vegeta.Model.DecoderFor Vegeta.Model.Codec Vegeta.Proofs.Codec
open Vegeta.Model.GobFrame Vegeta.Model.GobValue Vegeta.Proofs.Gob

/-- a zone offset `MarshalJSON` can print: whole minutes, less than a day -/
abbrev JZone := { z : Int // z.natAbs < 1440 }

/-- the modelled formats: CSV, and JSON written with the `time.Time`s in a given zone (a JSON step
may use a different zone each time: after a CSV step the times are local, after a JSON step they
carry the offset that was read) -/
inductive Fmt where
  | csv : Fmt
  | json : JZone → Fmt

/-- all `Decode` calls on a stream in the given format: the results and how the stream ended -/
def decodeStream : Fmt → Bytes → List Result × Term
  | .csv, s => decodeCSV s
  | .json _, s => decodeJSON s

/-- The codec family of the model.  A stream is `none` when an encoder failed; decoding succeeds
(`some out`) only if every `Decode` call up to the end of the stream succeeded and the stream ended
with `io.EOF`. -/
def resultCodecs : Codecs Fmt Result (Option Bytes) where
  enc f rs := match f with
    | .csv => some (encodeCSVAll rs)
    | .json z => encodeJSONAll z.val rs
  dec f s := match s with
    | none => none
    | some b => match decodeStream f b with
      | (out, .eof) => some out
      | (_, .err) => none

/-- the common domain of both codecs -/
def ReprBoth (r : Result) : Prop := ReprCSVResult r ∧ ReprJSONResult r

/-- header maps equal as maps: both nil, or the same entries in some order -/
def HdrEqv : Option Header → Option Header → Prop
  | none, none => True
  | some h1, some h2 => h1.Perm h2
  | _, _ => False

/-- the equivalence along a chain: every field equal, bodies equal as byte strings (nil ≡ empty),
headers equal as maps.  On the domain it implies `Result.Equal` (`aux_resEqv_equal`). -/
def ResEqv (a b : Result) : Prop :=
  a.attack = b.attack ∧ a.seq = b.seq ∧ a.code = b.code ∧ a.timestamp = b.timestamp ∧
  a.latency = b.latency ∧ a.bytesOut = b.bytesOut ∧ a.bytesIn = b.bytesIn ∧ a.error = b.error ∧
  a.body.getD [] = b.body.getD [] ∧ a.method = b.method ∧ a.url = b.url ∧ HdrEqv a.headers b.headers

theorem aux_hdrEqv_refl (h : Option Header) : HdrEqv h h := by
  cases h with
  | none => trivial
  | some h => exact List.Perm.refl h

theorem aux_hdrEqv_trans (a b c : Option Header) (h1 : HdrEqv a b) (h2 : HdrEqv b c) : HdrEqv a c := by
  cases a <;> cases b <;> cases c <;> simp only [HdrEqv] at * <;> first | trivial | exact h1.trans h2

theorem aux_resEqv_refl (a : Result) : ResEqv a a :=
  ⟨rfl, rfl, rfl, rfl, rfl, rfl, rfl, rfl, rfl, rfl, rfl, aux_hdrEqv_refl _⟩

theorem aux_resEqv_trans (a b c : Result) (h1 : ResEqv a b) (h2 : ResEqv b c) : ResEqv a c := by
  obtain ⟨a1, a2, a3, a4, a5, a6, a7, a8, a9, a10, a11, a12⟩ := h1
  obtain ⟨b1, b2, b3, b4, b5, b6, b7, b8, b9, b10, b11, b12⟩ := h2
  exact ⟨a1.trans b1, a2.trans b2, a3.trans b3, a4.trans b4, a5.trans b5, a6.trans b6, a7.trans b7,
    a8.trans b8, a9.trans b9, a10.trans b10, a11.trans b11, aux_hdrEqv_trans _ _ _ a12 b12⟩

/-- what the CSV decoder hands back is equivalent to what was written … -/
theorem aux_resEqv_csvDecoded (r : Result) : ResEqv r (csvDecoded r) := by
  refine ⟨rfl, rfl, rfl, rfl, rfl, rfl, rfl, rfl, ?_, rfl, rfl, ?_⟩
  · simp [csvDecoded]
  · simp only [csvDecoded]
    cases r.headers with
    | none => trivial
    | some h => exact (sortKV_perm h).symm

/-- … and is again in the common domain (closure of the domain under the CSV decoder: the body
comes back non-nil, the header map with its keys sorted — both still representable in both
formats, so the next encoder of the chain accepts it). -/
theorem aux_reprBoth_csvDecoded (r : Result) (hr : ReprBoth r) : ReprBoth (csvDecoded r) := by
  obtain ⟨hc, hj⟩ := hr
  have hnum : ReprNumbers (csvDecoded r) :=
    ⟨hc.num.seq, hc.num.code, hc.num.ts0, hc.num.ts1, hc.num.latency, hc.num.bytesOut, hc.num.bytesIn⟩
  constructor
  · refine { num := hnum, attack := hc.attack, error := hc.error, method := hc.method, url := hc.url,
             body := ?_, headers := ?_ }
    · intro x hx
      simp only [csvDecoded, Option.getD_some] at hx
      exact hc.body x hx
    · intro h hh
      simp only [csvDecoded] at hh
      cases h0 : r.headers with
      | none => rw [h0] at hh; cases hh
      | some h' =>
        rw [h0] at hh
        simp only [Option.map_some, Option.some.injEq] at hh
        subst hh
        obtain ⟨⟨hn, hall⟩, hb⟩ := hc.headers h' h0
        have hp := sortKV_perm h'
        exact ⟨⟨((hp.map (·.1)).nodup_iff).2 hn, fun kv hkv => hall kv (hp.mem_iff.1 hkv)⟩,
          fun kv hkv => hb kv (hp.mem_iff.1 hkv)⟩
  · refine { num := hnum, attack := hj.attack, error := hj.error, method := hj.method, url := hj.url,
             body := ?_, headers := ?_ }
    · intro b hb x hx
      simp only [csvDecoded, Option.some.injEq] at hb
      subst hb
      exact hc.body x hx
    · intro h hh
      simp only [csvDecoded] at hh
      cases h0 : r.headers with
      | none => rw [h0] at hh; cases hh
      | some h' =>
        rw [h0] at hh
        simp only [Option.map_some, Option.some.injEq] at hh
        subst hh
        obtain ⟨hn, hall⟩ := hj.headers h' h0
        have hp := sortKV_perm h'
        exact ⟨((hp.map (·.1)).nodup_iff).2 hn, fun kv hkv => hall kv (hp.mem_iff.1 hkv)⟩

/-- on the domain, the chain equivalence implies `Result.Equal` (in the direction the commands'
users compare: decoded against original) -/
theorem aux_resEqv_equal (r out : Result) (hr : ReprBoth r) (h : ResEqv r out) : out.equal r = true := by
  obtain ⟨a1, a2, a3, a4, a5, a6, a7, a8, a9, a10, a11, a12⟩ := h
  have hh : headerEqual out.headers r.headers = true := by
    cases h1 : r.headers with
    | none =>
      cases h2 : out.headers with
      | none => rfl
      | some h' => rw [h1, h2] at a12; exact a12.elim
    | some h =>
      cases h2 : out.headers with
      | none => rw [h1, h2] at a12; exact a12.elim
      | some h' =>
        rw [h1, h2] at a12
        exact headerEqual_of_perm h' h a12.symm (hr.2.headers h h1).1
  simp [Result.equal, ← a1, ← a2, ← a3, ← a4, ← a5, ← a6, ← a7, ← a8, ← a9, ← a10, ← a11, hh]

theorem aux_seqEq_map_csvDecoded (rs : List Result) : SeqEq ResEqv rs (rs.map csvDecoded) := by
  induction rs with
  | nil => exact SeqEq.nil
  | cons r rs ih => exact SeqEq.cons (aux_resEqv_csvDecoded r) ih

theorem aux_seqEq_equalAll : ∀ (rs out : List Result), (∀ r ∈ rs, ReprBoth r) → SeqEq ResEqv rs out →
    equalAll out rs = true := by
  intro rs out hd h
  induction h with
  | nil => rfl
  | cons hab _ ih =>
    simp only [equalAll, Bool.and_eq_true]
    exact ⟨aux_resEqv_equal _ _ (hd _ (by simp)) hab, ih (fun r hr => hd r (by simp [hr]))⟩

/-- **The per-format round trips hold for the modelled CSV and JSON codecs** on the common domain
(C07's `csv_roundtrip` / `json_roundtrip`), and the domain is closed under what the decoders return:
the hypothesis `RoundTrips` of `chain_preserves` is discharged. -/
theorem roundTrips_csv_json :
    RoundTrips resultCodecs ResEqv (fun rs => ∀ r ∈ rs, ReprBoth r) where
  refl := aux_resEqv_refl
  trans := aux_resEqv_trans
  roundTrip := by
    intro f rs hd
    cases f with
    | csv =>
      refine ⟨rs.map csvDecoded, ?_, aux_seqEq_map_csvDecoded rs, ?_⟩
      · simp only [resultCodecs, decodeStream, decodeCSV_encodeCSVAll rs (fun r hr => (hd r hr).1)]
      · intro r hr
        obtain ⟨r0, h0, rfl⟩ := List.mem_map.mp hr
        exact aux_reprBoth_csvDecoded r0 (hd r0 h0)
    | json z =>
      obtain ⟨s, hs, hdec⟩ := Vegeta.Props.C07.json_roundtrip z.val z.property rs (fun r hr => (hd r hr).2)
      refine ⟨rs, ?_, aux_seqEq_refl ResEqv aux_resEqv_refl rs, hd⟩
      simp only [resultCodecs, hs, decodeStream, hdec]

/-- **"Re-encoding a result file through any chain of formats with the encode command produces a
stream that decodes to the original sequence"** — for the modelled codecs, without any round-trip
hypothesis: for every chain over {csv, json} of ANY length (each JSON step in any zone), every
start format and every result list in the common domain `ReprBoth`, every encoder along the chain
succeeds, every intermediate stream decodes, and the final stream — decoded in the last format of
the chain — yields a list `equalAll` (pointwise `Result.Equal`) to the original and then `io.EOF`. -/
theorem chain_preserves_csv_json (chain : List Fmt) (f0 : Fmt) (rs : List Result)
    (hd : ∀ r ∈ rs, ReprBoth r) :
    ∃ fl s out, resultCodecs.runChain f0 (resultCodecs.enc f0 rs) chain = some (fl, some s) ∧
      fl = chain.getLast?.getD f0 ∧ decodeStream fl s = (out, .eof) ∧ equalAll out rs = true := by
  obtain ⟨fl, s, out, h1, h2, h3, h4⟩ :=
    chain_preserves resultCodecs ResEqv (fun rs => ∀ r ∈ rs, ReprBoth r) roundTrips_csv_json chain f0 rs hd
  cases s with
  | none => simp [resultCodecs] at h3
  | some b =>
    refine ⟨fl, b, out, h1, h2, ?_, aux_seqEq_equalAll rs out hd h4⟩
    simp only [resultCodecs] at h3
    cases hds : decodeStream fl b with
    | mk o t =>
      rw [hds] at h3
      cases t with
      | eof => simp only [Option.some.injEq] at h3; rw [h3]
      | err => cases h3

/-! ### all three formats: gob, CSV, JSON -/

/-- a zone `Time.MarshalBinary` accepts (gob sends a `time.Time` through it) -/
abbrev GZone := { z : Zone // ZoneOK z }

/-- the three formats of `vegeta encode`; a gob or JSON step may carry the times in any zone -/
inductive AnyFmt where
  | gob : GZone → AnyFmt
  | csv : AnyFmt
  | json : JZone → AnyFmt

def decodeAny : AnyFmt → Bytes → List Result × Term
  | .gob _, s => decodeGob s
  | .csv, s => decodeCSV s
  | .json _, s => decodeJSON s

/-- the codec family of the model for all three formats (conventions as for `resultCodecs`) -/
def allCodecs : Codecs AnyFmt Result (Option Bytes) where
  enc f rs := match f with
    | .gob z => encodeGobAll z.val rs
    | .csv => some (encodeCSVAll rs)
    | .json z => encodeJSONAll z.val rs
  dec f s := match s with
    | none => none
    | some b => match decodeAny f b with
      | (out, .eof) => some out
      | (_, .err) => none

/-- **the common domain of all three codecs**: representable in CSV and in JSON, and — gob's only
own restriction — the gob value message stays below gob's size limit (2^33 bytes) in every zone.
(`ReprGobResult`'s other clauses, numeric ranges and distinct header keys, follow from `ReprBoth`.) -/
def ReprAll (r : Result) : Prop := ReprBoth r ∧ ∀ z, ReprGobResult z r

theorem aux_resEqv_gobDecoded (r : Result) : ResEqv r (gobDecoded r) := by
  refine ⟨rfl, rfl, rfl, rfl, rfl, rfl, rfl, rfl, ?_, rfl, rfl, aux_hdrEqv_refl _⟩
  simp only [gobDecoded]
  split
  · rename_i h; simpa using h.symm
  · rfl

/-- closure of `ReprBoth` under the gob decoder (an empty body comes back nil; nothing else changes) -/
theorem aux_reprBoth_gobDecoded (r : Result) (hr : ReprBoth r) : ReprBoth (gobDecoded r) := by
  obtain ⟨hc, hj⟩ := hr
  have hnum : ReprNumbers (gobDecoded r) :=
    ⟨hc.num.seq, hc.num.code, hc.num.ts0, hc.num.ts1, hc.num.latency, hc.num.bytesOut, hc.num.bytesIn⟩
  constructor
  · refine { num := hnum, attack := hc.attack, error := hc.error, method := hc.method, url := hc.url,
             body := ?_, headers := hc.headers }
    intro x hx
    simp only [gobDecoded] at hx
    split at hx
    · simp at hx
    · exact hc.body x hx
  · refine { num := hnum, attack := hj.attack, error := hj.error, method := hj.method, url := hj.url,
             body := ?_, headers := hj.headers }
    intro b hb x hx
    simp only [gobDecoded] at hb
    split at hb
    · cases hb
    · exact hj.body b hb x hx

/-- the length of the field part of a gob value depends only on the lengths of the field payloads -/
theorem aux_encFields_len : ∀ (fs fs' : List (Option Bytes)) (gap : Nat),
    fs.map (·.map List.length) = fs'.map (·.map List.length) →
    (encFields gap fs).length = (encFields gap fs').length := by
  intro fs
  induction fs with
  | nil =>
    intro fs' gap h
    cases fs' with
    | nil => rfl
    | cons a as => simp at h
  | cons f fs ih =>
    intro fs' gap h
    cases fs' with
    | nil => simp at h
    | cons f' fs' =>
      simp only [List.map_cons, List.cons.injEq] at h
      obtain ⟨h1, h2⟩ := h
      cases f with
      | none =>
        cases f' with
        | none => simp only [encFields]; exact ih fs' _ h2
        | some p' => simp at h1
      | some p =>
        cases f' with
        | none => simp at h1
        | some p' =>
          simp only [Option.map_some, Option.some.injEq] at h1
          simp only [encFields, List.length_append, h1, ih fs' 1 h2]

theorem aux_gHeader_len (h1 h2 : Header) (hp : h1.Perm h2) : (gHeader h1).length = (gHeader h2).length := by
  simp only [gHeader, List.length_append, hp.length_eq]
  exact congrArg _ (hp.flatMap_right _).length_eq

/-- equivalent results have gob value messages of the same length (in every zone), so gob's size
clause is invariant along a chain -/
theorem aux_payload_len (z : Zone) (a b : Result) (h : ResEqv a b) :
    (valuePayload z a).map List.length = (valuePayload z b).map List.length := by
  obtain ⟨a1, a2, a3, a4, a5, a6, a7, a8, a9, a10, a11, a12⟩ := h
  have hh : (a.headers.map gHeader).map List.length = (b.headers.map gHeader).map List.length := by
    cases ha : a.headers with
    | none =>
      cases hb : b.headers with
      | none => rfl
      | some h' => rw [ha, hb] at a12; exact a12.elim
    | some h =>
      cases hb : b.headers with
      | none => rw [ha, hb] at a12; exact a12.elim
      | some h' =>
        rw [ha, hb] at a12
        simp only [Option.map_some, Option.some.injEq]
        exact aux_gHeader_len h h' a12
  unfold valuePayload fieldPayloads
  simp only [← a1, ← a2, ← a3, ← a4, ← a5, ← a6, ← a7, ← a8, ← a9, ← a10, ← a11]
  cases (if a.timestamp = zeroTime ∧ z = Zone.utc then some none
      else (timeBinary z a.timestamp).map (fun b => some (gBytes b)) : Option (Option Bytes)) with
  | none => rfl
  | some tf =>
    simp only [Option.map_some, List.length_cons, Option.some.injEq, Nat.add_right_cancel_iff]
    apply aux_encFields_len
    simp only [List.map_cons, List.map_nil, hh]

/-- `ReprAll` is closed under the chain equivalence (given `ReprBoth` of the new result): what any
of the three decoders returns is again accepted by any of the three encoders -/
theorem aux_reprAll_of_eqv (a b : Result) (ha : ReprAll a) (h : ResEqv a b) (hb : ReprBoth b) : ReprAll b := by
  refine ⟨hb, fun z => ?_⟩
  refine { num := hb.1.num, headers := fun h' hh => (hb.2.headers h' hh).1, size := ?_ }
  intro p hp
  have hl := aux_payload_len z a b h
  rw [hp] at hl
  cases hpa : valuePayload z a with
  | none => rw [hpa] at hl; cases hl
  | some pa =>
    rw [hpa] at hl
    simp only [Option.map_some, Option.some.injEq] at hl
    rw [← hl]
    exact (ha.2 z).size pa hpa

theorem aux_seqEq_map_gobDecoded (rs : List Result) : SeqEq ResEqv rs (rs.map gobDecoded) := by
  induction rs with
  | nil => exact SeqEq.nil
  | cons r rs ih => exact SeqEq.cons (aux_resEqv_gobDecoded r) ih

/-- **The per-format round trips hold for all three modelled codecs** on the common domain `ReprAll`
(C07's `gob_roundtrip_explicit`, `csv_roundtrip_explicit`, `json_roundtrip`), and the domain is
closed under what each decoder returns (gob: empty body → nil; CSV: nil body → empty, header keys
sorted; JSON: unchanged). -/
theorem roundTrips_all_formats :
    RoundTrips allCodecs ResEqv (fun rs => ∀ r ∈ rs, ReprAll r) where
  refl := aux_resEqv_refl
  trans := aux_resEqv_trans
  roundTrip := by
    intro f rs hd
    cases f with
    | gob z =>
      obtain ⟨s, hs, hdec⟩ := decodeGob_encodeGobAll z.val rs z.property (fun r hr => (hd r hr).2 z.val)
      refine ⟨rs.map gobDecoded, ?_, aux_seqEq_map_gobDecoded rs, ?_⟩
      · simp only [allCodecs, hs, decodeAny, hdec]
      · intro r hr
        obtain ⟨r0, h0, rfl⟩ := List.mem_map.mp hr
        exact aux_reprAll_of_eqv r0 _ (hd r0 h0) (aux_resEqv_gobDecoded r0) (aux_reprBoth_gobDecoded r0 (hd r0 h0).1)
    | csv =>
      refine ⟨rs.map csvDecoded, ?_, aux_seqEq_map_csvDecoded rs, ?_⟩
      · simp only [allCodecs, decodeAny, decodeCSV_encodeCSVAll rs (fun r hr => (hd r hr).1.1)]
      · intro r hr
        obtain ⟨r0, h0, rfl⟩ := List.mem_map.mp hr
        exact aux_reprAll_of_eqv r0 _ (hd r0 h0) (aux_resEqv_csvDecoded r0) (aux_reprBoth_csvDecoded r0 (hd r0 h0).1)
    | json z =>
      obtain ⟨s, hs, hdec⟩ := Vegeta.Props.C07.json_roundtrip z.val z.property rs (fun r hr => (hd r hr).1.2)
      refine ⟨rs, ?_, aux_seqEq_refl ResEqv aux_resEqv_refl rs, hd⟩
      simp only [allCodecs, hs, decodeAny, hdec]

/-- **"Re-encoding a result file through any chain of formats with the encode command produces a
stream that decodes to the original sequence"** — for all three formats, with no codec hypothesis
left: for every chain over {gob, csv, json} of ANY length (gob and JSON steps in any zone), every
start format and every result list in the common domain `ReprAll`, every encoder along the chain
succeeds, every intermediate stream decodes, and the final stream — decoded in the last format of
the chain — yields a list `equalAll` (pointwise `Result.Equal`) to the original and then `io.EOF`.
(What is not part of this statement: that `DecoderFor` picks, for each intermediate stream, the
decoder of the format it was written in — see `sniff_preserves_stream`, `detect_selects_own_format`
and the first-byte theorems below.) -/
theorem chain_preserves_all_formats (chain : List AnyFmt) (f0 : AnyFmt) (rs : List Result)
    (hd : ∀ r ∈ rs, ReprAll r) :
    ∃ fl s out, allCodecs.runChain f0 (allCodecs.enc f0 rs) chain = some (fl, some s) ∧
      fl = chain.getLast?.getD f0 ∧ decodeAny fl s = (out, .eof) ∧ equalAll out rs = true := by
  obtain ⟨fl, s, out, h1, h2, h3, h4⟩ :=
    chain_preserves allCodecs ResEqv (fun rs => ∀ r ∈ rs, ReprAll r) roundTrips_all_formats chain f0 rs hd
  cases s with
  | none => simp [allCodecs] at h3
  | some b =>
    refine ⟨fl, b, out, h1, h2, ?_, aux_seqEq_equalAll rs out (fun r hr => (hd r hr).1) h4⟩
    simp only [allCodecs] at h3
    cases hds : decodeAny fl b with
    | mk o t =>
      rw [hds] at h3
      cases t with
      | eof => simp only [Option.some.injEq] at h3; rw [h3]
      | err => cases h3

/-! ### first bytes of the encoders' images (why the detection order gob → JSON → CSV is safe) -/

set_option maxRecDepth 20000 in
/-- **A non-empty gob stream written by the encoder starts with the byte 0xFF**: its first message is
the type definition of `Result`, 150 bytes long, so the stream opens with the two-byte count `FF 96`. -/
theorem gob_stream_first_byte (z : Zone) (r : Result) (rs : List Result) (s : Bytes)
    (h : encodeGobAll z (r :: rs) = some s) : ∃ tl, s = 255 :: 150 :: tl := by
  simp only [encodeGobAll] at h
  cases hv : valueFrames z (r :: rs) with
  | none => rw [hv] at h; cases h
  | some ps =>
    rw [hv] at h
    simp only [Option.map_some, Option.some.injEq] at h
    subst h
    have e : encodeFrame preResult = 255 :: 150 :: preResult := rfl
    refine ⟨preResult ++ encodeFrames ([preTime, preHeader, preStrings] ++ ps), ?_⟩
    simp only [preFrames, encodeFrames, List.cons_append, List.flatMap_cons, e, List.nil_append]

/-! ### non-vacuity -/

/-- C07's CSV example result (text with comma, quote and newline, a body, a two-valued header) is in
the common domain, and so is the zero-body/nil-header variant -/
theorem aux_example_reprBoth : ReprBoth exampleResult :=
  ⟨exampleResult_repr,
   { num := exampleResult_repr.num
     attack := by decide, error := by decide, method := by decide, url := by decide
     body := by intro b hb; cases hb; decide
     headers := by intro h hh; cases hh; decide }⟩

example : ∃ fl s out,
    resultCodecs.runChain .csv (resultCodecs.enc .csv [exampleResult, exampleResult])
      [.json ⟨60, by decide⟩, .csv, .json ⟨-480, by decide⟩, .json ⟨0, by decide⟩, .csv] = some (fl, some s) ∧
    fl = Fmt.csv ∧ decodeStream fl s = (out, .eof) ∧ equalAll out [exampleResult, exampleResult] = true := by
  obtain ⟨fl, s, out, h1, h2, h3, h4⟩ := chain_preserves_csv_json
    [.json ⟨60, by decide⟩, .csv, .json ⟨-480, by decide⟩, .json ⟨0, by decide⟩, .csv] .csv
    [exampleResult, exampleResult] (by intro r hr; simp at hr; subst hr; exact aux_example_reprBoth)
  exact ⟨fl, s, out, h1, h2, h3, h4⟩

/-! … and in the common domain of all three formats: its gob value message is small in every zone -/

theorem aux_beFixed_len (w n : Nat) : (beFixed w n).length = w := by
  induction w generalizing n with
  | zero => rfl
  | succ w ih => simp [beFixed, ih]

theorem aux_timeBinary_len (z : Zone) (ts : Int) (tb : Bytes) (h : timeBinary z ts = some tb) : tb.length ≤ 16 := by
  unfold timeBinary at h
  simp only [] at h
  cases z with
  | utc =>
    simp only [Option.some.injEq] at h; subst h
    simp [aux_beFixed_len]
  | fixed off =>
    simp only [] at h
    split at h
    · cases h
    · split at h
      · simp only [Option.some.injEq] at h; subst h; simp [aux_beFixed_len]
      · simp only [Option.some.injEq] at h; subst h; simp [aux_beFixed_len]

/-- the eight fields of the example after the timestamp -/
def examplePost : List (Option Bytes) :=
  [fInt exampleResult.latency, fUint exampleResult.bytesOut, fUint exampleResult.bytesIn, fString exampleResult.error,
   fString (exampleResult.body.getD []), fString exampleResult.method, fString exampleResult.url,
   exampleResult.headers.map gHeader]

theorem aux_example_payload_len (X : Bytes) :
    (255 :: 128 :: encFields 1 ([fString exampleResult.attack, fUint exampleResult.seq, fUint exampleResult.code,
      some X] ++ examplePost)).length = X.length + 62 := by
  have e : encFields 1 ([fString exampleResult.attack, fUint exampleResult.seq, fUint exampleResult.code, some X] ++ examplePost) =
      encodeUint 1 ++ gBytes [120] ++ (encodeUint 1 ++ encodeUint 7 ++
        (encodeUint 1 ++ encodeUint 200 ++ (encodeUint 1 ++ X ++ encFields 1 examplePost))) := rfl
  rw [e]
  have h1 : (encFields 1 examplePost).length = 51 := by decide +kernel
  have h2 : (encodeUint 1).length = 1 := rfl
  have h3 : (gBytes [120]).length = 2 := rfl
  have h4 : (encodeUint 7).length = 1 := rfl
  have h5 : (encodeUint 200).length = 2 := by decide +kernel
  simp only [List.length_cons, List.length_append, h1, h2, h3, h4, h5]
  omega

theorem aux_example_reprAll : ReprAll exampleResult := by
  refine ⟨aux_example_reprBoth, fun z => ?_⟩
  refine { num := exampleResult_repr.num, headers := by intro h hh; cases hh; decide, size := ?_ }
  intro p hp
  have hz : ¬ (exampleResult.timestamp = zeroTime ∧ z = Zone.utc) := fun h => absurd h.1 (by decide)
  unfold valuePayload fieldPayloads at hp
  simp only [hz, ↓reduceIte] at hp
  cases ht : timeBinary z exampleResult.timestamp with
  | none => rw [ht] at hp; simp at hp
  | some tb =>
    rw [ht] at hp
    simp only [Option.map_some, Option.some.injEq] at hp
    subst hp
    have hk := aux_example_payload_len (gBytes tb)
    have htl := aux_timeBinary_len z _ tb ht
    have hg : (gBytes tb).length ≤ 17 := by
      unfold gBytes encodeUint
      have : tb.length < 128 := by omega
      simp only [this, ↓reduceIte, List.length_append, List.length_cons, List.length_nil]
      omega
    have : (255 :: 128 :: encFields 1 ([fString exampleResult.attack, fUint exampleResult.seq, fUint exampleResult.code,
      some (gBytes tb)] ++ examplePost)).length < tooBig := by rw [hk]; unfold tooBig; omega
    exact this

local instance : Decidable (ZoneOK (Zone.fixed 3600)) := by unfold ZoneOK; infer_instance

example : ∃ fl s out,
    allCodecs.runChain (.gob ⟨.utc, trivial⟩) (allCodecs.enc (.gob ⟨.utc, trivial⟩) [exampleResult, exampleResult])
      [.json ⟨60, by decide⟩, .gob ⟨.fixed 3600, by decide⟩, .csv, .gob ⟨.utc, trivial⟩, .csv] = some (fl, some s) ∧
    fl = AnyFmt.csv ∧ decodeAny fl s = (out, .eof) ∧ equalAll out [exampleResult, exampleResult] = true := by
  obtain ⟨fl, s, out, h1, h2, h3, h4⟩ := chain_preserves_all_formats
    [.json ⟨60, by decide⟩, .gob ⟨.fixed 3600, by decide⟩, .csv, .gob ⟨.utc, trivial⟩, .csv] (.gob ⟨.utc, trivial⟩)
    [exampleResult, exampleResult] (by intro r hr; simp at hr; subst hr; exact aux_example_reprAll)
  exact ⟨fl, s, out, h1, h2, h3, h4⟩

end Vegeta.Props.C08
