/-
The parser on files of the documented grammar.  Part 1 works with *classified lines* (what a
raw line is after `TrimSpace`), part 2 shows that the lines of `Spec.TargetGrammar.render`
are classified as the grammar says.
-/
import Vegeta.Proofs.TargetText
import Vegeta.Proofs.HTTPTargetsL
import Vegeta.Proofs.HTTPHeap
namespace Vegeta.Proofs.HTTPGrammar
open Vegeta.Go
open Vegeta.Model.Histogram (trimSpace)
open Vegeta.Model.HTTPTargets
open Vegeta.Proofs.HTTPTargetsL Vegeta.Proofs.HTTPHeap Vegeta.Proofs.TargetText
open Vegeta.Spec.TargetGrammar (isPlain IsPad EdgePlain)

/-! ## Part 1: classified lines -/

def IsBlank (l : Bytes) : Prop := trimSpace l = []
def IsComment (l : Bytes) : Prop := ∃ t, trimSpace l = 35 :: t
def IsFiller (l : Bytes) : Prop := IsBlank l ∨ IsComment l

structure IsReq (cfg : Cfg) (l m u : Bytes) : Prop where
  trim : trimSpace l = m ++ 32 :: u
  mne : m ≠ []
  upper : ∀ c ∈ m, 65 ≤ c ∧ c ≤ 90
  valid : cfg.validURI u = true

structure IsHdrM (l k mid v : Bytes) : Prop where
  trim : trimSpace l = k ++ 58 :: (mid ++ v)
  kne : k ≠ []
  plain : ∀ c ∈ k, isPlain c = true ∧ c ≠ 58
  h35 : k.head? ≠ some 35
  h64 : k.head? ≠ some 64
  ktrim : trimSpace k = k
  vtrim : trimSpace (mid ++ v) = v
  vne : v ≠ []

def IsHdr (l k v : Bytes) : Prop := ∃ mid, IsHdrM l k mid v

def IsBody (cfg : Cfg) (l p content : Bytes) : Prop := trimSpace l = 64 :: p ∧ cfg.fs p = some content

theorem blank_not_comment {l : Bytes} (hb : IsBlank l) (hc : IsComment l) : False := by
  obtain ⟨t, ht⟩ := hc
  rw [hb] at ht; cases ht

/-! ### the skip loop -/

theorem skipL_filler (l : Bytes) (rest : List Bytes) (h : IsFiller l) : skipL (l :: rest) = skipL rest := by
  simp only [skipL]
  rcases h with hb | ⟨t, ht⟩
  · simp [show trimSpace l = [] from hb]
  · simp [ht]

theorem skipL_fillers (F rest : List Bytes) (h : ∀ l ∈ F, IsFiller l) : skipL (F ++ rest) = skipL rest := by
  induction F with
  | nil => rfl
  | cons l F ih =>
    rw [List.cons_append, skipL_filler l _ (h l (by simp)), ih (fun x hx => h x (by simp [hx]))]

theorem skipL_only_fillers (F : List Bytes) (h : ∀ l ∈ F, IsFiller l) : skipL F = none := by
  have := skipL_fillers F [] h
  simpa [skipL] using this

theorem req_head {cfg : Cfg} {l m u : Bytes} (h : IsReq cfg l m u) : ∃ c t, m = c :: t ∧ 65 ≤ c ∧ c ≤ 90 := by
  cases hm : m with
  | nil => exact absurd hm h.mne
  | cons c t => exact ⟨c, t, rfl, h.upper c (by simp [hm])⟩

theorem skipL_req {cfg : Cfg} {l m u : Bytes} (rest : List Bytes) (h : IsReq cfg l m u) :
    skipL (l :: rest) = some (m ++ 32 :: u, rest) := by
  obtain ⟨c, t, hm, hc⟩ := req_head h
  simp only [skipL, h.trim]
  subst hm
  have : ¬ c = 35 := by omega
  simp [this]

theorem requestLine_req {cfg : Cfg} {l m u : Bytes} (hdr : HMap) (h : IsReq cfg l m u) :
    requestLine cfg (m ++ 32 :: u) hdr = .ok { method := m, url := u, body := cfg.body, header := hdr } := by
  have hs : splitFirst 32 (m ++ 32 :: u) = some (m, u) := by
    apply splitFirst_append
    intro hin; have := h.upper 32 hin; omega
  simp [requestLine, hs, startsWithHTTPMethod_request m u h.mne h.upper, h.valid]

/-! ### the peek rule -/

theorem returns_blank {p : Bytes} (h : IsBlank p) : returnsAfterPeek (trimSpace p) = true := by
  simp [returnsAfterPeek, show trimSpace p = [] from h]

theorem returns_req {cfg : Cfg} {p m u : Bytes} (h : IsReq cfg p m u) : returnsAfterPeek (trimSpace p) = true := by
  simp [returnsAfterPeek, h.trim, startsWithHTTPMethod_request m u h.mne h.upper]

theorem returns_hdr {p k v : Bytes} (h' : IsHdr p k v) : returnsAfterPeek (trimSpace p) = false := by
  obtain ⟨mid, h⟩ := h'
  have hk : startsWithHTTPMethod (k ++ 58 :: (mid ++ v)) = false :=
    startsWithHTTPMethod_key k _ (fun c hc => (h.plain c hc).1)
  cases hkk : k with
  | nil => exact absurd hkk h.kne
  | cons c t =>
    simp only [returnsAfterPeek, h.trim, hk]
    simp [hkk]

theorem returns_body {cfg : Cfg} {p q content : Bytes} (h : IsBody cfg p q content) :
    returnsAfterPeek (trimSpace p) = false := by
  simp [returnsAfterPeek, h.1, startsWithHTTPMethod, isUpper]

theorem trim_ne_nil {p : Bytes} (h : trimSpace p ≠ []) : p ≠ [] := by
  intro h0; rw [h0] at h; exact h (by decide)

theorem peekL_comment {c : Bytes} (r : List Bytes) (lastc : Bytes) (h : IsComment c) : peekL (c :: r) lastc = peekL r c := by
  obtain ⟨t, ht⟩ := h
  simp [peekL, ht]

/-- a line that is not a comment and not exactly empty: the decision is made on it and it
stays to be delivered -/
theorem peekL_line {p : Bytes} (r : List Bytes) (lastc : Bytes) (h35 : (trimSpace p).head? ≠ some 35) (hne : p ≠ []) :
    peekL (p :: r) lastc = (trimSpace p, p :: r) := by
  simp [peekL, h35, afterPeek, hne]

theorem peekL_comments (C : List Bytes) (hC : ∀ c ∈ C, IsComment c) (T : List Bytes) (lastc : Bytes) :
    peekL (C ++ T) lastc = peekL T (C.getLast?.getD lastc) := by
  induction C generalizing lastc with
  | nil => rfl
  | cons c r ih =>
    rw [List.cons_append, peekL_comment _ _ (hC c (by simp)), ih (fun x hx => hC x (by simp [hx]))]
    cases r <;> simp [List.getLast?_cons]

/-- after a bare request line: filler lines, then nothing or a request line — the call returns,
and only filler lines (possibly none) are left in front of what follows -/
theorem peekL_fillers {cfg : Cfg} (F X : List Bytes) (hF : ∀ l ∈ F, IsFiller l)
    (hX : X = [] ∨ ∃ l m' u' rest, X = l :: rest ∧ IsReq cfg l m' u') :
    ∀ lastc, (lastc = [] ∨ IsFiller lastc) →
      ∃ G', (∀ l ∈ G', IsFiller l) ∧ (peekL (F ++ X) lastc).2 = G' ++ X ∧
        returnsAfterPeek (peekL (F ++ X) lastc).1 = true := by
  induction F with
  | nil =>
    intro lastc hl
    rcases hX with hx | ⟨l, m', u', rest, hx, hreq⟩
    · subst hx
      refine ⟨if lastc = [] then [] else [lastc], ?_, by simp [peekL], by simp [peekL, returnsAfterPeek]⟩
      intro l hl'
      split at hl'
      · cases hl'
      · rename_i hne
        simp at hl'; subst hl'
        rcases hl with h0 | h0
        · exact absurd h0 hne
        · exact h0
    · subst hx
      have hne : l ≠ [] := trim_ne_nil (by rw [hreq.trim]; cases hm : m' <;> simp)
      have h35 : (trimSpace l).head? ≠ some 35 := by
        obtain ⟨c, t, hm, hc⟩ := req_head hreq
        rw [hreq.trim, hm]; simp; omega
      refine ⟨[], by simp, by simp [peekL_line _ _ h35 hne], ?_⟩
      simp only [List.nil_append, peekL_line _ _ h35 hne]
      exact returns_req hreq
  | cons f F1 ih =>
    intro lastc _
    have hF1 : ∀ l ∈ F1, IsFiller l := fun l hl => hF l (by simp [hl])
    rcases hF f (by simp) with hb | hc
    · -- a blank line: the call returns; consumed when exactly empty, else delivered again
      have h35 : (trimSpace f).head? ≠ some 35 := by rw [show trimSpace f = [] from hb]; simp
      have hp : peekL (f :: (F1 ++ X)) lastc = (trimSpace f, afterPeek (f :: (F1 ++ X))) := by simp [peekL, h35]
      rw [List.cons_append, hp]
      by_cases h0 : f = []
      · exact ⟨F1, hF1, by simp [afterPeek, h0], returns_blank hb⟩
      · exact ⟨f :: F1, hF, by simp [afterPeek, h0], returns_blank hb⟩
    · rw [List.cons_append, peekL_comment _ _ hc]
      exact ih hF1 f (Or.inr (Or.inr hc))

/-! ### the header loop, line by line -/

theorem step_blank {cfg : Cfg} {l : Bytes} (tgt : Target) (h : Heap) (hb : IsBlank l) :
    headerStep cfg (trimSpace l) tgt h = .stop none tgt h := by
  simp [headerStep, show trimSpace l = [] from hb]

theorem step_comment {cfg : Cfg} {l : Bytes} (tgt : Target) (h : Heap) (hc : IsComment l) :
    headerStep cfg (trimSpace l) tgt h = .next tgt h := by
  obtain ⟨t, ht⟩ := hc
  simp [headerStep, ht]

theorem step_body {cfg : Cfg} {l p content : Bytes} (tgt : Target) (h : Heap) (hb : IsBody cfg l p content) :
    headerStep cfg (trimSpace l) tgt h = .stop none { tgt with body := content } h := by
  simp [headerStep, hb.1, hb.2]

theorem step_hdr {cfg : Cfg} {l k v : Bytes} (tgt : Target) (h : Heap) (hh : IsHdr l k v) :
    headerStep cfg (trimSpace l) tgt h =
      .next { tgt with header := (addHeader tgt.header h k v).1 } (addHeader tgt.header h k v).2 := by
  obtain ⟨mid, hh⟩ := hh
  have hs : splitFirst 58 (k ++ 58 :: (mid ++ v)) = some (k, mid ++ v) :=
    splitFirst_append 58 k _ (fun hin => (hh.plain 58 hin).2 rfl)
  cases hkk : k with
  | nil => exact absurd hkk hh.kne
  | cons c t =>
    have h35 : ¬ c = 35 := by have := hh.h35; simpa [hkk] using this
    have h64 : ¬ c = 64 := by have := hh.h64; simpa [hkk] using this
    have hs' := hs; rw [hkk] at hs'
    have hkt := hh.ktrim; rw [hkk] at hkt
    simp only [headerStep, hh.trim, hkk, List.cons_append]
    simp only [List.cons_ne_nil, ↓reduceIte, List.head?_cons, Option.some.injEq, h35, h64]
    simp only [List.cons_append] at hs'
    rw [hs']
    simp only [hkt, hh.vtrim, hh.vne, List.cons_ne_nil, or_self, ↓reduceIte]

/-! ### abstract blocks -/

inductive AItem where
  | hdr : Bytes → Bytes → Bytes → AItem       -- raw line, key, value
  | cmt : Bytes → AItem

def AItem.line : AItem → Bytes
  | .hdr l _ _ => l
  | .cmt l => l

def AItem.OK : AItem → Prop
  | .hdr l k v => IsHdr l k v
  | .cmt l => IsComment l

def ownOf : List AItem → List (Bytes × Bytes)
  | [] => []
  | .hdr _ k v :: r => (k, v) :: ownOf r
  | .cmt _ :: r => ownOf r

theorem headerL_items (cfg : Cfg) (items : List AItem) (hok : ∀ it ∈ items, it.OK) :
    ∀ (tail : List Bytes) (tgt : Target) (h : Heap),
      headerL cfg (items.map AItem.line ++ tail) tgt h =
        headerL cfg tail { tgt with header := (applyOwn tgt.header h (ownOf items)).1 } (applyOwn tgt.header h (ownOf items)).2 := by
  induction items with
  | nil => intro tail tgt h; rfl
  | cons it r ih =>
    intro tail tgt h
    have hr : ∀ x ∈ r, x.OK := fun x hx => hok x (by simp [hx])
    cases it with
    | hdr l k v =>
      have hh : IsHdr l k v := hok (.hdr l k v) (by simp)
      simp only [List.map_cons, List.cons_append, headerL, AItem.line, step_hdr tgt h hh, ownOf, applyOwn]
      rw [ih hr]
    | cmt l =>
      have hc : IsComment l := hok (.cmt l) (by simp)
      simp only [List.map_cons, List.cons_append, headerL, AItem.line, step_comment tgt h hc, ownOf]
      rw [ih hr]

/-- filler lines after the last header: comments are skipped up to the first blank line -/
theorem headerL_fillers (cfg : Cfg) (G X : List Bytes) (hG : ∀ l ∈ G, IsFiller l)
    (hsep : X = [] ∨ ∃ l ∈ G, IsBlank l) (tgt : Target) (h : Heap) :
    ∃ G', (∀ l ∈ G', IsFiller l) ∧ headerL cfg (G ++ X) tgt h = (none, G' ++ X, tgt, h) := by
  induction G with
  | nil =>
    rcases hsep with hx | ⟨l, hl, _⟩
    · subst hx; exact ⟨[], by simp, rfl⟩
    · cases hl
  | cons g G1 ih =>
    rcases hG g (by simp) with hb | hc
    · exact ⟨G1, fun l hl => hG l (by simp [hl]), by simp [headerL, step_blank tgt h hb]⟩
    · have hsep' : X = [] ∨ ∃ l ∈ G1, IsBlank l := by
        rcases hsep with hx | ⟨l, hl, hbl⟩
        · exact Or.inl hx
        · simp at hl
          rcases hl with rfl | hl
          · exact absurd hc (fun hc => blank_not_comment hbl hc)
          · exact Or.inr ⟨l, hl, hbl⟩
      obtain ⟨G', g1, g2⟩ := ih (fun l hl => hG l (by simp [hl])) hsep'
      exact ⟨G', g1, by simp only [List.cons_append, headerL, step_comment tgt h hc]; exact g2⟩

def AItem.isHdr : AItem → Bool
  | .hdr _ _ _ => true
  | .cmt _ => false

theorem ownOf_append (a b : List AItem) : ownOf (a ++ b) = ownOf a ++ ownOf b := by
  induction a with
  | nil => rfl
  | cons it r ih => cases it <;> simp [ownOf, ih]

theorem ownOf_comments (C : List AItem) (h : ∀ it ∈ C, it.isHdr = false) : ownOf C = [] := by
  induction C with
  | nil => rfl
  | cons it r ih =>
    cases it with
    | hdr l k v => have := h (.hdr l k v) (by simp); simp [AItem.isHdr] at this
    | cmt l => simp [ownOf, ih (fun x hx => h x (by simp [hx]))]

theorem comments_lines (C : List AItem) (hok : ∀ it ∈ C, it.OK) (h : ∀ it ∈ C, it.isHdr = false) :
    ∀ l ∈ C.map AItem.line, IsComment l := by
  intro l hl
  simp only [List.mem_map] at hl
  obtain ⟨it, hit, rfl⟩ := hl
  cases it with
  | hdr l k v => have := h _ hit; simp [AItem.isHdr] at this
  | cmt l => exact hok _ hit

/-- the items are comment lines only, or comment lines followed by a first header line -/
theorem items_split (items : List AItem) :
    (∀ it ∈ items, it.isHdr = false) ∨
    ∃ C l k v its2, items = C ++ AItem.hdr l k v :: its2 ∧ ∀ it ∈ C, it.isHdr = false := by
  induction items with
  | nil => left; intro it hit; cases hit
  | cons it r ih =>
    cases it with
    | hdr l k v => exact Or.inr ⟨[], l, k, v, r, rfl, by intro it hit; cases hit⟩
    | cmt l =>
      rcases ih with h | ⟨C, l', k, v, its2, h1, h2⟩
      · left; intro it hit; simp at hit; rcases hit with rfl | hit
        · rfl
        · exact h it hit
      · right
        refine ⟨.cmt l :: C, l', k, v, its2, by simp [h1], ?_⟩
        intro it hit; simp at hit; rcases hit with rfl | hit
        · rfl
        · exact h2 it hit

structure ABlock where
  lead  : List Bytes                          -- raw filler lines before the request line
  req   : Bytes
  m     : Bytes
  u     : Bytes
  items : List AItem
  body  : Option (Bytes × Bytes × Bytes)      -- raw line, path, content

def ABlock.bodyLines (b : ABlock) : List Bytes := b.body.toList.map (·.1)

structure ABlock.OK (cfg : Cfg) (b : ABlock) : Prop where
  lead : ∀ l ∈ b.lead, IsFiller l
  req : IsReq cfg b.req b.m b.u
  items : ∀ it ∈ b.items, it.OK
  body : ∀ x, b.body = some x → IsBody cfg x.1 x.2.1 x.2.2

/-- the target a block yields when decoded in heap `h`, and the heap afterwards -/
def ABlock.result (cfg : Cfg) (b : ABlock) (h : Heap) : Target × Heap :=
  ({ method := b.m, url := b.u,
     body := match b.body with
       | some x => x.2.2
       | none => cfg.body
     header := (built cfg h (ownOf b.items)).1 },
   (built cfg h (ownOf b.items)).2)

/-- **One block**: in front any filler lines `F`, behind the block filler lines `G` and then
either nothing or a request line.  If the block has header lines but no body line and
something follows, `G` has a blank line. -/
theorem callL_block (cfg : Cfg) (b : ABlock) (hb : b.OK cfg) (F G X : List Bytes) (h : Heap)
    (hF : ∀ l ∈ F, IsFiller l) (hG : ∀ l ∈ G, IsFiller l)
    (hX : X = [] ∨ ∃ l m' u' rest, X = l :: rest ∧ IsReq cfg l m' u')
    (hsep : b.body = none → (∃ it ∈ b.items, it.isHdr = true) → X ≠ [] → ∃ l ∈ G, IsBlank l) :
    ∃ G', (∀ l ∈ G', IsFiller l) ∧
      callL cfg (F ++ b.req :: (b.items.map AItem.line ++ b.bodyLines ++ G ++ X)) h =
        (.ok (b.result cfg h).1, G' ++ X, (b.result cfg h).2) := by
  have hskip : skipL (F ++ b.req :: (b.items.map AItem.line ++ b.bodyLines ++ G ++ X)) =
      some (b.m ++ 32 :: b.u, b.items.map AItem.line ++ b.bodyLines ++ G ++ X) := by
    rw [skipL_fillers F _ hF, skipL_req _ hb.req]
  unfold callL
  simp only [hskip, requestLine_req _ hb.req]
  -- the tail after all items
  have htail : ∀ (tgt : Target) (hh : Heap),
      (b.body ≠ none ∨ X = [] ∨ ∃ l ∈ G, IsBlank l) →
      ∃ G', (∀ l ∈ G', IsFiller l) ∧
        headerL cfg (b.bodyLines ++ G ++ X) tgt hh =
          (none, G' ++ X, { tgt with body := match b.body with | some x => x.2.2 | none => tgt.body }, hh) := by
    intro tgt hh hcond
    cases hbody : b.body with
    | some x =>
      have hx := hb.body x hbody
      refine ⟨G, hG, ?_⟩
      simp [ABlock.bodyLines, hbody, headerL, step_body tgt hh hx]
    | none =>
      have hsep' : X = [] ∨ ∃ l ∈ G, IsBlank l := by
        rcases hcond with h1 | h1
        · exact absurd hbody h1
        · exact h1
      obtain ⟨G', g1, g2⟩ := headerL_fillers cfg G X hG hsep' tgt hh
      exact ⟨G', g1, by simpa [ABlock.bodyLines, hbody] using g2⟩
  rcases items_split b.items with hall | ⟨C, l, k, v, its2, hitems, hC⟩
  · -- comment lines only
    have hCl := comments_lines b.items hb.items hall
    have hown : ownOf b.items = [] := ownOf_comments b.items hall
    cases hbody : b.body with
    | some x =>
      have hx := hb.body x hbody
      have hxne : x.1 ≠ [] := trim_ne_nil (by rw [hx.1]; simp)
      have h35 : (trimSpace x.1).head? ≠ some 35 := by rw [hx.1]; simp
      have hR : b.items.map AItem.line ++ b.bodyLines ++ G ++ X = b.items.map AItem.line ++ (x.1 :: (G ++ X)) := by
        simp [ABlock.bodyLines, hbody]
      rw [hR, peekL_comments _ hCl, peekL_line _ _ h35 hxne]
      simp only [returns_body hx, Bool.false_eq_true, ↓reduceIte, headerL, step_body _ _ hx]
      exact ⟨G, hG, by simp [ABlock.result, hown, hbody, built, applyOwn]⟩
    | none =>
      have hR : b.items.map AItem.line ++ b.bodyLines ++ G ++ X = (b.items.map AItem.line ++ G) ++ X := by
        simp [ABlock.bodyLines, hbody]
      have hfill : ∀ l ∈ b.items.map AItem.line ++ G, IsFiller l := by
        intro l hl; simp only [List.mem_append] at hl
        rcases hl with hl | hl
        · exact Or.inr (hCl l hl)
        · exact hG l hl
      obtain ⟨G', g1, g2, g3⟩ := peekL_fillers (cfg := cfg) _ X hfill hX [] (Or.inl rfl)
      rw [hR, g3, g2]
      exact ⟨G', g1, by simp [ABlock.result, hown, hbody, built, applyOwn]⟩
  · -- a first header line after comment lines
    have hCok : ∀ it ∈ C, it.OK := fun it hit => hb.items it (by rw [hitems]; simp [hit])
    have hCl := comments_lines C hCok hC
    have hh : IsHdr l k v := hb.items (.hdr l k v) (by rw [hitems]; simp)
    have hrest : ∀ it ∈ AItem.hdr l k v :: its2, it.OK := fun it hit => hb.items it (by
      rw [hitems]; simp only [List.mem_append]; right; exact hit)
    have hlne : l ≠ [] := by
      obtain ⟨mid, hm⟩ := hh
      exact trim_ne_nil (by rw [hm.trim]; cases hk : k <;> simp)
    have h35 : (trimSpace l).head? ≠ some 35 := by
      obtain ⟨mid, hm⟩ := hh
      rw [hm.trim]
      cases hk : k with
      | nil => exact absurd hk hm.kne
      | cons c t => have := hm.h35; rw [hk] at this; simpa using this
    have hown : ownOf b.items = ownOf (AItem.hdr l k v :: its2) := by
      rw [hitems, ownOf_append, ownOf_comments C hC]; rfl
    have hR : b.items.map AItem.line ++ b.bodyLines ++ G ++ X =
        C.map AItem.line ++ (l :: (its2.map AItem.line ++ b.bodyLines ++ G ++ X)) := by
      rw [hitems]; simp [AItem.line]
    rw [hR, peekL_comments _ hCl, peekL_line _ _ h35 hlne]
    simp only [returns_hdr hh, Bool.false_eq_true, ↓reduceIte]
    have hcond : b.body ≠ none ∨ X = [] ∨ ∃ l ∈ G, IsBlank l := by
      by_cases hbn : b.body = none
      · by_cases hx : X = []
        · exact Or.inr (Or.inl hx)
        · exact Or.inr (Or.inr (hsep hbn ⟨.hdr l k v, by rw [hitems]; simp, rfl⟩ hx))
      · exact Or.inl hbn
    have hI := headerL_items cfg (AItem.hdr l k v :: its2) hrest (b.bodyLines ++ G ++ X)
      { method := b.m, url := b.u, body := cfg.body, header := (copyDefaults cfg.hdr h).1 } (copyDefaults cfg.hdr h).2
    obtain ⟨G', g1, g2⟩ := htail
      { method := b.m, url := b.u, body := cfg.body,
        header := (applyOwn (copyDefaults cfg.hdr h).1 (copyDefaults cfg.hdr h).2 (ownOf (AItem.hdr l k v :: its2))).1 }
      (applyOwn (copyDefaults cfg.hdr h).1 (copyDefaults cfg.hdr h).2 (ownOf (AItem.hdr l k v :: its2))).2 hcond
    refine ⟨G', g1, ?_⟩
    have hshape : l :: (its2.map AItem.line ++ b.bodyLines ++ G ++ X) =
        (AItem.hdr l k v :: its2).map AItem.line ++ (b.bodyLines ++ G ++ X) := by simp [AItem.line]
    rw [hshape, hI]
    simp only at g2
    rw [g2]
    simp [ABlock.result, hown, built]

/-! ### whole documents of abstract blocks -/

/-- the lines from the request line of `b` on: `b`, then the blocks `bs` with their leads,
then the trailing filler lines -/
def core (trail : List Bytes) : ABlock → List ABlock → List Bytes
  | b, [] => b.req :: (b.items.map AItem.line ++ b.bodyLines ++ trail ++ [])
  | b, b' :: bs => b.req :: (b.items.map AItem.line ++ b.bodyLines ++ b'.lead ++ core trail b' bs)

def docLines (trail : List Bytes) : List ABlock → List Bytes
  | [] => trail
  | b :: bs => b.lead ++ core trail b bs

/-- block separation on classified lines: a block with header lines and no body line is followed
by a blank line before the next block -/
def ASep : List ABlock → Prop
  | [] => True
  | [_] => True
  | b :: b' :: rest =>
    (b.body = none → (∃ it ∈ b.items, it.isHdr = true) → ∃ l ∈ b'.lead, IsBlank l) ∧ ASep (b' :: rest)

/-- the targets the blocks yield one after the other, threading the heap -/
def expectL (cfg : Cfg) : List ABlock → Heap → List (Outcome Target × Heap) × Heap
  | [], h => ([], h)
  | b :: bs, h =>
    ((.ok (b.result cfg h).1, (b.result cfg h).2) :: (expectL cfg bs (b.result cfg h).2).1,
     (expectL cfg bs (b.result cfg h).2).2)

theorem callsL_succ (cfg : Cfg) (n : Nat) (ls : List Bytes) (h : Heap) :
    callsL cfg (n + 1) ls h =
      (((callL cfg ls h).1, (callL cfg ls h).2.2) :: (callsL cfg n (callL cfg ls h).2.1 (callL cfg ls h).2.2).1,
       (callsL cfg n (callL cfg ls h).2.1 (callL cfg ls h).2.2).2) := rfl

theorem callsL_core (cfg : Cfg) (trail : List Bytes) (htrail : ∀ l ∈ trail, IsFiller l) :
    ∀ (bs : List ABlock) (b : ABlock) (F : List Bytes) (h : Heap),
      (∀ x ∈ b :: bs, x.OK cfg) → ASep (b :: bs) → (∀ l ∈ F, IsFiller l) →
      ∃ G', (∀ l ∈ G', IsFiller l) ∧
        callsL cfg (bs.length + 1) (F ++ core trail b bs) h = ((expectL cfg (b :: bs) h).1, G', (expectL cfg (b :: bs) h).2) := by
  intro bs
  induction bs with
  | nil =>
    intro b F h hok _ hF
    obtain ⟨G', g1, g2⟩ := callL_block cfg b (hok b (by simp)) F trail [] h hF htrail (Or.inl rfl) (fun _ _ hx => absurd rfl hx)
    refine ⟨G', g1, ?_⟩
    simp only [core, List.length_nil, callsL, expectL]
    simp only [List.append_nil] at g2 ⊢
    rw [g2]
  | cons b' bs' ih =>
    intro b F h hok hsep hF
    have hb' : b'.OK cfg := hok b' (by simp)
    have hX : core trail b' bs' = [] ∨ ∃ l m' u' rest, core trail b' bs' = l :: rest ∧ IsReq cfg l m' u' := by
      right
      cases bs' with
      | nil => exact ⟨_, _, _, _, rfl, hb'.req⟩
      | cons b2 r => exact ⟨_, _, _, _, rfl, hb'.req⟩
    obtain ⟨G', g1, g2⟩ := callL_block cfg b (hok b (by simp)) F b'.lead (core trail b' bs') h hF hb'.lead hX
      (fun hbn hh _ => hsep.1 hbn hh)
    obtain ⟨G2, k1, k2⟩ := ih b' G' (b.result cfg h).2 (fun x hx => hok x (by simp at hx ⊢; right; exact hx)) hsep.2 g1
    refine ⟨G2, k1, ?_⟩
    rw [show (b' :: bs').length + 1 = (bs'.length + 1) + 1 by simp, callsL_succ]
    rw [show F ++ core trail b (b' :: bs') =
        F ++ b.req :: (b.items.map AItem.line ++ b.bodyLines ++ b'.lead ++ core trail b' bs') by rfl, g2]
    simp only
    rw [k2]
    rfl

theorem callL_exhausted (cfg : Cfg) (F : List Bytes) (h : Heap) (hF : ∀ l ∈ F, IsFiller l) :
    callL cfg F h = (.error eNoTargets, [], h) := by
  simp [callL, skipL_only_fillers F hF]

theorem callsL_exhausted (cfg : Cfg) (h : Heap) : ∀ (k : Nat) (F : List Bytes), (∀ l ∈ F, IsFiller l) →
    (callsL cfg k F h).1 = List.replicate k (.error eNoTargets, h) ∧ (callsL cfg k F h).2.2 = h := by
  intro k
  induction k with
  | zero => intro F _; exact ⟨rfl, rfl⟩
  | succ k ih =>
    intro F hF
    simp only [callsL, callL_exhausted cfg F h hF]
    have := ih [] (by simp)
    exact ⟨by simp [List.replicate_succ, this.1], this.2⟩

theorem callsL_add (cfg : Cfg) : ∀ (a b : Nat) (ls : List Bytes) (h : Heap),
    callsL cfg (a + b) ls h =
      ((callsL cfg a ls h).1 ++ (callsL cfg b (callsL cfg a ls h).2.1 (callsL cfg a ls h).2.2).1,
       (callsL cfg b (callsL cfg a ls h).2.1 (callsL cfg a ls h).2.2).2) := by
  intro a
  induction a with
  | zero => intro b ls h; simp [callsL]
  | succ a ih =>
    intro b ls h
    rw [show a + 1 + b = (a + b) + 1 by omega]
    simp only [callsL, ih]
    simp

/-- **Documents of classified lines**: `n` blocks decode to their `n` targets in order, and
every further call reports `ErrNoTargets`. -/
theorem callsL_doc (cfg : Cfg) (trail : List Bytes) (htrail : ∀ l ∈ trail, IsFiller l) (bs : List ABlock)
    (hok : ∀ x ∈ bs, x.OK cfg) (hsep : ASep bs) (h : Heap) (k : Nat) :
    (callsL cfg (bs.length + k) (docLines trail bs) h).1 =
      (expectL cfg bs h).1 ++ List.replicate k (.error eNoTargets, (expectL cfg bs h).2) ∧
    (callsL cfg (bs.length + k) (docLines trail bs) h).2.2 = (expectL cfg bs h).2 := by
  rw [callsL_add]
  cases bs with
  | nil =>
    simp only [List.length_nil, callsL, docLines, expectL, List.nil_append]
    exact callsL_exhausted cfg h k trail htrail
  | cons b bs =>
    obtain ⟨G', g1, g2⟩ := callsL_core cfg trail htrail bs b b.lead h hok hsep (hok b (by simp)).lead
    simp only [List.length_cons, docLines, g2]
    have := callsL_exhausted cfg (expectL cfg (b :: bs) h).2 k G' g1
    exact ⟨by rw [this.1], this.2⟩

end Vegeta.Proofs.HTTPGrammar
