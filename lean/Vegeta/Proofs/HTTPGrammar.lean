/-
The parser on files of the documented grammar.  Part 1 works with *classified lines* (what a
raw line is after `TrimSpace`), part 2 shows that the lines of `Spec.TargetGrammar.render`
are classified as the grammar says.
-/
import Vegeta.Proofs.TargetText
import Vegeta.Proofs.HTTPTargetsL
import Vegeta.Proofs.HTTPHeap
namespace Vegeta.Proofs.HTTPGrammar
open Vegeta.Go
open Vegeta.Model.Histogram (trimSpace)
open Vegeta.Model.HTTPTargets
open Vegeta.Proofs.HTTPTargetsL Vegeta.Proofs.HTTPHeap Vegeta.Proofs.TargetText
open Vegeta.Spec.TargetGrammar (isPlain IsPad EdgePlain)

/-! ## Part 1: classified lines -/

def IsBlank (l : Bytes) : Prop := trimSpace l = []
def IsComment (l : Bytes) : Prop := ∃ t, trimSpace l = 35 :: t
def IsFiller (l : Bytes) : Prop := IsBlank l ∨ IsComment l

structure IsReq (cfg : Cfg) (l m u : Bytes) : Prop where
  trim : trimSpace l = m ++ 32 :: u
  mne : m ≠ []
  upper : ∀ c ∈ m, 65 ≤ c ∧ c ≤ 90
  valid : cfg.validURI u = true

structure IsHdrM (l k mid v : Bytes) : Prop where
  trim : trimSpace l = k ++ 58 :: (mid ++ v)
  kne : k ≠ []
  plain : ∀ c ∈ k, isPlain c = true ∧ c ≠ 58
  h35 : k.head? ≠ some 35
  h64 : k.head? ≠ some 64
  ktrim : trimSpace k = k
  vtrim : trimSpace (mid ++ v) = v
  vne : v ≠ []

def IsHdr (l k v : Bytes) : Prop := ∃ mid, IsHdrM l k mid v

def IsBody (cfg : Cfg) (l p content : Bytes) : Prop := trimSpace l = 64 :: p ∧ cfg.fs p = some content

theorem blank_not_comment {l : Bytes} (hb : IsBlank l) (hc : IsComment l) : False := by
  obtain ⟨t, ht⟩ := hc
  rw [hb] at ht; cases ht

/-! ### the skip loop -/

theorem skipL_filler (l : Bytes) (rest : List Bytes) (h : IsFiller l) : skipL (l :: rest) = skipL rest := by
  simp only [skipL]
  rcases h with hb | ⟨t, ht⟩
  · simp [show trimSpace l = [] from hb]
  · simp [ht]

theorem skipL_fillers (F rest : List Bytes) (h : ∀ l ∈ F, IsFiller l) : skipL (F ++ rest) = skipL rest := by
  induction F with
  | nil => rfl
  | cons l F ih =>
    rw [List.cons_append, skipL_filler l _ (h l (by simp)), ih (fun x hx => h x (by simp [hx]))]

theorem skipL_only_fillers (F : List Bytes) (h : ∀ l ∈ F, IsFiller l) : skipL F = none := by
  have := skipL_fillers F [] h
  simpa [skipL] using this

theorem req_head {cfg : Cfg} {l m u : Bytes} (h : IsReq cfg l m u) : ∃ c t, m = c :: t ∧ 65 ≤ c ∧ c ≤ 90 := by
  cases hm : m with
  | nil => exact absurd hm h.mne
  | cons c t => exact ⟨c, t, rfl, h.upper c (by simp [hm])⟩

theorem skipL_req {cfg : Cfg} {l m u : Bytes} (rest : List Bytes) (h : IsReq cfg l m u) :
    skipL (l :: rest) = some (m ++ 32 :: u, rest) := by
  obtain ⟨c, t, hm, hc⟩ := req_head h
  simp only [skipL, h.trim]
  subst hm
  have : ¬ c = 35 := by omega
  simp [this]

theorem requestLine_req {cfg : Cfg} {l m u : Bytes} (h : IsReq cfg l m u) :
    requestLine cfg (m ++ 32 :: u) = .ok { method := m, url := u, body := cfg.body, header := cfg.hdr } := by
  have hs : splitFirst 32 (m ++ 32 :: u) = some (m, u) := by
    apply splitFirst_append
    intro hin; have := h.upper 32 hin; omega
  simp [requestLine, hs, startsWithHTTPMethod_request m u h.mne h.upper, h.valid]

/-! ### the peek rule -/

theorem returns_blank {p : Bytes} (h : IsBlank p) : returnsAfterPeek p = true := by
  simp [returnsAfterPeek, show trimSpace p = [] from h]

theorem returns_req {cfg : Cfg} {p m u : Bytes} (h : IsReq cfg p m u) : returnsAfterPeek p = true := by
  simp [returnsAfterPeek, h.trim, startsWithHTTPMethod_request m u h.mne h.upper]

theorem returns_comment {p : Bytes} (h : IsComment p) : returnsAfterPeek p = false := by
  obtain ⟨t, ht⟩ := h
  simp [returnsAfterPeek, ht, startsWithHTTPMethod, isUpper]

theorem returns_hdr {p k v : Bytes} (h' : IsHdr p k v) : returnsAfterPeek p = false := by
  obtain ⟨mid, h⟩ := h'
  have hk : startsWithHTTPMethod (k ++ 58 :: (mid ++ v)) = false :=
    startsWithHTTPMethod_key k _ (fun c hc => (h.plain c hc).1)
  cases hkk : k with
  | nil => exact absurd hkk h.kne
  | cons c t =>
    simp only [returnsAfterPeek, h.trim, hk]
    simp [hkk]

theorem returns_body {cfg : Cfg} {p q content : Bytes} (h : IsBody cfg p q content) : returnsAfterPeek p = false := by
  simp [returnsAfterPeek, h.1, startsWithHTTPMethod, isUpper]

/-! ### the header loop, line by line -/

theorem step_blank {cfg : Cfg} {l : Bytes} (tgt : Target) (h : Heap) (hb : IsBlank l) :
    headerStep cfg (trimSpace l) tgt h = .stop none tgt h := by
  simp [headerStep, show trimSpace l = [] from hb]

theorem step_comment {cfg : Cfg} {l : Bytes} (tgt : Target) (h : Heap) (hc : IsComment l) :
    headerStep cfg (trimSpace l) tgt h = .next tgt h := by
  obtain ⟨t, ht⟩ := hc
  simp [headerStep, ht]

theorem step_body {cfg : Cfg} {l p content : Bytes} (tgt : Target) (h : Heap) (hb : IsBody cfg l p content) :
    headerStep cfg (trimSpace l) tgt h = .stop none { tgt with body := content } h := by
  simp [headerStep, hb.1, hb.2]

theorem step_hdr {cfg : Cfg} {l k v : Bytes} (tgt : Target) (h : Heap) (hh : IsHdr l k v) :
    headerStep cfg (trimSpace l) tgt h =
      .next { tgt with header := (addHeader tgt.header h k v).1 } (addHeader tgt.header h k v).2 := by
  obtain ⟨mid, hh⟩ := hh
  have hs : splitFirst 58 (k ++ 58 :: (mid ++ v)) = some (k, mid ++ v) :=
    splitFirst_append 58 k _ (fun hin => (hh.plain 58 hin).2 rfl)
  cases hkk : k with
  | nil => exact absurd hkk hh.kne
  | cons c t =>
    have h35 : ¬ c = 35 := by have := hh.h35; simpa [hkk] using this
    have h64 : ¬ c = 64 := by have := hh.h64; simpa [hkk] using this
    have hs' := hs; rw [hkk] at hs'
    have hkt := hh.ktrim; rw [hkk] at hkt
    simp only [headerStep, hh.trim, hkk, List.cons_append]
    simp only [List.cons_ne_nil, ↓reduceIte, List.head?_cons, Option.some.injEq, h35, h64]
    simp only [List.cons_append] at hs'
    rw [hs']
    simp only [hkt, hh.vtrim, hh.vne, List.cons_ne_nil, or_self, ↓reduceIte]

/-! ### abstract blocks -/

inductive AItem where
  | hdr : Bytes → Bytes → Bytes → AItem       -- raw line, key, value
  | cmt : Bytes → AItem

def AItem.line : AItem → Bytes
  | .hdr l _ _ => l
  | .cmt l => l

def AItem.OK : AItem → Prop
  | .hdr l k v => IsHdr l k v
  | .cmt l => IsComment l

def ownOf : List AItem → List (Bytes × Bytes)
  | [] => []
  | .hdr _ k v :: r => (k, v) :: ownOf r
  | .cmt _ :: r => ownOf r

theorem headerL_items (cfg : Cfg) (items : List AItem) (hok : ∀ it ∈ items, it.OK) :
    ∀ (tail : List Bytes) (tgt : Target) (h : Heap),
      headerL cfg (items.map AItem.line ++ tail) tgt h =
        headerL cfg tail { tgt with header := (applyOwn tgt.header h (ownOf items)).1 } (applyOwn tgt.header h (ownOf items)).2 := by
  induction items with
  | nil => intro tail tgt h; rfl
  | cons it r ih =>
    intro tail tgt h
    have hr : ∀ x ∈ r, x.OK := fun x hx => hok x (by simp [hx])
    cases it with
    | hdr l k v =>
      have hh : IsHdr l k v := hok (.hdr l k v) (by simp)
      simp only [List.map_cons, List.cons_append, headerL, AItem.line, step_hdr tgt h hh, ownOf, applyOwn]
      rw [ih hr]
    | cmt l =>
      have hc : IsComment l := hok (.cmt l) (by simp)
      simp only [List.map_cons, List.cons_append, headerL, AItem.line, step_comment tgt h hc, ownOf]
      rw [ih hr]

/-- filler lines after the last header: comments are skipped up to the first blank line -/
theorem headerL_fillers (cfg : Cfg) (G X : List Bytes) (hG : ∀ l ∈ G, IsFiller l)
    (hsep : X = [] ∨ ∃ l ∈ G, IsBlank l) (tgt : Target) (h : Heap) :
    ∃ G', (∀ l ∈ G', IsFiller l) ∧ headerL cfg (G ++ X) tgt h = (none, G' ++ X, tgt, h) := by
  induction G with
  | nil =>
    rcases hsep with hx | ⟨l, hl, _⟩
    · subst hx; exact ⟨[], by simp, rfl⟩
    · cases hl
  | cons g G1 ih =>
    rcases hG g (by simp) with hb | hc
    · exact ⟨G1, fun l hl => hG l (by simp [hl]), by simp [headerL, step_blank tgt h hb]⟩
    · have hsep' : X = [] ∨ ∃ l ∈ G1, IsBlank l := by
        rcases hsep with hx | ⟨l, hl, hbl⟩
        · exact Or.inl hx
        · simp at hl
          rcases hl with rfl | hl
          · exact absurd hc (fun hc => blank_not_comment hbl hc)
          · exact Or.inr ⟨l, hl, hbl⟩
      obtain ⟨G', g1, g2⟩ := ih (fun l hl => hG l (by simp [hl])) hsep'
      exact ⟨G', g1, by simp only [List.cons_append, headerL, step_comment tgt h hc]; exact g2⟩

structure ABlock where
  lead  : List Bytes                          -- raw filler lines before the request line
  req   : Bytes
  m     : Bytes
  u     : Bytes
  items : List AItem
  body  : Option (Bytes × Bytes × Bytes)      -- raw line, path, content

def ABlock.bodyLines (b : ABlock) : List Bytes := b.body.toList.map (·.1)

structure ABlock.OK (cfg : Cfg) (b : ABlock) : Prop where
  lead : ∀ l ∈ b.lead, IsFiller l
  req : IsReq cfg b.req b.m b.u
  items : ∀ it ∈ b.items, it.OK
  body : ∀ x, b.body = some x → IsBody cfg x.1 x.2.1 x.2.2

/-- the target a block yields when decoded in heap `h`, and the heap afterwards -/
def ABlock.result (cfg : Cfg) (b : ABlock) (h : Heap) : Target × Heap :=
  ({ method := b.m, url := b.u,
     body := match b.body with
       | some x => x.2.2
       | none => cfg.body
     header := (applyOwn cfg.hdr h (ownOf b.items)).1 },
   (applyOwn cfg.hdr h (ownOf b.items)).2)

/-- **One block**: in front any filler lines `F`, behind the block filler lines `G` and then
either nothing or a request line.  If the block has no body line and something follows, then
either nothing at all separates the bare request line from the next one or `G` has a blank line. -/
theorem callL_block (cfg : Cfg) (b : ABlock) (hb : b.OK cfg) (F G X : List Bytes) (h : Heap)
    (hF : ∀ l ∈ F, IsFiller l) (hG : ∀ l ∈ G, IsFiller l)
    (hX : X = [] ∨ ∃ l m' u' rest, X = l :: rest ∧ IsReq cfg l m' u')
    (hsep : b.body = none → X ≠ [] → (b.items = [] ∧ G = []) ∨ ∃ l ∈ G, IsBlank l) :
    ∃ G', (∀ l ∈ G', IsFiller l) ∧
      callL cfg (F ++ b.req :: (b.items.map AItem.line ++ b.bodyLines ++ G ++ X)) h =
        (.ok (b.result cfg h).1, G' ++ X, (b.result cfg h).2) := by
  have hskip : skipL (F ++ b.req :: (b.items.map AItem.line ++ b.bodyLines ++ G ++ X)) =
      some (b.m ++ 32 :: b.u, b.items.map AItem.line ++ b.bodyLines ++ G ++ X) := by
    rw [skipL_fillers F _ hF, skipL_req _ hb.req]
  unfold callL
  simp only [hskip, requestLine_req hb.req]
  -- the tail after all items
  have htail : ∀ (tgt : Target) (hh : Heap),
      (b.body ≠ none ∨ X = [] ∨ ∃ l ∈ G, IsBlank l) →
      ∃ G', (∀ l ∈ G', IsFiller l) ∧
        headerL cfg (b.bodyLines ++ G ++ X) tgt hh =
          (none, G' ++ X, { tgt with body := match b.body with | some x => x.2.2 | none => tgt.body }, hh) := by
    intro tgt hh hcond
    cases hbody : b.body with
    | some x =>
      have hx := hb.body x hbody
      refine ⟨G, hG, ?_⟩
      simp [ABlock.bodyLines, hbody, headerL, step_body tgt hh hx]
    | none =>
      have hsep' : X = [] ∨ ∃ l ∈ G, IsBlank l := by
        rcases hcond with h1 | h1
        · exact absurd hbody h1
        · exact h1
      obtain ⟨G', g1, g2⟩ := headerL_fillers cfg G X hG hsep' tgt hh
      exact ⟨G', g1, by simpa [ABlock.bodyLines, hbody] using g2⟩
  cases hitems : b.items with
  | cons it its =>
    -- the peeked line is a header or a comment line
    have hit : it.OK := hb.items it (by simp [hitems])
    have hret : returnsAfterPeek (((it :: its).map AItem.line ++ b.bodyLines ++ G ++ X).head?.getD []) = false := by
      cases it with
      | hdr l k v => simpa [AItem.line] using returns_hdr hit
      | cmt l => simpa [AItem.line] using returns_comment hit
    simp only [hret, Bool.false_eq_true, ↓reduceIte]
    have hcond : b.body ≠ none ∨ X = [] ∨ ∃ l ∈ G, IsBlank l := by
      by_cases hbn : b.body = none
      · by_cases hx : X = []
        · exact Or.inr (Or.inl hx)
        · rcases hsep hbn hx with ⟨hi, _⟩ | hbl
          · rw [hitems] at hi; cases hi
          · exact Or.inr (Or.inr hbl)
      · exact Or.inl hbn
    have hI := headerL_items cfg (it :: its) (by rw [← hitems]; exact hb.items)
      (b.bodyLines ++ G ++ X) { method := b.m, url := b.u, body := cfg.body, header := cfg.hdr } h
    obtain ⟨G', g1, g2⟩ := htail
      { method := b.m, url := b.u, body := cfg.body, header := (applyOwn cfg.hdr h (ownOf (it :: its))).1 }
      (applyOwn cfg.hdr h (ownOf (it :: its))).2 hcond
    refine ⟨G', g1, ?_⟩
    rw [show (it :: its).map AItem.line ++ b.bodyLines ++ G ++ X = (it :: its).map AItem.line ++ (b.bodyLines ++ G ++ X) by simp]
    rw [hI]
    simp only at g2
    rw [g2]
    simp [ABlock.result, hitems]
  | nil =>
    simp only [List.map_nil, List.nil_append]
    cases hbody : b.body with
    | some x =>
      have hx := hb.body x hbody
      have hret : returnsAfterPeek ((b.bodyLines ++ G ++ X).head?.getD []) = false := by
        simpa [ABlock.bodyLines, hbody] using returns_body hx
      simp only [hret, Bool.false_eq_true, ↓reduceIte]
      refine ⟨G, hG, ?_⟩
      simp [ABlock.bodyLines, hbody, headerL, step_body _ h hx, ABlock.result, hitems, ownOf, applyOwn]
    | none =>
      simp only [ABlock.bodyLines, hbody, Option.toList_none, List.map_nil, List.nil_append]
      have hres : b.result cfg h = ({ method := b.m, url := b.u, body := cfg.body, header := cfg.hdr }, h) := by
        simp [ABlock.result, hitems, hbody, ownOf, applyOwn]
      rw [hres]
      cases hg : G with
      | nil =>
        simp only [List.nil_append]
        rcases hX with hx | ⟨l, m', u', rest, hx, hreq⟩
        · subst hx
          refine ⟨[], by simp, ?_⟩
          have : returnsAfterPeek [] = true := by decide
          simp [this, afterPeek]
        · subst hx
          have hne : l ≠ [] := by
            intro h0; have := hreq.trim; rw [h0] at this
            have h1 : trimSpace [] = [] := by decide
            rw [h1] at this
            cases hm : m' <;> simp [hm] at this
          refine ⟨[], by simp, ?_⟩
          simp [returns_req hreq, afterPeek, hne]
      | cons g G1 =>
        have hg1 : ∀ l ∈ G1, IsFiller l := fun l hl => hG l (by simp [hg, hl])
        rcases hG g (by simp [hg]) with hbl | hcm
        · -- a blank line is peeked: consumed when exactly empty, else delivered again and skipped
          simp only [List.cons_append, List.head?_cons, Option.getD_some, returns_blank hbl, ↓reduceIte, afterPeek]
          by_cases h0 : g = []
          · exact ⟨G1, hg1, by simp [h0]⟩
          · exact ⟨g :: G1, by rw [← hg]; exact hG, by simp [h0]⟩
        · simp only [List.cons_append, List.head?_cons, Option.getD_some, returns_comment hcm, Bool.false_eq_true, ↓reduceIte]
          have hsep' : X = [] ∨ ∃ l ∈ G, IsBlank l := by
            by_cases hx : X = []
            · exact Or.inl hx
            · rcases hsep hbody hx with ⟨_, hgn⟩ | hbl
              · rw [hg] at hgn; cases hgn
              · exact Or.inr hbl
          obtain ⟨G', g1, g2⟩ := headerL_fillers cfg G X hG hsep'
            { method := b.m, url := b.u, body := cfg.body, header := cfg.hdr } h
          rw [hg] at g2
          simp only [List.cons_append] at g2
          exact ⟨G', g1, by rw [g2]⟩


/-! ### whole documents of abstract blocks -/

/-- the lines from the request line of `b` on: `b`, then the blocks `bs` with their leads,
then the trailing filler lines -/
def core (trail : List Bytes) : ABlock → List ABlock → List Bytes
  | b, [] => b.req :: (b.items.map AItem.line ++ b.bodyLines ++ trail ++ [])
  | b, b' :: bs => b.req :: (b.items.map AItem.line ++ b.bodyLines ++ b'.lead ++ core trail b' bs)

def docLines (trail : List Bytes) : List ABlock → List Bytes
  | [] => trail
  | b :: bs => b.lead ++ core trail b bs

/-- block separation on classified lines: after a block without body line, either the bare
request line is directly followed by the next request line or a blank line comes first -/
def ASep : List ABlock → Prop
  | [] => True
  | [_] => True
  | b :: b' :: rest =>
    (b.body = none → (b.items = [] ∧ b'.lead = []) ∨ ∃ l ∈ b'.lead, IsBlank l) ∧ ASep (b' :: rest)

/-- the targets the blocks yield one after the other, threading the heap -/
def expectL (cfg : Cfg) : List ABlock → Heap → List (Outcome Target × Heap) × Heap
  | [], h => ([], h)
  | b :: bs, h =>
    ((.ok (b.result cfg h).1, (b.result cfg h).2) :: (expectL cfg bs (b.result cfg h).2).1,
     (expectL cfg bs (b.result cfg h).2).2)

theorem callsL_succ (cfg : Cfg) (n : Nat) (ls : List Bytes) (h : Heap) :
    callsL cfg (n + 1) ls h =
      (((callL cfg ls h).1, (callL cfg ls h).2.2) :: (callsL cfg n (callL cfg ls h).2.1 (callL cfg ls h).2.2).1,
       (callsL cfg n (callL cfg ls h).2.1 (callL cfg ls h).2.2).2) := rfl

theorem callsL_core (cfg : Cfg) (trail : List Bytes) (htrail : ∀ l ∈ trail, IsFiller l) :
    ∀ (bs : List ABlock) (b : ABlock) (F : List Bytes) (h : Heap),
      (∀ x ∈ b :: bs, x.OK cfg) → ASep (b :: bs) → (∀ l ∈ F, IsFiller l) →
      ∃ G', (∀ l ∈ G', IsFiller l) ∧
        callsL cfg (bs.length + 1) (F ++ core trail b bs) h = ((expectL cfg (b :: bs) h).1, G', (expectL cfg (b :: bs) h).2) := by
  intro bs
  induction bs with
  | nil =>
    intro b F h hok _ hF
    obtain ⟨G', g1, g2⟩ := callL_block cfg b (hok b (by simp)) F trail [] h hF htrail (Or.inl rfl) (fun _ hx => absurd rfl hx)
    refine ⟨G', g1, ?_⟩
    simp only [core, List.length_nil, callsL, expectL]
    simp only [List.append_nil] at g2 ⊢
    rw [g2]
  | cons b' bs' ih =>
    intro b F h hok hsep hF
    have hb' : b'.OK cfg := hok b' (by simp)
    have hX : core trail b' bs' = [] ∨ ∃ l m' u' rest, core trail b' bs' = l :: rest ∧ IsReq cfg l m' u' := by
      right
      cases bs' with
      | nil => exact ⟨_, _, _, _, rfl, hb'.req⟩
      | cons b2 r => exact ⟨_, _, _, _, rfl, hb'.req⟩
    obtain ⟨G', g1, g2⟩ := callL_block cfg b (hok b (by simp)) F b'.lead (core trail b' bs') h hF hb'.lead hX
      (fun hbn _ => hsep.1 hbn)
    obtain ⟨G2, k1, k2⟩ := ih b' G' (b.result cfg h).2 (fun x hx => hok x (by simp at hx ⊢; right; exact hx)) hsep.2 g1
    refine ⟨G2, k1, ?_⟩
    rw [show (b' :: bs').length + 1 = (bs'.length + 1) + 1 by simp, callsL_succ]
    rw [show F ++ core trail b (b' :: bs') =
        F ++ b.req :: (b.items.map AItem.line ++ b.bodyLines ++ b'.lead ++ core trail b' bs') by rfl, g2]
    simp only
    rw [k2]
    rfl

theorem callL_exhausted (cfg : Cfg) (F : List Bytes) (h : Heap) (hF : ∀ l ∈ F, IsFiller l) :
    callL cfg F h = (.error eNoTargets, [], h) := by
  simp [callL, skipL_only_fillers F hF]

theorem callsL_exhausted (cfg : Cfg) (h : Heap) : ∀ (k : Nat) (F : List Bytes), (∀ l ∈ F, IsFiller l) →
    (callsL cfg k F h).1 = List.replicate k (.error eNoTargets, h) ∧ (callsL cfg k F h).2.2 = h := by
  intro k
  induction k with
  | zero => intro F _; exact ⟨rfl, rfl⟩
  | succ k ih =>
    intro F hF
    simp only [callsL, callL_exhausted cfg F h hF]
    have := ih [] (by simp)
    exact ⟨by simp [List.replicate_succ, this.1], this.2⟩

theorem callsL_add (cfg : Cfg) : ∀ (a b : Nat) (ls : List Bytes) (h : Heap),
    callsL cfg (a + b) ls h =
      ((callsL cfg a ls h).1 ++ (callsL cfg b (callsL cfg a ls h).2.1 (callsL cfg a ls h).2.2).1,
       (callsL cfg b (callsL cfg a ls h).2.1 (callsL cfg a ls h).2.2).2) := by
  intro a
  induction a with
  | zero => intro b ls h; simp [callsL]
  | succ a ih =>
    intro b ls h
    rw [show a + 1 + b = (a + b) + 1 by omega]
    simp only [callsL, ih]
    simp

/-- **Documents of classified lines**: `n` blocks decode to their `n` targets in order, and
every further call reports `ErrNoTargets`. -/
theorem callsL_doc (cfg : Cfg) (trail : List Bytes) (htrail : ∀ l ∈ trail, IsFiller l) (bs : List ABlock)
    (hok : ∀ x ∈ bs, x.OK cfg) (hsep : ASep bs) (h : Heap) (k : Nat) :
    (callsL cfg (bs.length + k) (docLines trail bs) h).1 =
      (expectL cfg bs h).1 ++ List.replicate k (.error eNoTargets, (expectL cfg bs h).2) ∧
    (callsL cfg (bs.length + k) (docLines trail bs) h).2.2 = (expectL cfg bs h).2 := by
  rw [callsL_add]
  cases bs with
  | nil =>
    simp only [List.length_nil, callsL, docLines, expectL, List.nil_append]
    exact callsL_exhausted cfg h k trail htrail
  | cons b bs =>
    obtain ⟨G', g1, g2⟩ := callsL_core cfg trail htrail bs b b.lead h hok hsep (hok b (by simp)).lead
    simp only [List.length_cons, docLines, g2]
    have := callsL_exhausted cfg (expectL cfg (b :: bs) h).2 k G' g1
    exact ⟨by rw [this.1], this.2⟩

end Vegeta.Proofs.HTTPGrammar
