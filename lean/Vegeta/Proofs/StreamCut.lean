/-
Truncated result streams: an encoded JSON record is one line, `ReadBytes('\n')` on a cut stream
never yields a partial line, the JSON decoder on a stream cut anywhere returns exactly the records
lying wholly before the cut, and the CSV / JSON encoders hand whole records to the writer per call.
-/
import Vegeta.Proofs.CodecDomain
import Vegeta.Proofs.CodecDecimal
import Vegeta.Proofs.CodecBase64
import Vegeta.Proofs.CodecJSONString
namespace Vegeta.Proofs.Codec
open Vegeta.Go Vegeta.Model.Codec Vegeta.Model.GobFrame

/-- a record line: some bytes without a newline, then exactly one newline -/
def IsLine (l : Bytes) : Prop := ∃ body, l = body ++ [10] ∧ 10 ∉ body

/-- pointwise relation of two lists (the `List.Forall₂` of Batteries/Mathlib, which core Lean lacks) -/
inductive Forall₂ {α β : Type} (R : α → β → Prop) : List α → List β → Prop
  | nil : Forall₂ R [] []
  | cons {a : α} {b : β} {as : List α} {bs : List β} : R a b → Forall₂ R as bs → Forall₂ R (a :: as) (b :: bs)

/-- number of leading lines lying wholly before a cut after `k` bytes -/
def linesBefore : List Bytes → Nat → Nat
  | [], _ => 0
  | l :: ls, k => if l.length ≤ k then 1 + linesBefore ls (k - l.length) else 0

example : linesBefore [[1, 10], [2, 3, 10]] 4 = 1 := by decide
example : linesBefore [[1, 10], [2, 3, 10]] 5 = 2 := by decide
example : linesBefore [[1, 10], [2, 3, 10]] 1 = 0 := by decide
example : splitLine [1, 2, 10, 3] = some ([1, 2, 10], [3]) := by decide
example : splitLine [1, 2, 3] = none := by decide

/-! ### bytes ≥ 0x20 -/

/-- all bytes are at least 0x20 (no control bytes, in particular no newline) -/
def Ge32 (b : Bytes) : Prop := ∀ c ∈ b, 32 ≤ c

theorem Ge32.nil : Ge32 [] := by intro c hc; cases hc

theorem Ge32.cons {a : Nat} {b : Bytes} (ha : 32 ≤ a) (hb : Ge32 b) : Ge32 (a :: b) := by
  intro c hc
  rcases List.mem_cons.1 hc with h | h
  · omega
  · exact hb c h

theorem Ge32.append {a b : Bytes} (ha : Ge32 a) (hb : Ge32 b) : Ge32 (a ++ b) := by
  intro c hc
  rcases List.mem_append.1 hc with h | h
  · exact ha c h
  · exact hb c h

theorem fmtNat_ge32 (n : Nat) : Ge32 (fmtNat n) := fun c hc => by
  have := fmtNat_digits n c hc; omega

theorem fmtInt_ge32 (i : Int) : Ge32 (fmtInt i) := fun c hc => by
  have := fmtInt_chars i c hc; omega

theorem padNat_ge32 (w n : Nat) : Ge32 (padNat w n) := by
  unfold padNat
  apply Ge32.append
  · intro c hc
    have := (List.mem_replicate.1 hc).2
    omega
  · exact fmtNat_ge32 n

theorem dropTrailingZeros_ge32 {s : Bytes} (h : Ge32 s) : Ge32 (dropTrailingZeros s) := by
  intro c hc
  unfold dropTrailingZeros at hc
  rw [List.mem_reverse] at hc
  have h1 := (List.dropWhile_sublist _).subset hc
  rw [List.mem_reverse] at h1
  exact h c h1

theorem fmtNanos_ge32 (n : Nat) : Ge32 (fmtNanos n) := by
  unfold fmtNanos
  split
  · exact Ge32.nil
  · exact Ge32.cons (by decide) (dropTrailingZeros_ge32 (padNat_ge32 9 n))

theorem fmtZone_ge32 (offMin : Int) : Ge32 (fmtZone offMin) := by
  unfold fmtZone
  split
  · exact Ge32.cons (by decide) Ge32.nil
  · refine Ge32.cons ?_ (Ge32.append (padNat_ge32 _ _) (Ge32.cons (by decide) (padNat_ge32 _ _)))
    split <;> decide

theorem rfc3339Body_ge32 (y mo d hh mi ss nsec : Nat) (off : Int) :
    Ge32 (padNat 4 y ++ 45 :: padNat 2 mo ++ 45 :: padNat 2 d ++ 84 ::
      padNat 2 hh ++ 58 :: padNat 2 mi ++ 58 :: padNat 2 ss ++ fmtNanos nsec ++ fmtZone off) := by
  repeat' first
    | with_reducible exact padNat_ge32 _ _
    | with_reducible exact fmtNanos_ge32 _
    | with_reducible exact fmtZone_ge32 _
    | with_reducible apply Ge32.append
    | with_reducible apply Ge32.cons
    | decide

/-- every successful RFC 3339 rendering consists of bytes ≥ 0x20 (digits, '-', ':', 'T', '.', 'Z', '+') — for EVERY instant and zone -/
theorem fmtRFC3339_no_ctl (ns offMin : Int) (b : Bytes) (h : fmtRFC3339 ns offMin = some b) :
    ∀ c ∈ b, 32 ≤ c := by
  unfold fmtRFC3339 at h
  simp only at h
  split at h
  · cases h
  · generalize absDate _ = p at h
    obtain ⟨year, month, day⟩ := p
    simp only at h
    split at h
    · cases h
    · injection h with h
      rw [← h]
      exact rfc3339Body_ge32 _ _ _ _ _ _ _ _

theorem timeMarshalJSON_ge32 (ns offMin : Int) (ts : Bytes) (h : timeMarshalJSON ns offMin = some ts) :
    Ge32 ts := by
  unfold timeMarshalJSON at h
  cases hf : fmtRFC3339 ns offMin with
  | none => rw [hf] at h; cases h
  | some b =>
    rw [hf] at h
    injection h with h
    subst h
    exact Ge32.cons (by decide) (Ge32.append (fmtRFC3339_no_ctl ns offMin b hf) (Ge32.cons (by decide) Ge32.nil))

theorem jsonString_ge32 (s : Bytes) : Ge32 (jsonString s) := by
  unfold jsonString
  exact Ge32.cons (by decide) (Ge32.append (jsonEscape_no_ctl s) (Ge32.cons (by decide) Ge32.nil))

theorem null_ge32 : Ge32 [110, 117, 108, 108] := by
  intro c hc; simp at hc; omega

theorem jsonBody_ge32 (b : Option Bytes) : Ge32 (jsonBody b) := by
  cases b with
  | none => exact null_ge32
  | some b =>
    unfold jsonBody
    refine Ge32.cons (by decide) (Ge32.append ?_ (Ge32.cons (by decide) Ge32.nil))
    intro c hc
    exact (b64Encode_safe b c hc).2.2.2.2.2.1

theorem commaJoin_ge32 (xs : List Bytes) (h : ∀ x ∈ xs, Ge32 x) : Ge32 (commaJoin xs) := by
  induction xs with
  | nil => exact Ge32.nil
  | cons x r ih =>
    cases r with
    | nil => exact h x (by simp)
    | cons y r =>
      unfold commaJoin
      exact Ge32.append (h x (by simp)) (Ge32.cons (by decide) (ih (fun z hz => h z (List.mem_cons_of_mem _ hz))))

theorem jsonHeaderEntry_ge32 (kv : Bytes × List Bytes) : Ge32 (jsonHeaderEntry kv) := by
  unfold jsonHeaderEntry
  refine Ge32.append (jsonString_ge32 _) (Ge32.cons (by decide) ?_)
  split
  · exact null_ge32
  · refine Ge32.cons (by decide) (Ge32.append (commaJoin_ge32 _ ?_) (Ge32.cons (by decide) Ge32.nil))
    intro x hx
    obtain ⟨v, _, rfl⟩ := List.mem_map.1 hx
    exact jsonString_ge32 v

theorem jsonHeaders_ge32 (h : Option Header) : Ge32 (jsonHeaders h) := by
  cases h with
  | none => exact null_ge32
  | some h =>
    unfold jsonHeaders
    refine Ge32.cons (by decide) (Ge32.append (commaJoin_ge32 _ ?_) (Ge32.cons (by decide) Ge32.nil))
    intro x hx
    obtain ⟨kv, _, rfl⟩ := List.mem_map.1 hx
    exact jsonHeaderEntry_ge32 kv

theorem kAttack_ge32 : Ge32 kAttack := by unfold Ge32; decide
theorem kSeq_ge32 : Ge32 kSeq := by unfold Ge32; decide
theorem kCode_ge32 : Ge32 kCode := by unfold Ge32; decide
theorem kTimestamp_ge32 : Ge32 kTimestamp := by unfold Ge32; decide
theorem kLatency_ge32 : Ge32 kLatency := by unfold Ge32; decide
theorem kBytesOut_ge32 : Ge32 kBytesOut := by unfold Ge32; decide
theorem kBytesIn_ge32 : Ge32 kBytesIn := by unfold Ge32; decide
theorem kError_ge32 : Ge32 kError := by unfold Ge32; decide
theorem kBody_ge32 : Ge32 kBody := by unfold Ge32; decide
theorem kMethod_ge32 : Ge32 kMethod := by unfold Ge32; decide
theorem kURL_ge32 : Ge32 kURL := by unfold Ge32; decide
theorem kHeaders_ge32 : Ge32 kHeaders := by unfold Ge32; decide

/-- **json_record_single_newline**: whatever the result (valid UTF-8 or not, any numbers), an encoded JSON
record contains the byte 0x0A exactly once, as its last byte -/
theorem encodeJSON_single_newline (offMin : Int) (r : Result) (b : Bytes)
    (h : encodeJSON offMin r = some b) : IsLine b := by
  unfold encodeJSON at h
  cases hts : timeMarshalJSON r.timestamp offMin with
  | none => rw [hts] at h; cases h
  | some ts =>
    rw [hts] at h
    injection h with h
    have hts' := timeMarshalJSON_ge32 _ _ _ hts
    refine ⟨123 :: (kAttack ++ jsonString r.attack ++ kSeq ++ fmtNat r.seq ++ kCode ++ fmtNat r.code ++
      kTimestamp ++ ts ++ kLatency ++ fmtInt r.latency ++ kBytesOut ++ fmtNat r.bytesOut ++
      kBytesIn ++ fmtNat r.bytesIn ++ kError ++ jsonString r.error ++ kBody ++ jsonBody r.body ++
      kMethod ++ jsonString r.method ++ kURL ++ jsonString r.url ++ kHeaders ++ jsonHeaders r.headers ++
      [125]), ?_, ?_⟩
    · rw [← h]
      simp only [List.cons_append, List.append_assoc, List.nil_append]
    · have hb : Ge32 (123 :: (kAttack ++ jsonString r.attack ++ kSeq ++ fmtNat r.seq ++ kCode ++ fmtNat r.code ++
          kTimestamp ++ ts ++ kLatency ++ fmtInt r.latency ++ kBytesOut ++ fmtNat r.bytesOut ++
          kBytesIn ++ fmtNat r.bytesIn ++ kError ++ jsonString r.error ++ kBody ++ jsonBody r.body ++
          kMethod ++ jsonString r.method ++ kURL ++ jsonString r.url ++ kHeaders ++ jsonHeaders r.headers ++
          [125])) := by
        refine Ge32.cons (by decide) ?_
        repeat' with_reducible first
          | exact kAttack_ge32 | exact kSeq_ge32 | exact kCode_ge32 | exact kTimestamp_ge32
          | exact kLatency_ge32 | exact kBytesOut_ge32 | exact kBytesIn_ge32 | exact kError_ge32
          | exact kBody_ge32 | exact kMethod_ge32 | exact kURL_ge32 | exact kHeaders_ge32
          | exact jsonString_ge32 _ | exact fmtNat_ge32 _ | exact fmtInt_ge32 _ | exact hts'
          | exact jsonBody_ge32 _ | exact jsonHeaders_ge32 _
          | exact Ge32.cons (by decide) Ge32.nil
          | apply Ge32.append
      intro h10
      have := hb 10 h10
      omega

/-! ### `ReadBytes('\n')` -/

theorem splitLine_body (body rest : Bytes) (h : 10 ∉ body) :
    splitLine (body ++ 10 :: rest) = some (body ++ [10], rest) := by
  induction body with
  | nil => simp [splitLine]
  | cons c body ih =>
    have hc : c ≠ 10 := fun e => h (by simp [e])
    have hb : 10 ∉ body := fun e => h (List.mem_cons_of_mem _ e)
    simp [splitLine, hc, ih hb]

/-- `ReadBytes('\n')` on a line followed by anything returns exactly the line -/
theorem splitLine_line (l rest : Bytes) (hl : IsLine l) : splitLine (l ++ rest) = some (l, rest) := by
  obtain ⟨body, rfl, hb⟩ := hl
  rw [List.append_assoc]
  exact splitLine_body body rest hb

/-- no newline left: nothing is returned -/
theorem splitLine_none (s : Bytes) (h : 10 ∉ s) : splitLine s = none := by
  induction s with
  | nil => rfl
  | cons c s ih =>
    have hc : c ≠ 10 := fun e => h (by simp [e])
    have hb : 10 ∉ s := fun e => h (List.mem_cons_of_mem _ e)
    simp [splitLine, hc, ih hb]

/-! ### the cut stream -/

/-- a proper prefix of a line contains no newline -/
theorem take_line_no_nl (l : Bytes) (hl : IsLine l) (k : Nat) (hk : k < l.length) : 10 ∉ l.take k := by
  obtain ⟨body, rfl, hb⟩ := hl
  have hk' : k ≤ body.length := by simp at hk; omega
  rw [List.take_append_of_le_length hk']
  intro h
  exact hb (List.mem_of_mem_take h)

theorem decodeJSONF_cut (lines : List Bytes) (rs : List Result)
    (h : Forall₂ (fun l r => IsLine l ∧ decodeJSONLine l = .ok r) lines rs) :
    ∀ (k fuel : Nat), linesBefore lines k < fuel →
      decodeJSONF fuel (lines.flatten.take k) = (rs.take (linesBefore lines k), .eof) := by
  induction h with
  | nil =>
    intro k fuel hf
    cases fuel with
    | zero => omega
    | succ f => simp [decodeJSONF, linesBefore]
  | @cons l r ls rs' hlr _ ih =>
    intro k fuel hf
    cases fuel with
    | zero => omega
    | succ f =>
      simp only [linesBefore] at hf
      simp only [List.flatten_cons, linesBefore]
      by_cases hk : l.length ≤ k
      · rw [if_pos hk, List.take_append, List.take_of_length_le hk]
        have hne : (l ++ List.take (k - l.length) ls.flatten).isEmpty = false := by
          obtain ⟨body, rfl, _⟩ := hlr.1
          simp
        unfold decodeJSONF
        rw [hne, splitLine_line _ _ hlr.1]
        simp only [Bool.false_eq_true, if_false, hlr.2]
        rw [if_pos hk] at hf
        rw [ih (k - l.length) f (by omega)]
        simp [Nat.add_comm 1]
      · rw [if_neg hk]
        have hk' : k < l.length := by omega
        rw [List.take_append_of_le_length (by omega)]
        unfold decodeJSONF
        by_cases he : (List.take k l).isEmpty
        · simp [he]
        · simp only [he, Bool.false_eq_true, if_false, splitLine_none _ (take_line_no_nl l hlr.1 k hk')]
          simp

theorem linesBefore_le_length (lines : List Bytes) (h : ∀ l ∈ lines, 1 ≤ l.length) (k : Nat) :
    linesBefore lines k ≤ (lines.flatten.take k).length := by
  induction lines generalizing k with
  | nil => simp [linesBefore]
  | cons l ls ih =>
    simp only [linesBefore]
    split
    · have h1 := h l (by simp)
      have h2 := ih (fun x hx => h x (List.mem_cons_of_mem _ hx)) (k - l.length)
      simp only [List.flatten_cons, List.length_take, List.length_append] at h2 ⊢
      omega
    · omega

/-- **json_cut_prefix** (generic form): if `lines` are record lines decoding to `rs` one by one, then decoding
the stream cut after ANY number of bytes `k` returns exactly the results of the lines lying wholly before
the cut, then end-of-stream — never a partial record -/
theorem decodeJSON_cut (lines : List Bytes) (rs : List Result)
    (h : Forall₂ (fun l r => IsLine l ∧ decodeJSONLine l = .ok r) lines rs) (k : Nat) :
    decodeJSON (lines.flatten.take k) = (rs.take (linesBefore lines k), .eof) := by
  unfold decodeJSON
  apply decodeJSONF_cut lines rs h
  have hl : ∀ l ∈ lines, 1 ≤ l.length := by
    intro l hl
    have : IsLine l := by
      clear k
      induction h with
      | nil => cases hl
      | cons hlr _ ih =>
        rcases List.mem_cons.1 hl with e | e
        · subst e; exact hlr.1
        · exact ih e
    obtain ⟨body, rfl, _⟩ := this
    simp
  have := linesBefore_le_length lines hl k
  omega

/-- `linesBefore` counts exactly the complete lines: they fit before the cut and the next one does not -/
theorem linesBefore_spec (lines : List Bytes) (k : Nat) :
    linesBefore lines k ≤ lines.length ∧ ((lines.take (linesBefore lines k)).flatten).length ≤ k ∧
      (∀ l, lines[linesBefore lines k]? = some l → k < ((lines.take (linesBefore lines k + 1)).flatten).length) := by
  induction lines generalizing k with
  | nil => simp [linesBefore]
  | cons l ls ih =>
    simp only [linesBefore]
    split
    · obtain ⟨h1, h2, h3⟩ := ih (k - l.length)
      refine ⟨by simp only [List.length_cons]; omega, ?_, ?_⟩
      · rw [Nat.add_comm 1, List.take_succ_cons, List.flatten_cons, List.length_append]
        omega
      · intro x hx
        rw [Nat.add_comm 1, List.getElem?_cons_succ] at hx
        have := h3 x hx
        rw [Nat.add_comm 1, List.take_succ_cons, List.flatten_cons, List.length_append]
        omega
    · refine ⟨by omega, by simp, ?_⟩
      intro x _
      simp
      omega

/-! ### whole records per `Encode` call -/

/-- the stream of the first `m` records is a prefix of the whole CSV stream (cuts at record boundaries) -/
theorem encodeCSVAll_take (rs : List Result) (m : Nat) :
    (encodeCSVAll rs).take (encodeCSVAll (rs.take m)).length = encodeCSVAll (rs.take m) := by
  have h : encodeCSVAll rs = encodeCSVAll (rs.take m) ++ encodeCSVAll (rs.drop m) := by
    unfold encodeCSVAll
    rw [← List.flatMap_append, List.take_append_drop]
  rw [h, List.take_left']
  rfl

theorem bufFlush_bufWrite (cap : Nat) (st : EncSt) (p : Bytes) :
    bufFlush (bufWrite cap st p) = { out := st.out ++ st.buf ++ p, buf := [] } := by
  unfold bufFlush bufWrite
  simp only
  split
  · simp [List.append_assoc]
  · simp only [List.append_assoc, List.take_append_drop]

theorem csv_calls_aux (rs : List Result) (st : EncSt) (hst : st.buf = []) :
    (rs.foldl csvEncodeCall st).out = st.out ++ encodeCSVAll rs ∧ (rs.foldl csvEncodeCall st).buf = [] := by
  induction rs generalizing st with
  | nil => simp [encodeCSVAll, hst]
  | cons r rs ih =>
    rw [List.foldl_cons]
    have h := ih (csvEncodeCall st r) (by unfold csvEncodeCall; rw [bufFlush_bufWrite])
    refine ⟨?_, h.2⟩
    rw [h.1]
    unfold csvEncodeCall
    rw [bufFlush_bufWrite, hst]
    simp [encodeCSVAll, List.append_assoc]

/-- **encode_emits_whole_records (CSV)**: Write + Flush per call — after the calls for `rs` the bytes handed to
the writer are exactly the records of `rs` and nothing is held back (apply it to `rs.take k` for "after the k-th call") -/
theorem csv_calls_whole_records (rs : List Result) :
    (rs.foldl csvEncodeCall {}).out = encodeCSVAll rs ∧ (rs.foldl csvEncodeCall {}).buf = [] := by
  have h := csv_calls_aux rs {} rfl
  simpa using h

theorem json_calls_aux (offMin : Int) (rs : List Result) (st : EncSt) (hst : st.buf = []) (b : Bytes)
    (h : encodeJSONAll offMin rs = some b) :
    (rs.foldl (jsonEncodeCall offMin) st).out = st.out ++ b ∧
      (rs.foldl (jsonEncodeCall offMin) st).buf = [] := by
  induction rs generalizing st b with
  | nil =>
    simp only [encodeJSONAll] at h
    injection h with h
    subst h
    simp [hst]
  | cons r rs ih =>
    rw [List.foldl_cons]
    simp only [encodeJSONAll] at h
    cases ha : encodeJSON offMin r with
    | none => rw [ha] at h; simp at h
    | some a =>
      cases hb : encodeJSONAll offMin rs with
      | none => rw [ha, hb] at h; simp at h
      | some b' =>
        rw [ha, hb] at h
        injection h with h
        subst h
        have hcall : jsonEncodeCall offMin st r = { out := st.out ++ a, buf := [] } := by
          unfold jsonEncodeCall bufFlush
          rw [ha]
          simp [hst]
        rw [hcall]
        have h := ih { out := st.out ++ a, buf := [] } rfl b' hb
        refine ⟨?_, h.2⟩
        rw [h.1]
        simp [List.append_assoc]

/-- **encode_emits_whole_records (JSON)** -/
theorem json_calls_whole_records (offMin : Int) (rs : List Result) (b : Bytes)
    (h : encodeJSONAll offMin rs = some b) :
    (rs.foldl (jsonEncodeCall offMin) {}).out = b ∧ (rs.foldl (jsonEncodeCall offMin) {}).buf = [] := by
  have h := json_calls_aux offMin rs {} rfl b h
  simpa using h

end Vegeta.Proofs.Codec
