/-
Proofs about the `encoding/base64.StdEncoding` model: alphabet inversion, the character
set of encoded text, and `DecodeString ∘ EncodeToString = id` on byte strings.
-/
import Vegeta.Model.CodecResult
namespace Vegeta.Proofs.Codec
open Vegeta.Go Vegeta.Model.Codec

/-- the characters base64 text is made of -/
def isB64Char (c : Nat) : Bool :=
  (65 ≤ c && c ≤ 90) || (97 ≤ c && c ≤ 122) || (48 ≤ c && c ≤ 57) || c == 43 || c == 47 || c == 61

theorem b64Val_b64Char (v : Nat) (h : v < 64) : b64Val (b64Char v) = some v := by
  have key : ∀ v, v < 64 → b64Val (b64Char v) = some v := by decide
  exact key v h

theorem b64Char_ne_pad (v : Nat) : b64Char v ≠ 61 := by
  unfold b64Char
  repeat' split
  all_goals omega

/-- every alphabet character is in one of the five alphabet ranges -/
theorem b64Char_range (v : Nat) :
    (65 ≤ b64Char v ∧ b64Char v ≤ 90) ∨ (97 ≤ b64Char v ∧ b64Char v ≤ 122) ∨
    (48 ≤ b64Char v ∧ b64Char v ≤ 57) ∨ b64Char v = 43 ∨ b64Char v = 47 := by
  unfold b64Char
  repeat' split
  all_goals omega

theorem isB64Char_b64Char (v : Nat) : isB64Char (b64Char v) = true := by
  have h := b64Char_range v
  unfold isB64Char
  simp only [Bool.or_eq_true, Bool.and_eq_true, decide_eq_true_eq, beq_iff_eq]
  omega

theorem isB64Char_pad : isB64Char 61 = true := by decide

theorem b64Encode_chars (b : Bytes) : ∀ c ∈ b64Encode b, isB64Char c = true := by
  fun_induction b64Encode b with
  | case1 => intro c hc; cases hc
  | case2 a =>
    intro c hc
    simp only [List.mem_cons, List.not_mem_nil, or_false] at hc
    rcases hc with rfl | rfl | rfl | rfl
    · exact isB64Char_b64Char _
    · exact isB64Char_b64Char _
    · exact isB64Char_pad
    · exact isB64Char_pad
  | case3 a b =>
    intro c hc
    simp only [List.mem_cons, List.not_mem_nil, or_false] at hc
    rcases hc with rfl | rfl | rfl | rfl
    · exact isB64Char_b64Char _
    · exact isB64Char_b64Char _
    · exact isB64Char_b64Char _
    · exact isB64Char_pad
  | case4 a b c r ih =>
    intro x hx
    simp only [List.mem_cons] at hx
    rcases hx with rfl | rfl | rfl | rfl | hx
    · exact isB64Char_b64Char _
    · exact isB64Char_b64Char _
    · exact isB64Char_b64Char _
    · exact isB64Char_b64Char _
    · exact ih x hx

theorem b64Encode_eq_nil (b : Bytes) : b64Encode b = [] ↔ b = [] := by
  constructor
  · intro h
    match b, h with
    | [], _ => rfl
    | [_], h => simp [b64Encode] at h
    | [_, _], h => simp [b64Encode] at h
    | _ :: _ :: _ :: _, h => simp [b64Encode] at h
  · intro h; subst h; rfl

theorem isB64Char_safe (c : Nat) (h : isB64Char c = true) :
    c ≠ 10 ∧ c ≠ 13 ∧ c ≠ 34 ∧ c ≠ 44 ∧ c ≠ 92 ∧ 32 ≤ c ∧ c < 128 := by
  unfold isB64Char at h
  simp only [Bool.or_eq_true, Bool.and_eq_true, decide_eq_true_eq, beq_iff_eq] at h
  omega

/-- no byte of base64 text is CR/LF, a quote, a comma, a backslash or below 0x20 -/
theorem b64Encode_safe (b : Bytes) :
    ∀ c ∈ b64Encode b, c ≠ 10 ∧ c ≠ 13 ∧ c ≠ 34 ∧ c ≠ 44 ∧ c ≠ 92 ∧ 32 ≤ c ∧ c < 128 :=
  fun c hc => isB64Char_safe c (b64Encode_chars b c hc)

/-- encoded text contains no CR/LF, so the CR/LF filter of `Decode` leaves it unchanged -/
theorem b64Encode_filter_notCRLF (b : Bytes) : (b64Encode b).filter notCRLF = b64Encode b := by
  rw [List.filter_eq_self]
  intro c hc
  have h := b64Encode_safe b c hc
  simp only [notCRLF, Bool.and_eq_true, bne_iff_ne, ne_eq]
  exact ⟨h.1, h.2.1⟩

/-- the quantum loop inverts `EncodeToString` -/
theorem b64DecodeQ_b64Encode (b : Bytes) (h : ∀ x ∈ b, x < 256) :
    b64DecodeQ (b64Encode b) = .ok b := by
  fun_induction b64Encode b with
  | case1 => rfl
  | case2 a =>
    have ha : a < 256 := h a (by simp)
    have h0 : a / 4 < 64 := by omega
    have h1 : a % 4 * 16 < 64 := by omega
    simp only [b64DecodeQ, b64Val_b64Char _ h0, b64Val_b64Char _ h1, and_self, if_true]
    have : a / 4 * 4 + a % 4 * 16 / 16 = a := by omega
    rw [this]
  | case3 a b =>
    have ha : a < 256 := h a (by simp)
    have hb : b < 256 := h b (by simp)
    have h0 : a / 4 < 64 := by omega
    have h1 : a % 4 * 16 + b / 16 < 64 := by omega
    have h2 : b % 16 * 4 < 64 := by omega
    simp only [b64DecodeQ, b64Val_b64Char _ h0, b64Val_b64Char _ h1, b64Val_b64Char _ h2,
      b64Char_ne_pad, if_false, if_true]
    have e1 : a / 4 * 4 + (a % 4 * 16 + b / 16) / 16 = a := by omega
    have e2 : (a % 4 * 16 + b / 16) % 16 * 16 + b % 16 * 4 / 4 = b := by omega
    rw [e1, e2]
  | case4 a b c r ih =>
    have ha : a < 256 := h a (by simp)
    have hb : b < 256 := h b (by simp)
    have hc : c < 256 := h c (by simp)
    have hr : ∀ x ∈ r, x < 256 := fun x hx => h x (by simp [hx])
    have h0 : a / 4 < 64 := by omega
    have h1 : a % 4 * 16 + b / 16 < 64 := by omega
    have h2 : b % 16 * 4 + c / 64 < 64 := by omega
    have h3 : c % 64 < 64 := by omega
    simp only [b64DecodeQ, b64Val_b64Char _ h0, b64Val_b64Char _ h1, b64Val_b64Char _ h2,
      b64Val_b64Char _ h3, b64Char_ne_pad, if_false, ih hr]
    have e1 : a / 4 * 4 + (a % 4 * 16 + b / 16) / 16 = a := by omega
    have e2 : (a % 4 * 16 + b / 16) % 16 * 16 + (b % 16 * 4 + c / 64) / 4 = b := by omega
    have e3 : (b % 16 * 4 + c / 64) % 4 * 64 + c % 64 = c := by omega
    rw [e1, e2, e3]

/-- base64.StdEncoding: DecodeString ∘ EncodeToString = id -/
theorem b64Decode_b64Encode (b : Bytes) (h : ∀ x ∈ b, x < 256) :
    b64Decode (b64Encode b) = .ok b := by
  unfold b64Decode
  rw [b64Encode_filter_notCRLF]
  exact b64DecodeQ_b64Encode b h

/-! Sanity checks -/

-- "aGVsbG8=" ↦ "hello"
example : b64Decode [97, 71, 86, 115, 98, 71, 56, 61] = .ok [104, 101, 108, 108, 111] := by decide
-- "hello" ↦ "aGVsbG8="
example : b64Encode [104, 101, 108, 108, 111] = [97, 71, 86, 115, 98, 71, 56, 61] := by decide
-- "aGVs\r\nbG8=" ↦ "hello" (embedded CR LF is ignored)
example : b64Decode [97, 71, 86, 115, 13, 10, 98, 71, 56, 61] = .ok [104, 101, 108, 108, 111] := by
  decide
-- "aGVsbG=" : input ends inside a quantum
example : b64Decode [97, 71, 86, 115, 98, 71, 61] = .error eBase64 := by decide
-- "aA==" ↦ "h" ; "aGk=" ↦ "hi"
example : b64Decode [97, 65, 61, 61] = .ok [104] := by decide
example : b64Decode [97, 71, 107, 61] = .ok [104, 105] := by decide
-- "aA==aA==" : padding must end the input
example : b64Decode [97, 65, 61, 61, 97, 65, 61, 61] = .error eBase64 := by decide
-- "a!==" : character outside the alphabet
example : b64Decode [97, 33, 61, 61] = .error eBase64 := by decide
-- empty input
example : b64Decode [] = .ok [] := by decide
example : b64Encode [255, 254, 253] = [47, 47, 55, 57] := by decide

end Vegeta.Proofs.Codec
