/-
Helper lemmas for C17: what `F64.roundRat` (round to nearest even) computes for a ratio
`1 ≤ n/d < 2^52`, and what `int(float64(j) * size)` is in integer arithmetic.
-/
import Vegeta.Go.SoftF64
namespace Vegeta.Proofs.Rounding
open Vegeta.Go

/-- `N / d` rounded to the nearest integer, ties to even -/
def rq (N d : Nat) : Nat :=
  if 2 * (N % d) > d then N / d + 1 else if 2 * (N % d) == d then N / d + (N / d) % 2 else N / d

theorem two_pow_pos (k : Nat) : 0 < 2 ^ k := Nat.pow_pos (by decide)

/-- the scaling exponent of a ratio is unique -/
theorem bracket_unique (n d K K' : Nat)
    (h1 : F64.p52 * d ≤ n * 2 ^ K) (h2 : n * 2 ^ K < F64.p53 * d)
    (h1' : F64.p52 * d ≤ n * 2 ^ K') (h2' : n * 2 ^ K' < F64.p53 * d) : K = K' := by
  have key : ∀ A B : Nat, A < B → F64.p52 * d ≤ n * 2 ^ A → n * 2 ^ B < F64.p53 * d → False := by
    intro A B hAB hA hB
    have hpow : 2 ^ (A + 1) ≤ 2 ^ B := Nat.pow_le_pow_right (by decide) hAB
    have : n * 2 ^ (A + 1) ≤ n * 2 ^ B := Nat.mul_le_mul_left n hpow
    rw [Nat.pow_succ] at this
    have e : n * (2 ^ A * 2) = 2 * (n * 2 ^ A) := by
      rw [← Nat.mul_assoc, Nat.mul_comm]
    rw [e] at this
    unfold F64.p52 F64.p53 at *
    omega
  rcases Nat.lt_trichotomy K K' with h | h | h
  · exact absurd (key K K' h h1 h2') id
  · exact h
  · exact absurd (key K' K h h1' h2) id

/-- the final step of `roundRat` once the scaling exponent `K` is known -/
theorem roundRat_finish (n d K : Nat) (hd : 0 < d) (hK2 : K ≤ 52)
    (hlo : F64.p52 * d ≤ n * 2 ^ K) (hhi : n * 2 ^ K < F64.p53 * d) :
    (let k : Int := (K : Int)
     let num := if k ≥ 0 then n * 2 ^ k.toNat else n
     let den := if k ≥ 0 then d else d * 2 ^ (-k).toNat
     let q := num / den
     let r := num % den
     let q' := if 2 * r > den then q + 1 else if 2 * r == den then q + q % 2 else q
     let biased : Int := 1075 - k
     let body : Int := (biased - 1) * (F64.p52 : Int) + (q' : Int)
     if body ≥ (2047 * F64.p52 : Nat) then F64.inf false else (⟨(if false then F64.p63 else 0) + body.toNat⟩ : F64))
    = ⟨(1074 - K) * F64.p52 + rq (n * 2 ^ K) d⟩ := by
  have hk : ((K : Int) ≥ 0) := Int.natCast_nonneg K
  simp only [hk, ↓reduceIte, Int.toNat_natCast]
  have hq1 : F64.p52 ≤ n * 2 ^ K / d := (Nat.le_div_iff_mul_le hd).mpr hlo
  have hq2 : n * 2 ^ K / d < F64.p53 := (Nat.div_lt_iff_lt_mul hd).mpr hhi
  have hrq : rq (n * 2 ^ K) d ≤ F64.p53 := by
    unfold rq; unfold F64.p53 at *
    split
    · omega
    · split <;> omega
  have hrq' : (if 2 * (n * 2 ^ K % d) > d then n * 2 ^ K / d + 1
      else if (2 * (n * 2 ^ K % d) == d) = true then n * 2 ^ K / d + n * 2 ^ K / d % 2 else n * 2 ^ K / d)
      = rq (n * 2 ^ K) d := rfl
  rw [hrq']
  generalize rq (n * 2 ^ K) d = Q at hrq
  have hb : ¬ ((1075 - (K : Int) - 1) * (F64.p52 : Int) + (Q : Int) ≥ ((2047 * F64.p52 : Nat) : Int)) := by
    unfold F64.p52 F64.p53 at *
    omega
  rw [if_neg hb]
  congr 1
  simp only [Bool.false_eq_true, ↓reduceIte]
  unfold F64.p52 F64.p53 at *
  omega

/-- **What `roundRat` computes** for a ratio `1 ≤ n/d < 2^52` whose scaling exponent is `K`
(`2^52 ≤ n·2^K/d < 2^53`): the bit pattern with biased exponent `1075 − K` and significand the
ratio scaled by `2^K`, rounded to nearest even (a carry out of the significand increments the
exponent). -/
theorem roundRat_eq (n d K : Nat) (hd : 0 < d) (hK1 : 1 ≤ K) (hK2 : K ≤ 52)
    (hlo : F64.p52 * d ≤ n * 2 ^ K) (hhi : n * 2 ^ K < F64.p53 * d) :
    F64.roundRat false n d = ⟨(1074 - K) * F64.p52 + rq (n * 2 ^ K) d⟩ := by
  have hn : 0 < n := by
    rcases Nat.eq_zero_or_pos n with h | h
    · subst h; unfold F64.p52 at hlo; simp at hlo; omega
    · exact h
  have hn0 : n ≠ 0 := by omega
  have hd0 : d ≠ 0 := by omega
  -- n/d ∈ [1, 2^52)
  have hdn : d ≤ n := by
    -- n·2^K < 2^53·d and K ≤ 52 …  from the lower bracket: 2^52·d ≤ n·2^K ≤ n·2^52
    have : n * 2 ^ K ≤ n * 2 ^ 52 := Nat.mul_le_mul_left n (Nat.pow_le_pow_right (by decide) hK2)
    have h2 : F64.p52 * d ≤ n * 2 ^ 52 := Nat.le_trans hlo this
    unfold F64.p52 at h2
    have : (2:Nat) ^ 52 = 4503599627370496 := by decide
    rw [this] at h2
    omega
  have hnd : n < d * 2 ^ 52 := by
    have : n * 2 ^ 1 ≤ n * 2 ^ K := Nat.mul_le_mul_left n (Nat.pow_le_pow_right (by decide) hK1)
    have h2 : n * 2 ^ 1 < F64.p53 * d := Nat.lt_of_le_of_lt this hhi
    unfold F64.p53 at h2
    have e : (2:Nat) ^ 52 = 4503599627370496 := by decide
    rw [e]
    omega
  -- the logarithms
  have ha1 : 2 ^ n.log2 ≤ n := Nat.log2_self_le hn0
  have ha2 : n < 2 ^ (n.log2 + 1) := Nat.lt_log2_self
  have hb1 : 2 ^ d.log2 ≤ d := Nat.log2_self_le hd0
  have hb2 : d < 2 ^ (d.log2 + 1) := Nat.lt_log2_self
  have hba : d.log2 ≤ n.log2 := by
    have : 2 ^ d.log2 < 2 ^ (n.log2 + 1) := by omega
    have := (Nat.pow_lt_pow_iff_right (by decide : 1 < 2)).mp this
    omega
  have hab : n.log2 ≤ d.log2 + 52 := by
    have h1 : d * 2 ^ 52 < 2 ^ (d.log2 + 1) * 2 ^ 52 := Nat.mul_lt_mul_of_lt_of_le hb2 (Nat.le_refl _) (two_pow_pos 52)
    rw [← Nat.pow_add] at h1
    have : 2 ^ n.log2 < 2 ^ (d.log2 + 1 + 52) := by omega
    have := (Nat.pow_lt_pow_iff_right (by decide : 1 < 2)).mp this
    omega
  -- first guess K0 = 52 + log2 d − log2 n
  obtain ⟨K0, hK0⟩ : ∃ K0 : Nat, K0 + n.log2 = 52 + d.log2 := ⟨52 + d.log2 - n.log2, by omega⟩
  have hk0 : (52 : Int) - ((F64.log2 n : Int) - (F64.log2 d : Int)) = (K0 : Int) := by
    unfold F64.log2; omega
  -- 2^51·d ≤ n·2^K0 < 2^53·d
  have hq0hi : n * 2 ^ K0 < F64.p53 * d := by
    have h1 : n * 2 ^ K0 < 2 ^ (n.log2 + 1) * 2 ^ K0 := Nat.mul_lt_mul_of_lt_of_le ha2 (Nat.le_refl _) (two_pow_pos K0)
    rw [← Nat.pow_add] at h1
    have e : n.log2 + 1 + K0 = 53 + d.log2 := by omega
    rw [e, Nat.pow_add] at h1
    have h2 : 2 ^ 53 * 2 ^ d.log2 ≤ 2 ^ 53 * d := Nat.mul_le_mul_left _ hb1
    have e53 : (2:Nat) ^ 53 = F64.p53 := by decide
    rw [e53] at h1 h2
    omega
  have hq0lo : 2 ^ 51 * d ≤ n * 2 ^ K0 := by
    have h1 : 2 ^ n.log2 * 2 ^ K0 ≤ n * 2 ^ K0 := Nat.mul_le_mul_right _ ha1
    rw [← Nat.pow_add] at h1
    have e : n.log2 + K0 = 51 + (d.log2 + 1) := by omega
    rw [e, Nat.pow_add] at h1
    have h2 : 2 ^ 51 * d ≤ 2 ^ 51 * 2 ^ (d.log2 + 1) := Nat.mul_le_mul_left _ (Nat.le_of_lt hb2)
    omega
  unfold F64.roundRat
  have hn0' : (n == 0) = false := by simp [hn0]
  have hd0' : (d == 0) = false := by simp [hd0]
  simp only [hn0', hd0', Bool.false_eq_true, ↓reduceIte]
  rw [hk0]
  have hkn : ((K0 : Int) ≥ 0) := Int.natCast_nonneg K0
  simp only [hkn, ↓reduceIte, Int.toNat_natCast]
  have hq0a : n * 2 ^ K0 / d < F64.p53 := (Nat.div_lt_iff_lt_mul hd).mpr hq0hi
  have hq0b : ¬ (n * 2 ^ K0 / d ≥ F64.p53) := by omega
  simp only [hq0b, ↓reduceIte]
  by_cases hlt : n * 2 ^ K0 / d < F64.p52
  · -- one more bit: K = K0 + 1
    simp only [hlt, ↓reduceIte]
    have hlt' : n * 2 ^ K0 < F64.p52 * d := (Nat.div_lt_iff_lt_mul hd).mp hlt
    have e2 : n * 2 ^ (K0 + 1) = 2 * (n * 2 ^ K0) := by
      rw [Nat.pow_succ, ← Nat.mul_assoc, Nat.mul_comm]
    have b1 : F64.p52 * d ≤ n * 2 ^ (K0 + 1) := by
      rw [e2]
      have : (2:Nat) ^ 51 * d * 2 = F64.p52 * d := by
        have : (2:Nat)^51 = 2251799813685248 := by decide
        rw [this]; unfold F64.p52; omega
      omega
    have b2 : n * 2 ^ (K0 + 1) < F64.p53 * d := by
      rw [e2]; unfold F64.p52 at hlt'; unfold F64.p53; omega
    have hKK : K = K0 + 1 := bracket_unique n d K (K0 + 1) hlo hhi b1 b2
    have hk1 : ((K0 : Int) + 1) = ((K0 + 1 : Nat) : Int) := by omega
    rw [hk1, ← hKK]
    have hcl : ¬ ((K : Int) > 1074) := by omega
    simp only [hcl, ↓reduceIte]
    exact roundRat_finish n d K hd hK2 hlo hhi
  · simp only [hlt, ↓reduceIte]
    have b1 : F64.p52 * d ≤ n * 2 ^ K0 := by
      have : F64.p52 ≤ n * 2 ^ K0 / d := by omega
      exact (Nat.le_div_iff_mul_le hd).mp this
    have hKK : K = K0 := bracket_unique n d K K0 hlo hhi b1 hq0hi
    rw [← hKK]
    have hcl : ¬ ((K : Int) > 1074) := by omega
    simp only [hcl, ↓reduceIte]
    exact roundRat_finish n d K hd hK2 hlo hhi

/-! ### decoding the result -/

/-- a positive normal value `M / 2^E` with `2^52 ≤ M < 2^53` -/
structure IsNorm (x : F64) (M E : Nat) : Prop where
  sign : x.sign = false
  bexp0 : x.bexp ≠ 0
  bexpF : x.bexp ≠ 2047
  mant : x.mant = M
  expo : x.expo = -(E : Int)
  lo : F64.p52 ≤ M
  hi : M < F64.p53

theorem IsNorm.notNaN {x M E} (h : IsNorm x M E) : x.isNaN = false := by
  unfold F64.isNaN; simp [h.bexpF]
theorem IsNorm.notInf {x M E} (h : IsNorm x M E) : x.isInf = false := by
  unfold F64.isInf; simp [h.bexpF]
theorem IsNorm.notZero {x M E} (h : IsNorm x M E) : x.isZero = false := by
  unfold F64.isZero; simp [h.bexp0]
theorem IsNorm.finite {x M E} (h : IsNorm x M E) : x.isFinite = true := by
  unfold F64.isFinite; simp [h.bexpF]

/-- fields of the bit pattern `e·2^52 + f` -/
theorem fields (e f : Nat) (he : e < 2048) (hf : f < F64.p52) :
    (⟨e * F64.p52 + f⟩ : F64).sign = false ∧ (⟨e * F64.p52 + f⟩ : F64).bexp = e ∧
    (⟨e * F64.p52 + f⟩ : F64).frac = f := by
  unfold F64.sign F64.bexp F64.frac F64.p63 F64.p52 at *
  simp only []
  refine ⟨?_, ?_, ?_⟩
  · have : (e * 4503599627370496 + f) / 9223372036854775808 = 0 := by omega
    simp [this]
  · omega
  · omega

/-- decoding of `roundRat`'s result: the value is `Q / 2^K` -/
theorem decode (K Q : Nat) (hK1 : 1 ≤ K) (hK2 : K ≤ 52) (hQ1 : F64.p52 ≤ Q) (hQ2 : Q ≤ F64.p53) :
    ∃ M E, IsNorm ⟨(1074 - K) * F64.p52 + Q⟩ M E ∧ E ≤ 52 ∧ M * 2 ^ K = Q * 2 ^ E ∧
      (Q < F64.p53 → M = Q ∧ E = K) := by
  by_cases hc : Q = F64.p53
  · -- carry into the exponent
    subst hc
    have e1 : (1074 - K) * F64.p52 + F64.p53 = (1076 - K) * F64.p52 + 0 := by
      unfold F64.p52 F64.p53; omega
    rw [e1]
    obtain ⟨f1, f2, f3⟩ := fields (1076 - K) 0 (by omega) (by unfold F64.p52; omega)
    refine ⟨F64.p52, K - 1, ⟨f1, by rw [f2]; omega, by rw [f2]; omega, ?_, ?_, Nat.le_refl _, by unfold F64.p52 F64.p53; omega⟩,
      by omega, ?_, ?_⟩
    · unfold F64.mant; rw [f2, f3]
      have : ((1076 - K) == 0) = false := by simp; omega
      simp [this]
    · unfold F64.expo; rw [f2]
      have : ((1076 - K) == 0) = false := by simp; omega
      simp only [this, Bool.false_eq_true, ↓reduceIte]; omega
    · have : K = (K - 1) + 1 := by omega
      rw [this, Nat.pow_succ]
      simp only [Nat.add_sub_cancel]
      unfold F64.p52 F64.p53
      rw [← Nat.mul_assoc, Nat.mul_comm (4503599627370496 * 2 ^ (K - 1)) 2, ← Nat.mul_assoc]
    · intro h; exact absurd h (Nat.lt_irrefl _)
  · have hQ3 : Q < F64.p53 := by omega
    have e1 : (1074 - K) * F64.p52 + Q = (1075 - K) * F64.p52 + (Q - F64.p52) := by
      unfold F64.p52 at *; omega
    rw [e1]
    obtain ⟨f1, f2, f3⟩ := fields (1075 - K) (Q - F64.p52) (by omega) (by unfold F64.p52 F64.p53 at *; omega)
    refine ⟨Q, K, ⟨f1, by rw [f2]; omega, by rw [f2]; omega, ?_, ?_, hQ1, hQ3⟩, hK2, rfl, fun _ => ⟨rfl, rfl⟩⟩
    · unfold F64.mant; rw [f2, f3]
      have : ((1075 - K) == 0) = false := by simp; omega
      simp only [this, Bool.false_eq_true, ↓reduceIte]; omega
    · unfold F64.expo; rw [f2]
      have : ((1075 - K) == 0) = false := by simp; omega
      simp only [this, Bool.false_eq_true, ↓reduceIte]; omega

/-- `int64(x)` of a positive normal value below 2^53 -/
theorem toInt64_norm (x : F64) (M E : Nat) (h : IsNorm x M E) (hE : E ≤ 52) :
    F64.toInt64 x = ((M / 2 ^ E : Nat) : Int) := by
  unfold F64.toInt64
  rw [h.finite]
  simp only [Bool.not_true, Bool.false_eq_true, ↓reduceIte]
  have ht : x.truncInt = ((M / 2 ^ E : Nat) : Int) := by
    unfold F64.truncInt
    simp only [h.mant, h.expo, h.sign, Bool.false_eq_true, ↓reduceIte]
    by_cases h0 : E = 0
    · subst h0; simp
    · have : ¬ (-(E : Int) ≥ 0) := by omega
      simp only [this, ↓reduceIte, Int.neg_neg, Int.toNat_natCast]
      rw [Int.natCast_ediv]; simp
  rw [ht]
  have hle : M / 2 ^ E ≤ M := Nat.div_le_self _ _
  have hM := h.hi
  unfold F64.p53 at hM
  generalize M / 2 ^ E = T at hle ⊢
  have : (minInt64 ≤ (T : Int) ∧ (T : Int) ≤ maxInt64) := by
    unfold minInt64 maxInt64; omega
  simp only [this, and_self, ↓reduceIte]

/-! ### existence of the scaling exponent -/

theorem bracket_exists (n d : Nat) (hd : 0 < d) (hdn : d ≤ n) (hnd : n < d * 2 ^ 52) :
    ∃ K, 1 ≤ K ∧ K ≤ 52 ∧ F64.p52 * d ≤ n * 2 ^ K ∧ n * 2 ^ K < F64.p53 * d := by
  have hn0 : n ≠ 0 := by omega
  have hd0 : d ≠ 0 := by omega
  have e52 : (2:Nat) ^ 52 = F64.p52 := by decide
  have ha1 : 2 ^ n.log2 ≤ n := Nat.log2_self_le hn0
  have ha2 : n < 2 ^ (n.log2 + 1) := Nat.lt_log2_self
  have hb1 : 2 ^ d.log2 ≤ d := Nat.log2_self_le hd0
  have hb2 : d < 2 ^ (d.log2 + 1) := Nat.lt_log2_self
  have hba : d.log2 ≤ n.log2 := by
    have : 2 ^ d.log2 < 2 ^ (n.log2 + 1) := by omega
    have := (Nat.pow_lt_pow_iff_right (by decide : 1 < 2)).mp this
    omega
  have hab : n.log2 ≤ d.log2 + 52 := by
    have h1 : d * 2 ^ 52 < 2 ^ (d.log2 + 1) * 2 ^ 52 := Nat.mul_lt_mul_of_lt_of_le hb2 (Nat.le_refl _) (two_pow_pos 52)
    rw [← Nat.pow_add] at h1
    have : 2 ^ n.log2 < 2 ^ (d.log2 + 1 + 52) := by omega
    have := (Nat.pow_lt_pow_iff_right (by decide : 1 < 2)).mp this
    omega
  obtain ⟨K0, hK0⟩ : ∃ K0 : Nat, K0 + n.log2 = 52 + d.log2 := ⟨52 + d.log2 - n.log2, by omega⟩
  have hq0hi : n * 2 ^ K0 < F64.p53 * d := by
    have h1 : n * 2 ^ K0 < 2 ^ (n.log2 + 1) * 2 ^ K0 := Nat.mul_lt_mul_of_lt_of_le ha2 (Nat.le_refl _) (two_pow_pos K0)
    rw [← Nat.pow_add] at h1
    have e : n.log2 + 1 + K0 = 53 + d.log2 := by omega
    rw [e, Nat.pow_add] at h1
    have h2 : 2 ^ 53 * 2 ^ d.log2 ≤ 2 ^ 53 * d := Nat.mul_le_mul_left _ hb1
    have e53 : (2:Nat) ^ 53 = F64.p53 := by decide
    rw [e53] at h1 h2
    omega
  have hq0lo : 2 ^ 51 * d ≤ n * 2 ^ K0 := by
    have h1 : 2 ^ n.log2 * 2 ^ K0 ≤ n * 2 ^ K0 := Nat.mul_le_mul_right _ ha1
    rw [← Nat.pow_add] at h1
    have e : n.log2 + K0 = 51 + (d.log2 + 1) := by omega
    rw [e, Nat.pow_add] at h1
    have h2 : 2 ^ 51 * d ≤ 2 ^ 51 * 2 ^ (d.log2 + 1) := Nat.mul_le_mul_left _ (Nat.le_of_lt hb2)
    omega
  have e51 : (2:Nat)^51 = 2251799813685248 := by decide
  by_cases hlt : n * 2 ^ K0 < F64.p52 * d
  · refine ⟨K0 + 1, by omega, ?_, ?_, ?_⟩
    · -- K0 = 52 would give n·2^52 < 2^52·d, i.e. n < d
      rcases Nat.lt_or_ge K0 52 with h | h
      · omega
      · exfalso
        have : n * 2 ^ 52 ≤ n * 2 ^ K0 := Nat.mul_le_mul_left n (Nat.pow_le_pow_right (by decide) h)
        rw [e52] at this
        have h3 : n * F64.p52 < F64.p52 * d := by omega
        rw [Nat.mul_comm] at h3
        exact absurd (Nat.lt_of_mul_lt_mul_left h3) (by omega)
    · have e2 : n * 2 ^ (K0 + 1) = 2 * (n * 2 ^ K0) := by
        rw [Nat.pow_succ, ← Nat.mul_assoc, Nat.mul_comm]
      rw [e2]; rw [e51] at hq0lo; unfold F64.p52; omega
    · have e2 : n * 2 ^ (K0 + 1) = 2 * (n * 2 ^ K0) := by
        rw [Nat.pow_succ, ← Nat.mul_assoc, Nat.mul_comm]
      rw [e2]; unfold F64.p52 at hlt; unfold F64.p53; omega
  · refine ⟨K0, ?_, by omega, by omega, hq0hi⟩
    -- K0 = 0 would give 2^52·d ≤ n
    rcases Nat.eq_zero_or_pos K0 with h | h
    · exfalso
      subst h
      simp only [Nat.pow_zero, Nat.mul_one] at hlt
      rw [e52] at hnd
      rw [Nat.mul_comm] at hnd
      omega
    · exact h

/-! ### the operations on positive normal values -/

theorem ofNat_one : IsNorm (F64.ofNat 1) F64.p52 52 := by
  have e : F64.ofNat 1 = ⟨4607182418800017408⟩ := by decide +kernel
  rw [e]
  constructor <;> decide +kernel

/-- `float64(j)` for `1 ≤ j < 2^52` is exact: `j = (j·2^K) / 2^K`. -/
theorem ofInt_norm (j : Int) (h1 : 1 ≤ j) (h2 : j < 4503599627370496) :
    ∃ K, 1 ≤ K ∧ K ≤ 52 ∧ IsNorm (F64.ofInt j) (j.toNat * 2 ^ K) K := by
  obtain ⟨K, hK1, hK2, hlo, hhi⟩ := bracket_exists j.toNat 1 (by decide) (by omega)
    (by have : (2:Nat)^52 = 4503599627370496 := by decide
        rw [this]; omega)
  refine ⟨K, hK1, hK2, ?_⟩
  unfold F64.ofInt
  have hneg : decide (j < 0) = false := by simp; omega
  have habs : j.natAbs = j.toNat := by omega
  rw [hneg, habs, roundRat_eq j.toNat 1 K (by decide) hK1 hK2 hlo hhi]
  have hrq : rq (j.toNat * 2 ^ K) 1 = j.toNat * 2 ^ K := by
    unfold rq; simp [Nat.mod_one]
  rw [hrq]
  simp only [Nat.mul_one] at hlo hhi
  obtain ⟨M, E, hN, _, _, hME⟩ := decode K (j.toNat * 2 ^ K) hK1 hK2 hlo (Nat.le_of_lt hhi)
  obtain ⟨eM, eE⟩ := hME hhi
  rw [eM, eE] at hN
  exact hN

/-- `x * y` of positive normal values: the exact product rounded -/
theorem mul_norm (x y : F64) (Mx Ex My Ey : Nat) (hx : IsNorm x Mx Ex) (hy : IsNorm y My Ey)
    (hE : 1 ≤ Ex + Ey) : F64.mul x y = F64.roundRat false (Mx * My) (2 ^ (Ex + Ey)) := by
  unfold F64.mul
  simp only [hx.notNaN, hy.notNaN, hx.notInf, hy.notInf, hx.notZero, hy.notZero, hx.sign, hy.sign,
    Bool.or_self, Bool.false_eq_true, ↓reduceIte, bne_self_eq_false, hx.mant, hy.mant, hx.expo, hy.expo]
  unfold F64.ofScaled
  have hneg : ¬ (-(Ex : Int) + -(Ey : Int) ≥ 0) := by omega
  simp only [hneg, ↓reduceIte]
  congr 2
  omega

/-- `x / y` of positive normal values: the exact quotient rounded -/
theorem div_norm (x y : F64) (Mx Ex My Ey : Nat) (hx : IsNorm x Mx Ex) (hy : IsNorm y My Ey) :
    F64.div x y = if Ex ≤ Ey then F64.roundRat false (Mx * 2 ^ (Ey - Ex)) My
                  else F64.roundRat false Mx (My * 2 ^ (Ex - Ey)) := by
  unfold F64.div
  simp only [hx.notNaN, hy.notNaN, hx.notInf, hy.notInf, hx.notZero, hy.notZero, hx.sign, hy.sign,
    Bool.or_self, Bool.false_eq_true, ↓reduceIte, bne_self_eq_false, hx.mant, hy.mant, hx.expo, hy.expo]
  by_cases h : Ex ≤ Ey
  · have : (-(Ex : Int) - -(Ey : Int) ≥ 0) := by omega
    simp only [this, h, ↓reduceIte]
    congr 3
    omega
  · have : ¬ (-(Ex : Int) - -(Ey : Int) ≥ 0) := by omega
    simp only [this, h, ↓reduceIte]
    congr 3
    omega

/-- `1 + y` for a positive normal `y ≥ 2^0` scaled by at most 2^52 -/
theorem add_one_norm (y : F64) (My Ey : Nat) (hy : IsNorm y My Ey) (hE : Ey ≤ 52) :
    F64.add (F64.ofNat 1) y = F64.roundRat false (F64.p52 + My * 2 ^ (52 - Ey)) (2 ^ 52) := by
  have hx := ofNat_one
  unfold F64.add
  simp only [hx.notNaN, hy.notNaN, hx.notInf, hy.notInf, hx.sign, hy.sign,
    Bool.or_self, Bool.false_eq_true, ↓reduceIte, hx.mant, hy.mant, hx.expo, hy.expo]
  have hmin : min (-((52 : Nat) : Int)) (-(Ey : Int)) = -((52 : Nat) : Int) := by omega
  rw [hmin]
  have e1 : (-((52 : Nat) : Int) - -((52 : Nat) : Int)).toNat = 0 := by omega
  have e2 : (-(Ey : Int) - -((52 : Nat) : Int)).toNat = 52 - Ey := by omega
  rw [e1, e2]
  simp only [Int.pow_zero, Int.mul_one]
  have hpos : (0 : Int) < (F64.p52 : Int) + (My : Int) * 2 ^ (52 - Ey) := by
    have h1 : (0 : Int) ≤ (My : Int) * 2 ^ (52 - Ey) :=
      Int.mul_nonneg (Int.natCast_nonneg _) (Int.le_of_lt (Int.pow_pos (by decide)))
    have : (0:Int) < (F64.p52 : Int) := by unfold F64.p52; decide
    omega
  have hne : ((F64.p52 : Int) + (My : Int) * 2 ^ (52 - Ey) == 0) = false := by
    simp; omega
  simp only [hne, Bool.false_eq_true, ↓reduceIte]
  unfold F64.ofScaled
  have hneg : ¬ (-((52 : Nat) : Int) ≥ 0) := by omega
  have hlt : decide ((F64.p52 : Int) + (My : Int) * 2 ^ (52 - Ey) < 0) = false := by simp; omega
  simp only [hneg, ↓reduceIte, hlt]
  have e3 : (- -((52 : Nat) : Int)).toNat = 52 := by omega
  have e4 : ((F64.p52 : Int) + (My : Int) * 2 ^ (52 - Ey)).natAbs = F64.p52 + My * 2 ^ (52 - Ey) := by
    have : ((F64.p52 : Int) + (My : Int) * 2 ^ (52 - Ey)) = ((F64.p52 + My * 2 ^ (52 - Ey) : Nat) : Int) := by
      simp
    rw [this, Int.natAbs_natCast]
  rw [e3, e4]

/-! ### `int(x)` after rounding, in integer arithmetic -/

theorem even_succ_div (q K : Nat) (hq : q % 2 = 0) (hK : 1 ≤ K) : (q + 1) / 2 ^ K = q / 2 ^ K := by
  have e : 2 ^ K = 2 * 2 ^ (K - 1) := by
    have : K = (K - 1) + 1 := by omega
    rw [this, Nat.pow_succ, Nat.mul_comm]; simp
  rw [e, ← Nat.div_div_eq_div_mul, ← Nat.div_div_eq_div_mul]
  have : (q + 1) / 2 = q / 2 := by omega
  rw [this]

/-- nearest-even rounding followed by truncation to a multiple of `2^K` is the floor of the
ratio plus half a unit -/
theorem rq_div (N d K : Nat) (hd : 0 < d) (hK : 1 ≤ K) :
    rq N d / 2 ^ K = (2 * N + d) / (2 * d * 2 ^ K) := by
  have hN := Nat.div_add_mod N d
  have hr := Nat.mod_lt N hd
  generalize N / d = q at hN
  generalize N % d = r at hN hr
  have e1 : 2 * N + d = 2 * d * q + (2 * r + d) := by
    rw [← hN, Nat.mul_add, Nat.mul_assoc]; omega
  have h2d : 0 < 2 * d := by omega
  rw [← Nat.div_div_eq_div_mul, e1, Nat.mul_add_div h2d]
  have hq' : N / d = q := by
    rw [← hN, Nat.mul_add_div hd, Nat.div_eq_of_lt hr]; rfl
  have hr' : N % d = r := by
    rw [← hN, Nat.mul_add_mod]; exact Nat.mod_eq_of_lt hr
  unfold rq
  rw [hq', hr']
  by_cases h1 : 2 * r > d
  · have : (2 * r + d) / (2 * d) = 1 := by
      apply Nat.div_eq_of_lt_le <;> omega
    simp only [h1, ↓reduceIte, this]
  · by_cases h2 : 2 * r = d
    · have : (2 * r + d) / (2 * d) = 1 := by
        apply Nat.div_eq_of_lt_le <;> omega
      have hb : (2 * r == d) = true := by simp [h2]
      simp only [h1, ↓reduceIte, hb, this]
      rcases Nat.mod_two_eq_zero_or_one q with hq | hq
      · rw [hq, Nat.add_zero, even_succ_div q K hq hK]
      · rw [hq]
    · have : (2 * r + d) / (2 * d) = 0 := Nat.div_eq_of_lt (by omega)
      have hb : (2 * r == d) = false := by simp [h2]
      simp only [h1, ↓reduceIte, hb, this, Bool.false_eq_true, Nat.add_zero]

theorem rq_bounds (N d : Nat) (hd : 0 < d) (hlo : F64.p52 * d ≤ N) (hhi : N < F64.p53 * d) :
    F64.p52 ≤ rq N d ∧ rq N d ≤ F64.p53 := by
  have hq1 : F64.p52 ≤ N / d := (Nat.le_div_iff_mul_le hd).mpr hlo
  have hq2 : N / d < F64.p53 := (Nat.div_lt_iff_lt_mul hd).mpr hhi
  unfold rq
  split
  · omega
  · split <;> omega

/-- **`int64(roundRat n d)`** for a ratio in `[1, 2^52)` with scaling exponent `K`:
`⌊n/d + 2^-(K+1)⌋`. -/
theorem toInt64_roundRat (n d K : Nat) (hd : 0 < d) (hK1 : 1 ≤ K) (hK2 : K ≤ 52)
    (hlo : F64.p52 * d ≤ n * 2 ^ K) (hhi : n * 2 ^ K < F64.p53 * d) :
    F64.toInt64 (F64.roundRat false n d) = (((2 * (n * 2 ^ K) + d) / (2 * d * 2 ^ K) : Nat) : Int) := by
  rw [roundRat_eq n d K hd hK1 hK2 hlo hhi]
  obtain ⟨hb1, hb2⟩ := rq_bounds (n * 2 ^ K) d hd hlo hhi
  obtain ⟨M, E, hN, hE, hME, _⟩ := decode K (rq (n * 2 ^ K) d) hK1 hK2 hb1 hb2
  rw [toInt64_norm _ M E hN hE, ← rq_div (n * 2 ^ K) d K hd hK1]
  congr 1
  -- M / 2^E = Q / 2^K from M·2^K = Q·2^E
  have hpK : 0 < 2 ^ K := two_pow_pos K
  have hpE : 0 < 2 ^ E := two_pow_pos E
  calc M / 2 ^ E = (M * 2 ^ K) / (2 ^ E * 2 ^ K) := by rw [Nat.mul_div_mul_right _ _ hpK]
    _ = (rq (n * 2 ^ K) d * 2 ^ E) / (2 ^ E * 2 ^ K) := by rw [hME]
    _ = (2 ^ E * rq (n * 2 ^ K) d) / (2 ^ E * 2 ^ K) := by rw [Nat.mul_comm]
    _ = rq (n * 2 ^ K) d / 2 ^ K := Nat.mul_div_mul_left _ _ hpE

/-- the rounded quotient is within half a unit of the exact one -/
theorem rq_err (N d : Nat) (hd : 0 < d) :
    2 * (rq N d * d) ≤ 2 * N + d ∧ 2 * N ≤ 2 * (rq N d * d) + d := by
  have hN := Nat.div_add_mod N d
  have hr := Nat.mod_lt N hd
  unfold rq
  generalize N / d = q at *
  generalize N % d = r at *
  have hqd : d * q = q * d := Nat.mul_comm _ _
  split
  · rw [Nat.add_mul, Nat.one_mul]; omega
  · split
    · rename_i h1 h2
      have h2' : 2 * r = d := by simpa using h2
      rw [Nat.add_mul]
      rcases Nat.mod_two_eq_zero_or_one q with hq | hq <;> rw [hq] <;> omega
    · rename_i h1 h2
      have h2' : ¬ 2 * r = d := by simpa using h2
      omega

/-- `⌊X / 2^E + 2^-(K+1)⌋` -/
def TT (X E K : Nat) : Nat := (2 * (X * 2 ^ K) + 2 ^ E) / (2 * 2 ^ E * 2 ^ K)

/-- `K` is the scaling exponent of `X / 2^E` -/
def Bracket (X E K : Nat) : Prop := F64.p52 * 2 ^ E ≤ X * 2 ^ K ∧ X * 2 ^ K < F64.p53 * 2 ^ E

/-- **`int(float64(j) * s)`** for a positive normal `s = M / 2^E` and `1 ≤ j`, `j·s < 2^52`. -/
theorem toInt64_mul_ofInt (s : F64) (M E : Nat) (hs : IsNorm s M E) (hE : E ≤ 52)
    (j : Int) (hj1 : 1 ≤ j) (hj2 : j < 4503599627370496) (hx : j.toNat * M < 2 ^ E * 2 ^ 52) :
    ∃ K, 1 ≤ K ∧ K ≤ 52 ∧ Bracket (j.toNat * M) E K ∧
      F64.toInt64 (F64.mul (F64.ofInt j) s) = ((TT (j.toNat * M) E K : Nat) : Int) := by
  have hpE : 0 < 2 ^ E := two_pow_pos E
  have hge : 2 ^ E ≤ j.toNat * M := by
    have h1 : 2 ^ E ≤ 2 ^ 52 := Nat.pow_le_pow_right (by decide) hE
    have h2 : (2:Nat) ^ 52 = F64.p52 := by decide
    have h3 := hs.lo
    have h4 : 1 * M ≤ j.toNat * M := Nat.mul_le_mul_right M (by omega)
    omega
  obtain ⟨K, hK1, hK2, hlo, hhi⟩ := bracket_exists (j.toNat * M) (2 ^ E) hpE hge hx
  refine ⟨K, hK1, hK2, ⟨hlo, hhi⟩, ?_⟩
  obtain ⟨Kj, hKj1, hKj2, hNj⟩ := ofInt_norm j hj1 hj2
  rw [mul_norm _ _ _ _ _ _ hNj hs (by omega)]
  have hpKj : 0 < 2 ^ Kj := two_pow_pos Kj
  have en : j.toNat * 2 ^ Kj * M * 2 ^ K = 2 ^ Kj * (j.toNat * M * 2 ^ K) := by ac_rfl
  have ed : (2:Nat) ^ (Kj + E) = 2 ^ Kj * 2 ^ E := Nat.pow_add 2 Kj E
  rw [toInt64_roundRat (j.toNat * 2 ^ Kj * M) (2 ^ (Kj + E)) K (two_pow_pos _) hK1 hK2
    (by rw [en, ed]
        have : F64.p52 * (2 ^ Kj * 2 ^ E) = 2 ^ Kj * (F64.p52 * 2 ^ E) := by ac_rfl
        rw [this]; exact Nat.mul_le_mul_left _ hlo)
    (by rw [en, ed]
        have : F64.p53 * (2 ^ Kj * 2 ^ E) = 2 ^ Kj * (F64.p53 * 2 ^ E) := by ac_rfl
        rw [this]; exact Nat.mul_lt_mul_of_pos_left hhi hpKj)]
  congr 1
  unfold TT
  rw [en, ed]
  have e1 : 2 * (2 ^ Kj * (j.toNat * M * 2 ^ K)) + 2 ^ Kj * 2 ^ E
      = 2 ^ Kj * (2 * (j.toNat * M * 2 ^ K) + 2 ^ E) := by
    rw [Nat.mul_add]; congr 1; ac_rfl
  have e2 : 2 * (2 ^ Kj * 2 ^ E) * 2 ^ K = 2 ^ Kj * (2 * 2 ^ E * 2 ^ K) := by ac_rfl
  rw [e1, e2, Nat.mul_div_mul_left _ _ hpKj]

/-- a larger value has a smaller (or equal) scaling exponent -/
theorem bracket_antitone (X X' E K K' : Nat) (hb : Bracket X E K) (hb' : Bracket X' E K')
    (hle : X ≤ X') : K' ≤ K := by
  rcases Nat.lt_or_ge K K' with h | h
  · exfalso
    have hpow : 2 ^ (K + 1) ≤ 2 ^ K' := Nat.pow_le_pow_right (by decide) h
    have h1 : X * 2 ^ (K + 1) ≤ X' * 2 ^ K' := Nat.mul_le_mul hle hpow
    have e : X * 2 ^ (K + 1) = 2 * (X * 2 ^ K) := by rw [Nat.pow_succ]; ac_rfl
    rw [e] at h1
    obtain ⟨a, _⟩ := hb
    obtain ⟨_, b⟩ := hb'
    unfold F64.p52 F64.p53 at *
    omega
  · exact h

/-- **Consecutive bucket boundaries differ by at least one**: if `X' / 2^E ≥ X / 2^E + 1` then
`⌊fl(X'/2^E)⌋ ≥ ⌊fl(X/2^E)⌋ + 1` — the half-unit added by the rounding is not smaller for the
larger value. -/
theorem TT_step (X X' E K K' : Nat) (hb : Bracket X E K) (hb' : Bracket X' E K')
    (hstep : X + 2 ^ E ≤ X') : TT X E K + 1 ≤ TT X' E K' := by
  have hKK : K' ≤ K := bracket_antitone X X' E K K' hb hb' (Nat.le_trans (Nat.le_add_right _ _) hstep)
  obtain ⟨w, hw⟩ : ∃ w, 2 ^ K = 2 ^ K' * w := ⟨2 ^ (K - K'), by rw [← Nat.pow_add]; congr 1; omega⟩
  have hw1 : 1 ≤ w := by
    rcases Nat.eq_zero_or_pos w with h | h
    · subst h; have := two_pow_pos K; omega
    · exact h
  have ha : 0 < 2 ^ K' := two_pow_pos K'
  have he : 0 < 2 ^ E := two_pow_pos E
  unfold TT
  generalize hB : (2 * (X * 2 ^ K) + 2 ^ E) / (2 * 2 ^ E * 2 ^ K) = B
  have h1 : B * (2 * 2 ^ E * 2 ^ K) ≤ 2 * (X * 2 ^ K) + 2 ^ E := by
    rw [← hB]; exact Nat.div_mul_le_self _ _
  have hpos : 0 < 2 * 2 ^ E * 2 ^ K' := Nat.mul_pos (Nat.mul_pos (by decide) he) ha
  rw [Nat.le_div_iff_mul_le hpos]
  apply Nat.le_of_mul_le_mul_right _ hw1
  rw [hw] at h1
  generalize 2 ^ K' = a at *
  generalize 2 ^ E = e at *
  -- atoms
  have e1 : B * (2 * e * (a * w)) = 2 * (B * (e * (a * w))) := by ac_rfl
  have e2 : 2 * (X * (a * w)) = 2 * (X * (a * w)) := rfl
  have e3 : (B + 1) * (2 * e * a) * w = 2 * (B * (e * (a * w))) + 2 * (e * (a * w)) := by
    rw [Nat.add_mul, Nat.add_mul, Nat.one_mul]; congr 1 <;> ac_rfl
  have e4 : (2 * (X' * a) + e) * w = 2 * (X' * (a * w)) + e * w := by
    rw [Nat.add_mul]; congr 1; ac_rfl
  have h2 : X * (a * w) + e * (a * w) ≤ X' * (a * w) := by
    rw [← Nat.add_mul]; exact Nat.mul_le_mul_right _ hstep
  have h3 : e ≤ e * w := Nat.le_mul_of_pos_right e hw1
  rw [e1] at h1
  rw [e3, e4]
  omega

/-- monotone: a larger value does not get a smaller boundary -/
theorem TT_mono (X X' E K K' : Nat) (hb : Bracket X E K) (hb' : Bracket X' E K')
    (hle : X ≤ X') : TT X E K ≤ TT X' E K' := by
  have hKK : K' ≤ K := bracket_antitone X X' E K K' hb hb' hle
  obtain ⟨w, hw⟩ : ∃ w, 2 ^ K = 2 ^ K' * w := ⟨2 ^ (K - K'), by rw [← Nat.pow_add]; congr 1; omega⟩
  have hw1 : 1 ≤ w := by
    rcases Nat.eq_zero_or_pos w with h | h
    · subst h; have := two_pow_pos K; omega
    · exact h
  have ha : 0 < 2 ^ K' := two_pow_pos K'
  have he : 0 < 2 ^ E := two_pow_pos E
  unfold TT
  generalize hB : (2 * (X * 2 ^ K) + 2 ^ E) / (2 * 2 ^ E * 2 ^ K) = B
  have h1 : B * (2 * 2 ^ E * 2 ^ K) ≤ 2 * (X * 2 ^ K) + 2 ^ E := by
    rw [← hB]; exact Nat.div_mul_le_self _ _
  have hpos : 0 < 2 * 2 ^ E * 2 ^ K' := Nat.mul_pos (Nat.mul_pos (by decide) he) ha
  rw [Nat.le_div_iff_mul_le hpos]
  apply Nat.le_of_mul_le_mul_right _ hw1
  rw [hw] at h1
  generalize 2 ^ K' = a at *
  generalize 2 ^ E = e at *
  have e1 : B * (2 * e * (a * w)) = 2 * (B * (e * (a * w))) := by ac_rfl
  have e3 : B * (2 * e * a) * w = 2 * (B * (e * (a * w))) := by ac_rfl
  have e4 : (2 * (X' * a) + e) * w = 2 * (X' * (a * w)) + e * w := by
    rw [Nat.add_mul]; congr 1; ac_rfl
  have h2 : X * (a * w) ≤ X' * (a * w) := Nat.mul_le_mul_right _ hle
  have h3 : e ≤ e * w := Nat.le_mul_of_pos_right e hw1
  rw [e1] at h1
  rw [e3, e4]
  omega

/-- lower bound: the boundary is at least the floor of the exact value -/
theorem TT_ge_floor (X E K : Nat) : X / 2 ^ E ≤ TT X E K := by
  unfold TT
  have hK : 0 < 2 ^ K := two_pow_pos K
  have he : 0 < 2 ^ E := two_pow_pos E
  have e1 : X / 2 ^ E = (2 * (X * 2 ^ K)) / (2 * 2 ^ E * 2 ^ K) := by
    have : 2 * (X * 2 ^ K) = (2 * 2 ^ K) * X := by ac_rfl
    rw [this]
    have : 2 * 2 ^ E * 2 ^ K = (2 * 2 ^ K) * 2 ^ E := by ac_rfl
    rw [this, Nat.mul_div_mul_left _ _ (by omega)]
  rw [e1]
  exact Nat.div_le_div_right (by omega)

end Vegeta.Proofs.Rounding
