/-
Invariants of the interleaving models of the targeters (C15).
-/
import Vegeta.Model.TargeterConc
namespace Vegeta.Proofs.TargeterConc
open Vegeta.Go
open Vegeta.Model.TargeterConc

/-! ### lists -/

theorem split_at {α} (l : List α) (c : Nat) (x : α) (h : l[c]? = some x) :
    l = l.take c ++ x :: l.drop (c + 1) ∧ ∀ y, l.set c y = l.take c ++ y :: l.drop (c + 1) := by
  have hlt : c < l.length := by
    rcases Nat.lt_or_ge c l.length with h1 | h1
    · exact h1
    · rw [List.getElem?_eq_none h1] at h; cases h
  have hx : l[c] = x := by
    rw [List.getElem?_eq_getElem hlt] at h; cases h; rfl
  constructor
  · have := List.take_append_drop c l
    rw [List.drop_eq_getElem_cons hlt, hx] at this
    exact this.symm
  · intro y
    rw [List.set_eq_take_append_cons_drop]; simp [hlt]

/-! ### stream targeters -/

section stream
variable {S R T : Type}

/-- items the callers hold between lock and return -/
def heldOf (loc : List (Local R)) : List R :=
  loc.filterMap fun
    | .holding r => some r
    | .idle => none

/-- results handed to callers (targets and decode errors), in completion order -/
def delivered (log : List (Ev T)) : List (Outcome T) :=
  log.filterMap fun
    | .result _ o => some o
    | .exhausted _ => none

/-- callers that were told `ErrNoTargets`, in order -/
def exhaustedCallers (log : List (Ev T)) : List Nat :=
  log.filterMap fun
    | .exhausted c => some c
    | .result _ _ => none

theorem heldOf_replicate (n : Nat) : heldOf (List.replicate n (Local.idle : Local R)) = [] := by
  induction n with
  | zero => rfl
  | succ n ih => simp [List.replicate_succ, heldOf] at ih ⊢

theorem held_lock (loc : List (Local R)) (c : Nat) (r : R) (h : loc[c]? = some .idle) :
    (heldOf (loc.set c (.holding r))).Perm (r :: heldOf loc) := by
  obtain ⟨h1, h2⟩ := split_at loc c _ h
  rw [h2 (.holding r)]
  conv => rhs; rw [h1]
  simp only [heldOf, List.filterMap_append, List.filterMap_cons]
  exact List.perm_middle

theorem held_finish (loc : List (Local R)) (c : Nat) (r : R) (h : loc[c]? = some (.holding r)) :
    (heldOf loc).Perm (r :: heldOf (loc.set c .idle)) := by
  obtain ⟨h1, h2⟩ := split_at loc c _ h
  rw [h2 .idle]
  conv => lhs; rw [h1]
  simp only [heldOf, List.filterMap_append, List.filterMap_cons]
  exact List.perm_middle

/-- the items a source delivers when popped until it reports exhaustion -/
inductive Drains (sys : Sys S R T) : S → List R → Prop where
  | done {s : S} : (sys.pop s).1 = none → Drains sys s []
  | more {s s' : S} {r : R} {rs : List R} : sys.pop s = (some r, s') → Drains sys s' rs → Drains sys s (r :: rs)

/-- once exhausted, always exhausted -/
def Stable (sys : Sys S R T) : Prop := ∀ s s', sys.pop s = (none, s') → (sys.pop s').1 = none

/-- every item popped so far has been delivered or is held by a caller; the rest is still
in the source, in order -/
def Inv (sys : Sys S R T) (all : List R) (st : St S R T) : Prop :=
  ∃ taken rest, all = taken ++ rest ∧ Drains sys st.src rest ∧
    (delivered st.log ++ (heldOf st.loc).map sys.dec).Perm (taken.map sys.dec)

theorem inv_init (sys : Sys S R T) (src : S) (all : List R) (callers : Nat) (h : Drains sys src all) :
    Inv sys all (init src callers) :=
  ⟨[], all, rfl, h, by simp [init, delivered, heldOf_replicate]⟩

theorem inv_step (sys : Sys S R T) (stable : Stable sys) (all : List R) (st st' : St S R T) (l : Label)
    (inv : Inv sys all st) (hs : step sys st l = some st') : Inv sys all st' := by
  obtain ⟨taken, rest, h1, h2, h3⟩ := inv
  cases l with
  | lock c =>
    simp only [step] at hs
    split at hs
    · rename_i hidle
      split at hs
      · -- exhausted
        rename_i src' hpop
        cases hs
        cases h2 with
        | done _ =>
          refine ⟨taken, [], h1, Drains.done (stable _ _ hpop), ?_⟩
          simpa [delivered, List.filterMap_append] using h3
        | more hp _ => rw [hp] at hpop; cases hpop
      · rename_i r src' hpop
        cases hs
        cases h2 with
        | done hn => rw [hpop] at hn; cases hn
        | more hp hd =>
          rw [hp] at hpop; cases hpop
          refine ⟨taken ++ [r], _, by simp [h1], hd, ?_⟩
          simp only [List.map_append, List.map_cons, List.map_nil]
          have hh := (held_lock st.loc c r hidle).map sys.dec
          refine List.Perm.trans (List.Perm.append_left _ hh) ?_
          simp only [List.map_cons]
          refine List.Perm.trans List.perm_middle ?_
          exact List.Perm.trans (List.Perm.cons _ h3) (List.perm_append_singleton _ _).symm
    · cases hs
  | finish c =>
    simp only [step] at hs
    split at hs
    · rename_i r hhold
      cases hs
      refine ⟨taken, rest, h1, h2, ?_⟩
      simp only [delivered, List.filterMap_append, List.filterMap_cons, List.filterMap_nil]
      have hh := (held_finish st.loc c r hhold).map sys.dec
      simp only [List.map_cons] at hh
      refine List.Perm.trans ?_ h3
      simp only [List.append_assoc, List.singleton_append]
      exact List.Perm.append_left _ hh.symm
    · cases hs

theorem inv_run (sys : Sys S R T) (stable : Stable sys) (all : List R) :
    ∀ (tr : List Label) (st st' : St S R T), Inv sys all st → run sys st tr = some st' → Inv sys all st' := by
  intro tr
  induction tr with
  | nil => intro st st' inv h; simp [run] at h; subst h; exact inv
  | cons l ls ih =>
    intro st st' inv h
    simp only [run] at h
    split at h
    · rename_i s1 hs; exact ih s1 st' (inv_step sys stable all st s1 l inv hs) h
    · cases h

/-- at an exhausted source a `lock` step only tells its caller `ErrNoTargets` -/
theorem exhausted_step (sys : Sys S R T) (stable : Stable sys) (st st' : St S R T) (l : Label)
    (hex : (sys.pop st.src).1 = none) (hs : step sys st l = some st') :
    (sys.pop st'.src).1 = none ∧
    exhaustedCallers st'.log = exhaustedCallers st.log ++ (match l with | .lock c => [c] | .finish _ => []) ∧
    (heldOf st'.loc).length + (delivered st'.log).length = (heldOf st.loc).length + (delivered st.log).length := by
  cases l with
  | lock c =>
    simp only [step] at hs
    split at hs
    · split at hs
      · rename_i src' hpop
        cases hs
        exact ⟨stable _ _ hpop, by simp [exhaustedCallers, List.filterMap_append], by simp [delivered, List.filterMap_append]⟩
      · rename_i r src' hpop
        rw [hpop] at hex; cases hex
    · cases hs
  | finish c =>
    simp only [step] at hs
    split at hs
    · rename_i r hhold
      cases hs
      refine ⟨hex, by simp [exhaustedCallers, List.filterMap_append], ?_⟩
      have := (held_finish st.loc c r hhold).length_eq
      simp only [List.length_cons] at this
      simp [delivered, List.filterMap_append]; omega
    · cases hs

def lockCallers : List Label → List Nat
  | [] => []
  | .lock c :: r => c :: lockCallers r
  | .finish _ :: r => lockCallers r

theorem exhausted_run (sys : Sys S R T) (stable : Stable sys) :
    ∀ (tr : List Label) (st st' : St S R T), (sys.pop st.src).1 = none → run sys st tr = some st' →
      (sys.pop st'.src).1 = none ∧
      exhaustedCallers st'.log = exhaustedCallers st.log ++ lockCallers tr ∧
      (heldOf st'.loc).length + (delivered st'.log).length = (heldOf st.loc).length + (delivered st.log).length := by
  intro tr
  induction tr with
  | nil => intro st st' hex h; simp [run] at h; subst h; exact ⟨hex, by simp [lockCallers], rfl⟩
  | cons l ls ih =>
    intro st st' hex h
    simp only [run] at h
    split at h
    · rename_i s1 hs
      obtain ⟨e1, e2, e3⟩ := exhausted_step sys stable st s1 l hex hs
      obtain ⟨f1, f2, f3⟩ := ih s1 st' e1 h
      refine ⟨f1, ?_, by omega⟩
      rw [f2, e2]
      cases l <;> simp [lockCallers]
    · cases h

end stream


/-! ### static targeter -/

theorem sindex_nat (k i : Nat) (hk : 0 < k) : sindex k (i : Int) = .ok (i % k) := by
  unfold sindex
  have : ¬ k = 0 := by omega
  simp only [this, ↓reduceIte]
  have h : Int.tmod (i : Int) (k : Int) = ((i % k : Nat) : Int) := (Int.ofNat_tmod i k).symm
  rw [h]
  have h2 : ¬ (((i % k : Nat) : Int) < 0) := by omega
  simp only [h2, ↓reduceIte, Int.toNat_natCast]

theorem count_mod (k : Nat) (hk : 0 < k) (j : Nat) (hj : j < k) : ∀ (n q r : Nat), r < k → n = k * q + r →
    ((List.range n).filter (fun i => i % k == j)).length = q + if j < r then 1 else 0 := by
  intro n
  induction n with
  | zero =>
    intro q r hr h
    have hr0 : r = 0 := by omega
    have hq : q = 0 := by
      cases q with
      | zero => rfl
      | succ q' => rw [Nat.mul_succ] at h; omega
    subst hr0; subst hq; simp
  | succ n ih =>
    intro q r hr h
    rw [List.range_succ, List.filter_append, List.length_append]
    cases r with
    | zero =>
      -- n + 1 = k * q, so q = q' + 1 and n = k * q' + (k - 1)
      cases q with
      | zero => simp at h
      | succ q' =>
        rw [Nat.mul_succ] at h
        have hn : n = k * q' + (k - 1) := by omega
        have := ih q' (k - 1) (by omega) hn
        rw [this]
        have hmod : n % k = k - 1 := by rw [hn, Nat.mul_add_mod]; exact Nat.mod_eq_of_lt (by omega)
        simp only [List.filter_cons, List.filter_nil, hmod]
        by_cases hjk : j < k - 1
        · have : ¬ (k - 1 = j) := by omega
          simp [hjk, this]
        · have : k - 1 = j := by omega
          simp [this]
    | succ r' =>
      have hn : n = k * q + r' := by omega
      have := ih q r' (by omega) hn
      rw [this]
      have hmod : n % k = r' := by rw [hn, Nat.mul_add_mod]; exact Nat.mod_eq_of_lt (by omega)
      simp only [List.filter_cons, List.filter_nil, hmod]
      by_cases hjr : j < r'
      · have h1 : j < r' + 1 := by omega
        have h2 : ¬ (r' = j) := by omega
        simp [hjr, h1, h2]
      · by_cases hje : r' = j
        · have h1 : j < r' + 1 := by omega
          simp [hje]
        · have h1 : ¬ j < r' + 1 := by omega
          simp [hjr, h1, hje]

/-- the counting lemma of strict rotation: among the draw numbers `0 … n-1`, target `j` of `k`
is hit `⌊n/k⌋` times, plus once more when `j < n mod k` -/
theorem count_rotation (k : Nat) (hk : 0 < k) (j : Nat) (hj : j < k) (n : Nat) :
    ((List.range n).filter (fun i => i % k == j)).length = n / k + if j < n % k then 1 else 0 :=
  count_mod k hk j hj n (n / k) (n % k) (Nat.mod_lt _ hk) (Nat.div_add_mod n k).symm

def pendingOf (loc : List (Option Int)) : List Int := loc.filterMap id

def addCount : List SLabel → Nat
  | [] => 0
  | .add _ :: r => addCount r + 1
  | .finish _ :: r => addCount r

theorem pendingOf_replicate (n : Nat) : pendingOf (List.replicate n none) = [] := by
  induction n with
  | zero => rfl
  | succ n ih => simp [List.replicate_succ, pendingOf] at ih ⊢

theorem pending_add (loc : List (Option Int)) (c : Nat) (v : Int) (h : loc[c]? = some none) :
    (pendingOf (loc.set c (some v))).Perm (v :: pendingOf loc) := by
  obtain ⟨h1, h2⟩ := split_at loc c _ h
  rw [h2 (some v)]
  conv => rhs; rw [h1]
  simp only [pendingOf, List.filterMap_append, List.filterMap_cons, id]
  exact List.perm_middle

theorem pending_finish (loc : List (Option Int)) (c : Nat) (v : Int) (h : loc[c]? = some (some v)) :
    (pendingOf loc).Perm (v :: pendingOf (loc.set c none)) := by
  obtain ⟨h1, h2⟩ := split_at loc c _ h
  rw [h2 none]
  conv => lhs; rw [h1]
  simp only [pendingOf, List.filterMap_append, List.filterMap_cons, id]
  exact List.perm_middle

/-- after `a` atomic adds: the counter is `a - 1` and the values handed out — still pending or
already turned into an index — are exactly `0 … a-1` -/
structure SInv (k a : Nat) (s : SSt) : Prop where
  counter : s.counter = (a : Int) - 1
  perm : ((pendingOf s.loc).map (sindex k) ++ s.log.map (·.2)).Perm ((List.range a).map fun (i : Nat) => sindex k (i : Int))

theorem sinv_init (k callers : Nat) : SInv k 0 (sinit callers) :=
  ⟨by simp [sinit], by simp [sinit, pendingOf_replicate]⟩

theorem sinv_step (k a : Nat) (s s' : SSt) (l : SLabel) (inv : SInv k a s) (hs : sstep k s l = some s') :
    match l with
    | .add _ => (a + 1 : Nat) < two63 → SInv k (a + 1) s'
    | .finish _ => SInv k a s' := by
  cases l with
  | add c =>
    intro hlt
    simp only [sstep] at hs
    split at hs
    · rename_i hnone
      cases hs
      have hv : wrapS64 (s.counter + 1) = (a : Int) := by
        rw [inv.counter]
        have : ((a : Int) - 1 + 1) = (a : Int) := by omega
        rw [this]
        apply wrapS64_id
        unfold inS64 minInt64 maxInt64
        unfold two63 at hlt
        omega
      refine ⟨by simp [hv], ?_⟩
      simp only [hv]
      rw [List.range_succ, List.map_append, List.map_cons, List.map_nil]
      have hp := (pending_add s.loc c (a : Int) hnone).map (sindex k)
      refine List.Perm.trans (List.Perm.append_right _ hp) ?_
      simp only [List.map_cons, List.cons_append]
      exact List.Perm.trans (List.Perm.cons _ inv.perm) (List.perm_append_singleton _ _).symm
    · cases hs
  | finish c =>
    simp only [sstep] at hs
    split at hs
    · rename_i v hsome
      cases hs
      refine ⟨inv.counter, ?_⟩
      have hp := (pending_finish s.loc c v hsome).map (sindex k)
      simp only [List.map_cons] at hp
      refine List.Perm.trans ?_ inv.perm
      simp only [List.map_append, List.map_cons, List.map_nil]
      refine List.Perm.trans ?_ (List.Perm.append_right _ hp.symm)
      simp only [List.cons_append]
      rw [← List.append_assoc]
      exact List.perm_append_singleton _ _
    · cases hs

theorem sinv_run (k : Nat) : ∀ (tr : List SLabel) (a : Nat) (s s' : SSt), SInv k a s → srun k s tr = some s' →
    a + addCount tr < two63 → SInv k (a + addCount tr) s' := by
  intro tr
  induction tr with
  | nil => intro a s s' inv h _; simp [srun] at h; subst h; simpa [addCount] using inv
  | cons l ls ih =>
    intro a s s' inv h hlt
    simp only [srun] at h
    split at h
    · rename_i s1 hs
      have hstep := sinv_step k a s s1 l inv hs
      cases l with
      | add c =>
        simp only [addCount] at hlt ⊢
        have := ih (a + 1) s1 s' (hstep (by omega)) h (by omega)
        rw [show a + (addCount ls + 1) = a + 1 + addCount ls by omega]; exact this
      | finish c =>
        simp only [addCount] at hlt ⊢
        exact ih a s1 s' hstep h hlt
    · cases h

end Vegeta.Proofs.TargeterConc
