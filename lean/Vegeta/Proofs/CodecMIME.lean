/-
`ReadMIMEHeader ∘ Header.Write = id` on the header maps that lib/results.go's CSV codec can carry
(model: Vegeta/Model/CodecMIME.lean), and the `headerEqual` facts needed to state the CSV
round trip up to the key order.
-/
import Vegeta.Model.CodecResult
namespace Vegeta.Proofs.Codec
open Vegeta.Go Vegeta.Model.Codec

/-- a header value as net/http yields it: no control bytes (so no TAB, CR, LF, DEL), no leading or trailing blank -/
def ReprValue (v : Bytes) : Prop :=
  (∀ c ∈ v, (32 ≤ c ∧ c ≤ 126) ∨ 128 ≤ c) ∧ v.head? ≠ some 32 ∧ v.getLast? ≠ some 32

/-- a canonical header key: a non-empty token in canonical MIME form -/
def ReprKey (k : Bytes) : Prop := validFieldName k = true ∧ canonKeyGo true k = k

/-- the header maps of the CSV round-trip domain: canonical keys, pairwise distinct, each with at least one
value, all values representable -/
def ReprHeaders (h : Header) : Prop :=
  (h.map (·.1)).Nodup ∧ ∀ kv ∈ h, ReprKey kv.1 ∧ kv.2 ≠ [] ∧ ∀ v ∈ kv.2, ReprValue v

/-! ### bytes -/

theorem tok_facts {c : Nat} (h : isTokenByte c = true) :
    c ≠ 58 ∧ c ≠ 32 ∧ c ≠ 9 ∧ c ≠ 10 ∧ c ≠ 13 := by
  simp [isTokenByte] at h; omega

theorem val_facts {c : Nat} (h : (32 ≤ c ∧ c ≤ 126) ∨ 128 ≤ c) :
    c ≠ 9 ∧ c ≠ 10 ∧ c ≠ 13 ∧ validValueByte c = true := by
  refine ⟨by omega, by omega, by omega, ?_⟩
  simp [validValueByte]; omega

/-- the input does not start with a blank (and is not empty) -/
def NB (s : Bytes) : Prop := ∃ c r, s = c :: r ∧ isBlank c = false

theorem ReprKey.tok {k : Bytes} (hk : ReprKey k) : ∀ c ∈ k, isTokenByte c = true := by
  have := hk.1
  simp [validFieldName] at this
  exact this.2

theorem ReprKey.ne_nil {k : Bytes} (hk : ReprKey k) : k ≠ [] := by
  have := hk.1
  simp [validFieldName] at this
  exact this.1

theorem ReprKey.nb {k : Bytes} (hk : ReprKey k) (x : Bytes) : NB (k ++ x) := by
  cases k with
  | nil => exact absurd rfl hk.ne_nil
  | cons c k' =>
    refine ⟨c, k' ++ x, rfl, ?_⟩
    have := tok_facts (hk.tok c (by simp))
    simp [isBlank]; omega

theorem dropWhileEnd_concat (p : Nat → Bool) (l : Bytes) (x : Nat) (hx : p x = false) :
    dropWhileEnd p (l ++ [x]) = l ++ [x] := by
  simp [dropWhileEnd, hx]

theorem dropWhile_head (p : Nat → Bool) (l : Bytes) (h : ∀ c, l.head? = some c → p c = false) :
    l.dropWhile p = l := by
  cases l with
  | nil => rfl
  | cons c l => simp [List.dropWhile, h c rfl]

theorem dropWhileEnd_last (p : Nat → Bool) (l : Bytes) (h : ∀ c, l.getLast? = some c → p c = false) :
    dropWhileEnd p l = l := by
  rcases List.eq_nil_or_concat l with rfl | ⟨l', b, rfl⟩
  · rfl
  · rw [List.concat_eq_append] at h ⊢
    exact dropWhileEnd_concat p l' b (h b (by simp))

/-! ### values and keys -/

theorem ReprValue.head {v : Bytes} (hv : ReprValue v) (c : Nat) (hc : v.head? = some c) :
    isAsciiSpace c = false ∧ isBlank c = false := by
  have hm : c ∈ v := by
    cases v with
    | nil => simp at hc
    | cons a v => simp at hc; simp [hc]
  have h1 := val_facts (hv.1 c hm)
  have h2 : c ≠ 32 := fun h => hv.2.1 (h ▸ hc)
  simp [isAsciiSpace, isBlank]; omega

theorem ReprValue.last {v : Bytes} (hv : ReprValue v) (c : Nat) (hc : v.getLast? = some c) :
    isAsciiSpace c = false ∧ isBlank c = false := by
  have hm : c ∈ v := List.mem_of_getLast? hc
  have h1 := val_facts (hv.1 c hm)
  have h2 : c ≠ 32 := fun h => hv.2.2 (h ▸ hc)
  simp [isAsciiSpace, isBlank]; omega

theorem nlToSpace_repr {v : Bytes} (hv : ReprValue v) : nlToSpace v = v := by
  unfold nlToSpace
  conv => rhs; rw [← List.map_id v]
  apply List.map_congr_left
  intro c hc
  have := val_facts (hv.1 c hc)
  simp; omega

theorem trimString_repr {v : Bytes} (hv : ReprValue v) : trimString v = v := by
  unfold trimString
  rw [dropWhile_head _ _ (fun c hc => (hv.head c hc).1),
      dropWhileEnd_last _ _ (fun c hc => (hv.last c hc).1)]

theorem writeKV_repr {k : Bytes} (hk : ReprKey k) (vs : List Bytes) (hvs : ∀ v ∈ vs, ReprValue v) :
    writeKV (k, vs) = vs.flatMap (fun v => k ++ [58, 32] ++ v ++ [13, 10]) := by
  simp only [writeKV, hk.1, if_true]
  induction vs with
  | nil => rfl
  | cons v vs ih =>
    simp only [List.flatMap_cons]
    rw [ih (fun v hv => hvs v (by simp [hv])), nlToSpace_repr (hvs v (by simp)),
      trimString_repr (hvs v (by simp))]

theorem canonKey_repr {k : Bytes} (hk : ReprKey k) : canonKey k = some k := by
  have hne := hk.ne_nil
  have ht := hk.tok
  have h1 : k.isEmpty = false := by cases k <;> simp_all
  have h2 : k.all (fun c => isTokenByte c || c == 32) = true := by
    simp only [List.all_eq_true]; intro c hc; simp [ht c hc]
  have h3 : k.any (· == 32) = false := by
    simp only [List.any_eq_false]; intro c hc
    have := tok_facts (ht c hc); simp; omega
  simp [canonKey, h1, h2, h3, hk.2]

/-! ### reading one line -/

theorem readLine_crlf (l r : Bytes) (h : ∀ c ∈ l, c ≠ 10) :
    readLine (l ++ 13 :: 10 :: r) = some (l, r) := by
  have hp : ∀ a ∈ l, (a != 10) = true := by intro a ha; simp [h a ha]
  have ht : (l ++ 13 :: 10 :: r).takeWhile (· != 10) = l ++ [13] := by
    rw [List.takeWhile_append_of_pos hp]; simp [List.takeWhile]
  have hd : (l ++ 13 :: 10 :: r).dropWhile (· != 10) = 10 :: r := by
    rw [List.dropWhile_append_of_pos hp]; simp [List.dropWhile]
  have hcr : dropLastCR (l ++ [13]) = l := by simp [dropLastCR]
  unfold readLine
  cases l with
  | nil => simp [List.takeWhile, List.dropWhile, dropLastCR]
  | cons a l =>
    simp only [List.cons_append] at ht hd ⊢
    simp only [ht, hd]
    rw [← List.cons_append, hcr]

theorem readCont_nb (n : Nat) (acc s : Bytes) (h : NB s) : readCont n acc s = (acc, s) := by
  obtain ⟨c, r, rfl, hc⟩ := h
  cases n with
  | zero => rfl
  | succ n => simp [readCont, hc]

/-- the trimmed line splits into the key and the value preceded by its blank -/
theorem trimBlank_line {k v : Bytes} (hk : ReprKey k) (hv : ReprValue v) :
    ∃ v', trimBlank (k ++ 58 :: 32 :: v) = k ++ 58 :: v' ∧ v'.all validValueByte = true ∧
      v'.dropWhile isBlank = v := by
  obtain ⟨c, r, hcr, hc⟩ := hk.nb (58 :: 32 :: v)
  have h1 : (k ++ 58 :: 32 :: v).dropWhile isBlank = k ++ 58 :: 32 :: v := by
    rw [hcr]; simp [List.dropWhile, hc]
  unfold trimBlank
  rw [h1]
  rcases List.eq_nil_or_concat v with rfl | ⟨v0, b, rfl⟩
  · refine ⟨[], ?_, rfl, rfl⟩
    have : k ++ [58, 32] = (k ++ [58]) ++ [32] := by simp
    rw [this]
    simp [dropWhileEnd, List.dropWhile, isBlank]
  · rw [List.concat_eq_append] at hv ⊢
    refine ⟨32 :: (v0 ++ [b]), ?_, ?_, ?_⟩
    · have : k ++ 58 :: 32 :: (v0 ++ [b]) = (k ++ 58 :: 32 :: v0) ++ [b] := by simp
      rw [this]
      exact dropWhileEnd_concat _ _ _ (hv.last b (by simp)).2
    · simp only [List.all_cons, List.all_eq_true, Bool.and_eq_true]
      refine ⟨by decide, fun c hc => (val_facts (hv.1 c hc)).2.2.2⟩
    · have : isBlank 32 = true := by decide
      simp only [List.dropWhile, this]
      exact dropWhile_head _ _ (fun c hc => (hv.head c hc).2)

theorem split_key {k : Bytes} (hk : ReprKey k) (v' : Bytes) :
    (k ++ 58 :: v').takeWhile (· != 58) = k ∧
      ((k ++ 58 :: v').dropWhile (· != 58)).drop 1 = v' := by
  have hp : ∀ a ∈ k, (a != 58) = true := by
    intro a ha; have := tok_facts (hk.tok a ha); simp; omega
  rw [List.takeWhile_append_of_pos hp, List.dropWhile_append_of_pos hp]
  simp [List.takeWhile, List.dropWhile]

theorem readHeaderLoop_line (k v rest : Bytes) (m : Header) (f : Nat) (hk : ReprKey k)
    (hv : ReprValue v) (hr : NB rest) :
    readHeaderLoop (f + 1) (k ++ [58, 32] ++ v ++ [13, 10] ++ rest) m =
      readHeaderLoop f rest (headerAdd k v m) := by
  have hline : k ++ [58, 32] ++ v ++ [13, 10] ++ rest = (k ++ 58 :: 32 :: v) ++ 13 :: 10 :: rest := by
    simp
  have h10 : ∀ c ∈ k ++ 58 :: 32 :: v, c ≠ 10 := by
    intro c hc
    simp only [List.mem_append, List.mem_cons] at hc
    rcases hc with hc | hc | hc | hc
    · exact (tok_facts (hk.tok c hc)).2.2.2.1
    · omega
    · omega
    · exact (val_facts (hv.1 c hc)).2.1
  obtain ⟨v', ht, hall, hdrop⟩ := trimBlank_line hk hv
  obtain ⟨hs1, hs2⟩ := split_key hk v'
  have hE : (k ++ 58 :: 32 :: v).isEmpty = false := by cases k <;> simp
  have hA : (k ++ 58 :: 32 :: v).any (· == 58) = true := by simp
  rw [hline, readHeaderLoop, readLine_crlf _ _ h10]
  simp only [hE, hA, readCont_nb _ _ _ hr, ht, hs1, hs2, canonKey_repr hk, hall, hdrop]
  simp

/-! ### rebuilding the map -/

theorem headerAdd_new (k v : Bytes) (m : Header) (h : k ∉ m.map (·.1)) :
    headerAdd k v m = m ++ [(k, [v])] := by
  induction m with
  | nil => rfl
  | cons x m ih =>
    simp only [List.map_cons, List.mem_cons, not_or] at h
    simp [headerAdd, Ne.symm h.1, ih h.2]

theorem headerAdd_last (k v : Bytes) (ws : List Bytes) (m : Header) (h : k ∉ m.map (·.1)) :
    headerAdd k v (m ++ [(k, ws)]) = m ++ [(k, ws ++ [v])] := by
  induction m with
  | nil => simp [headerAdd]
  | cons x m ih =>
    simp only [List.map_cons, List.mem_cons, not_or] at h
    simp [headerAdd, Ne.symm h.1, ih h.2]

theorem foldl_headerAdd_last (k : Bytes) (m : Header) (h : k ∉ m.map (·.1)) (vs : List Bytes) :
    ∀ ws, vs.foldl (fun m v => headerAdd k v m) (m ++ [(k, ws)]) = m ++ [(k, ws ++ vs)] := by
  induction vs with
  | nil => simp
  | cons v vs ih =>
    intro ws
    simp only [List.foldl_cons, headerAdd_last k v ws m h, ih]
    simp

theorem foldl_headerAdd (k : Bytes) (m : Header) (h : k ∉ m.map (·.1)) (vs : List Bytes)
    (hne : vs ≠ []) : vs.foldl (fun m v => headerAdd k v m) m = m ++ [(k, vs)] := by
  cases vs with
  | nil => exact absurd rfl hne
  | cons v vs =>
    simp only [List.foldl_cons, headerAdd_new k v m h, foldl_headerAdd_last k m h vs]
    simp

/-! ### the loop -/

theorem readHeaderLoop_vals (k : Bytes) (hk : ReprKey k) (rest : Bytes) (hr : NB rest) :
    ∀ (vs : List Bytes) (m : Header) (f : Nat), (∀ v ∈ vs, ReprValue v) →
      readHeaderLoop (vs.length + f)
        (vs.flatMap (fun v => k ++ [58, 32] ++ v ++ [13, 10]) ++ rest) m =
      readHeaderLoop f rest (vs.foldl (fun m v => headerAdd k v m) m) := by
  intro vs
  induction vs with
  | nil => intro m f _; simp
  | cons v vs ih =>
    intro m f hvs
    have hnb : NB (vs.flatMap (fun v => k ++ [58, 32] ++ v ++ [13, 10]) ++ rest) := by
      cases vs with
      | nil => simpa using hr
      | cons w ws =>
        simp only [List.flatMap_cons, List.append_assoc]
        exact hk.nb _
    have hf : (v :: vs).length + f = (vs.length + f) + 1 := by simp; omega
    rw [hf, List.flatMap_cons, List.append_assoc,
      readHeaderLoop_line k v _ m _ hk (hvs v (by simp)) hnb,
      ih _ _ (fun w hw => hvs w (by simp [hw]))]
    rfl

def nLines (hs : Header) : Nat := (hs.map (·.2.length)).sum

theorem block_nb (hs : Header)
    (hall : ∀ kv ∈ hs, ReprKey kv.1 ∧ kv.2 ≠ [] ∧ ∀ v ∈ kv.2, ReprValue v) :
    NB (hs.flatMap writeKV ++ [13, 10]) := by
  cases hs with
  | nil => exact ⟨13, [10], rfl, by decide⟩
  | cons kv hs =>
    obtain ⟨k, vs⟩ := kv
    obtain ⟨hk, hne, hvs⟩ := hall (k, vs) (by simp)
    cases vs with
    | nil => exact absurd rfl hne
    | cons v vs =>
      rw [List.flatMap_cons, writeKV_repr hk _ hvs]
      simp only [List.flatMap_cons, List.append_assoc]
      exact hk.nb _

theorem readHeaderLoop_block (hs : Header) : ∀ (m : Header) (f : Nat),
    (∀ kv ∈ hs, ReprKey kv.1 ∧ kv.2 ≠ [] ∧ ∀ v ∈ kv.2, ReprValue v) →
    ((m ++ hs).map (·.1)).Nodup →
    readHeaderLoop (nLines hs + f + 1) (hs.flatMap writeKV ++ [13, 10]) m = .ok (m ++ hs) := by
  induction hs with
  | nil =>
    intro m f _ _
    simp [readHeaderLoop, readLine, dropLastCR, List.takeWhile, List.dropWhile]
  | cons kv hs ih =>
    intro m f hall hnd
    obtain ⟨k, vs⟩ := kv
    obtain ⟨hk, hne, hvs⟩ := hall (k, vs) (by simp)
    have hall' : ∀ kv ∈ hs, ReprKey kv.1 ∧ kv.2 ≠ [] ∧ ∀ v ∈ kv.2, ReprValue v :=
      fun kv h => hall kv (by simp [h])
    have hkm : k ∉ m.map (·.1) := by
      simp only [List.map_append, List.map_cons, List.nodup_append] at hnd
      intro hmem
      exact hnd.2.2 k hmem k (by simp) rfl
    have hf : nLines ((k, vs) :: hs) + f + 1 = vs.length + (nLines hs + f + 1) := by
      simp [nLines]; omega
    rw [hf, List.flatMap_cons, writeKV_repr hk _ hvs, List.append_assoc,
      readHeaderLoop_vals k hk _ (block_nb hs hall') vs m _ hvs,
      foldl_headerAdd k m hkm vs hne, ih _ _ hall' (by simpa using hnd)]
    simp

theorem length_le_lines (k : Bytes) (vs : List Bytes) :
    vs.length ≤ (vs.flatMap (fun v => k ++ [58, 32] ++ v ++ [13, 10])).length := by
  induction vs with
  | nil => simp
  | cons v vs ihv =>
    simp only [List.flatMap_cons, List.length_append, List.length_cons] at ihv ⊢; omega

theorem nLines_le (hs : Header)
    (hall : ∀ kv ∈ hs, ReprKey kv.1 ∧ kv.2 ≠ [] ∧ ∀ v ∈ kv.2, ReprValue v) :
    nLines hs ≤ (hs.flatMap writeKV).length := by
  induction hs with
  | nil => simp [nLines]
  | cons kv hs ih =>
    obtain ⟨k, vs⟩ := kv
    obtain ⟨hk, _, hvs⟩ := hall (k, vs) (by simp)
    have ih' := ih (fun kv h => hall kv (by simp [h]))
    have := length_le_lines k vs
    rw [List.flatMap_cons, writeKV_repr hk _ hvs, List.length_append]
    simp only [nLines, List.map_cons, List.sum_cons] at ih' ⊢
    omega

/-! ### `sortKV` is a permutation -/

theorem insertKV_perm (x : Bytes × List Bytes) (l : Header) : (insertKV x l).Perm (x :: l) := by
  induction l with
  | nil => exact List.Perm.refl _
  | cons y l ih =>
    simp only [insertKV]
    split
    · exact List.Perm.refl _
    · exact ((List.Perm.cons y ih).trans (List.Perm.swap x y l))

theorem sortKV_perm (h : Header) : (sortKV h).Perm h := by
  induction h with
  | nil => exact List.Perm.refl _
  | cons x h ih => exact (insertKV_perm x _).trans (List.Perm.cons x ih)

/-! ### main theorems -/

/-- **ReadMIMEHeader ∘ Header.Write = id** (up to the key order, which `Header.Write` sorts): reading the
block written for `h`, followed by the blank line that lib/results.go appends, gives `h` sorted by key -/
theorem readMIMEHeader_headerWrite (h : Header) (hr : ReprHeaders h) :
    readMIMEHeader (headerWrite h ++ [13, 10]) = .ok (sortKV h) := by
  have hp := sortKV_perm h
  have hall : ∀ kv ∈ sortKV h, ReprKey kv.1 ∧ kv.2 ≠ [] ∧ ∀ v ∈ kv.2, ReprValue v :=
    fun kv hkv => hr.2 kv (hp.mem_iff.1 hkv)
  have hnd : ((sortKV h).map (·.1)).Nodup := (hp.map (·.1)).nodup_iff.2 hr.1
  have hle := nLines_le _ hall
  obtain ⟨c, r, hcr, hc⟩ := block_nb _ hall
  unfold headerWrite
  have hlen : (List.flatMap writeKV (sortKV h) ++ [13, 10]).length + 1 =
      nLines (sortKV h) + ((List.flatMap writeKV (sortKV h)).length + 2 - nLines (sortKV h)) + 1 := by
    simp only [List.length_append, List.length_cons, List.length_nil]; omega
  have := readHeaderLoop_block (sortKV h) []
    ((List.flatMap writeKV (sortKV h)).length + 2 - nLines (sortKV h)) hall (by simpa using hnd)
  unfold readMIMEHeader
  rw [hcr] at hlen this ⊢
  simp only [hc]
  rw [hlen, this]
  simp

/-- the empty (non-nil) map: the block is just the blank line and reads back as the empty map -/
theorem readMIMEHeader_empty : readMIMEHeader [13, 10] = .ok [] := by decide

theorem headerGet_mem (h : Header) (hn : (h.map (·.1)).Nodup) (kv : Bytes × List Bytes)
    (hkv : kv ∈ h) : headerGet h kv.1 = kv.2 := by
  induction h with
  | nil => simp at hkv
  | cons x h ih =>
    simp only [List.map_cons, List.nodup_cons] at hn
    simp only [List.mem_cons] at hkv
    unfold headerGet
    rcases hkv with rfl | hkv
    · simp
    · have hne : x.1 ≠ kv.1 := by
        intro he
        exact hn.1 (he ▸ List.mem_map_of_mem hkv)
      have hb : (x.1 == kv.1) = false := by simp [hne]
      simp only [List.find?_cons, hb]
      exact ih hn.2 hkv

theorem headerEqual_of_perm (h1 h2 : Header) (hp : h1.Perm h2) (hn : (h2.map (·.1)).Nodup) :
    headerEqual (some h1) (some h2) = true := by
  simp only [headerEqual, Bool.and_eq_true, beq_iff_eq, List.all_eq_true]
  exact ⟨hp.length_eq, fun kv hkv => headerGet_mem h2 hn kv (hp.mem_iff.1 hkv)⟩

/-- sorting the association list does not change the map: `headerEqual` holds in both directions -/
theorem headerEqual_sortKV (h : Header) (hn : (h.map (·.1)).Nodup) :
    headerEqual (some (sortKV h)) (some h) = true ∧ headerEqual (some h) (some (sortKV h)) = true :=
  ⟨headerEqual_of_perm _ _ (sortKV_perm h) hn,
   headerEqual_of_perm _ _ (sortKV_perm h).symm (((sortKV_perm h).map (·.1)).nodup_iff.2 hn)⟩

/-- `headerEqual` is reflexive on maps with distinct keys -/
theorem headerEqual_refl (h : Header) (hn : (h.map (·.1)).Nodup) : headerEqual (some h) (some h) = true :=
  headerEqual_of_perm h h (List.Perm.refl _) hn

/-- the written block is never empty once the blank line is appended, and contains no byte that base64 would care about … (trivial) -/
theorem headerBytes_some_ne_nil (h : Header) : ∃ b, headerBytes (some h) = some b ∧ b ≠ [] :=
  ⟨_, rfl, by simp⟩

/-! ### non-vacuity -/

/-- `X-A: 1`, `X-A: b c`, `Content-Type: text/plain` -/
def exampleHeader : Header :=
  [([88, 45, 65], [[49], [98, 32, 99]]),
   ([67, 111, 110, 116, 101, 110, 116, 45, 84, 121, 112, 101], [[116, 101, 120, 116, 47, 112, 108, 97, 105, 110]])]

example : ReprHeaders exampleHeader := by
  unfold ReprHeaders ReprKey ReprValue exampleHeader
  decide

example : readMIMEHeader (headerWrite exampleHeader ++ [13, 10]) = .ok (sortKV exampleHeader) := by
  decide

example : sortKV exampleHeader = [exampleHeader[1], exampleHeader[0]] := by decide

end Vegeta.Proofs.Codec
