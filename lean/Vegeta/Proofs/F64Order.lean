/-
Order lemmas about `Vegeta.Go.F64.le` (core Lean only): on finite values `le` is the order of the
represented numbers (`le_fin`, via scaling to a common exponent), hence transitive, and comparing any
value — NaN and ±Inf included — against finite bounds is monotone in the bound (`le_mono_right`).
Used by Props/C20 (cumulative histogram buckets).
-/
import Vegeta.Go.SoftF64
namespace Vegeta.Proofs.F64Order
open Vegeta.Go Vegeta.Go.F64

/-- signed significand -/
def sm (x : F64) : Int := if x.sign then -(x.mant : Int) else (x.mant : Int)

/-- the finite value `x`, scaled by `2^(-E)` (an integer when `E ≤ x.expo`) -/
def sc (x : F64) (E : Int) : Int := sm x * 2 ^ (x.expo - E).toNat

theorem pow_pos' (k : Nat) : (0 : Int) < 2 ^ k := Int.pow_pos (by decide)

theorem sc_rescale (x : F64) (E m : Int) (h1 : E ≤ m) (h2 : m ≤ x.expo) :
    sc x E = sc x m * 2 ^ (m - E).toNat := by
  unfold sc
  have : (x.expo - E).toNat = (x.expo - m).toNat + (m - E).toNat := by omega
  rw [this, Int.pow_add, Int.mul_assoc]

theorem mul_le_iff (a b k : Int) (hk : 0 < k) : a ≤ b ↔ a * k ≤ b * k := by
  constructor
  · intro h; exact Int.mul_le_mul_of_nonneg_right h (Int.le_of_lt hk)
  · intro h; exact Int.le_of_mul_le_mul_right h hk

theorem le_fin (x y : F64) (hx : x.isFinite = true) (hy : y.isFinite = true) (E : Int)
    (h1 : E ≤ x.expo) (h2 : E ≤ y.expo) : F64.le x y = true ↔ sc x E ≤ sc y E := by
  have hx' : (x.bexp == 2047) = false := by simpa [isFinite] using hx
  have hy' : (y.bexp == 2047) = false := by simpa [isFinite] using hy
  have hm1 : min x.expo y.expo ≤ x.expo := Int.min_le_left _ _
  have hm2 : min x.expo y.expo ≤ y.expo := Int.min_le_right _ _
  have hE : E ≤ min x.expo y.expo := by omega
  rw [sc_rescale x E _ hE hm1, sc_rescale y E _ hE hm2, ← mul_le_iff _ _ _ (pow_pos' _)]
  simp only [F64.le, isNaN, isInf, hx', hy', Bool.false_and, Bool.or_self, Bool.false_eq_true, ↓reduceIte, cmpKey,
    sc, sm]
  constructor <;> intro h <;> (repeat' split at h) <;> (repeat' split) <;> simp_all [Int.neg_mul] <;> omega


theorem le_trans_fin (x a b : F64) (hx : x.isFinite = true) (ha : a.isFinite = true) (hb : b.isFinite = true)
    (h1 : F64.le x a = true) (h2 : F64.le a b = true) : F64.le x b = true := by
  have e1 : min x.expo (min a.expo b.expo) ≤ x.expo := Int.min_le_left _ _
  have e2 : min x.expo (min a.expo b.expo) ≤ a.expo := Int.le_trans (Int.min_le_right _ _) (Int.min_le_left _ _)
  have e3 : min x.expo (min a.expo b.expo) ≤ b.expo := Int.le_trans (Int.min_le_right _ _) (Int.min_le_right _ _)
  rw [le_fin x a hx ha _ e1 e2] at h1
  rw [le_fin a b ha hb _ e2 e3] at h2
  rw [le_fin x b hx hb _ e1 e3]
  exact Int.le_trans h1 h2

/-- `≤` against finite bounds is monotone in the bound, for every left operand (NaN and ±Inf included). -/
theorem le_mono_right (x a b : F64) (ha : a.isFinite = true) (hb : b.isFinite = true)
    (hab : F64.le a b = true) (h : F64.le x a = true) : F64.le x b = true := by
  by_cases hx : x.isFinite = true
  · exact le_trans_fin x a b hx ha hb h hab
  · have hx' : (x.bexp == 2047) = true := by simpa [isFinite] using hx
    have ha' : (a.bexp == 2047) = false := by simpa [isFinite] using ha
    have hb' : (b.bexp == 2047) = false := by simpa [isFinite] using hb
    simp only [F64.le, isNaN, isInf, hx', ha', hb', Bool.true_and, Bool.false_and, Bool.or_false] at h ⊢
    by_cases hf : (x.frac != 0) = true
    · simp [hf] at h
    · have hfz : x.frac = 0 := by simpa using hf
      simp [hfz] at h ⊢
      exact h

end Vegeta.Proofs.F64Order
