/-
The layers of the gob value codec (`Vegeta.Model.GobValue`), each read back by its decoder:
unsigned varints, zig-zag integers, length-prefixed bytes, `Time.MarshalBinary`, `[]string` and
`map[string][]string`.
-/
import Vegeta.Model.GobValue
import Vegeta.Proofs.GobFrame
namespace Vegeta.Proofs.Gob
open Vegeta.Go Vegeta.Model.Codec Vegeta.Model.GobFrame Vegeta.Model.GobValue Vegeta.Proofs.GobFrame

/-! ### unsigned and signed integers -/

/-- gob varint: decodeUint ∘ encodeUint = id on uint64, whatever follows -/
theorem decUint_encodeUint (n : Nat) (h : n < 2 ^ 64) (rest : Bytes) :
    decUint (encodeUint n ++ rest) = some (n, rest) := by
  unfold encodeUint
  split
  · rename_i hlt
    simp only [List.cons_append, List.nil_append, decUint]
    rw [if_pos (by omega)]
  · rename_i hge
    have h1 := beBytes_length_pos n (by omega)
    have h8 := beBytes_length_le n h
    simp only [List.cons_append, decUint]
    rw [if_neg (by omega)]
    have e : 256 - (256 - (beBytes n).length) = (beBytes n).length := by omega
    simp only [e]
    rw [if_neg (by simp; omega)]
    simp [beValue_beBytes]

/-- an encoded unsigned integer is never empty -/
theorem encodeUint_ne_nil (n : Nat) : encodeUint n ≠ [] := by
  unfold encodeUint
  split <;> simp

/-- zig-zag: decodeInt ∘ encodeInt = id on int64 -/
theorem decInt_gInt (i : Int) (h : inS64 i) (rest : Bytes) : decInt (gInt i ++ rest) = some (i, rest) := by
  unfold inS64 minInt64 maxInt64 at h
  unfold gInt decInt
  split
  · rename_i hneg
    rw [decUint_encodeUint _ (by omega)]
    simp only [Option.map_some]
    rw [if_pos (by omega)]
    congr 2
    omega
  · rename_i hpos
    rw [decUint_encodeUint _ (by omega)]
    simp only [Option.map_some]
    rw [if_neg (by omega)]
    congr 2
    omega

/-- strings and []byte: length prefix then the bytes (arbitrary byte values) -/
theorem decBytes_gBytes (b rest : Bytes) (h : b.length < 2 ^ 64) : decBytes (gBytes b ++ rest) = some (b, rest) := by
  unfold gBytes decBytes
  rw [List.append_assoc, decUint_encodeUint _ h]
  simp

/-! ### fixed-width big-endian fields -/

theorem beFixed_length : ∀ (w n : Nat), (beFixed w n).length = w := by
  intro w
  induction w with
  | zero => intro n; rfl
  | succ w ih => intro n; simp [beFixed, ih]

theorem beValue_beFixed : ∀ (w n : Nat), beValue (beFixed w n) = n % 256 ^ w := by
  intro w
  induction w with
  | zero => intro n; simp [beFixed, beValue, Nat.mod_one]
  | succ w ih =>
    intro n
    simp only [beFixed]
    rw [beValue_snoc, ih, Nat.pow_succ, Nat.mul_comm (256 ^ w) 256, Nat.mod_mul]
    omega

theorem beValue_beFixed8 (n : Nat) (h : n < 18446744073709551616) : beValue (beFixed 8 n) = n := by
  rw [beValue_beFixed]
  have : (256 : Nat) ^ 8 = 18446744073709551616 := by decide
  rw [this]; omega

theorem beValue_beFixed4 (n : Nat) (h : n < 4294967296) : beValue (beFixed 4 n) = n := by
  rw [beValue_beFixed]
  have : (256 : Nat) ^ 4 = 4294967296 := by decide
  rw [this]; omega

/-! ### `time.Time` -/

/-- `Time.MarshalBinary` succeeds exactly on acceptable zones and has 15 or 16 bytes -/
theorem timeBinary_utc (ts : Int) : ∃ b, timeBinary .utc ts = some b ∧ b.length = 15 := by
  refine ⟨_, rfl, ?_⟩
  simp [beFixed_length]

theorem timeBinary_fixed (off ts : Int)
    (hz : -32768 ≤ Int.tdiv off 60 ∧ Int.tdiv off 60 ≤ 32767 ∧ Int.tdiv off 60 ≠ -1) :
    ∃ b, timeBinary (.fixed off) ts = some b ∧ (b.length = 15 ∨ b.length = 16) := by
  simp only [timeBinary]
  rw [if_neg (by omega)]
  split
  · exact ⟨_, rfl, Or.inl (by simp [beFixed_length])⟩
  · exact ⟨_, rfl, Or.inr (by simp [beFixed_length])⟩

/-- what `UnmarshalBinary` reads from a well-shaped image -/
theorem decTimeBinary_shape (v : Nat) (A B Z : Bytes) (hA : A.length = 8) (hB : B.length = 4)
    (hv : (v = 1 ∧ Z.length = 2) ∨ (v = 2 ∧ Z.length = 3)) :
    decTimeBinary (v :: (A ++ (B ++ Z))) =
      some (((if beValue A ≥ 9223372036854775808 then (beValue A : Int) - 18446744073709551616
              else (beValue A : Int)) - unixToInternal) * 1000000000 + (beValue B : Int)) := by
  have hlen : (A ++ (B ++ Z)).length = 12 + Z.length := by simp; omega
  have ht : (A ++ (B ++ Z)).take 8 = A := by rw [← hA]; exact List.take_left' rfl
  have hd : ((A ++ (B ++ Z)).drop 8).take 4 = B := by
    rw [← hA, List.drop_left' rfl, ← hB]; exact List.take_left' rfl
  simp only [decTimeBinary]
  rw [if_pos (by omega), ht, hd]

/-- `UnmarshalBinary ∘ MarshalBinary` restores the instant, for every zone, whenever the seconds since
year 1 fit an int64 -/
theorem decTimeBinary_timeBinary (z : Zone) (ts : Int) (b : Bytes)
    (hs : -9223372036854775808 ≤ ts / 1000000000 + unixToInternal ∧ ts / 1000000000 + unixToInternal < 9223372036854775808)
    (h : timeBinary z ts = some b) : decTimeBinary b = some ts := by
  have key : ∀ (v : Nat) (Z : Bytes), ((v = 1 ∧ Z.length = 2) ∨ (v = 2 ∧ Z.length = 3)) →
      decTimeBinary (v :: (beFixed 8 ((ts / 1000000000 + unixToInternal) % 18446744073709551616).toNat ++
        (beFixed 4 (ts % 1000000000).toNat ++ Z))) = some ts := by
    intro v Z hv
    rw [decTimeBinary_shape v _ _ Z (beFixed_length _ _) (beFixed_length _ _) hv]
    rw [beValue_beFixed8 _ (by omega), beValue_beFixed4 _ (by omega)]
    unfold unixToInternal at hs ⊢
    congr 1
    split <;> omega
  unfold timeBinary at h
  cases z with
  | utc =>
    simp only [Option.some.injEq] at h
    subst h
    rw [List.append_assoc]
    exact key 1 _ (Or.inl ⟨rfl, rfl⟩)
  | fixed off =>
    simp only at h
    split at h
    · exact absurd h (by simp)
    · split at h
      · simp only [Option.some.injEq] at h
        subst h
        rw [List.append_assoc]
        exact key 1 _ (Or.inl ⟨rfl, beFixed_length _ _⟩)
      · simp only [Option.some.injEq] at h
        subst h
        simp only [List.append_assoc]
        exact key 2 _ (Or.inr ⟨rfl, by simp [beFixed_length]⟩)

/-! ### `[]string` and `map[string][]string` -/

theorem decStrings_flatMap (vs : List Bytes) (rest : Bytes) (hv : ∀ v ∈ vs, v.length < 2 ^ 64) :
    decStrings vs.length (vs.flatMap gBytes ++ rest) = some (vs, rest) := by
  induction vs with
  | nil => simp [decStrings]
  | cons v vs ih =>
    simp only [List.flatMap_cons, List.length_cons, List.append_assoc, decStrings]
    rw [decBytes_gBytes v _ (hv v (by simp))]
    simp only
    rw [ih (fun w hw => hv w (by simp [hw]))]
    simp

/-- []string -/
theorem decStringSlice_gStrings (vs : List Bytes) (rest : Bytes) (hn : vs.length < 2 ^ 64)
    (hv : ∀ v ∈ vs, v.length < 2 ^ 64) : decStringSlice (gStrings vs ++ rest) = some (vs, rest) := by
  unfold gStrings decStringSlice
  rw [List.append_assoc, decUint_encodeUint _ hn]
  exact decStrings_flatMap vs rest hv

theorem headerSet_fresh (k : Bytes) (vs : List Bytes) (m : Header) (h : k ∉ m.map (·.1)) :
    headerSet k vs m = m ++ [(k, vs)] := by
  induction m with
  | nil => rfl
  | cons x xs ih =>
    simp only [List.map_cons, List.mem_cons, not_or] at h
    simp only [headerSet]
    rw [if_neg (fun e => h.1 e.symm), ih h.2]
    rfl

theorem decEntries_flatMap (h : Header) (rest : Bytes) (m : Header)
    (hd : ((m ++ h).map (·.1)).Nodup)
    (hk : ∀ kv ∈ h, kv.1.length < 2 ^ 64 ∧ kv.2.length < 2 ^ 64 ∧ ∀ v ∈ kv.2, v.length < 2 ^ 64) :
    decEntries h.length (h.flatMap (fun kv => gBytes kv.1 ++ gStrings kv.2) ++ rest) m
      = some (m ++ h, rest) := by
  induction h generalizing m with
  | nil => simp [decEntries]
  | cons kv h ih =>
    obtain ⟨hk1, hk2, hk3⟩ := hk kv (by simp)
    simp only [List.flatMap_cons, List.length_cons, List.append_assoc, decEntries]
    rw [decBytes_gBytes kv.1 _ hk1]
    simp only
    rw [decStringSlice_gStrings kv.2 _ hk2 hk3]
    simp only
    have hfresh : kv.1 ∉ m.map (·.1) := by
      intro hmem
      rw [List.map_append, List.nodup_append] at hd
      exact hd.2.2 _ hmem kv.1 (by simp) rfl
    rw [headerSet_fresh _ _ _ hfresh]
    have := ih (m ++ [kv]) (by simpa [List.append_assoc] using hd) (fun x hx => hk x (by simp [hx]))
    rw [this]
    simp [List.append_assoc]

/-- map[string][]string with distinct keys, in the iteration order given by the list -/
theorem decHeader_gHeader (h : Header) (rest : Bytes) (hn : h.length < 2 ^ 64) (hd : (h.map (·.1)).Nodup)
    (hk : ∀ kv ∈ h, kv.1.length < 2 ^ 64 ∧ kv.2.length < 2 ^ 64 ∧ ∀ v ∈ kv.2, v.length < 2 ^ 64) :
    decHeader (gHeader h ++ rest) = some (h, rest) := by
  unfold gHeader decHeader
  rw [List.append_assoc, decUint_encodeUint _ hn]
  simp only
  rw [decEntries_flatMap h rest [] (by simpa using hd) hk]
  simp

/-! ### Sanity checks -/

example : gInt (-5) = [9] := by decide
example : gInt 0 = [0] := by decide
example : gInt 5 = [10] := by decide
example : encodeUint 300 = [254, 1, 44] := by decide
example : decInt [9] = some (-5, []) := by decide
example : decInt [0, 77] = some (0, [77]) := by decide
example : decUint [254, 1, 44, 7] = some (300, [7]) := by decide
example : decUint [254, 1] = none := by decide
example : decUint [247, 1, 2, 3, 4, 5, 6, 7, 8, 9] = none := by decide
example : gBytes [104, 105] = [2, 104, 105] := by decide
example : decBytes [2, 104, 105, 0] = some ([104, 105], [0]) := by decide
example : timeBinary .utc 1600000000000000123 = some [1,0,0,0,14,214,240,7,0,0,0,0,123,255,255] := by decide
example : timeBinary (.fixed 3630) 1600000000000000000 = some [2,0,0,0,14,214,240,7,0,0,0,0,0,0,60,30] := by
  decide
example : timeBinary (.fixed 3600) 1600000000000000000 = some [1,0,0,0,14,214,240,7,0,0,0,0,0,0,60] := by
  decide
example : timeBinary (.fixed (-60)) 0 = none := by decide
example : decTimeBinary [1,0,0,0,14,214,240,7,0,0,0,0,123,255,255] = some 1600000000000000123 := by decide
example : decTimeBinary [2,0,0,0,14,214,240,7,0,0,0,0,0,0,60,30] = some 1600000000000000000 := by decide
example : decTimeBinary [1,0,0,0,14,214,240,7,0,0,0,0,123,255] = none := by decide
example : gStrings [[97], [98, 99]] = [2, 1, 97, 2, 98, 99] := by decide
example : decStringSlice [2, 1, 97, 2, 98, 99, 5] = some ([[97], [98, 99]], [5]) := by decide
example : gHeader [([75], [[97]]), ([76], [])] = [2, 1, 75, 1, 1, 97, 1, 76, 0] := by decide
example : decHeader [2, 1, 75, 1, 1, 97, 1, 76, 0] = some ([([75], [[97]]), ([76], [])], []) := by decide

end Vegeta.Proofs.Gob
