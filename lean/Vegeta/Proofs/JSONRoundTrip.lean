/-
Round trip of the JSON target encoder model through the decoder for its image.
-/
import Vegeta.Model.JSONTargets
import Vegeta.Proofs.TargetText
namespace Vegeta.Proofs.JSONRoundTrip
open Vegeta.Go
open Vegeta.Model.JSONTargets

/-! ### string literals -/

theorem hexVal_hexLower : ∀ n, n < 16 → hexVal (hexLower n) = some n := by decide

/-- bytes that a string literal copies verbatim -/
def Verb (c : Nat) : Prop := c ≠ 34 ∧ c ≠ 92

theorem unquote_verb (c : Nat) (hc : Verb c) (X : Bytes) :
    unquote (c :: X) = (unquote X).map (fun p => (c :: p.1, p.2)) := by
  obtain ⟨h1, h2⟩ := hc
  generalize hu : unquote X = u
  unfold unquote
  split
  · rename_i heq; cases heq
  · rename_i heq; cases heq; exact absurd rfl h1
  · rename_i heq; cases heq; exact absurd rfl h2
  · rename_i heq; cases heq; exact absurd rfl h2
  · rename_i heq; cases heq; exact absurd rfl h2
  · rename_i c' rest' _ _ _ heq
    cases heq
    rw [hu]
    cases u with
    | none => rfl
    | some p => rfl

theorem unquote_quote (X : Bytes) : unquote (34 :: X) = some ([], X) := by
  unfold unquote; rfl

/-- a two-byte escape -/
theorem unquote_esc2 (e ch : Nat) (X : Bytes) (hne : e ≠ 117)
    (hch : (if e = 34 ∨ e = 92 ∨ e = 47 then some e
      else if e = 98 then some 8 else if e = 102 then some 12 else if e = 110 then some 10
      else if e = 114 then some 13 else if e = 116 then some 9 else none) = some ch) :
    unquote (92 :: e :: X) = (unquote X).map (fun p => (ch :: p.1, p.2)) := by
  generalize hu : unquote X = u
  unfold unquote
  split
  · rename_i heq; cases heq
  · rename_i heq; cases heq
  · rename_i heq; cases heq; exact absurd rfl hne
  · rename_i e' rest' _ heq
    cases heq
    simp only [hch, hu]
    cases u with
    | none => rfl
    | some p => rfl
  · rename_i heq; cases heq
  · rename_i c' rest' h1 h2 h3 h4 heq
    cases heq
    exact absurd rfl (h3 e X rfl)

theorem unquote_u (a b c d : Nat) (x y z w : Nat) (X : Bytes)
    (ha : hexVal a = some x) (hb : hexVal b = some y) (hc : hexVal c = some z) (hd : hexVal d = some w)
    (hs : ¬ (0xD800 ≤ ((x * 16 + y) * 16 + z) * 16 + w ∧ ((x * 16 + y) * 16 + z) * 16 + w ≤ 0xDFFF)) :
    unquote (92 :: 117 :: a :: b :: c :: d :: X) =
      (unquote X).map (fun p => (encodeRune (((x * 16 + y) * 16 + z) * 16 + w) ++ p.1, p.2)) := by
  generalize hu : unquote X = u
  unfold unquote
  split
  · rename_i heq; cases heq
  · rename_i heq; cases heq
  · rename_i heq
    cases heq
    simp only [ha, hb, hc, hd, hu]
    cases u with
    | none => rfl
    | some p => simp [hs]
  · rename_i e' rest' hno heq
    cases heq
    exact absurd rfl (hno a b c d X rfl)
  · rename_i heq; cases heq
  · rename_i c' rest' h1 h2 h3 h4 heq
    cases heq
    exact (h2 a b c d X rfl rfl).elim

/-- one byte below 0x80, escaped or not, reads back as itself -/
theorem unquote_ascii (b : Nat) (hb : b < 128) (X : Bytes) :
    unquote (escapeAscii b ++ X) = (unquote X).map (fun p => (b :: p.1, p.2)) := by
  unfold escapeAscii
  split
  · rename_i h; subst h; exact unquote_esc2 116 9 X (by decide) (by decide)
  · split
    · rename_i h; subst h; exact unquote_esc2 114 13 X (by decide) (by decide)
    · split
      · rename_i h; subst h; exact unquote_esc2 110 10 X (by decide) (by decide)
      · split
        · rename_i h; subst h; exact unquote_esc2 92 92 X (by decide) (by decide)
        · split
          · rename_i h; subst h; exact unquote_esc2 34 34 X (by decide) (by decide)
          · split
            · have h1 := hexVal_hexLower (b / 16) (by omega)
              have h2 := hexVal_hexLower (b % 16) (by omega)
              have h0 : hexVal 48 = some 0 := by decide
              have := unquote_u 48 48 (hexLower (b / 16)) (hexLower (b % 16)) 0 0 (b / 16) (b % 16) X h0 h0 h1 h2 (by omega)
              have hr : ((0 * 16 + 0) * 16 + b / 16) * 16 + b % 16 = b := by omega
              rw [hr] at this
              have he : encodeRune b = [b] := by simp [encodeRune, hb]
              rw [he] at this
              simpa using this
            · rename_i h1 h2 h3 h4 h5 h6
              exact unquote_verb b ⟨h5, h4⟩ X

/-- Go-valid UTF-8 (no byte that `jwriter.String` would replace by `�`): `skip` bytes of an
already classified rune must be continuation-like (≥ 0x80) -/
def utf8ok : Nat → Bytes → Bool
  | _, [] => true
  | skip + 1, b :: rest => 128 ≤ b && utf8ok skip rest
  | 0, b :: rest =>
    if b < 128 then utf8ok 0 rest
    else runeWidth (b :: rest) ≠ 0 && utf8ok (runeWidth (b :: rest) - 1) rest

theorem escapeGo_flag (s : Bytes) : escapeGo 0 false s = escapeGo 0 true s := by
  cases s <;> rfl

theorem runeWidth_E2 (x y : Nat) (r : Bytes) (hx : x = 0x80) (hy : y = 0xA8 ∨ y = 0xA9) :
    runeWidth (0xE2 :: x :: y :: r) = 3 := by
  subst hx
  rcases hy with rfl | rfl <;> simp [runeWidth, isCont]

theorem unquote_escape (rest : Bytes) : ∀ (n : Nat) (s : Bytes), s.length ≤ n → ∀ skip, utf8ok skip s = true →
    unquote (escapeGo skip true s ++ 34 :: rest) = some (s, rest) := by
  intro n
  induction n with
  | zero =>
    intro s hs skip _
    have : s = [] := List.length_eq_zero_iff.mp (by omega)
    subst this
    cases skip <;> exact unquote_quote rest
  | succ n ih =>
    intro s hs skip hok
    cases s with
    | nil => cases skip <;> exact unquote_quote rest
    | cons b r =>
      have hr : r.length ≤ n := by simp at hs; omega
      cases skip with
      | succ k =>
        simp only [utf8ok, Bool.and_eq_true, decide_eq_true_eq] at hok
        simp only [escapeGo, ↓reduceIte, List.cons_append]
        rw [unquote_verb b ⟨by omega, by omega⟩, ih r hr k hok.2]; rfl
      | zero =>
        simp only [utf8ok] at hok
        by_cases hb : b < 128
        · simp only [hb, ↓reduceIte] at hok
          simp only [escapeGo, hb, ↓reduceIte, List.append_assoc]
          rw [unquote_ascii b hb, ih r hr 0 hok]; rfl
        · simp only [hb, ↓reduceIte, Bool.and_eq_true, bne_iff_ne, ne_eq, decide_eq_true_eq, decide_not,
            Bool.not_eq_eq_eq_not, Bool.not_true, decide_eq_false_iff_not] at hok
          obtain ⟨hw, hok2⟩ := hok
          simp only [escapeGo, hb, ↓reduceIte, hw]
          by_cases h28 : b = 0xE2 ∧ r.take 2 = [0x80, 0xA8]
          · obtain ⟨hb2, ht⟩ := h28
            subst hb2
            obtain ⟨r', hr'⟩ : ∃ r', r = 0x80 :: 0xA8 :: r' := by
              match r, ht with
              | x :: y :: r', ht => simp at ht; exact ⟨r', by rw [ht.1, ht.2]⟩
            subst hr'
            rw [runeWidth_E2 _ _ _ rfl (Or.inl rfl)] at hok2
            simp only [utf8ok, Bool.and_eq_true, decide_eq_true_eq] at hok2
            simp only [List.take, and_self, ↓reduceIte, escapeGo, Bool.false_eq_true, List.cons_append, List.nil_append]
            have h0 : hexVal 50 = some 2 := by decide
            have h1 : hexVal 48 = some 0 := by decide
            have h2 : hexVal 56 = some 8 := by decide
            have := unquote_u 50 48 50 56 2 0 2 8 (escapeGo 0 false r' ++ 34 :: rest) h0 h1 h0 h2 (by decide)
            rw [this, escapeGo_flag, ih r' (by simp at hr; omega) 0 hok2.2.2]
            simp [encodeRune]
          · simp only [h28, ↓reduceIte]
            by_cases h29 : b = 0xE2 ∧ r.take 2 = [0x80, 0xA9]
            · obtain ⟨hb2, ht⟩ := h29
              subst hb2
              obtain ⟨r', hr'⟩ : ∃ r', r = 0x80 :: 0xA9 :: r' := by
                match r, ht with
                | x :: y :: r', ht => simp at ht; exact ⟨r', by rw [ht.1, ht.2]⟩
              subst hr'
              rw [runeWidth_E2 _ _ _ rfl (Or.inr rfl)] at hok2
              simp only [utf8ok, Bool.and_eq_true, decide_eq_true_eq] at hok2
              simp only [List.take, and_self, ↓reduceIte, escapeGo, Bool.false_eq_true, List.cons_append, List.nil_append]
              have h0 : hexVal 50 = some 2 := by decide
              have h1 : hexVal 48 = some 0 := by decide
              have h2 : hexVal 57 = some 9 := by decide
              have := unquote_u 50 48 50 57 2 0 2 9 (escapeGo 0 false r' ++ 34 :: rest) h0 h1 h0 h2 (by decide)
              rw [this, escapeGo_flag, ih r' (by simp at hr; omega) 0 hok2.2.2]
              simp [encodeRune]
            · simp only [h29, ↓reduceIte, List.cons_append]
              rw [unquote_verb b ⟨by omega, by omega⟩, ih r hr _ hok2]; rfl

/-- strings the round trip is claimed for -/
def StrOK (s : Bytes) : Prop := utf8ok 0 s = true

instance (s : Bytes) : Decidable (StrOK s) := by unfold StrOK; infer_instance

theorem parseString_jString (s rest : Bytes) (h : StrOK s) : parseString (jString s ++ rest) = some (s, rest) := by
  simp only [jString, List.append_assoc, List.cons_append, List.nil_append, parseString]
  exact unquote_escape rest s.length s (Nat.le_refl _) 0 h


/-! ### arrays of strings, header members -/

theorem jString_ne_nil (s : Bytes) : jString s ≠ [] := by simp [jString]

theorem jString_head (s : Bytes) : ∃ t, jString s = 34 :: t := ⟨_, by simp [jString]; rfl⟩

theorem commaSep_cons2 (x y : Bytes) (zs : List Bytes) : commaSep (x :: y :: zs) = x ++ [44] ++ commaSep (y :: zs) := rfl

theorem parseStrings_last (f : Nat) (s v r' : Bytes) (h : parseString s = some (v, 93 :: r')) :
    parseStrings (f + 1) s = some ([v], r') := by
  simp [parseStrings, h]

theorem parseStrings_more (f : Nat) (s v r' : Bytes) (vs : List Bytes) (r'' : Bytes)
    (h : parseString s = some (v, 44 :: r')) (h2 : parseStrings f r' = some (vs, r'')) :
    parseStrings (f + 1) s = some (v :: vs, r'') := by
  simp [parseStrings, h, h2]

theorem parseStrings_spec (rest : Bytes) : ∀ (vs : List Bytes) (v : Bytes) (fuel : Nat), vs.length < fuel →
    (∀ x ∈ v :: vs, StrOK x) →
    parseStrings fuel (commaSep ((v :: vs).map jString) ++ 93 :: rest) = some (v :: vs, rest) := by
  intro vs
  induction vs with
  | nil =>
    intro v fuel hf hok
    cases fuel with
    | zero => omega
    | succ f =>
      apply parseStrings_last
      simp only [List.map_cons, List.map_nil, commaSep]
      exact parseString_jString v (93 :: rest) (hok v (by simp))
  | cons w ws ih =>
    intro v fuel hf hok
    cases fuel with
    | zero => omega
    | succ f =>
      have hshape : commaSep ((v :: w :: ws).map jString) ++ 93 :: rest =
          jString v ++ 44 :: (commaSep ((w :: ws).map jString) ++ 93 :: rest) := by
        simp [commaSep_cons2]
      rw [hshape]
      exact parseStrings_more f _ v _ (w :: ws) rest (parseString_jString v _ (hok v (by simp)))
        (ih w f (by simp at hf; omega) (fun x hx => hok x (by simp at hx ⊢; right; exact hx)))

theorem parseValues_spec (fuel : Nat) (ov : Option (List Bytes)) (rest : Bytes)
    (hf : (ov.getD []).length < fuel + 1) (hok : ∀ x ∈ ov.getD [], StrOK x) :
    parseValues fuel (encodeValues ov ++ rest) = some (ov.getD [], rest) := by
  cases ov with
  | none => simp [encodeValues, parseValues]
  | some vs =>
    cases vs with
    | nil => simp [encodeValues, parseValues, commaSep]
    | cons v ws =>
      obtain ⟨t, ht⟩ := jString_head v
      have hshape : encodeValues (some (v :: ws)) ++ rest = 91 :: (commaSep ((v :: ws).map jString) ++ 93 :: rest) := by
        simp [encodeValues]
      rw [hshape]
      have hhead : ∃ t', commaSep ((v :: ws).map jString) ++ 93 :: rest = 34 :: t' := by
        cases ws with
        | nil => exact ⟨_, by simp [commaSep, ht]; rfl⟩
        | cons w ws' => exact ⟨_, by simp [commaSep_cons2, ht]; rfl⟩
      obtain ⟨t', ht'⟩ := hhead
      have : parseValues fuel (91 :: (commaSep ((v :: ws).map jString) ++ 93 :: rest)) =
          parseStrings fuel (commaSep ((v :: ws).map jString) ++ 93 :: rest) := by
        rw [ht']; rfl
      rw [this]
      exact parseStrings_spec rest ws v fuel (by simp at hf; omega) hok

/-- a header member as the encoder writes it -/
def member (kv : Bytes × Option (List Bytes)) : Bytes := jString kv.1 ++ [58] ++ encodeValues kv.2

def MemberOK (kv : Bytes × Option (List Bytes)) : Prop := StrOK kv.1 ∧ ∀ x ∈ kv.2.getD [], StrOK x

/-- the decoded header map: members in order, a repeated key overwrites -/
def foldMembers (acc : VMap) (ms : List (Bytes × Option (List Bytes))) : VMap :=
  ms.foldl (fun a kv => vset a kv.1 (kv.2.getD [])) acc

theorem parseMembers_last (f : Nat) (s k r1 r3 : Bytes) (vs : List Bytes) (acc : VMap)
    (h1 : parseString s = some (k, 58 :: r1)) (h2 : parseValues f r1 = some (vs, 125 :: r3)) :
    parseMembers (f + 1) s acc = some (vset acc k vs, r3) := by
  simp [parseMembers, h1, h2]

theorem parseMembers_more (f : Nat) (s k r1 r3 : Bytes) (vs : List Bytes) (acc : VMap)
    (h1 : parseString s = some (k, 58 :: r1)) (h2 : parseValues f r1 = some (vs, 44 :: r3)) :
    parseMembers (f + 1) s acc = parseMembers f r3 (vset acc k vs) := by
  simp [parseMembers, h1, h2]

theorem parseMembers_spec (rest : Bytes) : ∀ (ms : List (Bytes × Option (List Bytes))) (m : Bytes × Option (List Bytes))
    (fuel : Nat) (acc : VMap), ms.length < fuel → (∀ x ∈ m :: ms, MemberOK x) →
    (∀ x ∈ m :: ms, (x.2.getD []).length + ms.length < fuel) →
    parseMembers fuel (commaSep ((m :: ms).map member) ++ 125 :: rest) acc = some (foldMembers acc (m :: ms), rest) := by
  intro ms
  induction ms with
  | nil =>
    intro m fuel acc hf hok hlen
    cases fuel with
    | zero => omega
    | succ f =>
      have hm := hok m (by simp)
      have hl := hlen m (by simp)
      have hshape : commaSep ([m].map member) ++ 125 :: rest = jString m.1 ++ 58 :: (encodeValues m.2 ++ 125 :: rest) := by
        simp [commaSep, member]
      rw [hshape]
      rw [parseMembers_last f _ m.1 _ rest (m.2.getD []) acc (parseString_jString m.1 _ hm.1)
        (parseValues_spec f m.2 _ (by simp at hl; omega) hm.2)]
      rfl
  | cons m2 ms ih =>
    intro m fuel acc hf hok hlen
    cases fuel with
    | zero => omega
    | succ f =>
      have hm := hok m (by simp)
      have hl := hlen m (by simp)
      have hshape : commaSep ((m :: m2 :: ms).map member) ++ 125 :: rest =
          jString m.1 ++ 58 :: (encodeValues m.2 ++ 44 :: (commaSep ((m2 :: ms).map member) ++ 125 :: rest)) := by
        simp [commaSep_cons2, member]
      rw [hshape]
      rw [parseMembers_more f _ m.1 _ _ (m.2.getD []) acc (parseString_jString m.1 _ hm.1)
        (parseValues_spec f m.2 _ (by simp at hl; omega) hm.2)]
      rw [ih m2 f _ (by simp at hf; omega) (fun x hx => hok x (by simp at hx ⊢; right; exact hx))
        (fun x hx => by
          have := hlen x (by simp at hx ⊢; right; exact hx)
          simp at this; omega)]
      rfl


/-! ### lengths (the decoder's fuel suffices) -/

theorem commaSep_length (xs : List Bytes) (h : ∀ x ∈ xs, x ≠ []) : xs.length ≤ (commaSep xs).length := by
  induction xs with
  | nil => simp [commaSep]
  | cons x r ih =>
    have hx : 1 ≤ x.length := by
      have := h x (by simp)
      cases x with
      | nil => exact absurd rfl this
      | cons a t => simp
    cases r with
    | nil => simpa [commaSep] using hx
    | cons y zs =>
      have := ih (fun z hz => h z (by simp at hz ⊢; right; exact hz))
      simp only [commaSep_cons2, List.length_append, List.length_cons, List.length_nil] at this ⊢
      omega

theorem encodeValues_length (ov : Option (List Bytes)) : (ov.getD []).length ≤ (encodeValues ov).length := by
  cases ov with
  | none => simp [encodeValues]
  | some vs =>
    have := commaSep_length (vs.map jString) (by intro x hx; simp at hx; obtain ⟨a, _, rfl⟩ := hx; exact jString_ne_nil a)
    simp [encodeValues] at this ⊢; omega

theorem member_length (kv : Bytes × Option (List Bytes)) : (kv.2.getD []).length + 1 ≤ (member kv).length := by
  have := encodeValues_length kv.2
  simp [member, jString]; omega

theorem members_length (h : List (Bytes × Option (List Bytes))) :
    ∀ x ∈ h, (x.2.getD []).length + h.length ≤ (commaSep (h.map member)).length := by
  induction h with
  | nil => intro x hx; cases hx
  | cons m ms ih =>
    intro x hx
    have hm := member_length m
    have hT : ms.length ≤ (commaSep (ms.map member)).length := by
      have := commaSep_length (ms.map member) (by
        intro y hy
        simp only [List.mem_map] at hy
        obtain ⟨a, _, rfl⟩ := hy
        have := member_length a; intro h0; rw [h0] at this; simp at this)
      simpa using this
    cases ms with
    | nil =>
      simp at hx; subst hx
      simp [commaSep]; omega
    | cons m2 r =>
      simp only [List.map_cons, commaSep_cons2, List.length_append, List.length_cons, List.length_nil] at hT ⊢
      simp only [List.mem_cons] at hx
      rcases hx with rfl | hx
      · omega
      · have := ih x (by simp [hx])
        simp only [List.map_cons, List.length_cons] at this
        omega

/-! ### base64 -/

theorem b64Val_b64Char : ∀ i, i < 64 → b64Val (b64Char i) = some i := by decide
theorem b64Char_ne_pad : ∀ i, i < 64 → b64Char i ≠ 61 := by decide
theorem b64Char_verb : ∀ i, i < 64 → Verb (b64Char i) := by
  intro i hi
  have : ∀ i, i < 64 → b64Char i ≠ 34 ∧ b64Char i ≠ 92 := by decide
  exact this i hi

theorem unquote_plain (rest : Bytes) : ∀ s : Bytes, (∀ c ∈ s, Verb c) → unquote (s ++ 34 :: rest) = some (s, rest) := by
  intro s
  induction s with
  | nil => intro _; exact unquote_quote rest
  | cons c t ih =>
    intro h
    rw [List.cons_append, unquote_verb c (h c (by simp)), ih (fun x hx => h x (by simp [hx]))]; rfl

theorem b64Decode_pad2 (c0 c1 : Nat) : b64Decode [c0, c1, 61, 61] =
    match b64Val c0, b64Val c1 with
    | some s0, some s1 => some [s0 * 4 + s1 / 16]
    | _, _ => none := by
  unfold b64Decode; rfl

theorem b64Decode_pad1 (c0 c1 c2 : Nat) (h : c2 ≠ 61) : b64Decode [c0, c1, c2, 61] =
    match b64Val c0, b64Val c1, b64Val c2 with
    | some s0, some s1, some s2 => some [s0 * 4 + s1 / 16, (s1 % 16) * 16 + s2 / 4]
    | _, _, _ => none := by
  unfold b64Decode
  split
  · rename_i heq; cases heq
  · rename_i heq; simp at heq; exact absurd heq.2.2 h
  · rename_i heq; cases heq; rfl
  · rename_i hno heq; cases heq; exact (hno rfl rfl).elim
  · rename_i hno _; exact (hno _ _ _ rfl).elim

theorem b64Decode_full (c0 c1 c2 c3 : Nat) (rest : Bytes) (h : c3 ≠ 61) : b64Decode (c0 :: c1 :: c2 :: c3 :: rest) =
    match b64Val c0, b64Val c1, b64Val c2, b64Val c3, b64Decode rest with
    | some s0, some s1, some s2, some s3, some r =>
      some ((s0 * 4 + s1 / 16) :: ((s1 % 16) * 16 + s2 / 4) :: ((s2 % 4) * 64 + s3) :: r)
    | _, _, _, _, _ => none := by
  generalize hd : b64Decode rest = dr
  unfold b64Decode
  split
  · rename_i heq; cases heq
  · rename_i heq; simp at heq; exact absurd heq.2.2.2.1 h
  · rename_i heq; simp at heq; exact absurd heq.2.2.2.1 h
  · rename_i heq; cases heq; rw [hd]; rfl
  · rename_i hno; exact (hno _ _ _ _ _ rfl).elim

theorem b64_roundtrip : ∀ (n : Nat) (bs : Bytes), bs.length ≤ n → (∀ b ∈ bs, b < 256) →
    b64Decode (b64Encode bs) = some bs ∧ ∀ c ∈ b64Encode bs, Verb c := by
  intro n
  induction n using Nat.strongRecOn with
  | _ n ih =>
    intro bs hn hb
    match bs, hn, hb with
    | [], _, _ => exact ⟨rfl, by intro c hc; cases hc⟩
    | [a], _, hb =>
      have ha := hb a (by simp)
      have h0 := b64Val_b64Char (a / 4) (by omega)
      have h1 := b64Val_b64Char ((a % 4) * 16) (by omega)
      refine ⟨?_, ?_⟩
      · simp only [b64Encode, b64Decode_pad2, h0, h1]
        have : a / 4 * 4 + a % 4 * 16 / 16 = a := by omega
        rw [this]
      · intro c hc
        simp only [b64Encode, List.mem_cons, List.mem_nil_iff, or_false] at hc
        rcases hc with rfl | rfl | rfl | rfl
        · exact b64Char_verb _ (by omega)
        · exact b64Char_verb _ (by omega)
        · exact ⟨by decide, by decide⟩
        · exact ⟨by decide, by decide⟩
    | [a, b], _, hb =>
      have ha := hb a (by simp)
      have hb' := hb b (by simp)
      have h0 := b64Val_b64Char (a / 4) (by omega)
      have h1 := b64Val_b64Char ((a % 4) * 16 + b / 16) (by omega)
      have h2 := b64Val_b64Char ((b % 16) * 4) (by omega)
      have hne := b64Char_ne_pad ((b % 16) * 4) (by omega)
      refine ⟨?_, ?_⟩
      · simp only [b64Encode, b64Decode_pad1 _ _ _ hne, h0, h1, h2]
        have x1 : a / 4 * 4 + (a % 4 * 16 + b / 16) / 16 = a := by omega
        have x2 : (a % 4 * 16 + b / 16) % 16 * 16 + b % 16 * 4 / 4 = b := by omega
        rw [x1, x2]
      · intro c hc
        simp only [b64Encode, List.mem_cons, List.mem_nil_iff, or_false] at hc
        rcases hc with rfl | rfl | rfl | rfl
        · exact b64Char_verb _ (by omega)
        · exact b64Char_verb _ (by omega)
        · exact b64Char_verb _ (by omega)
        · exact ⟨by decide, by decide⟩
    | a :: b :: c :: rest, hn, hb =>
      have ha := hb a (by simp)
      have hb' := hb b (by simp)
      have hc := hb c (by simp)
      have h0 := b64Val_b64Char (a / 4) (by omega)
      have h1 := b64Val_b64Char ((a % 4) * 16 + b / 16) (by omega)
      have h2 := b64Val_b64Char ((b % 16) * 4 + c / 64) (by omega)
      have h3 := b64Val_b64Char (c % 64) (by omega)
      have hne3 := b64Char_ne_pad (c % 64) (by omega)
      have hrec := ih rest.length (by simp at hn; omega) rest (Nat.le_refl _) (fun x hx => hb x (by simp [hx]))
      refine ⟨?_, ?_⟩
      · simp only [b64Encode, b64Decode_full _ _ _ _ _ hne3, h0, h1, h2, h3, hrec.1]
        have x1 : a / 4 * 4 + (a % 4 * 16 + b / 16) / 16 = a := by omega
        have x2 : (a % 4 * 16 + b / 16) % 16 * 16 + (b % 16 * 4 + c / 64) / 4 = b := by omega
        have x3 : (b % 16 * 4 + c / 64) % 4 * 64 + c % 64 = c := by omega
        rw [x1, x2, x3]
      · intro x hx
        simp only [b64Encode, List.mem_cons] at hx
        rcases hx with rfl | rfl | rfl | rfl | hx
        · exact b64Char_verb _ (by omega)
        · exact b64Char_verb _ (by omega)
        · exact b64Char_verb _ (by omega)
        · exact b64Char_verb _ (by omega)
        · exact hrec.2 x hx


/-! ### the whole line -/

open Vegeta.Model.Histogram (trimSpace trimLeft trimLeftRev dropSpaceRuneRev isAsciiSpace) in
open Vegeta.Proofs.TargetText in
open Vegeta.Spec.TargetGrammar (isPlain) in
/-- `{ … }` followed by the newline the encoder adds trims to `{ … }` -/
theorem trimSpace_nl (c d : Nat) (mid : Bytes) (hc : isPlain c = true) (hd : isPlain d = true) :
    trimSpace (c :: (mid ++ [d]) ++ [10]) = c :: (mid ++ [d]) := by
  unfold trimSpace
  have h1 : trimLeft (c :: (mid ++ [d]) ++ [10]).length (c :: (mid ++ [d]) ++ [10]) = c :: (mid ++ [d]) ++ [10] := by
    have := trimLeft_pad_plain [] c ((mid ++ [d]) ++ [10]) isPad_nil hc (c :: (mid ++ [d]) ++ [10]).length (by simp)
    simpa using this
  simp only [h1]
  have h2 : (c :: (mid ++ [d]) ++ [10]).reverse = 10 :: d :: (mid.reverse ++ [c]) := by simp
  rw [h2]
  have h3 : (c :: (mid ++ [d]) ++ [10]).length = (mid.length + 2) + 1 := by simp
  rw [h3]
  have h4 : dropSpaceRuneRev (10 :: d :: (mid.reverse ++ [c])) = some (d :: (mid.reverse ++ [c])) := by
    simp [dropSpaceRuneRev, isAsciiSpace]
  have h5 : trimLeftRev (mid.length + 2 + 1) (10 :: d :: (mid.reverse ++ [c])) =
      trimLeftRev (mid.length + 2) (d :: (mid.reverse ++ [c])) := by
    rw [trimLeftRev, h4]
  rw [h5]
  have := trimLeftRev_pad_plain [] d (mid.reverse ++ [c]) isPad_nil hd (mid.length + 2) (by simp)
  simp only [List.nil_append] at this
  rw [this]
  simp

theorem dropPrefix_append (p r : Bytes) : dropPrefix p (p ++ r) = some r := by
  have : p.isPrefixOf (p ++ r) = true := by
    induction p with
    | nil => simp [List.isPrefixOf]
    | cons a t ih => simp [List.isPrefixOf, ih]
  simp [dropPrefix, this]

/-- what the round trip is claimed for: Go-valid UTF-8 in every string, bytes in the body -/
structure Clean (t : ETarget) : Prop where
  method : StrOK t.method
  url : StrOK t.url
  body : ∀ b ∈ t.body, b < 256
  header : ∀ kv ∈ t.header, MemberOK kv

/-- the decoded record of an encoded target: a nil value slice reads back as no values, a
repeated key (impossible in a Go map) would overwrite -/
def recOf (t : ETarget) : JRec :=
  { method := t.method, url := t.url, body := t.body, header := foldMembers [] t.header }

theorem bodyPart_spec (body rest : Bytes) (hb : ∀ b ∈ body, b < 256)
    (hrest : dropPrefix kwBody rest = none) :
    bodyPart ((if body.length ≠ 0 then kwBody ++ [34] ++ b64Encode body ++ [34] else []) ++ rest) = some (body, rest) := by
  by_cases h0 : body.length ≠ 0
  · rw [if_pos h0]
    have hrt := b64_roundtrip body.length body (Nat.le_refl _) hb
    have hshape : kwBody ++ [34] ++ b64Encode body ++ [34] ++ rest = kwBody ++ (34 :: (b64Encode body ++ 34 :: rest)) := by simp
    rw [hshape]
    simp only [bodyPart, dropPrefix_append, parseString, unquote_plain rest _ hrt.2, hrt.1]
  · have : body = [] := List.length_eq_zero_iff.mp (by omega)
    subst this
    simp [bodyPart, hrest]

theorem encodeHeader_eq (h : List (Bytes × Option (List Bytes))) :
    encodeHeader h = [123] ++ commaSep (h.map member) ++ [125] := by
  have : (h.map fun (x : Bytes × Option (List Bytes)) => match x with | (k, vs) => jString k ++ [58] ++ encodeValues vs) = h.map member := by
    apply List.map_congr_left; intro x _; obtain ⟨k, vs⟩ := x; rfl
  simp only [encodeHeader]; rw [this]

theorem hdrPart_spec (fuel : Nat) (h : List (Bytes × Option (List Bytes))) (hok : ∀ kv ∈ h, MemberOK kv)
    (hfuel : (commaSep (h.map member)).length < fuel) :
    hdrPart fuel ((if h.length ≠ 0 then kwHeader ++ encodeHeader h else []) ++ [125]) = some (foldMembers [] h, [125]) := by
  cases h with
  | nil => simp [hdrPart, dropPrefix, kwHeader, List.isPrefixOf, foldMembers]
  | cons m ms =>
    have hne : (m :: ms).length ≠ 0 := by simp
    rw [if_pos hne]
    have hshape : kwHeader ++ encodeHeader (m :: ms) ++ [125] =
        kwHeader ++ (123 :: (commaSep ((m :: ms).map member) ++ 125 :: [125])) := by
      rw [encodeHeader_eq]; simp
    rw [hshape]
    obtain ⟨t, ht⟩ := jString_head m.1
    have hhead : ∃ t', commaSep ((m :: ms).map member) ++ 125 :: [125] = 34 :: t' := by
      cases ms with
      | nil => exact ⟨_, by simp [commaSep, member, ht]; rfl⟩
      | cons m2 r => exact ⟨_, by simp [commaSep_cons2, member, ht]; rfl⟩
    obtain ⟨t', ht'⟩ := hhead
    have hml := members_length (m :: ms)
    have hstep : hdrPart fuel (kwHeader ++ (123 :: (commaSep ((m :: ms).map member) ++ 125 :: [125]))) =
        parseMembers fuel (commaSep ((m :: ms).map member) ++ 125 :: [125]) [] := by
      simp only [hdrPart, dropPrefix_append]
      rw [ht']
      rfl
    rw [hstep]
    exact parseMembers_spec [125] ms m fuel [] (by
        have := hml m (List.mem_cons_self ..); simp only [List.length_cons] at this; omega) hok
      (fun x hx => by have := hml x hx; simp only [List.length_cons] at this; omega)

/-- **Round trip**: the line `NewJSONTargetEncoder` writes for a target, trimmed as the targeter
does, decodes to that target's record. -/
theorem decode_encode (t : ETarget) (h : Clean t) :
    decodeImage (Vegeta.Model.Histogram.trimSpace (encodeTarget t)) = some (recOf t) := by
  -- shape of the line
  let B : Bytes := if t.body.length ≠ 0 then kwBody ++ [34] ++ b64Encode t.body ++ [34] else []
  let H : Bytes := if t.header.length ≠ 0 then kwHeader ++ encodeHeader t.header else []
  have hshape : encodeTarget t = 123 :: ((kwMethod ++ jString t.method ++ kwURL ++ jString t.url ++ B ++ H) ++ [125]) ++ [10] := by
    simp [encodeTarget, B, H]
  rw [hshape, trimSpace_nl 123 125 _ (by decide) (by decide)]
  have hline : 123 :: ((kwMethod ++ jString t.method ++ kwURL ++ jString t.url ++ B ++ H) ++ [125]) =
      ([123] ++ kwMethod) ++ (jString t.method ++ (kwURL ++ (jString t.url ++ (B ++ (H ++ [125]))))) := by simp
  -- fuel
  have hfuel : (commaSep (t.header.map member)).length <
      (123 :: ((kwMethod ++ jString t.method ++ kwURL ++ jString t.url ++ B ++ H) ++ [125])).length + 1 := by
    by_cases h0 : t.header.length ≠ 0
    · have hH : H = kwHeader ++ ([123] ++ commaSep (t.header.map member) ++ [125]) := by
        simp only [H]; rw [if_pos h0, encodeHeader_eq]
      rw [hH]
      simp only [List.length_cons, List.length_append]
      omega
    · have : t.header = [] := List.length_eq_zero_iff.mp (by omega)
      simp [this, commaSep]
  have hnoBody : dropPrefix kwBody (H ++ [125]) = none := by
    by_cases h0 : t.header.length ≠ 0
    · have hH : H = kwHeader ++ encodeHeader t.header := by simp only [H]; rw [if_pos h0]
      rw [hH]
      simp [dropPrefix, kwBody, kwHeader, List.isPrefixOf]
    · have hH : H = [] := by simp only [H]; rw [if_neg h0]
      rw [hH]
      simp [dropPrefix, kwBody, List.isPrefixOf]
  unfold decodeImage
  rw [hline]
  simp only [dropPrefix_append, Option.bind_some, parseString_jString _ _ h.method, parseString_jString _ _ h.url]
  rw [bodyPart_spec t.body (H ++ [125]) h.body hnoBody]
  simp only [Option.bind_some]
  rw [← hline]
  rw [hdrPart_spec _ t.header h.header hfuel]
  simp [recOf]


/-! ### an encoded target is exactly one line -/

theorem hexLower_ne_nl (n : Nat) : hexLower n ≠ 10 := by
  unfold hexLower; split <;> omega

theorem escapeAscii_no_nl (c : Nat) : 10 ∉ escapeAscii c := by
  unfold escapeAscii
  split
  · decide
  · split
    · decide
    · split
      · decide
      · split
        · decide
        · split
          · decide
          · split
            · intro h
              simp only [List.mem_cons, List.mem_nil_iff, or_false] at h
              rcases h with h | h | h | h | h | h
              all_goals first | (exact absurd h (by decide)) | (exact hexLower_ne_nl _ h.symm)
            · rename_i h1 h2 h3 h4 h5 h6
              intro h
              simp only [List.mem_cons, List.mem_nil_iff, or_false] at h
              exact h3 h.symm

theorem escapeGo_no_nl : ∀ (n : Nat) (s : Bytes), s.length ≤ n → ∀ skip emit, utf8ok skip s = true →
    10 ∉ escapeGo skip emit s := by
  intro n
  induction n with
  | zero =>
    intro s hs skip emit _
    have : s = [] := List.length_eq_zero_iff.mp (by omega)
    subst this
    cases skip <;> simp [escapeGo]
  | succ n ih =>
    intro s hs skip emit hok
    cases s with
    | nil => cases skip <;> simp [escapeGo]
    | cons b r =>
      have hr : r.length ≤ n := by simp at hs; omega
      cases skip with
      | succ k =>
        simp only [utf8ok, Bool.and_eq_true, decide_eq_true_eq] at hok
        have := ih r hr k emit hok.2
        simp only [escapeGo]
        split
        · intro h; simp only [List.mem_cons] at h
          rcases h with h | h
          · omega
          · exact this h
        · exact this
      | zero =>
        simp only [utf8ok] at hok
        by_cases hb : b < 128
        · simp only [hb, ↓reduceIte] at hok
          simp only [escapeGo, hb, ↓reduceIte]
          intro h; simp only [List.mem_append] at h
          rcases h with h | h
          · exact escapeAscii_no_nl b h
          · exact ih r hr 0 true hok h
        · simp only [hb, ↓reduceIte, Bool.and_eq_true, ne_eq, decide_not,
            Bool.not_eq_eq_eq_not, Bool.not_true, decide_eq_false_iff_not] at hok
          obtain ⟨hw, hok2⟩ := hok
          simp only [escapeGo, hb, ↓reduceIte, hw]
          -- whatever branch: an escape without newline, or the byte itself (≥ 128), then a tail
          have htail : ∀ k e, utf8ok k r = true → 10 ∉ escapeGo k e r := fun k e hk => ih r hr k e hk
          by_cases h28 : b = 0xE2 ∧ r.take 2 = [0x80, 0xA8]
          · obtain ⟨hb2, ht⟩ := h28
            subst hb2
            obtain ⟨r', hr'⟩ : ∃ r', r = 0x80 :: 0xA8 :: r' := by
              match r, ht with
              | x :: y :: r', ht => simp at ht; exact ⟨r', by rw [ht.1, ht.2]⟩
            subst hr'
            rw [runeWidth_E2 _ _ _ rfl (Or.inl rfl)] at hok2
            simp only [List.take, and_self, ↓reduceIte]
            intro h; simp only [List.mem_append] at h
            rcases h with h | h
            · exact absurd h (by decide)
            · exact htail 2 false hok2 h
          · simp only [h28, ↓reduceIte]
            by_cases h29 : b = 0xE2 ∧ r.take 2 = [0x80, 0xA9]
            · obtain ⟨hb2, ht⟩ := h29
              subst hb2
              obtain ⟨r', hr'⟩ : ∃ r', r = 0x80 :: 0xA9 :: r' := by
                match r, ht with
                | x :: y :: r', ht => simp at ht; exact ⟨r', by rw [ht.1, ht.2]⟩
              subst hr'
              rw [runeWidth_E2 _ _ _ rfl (Or.inr rfl)] at hok2
              simp only [List.take, and_self, ↓reduceIte]
              intro h; simp only [List.mem_append] at h
              rcases h with h | h
              · exact absurd h (by decide)
              · exact htail 2 false hok2 h
            · simp only [h29, ↓reduceIte]
              intro h; simp only [List.mem_cons] at h
              rcases h with h | h
              · omega
              · exact htail _ true hok2 h

theorem jString_no_nl (s : Bytes) (h : StrOK s) : 10 ∉ jString s := by
  intro hin
  simp only [jString, List.mem_append, List.mem_cons, List.mem_nil_iff, or_false] at hin
  rcases hin with (hin | hin) | hin
  · exact absurd hin (by decide)
  · exact escapeGo_no_nl s.length s (Nat.le_refl _) 0 true h hin
  · exact absurd hin (by decide)

theorem commaSep_no_nl (xs : List Bytes) (h : ∀ x ∈ xs, 10 ∉ x) : 10 ∉ commaSep xs := by
  induction xs with
  | nil => simp [commaSep]
  | cons x r ih =>
    cases r with
    | nil => simpa [commaSep] using h x (by simp)
    | cons y zs =>
      rw [commaSep_cons2]
      intro hin
      simp only [List.mem_append, List.mem_cons, List.mem_nil_iff, or_false] at hin
      rcases hin with (hin | hin) | hin
      · exact h x (by simp) hin
      · exact absurd hin (by decide)
      · exact ih (fun z hz => h z (by simp at hz ⊢; right; exact hz)) hin

theorem b64Char_ne_nl : ∀ i, i < 64 → b64Char i ≠ 10 := by decide

theorem b64Encode_no_nl : ∀ (n : Nat) (bs : Bytes), bs.length ≤ n → (∀ b ∈ bs, b < 256) → 10 ∉ b64Encode bs := by
  intro n
  induction n using Nat.strongRecOn with
  | _ n ih =>
    intro bs hn hb
    match bs, hn, hb with
    | [], _, _ => simp [b64Encode]
    | [a], _, hb =>
      have ha := hb a (by simp)
      intro h
      simp only [b64Encode, List.mem_cons, List.mem_nil_iff, or_false] at h
      rcases h with h | h | h | h
      · exact b64Char_ne_nl _ (by omega) h.symm
      · exact b64Char_ne_nl _ (by omega) h.symm
      · exact absurd h (by decide)
      · exact absurd h (by decide)
    | [a, b], _, hb =>
      have ha := hb a (by simp)
      have hb' := hb b (by simp)
      intro h
      simp only [b64Encode, List.mem_cons, List.mem_nil_iff, or_false] at h
      rcases h with h | h | h | h
      · exact b64Char_ne_nl _ (by omega) h.symm
      · exact b64Char_ne_nl _ (by omega) h.symm
      · exact b64Char_ne_nl _ (by omega) h.symm
      · exact absurd h (by decide)
    | a :: b :: c :: rest, hn, hb =>
      have ha := hb a (by simp)
      have hb' := hb b (by simp)
      have hc := hb c (by simp)
      have hrec := ih rest.length (by simp at hn; omega) rest (Nat.le_refl _) (fun x hx => hb x (by simp [hx]))
      intro h
      simp only [b64Encode, List.mem_cons] at h
      rcases h with h | h | h | h | h
      · exact b64Char_ne_nl _ (by omega) h.symm
      · exact b64Char_ne_nl _ (by omega) h.symm
      · exact b64Char_ne_nl _ (by omega) h.symm
      · exact b64Char_ne_nl _ (by omega) h.symm
      · exact hrec h

theorem member_no_nl (kv : Bytes × Option (List Bytes)) (h : MemberOK kv) : 10 ∉ member kv := by
  intro hin
  simp only [member, List.mem_append, List.mem_cons, List.mem_nil_iff, or_false] at hin
  rcases hin with (hin | hin) | hin
  · exact jString_no_nl _ h.1 hin
  · exact absurd hin (by decide)
  · cases hv : kv.2 with
    | none => rw [hv] at hin; simp [encodeValues] at hin
    | some vs =>
      rw [hv] at hin
      simp only [encodeValues, List.mem_append, List.mem_cons, List.mem_nil_iff, or_false] at hin
      rcases hin with (hin | hin) | hin
      · exact absurd hin (by decide)
      · refine commaSep_no_nl _ ?_ hin
        intro x hx
        simp only [List.mem_map] at hx
        obtain ⟨v, hv', rfl⟩ := hx
        exact jString_no_nl v (h.2 v (by rw [hv]; simpa using hv'))
      · exact absurd hin (by decide)

/-- the line of a target without its terminator -/
def lineOf (t : ETarget) : Bytes :=
  123 :: ((kwMethod ++ jString t.method ++ kwURL ++ jString t.url ++
    (if t.body.length ≠ 0 then kwBody ++ [34] ++ b64Encode t.body ++ [34] else []) ++
    (if t.header.length ≠ 0 then kwHeader ++ encodeHeader t.header else [])) ++ [125])

theorem encodeTarget_line (t : ETarget) : encodeTarget t = lineOf t ++ [10] := by
  simp [encodeTarget, lineOf]

open Vegeta.Model.Histogram (trimSpace) in
theorem trim_line (t : ETarget) : trimSpace (lineOf t ++ [10]) = lineOf t :=
  trimSpace_nl 123 125 _ (by decide) (by decide)

theorem lineOf_no_nl (t : ETarget) (h : Clean t) : 10 ∉ lineOf t := by
  intro hin
  simp only [lineOf, List.mem_cons, List.mem_append, List.mem_nil_iff, or_false] at hin
  rcases hin with hin | ((((((hin | hin) | hin) | hin) | hin) | hin) | hin)
  · exact absurd hin (by decide)
  · exact absurd hin (by decide)
  · exact jString_no_nl _ h.method hin
  · exact absurd hin (by decide)
  · exact jString_no_nl _ h.url hin
  · split at hin
    · simp only [List.mem_append, List.mem_cons, List.mem_nil_iff, or_false] at hin
      rcases hin with ((hin | hin) | hin) | hin
      · exact absurd hin (by decide)
      · exact absurd hin (by decide)
      · exact b64Encode_no_nl _ _ (Nat.le_refl _) h.body hin
      · exact absurd hin (by decide)
    · cases hin
  · split at hin
    · rw [encodeHeader_eq] at hin
      simp only [List.mem_append, List.mem_cons, List.mem_nil_iff, or_false] at hin
      rcases hin with hin | ((hin | hin) | hin)
      · exact absurd hin (by decide)
      · exact absurd hin (by decide)
      · refine commaSep_no_nl _ ?_ hin
        intro x hx
        simp only [List.mem_map] at hx
        obtain ⟨kv, hkv, rfl⟩ := hx
        exact member_no_nl kv (h.header kv hkv)
      · exact absurd hin (by decide)
    · cases hin
  · exact absurd hin (by decide)

end Vegeta.Proofs.JSONRoundTrip
