/-
Proofs about the `encoding/csv` model: `csv.Reader.Read ∘ csv.Writer.Write = id` on records
of at least two fields, whatever follows the record in the stream.
-/
import Vegeta.Model.CodecResult
namespace Vegeta.Proofs.Codec
open Vegeta.Go Vegeta.Model.Codec

/-- `readLine`'s normalisation does nothing on input without '\r' -/
theorem normCRLF_id (s : Bytes) (h : 13 ∉ s) : normCRLF s = s := by
  induction s with
  | nil => simp [normCRLF]
  | cons c r ih =>
    simp only [List.mem_cons, not_or] at h
    have hc : c ≠ 13 := fun e => h.1 e.symm
    rw [normCRLF.eq_def]
    simp [hc, ih h.2]

/-! ### Writer: no '\r' is introduced -/

theorem quoteBody_noCR (f : Bytes) (h : 13 ∉ f) : 13 ∉ quoteBody f := by
  induction f with
  | nil => simp [quoteBody]
  | cons c r ih =>
    simp only [List.mem_cons, not_or] at h
    have := ih h.2
    unfold quoteBody
    split <;> simp_all

theorem writeField_noCR (f : Bytes) (h : 13 ∉ f) : 13 ∉ writeField f := by
  have := quoteBody_noCR f h
  unfold writeField
  split <;> simp_all

theorem joinFields_noCR : ∀ (fs : List Bytes), (∀ f ∈ fs, 13 ∉ f) → 13 ∉ joinFields fs
  | [], _ => by simp [joinFields]
  | [f], h => by
    simp only [joinFields]
    exact writeField_noCR f (h f (by simp))
  | f :: g :: fs, h => by
    have h1 := writeField_noCR f (h f (by simp))
    have h2 := joinFields_noCR (g :: fs) (fun x hx => h x (List.mem_cons_of_mem _ hx))
    simp only [joinFields, List.mem_append, List.mem_cons, not_or]
    exact ⟨h1, by decide, h2⟩

/-- a written record contains no '\r' unless a field does -/
theorem writeRecord_noCR (fs : List Bytes) (h : ∀ f ∈ fs, 13 ∉ f) : 13 ∉ writeRecord fs := by
  have := joinFields_noCR fs h
  simp [writeRecord, this]

/-! ### Fields that are written without quotes -/

theorem needsQuotes_false (f : Bytes) (h : needsQuotes f = false) :
    f = [] ∨ (f ≠ [] ∧ (∀ x ∈ f, x ≠ 10 ∧ x ≠ 13 ∧ x ≠ 34 ∧ x ≠ 44) ∧ spaceRuneLen f = 0) := by
  cases f with
  | nil => exact .inl rfl
  | cons a t =>
    right
    simp only [needsQuotes, List.isEmpty_cons, Bool.not_false, Bool.true_and, Bool.or_eq_false_iff,
      List.any_eq_false, bne_eq_false_iff_eq] at h
    refine ⟨by simp, ?_, h.2⟩
    intro x hx
    have := h.1.2 x hx
    simp only [isCsvSpecial, Bool.or_eq_true, beq_iff_eq, not_or] at this
    omega

theorem spaceRuneLen_append (f : Bytes) (hf : f ≠ []) (h0 : spaceRuneLen f = 0) (c : Nat)
    (hc : c = 44 ∨ c = 10) (r : Bytes) : spaceRuneLen (f ++ c :: r) = 0 := by
  match f, hf with
  | a :: f', _ =>
    rw [spaceRuneLen.eq_def] at h0 ⊢
    simp only [List.cons_append] at h0 ⊢
    split at h0
    · omega
    · rename_i hn
      rw [if_neg hn]
      match f' with
      | [] =>
        simp only [List.nil_append]
        split <;> simp_all <;> omega
      | [b] =>
        simp only [List.cons_append, List.nil_append]
        split <;> simp_all <;> omega
      | b :: d :: f'' =>
        simp only [List.cons_append]
        split <;> simp_all <;> omega

/-! ### `trimLead` -/

theorem trimLead_keep (a : Nat) (t : Bytes) (h : a = 10 ∨ spaceRuneLen (a :: t) = 0) :
    trimLead (a :: t) = a :: t := by
  simp only [trimLead, List.length_cons, trimLeadF]
  rcases h with h | h
  · simp [h]
  · simp [h]

theorem trimLead_comma (r : Bytes) : trimLead (44 :: r) = 44 :: r :=
  trimLead_keep _ _ (.inr (by simp [spaceRuneLen]))

theorem trimLead_quote (r : Bytes) : trimLead (34 :: r) = 34 :: r :=
  trimLead_keep _ _ (.inr (by simp [spaceRuneLen]))

theorem trimLead_nl (r : Bytes) : trimLead (10 :: r) = 10 :: r :=
  trimLead_keep _ _ (.inl rfl)

/-! ### Field scanners -/

theorem scanUnquoted_append (f : Bytes) (hf : ∀ x ∈ f, x ≠ 44 ∧ x ≠ 10) (c : Nat)
    (hc : c = 44 ∨ c = 10) (r : Bytes) : scanUnquoted (f ++ c :: r) = (f, c :: r) := by
  induction f with
  | nil => simp [scanUnquoted, hc]
  | cons a t ih =>
    have ha := hf a (by simp)
    have := ih (fun x hx => hf x (List.mem_cons_of_mem _ hx))
    simp [scanUnquoted, ha.1, ha.2, this]

theorem scanQuoted_quoteBody (f : Bytes) (d : Nat) (hd : d ≠ 34) (r : Bytes) :
    scanQuoted (quoteBody f ++ 34 :: d :: r) = some (f, d :: r) := by
  induction f with
  | nil => simp [quoteBody, scanQuoted, hd]
  | cons a t ih =>
    unfold quoteBody
    split
    · rename_i h
      subst h
      simp [scanQuoted, ih]
    · rename_i h
      rw [List.cons_append, scanQuoted.eq_def]
      simp [h, ih]

/-! ### One field of `parseFields` -/

theorem parseFields_unq (fuel : Nat) (s : Bytes) (acc : List Bytes) (a : Nat) (t : Bytes)
    (hs : trimLead s = a :: t) (ha : a ≠ 34) :
    parseFields (fuel + 1) s acc =
      if (scanUnquoted (a :: t)).1.any (· == 34) then .err
      else match (scanUnquoted (a :: t)).2 with
        | [] => .record ((scanUnquoted (a :: t)).1 :: acc).reverse []
        | d :: r' =>
          if d = 44 then parseFields fuel r' ((scanUnquoted (a :: t)).1 :: acc)
          else .record ((scanUnquoted (a :: t)).1 :: acc).reverse r' := by
  rw [parseFields, hs]
  split
  · rename_i heq
    injection heq with h1 _
    exact absurd h1 ha
  · rfl

theorem parseFields_field (fuel : Nat) (f : Bytes) (c : Nat) (hc : c = 44 ∨ c = 10) (r : Bytes)
    (acc : List Bytes) :
    parseFields (fuel + 1) (writeField f ++ c :: r) acc =
      if c = 44 then parseFields fuel r (f :: acc) else .record (f :: acc).reverse r := by
  unfold writeField
  by_cases hq : needsQuotes f = true
  · -- quoted
    rw [if_pos hq]
    have hc34 : c ≠ 34 := by omega
    have e : 34 :: (quoteBody f ++ [34]) ++ c :: r = 34 :: (quoteBody f ++ 34 :: c :: r) := by
      simp
    rw [e, parseFields, trimLead_quote]
    simp only [scanQuoted_quoteBody f c hc34 r]
    rcases hc with rfl | rfl <;> simp
  · rw [if_neg hq]
    have hq' : needsQuotes f = false := by simpa using hq
    rcases needsQuotes_false f hq' with rfl | ⟨hne, hsp, h0⟩
    · -- empty field
      have hs : trimLead (c :: r) = c :: r := by
        rcases hc with rfl | rfl
        · exact trimLead_comma r
        · exact trimLead_nl r
      rw [List.nil_append, parseFields_unq fuel _ acc c r hs (by omega)]
      have : scanUnquoted (c :: r) = ([], c :: r) := scanUnquoted_append [] (by simp) c hc r
      rw [this]
      simp
    · -- non-empty field without special bytes
      match f, hne with
      | a :: t, _ =>
        have ha := hsp a (by simp)
        have hs : trimLead (a :: t ++ c :: r) = a :: (t ++ c :: r) := by
          have := spaceRuneLen_append (a :: t) (by simp) h0 c hc r
          exact trimLead_keep _ _ (.inr this)
        rw [parseFields_unq fuel _ acc a _ hs ha.2.2.1]
        have : scanUnquoted (a :: (t ++ c :: r)) = (a :: t, c :: r) :=
          scanUnquoted_append (a :: t) (fun x hx => ⟨(hsp x hx).2.2.2, (hsp x hx).1⟩) c hc r
        rw [this]
        have h34 : (a :: t).any (· == 34) = false := by
          simp only [List.any_eq_false, beq_iff_eq]
          intro x hx
          exact (hsp x hx).2.2.1
        simp [h34]

/-! ### A whole record -/

theorem joinFields_length : ∀ (fs : List Bytes), fs.length ≤ (joinFields fs).length + 1
  | [] => by simp
  | [f] => by simp
  | f :: g :: fs => by
    have := joinFields_length (g :: fs)
    simp only [joinFields, List.length_cons, List.length_append] at this ⊢
    omega

theorem parseFields_joinFields (rest : Bytes) : ∀ (fs : List Bytes) (fuel : Nat) (acc : List Bytes),
    fs ≠ [] → fs.length ≤ fuel →
    parseFields fuel (joinFields fs ++ 10 :: rest) acc = .record (acc.reverse ++ fs) rest
  | [], _, _, h, _ => absurd rfl h
  | [f], fuel, acc, _, hl => by
    match fuel, hl with
    | k + 1, _ =>
      rw [joinFields, parseFields_field k f 10 (.inr rfl) rest acc]
      simp
  | f :: g :: fs, fuel, acc, _, hl => by
    match fuel, hl with
    | k + 1, hl =>
      have e : joinFields (f :: g :: fs) ++ 10 :: rest
          = writeField f ++ 44 :: (joinFields (g :: fs) ++ 10 :: rest) := by
        simp [joinFields]
      rw [e, parseFields_field k f 44 (.inl rfl) _ acc, if_pos rfl,
        parseFields_joinFields rest (g :: fs) k (f :: acc) (by simp)
          (by simp only [List.length_cons] at hl ⊢; omega)]
      simp

theorem writeRecord_cons (fs : List Bytes) (h2 : 2 ≤ fs.length) (rest : Bytes) :
    ∃ a t, writeRecord fs ++ rest = a :: t ∧ a ≠ 10 := by
  match fs, h2 with
  | f :: g :: fs, _ =>
    simp only [writeRecord, joinFields, writeField]
    by_cases hq : needsQuotes f = true
    · rw [if_pos hq]
      exact ⟨34, _, by simp; rfl, by decide⟩
    · rw [if_neg hq]
      have hq' : needsQuotes f = false := by simpa using hq
      rcases needsQuotes_false f hq' with rfl | ⟨hne, hsp, _⟩
      · exact ⟨44, _, by simp; rfl, by decide⟩
      · match f, hne with
        | a :: t, _ =>
          exact ⟨a, _, by simp; rfl, (hsp a (by simp)).1⟩

/-- a written record with at least two fields does not start with a newline (so `dropNL` keeps it) -/
theorem writeRecord_head (fs : List Bytes) (h2 : 2 ≤ fs.length) (rest : Bytes) :
    dropNL (writeRecord fs ++ rest) = writeRecord fs ++ rest := by
  obtain ⟨a, t, e, ha⟩ := writeRecord_cons fs h2 rest
  rw [e]
  simp [dropNL, ha]

/-- **csv.Reader.Read ∘ csv.Writer.Write = id** on any record of at least two fields, whatever follows
it in the stream: the reader returns exactly the written fields and stops exactly after the record. -/
theorem readRecord_writeRecord (fs : List Bytes) (h2 : 2 ≤ fs.length) (rest : Bytes) :
    readRecord (writeRecord fs ++ rest) = .record fs rest := by
  unfold readRecord
  rw [writeRecord_head fs h2 rest]
  obtain ⟨a, t, e, _⟩ := writeRecord_cons fs h2 rest
  rw [e]
  simp only
  rw [← e]
  have e2 : writeRecord fs ++ rest = joinFields fs ++ 10 :: rest := by simp [writeRecord]
  rw [e2]
  have hne : fs ≠ [] := by
    intro h; subst h; simp at h2
  have hl : fs.length ≤ (joinFields fs ++ 10 :: rest).length + 1 := by
    have := joinFields_length fs
    simp only [List.length_append, List.length_cons]
    omega
  rw [parseFields_joinFields rest fs _ [] hne hl]
  simp

/-- at end of stream the reader reports EOF -/
theorem readRecord_nil : readRecord [] = .eof := by
  simp [readRecord, dropNL]

/-! ### Sanity checks -/

example : readRecord (writeRecord [[97,44,98],[],[32,120,34,121]] ++ [49])
    = .record [[97,44,98],[],[32,120,34,121]] [49] := by decide

example : writeRecord [[97,44,98],[],[32,120,34,121]]
    = [34,97,44,98,34,44,44,34,32,120,34,34,121,34,10] := by decide

example : readRecord (writeRecord [[],[]] ++ writeRecord [[10],[13,10]])
    = .record [[],[]] (writeRecord [[10],[13,10]]) := by decide

example : readRecord (writeRecord [[10],[13,10]]) = .record [[10],[13,10]] [] := by decide

example : readRecord (writeRecord [[0xE2,0x80],[0xC2]] ++ [0xA0]) = .record [[0xE2,0x80],[0xC2]] [0xA0] := by
  decide

example : readRecord [10, 10] = .eof := by decide

example : readRecord [34, 97, 10] = .err := by decide

example : normCRLF [97, 13, 10, 98, 13] = [97, 10, 98] := by decide

end Vegeta.Proofs.Codec
