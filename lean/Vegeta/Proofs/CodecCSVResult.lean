/-
The CSV result codec round trip (lib/results.go `NewCSVEncoder` / `NewCSVDecoder`) on the domain
`ReprCSVResult`, at the level of one record and of whole streams, and the agreement of the independent
reader of the documented twelve columns (Vegeta/Spec/Layout.lean) with the decoder on encoder output.
-/
import Vegeta.Proofs.CodecDomain
import Vegeta.Proofs.CodecDecimal
import Vegeta.Proofs.CodecBase64
import Vegeta.Proofs.CodecCSV
import Vegeta.Spec.Layout
namespace Vegeta.Proofs.Codec
open Vegeta.Go Vegeta.Model.Codec

/-! ### the `Outcome` monad -/

theorem outcome_bind_ok {α β} (a : α) (f : α → Outcome β) : (Outcome.ok a >>= f) = f a := rfl
theorem outcome_pure {α} (a : α) : (pure a : Outcome α) = .ok a := rfl

/-! ### the header column -/

theorem ReprNumbers.tsS64 {r : Result} (h : ReprNumbers r) : inS64 r.timestamp := by
  have h0 := h.ts0
  have h1 := h.ts1
  unfold tsLimit at h1
  unfold inS64 minInt64 maxInt64
  omega

/-- every byte of the written header block is a byte -/
theorem headerBlock_lt (h : Header) (hr : ReprHeaders h)
    (hb : ∀ kv ∈ h, ∀ v ∈ kv.2, ∀ c ∈ v, c < 256) :
    ∀ x ∈ headerWrite h ++ [13, 10], x < 256 := by
  intro x hx
  simp only [List.mem_append, List.mem_cons, List.not_mem_nil, or_false] at hx
  rcases hx with hx | hx | hx
  · unfold headerWrite at hx
    rw [List.mem_flatMap] at hx
    obtain ⟨kv, hkv, hx⟩ := hx
    have hkv' : kv ∈ h := (sortKV_perm h).mem_iff.1 hkv
    obtain ⟨k, vs⟩ := kv
    obtain ⟨hk, _, hvs⟩ := hr.2 (k, vs) hkv'
    rw [writeKV_repr hk vs hvs, List.mem_flatMap] at hx
    obtain ⟨v, hv, hx⟩ := hx
    simp only [List.mem_append, List.mem_cons, List.not_mem_nil, or_false] at hx
    rcases hx with ((hx | hx | hx) | hx) | hx | hx
    · have := hk.tok x hx
      simp [isTokenByte] at this
      omega
    · omega
    · omega
    · exact hb (k, vs) hkv' v hv x hx
    · omega
    · omega
  · omega
  · omega

/-! ### one record through the decoder closure -/

/-- the decoder closure on the twelve written columns gives the result back -/
theorem resultOfRecord_csvFields (r : Result) (hr : ReprCSVResult r) :
    resultOfRecord (csvFields r) = .ok (csvDecoded r) := by
  have hn := hr.num
  have e0 : parseInt 64 (fmtInt (wrapS64 r.timestamp)) = .ok r.timestamp := by
    rw [wrapS64_id hn.tsS64]; exact parseInt_fmtInt _ hn.tsS64
  have e1 : parseUint 16 (fmtNat r.code) = .ok r.code :=
    parseUint_fmtNat 16 _ (by decide) (by have := hn.code; omega)
  have e2 : parseInt 64 (fmtInt r.latency) = .ok r.latency := parseInt_fmtInt _ hn.latency
  have e3 : parseUint 64 (fmtNat r.bytesOut) = .ok r.bytesOut :=
    parseUint_fmtNat 64 _ (by decide) hn.bytesOut
  have e4 : parseUint 64 (fmtNat r.bytesIn) = .ok r.bytesIn :=
    parseUint_fmtNat 64 _ (by decide) hn.bytesIn
  have e6 : b64Decode (b64Encode (r.body.getD [])) = .ok (r.body.getD []) :=
    b64Decode_b64Encode _ hr.body
  have e8 : parseUint 64 (fmtNat r.seq) = .ok r.seq :=
    parseUint_fmtNat 64 _ (by decide) hn.seq
  unfold resultOfRecord csvFields
  simp only [getField, List.getD_cons_zero, List.getD_cons_succ, e0, e1, e2, e3, e4, e6, e8,
    outcome_bind_ok]
  cases hh : r.headers with
  | none =>
    simp [headerBytes, b64Encode, outcome_pure, outcome_bind_ok, csvDecoded, hh]
  | some h =>
    obtain ⟨hrh, hb⟩ := hr.headers h hh
    have hne : (b64Encode (headerWrite h ++ [13, 10])).isEmpty = false := by
      cases hc : b64Encode (headerWrite h ++ [13, 10]) with
      | nil => rw [b64Encode_eq_nil] at hc; simp at hc
      | cons _ _ => rfl
    have ed := b64Decode_b64Encode _ (headerBlock_lt h hrh hb)
    simp [headerBytes, hne, ed, readMIMEHeader_headerWrite h hrh, outcome_pure, outcome_bind_ok,
      csvDecoded, hh]

/-- what comes back is `Equal` to what was written (in both argument orders) -/
theorem csvDecoded_equal (r : Result) (hr : ReprCSVResult r) :
    (csvDecoded r).equal r = true ∧ r.equal (csvDecoded r) = true := by
  have hh : headerEqual (r.headers.map sortKV) r.headers = true ∧
      headerEqual r.headers (r.headers.map sortKV) = true := by
    cases hh : r.headers with
    | none => exact ⟨rfl, rfl⟩
    | some h => exact headerEqual_sortKV h (hr.headers h hh).1.1
  simp [Result.equal, csvDecoded, hh.1, hh.2]

/-! ### no '\r' in the encoder's output -/

theorem csvFields_length (r : Result) : (csvFields r).length = 12 := rfl

theorem csvFields_noCR (r : Result) (hr : ReprCSVResult r) : ∀ f ∈ csvFields r, 13 ∉ f := by
  have hI : ∀ i : Int, 13 ∉ fmtInt i := fun i h => by have := fmtInt_chars i 13 h; omega
  have hN : ∀ n : Nat, 13 ∉ fmtNat n := fun n h => by have := fmtNat_digits n 13 h; omega
  have hB : ∀ b : Bytes, 13 ∉ b64Encode b := fun b h => (b64Encode_safe b 13 h).2.1 rfl
  intro f hf
  simp only [csvFields, List.mem_cons, List.not_mem_nil, or_false] at hf
  rcases hf with rfl | rfl | rfl | rfl | rfl | rfl | rfl | rfl | rfl | rfl | rfl | rfl
  · exact hI _
  · exact hN _
  · exact hI _
  · exact hN _
  · exact hN _
  · exact hr.error
  · exact hB _
  · exact hr.attack
  · exact hN _
  · exact hr.method
  · exact hr.url
  · exact hB _

theorem encodeCSV_noCR (r : Result) (hr : ReprCSVResult r) : 13 ∉ encodeCSV r :=
  writeRecord_noCR _ (csvFields_noCR r hr)

/-- no '\r' in an encoded record of the domain, hence none in a stream -/
theorem encodeCSVAll_noCR (rs : List Result) (hrs : ∀ r ∈ rs, ReprCSVResult r) : 13 ∉ encodeCSVAll rs := by
  unfold encodeCSVAll
  rw [List.mem_flatMap]
  rintro ⟨r, hr, h⟩
  exact encodeCSV_noCR r (hrs r hr) h

/-! ### streams -/

theorem encodeCSVAll_cons (r : Result) (rs : List Result) :
    encodeCSVAll (r :: rs) = writeRecord (csvFields r) ++ encodeCSVAll rs := by
  simp [encodeCSVAll, encodeCSV]

theorem length_le_encodeCSVAll (rs : List Result) : rs.length ≤ (encodeCSVAll rs).length := by
  induction rs with
  | nil => simp
  | cons r rs ih =>
    rw [encodeCSVAll_cons]
    simp only [writeRecord, List.length_append, List.length_cons, List.length_nil]
    omega

theorem decodeCSVF_encodeCSVAll (rs : List Result) (hrs : ∀ r ∈ rs, ReprCSVResult r) :
    ∀ fuel, rs.length < fuel → decodeCSVF fuel (encodeCSVAll rs) = (rs.map csvDecoded, .eof) := by
  induction rs with
  | nil =>
    intro fuel hf
    cases fuel with
    | zero => simp at hf
    | succ n => simp [encodeCSVAll, decodeCSVF, readRecord_nil]
  | cons r rs ih =>
    intro fuel hf
    cases fuel with
    | zero => simp at hf
    | succ n =>
      have hl := csvFields_length r
      rw [encodeCSVAll_cons, decodeCSVF, readRecord_writeRecord _ (by omega) _]
      simp only [hl, ne_eq, not_true_eq_false, if_false,
        resultOfRecord_csvFields r (hrs r (by simp)),
        ih (fun x hx => hrs x (by simp [hx])) n (by simp at hf; omega), List.map_cons]

/-- **CSV round trip on streams**: decoding the concatenation of the encoded records returns, for every
list of results of the domain, the list of decoded results and then end-of-stream -/
theorem decodeCSV_encodeCSVAll (rs : List Result) (hrs : ∀ r ∈ rs, ReprCSVResult r) :
    decodeCSV (encodeCSVAll rs) = (rs.map csvDecoded, .eof) := by
  unfold decodeCSV
  simp only [normCRLF_id _ (encodeCSVAll_noCR rs hrs)]
  exact decodeCSVF_encodeCSVAll rs hrs _ (by have := length_le_encodeCSVAll rs; omega)

theorem equalAll_map_csvDecoded (rs : List Result) (hrs : ∀ r ∈ rs, ReprCSVResult r) :
    equalAll (rs.map csvDecoded) rs = true := by
  induction rs with
  | nil => rfl
  | cons r rs ih =>
    simp only [List.map_cons, equalAll, Bool.and_eq_true]
    exact ⟨(csvDecoded_equal r (hrs r (by simp))).1, ih (fun x hx => hrs x (by simp [hx]))⟩

/-- … which is pointwise `Equal` to what was written -/
theorem csv_roundtrip_equal (rs : List Result) (hrs : ∀ r ∈ rs, ReprCSVResult r) :
    ∃ out, decodeCSV (encodeCSVAll rs) = (out, .eof) ∧ equalAll out rs = true :=
  ⟨_, decodeCSV_encodeCSVAll rs hrs, equalAll_map_csvDecoded rs hrs⟩

/-! ### the independent reader -/

open Vegeta.Spec.Layout

theorem addValue_eq_headerAdd (k v : Bytes) (m : Header) : addValue k v m = headerAdd k v m := by
  induction m with
  | nil => rfl
  | cons x m ih => simp only [addValue, headerAdd, ih]

theorem cutCRLF_line (l r : Bytes) (h : 13 ∉ l) : cutCRLF (l ++ 13 :: 10 :: r) = some (l, r) := by
  induction l with
  | nil => simp [cutCRLF]
  | cons c l ih =>
    simp only [List.mem_cons, not_or] at h
    have hc : c ≠ 13 := fun e => h.1 e.symm
    simp only [List.cons_append]
    simp [cutCRLF, hc, ih h.2]

theorem specHeaderBlock_line (k v rest : Bytes) (m : Header) (f : Nat) (hk : ReprKey k)
    (hv : ReprValue v) :
    specHeaderBlock (f + 1) (k ++ [58, 32] ++ v ++ [13, 10] ++ rest) m =
      specHeaderBlock f rest (headerAdd k v m) := by
  have hline : k ++ [58, 32] ++ v ++ [13, 10] ++ rest = (k ++ 58 :: 32 :: v) ++ 13 :: 10 :: rest := by
    simp
  have h13 : 13 ∉ k ++ 58 :: 32 :: v := by
    intro hc
    simp only [List.mem_append, List.mem_cons] at hc
    rcases hc with hc | hc | hc | hc
    · exact (tok_facts (hk.tok 13 hc)).2.2.2.2 rfl
    · omega
    · omega
    · exact (val_facts (hv.1 13 hc)).2.2.1 rfl
  obtain ⟨hs1, hs2⟩ := split_key hk (32 :: v)
  have hs3 : (k ++ 58 :: 32 :: v).dropWhile (· != 58) = 58 :: 32 :: v := by
    have hp : ∀ a ∈ k, (a != 58) = true := by
      intro a ha; have := tok_facts (hk.tok a ha); simp; omega
    rw [List.dropWhile_append_of_pos hp]; simp [List.dropWhile]
  have hE : (k ++ 58 :: 32 :: v).isEmpty = false := by cases k <;> simp
  have hd : (32 :: v).dropWhile (· == 32) = v := by
    have : ((32 : Nat) == 32) = true := rfl
    simp only [List.dropWhile, this]
    apply dropWhile_head
    intro c hc
    have : c ≠ 32 := fun e => hv.2.1 (e ▸ hc)
    simp [this]
  rw [hline, specHeaderBlock, cutCRLF_line _ _ h13]
  simp only [hE, hs1, hs3, hd, addValue_eq_headerAdd]
  simp

theorem specHeaderBlock_vals (k : Bytes) (hk : ReprKey k) (rest : Bytes) :
    ∀ (vs : List Bytes) (m : Header) (f : Nat), (∀ v ∈ vs, ReprValue v) →
      specHeaderBlock (vs.length + f)
        (vs.flatMap (fun v => k ++ [58, 32] ++ v ++ [13, 10]) ++ rest) m =
      specHeaderBlock f rest (vs.foldl (fun m v => headerAdd k v m) m) := by
  intro vs
  induction vs with
  | nil => intro m f _; simp
  | cons v vs ih =>
    intro m f hvs
    have hf : (v :: vs).length + f = (vs.length + f) + 1 := by simp; omega
    rw [hf, List.flatMap_cons, List.append_assoc,
      specHeaderBlock_line k v _ m _ hk (hvs v (by simp)),
      ih _ _ (fun w hw => hvs w (by simp [hw]))]
    rfl

theorem specHeaderBlock_block (hs : Header) : ∀ (m : Header) (f : Nat),
    (∀ kv ∈ hs, ReprKey kv.1 ∧ kv.2 ≠ [] ∧ ∀ v ∈ kv.2, ReprValue v) →
    ((m ++ hs).map (·.1)).Nodup →
    specHeaderBlock (nLines hs + f + 1) (hs.flatMap writeKV ++ [13, 10]) m = some (m ++ hs) := by
  induction hs with
  | nil =>
    intro m f _ _
    simp [specHeaderBlock, cutCRLF]
  | cons kv hs ih =>
    intro m f hall hnd
    obtain ⟨k, vs⟩ := kv
    obtain ⟨hk, hne, hvs⟩ := hall (k, vs) (by simp)
    have hall' : ∀ kv ∈ hs, ReprKey kv.1 ∧ kv.2 ≠ [] ∧ ∀ v ∈ kv.2, ReprValue v :=
      fun kv h => hall kv (by simp [h])
    have hkm : k ∉ m.map (·.1) := by
      simp only [List.map_append, List.map_cons, List.nodup_append] at hnd
      intro hmem
      exact hnd.2.2 k hmem k (by simp) rfl
    have hf : nLines ((k, vs) :: hs) + f + 1 = vs.length + (nLines hs + f + 1) := by
      simp [nLines]; omega
    rw [hf, List.flatMap_cons, writeKV_repr hk _ hvs, List.append_assoc,
      specHeaderBlock_vals k hk _ vs m _ hvs,
      foldl_headerAdd k m hkm vs hne, ih _ _ hall' (by simpa using hnd)]
    simp

/-- the spec reader's header-block parser reads the written block back to the sorted map, exactly like
`ReadMIMEHeader` -/
theorem specHeaderBlock_headerWrite (h : Header) (hr : ReprHeaders h) :
    specHeaderBlock ((headerWrite h ++ [13, 10]).length + 1) (headerWrite h ++ [13, 10]) [] =
      some (sortKV h) := by
  have hp := sortKV_perm h
  have hall : ∀ kv ∈ sortKV h, ReprKey kv.1 ∧ kv.2 ≠ [] ∧ ∀ v ∈ kv.2, ReprValue v :=
    fun kv hkv => hr.2 kv (hp.mem_iff.1 hkv)
  have hnd : ((sortKV h).map (·.1)).Nodup := (hp.map (·.1)).nodup_iff.2 hr.1
  have hle := nLines_le _ hall
  unfold headerWrite
  have hlen : (List.flatMap writeKV (sortKV h) ++ [13, 10]).length + 1 =
      nLines (sortKV h) + ((List.flatMap writeKV (sortKV h)).length + 2 - nLines (sortKV h)) + 1 := by
    simp only [List.length_append, List.length_cons, List.length_nil]; omega
  have := specHeaderBlock_block (sortKV h) []
    ((List.flatMap writeKV (sortKV h)).length + 2 - nLines (sortKV h)) hall (by simpa using hnd)
  rw [hlen, this]
  simp

/-- the spec reader on the twelve written columns -/
theorem specRecord_csvFields (r : Result) (hr : ReprCSVResult r) :
    specRecord (csvFields r) = some (csvDecoded r) := by
  have hn := hr.num
  have e0 : specInt (fmtInt (wrapS64 r.timestamp)) = some r.timestamp := by
    rw [wrapS64_id hn.tsS64]; exact specInt_fmtInt _
  have e6 : b64Decode (b64Encode (r.body.getD [])) = .ok (r.body.getD []) :=
    b64Decode_b64Encode _ hr.body
  have hcode := hn.code
  unfold specRecord csvFields
  simp only [e0, specNat_fmtNat, specInt_fmtInt, e6, optOutcome]
  cases hh : r.headers with
  | none =>
    simp [headerBytes, b64Encode, csvDecoded, hh, hcode]
  | some h =>
    obtain ⟨hrh, hb⟩ := hr.headers h hh
    have hne : (b64Encode (headerWrite h ++ [13, 10])).isEmpty = false := by
      cases hc : b64Encode (headerWrite h ++ [13, 10]) with
      | nil => rw [b64Encode_eq_nil] at hc; simp at hc
      | cons _ _ => rfl
    have ed := b64Decode_b64Encode _ (headerBlock_lt h hrh hb)
    simp only [headerBytes, Option.getD_some, hne, ed, specHeaderBlock_headerWrite h hrh]
    simp [csvDecoded, hh, hcode]

theorem specReadCSVF_encodeCSVAll (rs : List Result) (hrs : ∀ r ∈ rs, ReprCSVResult r) :
    ∀ fuel, rs.length < fuel → specReadCSVF fuel (encodeCSVAll rs) = (rs.map csvDecoded, .eof) := by
  induction rs with
  | nil =>
    intro fuel hf
    cases fuel with
    | zero => simp at hf
    | succ n => simp [encodeCSVAll, specReadCSVF, readRecord_nil]
  | cons r rs ih =>
    intro fuel hf
    cases fuel with
    | zero => simp at hf
    | succ n =>
      have hl := csvFields_length r
      rw [encodeCSVAll_cons, specReadCSVF, readRecord_writeRecord _ (by omega) _]
      simp only [specRecord_csvFields r (hrs r (by simp)),
        ih (fun x hx => hrs x (by simp [hx])) n (by simp at hf; omega), List.map_cons]

/-- **the independent reader of the documented twelve columns agrees**: it reads the encoder's output
back to the same results as the decoder -/
theorem specReadCSV_encodeCSVAll (rs : List Result) (hrs : ∀ r ∈ rs, ReprCSVResult r) :
    Vegeta.Spec.Layout.specReadCSV (encodeCSVAll rs) = (rs.map csvDecoded, .eof) := by
  unfold specReadCSV
  simp only [normCRLF_id _ (encodeCSVAll_noCR rs hrs)]
  exact specReadCSVF_encodeCSVAll rs hrs _ (by have := length_le_encodeCSVAll rs; omega)

/-! ### non-vacuity -/

/-- attack `x`, error `a,"⏎b` (comma, quote, newline), body `01 02 ff`, `GET http://a/`,
headers `X-A: 1`, `X-A: b c` -/
def exampleResult : Result :=
  { attack := [120], seq := 7, code := 200, timestamp := 1700000000123456789, latency := 1500000,
    bytesOut := 3, bytesIn := 42, error := [97, 44, 34, 10, 98], body := some [1, 2, 255],
    method := [71, 69, 84], url := [104, 116, 116, 112, 58, 47, 47, 97, 47],
    headers := some [([88, 45, 65], [[49], [98, 32, 99]])] }

theorem exampleResult_repr : ReprCSVResult exampleResult where
  num := by constructor <;> decide
  attack := by decide
  error := by decide
  method := by decide
  url := by decide
  body := by decide
  headers := by
    intro h hh
    cases hh
    unfold ReprHeaders ReprKey ReprValue
    decide

set_option maxRecDepth 100000 in
example : decodeCSV (encodeCSV exampleResult ++ encodeCSV exampleResult) =
    ([csvDecoded exampleResult, csvDecoded exampleResult], .eof) := by decide

set_option maxRecDepth 100000 in
example : Vegeta.Spec.Layout.specReadCSV (encodeCSV exampleResult ++ encodeCSV exampleResult) =
    ([csvDecoded exampleResult, csvDecoded exampleResult], .eof) := by decide

example : (csvDecoded exampleResult).equal exampleResult = true :=
  (csvDecoded_equal _ exampleResult_repr).1

end Vegeta.Proofs.Codec
