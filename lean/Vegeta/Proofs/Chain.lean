/-
Transcoding chains over an abstract codec family (part of C08; kept in its own file so that the
instance for the modelled CSV and JSON codecs, Proofs/ChainCodecs.lean, can build on it).
-/
import Vegeta.Model.DecoderFor
namespace Vegeta.Props.C08
open Vegeta.Go Vegeta.Model.DecoderFor

/-! ### transcoding chains -/

/-- two record sequences are equal record by record up to `eqv` (`Result.Equal`) -/
inductive SeqEq {R : Type} (eqv : R → R → Prop) : List R → List R → Prop where
  | nil : SeqEq eqv [] []
  | cons {a b : R} {as bs : List R} : eqv a b → SeqEq eqv as bs → SeqEq eqv (a :: as) (b :: bs)

theorem aux_seqEq_trans {R : Type} (eqv : R → R → Prop)
    (htrans : ∀ a b c, eqv a b → eqv b c → eqv a c) :
    ∀ xs ys zs : List R, SeqEq eqv xs ys → SeqEq eqv ys zs → SeqEq eqv xs zs := by
  intro xs ys zs h1
  induction h1 generalizing zs with
  | nil => intro h2; exact h2
  | cons hab _ ih =>
    intro h2
    cases h2 with
    | cons hbc hrest => exact SeqEq.cons (htrans _ _ _ hab hbc) (ih _ hrest)

theorem aux_seqEq_refl {R : Type} (eqv : R → R → Prop) (hrefl : ∀ a, eqv a a) :
    ∀ xs : List R, SeqEq eqv xs xs := by
  intro xs
  induction xs with
  | nil => exact SeqEq.nil
  | cons a as ih => exact SeqEq.cons (hrefl a) ih

/-- The per-format round-trip hypotheses (C07's theorems for CSV and JSON, the assumed value codec
for gob): on the common domain `Dom`, decoding what format `f` encoded gives the sequence back up
to `eqv`, and the result is again in the domain. -/
structure RoundTrips {F R S : Type} (c : Codecs F R S) (eqv : R → R → Prop) (Dom : List R → Prop) : Prop where
  refl  : ∀ a, eqv a a
  trans : ∀ a b c, eqv a b → eqv b c → eqv a c
  roundTrip : ∀ f rs, Dom rs → ∃ rs', c.dec f (c.enc f rs) = some rs' ∧ SeqEq eqv rs rs' ∧ Dom rs'

theorem aux_chain {F R S : Type} (c : Codecs F R S) (eqv : R → R → Prop) (Dom : List R → Prop)
    (h : RoundTrips c eqv Dom) (rs : List R) : ∀ (chain : List F) (f : F) (rs0 : List R),
    Dom rs0 → SeqEq eqv rs rs0 →
    ∃ fl s rs', c.runChain f (c.enc f rs0) chain = some (fl, s) ∧ fl = chain.getLast?.getD f ∧
      c.dec fl s = some rs' ∧ SeqEq eqv rs rs' := by
  intro chain
  induction chain with
  | nil =>
    intro f rs0 hd he
    obtain ⟨rs', h1, h2, _⟩ := h.roundTrip f rs0 hd
    exact ⟨f, _, rs', rfl, rfl, h1, aux_seqEq_trans eqv h.trans _ _ _ he h2⟩
  | cons f' rest ih =>
    intro f rs0 hd he
    obtain ⟨rs1, h1, h2, h3⟩ := h.roundTrip f rs0 hd
    obtain ⟨fl, s, rs', r1, r2, r3, r4⟩ := ih f' rs1 h3 (aux_seqEq_trans eqv h.trans _ _ _ he h2)
    refine ⟨fl, s, rs', ?_, ?_, r3, r4⟩
    · simp only [Codecs.runChain, Codecs.transcode, h1, Option.map_some]
      exact r1
    · rw [r2]
      cases rest with
      | nil => simp
      | cons a as =>
        have : (a :: as).getLast? = some ((a :: as).getLast (by simp)) :=
          List.getLast?_eq_some_getLast (by simp)
        simp [List.getLast?_cons_cons, this]

/-- **"Re-encoding a result file through any chain of formats with the encode command produces a
stream that decodes to the original sequence."**  For every chain of formats of any length (not
only ≤ 4) and every start format, given the per-format round trips: the chain runs through, and
the final stream decodes — in the last format of the chain — to the original sequence up to
`Result.Equal`. -/
theorem chain_preserves {F R S : Type} (c : Codecs F R S) (eqv : R → R → Prop) (Dom : List R → Prop)
    (h : RoundTrips c eqv Dom) (chain : List F) (f0 : F) (rs : List R) (hd : Dom rs) :
    ∃ fl s rs', c.runChain f0 (c.enc f0 rs) chain = some (fl, s) ∧ fl = chain.getLast?.getD f0 ∧
      c.dec fl s = some rs' ∧ SeqEq eqv rs rs' :=
  aux_chain c eqv Dom h rs chain f0 rs hd (aux_seqEq_refl eqv h.refl rs)

end Vegeta.Props.C08
