/-
Helper lemmas for C17: the maps of the plot (attack → labeledSeries, label → timeSeries) never
hold a key twice, so the series handed to `Plot.data` are exactly the ones the look-ups find.
-/
import Vegeta.Model.Plot
import Vegeta.Proofs.PlotSort
import Vegeta.Proofs.PlotOrder
namespace Vegeta.Proofs.PlotWF
open Vegeta.Go Vegeta.Model.LTTB Vegeta.Model.Plot

/-! ### generic association lists with `Bytes` keys -/

def alLookup {β} : List (Bytes × β) → Bytes → Option β
  | [], _ => none
  | (k', v) :: rest, k => if k' == k then some v else alLookup rest k

def alSet {β} : List (Bytes × β) → Bytes → β → List (Bytes × β)
  | [], k, v => [(k, v)]
  | (k', v') :: rest, k, v => if k' == k then (k, v) :: rest else (k', v') :: alSet rest k v

theorem seriesLookup_eq (ss : List (Bytes × TimeSeries)) (l : Bytes) : seriesLookup ss l = alLookup ss l := by
  induction ss with
  | nil => rfl
  | cons e rest ih => obtain ⟨k, v⟩ := e; simp only [seriesLookup, alLookup, ih]

theorem seriesSet_eq (ss : List (Bytes × TimeSeries)) (l : Bytes) (s : TimeSeries) : seriesSet ss l s = alSet ss l s := by
  induction ss with
  | nil => rfl
  | cons e rest ih => obtain ⟨k, v⟩ := e; simp only [seriesSet, alSet, ih]

theorem plotLookup_eq (p : Plot) (a : Bytes) : plotLookup p a = alLookup p a := by
  induction p with
  | nil => rfl
  | cons e rest ih => obtain ⟨k, v⟩ := e; simp only [plotLookup, alLookup, ih]

theorem plotSet_eq (p : Plot) (a : Bytes) (ls : LabeledSeries) : plotSet p a ls = alSet p a ls := by
  induction p with
  | nil => rfl
  | cons e rest ih => obtain ⟨k, v⟩ := e; simp only [plotSet, alSet, ih]

theorem alLookup_none {β} (xs : List (Bytes × β)) (k : Bytes) : alLookup xs k = none ↔ k ∉ xs.map (·.1) := by
  induction xs with
  | nil => simp [alLookup]
  | cons e rest ih =>
    obtain ⟨k', v⟩ := e
    simp only [alLookup, List.map_cons, List.mem_cons, not_or]
    by_cases h : k' = k
    · subst h; simp
    · have : (k' == k) = false := by simp [h]
      simp only [this, Bool.false_eq_true, ↓reduceIte, ih]
      constructor
      · intro hh; exact ⟨fun e => h e.symm, hh⟩
      · intro hh; exact hh.2

theorem alSet_keys {β} (xs : List (Bytes × β)) (k : Bytes) (v : β) :
    (alSet xs k v).map (·.1) = if k ∈ xs.map (·.1) then xs.map (·.1) else xs.map (·.1) ++ [k] := by
  induction xs with
  | nil => simp [alSet]
  | cons e rest ih =>
    obtain ⟨k', v'⟩ := e
    simp only [alSet, List.map_cons, List.mem_cons]
    by_cases h : k' = k
    · subst h; simp
    · have : (k' == k) = false := by simp [h]
      simp only [this, Bool.false_eq_true, ↓reduceIte, List.map_cons, ih]
      have h' : ¬ k = k' := fun e => h e.symm
      simp only [h', false_or]
      split <;> simp

theorem alSet_nodup {β} (xs : List (Bytes × β)) (k : Bytes) (v : β) (h : (xs.map (·.1)).Nodup) :
    ((alSet xs k v).map (·.1)).Nodup := by
  rw [alSet_keys]
  split
  · exact h
  · rename_i hk
    rw [List.nodup_append]
    refine ⟨h, by simp, ?_⟩
    intro a ha b hb
    simp only [List.mem_singleton] at hb
    subst hb
    intro e; subst e; exact hk ha

theorem alLookup_mem {β} (xs : List (Bytes × β)) (h : (xs.map (·.1)).Nodup) (k : Bytes) (v : β) :
    (k, v) ∈ xs ↔ alLookup xs k = some v := by
  induction xs with
  | nil => simp [alLookup]
  | cons e rest ih =>
    obtain ⟨k', v'⟩ := e
    simp only [List.map_cons, List.nodup_cons] at h
    obtain ⟨hk', hnd⟩ := h
    simp only [List.mem_cons, alLookup, Prod.mk.injEq]
    by_cases hk : k' = k
    · subst hk
      simp only [beq_self_eq_true, ↓reduceIte, Option.some.injEq, true_and]
      constructor
      · rintro (h | h)
        · exact h.symm
        · exact absurd (List.mem_map.mpr ⟨(k', v), h, rfl⟩) hk'
      · intro h; left; exact h.symm
    · have : (k' == k) = false := by simp [hk]
      simp only [this, Bool.false_eq_true, ↓reduceIte]
      rw [← ih hnd]
      constructor
      · rintro (h | h)
        · exact absurd h.1.symm hk
        · exact h
      · intro h; right; exact h

/-! ### well-formed plots -/

def SeriesWF (ls : LabeledSeries) : Prop := (ls.series.map (·.1)).Nodup

def PlotWF (p : Plot) : Prop :=
  (p.map (·.1)).Nodup ∧ ∀ a ls, (a, ls) ∈ p → SeriesWF ls

theorem ensureSeries_nodup (ss : List (Bytes × TimeSeries)) (r : Result) (h : (ss.map (·.1)).Nodup) :
    ((ensureSeries ss r).map (·.1)).Nodup := by
  unfold ensureSeries
  split
  · exact h
  · rename_i hn
    rw [seriesLookup_eq, alLookup_none] at hn
    rw [List.map_append, List.nodup_append]
    refine ⟨h, by simp, ?_⟩
    intro a ha b hb
    simp only [List.map_cons, List.map_nil, List.mem_singleton] at hb
    subst hb
    intro e; subst e; exact hn ha

theorem release_wf : ∀ (fuel : Nat) (ls ls' : LabeledSeries), SeriesWF ls → release fuel ls = .ok ls' → SeriesWF ls' := by
  intro fuel
  induction fuel with
  | zero => intro ls ls' h e; simp [release] at e; subst e; exact h
  | succ fuel ih =>
    intro ls ls' h e
    unfold release at e
    split at e
    · cases e; exact h
    · split at e
      · cases e
      · split at e
        · rename_i p _ s _ s' _
          apply ih _ ls' _ e
          unfold SeriesWF
          simp only
          rw [seriesSet_eq]
          exact alSet_nodup _ _ _ h
        · cases e
        · cases e

theorem add_wf (ls ls' : LabeledSeries) (r : Result) (h : SeriesWF ls) (e : ls.add r = .ok ls') : SeriesWF ls' := by
  unfold LabeledSeries.add at e
  simp only [] at e
  split at e
  · cases e
    exact ensureSeries_nodup _ _ h
  · refine release_wf _ _ _ ?_ e
    exact ensureSeries_nodup ls.series r h

theorem new_wf : SeriesWF LabeledSeries.new := by simp [SeriesWF, LabeledSeries.new]

theorem plot_add_wf (p p' : Plot) (r : Result) (h : PlotWF p) (e : Plot.add p r = .ok p') : PlotWF p' := by
  unfold Plot.add at e
  simp only [] at e
  split at e
  · rename_i ls' hadd
    cases e
    obtain ⟨hk, hs⟩ := h
    have hls : SeriesWF ((plotLookup p r.attack).getD LabeledSeries.new) := by
      cases hl : plotLookup p r.attack with
      | none => simpa using new_wf
      | some ls0 =>
        simp only [Option.getD_some]
        rw [plotLookup_eq, ← alLookup_mem p hk] at hl
        exact hs _ _ hl
    have hls' := add_wf _ _ _ hls hadd
    rw [plotSet_eq]
    refine ⟨alSet_nodup _ _ _ hk, ?_⟩
    intro a ls hmem
    -- an entry of the updated map is the new one or an old one
    have hnd := alSet_nodup p r.attack ls' hk
    rw [alLookup_mem _ hnd] at hmem
    rw [← plotSet_eq, ← plotLookup_eq, Vegeta.Proofs.PlotOrder.plotLookup_set] at hmem
    split at hmem
    · cases hmem; exact hls'
    · rw [plotLookup_eq, ← alLookup_mem p hk] at hmem
      exact hs _ _ hmem
  · cases e
  · cases e

theorem addAll_wf : ∀ (rs : List Result) (p p' : Plot), PlotWF p → Plot.addAll p rs = .ok p' → PlotWF p' := by
  intro rs
  induction rs with
  | nil => intro p p' h e; simp [Plot.addAll] at e; subst e; exact h
  | cons r rs ih =>
    intro p p' h e
    unfold Plot.addAll at e
    split at e
    · rename_i p1 h1
      exact ih p1 p' (plot_add_wf p p1 r h h1) e
    · cases e
    · cases e

theorem empty_wf : PlotWF [] := by simp [PlotWF]

/-- In a well-formed plot the series handed to `Plot.data` are exactly the ones found by looking
up an attack and a label. -/
theorem allSeries_mem (p : Plot) (h : PlotWF p) (s : TimeSeries) :
    s ∈ allSeries p ↔ ∃ a l, (plotLookup p a).bind (fun ls => seriesLookup ls.series l) = some s := by
  obtain ⟨hk, hs⟩ := h
  unfold allSeries
  rw [(Vegeta.Proofs.PlotSort.sortBy_perm _ _).mem_iff, List.mem_flatMap]
  constructor
  · rintro ⟨⟨a, ls⟩, he, hm⟩
    rw [List.mem_map] at hm
    obtain ⟨⟨l, s'⟩, hl, hs'⟩ := hm
    simp only at hs'
    subst hs'
    refine ⟨a, l, ?_⟩
    rw [plotLookup_eq, (alLookup_mem p hk a ls).mp he]
    simp only [Option.bind_some]
    rw [seriesLookup_eq]
    exact (alLookup_mem ls.series (hs a ls he) l s').mp hl
  · rintro ⟨a, l, hb⟩
    cases hl : plotLookup p a with
    | none => rw [hl] at hb; simp at hb
    | some ls =>
      rw [hl] at hb
      simp only [Option.bind_some] at hb
      rw [plotLookup_eq, ← alLookup_mem p hk] at hl
      refine ⟨(a, ls), hl, ?_⟩
      rw [List.mem_map]
      refine ⟨(l, s), ?_, rfl⟩
      rw [seriesLookup_eq, ← alLookup_mem ls.series (hs a ls hl)] at hb
      exact hb

/-! ### the byte-wise order on strings is a strict order -/

theorem bytesLt_irrefl : ∀ a : Bytes, bytesLt a a = false := by
  intro a
  induction a with
  | nil => rfl
  | cons x xs ih => simp [bytesLt, ih]

theorem bytesLt_trans : ∀ a b c : Bytes, bytesLt a b = true → bytesLt b c = true → bytesLt a c = true := by
  intro a
  induction a with
  | nil =>
    intro b c h1 h2
    cases b with
    | nil => simp [bytesLt] at h1
    | cons y ys =>
      cases c with
      | nil => simp [bytesLt] at h2
      | cons z zs => rfl
  | cons x xs ih =>
    intro b c h1 h2
    cases b with
    | nil => simp [bytesLt] at h1
    | cons y ys =>
      cases c with
      | nil => simp [bytesLt] at h2
      | cons z zs =>
        simp only [bytesLt] at h1 h2 ⊢
        by_cases hxy : x < y
        · by_cases hyz : y < z
          · have : x < z := by omega
            simp [this]
          · simp only [hyz, ↓reduceIte] at h2
            by_cases hzy : z < y
            · simp [hzy] at h2
            · have : y = z := by omega
              subst this
              simp [hxy]
        · simp only [hxy, ↓reduceIte] at h1
          by_cases hyx : y < x
          · simp [hyx] at h1
          · simp only [hyx, ↓reduceIte] at h1
            have hxy' : x = y := by omega
            subst hxy'
            by_cases hyz : x < z
            · simp [hyz]
            · simp only [hyz, ↓reduceIte] at h2 ⊢
              by_cases hzy : z < x
              · simp [hzy] at h2
              · simp only [hzy, ↓reduceIte] at h2 ⊢
                exact ih ys zs h1 h2

/-- the series are handed over in `attack+label` order -/
theorem allSeries_sorted (p : Plot) :
    (allSeries p).Pairwise (fun a b => bytesLt (seriesKey b) (seriesKey a) = false) :=
  Vegeta.Proofs.PlotSort.sortBy_sorted (fun a b => bytesLt (seriesKey a) (seriesKey b))
    (fun _ => bytesLt_irrefl _) (fun _ _ _ => bytesLt_trans _ _ _) _

end Vegeta.Proofs.PlotWF
