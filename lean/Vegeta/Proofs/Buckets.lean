/-
Helper lemmas for C17: the bucket arithmetic of `lttb.Downsample` in soft floats —
`size = float64(count-2)/float64(threshold-2)` is a positive normal value, and the boundaries
`int(float64(j)*size)` increase by at least one per step.
-/
import Vegeta.Model.LTTB
import Vegeta.Proofs.Rounding
namespace Vegeta.Proofs.Buckets
open Vegeta.Go Vegeta.Model.LTTB Vegeta.Proofs.Rounding

/-- `int(float64(j) * size)` -/
def Bf (size : F64) (j : Int) : Int := F64.toInt64 (F64.mul (F64.ofInt j) size)

theorem width_eq (size : F64) (i : Int) : bucketWidth size i = Bf size (i+2) - Bf size (i+1) := by
  unfold bucketWidth bucketHi bucketLo Bf; omega

/-- The loop condition follows from: every width is ≥ 1 and, at every iteration, the points
consumed so far leave at least one. -/
theorem loopOK (size : F64) : ∀ (k : Nat) (i rem : Int),
    (∀ m : Nat, m < k → 1 ≤ Bf size (i+m+2) - Bf size (i+m+1)) →
    (∀ m : Nat, m < k → Bf size (i+m+1) - Bf size (i+1) + 1 ≤ rem) →
    bucketsLoopOK size k i rem = true := by
  intro k
  induction k with
  | zero => intro i rem _ _; rfl
  | succ k ih =>
    intro i rem hw hr
    unfold bucketsLoopOK
    have h0 := hw 0 (by omega)
    have r0 := hr 0 (by omega)
    simp only [Int.natCast_zero, Int.add_zero] at h0 r0
    rw [width_eq]
    simp only [Bool.and_eq_true, decide_eq_true_eq]
    refine ⟨⟨h0, by omega⟩, ?_⟩
    apply ih
    · intro m hm
      have := hw (m+1) (by omega)
      have e1 : i + ((m + 1 : Nat) : Int) + 2 = i + 1 + (m : Int) + 2 := by omega
      have e2 : i + ((m + 1 : Nat) : Int) + 1 = i + 1 + (m : Int) + 1 := by omega
      rw [e1, e2] at this; exact this
    · intro m hm
      have := hr (m+1) (by omega)
      have e1 : i + ((m + 1 : Nat) : Int) + 1 = i + 1 + (m : Int) + 1 := by omega
      rw [e1] at this
      have e3 : i + 1 + 1 = i + 2 := by omega
      rw [e3]
      -- the width just consumed is smaller than what was left
      have hle : Bf size (i + 2) - Bf size (i + 1) ≤ rem := by
        rcases Nat.eq_zero_or_pos k with hk | hk
        · omega
        · have := hr 1 (by omega)
          simp only [Int.natCast_one] at this
          have e : i + 1 + 1 = i + 2 := by omega
          rw [e] at this; omega
      omega

/-! ### the bucket size -/

/-- facts about `size = fl(w / u)` for `1 ≤ u < w < 2^50`: a positive normal `M / 2^E`
within half a unit of its last place (`2^-Ks`) of the exact quotient -/
structure SizeFacts (w u : Nat) (size : F64) (M E Ks : Nat) : Prop where
  norm : IsNorm size M E
  hE : E ≤ 52
  hKs1 : 1 ≤ Ks
  hKs2 : Ks ≤ 52
  up : 2 * (M * 2 ^ Ks * u) ≤ (2 * (w * 2 ^ Ks) + u) * 2 ^ E
  lo : (2 * (w * 2 ^ Ks)) * 2 ^ E ≤ 2 * (M * 2 ^ Ks * u) + u * 2 ^ E
  brK : F64.p52 * u ≤ w * 2 ^ Ks
  hEK1 : E ≤ Ks
  hEK2 : Ks ≤ E + 1

theorem size_facts (count threshold : Int) (h3 : 3 ≤ threshold) (hlt : threshold < count)
    (hc : count ≤ 1125899906842624) :
    ∃ M E Ks, SizeFacts (count - 2).toNat (threshold - 2).toNat (bucketSize count threshold) M E Ks := by
  obtain ⟨Kw, hKw1, hKw2, hNw⟩ := ofInt_norm (count - 2) (by omega) (by omega)
  obtain ⟨Ku, hKu1, hKu2, hNu⟩ := ofInt_norm (threshold - 2) (by omega) (by omega)
  generalize hw : (count - 2).toNat = w at *
  generalize hu : (threshold - 2).toNat = u at *
  have hu1 : 1 ≤ u := by omega
  have huw : u < w := by omega
  have hw50 : w < 1125899906842624 := by omega
  -- size = roundRat (w·g) (u·g)
  obtain ⟨g, hg, hsz⟩ : ∃ g, 0 < g ∧ bucketSize count threshold = F64.roundRat false (w * g) (u * g) := by
    unfold bucketSize
    rw [div_norm _ _ _ _ _ _ hNw hNu]
    by_cases h : Kw ≤ Ku
    · refine ⟨2 ^ Ku, two_pow_pos _, ?_⟩
      rw [if_pos h]
      congr 1
      have : 2 ^ Ku = 2 ^ Kw * 2 ^ (Ku - Kw) := by rw [← Nat.pow_add]; congr 1; omega
      rw [this]; ac_rfl
    · refine ⟨2 ^ Kw, two_pow_pos _, ?_⟩
      rw [if_neg h]
      congr 1
      have : 2 ^ Kw = 2 ^ Ku * 2 ^ (Kw - Ku) := by rw [← Nat.pow_add]; congr 1; omega
      rw [this]; ac_rfl
  have hd : 0 < u * g := Nat.mul_pos hu1 hg
  have hdn : u * g ≤ w * g := Nat.mul_le_mul_right g (Nat.le_of_lt huw)
  have hnd : w * g < u * g * 2 ^ 52 := by
    have e : (2:Nat) ^ 52 = 4503599627370496 := by decide
    have h1 : w * g < 4503599627370496 * g := Nat.mul_lt_mul_of_pos_right (by omega) hg
    have h2 : 4503599627370496 * g ≤ u * g * 4503599627370496 := by
      have : u * g * 4503599627370496 = 4503599627370496 * g * u := by ac_rfl
      rw [this]; exact Nat.le_mul_of_pos_right _ hu1
    rw [e]; omega
  obtain ⟨Ks, hKs1, hKs2, hlo, hhi⟩ := bracket_exists (w * g) (u * g) hd hdn hnd
  have hsz2 := roundRat_eq (w * g) (u * g) Ks hd hKs1 hKs2 hlo hhi
  obtain ⟨hb1, hb2⟩ := rq_bounds (w * g * 2 ^ Ks) (u * g) hd hlo hhi
  obtain ⟨M, E, hN, hE, hME, _⟩ := decode Ks (rq (w * g * 2 ^ Ks) (u * g)) hKs1 hKs2 hb1 hb2
  obtain ⟨herr1, herr2⟩ := rq_err (w * g * 2 ^ Ks) (u * g) hd
  generalize rq (w * g * 2 ^ Ks) (u * g) = Q at *
  have hM1 := hN.lo
  have hM2 := hN.hi
  have hpKs : 0 < 2 ^ Ks := two_pow_pos Ks
  have hpE : 0 < 2 ^ E := two_pow_pos E
  refine ⟨M, E, Ks, ⟨by rw [hsz, hsz2]; exact hN, hE, hKs1, hKs2, ?_, ?_, ?_, ?_, ?_⟩⟩
  · -- 2·Q·u·g ≤ 2·w·g·2^Ks + u·g, times 2^E, with M·2^Ks = Q·2^E; cancel g
    apply Nat.le_of_mul_le_mul_right _ hg
    have e1 : 2 * (M * 2 ^ Ks * u) * g = 2 * (Q * (u * g)) * 2 ^ E := by
      rw [hME]; ac_rfl
    have e2 : (2 * (w * 2 ^ Ks) + u) * 2 ^ E * g = (2 * (w * g * 2 ^ Ks) + u * g) * 2 ^ E := by
      have : (2 * (w * 2 ^ Ks) + u) * g = 2 * (w * g * 2 ^ Ks) + u * g := by
        rw [Nat.add_mul]; congr 1; ac_rfl
      rw [← this]; ac_rfl
    rw [e1, e2]
    exact Nat.mul_le_mul_right _ herr1
  · apply Nat.le_of_mul_le_mul_right _ hg
    have e1 : (2 * (M * 2 ^ Ks * u) + u * 2 ^ E) * g = (2 * (Q * (u * g)) + u * g) * 2 ^ E := by
      rw [Nat.add_mul, Nat.add_mul]
      congr 1
      · rw [hME]; ac_rfl
      · ac_rfl
    have e2 : 2 * (w * 2 ^ Ks) * 2 ^ E * g = (2 * (w * g * 2 ^ Ks)) * 2 ^ E := by ac_rfl
    rw [e1, e2]
    exact Nat.mul_le_mul_right _ herr2
  · -- 2^52·u·g ≤ w·g·2^Ks
    apply Nat.le_of_mul_le_mul_right _ hg
    have e1 : F64.p52 * u * g = F64.p52 * (u * g) := by ac_rfl
    have e2 : w * 2 ^ Ks * g = w * g * 2 ^ Ks := by ac_rfl
    rw [e1, e2]; exact hlo
  · -- E ≤ Ks: 2^52·2^E ≤ Q·2^E = M·2^Ks < 2^53·2^Ks
    rcases Nat.lt_or_ge Ks E with h | h
    · exfalso
      have h1 : 2 ^ (Ks + 1) ≤ 2 ^ E := Nat.pow_le_pow_right (by decide) h
      have h2 : F64.p52 * 2 ^ E ≤ Q * 2 ^ E := Nat.mul_le_mul_right _ hb1
      have h3 : M * 2 ^ Ks < F64.p53 * 2 ^ Ks := Nat.mul_lt_mul_of_pos_right hM2 hpKs
      rw [Nat.pow_succ] at h1
      rw [← hME] at h2
      unfold F64.p52 F64.p53 at *
      omega
    · exact h
  · -- Ks ≤ E + 1: 2^52·2^Ks ≤ M·2^Ks = Q·2^E ≤ 2^53·2^E
    rcases Nat.lt_or_ge (E + 1) Ks with h | h
    · exfalso
      have h1 : 2 ^ (E + 1 + 1) ≤ 2 ^ Ks := Nat.pow_le_pow_right (by decide) h
      have h2 : F64.p52 * 2 ^ Ks ≤ M * 2 ^ Ks := Nat.mul_le_mul_right _ hM1
      have h3 : Q * 2 ^ E ≤ F64.p53 * 2 ^ E := Nat.mul_le_mul_right _ hb2
      rw [Nat.pow_succ, Nat.pow_succ] at h1
      rw [hME] at h2
      unfold F64.p52 F64.p53 at *
      omega
    · exact h

/-- `j · size < 2^52` for `j ≤ u + 1` -/
theorem jM_lt (w u M E Ks : Nat) (size : F64) (hf : SizeFacts w u size M E Ks)
    (hu1 : 1 ≤ u) (hw50 : w < 1125899906842624) (huw : u < w) (j : Nat) (hj : j ≤ u + 1) :
    j * M < 2 ^ E * 2 ^ 52 := by
  -- 2·M·u ≤ (2w+u)·2^E  (from `up`, since u ≤ u·2^Ks), then j ≤ 2u
  have hpK : 0 < 2 ^ Ks := two_pow_pos Ks
  have hup : 2 * (M * u) ≤ (2 * w + u) * 2 ^ E := by
    apply Nat.le_of_mul_le_mul_right _ hpK
    have e1 : 2 * (M * u) * 2 ^ Ks = 2 * (M * 2 ^ Ks * u) := by ac_rfl
    have e2 : (2 * w + u) * 2 ^ E * 2 ^ Ks = (2 * (w * 2 ^ Ks) + u * 2 ^ Ks) * 2 ^ E := by
      have : (2 * w + u) * 2 ^ Ks = 2 * (w * 2 ^ Ks) + u * 2 ^ Ks := by
        rw [Nat.add_mul]; congr 1; ac_rfl
      rw [← this]; ac_rfl
    rw [e1, e2]
    refine Nat.le_trans hf.up (Nat.mul_le_mul_right _ ?_)
    have : u ≤ u * 2 ^ Ks := Nat.le_mul_of_pos_right u hpK
    omega
  have e52 : (2:Nat) ^ 52 = 4503599627370496 := by decide
  rw [e52]
  -- multiply the goal by 2u
  have h2u : 0 < 2 * u := by omega
  apply Nat.lt_of_mul_lt_mul_left (a := 2 * u)
  have hj2 : j ≤ 2 * u := by omega
  have h1 : 2 * u * (j * M) = j * (2 * (M * u)) := by ac_rfl
  have h2 : j * (2 * (M * u)) ≤ j * ((2 * w + u) * 2 ^ E) := Nat.mul_le_mul_left j hup
  have h3 : j * ((2 * w + u) * 2 ^ E) ≤ 2 * u * ((2 * w + u) * 2 ^ E) := Nat.mul_le_mul_right _ hj2
  have h4 : 2 * u * ((2 * w + u) * 2 ^ E) < 2 * u * (2 ^ E * 4503599627370496) := by
    apply Nat.mul_lt_mul_of_pos_left _ h2u
    rw [Nat.mul_comm (2 ^ E)]
    exact Nat.mul_lt_mul_of_pos_right (by omega) (two_pow_pos E)
  rw [h1]
  omega

/-- `int(float64(j) * size) = ⌊j·M/2^E + 2^-(K+1)⌋` for `1 ≤ j ≤ u + 1` -/
theorem Bf_eq (w u M E Ks : Nat) (size : F64) (hf : SizeFacts w u size M E Ks)
    (hu1 : 1 ≤ u) (hw50 : w < 1125899906842624) (huw : u < w) (j : Nat) (hj1 : 1 ≤ j) (hj : j ≤ u + 1) :
    ∃ K, 1 ≤ K ∧ K ≤ 52 ∧ Bracket (j * M) E K ∧ Bf size (j : Int) = ((TT (j * M) E K : Nat) : Int) := by
  have hx := jM_lt w u M E Ks size hf hu1 hw50 huw j hj
  obtain ⟨K, h1, h2, h3, h4⟩ := toInt64_mul_ofInt size M E hf.norm hf.hE (j : Int) (by omega) (by omega)
    (by simpa using hx)
  simp only [Int.toNat_natCast] at h3 h4
  exact ⟨K, h1, h2, h3, h4⟩

/-- **Every bucket is at least one point wide**: `int(float64(j+1)·size) ≥ int(float64(j)·size) + 1`. -/
theorem Bf_step (w u M E Ks : Nat) (size : F64) (hf : SizeFacts w u size M E Ks)
    (hu1 : 1 ≤ u) (hw50 : w < 1125899906842624) (huw : u < w) (j : Nat) (hj1 : 1 ≤ j) (hj : j + 1 ≤ u + 1) :
    Bf size (j : Int) + 1 ≤ Bf size ((j + 1 : Nat) : Int) := by
  obtain ⟨K, _, _, hb, e⟩ := Bf_eq w u M E Ks size hf hu1 hw50 huw j hj1 (by omega)
  obtain ⟨K', _, _, hb', e'⟩ := Bf_eq w u M E Ks size hf hu1 hw50 huw (j+1) (by omega) hj
  rw [e, e']
  have hME : 2 ^ E ≤ M := by
    have h1 : 2 ^ E ≤ 2 ^ 52 := Nat.pow_le_pow_right (by decide) hf.hE
    have h2 : (2:Nat) ^ 52 = F64.p52 := by decide
    have := hf.norm.lo
    omega
  have hstep : j * M + 2 ^ E ≤ (j + 1) * M := by rw [Nat.add_mul, Nat.one_mul]; omega
  have := TT_step (j * M) ((j + 1) * M) E K K' hb hb' hstep
  omega

theorem Bf_mono (w u M E Ks : Nat) (size : F64) (hf : SizeFacts w u size M E Ks)
    (hu1 : 1 ≤ u) (hw50 : w < 1125899906842624) (huw : u < w) :
    ∀ (n j : Nat), 1 ≤ j → j + n ≤ u + 1 → Bf size (j : Int) + n ≤ Bf size ((j + n : Nat) : Int) := by
  intro n
  induction n with
  | zero => intro j _ _; simp
  | succ n ih =>
    intro j hj1 hj
    have h1 := ih j hj1 (by omega)
    have h2 := Bf_step w u M E Ks size hf hu1 hw50 huw (j + n) (by omega) (by omega)
    have e : j + n + 1 = j + (n + 1) := by omega
    rw [e] at h2
    omega

/-- `int(1 + size) = ⌊1 + M/2^E + 2^-(K+1)⌋ ≥ 2` -/
theorem firstFetch_ge (w u M E Ks : Nat) (size : F64) (hf : SizeFacts w u size M E Ks)
    (hu1 : 1 ≤ u) (hw50 : w < 1125899906842624) (huw : u < w) :
    ∃ K, 1 ≤ K ∧ K ≤ 52 ∧ Bracket (2 ^ E + M) E K ∧
      firstFetch size = ((TT (2 ^ E + M) E K : Nat) : Int) ∧ 2 ≤ firstFetch size := by
  have hE := hf.hE
  have hpE : 0 < 2 ^ E := two_pow_pos E
  obtain ⟨g, hg⟩ : ∃ g, 2 ^ 52 = 2 ^ E * g := ⟨2 ^ (52 - E), by rw [← Nat.pow_add]; congr 1; omega⟩
  have hg' : 2 ^ (52 - E) = g := by
    have : 2 ^ 52 = 2 ^ E * 2 ^ (52 - E) := by rw [← Nat.pow_add]; congr 1; omega
    rw [this] at hg
    exact Nat.eq_of_mul_eq_mul_left hpE hg
  have hgpos : 0 < g := by rw [← hg']; exact two_pow_pos _
  have e52 : (2:Nat) ^ 52 = F64.p52 := by decide
  have hM1 := hf.norm.lo
  have hM2 := hf.norm.hi
  have en : F64.p52 + M * g = g * (2 ^ E + M) := by
    rw [Nat.mul_add, ← e52, hg]; ac_rfl
  have hge : 2 ^ E ≤ 2 ^ E + M := Nat.le_add_right _ _
  have h2M := jM_lt w u M E Ks size hf hu1 hw50 huw 2 (by omega)
  have hlt : 2 ^ E + M < 2 ^ E * 2 ^ 52 := by
    rw [e52] at h2M ⊢
    unfold F64.p52 at *
    omega
  obtain ⟨K, hK1, hK2, hlo, hhi⟩ := bracket_exists (2 ^ E + M) (2 ^ E) hpE hge hlt
  refine ⟨K, hK1, hK2, ⟨hlo, hhi⟩, ?_⟩
  have hff : firstFetch size = ((TT (2 ^ E + M) E K : Nat) : Int) := by
    unfold firstFetch
    rw [add_one_norm size M E hf.norm hE, hg', en]
    unfold TT
    generalize 2 ^ E + M = Y at *
    rw [toInt64_roundRat (g * Y) (2 ^ 52) K (two_pow_pos _) hK1 hK2
      (by rw [hg]
          have e1 : F64.p52 * (2 ^ E * g) = g * (F64.p52 * 2 ^ E) := by ac_rfl
          have e2 : g * Y * 2 ^ K = g * (Y * 2 ^ K) := by ac_rfl
          rw [e1, e2]; exact Nat.mul_le_mul_left _ hlo)
      (by rw [hg]
          have e1 : F64.p53 * (2 ^ E * g) = g * (F64.p53 * 2 ^ E) := by ac_rfl
          have e2 : g * Y * 2 ^ K = g * (Y * 2 ^ K) := by ac_rfl
          rw [e1, e2]; exact Nat.mul_lt_mul_of_pos_left hhi hgpos)]
    congr 1
    rw [hg]
    have e1 : 2 * (g * Y * 2 ^ K) + 2 ^ E * g = g * (2 * (Y * 2 ^ K) + 2 ^ E) := by
      rw [Nat.mul_add]; congr 1 <;> ac_rfl
    have e2 : 2 * (2 ^ E * g) * 2 ^ K = g * (2 * 2 ^ E * 2 ^ K) := by ac_rfl
    rw [e1, e2, Nat.mul_div_mul_left _ _ hgpos]
  refine ⟨hff, ?_⟩
  rw [hff]
  have h1 := TT_ge_floor (2 ^ E + M) E K
  have h2 : 2 ≤ (2 ^ E + M) / 2 ^ E := by
    rw [Nat.le_div_iff_mul_le hpE]
    have h1 : 2 ^ E ≤ 2 ^ 52 := Nat.pow_le_pow_right (by decide) hE
    rw [e52] at h1
    omega
  omega

/-- `int(float64(1) * size) = ⌊size⌋` -/
theorem Bf_one (w u M E Ks : Nat) (size : F64) (hf : SizeFacts w u size M E Ks)
    (hu1 : 1 ≤ u) (hw50 : w < 1125899906842624) (huw : u < w) :
    Bf size 1 = ((M / 2 ^ E : Nat) : Int) := by
  obtain ⟨K, _, _, hb, e⟩ := Bf_eq w u M E Ks size hf hu1 hw50 huw 1 (by omega) (by omega)
  simp only [Nat.one_mul, Int.natCast_one] at hb e
  have hpE : 0 < 2 ^ E := two_pow_pos E
  have hKE : K = E := bracket_unique M (2 ^ E) K E hb.1 hb.2
    (Nat.mul_le_mul_right _ hf.norm.lo) (Nat.mul_lt_mul_of_pos_right hf.norm.hi hpE)
  rw [e, hKE]
  congr 1
  unfold TT
  have e1 : 2 * (M * 2 ^ E) + 2 ^ E = 2 ^ E * (2 * M + 1) := by
    rw [Nat.mul_add, Nat.mul_one]; congr 1; ac_rfl
  have e2 : 2 * 2 ^ E * 2 ^ E = 2 ^ E * (2 * 2 ^ E) := by ac_rfl
  rw [e1, e2, Nat.mul_div_mul_left _ _ hpE, ← Nat.div_div_eq_div_mul]
  have : (2 * M + 1) / 2 = M := by omega
  rw [this]

/-- `4·u < 2^Ks`: the quotient `w/u < 2^50` needs at least two more bits than `u` has -/
theorem four_u_lt (w u M E Ks : Nat) (size : F64) (hf : SizeFacts w u size M E Ks)
    (hw50 : w < 1125899906842624) : 4 * u < 2 ^ Ks := by
  have h := hf.brK
  have hpK : 0 < 2 ^ Ks := two_pow_pos Ks
  have h2 : w * 2 ^ Ks < 1125899906842624 * 2 ^ Ks := Nat.mul_lt_mul_of_pos_right hw50 hpK
  unfold F64.p52 at h
  omega

/-- the boundary after the last sampled bucket does not exceed `count − 2` -/
theorem Bf_last_le (w u M E Ks : Nat) (size : F64) (hf : SizeFacts w u size M E Ks)
    (hu1 : 1 ≤ u) (hw50 : w < 1125899906842624) (huw : u < w) :
    Bf size (u : Int) ≤ (w : Int) := by
  obtain ⟨K, _, _, hb, e⟩ := Bf_eq w u M E Ks size hf hu1 hw50 huw u hu1 (by omega)
  rw [e]
  have hpE : 0 < 2 ^ E := two_pow_pos E
  have hpK : 0 < 2 ^ K := two_pow_pos K
  have hpKs : 0 < 2 ^ Ks := two_pow_pos Ks
  have h4 := four_u_lt w u M E Ks size hf hw50
  have hlt : TT (u * M) E K < w + 1 := by
    unfold TT
    rw [Nat.div_lt_iff_lt_mul (Nat.mul_pos (Nat.mul_pos (by decide) hpE) hpK)]
    apply Nat.lt_of_mul_lt_mul_right (a := 2 ^ Ks)
    have hup := hf.up
    generalize 2 ^ Ks = ks at *
    generalize 2 ^ K = k at *
    generalize 2 ^ E = e at *
    -- atoms: P = M·ks·u·k, wke = w·ks·e·k, uek = u·e·k, eks = e·ks, ekks = e·k·ks
    have e1 : (2 * (u * M * k) + e) * ks = 2 * (M * ks * u * k) + e * ks := by
      rw [Nat.add_mul]; congr 1; ac_rfl
    have e2 : (w + 1) * (2 * e * k) * ks = 2 * (w * ks * e * k) + 2 * (e * k * ks) := by
      rw [Nat.add_mul, Nat.add_mul, Nat.one_mul]; congr 1 <;> ac_rfl
    have h1 : 2 * (M * ks * u) * k ≤ (2 * (w * ks) + u) * e * k := Nat.mul_le_mul_right k hup
    have e3 : 2 * (M * ks * u) * k = 2 * (M * ks * u * k) := by ac_rfl
    have e4 : (2 * (w * ks) + u) * e * k = 2 * (w * ks * e * k) + u * e * k := by
      rw [Nat.add_mul, Nat.add_mul]; congr 1; ac_rfl
    rw [e3, e4] at h1
    -- u·e·k + e·ks < 2·e·k·ks   from 4u < ks and k ≥ 1
    have h5 : 4 * (u * e * k) ≤ e * k * ks := by
      have : 4 * u ≤ ks := Nat.le_of_lt h4
      have := Nat.mul_le_mul_left (e * k) this
      have e5 : e * k * (4 * u) = 4 * (u * e * k) := by ac_rfl
      rw [e5] at this; exact this
    have h6 : e * ks ≤ e * k * ks := by
      have : e * ks * 1 ≤ e * ks * k := Nat.mul_le_mul_left _ hpK
      have e6 : e * ks * k = e * k * ks := by ac_rfl
      rw [Nat.mul_one, e6] at this; exact this
    have h7 : 0 < e * k * ks := Nat.mul_pos (Nat.mul_pos hpE hpK) hpKs
    rw [e1, e2]
    omega
  omega

/-- the first fetch takes exactly `⌊size⌋ + 1` points: `1 + size` is not rounded up to the
next integer -/
theorem firstFetch_le (w u M E Ks : Nat) (size : F64) (hf : SizeFacts w u size M E Ks)
    (hu1 : 1 ≤ u) (hw50 : w < 1125899906842624) (huw : u < w) :
    firstFetch size ≤ ((M / 2 ^ E : Nat) : Int) + 1 := by
  obtain ⟨K0, hK01, _, hb0, e0, _⟩ := firstFetch_ge w u M E Ks size hf hu1 hw50 huw
  rw [e0]
  have hpE : 0 < 2 ^ E := two_pow_pos E
  have hpK0 : 0 < 2 ^ K0 := two_pow_pos K0
  have hpKs : 0 < 2 ^ Ks := two_pow_pos Ks
  have h4 := four_u_lt w u M E Ks size hf hw50
  -- 2u < 2^E, so E ≥ 1
  have h2u : 2 * u < 2 ^ E := by
    have : 2 ^ Ks ≤ 2 ^ (E + 1) := Nat.pow_le_pow_right (by decide) hf.hEK2
    rw [Nat.pow_succ] at this; omega
  have hE1 : 1 ≤ E := by
    rcases Nat.eq_zero_or_pos E with h | h
    · subst h; simp at h2u; omega
    · exact h
  -- K0 ∈ {E − 1, E}
  have hbM : Bracket M E E := ⟨Nat.mul_le_mul_right _ hf.norm.lo, Nat.mul_lt_mul_of_pos_right hf.norm.hi hpE⟩
  have hK0E : K0 ≤ E := bracket_antitone M (2 ^ E + M) E E K0 hbM hb0 (Nat.le_add_left _ _)
  have hb2M : Bracket (2 * M) E (E - 1) := by
    have e : 2 * M * 2 ^ (E - 1) = M * 2 ^ E := by
      have : E = (E - 1) + 1 := by omega
      rw [this, Nat.pow_succ]; simp only [Nat.add_sub_cancel]; ac_rfl
    unfold Bracket; rw [e]; exact hbM
  have hM2E : 2 ^ E ≤ M := by
    have h1 : 2 ^ E ≤ 2 ^ 52 := Nat.pow_le_pow_right (by decide) hf.hE
    have h2 : (2:Nat) ^ 52 = F64.p52 := by decide
    have := hf.norm.lo
    omega
  have hEK0 : E - 1 ≤ K0 := bracket_antitone (2 ^ E + M) (2 * M) E K0 (E - 1) hb0 hb2M (by omega)
  -- M = I·2^E − D with 1 ≤ D ≤ 2^E
  have hdm := Nat.div_add_mod M (2 ^ E)
  have hmod := Nat.mod_lt M hpE
  generalize hI0 : M / 2 ^ E = I0 at *
  generalize hR : M % 2 ^ E = R at *
  -- D = 2^E − R;  claim: ¬ (K0 = E − 1 ∧ R = 2^E − 1)
  have hexcl : ¬ (K0 + 1 = E ∧ R + 1 = 2 ^ E) := by
    rintro ⟨hk, hr⟩
    -- M = (I0+1)·2^E − 1;  from (lo): w < (I0+1)·u;  from (up): 2^E ≤ u + u/2 — contradiction with 2u < 2^E
    have hup := hf.up
    have hlo := hf.lo
    obtain ⟨v, hv⟩ : ∃ v, 2 ^ Ks = 2 ^ E * v := ⟨2 ^ (Ks - E), by rw [← Nat.pow_add]; congr 1; have := hf.hEK1; omega⟩
    have hv1 : 1 ≤ v := by
      rcases Nat.eq_zero_or_pos v with h | h
      · subst h; omega
      · exact h
    have hv2 : v ≤ 2 := by
      have : 2 ^ Ks ≤ 2 ^ (E + 1) := Nat.pow_le_pow_right (by decide) hf.hEK2
      rw [Nat.pow_succ, hv] at this
      have := Nat.le_of_mul_le_mul_left this hpE
      exact this
    rw [hv] at hup hlo h4
    generalize 2 ^ E = e at *
    have hM : M + 1 = (I0 + 1) * e := by rw [Nat.add_mul, Nat.one_mul, Nat.mul_comm]; omega
    -- (lo): 2·w·e·v·e ≤ 2·M·e·v·u + u·e ; divide by e
    have hlo' : 2 * (w * v * e) ≤ 2 * (M * v * u) + u := by
      apply Nat.le_of_mul_le_mul_right _ hpE
      have e1 : 2 * (w * v * e) * e = 2 * (w * (e * v)) * e := by ac_rfl
      have e2 : (2 * (M * v * u) + u) * e = 2 * (M * (e * v) * u) + u * e := by
        rw [Nat.add_mul]; congr 1; ac_rfl
      rw [e1, e2]; exact hlo
    have hup' : 2 * (M * v * u) ≤ 2 * (w * v * e) + u := by
      apply Nat.le_of_mul_le_mul_right _ hpE
      have e1 : 2 * (M * v * u) * e = 2 * (M * (e * v) * u) := by ac_rfl
      have e2 : (2 * (w * v * e) + u) * e = (2 * (w * (e * v)) + u) * e := by
        congr 2; ac_rfl
      rw [e1, e2]; exact hup
    -- substitute M = (I0+1)·e − 1 :  M·v·u = (I0+1)·e·v·u − v·u
    have hMvu : M * v * u + v * u = (I0 + 1) * u * (v * e) := by
      have : M * v * u + v * u = (M + 1) * (v * u) := by
        rw [Nat.add_mul, Nat.one_mul]; congr 1; ac_rfl
      rw [this, hM]; ac_rfl
    -- w·v·e ≤ (I0+1)·u·v·e − v·u + u/2 < (I0+1)·u·(v·e)  ⇒  w < (I0+1)·u
    have hwlt : w < (I0 + 1) * u := by
      apply Nat.lt_of_mul_lt_mul_right (a := v * e)
      have : w * (v * e) = w * v * e := by ac_rfl
      rw [this]
      have : 1 ≤ v * u := Nat.mul_pos hv1 hu1
      have : u ≤ v * u := Nat.le_mul_of_pos_left u hv1
      omega
    -- w + 1 ≤ (I0+1)·u, so (w·v·e) + v·e ≤ (I0+1)·u·(v·e)
    have hw1 : w * v * e + v * e ≤ (I0 + 1) * u * (v * e) := by
      have : (w + 1) * (v * e) ≤ (I0 + 1) * u * (v * e) := Nat.mul_le_mul_right _ hwlt
      rw [Nat.add_mul, Nat.one_mul] at this
      have e1 : w * (v * e) = w * v * e := by ac_rfl
      rw [e1] at this; exact this
    -- (up'): 2·((I0+1)·u·(v·e) − v·u) ≤ 2·w·v·e + u ≤ 2·(I0+1)·u·(v·e) − 2·v·e + u
    -- ⇒ 2·v·e ≤ 2·v·u + u, but 2u < e
    have h8 : 2 * (v * e) ≤ 2 * (v * u) + u := by omega
    have h9 : v * (2 * u) < v * e := Nat.mul_lt_mul_of_pos_left h2u hv1
    have e9 : v * (2 * u) = 2 * (v * u) := by ac_rfl
    rw [e9] at h9
    have : u ≤ v * u := Nat.le_mul_of_pos_left u hv1
    omega
  -- now the inequality  TT (2^E + M) E K0 ≤ I0 + 1
  have hlt : TT (2 ^ E + M) E K0 < I0 + 2 := by
    unfold TT
    rw [Nat.div_lt_iff_lt_mul (Nat.mul_pos (Nat.mul_pos (by decide) hpE) hpK0)]
    -- 2·(2^E + M)·2^K0 + 2^E < (I0+2)·2·2^E·2^K0   ⇔   2^E < 2·(2^E − R)·2^K0
    rcases Nat.lt_or_ge K0 E with hk | hk
    · -- K0 = E − 1: 2^E = 2·2^K0, need R + 1 < 2^E
      have hk' : K0 + 1 = E := by omega
      have hR' : R + 2 ≤ 2 ^ E := by
        have : ¬ R + 1 = 2 ^ E := fun h => hexcl ⟨hk', h⟩
        omega
      have e2 : 2 ^ E = 2 * 2 ^ K0 := by rw [← hk', Nat.pow_succ, Nat.mul_comm]
      rw [e2] at hdm hR' hmod ⊢
      generalize 2 ^ K0 = k at *
      have e3 : 2 * ((2 * k + M) * k) + 2 * k = 4 * (k * k) + 2 * (M * k) + 2 * k := by
        rw [Nat.add_mul, Nat.mul_add]; congr 1; congr 1; ac_rfl
      have e4 : (I0 + 2) * (2 * (2 * k) * k) = 4 * (I0 * (k * k)) + 8 * (k * k) := by
        rw [Nat.add_mul]; congr 1 <;> ac_rfl
      have e5 : M * k = 2 * (I0 * (k * k)) + R * k := by
        rw [← hdm, Nat.add_mul]; congr 1; ac_rfl
      have h10 : (R + 2) * k ≤ 2 * k * k := Nat.mul_le_mul_right k hR'
      have e6 : (R + 2) * k = R * k + 2 * k := by rw [Nat.add_mul]
      have e7 : 2 * k * k = 2 * (k * k) := by ac_rfl
      rw [e6, e7] at h10
      rw [e3, e4, e5]
      omega
    · -- K0 = E
      have hk' : K0 = E := by omega
      rw [hk']
      generalize 2 ^ E = e at *
      have e3 : 2 * ((e + M) * e) + e = 2 * (e * e) + 2 * (M * e) + e := by
        rw [Nat.add_mul, Nat.mul_add]
      have e4 : (I0 + 2) * (2 * e * e) = 2 * (I0 * (e * e)) + 4 * (e * e) := by
        rw [Nat.add_mul]; congr 1 <;> ac_rfl
      have e5 : M * e = I0 * (e * e) + R * e := by
        rw [← hdm, Nat.add_mul]; congr 1; ac_rfl
      have h10 : (R + 1) * e ≤ e * e := Nat.mul_le_mul_right e hmod
      have e6 : (R + 1) * e = R * e + e := by rw [Nat.add_mul, Nat.one_mul]
      rw [e6] at h10
      rw [e3, e4, e5]
      omega
  omega

/-- **The bucket arithmetic is sound for every pair** `3 ≤ threshold < count ≤ 2^50`: with the
float arithmetic of the code the first fetch asks for at least two points and every bucket
fetch asks for, and gets, at least one. -/
theorem bucketsOK_general (count threshold : Int) (h3 : 3 ≤ threshold) (hlt : threshold < count)
    (hc : count ≤ 1125899906842624) : bucketsOK count threshold = true := by
  obtain ⟨M, E, Ks, hf⟩ := size_facts count threshold h3 hlt hc
  generalize hw : (count - 2).toNat = w at *
  generalize hu : (threshold - 2).toNat = u at *
  have hu1 : 1 ≤ u := by omega
  have huw : u < w := by omega
  have hw50 : w < 1125899906842624 := by omega
  unfold bucketsOK
  simp only []
  generalize hsz : bucketSize count threshold = size at *
  obtain ⟨_, _, _, _, _, hf2⟩ := firstFetch_ge w u M E Ks size hf hu1 hw50 huw
  have hfle := firstFetch_le w u M E Ks size hf hu1 hw50 huw
  have hB1 := Bf_one w u M E Ks size hf hu1 hw50 huw
  have hBu := Bf_last_le w u M E Ks size hf hu1 hw50 huw
  have hmono := Bf_mono w u M E Ks size hf hu1 hw50 huw
  have hcw : count = (w : Int) + 2 := by omega
  -- consumed before the last bucket fetch: f0 + B(u) − B(1) ≤ w + 1 = count − 1
  have hB1u : Bf size 1 ≤ Bf size (u : Int) := by
    have := hmono (u - 1) 1 (by omega) (by omega)
    have e : 1 + (u - 1) = u := by omega
    rw [e] at this
    simp only [Int.natCast_one] at this
    omega
  have hf0c : firstFetch size ≤ count := by omega
  have hmin : min (firstFetch size) count = firstFetch size := by omega
  simp only [Bool.and_eq_true, decide_eq_true_eq]
  refine ⟨hf2, ?_⟩
  rw [hmin]
  have hk : (threshold - 2).toNat = u := hu
  apply loopOK
  · intro m hm
    have := Bf_step w u M E Ks size hf hu1 hw50 huw (m + 1) (by omega) (by omega)
    have e1 : (0 : Int) + (m : Int) + 2 = ((m + 1 + 1 : Nat) : Int) := by omega
    have e2 : (0 : Int) + (m : Int) + 1 = ((m + 1 : Nat) : Int) := by omega
    rw [e1, e2]; omega
  · intro m hm
    have h1 := hmono (u - (m + 1)) (m + 1) (by omega) (by omega)
    have e : m + 1 + (u - (m + 1)) = u := by omega
    rw [e] at h1
    have e2 : (0 : Int) + (m : Int) + 1 = ((m + 1 : Nat) : Int) := by omega
    have e3 : (0 : Int) + 1 = 1 := by omega
    rw [e2, e3]
    omega

end Vegeta.Proofs.Buckets
