/-
List-level view of the http targeter: the same decode written over the list of lines the
peeking scanner will still deliver (`eff`), and the refinement theorem `call_refines`:
`HTTPTargets.call` on a scanner state behaves exactly like `callL` on `eff` of that state.
The only effect of the `peeked == ""` conflation is that an exactly empty peeked line is
consumed — which `callL` does explicitly.
-/
import Vegeta.Model.HTTPTargets
namespace Vegeta.Proofs.HTTPTargetsL
open Vegeta.Go
open Vegeta.Model.Histogram (trimSpace)
open Vegeta.Model.HTTPTargets

/-- the lines the peeking scanner will still deliver through `Scan`/`Text` -/
def eff (ps : PS) : List Bytes := if ps.peeked = [] then ps.rest else ps.peeked :: ps.rest

def skipL : List Bytes → Option (Bytes × List Bytes)
  | [] => none
  | t :: r =>
    let line := trimSpace t
    if line ≠ [] ∧ line.head? ≠ some 35 then some (line, r) else skipL r

def headerL (cfg : Cfg) : List Bytes → Target → Heap → Option Nat × List Bytes × Target × Heap
  | [], tgt, h => (none, [], tgt, h)
  | t :: r, tgt, h =>
    match headerStep cfg (trimSpace t) tgt h with
    | .stop e tgt' h' => (e, r, tgt', h')
    | .next tgt' h' => headerL cfg r tgt' h'

/-- what `Peek` leaves to be delivered: an exactly empty line is lost -/
def afterPeek : List Bytes → List Bytes
  | [] => []
  | p :: r => if p = [] then r else p :: r

/-- the peek loop on the remaining lines; `lastc` is what `peeked` holds (nothing, or the
comment peeked last). Returns the trimmed line the decision is made on and the lines that
will still be delivered: at the end of the input the last comment stays behind. -/
def peekL : List Bytes → Bytes → Bytes × List Bytes
  | [], lastc => ([], if lastc = [] then [] else [lastc])
  | p :: r, _ =>
    if (trimSpace p).head? = some 35 then peekL r p else (trimSpace p, afterPeek (p :: r))

def callL (cfg : Cfg) (ls : List Bytes) (h : Heap) : Outcome Target × List Bytes × Heap :=
  match skipL ls with
  | none => (.error eNoTargets, [], h)
  | some (line, r) =>
    match requestLine cfg line (copyDefaults cfg.hdr h).1 with
    | .error e => (.error e, r, (copyDefaults cfg.hdr h).2)
    | .ok tgt =>
      if returnsAfterPeek (peekL r []).1 then (.ok tgt, (peekL r []).2, (copyDefaults cfg.hdr h).2)
      else
        match headerL cfg (peekL r []).2 tgt (copyDefaults cfg.hdr h).2 with
        | (some e, r3, _, h3) => (.error e, r3, h3)
        | (none, r3, tgt3, h3) => (.ok tgt3, r3, h3)

/-- `n` calls; every result is paired with the heap right after that call -/
def callsL (cfg : Cfg) : Nat → List Bytes → Heap → List (Outcome Target × Heap) × List Bytes × Heap
  | 0, ls, h => ([], ls, h)
  | n + 1, ls, h =>
    let (r, ls1, h1) := callL cfg ls h
    let (rs, ls2, h2) := callsL cfg n ls1 h1
    ((r, h1) :: rs, ls2, h2)

/-- the model's calls, every result paired with the heap right after that call (the moment
the caller looks at the returned target) -/
def callsH (cfg : Cfg) : Nat → St → List (Outcome Target × Heap) × St
  | 0, st => ([], st)
  | n + 1, st =>
    let (r, st1) := call cfg st
    let (rs, st2) := callsH cfg n st1
    ((r, st1.heap) :: rs, st2)

theorem callsH_calls (cfg : Cfg) : ∀ (n : Nat) (st : St),
    (calls cfg n st).1 = (callsH cfg n st).1.map (·.1) ∧ (calls cfg n st).2 = (callsH cfg n st).2 := by
  intro n
  induction n with
  | zero => intro st; exact ⟨rfl, rfl⟩
  | succ n ih =>
    intro st
    simp only [calls, callsH]
    have := ih (call cfg st).2
    exact ⟨by simp [this.1], this.2⟩

/-! ### refinement -/

theorem eff_nil_peeked {ps : PS} (h : ps.peeked = []) : eff ps = ps.rest := by simp [eff, h]

/-- `Scan` then `Text` deliver the head of `eff` -/
theorem scan_text (ps : PS) :
    (eff ps = [] → ∃ ps1, ps.scan = (false, ps1) ∧ eff ps1 = [] ∧ ps1.peeked = [] ∧ ps1.rest = []) ∧
    (∀ l r, eff ps = l :: r → ∃ ps1, ps.scan = (true, ps1) ∧ ∃ ps2, ps1.text = (l, ps2) ∧ eff ps2 = r ∧ ps2.peeked = [] ∧ ps2.rest = r) := by
  by_cases hp : ps.peeked = []
  · constructor
    · intro he
      have hr : ps.rest = [] := by simpa [eff, hp] using he
      refine ⟨{ ps with cur := [] }, ?_, ?_, hp, hr⟩
      · simp [PS.scan, hp, PS.srcScan, hr]
      · simp [eff, hp, hr]
    · intro l r he
      have hr : ps.rest = l :: r := by simpa [eff, hp] using he
      refine ⟨{ ps with rest := r, cur := l }, ?_, { ps with rest := r, cur := l }, ?_, ?_, hp, rfl⟩
      · simp [PS.scan, hp, PS.srcScan, hr]
      · simp [PS.text, hp]
      · simp [eff, hp]
  · constructor
    · intro he; simp [eff, hp] at he
    · intro l r he
      have : ps.peeked = l ∧ ps.rest = r := by simpa [eff, hp] using he
      refine ⟨ps, by simp [PS.scan, hp], { ps with peeked := [] }, ?_, ?_, rfl, this.2⟩
      · have hl : l ≠ [] := by rw [← this.1]; exact hp
        simp [PS.text, this.1, hl]
      · simp [eff, this.2]

theorem eff_length_le (ps : PS) : (eff ps).length ≤ ps.rest.length + 1 := by
  unfold eff; split <;> simp

theorem skipLoop_refines : ∀ (fuel : Nat) (ps : PS), (eff ps).length < fuel →
    ∃ ps', skipLoop fuel ps = ((skipL (eff ps)).map (·.1), ps') ∧
      eff ps' = ((skipL (eff ps)).map (·.2)).getD [] ∧ ps'.peeked = [] ∧ ps'.rest = eff ps' := by
  intro fuel
  induction fuel with
  | zero => intro ps h; omega
  | succ f ih =>
    intro ps hf
    have hst := scan_text ps
    cases he : eff ps with
    | nil =>
      obtain ⟨ps1, h1, h2, h3, h4⟩ := hst.1 he
      refine ⟨ps1, ?_, ?_, h3, by rw [h2, h4]⟩
      · simp [skipLoop, h1, skipL]
      · simp [skipL, h2]
    | cons l r =>
      obtain ⟨ps1, h1, ps2, h2, h3, h4, h5⟩ := hst.2 l r he
      by_cases hc : trimSpace l ≠ [] ∧ (trimSpace l).head? ≠ some 35
      · refine ⟨ps2, ?_, ?_, h4, by rw [h3, h5]⟩
        · simp only [skipLoop, h1, h2, skipL]
          rw [if_pos hc, if_pos hc]; rfl
        · simp only [skipL]; rw [if_pos hc]; simp [h3]
      · have hlen : (eff ps2).length < f := by rw [h3]; rw [he] at hf; simp at hf; omega
        obtain ⟨ps', e1, e2, e3, e4⟩ := ih ps2 hlen
        refine ⟨ps', ?_, ?_, e3, e4⟩
        · simp only [skipLoop, h1, h2, skipL]
          rw [if_neg hc, if_neg hc, e1, h3]
        · simp only [skipL]; rw [if_neg hc, e2, h3]

theorem headerLoop_refines (cfg : Cfg) : ∀ (fuel : Nat) (ps : PS) (tgt : Target) (h : Heap), (eff ps).length < fuel →
    ∃ ps', headerLoop cfg fuel ps tgt h =
        ((headerL cfg (eff ps) tgt h).1, ps', (headerL cfg (eff ps) tgt h).2.2.1, (headerL cfg (eff ps) tgt h).2.2.2) ∧
      eff ps' = (headerL cfg (eff ps) tgt h).2.1 := by
  intro fuel
  induction fuel with
  | zero => intro ps _ _ h; omega
  | succ f ih =>
    intro ps tgt h hf
    have hst := scan_text ps
    cases he : eff ps with
    | nil =>
      obtain ⟨ps1, h1, h2, _, _⟩ := hst.1 he
      exact ⟨ps1, by simp [headerLoop, h1, headerL], by simp [headerL, h2]⟩
    | cons l r =>
      obtain ⟨ps1, h1, ps2, h2, h3, _, _⟩ := hst.2 l r he
      have hlen : (eff ps2).length < f := by rw [h3]; rw [he] at hf; simp at hf; omega
      simp only [headerLoop, h1, h2, headerL]
      cases hs : headerStep cfg (trimSpace l) tgt h with
      | stop e tgt' h' => exact ⟨ps2, rfl, h3⟩
      | next tgt' h' =>
        obtain ⟨ps', e1, e2⟩ := ih ps2 tgt' h' hlen
        rw [h3] at e1 e2
        exact ⟨ps', e1, e2⟩

theorem skipL_length {ls : List Bytes} {line : Bytes} {r : List Bytes} (hs : skipL ls = some (line, r)) :
    r.length < ls.length := by
  induction ls with
  | nil => simp [skipL] at hs
  | cons t ls ih =>
    simp only [skipL] at hs
    split at hs
    · cases hs; simp
    · have := ih hs; simp; omega

theorem trimSpace_nil : trimSpace [] = [] := by decide

/-- the peek loop refines `peekL`: `rest` are the lines the scanner still has, `peeked` what the
last `Peek` left there -/
theorem peekLoop_refines : ∀ (fuel : Nat) (ps : PS), ps.rest.length < fuel →
    (peekLoop fuel ps).1 = (peekL ps.rest ps.peeked).1 ∧ eff (peekLoop fuel ps).2 = (peekL ps.rest ps.peeked).2 := by
  intro fuel
  induction fuel with
  | zero => intro ps h; omega
  | succ f ih =>
    intro ps hf
    cases hr : ps.rest with
    | nil =>
      have hp : ps.peek = ([], { ps with cur := [] }) := by simp [PS.peek, PS.srcScan, hr]
      simp only [peekLoop, hp, trimSpace_nil, peekL]
      refine ⟨by simp, ?_⟩
      simp only [List.head?_nil, reduceCtorEq, ↓reduceIte, eff, hr]
    | cons p r =>
      have hp : ps.peek = (p, { ps with rest := r, cur := p, peeked := p }) := by simp [PS.peek, PS.srcScan, hr]
      simp only [peekLoop, hp, peekL]
      by_cases hc : (trimSpace p).head? = some 35
      · simp only [hc, ↓reduceIte]
        have := ih { ps with rest := r, cur := p, peeked := p } (by simp only; rw [hr] at hf; simp at hf; omega)
        simpa using this
      · simp [hc, eff, afterPeek]

theorem peekL_length : ∀ (r : List Bytes) (lastc : Bytes),
    (peekL r lastc).2.length ≤ r.length + (if lastc = [] then 0 else 1) := by
  intro r
  induction r with
  | nil => intro lastc; simp only [peekL]; split <;> simp
  | cons p r ih =>
    intro lastc
    simp only [peekL]
    split
    · have := ih p
      have hp : p ≠ [] := by
        intro h0; rename_i hc; rw [h0, trimSpace_nil] at hc; cases hc
      simp only [hp, ↓reduceIte] at this
      simp only [List.length_cons]; split <;> omega
    · simp only [afterPeek]
      split <;> split <;> simp <;> omega

/-- a line the decision does not return on is delivered again: nothing was lost -/
theorem peekL_not_returning : ∀ (r : List Bytes) (lastc : Bytes), returnsAfterPeek (peekL r lastc).1 = false →
    ∃ p r', (peekL r lastc).2 = p :: r' ∧ (peekL r lastc).1 = trimSpace p := by
  intro r
  induction r with
  | nil => intro lastc h; simp [peekL, returnsAfterPeek] at h
  | cons p r ih =>
    intro lastc h
    simp only [peekL] at h ⊢
    split
    · rename_i hc; rw [if_pos hc] at h; exact ih p h
    · rename_i hc
      rw [if_neg hc] at h
      have hp : p ≠ [] := by
        intro h0; rw [h0, trimSpace_nil] at h; simp [returnsAfterPeek] at h
      exact ⟨p, r, by simp [afterPeek, hp], rfl⟩

/-- **Refinement**: one call on a scanner state is `callL` on the lines it will still deliver. -/
theorem call_refines (cfg : Cfg) (st : St) :
    ∃ ps', call cfg st = ((callL cfg (eff st.ps) st.heap).1, { ps := ps', heap := (callL cfg (eff st.ps) st.heap).2.2 }) ∧
      eff ps' = (callL cfg (eff st.ps) st.heap).2.1 := by
  have hfuel : (eff st.ps).length < st.ps.rest.length + 2 := by have := eff_length_le st.ps; omega
  obtain ⟨ps1, e1, e2, e3, e4⟩ := skipLoop_refines (st.ps.rest.length + 2) st.ps hfuel
  unfold call callL
  simp only [e1]
  cases hs : skipL (eff st.ps) with
  | none =>
    simp only [Option.map_none]
    refine ⟨ps1, rfl, ?_⟩
    simp [e2, hs]
  | some lr =>
    obtain ⟨line, r⟩ := lr
    have e2' : eff ps1 = r := by simp [e2, hs]
    have hrest : ps1.rest = r := by rw [e4, e2']
    have hrlen := skipL_length hs
    simp only [Option.map_some]
    cases hrq : requestLine cfg line (copyDefaults cfg.hdr st.heap).1 with
    | error e => exact ⟨ps1, rfl, e2'⟩
    | ok tgt =>
      obtain ⟨p1, p2⟩ := peekLoop_refines (st.ps.rest.length + 2) ps1 (by rw [hrest]; omega)
      rw [hrest, e3] at p1 p2
      generalize hpl : peekLoop (st.ps.rest.length + 2) ps1 = pl at p1 p2
      obtain ⟨line2, ps2⟩ := pl
      simp only at p1 p2
      simp only [p1]
      cases hret : returnsAfterPeek (peekL r []).1 with
      | true => exact ⟨ps2, rfl, p2⟩
      | false =>
        have hlen : (eff ps2).length < st.ps.rest.length + 2 := by
          have := peekL_length r []
          simp only [↓reduceIte] at this
          rw [p2]; omega
        obtain ⟨ps3, q1, q2⟩ := headerLoop_refines cfg (st.ps.rest.length + 2) ps2 tgt (copyDefaults cfg.hdr st.heap).2 hlen
        rw [p2] at q1 q2
        simp only [Bool.false_eq_true, ↓reduceIte, q1]
        generalize headerL cfg (peekL r []).2 tgt (copyDefaults cfg.hdr st.heap).2 = res at q2
        obtain ⟨e, r3, t3, h3⟩ := res
        cases e with
        | none => exact ⟨ps3, rfl, q2⟩
        | some e => exact ⟨ps3, rfl, q2⟩

/-- `n` calls on a scanner state are `callsL` on the lines it will still deliver. -/
theorem calls_refines (cfg : Cfg) : ∀ (n : Nat) (st : St),
    ∃ ps', callsH cfg n st = ((callsL cfg n (eff st.ps) st.heap).1, { ps := ps', heap := (callsL cfg n (eff st.ps) st.heap).2.2 }) ∧
      eff ps' = (callsL cfg n (eff st.ps) st.heap).2.1 := by
  intro n
  induction n with
  | zero => intro st; exact ⟨st.ps, rfl, rfl⟩
  | succ n ih =>
    intro st
    obtain ⟨ps1, c1, c2⟩ := call_refines cfg st
    obtain ⟨ps2, d1, d2⟩ := ih { ps := ps1, heap := (callL cfg (eff st.ps) st.heap).2.2 }
    simp only [callsH, callsL, c1]
    simp only [c2] at d1 d2
    rw [d1]
    exact ⟨ps2, rfl, d2⟩

theorem eff_init (src : Bytes) : eff (PS.init src) = srcLines src := by simp [eff, PS.init]

end Vegeta.Proofs.HTTPTargetsL
