/-
Body files are read at decode time: the http targeter as a function of the targets file and
of the file system state AT EACH CALL.  `fss i` is the file system call number `i` sees; the
development of `HTTPGrammar` / `HTTPRender` is repeated with the file system indexed by the call.
-/
import Vegeta.Proofs.HTTPRender
namespace Vegeta.Proofs.HTTPFileSystem
open Vegeta.Go
open Vegeta.Model.Histogram (trimSpace)
open Vegeta.Model.HTTPTargets
open Vegeta.Proofs.HTTPTargetsL Vegeta.Proofs.HTTPHeap Vegeta.Proofs.TargetText Vegeta.Proofs.HTTPGrammar
open Vegeta.Proofs.HTTPRender
open Vegeta.Spec.TargetGrammar hiding Bytes

abbrev FS := Bytes → Option Bytes

/-- the same targeter configuration, looking at file system `fs` -/
def withFS (cfg : Cfg) (fs : FS) : Cfg := { cfg with fs := fs }

/-- `n` calls starting with call number `i`; call `j` reads body files from `fss j` -/
def callsHF (cfg : Cfg) (fss : Nat → FS) : Nat → Nat → St → List (Outcome Target × Heap) × St
  | _, 0, st => ([], st)
  | i, n + 1, st =>
    let (r, st1) := call (withFS cfg (fss i)) st
    let (rs, st2) := callsHF cfg fss (i + 1) n st1
    ((r, st1.heap) :: rs, st2)

def callsLF (cfg : Cfg) (fss : Nat → FS) : Nat → Nat → List Bytes → Heap → List (Outcome Target × Heap) × List Bytes × Heap
  | _, 0, ls, h => ([], ls, h)
  | i, n + 1, ls, h =>
    let (r, ls1, h1) := callL (withFS cfg (fss i)) ls h
    let (rs, ls2, h2) := callsLF cfg fss (i + 1) n ls1 h1
    ((r, h1) :: rs, ls2, h2)

/-- with an unchanging file system this is `callsH` -/
theorem callsHF_const (cfg : Cfg) : ∀ (n i : Nat) (st : St), callsHF cfg (fun _ => cfg.fs) i n st = callsH cfg n st := by
  intro n
  induction n with
  | zero => intro i st; rfl
  | succ n ih => intro i st; simp only [callsHF, callsH, withFS, ih]

theorem callsF_refines (cfg : Cfg) (fss : Nat → FS) : ∀ (n i : Nat) (st : St),
    ∃ ps', callsHF cfg fss i n st = ((callsLF cfg fss i n (eff st.ps) st.heap).1,
        { ps := ps', heap := (callsLF cfg fss i n (eff st.ps) st.heap).2.2 }) ∧
      eff ps' = (callsLF cfg fss i n (eff st.ps) st.heap).2.1 := by
  intro n
  induction n with
  | zero => intro i st; exact ⟨st.ps, rfl, rfl⟩
  | succ n ih =>
    intro i st
    obtain ⟨ps1, c1, c2⟩ := call_refines (withFS cfg (fss i)) st
    obtain ⟨ps2, d1, d2⟩ := ih (i + 1) { ps := ps1, heap := (callL (withFS cfg (fss i)) (eff st.ps) st.heap).2.2 }
    simp only [callsHF, callsLF, c1]
    simp only [c2] at d1 d2
    rw [d1]
    exact ⟨ps2, rfl, d2⟩

theorem isReq_withFS {cfg : Cfg} {fs : FS} {l m u : Bytes} (h : IsReq (withFS cfg fs) l m u) (fs' : FS) :
    IsReq (withFS cfg fs') l m u := ⟨h.trim, h.mne, h.upper, h.valid⟩

/-- block number `i + j` is classified with respect to the file system of call `i + j` -/
def OKFrom (cfg : Cfg) (fss : Nat → FS) : Nat → List ABlock → Prop
  | _, [] => True
  | i, b :: bs => b.OK (withFS cfg (fss i)) ∧ OKFrom cfg fss (i + 1) bs

theorem result_withFS (cfg : Cfg) (fs : FS) (b : ABlock) (h : Heap) : b.result (withFS cfg fs) h = b.result cfg h := rfl

theorem callsLF_succ (cfg : Cfg) (fss : Nat → FS) (i n : Nat) (ls : List Bytes) (h : Heap) :
    callsLF cfg fss i (n + 1) ls h =
      (((callL (withFS cfg (fss i)) ls h).1, (callL (withFS cfg (fss i)) ls h).2.2) ::
          (callsLF cfg fss (i + 1) n (callL (withFS cfg (fss i)) ls h).2.1 (callL (withFS cfg (fss i)) ls h).2.2).1,
       (callsLF cfg fss (i + 1) n (callL (withFS cfg (fss i)) ls h).2.1 (callL (withFS cfg (fss i)) ls h).2.2).2) := rfl

theorem callsLF_core (cfg : Cfg) (fss : Nat → FS) (trail : List Bytes) (htrail : ∀ l ∈ trail, IsFiller l) :
    ∀ (bs : List ABlock) (b : ABlock) (i : Nat) (F : List Bytes) (h : Heap),
      OKFrom cfg fss i (b :: bs) → ASep (b :: bs) → (∀ l ∈ F, IsFiller l) →
      ∃ G', (∀ l ∈ G', IsFiller l) ∧
        callsLF cfg fss i (bs.length + 1) (F ++ core trail b bs) h =
          ((expectL cfg (b :: bs) h).1, G', (expectL cfg (b :: bs) h).2) := by
  intro bs
  induction bs with
  | nil =>
    intro b i F h hok _ hF
    obtain ⟨G', g1, g2⟩ := callL_block (withFS cfg (fss i)) b hok.1 F trail [] h hF htrail (Or.inl rfl) (fun _ _ hx => absurd rfl hx)
    refine ⟨G', g1, ?_⟩
    simp only [core, List.length_nil, callsLF, expectL]
    simp only [List.append_nil, result_withFS] at g2 ⊢
    rw [g2]
  | cons b' bs' ih =>
    intro b i F h hok hsep hF
    have hb' : b'.OK (withFS cfg (fss (i + 1))) := hok.2.1
    have hX : core trail b' bs' = [] ∨ ∃ l m' u' rest, core trail b' bs' = l :: rest ∧ IsReq (withFS cfg (fss i)) l m' u' := by
      right
      cases bs' with
      | nil => exact ⟨_, _, _, _, rfl, isReq_withFS hb'.req _⟩
      | cons b2 r => exact ⟨_, _, _, _, rfl, isReq_withFS hb'.req _⟩
    obtain ⟨G', g1, g2⟩ := callL_block (withFS cfg (fss i)) b hok.1 F b'.lead (core trail b' bs') h hF hb'.lead hX
      (fun hbn hh _ => hsep.1 hbn hh)
    simp only [result_withFS] at g2
    obtain ⟨G2, k1, k2⟩ := ih b' (i + 1) G' (b.result cfg h).2 hok.2 hsep.2 g1
    refine ⟨G2, k1, ?_⟩
    rw [show (b' :: bs').length + 1 = (bs'.length + 1) + 1 by simp, callsLF_succ]
    rw [show F ++ core trail b (b' :: bs') =
        F ++ b.req :: (b.items.map AItem.line ++ b.bodyLines ++ b'.lead ++ core trail b' bs') by rfl, g2]
    simp only
    rw [k2]
    rfl

theorem callsLF_exhausted (cfg : Cfg) (fss : Nat → FS) (h : Heap) : ∀ (k i : Nat) (F : List Bytes), (∀ l ∈ F, IsFiller l) →
    (callsLF cfg fss i k F h).1 = List.replicate k (.error eNoTargets, h) ∧ (callsLF cfg fss i k F h).2.2 = h := by
  intro k
  induction k with
  | zero => intro i F _; exact ⟨rfl, rfl⟩
  | succ k ih =>
    intro i F hF
    simp only [callsLF, callL_exhausted (withFS cfg (fss i)) F h hF]
    have := ih (i + 1) [] (by simp)
    exact ⟨by simp [List.replicate_succ, this.1], this.2⟩

theorem callsLF_add (cfg : Cfg) (fss : Nat → FS) : ∀ (a b i : Nat) (ls : List Bytes) (h : Heap),
    callsLF cfg fss i (a + b) ls h =
      ((callsLF cfg fss i a ls h).1 ++ (callsLF cfg fss (i + a) b (callsLF cfg fss i a ls h).2.1 (callsLF cfg fss i a ls h).2.2).1,
       (callsLF cfg fss (i + a) b (callsLF cfg fss i a ls h).2.1 (callsLF cfg fss i a ls h).2.2).2) := by
  intro a
  induction a with
  | zero => intro b i ls h; simp [callsLF]
  | succ a ih =>
    intro b i ls h
    rw [show a + 1 + b = (a + b) + 1 by omega]
    simp only [callsLF, ih]
    rw [show i + 1 + a = i + (a + 1) by omega]
    simp

theorem callsLF_doc (cfg : Cfg) (fss : Nat → FS) (trail : List Bytes) (htrail : ∀ l ∈ trail, IsFiller l)
    (bs : List ABlock) (i : Nat) (hok : OKFrom cfg fss i bs) (hsep : ASep bs) (h : Heap) (k : Nat) :
    (callsLF cfg fss i (bs.length + k) (docLines trail bs) h).1 =
      (expectL cfg bs h).1 ++ List.replicate k (.error eNoTargets, (expectL cfg bs h).2) := by
  rw [callsLF_add]
  cases bs with
  | nil =>
    simp only [List.length_nil, callsLF, docLines, expectL, List.nil_append]
    exact (callsLF_exhausted cfg fss h k _ trail htrail).1
  | cons b bs =>
    obtain ⟨G', g1, g2⟩ := callsLF_core cfg fss trail htrail bs b i b.lead h hok hsep hok.1.lead
    simp only [List.length_cons, docLines, g2]
    have := callsLF_exhausted cfg fss (expectL cfg (b :: bs) h).2 k (i + (bs.length + 1)) G' g1
    rw [this.1]

/-! ### from the grammar -/

def toABlocksF (cfg : Cfg) (fss : Nat → FS) : Nat → List Block → List ABlock
  | _, [] => []
  | i, b :: r => toABlock (withFS cfg (fss i)) b :: toABlocksF cfg fss (i + 1) r

/-- block `j` is legal with respect to the file system call `i + j` sees (its body file exists then) -/
def LegalFrom (cfg : Cfg) (fss : Nat → FS) : Nat → List Block → Prop
  | _, [] => True
  | i, b :: r => b.Legal cfg.validURI (fss i) ∧ LegalFrom cfg fss (i + 1) r

theorem okFrom_of_legal (cfg : Cfg) (fss : Nat → FS) : ∀ (bs : List Block) (i : Nat), LegalFrom cfg fss i bs →
    OKFrom cfg fss i (toABlocksF cfg fss i bs) := by
  intro bs
  induction bs with
  | nil => intro i _; trivial
  | cons b r ih =>
    intro i hl
    exact ⟨toABlock_ok (withFS cfg (fss i)) b hl.1, ih (i + 1) hl.2⟩

theorem toABlocksF_length (cfg : Cfg) (fss : Nat → FS) : ∀ (bs : List Block) (i : Nat), (toABlocksF cfg fss i bs).length = bs.length := by
  intro bs
  induction bs with
  | nil => intro i; rfl
  | cons b r ih => intro i; simp [toABlocksF, ih]

theorem doc_lines_mapF (cfg : Cfg) (fss : Nat → FS) (trail : List Bytes) : ∀ (blocks : List Block) (i : Nat),
    (blocks.flatMap Block.lines).map dropCR ++ trail = docLines trail (toABlocksF cfg fss i blocks) := by
  intro blocks
  induction blocks with
  | nil => intro i; rfl
  | cons b r ih =>
    intro i
    rw [show toABlocksF cfg fss i (b :: r) = toABlock (withFS cfg (fss i)) b :: toABlocksF cfg fss (i + 1) r by rfl,
      show docLines trail (toABlock (withFS cfg (fss i)) b :: toABlocksF cfg fss (i + 1) r) =
        (toABlock (withFS cfg (fss i)) b).lead ++ core trail (toABlock (withFS cfg (fss i)) b) (toABlocksF cfg fss (i + 1) r) by rfl,
      core_cons, ← ih (i + 1), List.flatMap_cons, List.map_append, block_lines_map (withFS cfg (fss i)) b]
    simp

theorem asep_of_specF (cfg : Cfg) (fss : Nat → FS) : ∀ (bs : List Block) (i : Nat), LegalFrom cfg fss i bs →
    Separated bs → ASep (toABlocksF cfg fss i bs) := by
  intro bs
  induction bs with
  | nil => intro _ _ _; trivial
  | cons b r ih =>
    intro i hl hs
    cases r with
    | nil => trivial
    | cons b' r' =>
      refine ⟨?_, ih (i + 1) hl.2 hs.2⟩
      intro hbody hhdr
      have hbn : b.body = none := by
        simp only [toABlock, Option.map_eq_none_iff] at hbody; exact hbody
      have hh : b.hasHeader = true := by
        obtain ⟨it, hit, hi⟩ := hhdr
        simp only [toABlock, List.mem_map] at hit
        obtain ⟨i', hi', rfl⟩ := hit
        rw [toAItem_isHdr] at hi
        simp only [Block.hasHeader, List.any_eq_true]
        exact ⟨i', hi', hi⟩
      exact lead_blank (withFS cfg (fss (i + 1))) b' hl.2.1 (hs.1 ⟨hh, hbn⟩)

/-- result `j` is an ok target that matches block `j` described with the file system of call `i + j` -/
def DescribedFrom (cfg : Cfg) (h0 : Heap) (fss : Nat → FS) : Nat → List (Outcome Target × Heap) → List Block → Prop
  | _, [], [] => True
  | i, r :: rs, b :: bs =>
    (∃ t, r.1 = .ok t ∧ Matches r.2 t (describe (defaultsOf cfg h0) cfg.body (fss i) b)) ∧ DescribedFrom cfg h0 fss (i + 1) rs bs
  | _, _, _ => False

theorem expect_matchesF (cfg : Cfg) (h0 : Heap) (fss : Nat → FS) : ∀ (bs : List Block) (i : Nat) (h : Heap),
    LegalFrom cfg fss i bs → WfDefaults cfg h → (∀ k, defaultsOf cfg h k = defaultsOf cfg h0 k) →
    DescribedFrom cfg h0 fss i (expectL cfg (toABlocksF cfg fss i bs) h).1 bs := by
  intro bs
  induction bs with
  | nil => intro i h _ _ _; trivial
  | cons b r ih =>
    intro i h hl wf hdv
    simp only [toABlocksF, expectL]
    have he := built_extends cfg h (ownOf (toABlock (withFS cfg (fss i)) b).items)
    refine ⟨⟨_, rfl, rfl, rfl, ?_, ?_⟩, ?_⟩
    · simp only [ABlock.result, toABlock, describe, withFS]
      cases b.body <;> rfl
    · intro k
      have hm := built_merge cfg h wf (ownOf (toABlock (withFS cfg (fss i)) b).items) k
      simp only [ABlock.result]
      rw [hm]
      have h1 : (hlookup cfg.hdr k).map (view h) = defaultsOf cfg h0 k := hdv k
      have h2 : ownVals (ownOf (toABlock (withFS cfg (fss i)) b).items) k = ownValues b.headers k := by
        simp only [toABlock, ownOf_toAItem]; rfl
      rw [h1, h2]
      rfl
    · exact ih (i + 1) _ hl.2 (wf_extends he wf) (fun k => (defaultsOf_extends he wf k).trans (hdv k))

end Vegeta.Proofs.HTTPFileSystem
