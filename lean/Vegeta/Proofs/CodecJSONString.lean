/-
The JSON string layer of the result codec: what `jwriter.Writer.String` writes is found again,
whole, by the lexer's string scan, and unescapes to the original text when that was valid UTF-8.
-/
import Vegeta.Model.CodecResult
namespace Vegeta.Proofs.Codec
open Vegeta.Go Vegeta.Model.Codec

/-! ### shape of a successfully decoded multi-byte rune -/

theorem decodeRune_shape_aux (c : Nat) (r : Bytes) (rune w : Nat) (h : decodeRune (c :: r) = (rune, w))
    (hc : 128 ≤ c) (hw : w ≠ 1) :
    ∃ blk r', c :: r = blk ++ r' ∧ blk.length = w ∧ 2 ≤ w ∧ (∀ b ∈ blk, 128 ≤ b) ∧
      (rune = 0x2028 → blk = [0xE2, 0x80, 0xA8]) ∧
      (rune = 0x2029 → blk = [0xE2, 0x80, 0xA9]) := by
  simp only [decodeRune] at h
  split at h
  · omega
  split at h
  · simp at h; omega
  split at h
  · split at h
    · rename_i c1 t
      split at h
      · rename_i h1
        simp only [isCont, Bool.and_eq_true, decide_eq_true_eq] at h1
        simp only [Prod.mk.injEq] at h
        refine ⟨[c, c1], t, ?_⟩
        simp
        omega
      · simp at h; omega
    · simp at h; omega
  split at h
  · split at h
    · rename_i c1 c2 t
      simp only [isCont, Bool.and_eq_true, decide_eq_true_eq] at h
      repeat' split at h
      all_goals simp only [Prod.mk.injEq] at h
      all_goals first
        | omega
        | (refine ⟨[c, c1, c2], t, ?_⟩; simp; omega)
    · simp at h; omega
  split at h
  · split at h
    · rename_i c1 c2 c3 t
      simp only [isCont, Bool.and_eq_true, decide_eq_true_eq] at h
      repeat' split at h
      all_goals simp only [Prod.mk.injEq] at h
      all_goals first
        | omega
        | (refine ⟨[c, c1, c2, c3], t, ?_⟩; simp; omega)
    · simp at h; omega
  · simp at h; omega

/-- the shape lemma in the form the writer uses it -/
theorem decodeRune_shape (c : Nat) (r : Bytes) (hc : 128 ≤ c) (hw : (decodeRune (c :: r)).2 ≠ 1) :
    ∃ blk r', c :: r = blk ++ r' ∧ (c :: r).take (decodeRune (c :: r)).2 = blk ∧
      r.drop ((decodeRune (c :: r)).2 - 1) = r' ∧ 2 ≤ blk.length ∧ (∀ b ∈ blk, 128 ≤ b) ∧
      ((decodeRune (c :: r)).1 = 0x2028 → blk = [0xE2, 0x80, 0xA8]) ∧
      ((decodeRune (c :: r)).1 = 0x2029 → blk = [0xE2, 0x80, 0xA9]) := by
  obtain ⟨blk, r', e, hl, h2, hb, h28, h29⟩ :=
    decodeRune_shape_aux c r (decodeRune (c :: r)).1 (decodeRune (c :: r)).2 rfl hc hw
  refine ⟨blk, r', e, ?_, ?_, by omega, hb, h28, h29⟩
  all_goals generalize (decodeRune (c :: r)).2 = w at h2 hl
  · rw [e, ← hl]; simp
  · have : (c :: r).drop w = r' := by rw [e, ← hl]; simp
    rw [← this]
    cases w with
    | zero => omega
    | succ n => simp

/-! ### an induction principle for the writer

`P s v out` is established for `v = validUTF8 s`, `out = jsonEscape s` from the five kinds of step. -/

theorem jsonEscapeF_ind (P : Bytes → Bool → Bytes → Prop)
    (nil : P [] true [])
    (ascii : ∀ c r v out, c < 128 → P r v out → P (c :: r) v (escAscii c ++ out))
    (bad : ∀ c r v out, 128 ≤ c → P r v out → P (c :: r) false ([92, 117, 102, 102, 102, 100] ++ out))
    (ls : ∀ r v out, P r v out → P ([0xE2, 0x80, 0xA8] ++ r) v ([92, 117, 50, 48, 50, 56] ++ out))
    (ps : ∀ r v out, P r v out → P ([0xE2, 0x80, 0xA9] ++ r) v ([92, 117, 50, 48, 50, 57] ++ out))
    (copy : ∀ blk r v out, 2 ≤ blk.length → (∀ b ∈ blk, 128 ≤ b) → P r v out →
      P (blk ++ r) v (blk ++ out)) :
    ∀ f s, s.length ≤ f → P s (validUTF8F f s) (jsonEscapeF f s) := by
  intro f
  induction f with
  | zero =>
    intro s hs
    have : s = [] := List.eq_nil_of_length_eq_zero (by omega)
    subst this
    simpa [validUTF8F, jsonEscapeF] using nil
  | succ f ih =>
    intro s hs
    cases s with
    | nil => simpa [validUTF8F, jsonEscapeF] using nil
    | cons c r =>
      simp only [List.length_cons] at hs
      simp only [validUTF8F, jsonEscapeF]
      by_cases hc : c < 128
      · simp only [hc, if_true]
        exact ascii c r _ _ hc (ih r (by omega))
      · simp only [hc, if_false]
        by_cases hw : (decodeRune (c :: r)).2 = 1
        · simp only [hw, if_true]
          exact bad c r _ _ (by omega) (ih r (by omega))
        · simp only [hw, if_false]
          obtain ⟨blk, r', e, ht, hd, hl, hb, h28, h29⟩ := decodeRune_shape c r (by omega) hw
          have hlen : r'.length ≤ f := by
            have := congrArg List.length e
            simp at this; omega
          rw [ht, hd]
          by_cases h1 : (decodeRune (c :: r)).1 = 0x2028
          · simp only [h1, true_or, if_true]
            rw [e, h28 h1]
            exact ls r' _ _ (ih r' hlen)
          · by_cases h2 : (decodeRune (c :: r)).1 = 0x2029
            · simp only [h2, or_true, if_true]
              rw [e, h29 h2]
              exact ps r' _ _ (ih r' hlen)
            · simp only [h1, h2, or_self, if_false]
              rw [e]
              exact copy blk r' _ _ hl hb (ih r' hlen)

theorem jsonEscape_ind (P : Bytes → Bool → Bytes → Prop)
    (nil : P [] true [])
    (ascii : ∀ c r v out, c < 128 → P r v out → P (c :: r) v (escAscii c ++ out))
    (bad : ∀ c r v out, 128 ≤ c → P r v out → P (c :: r) false ([92, 117, 102, 102, 102, 100] ++ out))
    (ls : ∀ r v out, P r v out → P ([0xE2, 0x80, 0xA8] ++ r) v ([92, 117, 50, 48, 50, 56] ++ out))
    (ps : ∀ r v out, P r v out → P ([0xE2, 0x80, 0xA9] ++ r) v ([92, 117, 50, 48, 50, 57] ++ out))
    (copy : ∀ blk r v out, 2 ≤ blk.length → (∀ b ∈ blk, 128 ≤ b) → P r v out →
      P (blk ++ r) v (blk ++ out)) (s : Bytes) :
    P s (validUTF8 s) (jsonEscape s) :=
  jsonEscapeF_ind P nil ascii bad ls ps copy s.length s (Nat.le_refl _)

/-! ### hex digits -/

theorem hexLower_ge (n : Nat) : 48 ≤ hexLower n := by
  unfold hexLower; split <;> omega

theorem hexLower_plain (n : Nat) : hexLower n ≠ 34 ∧ hexLower n ≠ 92 := by
  unfold hexLower; split <;> omega

theorem hexVal_hexLower (n : Nat) (h : n < 16) : hexVal (hexLower n) = some n := by
  unfold hexLower hexVal
  split
  · rw [if_pos (by omega)]; congr 1; omega
  · rw [if_neg (by omega), if_pos (by omega)]; congr 1; omega

/-! ### the lexer's string scan -/

/-- `u` is scanned through without ending the token and leaves the backslash parity even -/
def ScanUnit (u : Bytes) : Prop :=
  ∀ t, fetchStringP false (u ++ t) = (fetchStringP false t).map (fun p => (u ++ p.1, p.2))

theorem scanUnit_nil : ScanUnit [] := by
  intro t; rw [List.nil_append]; cases fetchStringP false t <;> simp

theorem scanUnit_append {u v : Bytes} (hu : ScanUnit u) (hv : ScanUnit v) : ScanUnit (u ++ v) := by
  intro t
  rw [List.append_assoc, hu, hv]
  cases fetchStringP false t <;> simp

theorem scanUnit_plain (u : Bytes) (h : ∀ c ∈ u, c ≠ 34 ∧ c ≠ 92) : ScanUnit u := by
  induction u with
  | nil => exact scanUnit_nil
  | cons c u ih =>
    intro t
    have hc := h c (by simp)
    have := ih (fun x hx => h x (by simp [hx])) t
    simp only [List.cons_append, fetchStringP, hc.1, hc.2, false_and, if_false, this]
    cases fetchStringP false t <;> simp

/-- a backslash and the byte after it, whatever that is -/
theorem scanUnit_esc (x : Nat) : ScanUnit [92, x] := by
  intro t
  simp [fetchStringP]
  cases fetchStringP false t <;> simp

theorem scanUnit_escAscii (c : Nat) : ScanUnit (escAscii c) := by
  unfold escAscii
  repeat' split
  any_goals exact scanUnit_esc _
  · exact scanUnit_append (scanUnit_esc 117) (scanUnit_plain [48, 48, hexLower (c / 16), hexLower (c % 16)]
      (by
        have := hexLower_plain (c / 16); have := hexLower_plain (c % 16)
        intro x hx; simp at hx; rcases hx with rfl | rfl | rfl <;> simp_all))
  · exact scanUnit_plain [c] (by intro x hx; simp at hx; subst hx; omega)

/-- text without quote and backslash is a string token body as it stands -/
theorem fetchString_plain (s rest : Bytes) (h : ∀ c ∈ s, c ≠ 34 ∧ c ≠ 92) :
    fetchString (s ++ 34 :: rest) = some (s, rest) := by
  unfold fetchString
  rw [scanUnit_plain s h]
  simp [fetchStringP]

theorem scanUnit_jsonEscape (s : Bytes) : ScanUnit (jsonEscape s) := by
  refine jsonEscape_ind (fun _ _ out => ScanUnit out) scanUnit_nil ?_ ?_ ?_ ?_ ?_ s
  · intro c r v out _ ih
    exact scanUnit_append (scanUnit_escAscii c) ih
  · intro c r v out _ ih
    exact scanUnit_append (scanUnit_append (scanUnit_esc 117) (scanUnit_plain [102, 102, 102, 100] (by decide))) ih
  · intro r v out ih
    exact scanUnit_append (scanUnit_append (scanUnit_esc 117) (scanUnit_plain [50, 48, 50, 56] (by decide))) ih
  · intro r v out ih
    exact scanUnit_append (scanUnit_append (scanUnit_esc 117) (scanUnit_plain [50, 48, 50, 57] (by decide))) ih
  · intro blk r v out _ hb ih
    exact scanUnit_append (scanUnit_plain blk (fun x hx => by have := hb x hx; omega)) ih

/-- **the lexer finds exactly the end of what the writer wrote**, for every byte string `s` (valid UTF-8 or
not) and whatever follows the closing quote -/
theorem fetchString_jsonEscape (s rest : Bytes) :
    fetchString (jsonEscape s ++ 34 :: rest) = some (jsonEscape s, rest) := by
  unfold fetchString
  rw [scanUnit_jsonEscape s]
  simp [fetchStringP]

/-- the writer's output never contains a byte below 0x20 (in particular no raw newline) -/
theorem jsonEscape_no_ctl (s : Bytes) : ∀ c ∈ jsonEscape s, 32 ≤ c := by
  refine jsonEscape_ind (fun _ _ out => ∀ c ∈ out, 32 ≤ c) (by simp) ?_ ?_ ?_ ?_ ?_ s
  · intro c r v out _ ih x hx
    rcases List.mem_append.1 hx with hx | hx
    · have := hexLower_ge (c / 16); have := hexLower_ge (c % 16)
      unfold escAscii at hx
      repeat' split at hx
      all_goals simp at hx
      all_goals omega
    · exact ih x hx
  · intro c r v out _ ih x hx
    rcases List.mem_append.1 hx with hx | hx
    · simp at hx; omega
    · exact ih x hx
  · intro r v out ih x hx
    rcases List.mem_append.1 hx with hx | hx
    · simp at hx; omega
    · exact ih x hx
  · intro r v out ih x hx
    rcases List.mem_append.1 hx with hx | hx
    · simp at hx; omega
    · exact ih x hx
  · intro blk r v out _ hb ih x hx
    rcases List.mem_append.1 hx with hx | hx
    · have := hb x hx; omega
    · exact ih x hx

/-! ### unescaping -/

/-- a block without backslash is copied -/
theorem unescapeF_plain (u : Bytes) (h : 92 ∉ u) (f : Nat) (t : Bytes) :
    unescapeF (f + u.length) (u ++ t) = (unescapeF f t).map (fun o => u ++ o) := by
  induction u with
  | nil => cases h' : unescapeF f t <;> simp [h']
  | cons c u ih =>
    have hc : c ≠ 92 := fun e => h (by simp [e])
    have := ih (fun hx => h (by simp [hx]))
    show unescapeF (f + u.length + 1) (c :: (u ++ t)) = _
    simp only [unescapeF, hc, if_false, this]
    cases unescapeF f t <;> simp

/-- unescaping text without backslash changes nothing -/
theorem unescape_plain (s : Bytes) (h : 92 ∉ s) : unescape s = some s := by
  have := unescapeF_plain s h 1 []
  simp only [List.append_nil] at this
  unfold unescape
  rw [Nat.add_comm, this]
  simp [unescapeF]

/-- `\u00XY` decodes to the ASCII byte it was made from -/
theorem unescapeF_u00 (c f : Nat) (t : Bytes) (hc : c < 128) :
    unescapeF (f + 1) ([92, 117, 48, 48, hexLower (c / 16), hexLower (c % 16)] ++ t) =
      (unescapeF f t).map (fun o => c :: o) := by
  have h1 := hexVal_hexLower (c / 16) (by omega)
  have h2 := hexVal_hexLower (c % 16) (by omega)
  have h0 : hexVal 48 = some 0 := by decide
  have e : ((0 * 16 + 0) * 16 + c / 16) * 16 + c % 16 = c := by omega
  simp only [List.cons_append, List.nil_append, unescapeF, decodeEscape, getu4, h0, h1, h2, e]
  rw [if_neg (c := 55296 ≤ c ∧ c < 57344) (by omega)]
  simp [encodeRune, hc]

/-- **unescape ∘ escape = id on valid UTF-8** (jlexer.String ∘ jwriter.String) -/
theorem unescape_jsonEscape (s : Bytes) (h : validUTF8 s = true) : unescape (jsonEscape s) = some s := by
  have key := jsonEscape_ind
    (fun s v out => v = true → ∀ f, out.length < f → unescapeF f out = some s) ?_ ?_ ?_ ?_ ?_ ?_ s
  · exact key h _ (Nat.lt_succ_self _)
  · intro _ f hf
    cases f with
    | zero => omega
    | succ f => simp [unescapeF]
  · intro c r v out hc ih hv f hf
    cases f with
    | zero => omega
    | succ f =>
      revert hf
      unfold escAscii
      repeat' split
      all_goals intro hf
      all_goals simp only [List.length_append, List.length_cons, List.length_nil] at hf
      all_goals first
        | rw [unescapeF_u00 c f out hc, ih hv f (by omega)]; rfl
        | (simp [unescapeF, decodeEscape, encodeRune, ih hv f (by omega), *]; done)
  · intro c r v out _ _ hv
    cases hv
  · intro r v out ih hv f hf
    cases f with
    | zero => omega
    | succ f =>
      simp at hf
      simp [unescapeF, decodeEscape, getu4, hexVal, encodeRune, ih hv f (by omega)]
  · intro r v out ih hv f hf
    cases f with
    | zero => omega
    | succ f =>
      simp at hf
      simp [unescapeF, decodeEscape, getu4, hexVal, encodeRune, ih hv f (by omega)]
  · intro blk r v out _ hb ih hv f hf
    simp at hf
    have hn : 92 ∉ blk := fun hx => by have := hb 92 hx; omega
    have := unescapeF_plain blk hn (f - blk.length) out
    rw [Nat.sub_add_cancel (by omega)] at this
    rw [this, ih hv _ (by omega)]
    rfl

/-! ### sanity checks -/

-- `a<\n"` followed by U+2028 is written as `a\u003c\n\"\u2028`
example : jsonEscape [97, 60, 10, 34, 0xE2, 0x80, 0xA8] =
    [97, 92, 117, 48, 48, 51, 99, 92, 110, 92, 34, 92, 117, 50, 48, 50, 56] := by decide
example : unescape (jsonEscape [97, 60, 10, 34, 0xE2, 0x80, 0xA8]) =
    some [97, 60, 10, 34, 0xE2, 0x80, 0xA8] := by decide
example : fetchString (jsonEscape [97, 60, 10, 34, 0xE2, 0x80, 0xA8] ++ [34, 44, 34]) =
    some (jsonEscape [97, 60, 10, 34, 0xE2, 0x80, 0xA8], [44, 34]) := by decide
example : jsonString [34] = [34, 92, 34, 34] := by decide
-- an invalid byte is written as `\ufffd`, which reads back as U+FFFD: no round trip
example : validUTF8 [0xFF] = false := by decide
example : jsonEscape [0xFF] = [92, 117, 102, 102, 102, 100] := by decide
example : unescape (jsonEscape [0xFF]) = some [0xEF, 0xBF, 0xBD] := by decide
example : unescape (jsonEscape [0xFF]) ≠ some [0xFF] := by decide
-- multi-byte text is copied (é, €, U+1F600), a truncated sequence is not
example : jsonEscape [0xC3, 0xA9, 0xE2, 0x82, 0xAC, 0xF0, 0x9F, 0x98, 0x80] =
    [0xC3, 0xA9, 0xE2, 0x82, 0xAC, 0xF0, 0x9F, 0x98, 0x80] := by decide
example : jsonEscape [0xE2, 0x82] = [92, 117, 102, 102, 102, 100, 92, 117, 102, 102, 102, 100] := by decide
-- a raw backslash-quote in the input cannot end the token early
example : fetchString (jsonEscape [92, 34] ++ [34]) = some ([92, 92, 92, 34], []) := by decide

end Vegeta.Proofs.Codec
