/-
Helper lemmas for C17: the re-ordering buffer of `labeledSeries.add` releases every result
exactly once and in sequence order, whatever the arrival order.
-/
import Vegeta.Model.Plot
namespace Vegeta.Proofs.PlotOrder
open Vegeta.Go Vegeta.Model.LTTB Vegeta.Model.Plot

/-! ### association lists -/

theorem bufLookup_erase (buf : List (Nat × BufPoint)) (k k' : Nat) :
    bufLookup (bufErase buf k) k' = if k' = k then none else bufLookup buf k' := by
  induction buf with
  | nil => simp [bufErase, bufLookup]
  | cons e rest ih =>
    obtain ⟨ke, pe⟩ := e
    unfold bufErase at ih ⊢
    simp only [List.filter_cons]
    by_cases h : ke = k
    · subst h
      simp only [bne_self_eq_false, Bool.false_eq_true, ↓reduceIte]
      rw [ih]
      by_cases h' : k' = ke
      · simp [h']
      · simp only [h', ↓reduceIte, bufLookup]
        have : (ke == k') = false := by simp; omega
        simp [this]
    · have hne : (ke != k) = true := by simp [h]
      simp only [hne, ↓reduceIte, bufLookup]
      by_cases h' : ke = k'
      · subst h'; simp [h]
      · have : (ke == k') = false := by simp [h']
        simp only [this, Bool.false_eq_true, ↓reduceIte]
        exact ih

theorem bufLookup_insert (buf : List (Nat × BufPoint)) (k : Nat) (p : BufPoint) (k' : Nat) :
    bufLookup (bufInsert buf k p) k' = if k' = k then some p else bufLookup buf k' := by
  unfold bufInsert
  simp only [bufLookup]
  by_cases h : k = k'
  · subst h; simp
  · have : (k == k') = false := by simp [h]
    have h' : ¬ k' = k := fun e => h e.symm
    simp only [this, Bool.false_eq_true, ↓reduceIte, h']
    rw [bufLookup_erase]; simp [h']

theorem bufErase_length_lt (buf : List (Nat × BufPoint)) (k : Nat) (p : BufPoint)
    (h : bufLookup buf k = some p) : (bufErase buf k).length < buf.length := by
  induction buf with
  | nil => simp [bufLookup] at h
  | cons e rest ih =>
    obtain ⟨ke, pe⟩ := e
    unfold bufErase
    simp only [List.filter_cons]
    by_cases hk : ke = k
    · subst hk
      simp only [bne_self_eq_false, Bool.false_eq_true, ↓reduceIte, List.length_cons]
      have := List.length_filter_le (fun e : Nat × BufPoint => e.1 != ke) rest
      omega
    · have hne : (ke != k) = true := by simp [hk]
      simp only [hne, ↓reduceIte, List.length_cons]
      have : (ke == k) = false := by simp [hk]
      simp only [bufLookup, this, Bool.false_eq_true, ↓reduceIte] at h
      have := ih h
      unfold bufErase at this
      omega

theorem seriesLookup_set (ss : List (Bytes × TimeSeries)) (l : Bytes) (s : TimeSeries) (l' : Bytes) :
    seriesLookup (seriesSet ss l s) l' = if l' = l then some s else seriesLookup ss l' := by
  induction ss with
  | nil =>
    simp only [seriesSet, seriesLookup]
    by_cases h : l = l'
    · subst h; simp
    · have : (l == l') = false := by simp [h]
      have h' : ¬ l' = l := fun e => h e.symm
      simp [this, h']
  | cons e rest ih =>
    obtain ⟨le, se⟩ := e
    simp only [seriesSet]
    by_cases h : le = l
    · subst h
      simp only [beq_self_eq_true, ↓reduceIte, seriesLookup]
      by_cases h' : le = l'
      · subst h'; simp
      · have : (le == l') = false := by simp [h']
        have h'' : ¬ l' = le := fun e => h' e.symm
        simp [this, h'']
    · have : (le == l) = false := by simp [h]
      simp only [this, Bool.false_eq_true, ↓reduceIte, seriesLookup]
      by_cases h' : le = l'
      · subst h'
        have h'' : ¬ le = l := h
        simp [h'']
      · have : (le == l') = false := by simp [h']
        simp only [this, Bool.false_eq_true, ↓reduceIte]
        exact ih

theorem seriesLookup_append_new (ss : List (Bytes × TimeSeries)) (l : Bytes) (s : TimeSeries) (l' : Bytes)
    (hnone : seriesLookup ss l = none) :
    seriesLookup (ss ++ [(l, s)]) l' = if l' = l then some s else seriesLookup ss l' := by
  induction ss with
  | nil =>
    simp only [List.nil_append, seriesLookup]
    by_cases h : l = l'
    · subst h; simp
    · have : (l == l') = false := by simp [h]
      have h' : ¬ l' = l := fun e => h e.symm
      simp [this, h']
  | cons e rest ih =>
    obtain ⟨le, se⟩ := e
    simp only [List.cons_append, seriesLookup] at hnone ⊢
    by_cases h : le = l
    · subst h; simp at hnone
    · have hf : (le == l) = false := by simp [h]
      simp only [hf, Bool.false_eq_true, ↓reduceIte] at hnone
      by_cases h' : le = l'
      · subst h'
        have : ¬ le = l := h
        simp [this]
      · have : (le == l') = false := by simp [h']
        simp only [this, Bool.false_eq_true, ↓reduceIte]
        exact ih hnone

/-! ### time arithmetic -/

/-- ms since `began` is monotone in the time stamp, for time stamps not before `began`
(the saturation of `Time.Sub` is monotone as well). -/
theorem msSince_mono (began t t' : Int) (h0 : began ≤ t) (h : t ≤ t') :
    msSince t began ≤ msSince t' began := by
  unfold msSince
  apply Nat.div_le_div_right
  unfold wrapU64 timeSub maxInt64 minInt64 two64
  simp only []
  split <;> split <;> (try split) <;> (try split) <;> omega

/-- Inside the `Duration` range the plotted x is the whole number of milliseconds since `began`. -/
theorem msSince_eq_floor (began t : Int) (h0 : began ≤ t) (h1 : t - began ≤ maxInt64) :
    (msSince t began : Int) = (t - began) / 1000000 := by
  unfold msSince wrapU64 timeSub maxInt64 minInt64 two64
  unfold maxInt64 at h1
  simp only []
  split
  · omega
  · split
    · omega
    · omega

/-! ### one attack -/

def pt (r : Result) : BufPoint := { label := r.label, seq := r.seq, t := r.ts, v := latencyMs r.latency }

/-- `cs` lists the results of attack `a` in sequence order: sequence numbers `0, 1, 2, …`
and time stamps that do not decrease with the sequence number (property C05). -/
structure Canon (a : Bytes) (cs : List Result) : Prop where
  attack : ∀ r ∈ cs, r.attack = a
  seq : ∀ (i : Nat) (r : Result), cs[i]? = some r → r.seq = i
  mono : ∀ (i j : Nat) (r r' : Result), i ≤ j → cs[i]? = some r → cs[j]? = some r' → r.ts ≤ r'.ts

/-- time stamp of the first request (sequence number 0) -/
def t0 (cs : List Result) : Int := (cs.head?.map (·.ts)).getD zeroTime

/-- the points the series of label `l` must hold once the results `cs` have been released -/
def specPts (began : Int) (cs : List Result) (l : Bytes) : List (Nat × F64) :=
  (cs.filter (fun r => r.label == l)).map (fun r => (msSince r.ts began, latencyMs r.latency))

def prevOf (pts : List (Nat × F64)) : Nat := (pts.getLast?.map (·.1)).getD 0

def specSeries (a : Bytes) (began : Int) (cs : List Result) (l : Bytes) : TimeSeries :=
  { attack := a, label := l, prev := prevOf (specPts began cs l), pts := specPts began cs l }

theorem t0_le (a : Bytes) (cs : List Result) (hc : Canon a cs) (i : Nat) (r : Result)
    (h : cs[i]? = some r) : t0 cs ≤ r.ts := by
  cases cs with
  | nil => simp at h
  | cons c rest =>
    simp only [t0, List.head?_cons, Option.map_some, Option.getD_some]
    exact hc.mono 0 i c r (Nat.zero_le _) (by simp) h

theorem specPts_take_succ (began : Int) (cs : List Result) (k : Nat) (r : Result) (l : Bytes)
    (h : cs[k]? = some r) :
    specPts began (cs.take (k+1)) l =
      specPts began (cs.take k) l ++ (if r.label = l then [(msSince r.ts began, latencyMs r.latency)] else []) := by
  unfold specPts
  rw [List.take_add_one, h]
  simp only [Option.toList_some, List.filter_append, List.map_append, List.filter_cons, List.filter_nil]
  by_cases hl : r.label = l
  · simp [hl]
  · have : (r.label == l) = false := by simp [hl]
    simp [this, hl]

theorem prevOf_le (a : Bytes) (cs : List Result) (hc : Canon a cs) (k : Nat) (r : Result) (l : Bytes)
    (h : cs[k]? = some r) : prevOf (specPts (t0 cs) (cs.take k) l) ≤ msSince r.ts (t0 cs) := by
  unfold prevOf
  cases hq : (specPts (t0 cs) (cs.take k) l).getLast? with
  | none => simp
  | some q =>
    simp only [Option.map_some, Option.getD_some]
    have hm := List.mem_of_getLast? hq
    unfold specPts at hm
    rw [List.mem_map] at hm
    obtain ⟨r', hr', hq'⟩ := hm
    rw [List.mem_filter] at hr'
    obtain ⟨hr'm, _⟩ := hr'
    rw [List.mem_take_iff_getElem] at hr'm
    obtain ⟨j, hj, hje⟩ := hr'm
    have hjlt : j < cs.length := by omega
    have hjk : j ≤ k := by omega
    have hget : cs[j]? = some r' := by rw [List.getElem?_eq_getElem hjlt, hje]
    rw [← hq']
    exact msSince_mono _ _ _ (t0_le a cs hc j r' hget) (hc.mono j k r' r hjk hget h)

/-- State of the buffer after the results with sequence numbers `S` (labels `L`) have arrived;
`ls.seq` may still be releasable. -/
structure PInv (a : Bytes) (cs : List Result) (S : List Nat) (L : List Bytes) (ls : LabeledSeries) : Prop where
  seq_le : ls.seq ≤ cs.length
  below : ∀ k, k < ls.seq → k ∈ S
  buf : ∀ k, bufLookup ls.buf k = if k ∈ S ∧ ls.seq ≤ k then cs[k]?.map pt else none
  series : ∀ l, seriesLookup ls.series l =
    if l ∈ L then some (specSeries a (t0 cs) (cs.take ls.seq) l) else none
  began : (0 < ls.seq ∨ 0 ∈ S) → ls.began = t0 cs
  labels : ∀ k r, k ∈ S → cs[k]? = some r → r.label ∈ L
  inS : ∀ k, k ∈ S → k < cs.length

/-- The release loop: releases exactly the arrived results from `ls.seq` up to the first
missing sequence number, never fails on in-order time stamps. -/
theorem release_spec (a : Bytes) (cs : List Result) (hc : Canon a cs) (S : List Nat) (L : List Bytes) :
    ∀ (fuel : Nat) (ls : LabeledSeries), PInv a cs S L ls → ls.buf.length < fuel →
      ∃ ls', release fuel ls = .ok ls' ∧ PInv a cs S L ls' ∧ ls'.seq ∉ S := by
  intro fuel
  induction fuel with
  | zero => intro ls _ h; omega
  | succ fuel ih =>
    intro ls hinv hfuel
    unfold release
    have hb := hinv.buf ls.seq
    by_cases hmem : ls.seq ∈ S
    · have hlt := hinv.inS _ hmem
      have hget : cs[ls.seq]? = some cs[ls.seq] := List.getElem?_eq_getElem hlt
      generalize hr : cs[ls.seq] = r at hget
      simp only [hmem, Nat.le_refl, and_self, ↓reduceIte, hget, Option.map_some] at hb
      rw [hb]
      simp only []
      have hlab : r.label ∈ L := hinv.labels _ _ hmem hget
      have hs := hinv.series r.label
      simp only [hlab, ↓reduceIte] at hs
      have hpl : (pt r).label = r.label := rfl
      rw [hpl, hs]
      simp only []
      have hbegan : ls.began = t0 cs := by
        apply hinv.began
        by_cases h0 : 0 < ls.seq
        · left; exact h0
        · right
          have : ls.seq = 0 := by omega
          rw [this] at hmem; exact hmem
      have hpt : (pt r).t = r.ts := rfl
      have hpv : (pt r).v = latencyMs r.latency := rfl
      rw [hpt, hpv, hbegan]
      have hprev := prevOf_le a cs hc ls.seq r r.label hget
      unfold TimeSeries.add
      have hnp : ¬ (specSeries a (t0 cs) (cs.take ls.seq) r.label).prev > msSince r.ts (t0 cs) := by
        simp only [specSeries]; omega
      rw [if_neg hnp]
      simp only []
      apply ih
      · constructor
        · simp only; omega
        · intro k hk
          simp only at hk
          by_cases hk' : k < ls.seq
          · exact hinv.below k hk'
          · have : k = ls.seq := by omega
            rw [this]; exact hmem
        · intro k
          simp only
          rw [bufLookup_erase, hinv.buf k]
          by_cases hk : k = ls.seq
          · rw [hk]; simp; intro _ h; omega
          · simp only [hk, ↓reduceIte]
            have : (ls.seq ≤ k) ↔ (ls.seq + 1 ≤ k) := by omega
            simp only [this]
        · intro l
          simp only
          rw [seriesLookup_set, hinv.series l]
          by_cases hl : l = r.label
          · subst hl
            simp only [↓reduceIte, hlab, Option.some.injEq]
            unfold specSeries
            rw [specPts_take_succ _ _ _ _ _ hget]
            simp [prevOf]
          · simp only [hl, ↓reduceIte]
            unfold specSeries
            rw [specPts_take_succ _ _ _ _ _ hget]
            have : ¬ r.label = l := fun e => hl e.symm
            simp [this]
        · intro _; rfl
        · exact hinv.labels
        · exact hinv.inS
      · simp only
        have := bufErase_length_lt ls.buf ls.seq (pt r) hb
        omega
    · simp only [hmem, false_and, ↓reduceIte] at hb
      rw [hb]
      exact ⟨ls, rfl, hinv, hmem⟩

/-- State after the results with sequence numbers `S` have been added: `PInv` and nothing left
to release (`ls.seq` is the first missing sequence number). -/
def Inv (a : Bytes) (cs : List Result) (S : List Nat) (L : List Bytes) (ls : LabeledSeries) : Prop :=
  PInv a cs S L ls ∧ ls.seq ∉ S

theorem inv_new (a : Bytes) (cs : List Result) : Inv a cs [] [] LabeledSeries.new := by
  refine ⟨⟨?_, ?_, ?_, ?_, ?_, ?_, ?_⟩, ?_⟩ <;> simp [LabeledSeries.new, bufLookup, seriesLookup]

/-- One `labeledSeries.add` of a not yet arrived result of the attack. -/
theorem add_spec (a : Bytes) (cs : List Result) (hc : Canon a cs) (S : List Nat) (L : List Bytes)
    (ls : LabeledSeries) (hinv : Inv a cs S L ls) (r : Result) (hr : cs[r.seq]? = some r)
    (hnew : r.seq ∉ S) :
    ∃ ls', ls.add r = .ok ls' ∧ Inv a cs (r.seq :: S) (r.label :: L) ls' := by
  obtain ⟨hp, hmex⟩ := hinv
  have hrlt : r.seq < cs.length := by
    rcases Nat.lt_or_ge r.seq cs.length with h | h
    · exact h
    · rw [List.getElem?_eq_none h] at hr; cases hr
  have hra : r.attack = a := hc.attack r (List.mem_of_getElem? hr)
  -- the series map after `ls.series[label]` has been ensured
  generalize hser : ensureSeries ls.series r = series
  have hseries : ∀ l, seriesLookup series l =
      if l ∈ r.label :: L then some (specSeries a (t0 cs) (cs.take ls.seq) l) else none := by
    intro l
    rw [← hser]
    unfold ensureSeries
    have hsl := hp.series r.label
    by_cases hin : r.label ∈ L
    · simp only [hin, ↓reduceIte] at hsl
      rw [hsl]
      simp only []
      rw [hp.series l]
      by_cases hl : l = r.label
      · rw [hl]; simp [hin]
      · simp [hl]
    · simp only [hin, ↓reduceIte] at hsl
      rw [hsl]
      simp only []
      rw [seriesLookup_append_new _ _ _ _ hsl, hp.series l]
      by_cases hl : l = r.label
      · simp only [hl, ↓reduceIte, List.mem_cons, true_or, Option.some.injEq]
        -- no released result carries a label that has not arrived yet
        have hempty : specPts (t0 cs) (cs.take ls.seq) l = [] := by
          unfold specPts
          rw [List.map_eq_nil_iff, List.filter_eq_nil_iff]
          intro x hx
          rw [List.mem_take_iff_getElem] at hx
          obtain ⟨j, hj, hje⟩ := hx
          have hjlt : j < cs.length := by omega
          have hjs : j < ls.seq := by omega
          have := hp.labels j x (hp.below j hjs) (by rw [List.getElem?_eq_getElem hjlt, hje])
          intro hxl
          have hxe : x.label = l := by simpa using hxl
          rw [hxe, hl] at this
          exact hin this
        rw [hl] at hempty
        simp [specSeries, hempty, prevOf, hra]
      · simp [hl]
  have hlabels : ∀ k r', k ∈ r.seq :: S → cs[k]? = some r' → r'.label ∈ r.label :: L := by
    intro k r' hk hk'
    rw [List.mem_cons] at hk
    rcases hk with hk | hk
    · subst hk; rw [hr] at hk'; cases hk'; simp
    · exact List.mem_cons_of_mem _ (hp.labels k r' hk hk')
  have hinS : ∀ k, k ∈ r.seq :: S → k < cs.length := by
    intro k hk
    rw [List.mem_cons] at hk
    rcases hk with hk | hk
    · subst hk; exact hrlt
    · exact hp.inS k hk
  have hbuf : ∀ k, bufLookup (bufInsert ls.buf r.seq (pt r)) k =
      if k ∈ r.seq :: S ∧ ls.seq ≤ k then cs[k]?.map pt else none := by
    intro k
    rw [bufLookup_insert, hp.buf k]
    by_cases hk : k = r.seq
    · have hle : ls.seq ≤ r.seq := by
        rcases Nat.lt_or_ge r.seq ls.seq with h | h
        · exact absurd (hp.below _ h) hnew
        · exact h
      rw [hk]
      simp [hle, hr]
    · simp [hk]
  unfold LabeledSeries.add
  simp only []
  rw [hser]
  show ∃ ls', (if r.seq ≠ ls.seq then _ else _) = _ ∧ _
  by_cases hseq : r.seq = ls.seq
  · -- the awaited result: release
    have hne : ¬ r.seq ≠ ls.seq := by simp [hseq]
    rw [if_neg hne]
    have hpre : PInv a cs (r.seq :: S) (r.label :: L)
        { ls with series := series, buf := bufInsert ls.buf r.seq (pt r),
                  began := if ls.seq == 0 then r.ts else ls.began } := by
      constructor
      · exact hp.seq_le
      · intro k hk; exact List.mem_cons_of_mem _ (hp.below k hk)
      · exact hbuf
      · exact hseries
      · intro h
        simp only
        by_cases h0 : ls.seq = 0
        · simp only [h0, beq_self_eq_true, ↓reduceIte]
          rw [h0] at hseq
          cases cs with
          | nil => simp at hrlt
          | cons c rest =>
            rw [hseq] at hr
            simp only [List.getElem?_cons_zero, Option.some.injEq] at hr
            simp [t0, hr]
        · have hb : (ls.seq == 0) = false := by simp [h0]
          simp only [hb, Bool.false_eq_true, ↓reduceIte]
          apply hp.began
          left; omega
      · exact hlabels
      · exact hinS
    obtain ⟨ls', h1, h2, h3⟩ := release_spec a cs hc (r.seq :: S) (r.label :: L)
      ((bufInsert ls.buf r.seq (pt r)).length + 1) _ hpre (by simp)
    exact ⟨ls', h1, h2, h3⟩
  · have hne : r.seq ≠ ls.seq := hseq
    rw [if_pos hne]
    refine ⟨_, rfl, ⟨?_, ?_, ?_, ?_, ?_, ?_, ?_⟩, ?_⟩
    · exact hp.seq_le
    · intro k hk; exact List.mem_cons_of_mem _ (hp.below k hk)
    · exact hbuf
    · exact hseries
    · intro h
      simp only
      apply hp.began
      rcases h with h | h
      · left; exact h
      · rw [List.mem_cons] at h
        rcases h with h | h
        · -- r.seq = 0 but ls.seq ≠ r.seq, so ls.seq > 0
          left; omega
        · right; exact h
    · exact hlabels
    · exact hinS
    · simp only [List.mem_cons, not_or]
      exact ⟨fun e => hseq e.symm, hmex⟩

/-- all adds of a list of results to one `labeledSeries` -/
def addAllLS (ls : LabeledSeries) : List Result → Outcome LabeledSeries
  | [] => .ok ls
  | r :: rs =>
    match ls.add r with
    | .ok ls' => addAllLS ls' rs
    | .error e => .error e
    | .panic => .panic

theorem addAllLS_spec (a : Bytes) (cs : List Result) (hc : Canon a cs) :
    ∀ (rs : List Result) (S : List Nat) (L : List Bytes) (ls : LabeledSeries), Inv a cs S L ls →
      (∀ r ∈ rs, cs[r.seq]? = some r) → (rs.map (·.seq) ++ S).Nodup →
      ∃ ls', addAllLS ls rs = .ok ls' ∧ Inv a cs ((rs.map (·.seq)).reverse ++ S) ((rs.map (·.label)).reverse ++ L) ls' := by
  intro rs
  induction rs with
  | nil => intro S L ls h _ _; exact ⟨ls, rfl, by simpa using h⟩
  | cons r rs ih =>
    intro S L ls hinv hmem hnd
    simp only [List.map_cons, List.cons_append, List.nodup_cons, List.mem_append, not_or] at hnd
    obtain ⟨⟨hr1, hr2⟩, hnd'⟩ := hnd
    obtain ⟨ls1, h1, hinv1⟩ := add_spec a cs hc S L ls hinv r (hmem r (by simp)) hr2
    have hnd2 : (rs.map (·.seq) ++ r.seq :: S).Nodup := by
      rw [List.nodup_append] at hnd' ⊢
      obtain ⟨n1, n2, n3⟩ := hnd'
      refine ⟨n1, ?_, ?_⟩
      · rw [List.nodup_cons]; exact ⟨hr2, n2⟩
      · intro x hx y hy
        rw [List.mem_cons] at hy
        rcases hy with hy | hy
        · subst hy; intro e; subst e; exact hr1 hx
        · exact n3 x hx y hy
    obtain ⟨ls2, h2, hinv2⟩ := ih (r.seq :: S) (r.label :: L) ls1 hinv1
      (fun r' hr' => hmem r' (List.mem_cons_of_mem _ hr')) hnd2
    refine ⟨ls2, by simp [addAllLS, h1, h2], ?_⟩
    simpa [List.append_assoc] using hinv2

/-- **One attack, any arrival order.**  If `rs` is a permutation of the in-order results `cs`
of an attack, adding `rs` never fails, releases everything (`seq = len`, empty buffer), and the
series of every label holds exactly the in-order points of that label. -/
theorem one_attack (a : Bytes) (cs rs : List Result) (hc : Canon a cs) (hperm : rs.Perm cs) :
    ∃ ls, addAllLS LabeledSeries.new rs = .ok ls ∧ ls.seq = cs.length ∧
      (∀ k, bufLookup ls.buf k = none) ∧
      ∀ l, seriesLookup ls.series l =
        if (∃ r ∈ cs, r.label = l) then some (specSeries a (t0 cs) cs l) else none := by
  have hmem : ∀ r ∈ rs, cs[r.seq]? = some r := by
    intro r hr
    have hrc : r ∈ cs := hperm.mem_iff.mp hr
    obtain ⟨i, hi, hie⟩ := List.getElem_of_mem hrc
    have hget : cs[i]? = some r := by rw [List.getElem?_eq_getElem hi, hie]
    rw [hc.seq i r hget]; exact hget
  have hseqs : cs.map (·.seq) = List.range cs.length := by
    apply List.ext_getElem?
    intro i
    rw [List.getElem?_map]
    by_cases hi : i < cs.length
    · have hget : cs[i]? = some cs[i] := List.getElem?_eq_getElem hi
      rw [hget, List.getElem?_range hi]
      simp [hc.seq i _ hget]
    · rw [List.getElem?_eq_none (by omega), List.getElem?_eq_none (by simp; omega)]; rfl
  have hnd : (rs.map (fun r : Result => r.seq) ++ []).Nodup := by
    rw [List.append_nil]
    have hp : (rs.map (fun r : Result => r.seq)).Perm (cs.map (fun r : Result => r.seq)) := hperm.map _
    rw [hp.nodup_iff, hseqs]
    exact List.nodup_range
  obtain ⟨ls, h1, hp, hmex⟩ := addAllLS_spec a cs hc rs [] [] LabeledSeries.new (inv_new a cs) hmem hnd
  simp only [List.append_nil] at hp hmex
  have hall : ∀ k, k < cs.length → k ∈ (rs.map (·.seq)).reverse := by
    intro k hk
    have hget : cs[k]? = some cs[k] := List.getElem?_eq_getElem hk
    have hin : cs[k] ∈ rs := hperm.mem_iff.mpr (List.getElem_mem hk)
    rw [List.mem_reverse, List.mem_map]
    exact ⟨cs[k], hin, hc.seq k _ hget⟩
  have hseq : ls.seq = cs.length := by
    have := hp.seq_le
    rcases Nat.lt_or_ge ls.seq cs.length with h | h
    · exact absurd (hall _ h) hmex
    · omega
  refine ⟨ls, h1, hseq, ?_, ?_⟩
  · intro k
    rw [hp.buf k]
    by_cases hk : k ∈ (rs.map (·.seq)).reverse
    · have := hp.inS k hk
      have : ¬ ls.seq ≤ k := by omega
      simp [this]
    · simp [hk]
  · intro l
    rw [hp.series l, hseq, List.take_length]
    have hiff : l ∈ (rs.map (·.label)).reverse ↔ ∃ r ∈ cs, r.label = l := by
      rw [List.mem_reverse, List.mem_map]
      constructor
      · rintro ⟨r, hr, hl⟩; exact ⟨r, hperm.mem_iff.mp hr, hl⟩
      · rintro ⟨r, hr, hl⟩; exact ⟨r, hperm.mem_iff.mpr hr, hl⟩
    by_cases hl : l ∈ (rs.map (·.label)).reverse
    · have := hiff.mp hl
      simp only [hl, ↓reduceIte]
      rw [if_pos this]
    · have : ¬ ∃ r ∈ cs, r.label = l := fun h => hl (hiff.mpr h)
      simp only [hl, ↓reduceIte]
      rw [if_neg this]

/-! ### several attacks -/

theorem plotLookup_set (p : Plot) (a : Bytes) (ls : LabeledSeries) (a' : Bytes) :
    plotLookup (plotSet p a ls) a' = if a' = a then some ls else plotLookup p a' := by
  induction p with
  | nil =>
    simp only [plotSet, plotLookup]
    by_cases h : a = a'
    · subst h; simp
    · have : (a == a') = false := by simp [h]
      have h' : ¬ a' = a := fun e => h e.symm
      simp [this, h']
  | cons e rest ih =>
    obtain ⟨ae, se⟩ := e
    simp only [plotSet]
    by_cases h : ae = a
    · subst h
      simp only [beq_self_eq_true, ↓reduceIte, plotLookup]
      by_cases h' : ae = a'
      · subst h'; simp
      · have : (ae == a') = false := by simp [h']
        have h'' : ¬ a' = ae := fun e => h' e.symm
        simp [this, h'']
    · have : (ae == a) = false := by simp [h]
      simp only [this, Bool.false_eq_true, ↓reduceIte, plotLookup]
      by_cases h' : ae = a'
      · subst h'
        have h'' : ¬ ae = a := h
        simp [h'']
      · have : (ae == a') = false := by simp [h']
        simp only [this, Bool.false_eq_true, ↓reduceIte]
        exact ih

/-- the adds that reach the `labeledSeries` of attack `a` -/
def attackRun (p : Plot) (rs : List Result) (a : Bytes) : Outcome LabeledSeries :=
  addAllLS ((plotLookup p a).getD LabeledSeries.new) (rs.filter (fun r => r.attack == a))

/-- `Plot.Add` routes every result to the `labeledSeries` of its attack and to no other:
the plot after `rs` holds, per attack, the result of adding that attack's results in their
relative arrival order. -/
theorem plot_addAll_split : ∀ (rs : List Result) (p : Plot),
    (∀ a, ∃ ls, attackRun p rs a = .ok ls) →
    ∃ p', Plot.addAll p rs = .ok p' ∧
      ∀ a, plotLookup p' a =
        if (∃ r ∈ rs, r.attack = a) then (match attackRun p rs a with | .ok ls => some ls | _ => none)
        else plotLookup p a := by
  intro rs
  induction rs with
  | nil =>
    intro p _
    exact ⟨p, rfl, by intro a; simp⟩
  | cons r rs ih =>
    intro p hall
    obtain ⟨lsf, hf⟩ := hall r.attack
    unfold attackRun at hf
    simp only [List.filter_cons, beq_self_eq_true, ↓reduceIte, addAllLS] at hf
    cases h1 : ((plotLookup p r.attack).getD LabeledSeries.new).add r with
    | error e => rw [h1] at hf; cases hf
    | panic => rw [h1] at hf; cases hf
    | ok ls1 =>
      rw [h1] at hf
      simp only [] at hf
      have hall' : ∀ a, ∃ ls, attackRun (plotSet p r.attack ls1) rs a = .ok ls := by
        intro a
        unfold attackRun
        rw [plotLookup_set]
        by_cases ha : a = r.attack
        · subst ha
          simp only [↓reduceIte, Option.getD_some]
          exact ⟨lsf, hf⟩
        · simp only [ha, ↓reduceIte]
          obtain ⟨ls, hls⟩ := hall a
          unfold attackRun at hls
          have hne : (r.attack == a) = false := by
            simp; exact fun e => ha e.symm
          simp only [List.filter_cons, hne, Bool.false_eq_true, ↓reduceIte] at hls
          exact ⟨ls, hls⟩
      obtain ⟨p', hp', hlook⟩ := ih (plotSet p r.attack ls1) hall'
      refine ⟨p', by simp [Plot.addAll, Plot.add, h1, hp'], ?_⟩
      intro a
      rw [hlook a]
      by_cases ha : a = r.attack
      · subst ha
        have hex : ∃ r', r' ∈ r :: rs ∧ r'.attack = r.attack := ⟨r, by simp, rfl⟩
        rw [if_pos hex]
        have e1 : attackRun (plotSet p r.attack ls1) rs r.attack = .ok lsf := by
          unfold attackRun; rw [plotLookup_set]; simpa using hf
        have e2 : attackRun p (r :: rs) r.attack = .ok lsf := by
          unfold attackRun
          simp only [List.filter_cons, beq_self_eq_true, ↓reduceIte, addAllLS, h1]
          exact hf
        rw [e1, e2]
        simp only []
        split
        · rfl
        · rename_i hno
          have hnil : rs.filter (fun r' => r'.attack == r.attack) = [] := by
            rw [List.filter_eq_nil_iff]
            intro x hx hxe
            exact hno ⟨x, hx, by simpa using hxe⟩
          rw [hnil] at hf
          simp only [addAllLS, Outcome.ok.injEq] at hf
          rw [plotLookup_set]; simp [hf]
      · have hne : (r.attack == a) = false := by
          simp; exact fun e => ha e.symm
        have e1 : attackRun (plotSet p r.attack ls1) rs a = attackRun p (r :: rs) a := by
          unfold attackRun
          rw [plotLookup_set]
          simp [ha, hne]
        have hiff : (∃ r', r' ∈ r :: rs ∧ r'.attack = a) ↔ (∃ r', r' ∈ rs ∧ r'.attack = a) := by
          constructor
          · rintro ⟨r', hr', he⟩
            rw [List.mem_cons] at hr'
            rcases hr' with hr' | hr'
            · subst hr'; exact absurd he.symm ha
            · exact ⟨r', hr', he⟩
          · rintro ⟨r', hr', he⟩; exact ⟨r', List.mem_cons_of_mem _ hr', he⟩
        rw [e1]
        by_cases hex : ∃ r', r' ∈ rs ∧ r'.attack = a
        · rw [if_pos hex, if_pos (hiff.mpr hex)]
        · rw [if_neg hex, if_neg (fun h => hex (hiff.mp h)), plotLookup_set]
          simp [ha]

end Vegeta.Proofs.PlotOrder
