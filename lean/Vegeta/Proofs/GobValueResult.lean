/-
The gob result codec (`Vegeta.Model.GobValue`) on whole results and streams: one value message is read
back into the result that was written (an empty body comes back nil), what comes back is `Equal` to what
was written, the stream round trip, and the record-level cut theorem.
-/
import Vegeta.Proofs.GobValueDomain
import Vegeta.Proofs.GobValueLayers
import Vegeta.Proofs.GobFrame
namespace Vegeta.Proofs.Gob
open Vegeta.Go Vegeta.Model.Codec Vegeta.Model.GobFrame Vegeta.Model.GobValue Vegeta.Proofs.Codec Vegeta.Proofs.GobFrame

/-! ### sizes: every piece of a payload is shorter than the payload -/

theorem encodeUint_length_pos (n : Nat) : 0 < (encodeUint n).length :=
  List.length_pos_iff.mpr (encodeUint_ne_nil n)

theorem gBytes_length (b : Bytes) : b.length < (gBytes b).length := by
  have := encodeUint_length_pos b.length
  simp [gBytes]; omega

theorem length_flatMap_mem {α β : Type} (f : α → List β) (l : List α) (x : α) (hx : x ∈ l) :
    (f x).length ≤ (l.flatMap f).length := by
  induction l with
  | nil => cases hx
  | cons y ys ih =>
    simp only [List.flatMap_cons, List.length_append]
    rcases List.mem_cons.mp hx with rfl | h
    · omega
    · have := ih h; omega

theorem length_le_flatMap {α β : Type} (f : α → List β) (l : List α) (hf : ∀ x ∈ l, 0 < (f x).length) :
    l.length ≤ (l.flatMap f).length := by
  induction l with
  | nil => simp
  | cons y ys ih =>
    simp only [List.flatMap_cons, List.length_append, List.length_cons]
    have := hf y (by simp)
    have := ih (fun x hx => hf x (by simp [hx]))
    omega

theorem gStrings_bounds (vs : List Bytes) :
    vs.length < (gStrings vs).length ∧ ∀ v ∈ vs, v.length < (gStrings vs).length := by
  have h0 := encodeUint_length_pos vs.length
  unfold gStrings
  simp only [List.length_append]
  constructor
  · have := length_le_flatMap gBytes vs (fun x _ => by have := gBytes_length x; omega)
    omega
  · intro v hv
    have := length_flatMap_mem gBytes vs v hv
    have := gBytes_length v
    omega

theorem gHeader_bounds (h : Header) :
    h.length < (gHeader h).length ∧ ∀ kv ∈ h, kv.1.length < (gHeader h).length ∧
      kv.2.length < (gHeader h).length ∧ ∀ v ∈ kv.2, v.length < (gHeader h).length := by
  have h0 := encodeUint_length_pos h.length
  unfold gHeader
  simp only [List.length_append]
  constructor
  · have := length_le_flatMap (fun kv : Bytes × List Bytes => gBytes kv.1 ++ gStrings kv.2) h (fun x _ => by
      have := gBytes_length x.1
      simp only [List.length_append]; omega)
    omega
  · intro kv hkv
    have h1 := length_flatMap_mem (fun kv : Bytes × List Bytes => gBytes kv.1 ++ gStrings kv.2) h kv hkv
    simp only [List.length_append] at h1
    have h2 := gBytes_length kv.1
    have ⟨h3, h4⟩ := gStrings_bounds kv.2
    refine ⟨by omega, by omega, ?_⟩
    intro v hv
    have := h4 v hv
    omega

theorem encFields_mem_length (fs : List (Option Bytes)) :
    ∀ (gap : Nat) (q : Bytes), some q ∈ fs → q.length < (encFields gap fs).length := by
  induction fs with
  | nil => intro _ _ h; cases h
  | cons f fs ih =>
    intro gap q hq
    cases f with
    | none =>
      simp only [encFields]
      exact ih _ q (by simpa using hq)
    | some p =>
      simp only [encFields, List.length_append]
      have := encodeUint_length_pos gap
      rcases List.mem_cons.mp hq with e | h
      · cases e; omega
      · have := ih 1 q h; omega

/-! ### the struct: field-number deltas against the decoder's loop -/

/-- the fields `fs`, numbered from `i`, take the accumulated result `acc` to `acc'`: an omitted field
leaves it alone, a sent one is parsed by `decField` whatever follows -/
inductive Chain : Nat → List (Option Bytes) → Result → Result → Prop
  | nil (i : Nat) (acc : Result) : Chain i [] acc acc
  | skip (i : Nat) (fs : List (Option Bytes)) (acc acc' : Result) :
      Chain (i + 1) fs acc acc' → Chain i (none :: fs) acc acc'
  | send (i : Nat) (p : Bytes) (fs : List (Option Bytes)) (acc mid acc' : Result) :
      (∀ rest, decField i (p ++ rest) acc = some (mid, rest)) → Chain (i + 1) fs mid acc' →
      Chain i (some p :: fs) acc acc'

theorem Chain.step {i : Nat} {f : Option Bytes} {fs : List (Option Bytes)} {acc acc' : Result} (mid : Result)
    (hnone : f = none → mid = acc)
    (hsome : ∀ p, f = some p → ∀ rest, decField i (p ++ rest) acc = some (mid, rest))
    (h : Chain (i + 1) fs mid acc') : Chain i (f :: fs) acc acc' := by
  cases f with
  | none => rw [hnone rfl] at h; exact Chain.skip _ _ _ _ h
  | some p => exact Chain.send _ _ _ _ mid _ (hsome p rfl) h

/-- the decoder's loop follows the encoder's deltas: invariant `next + gap = i + 1` when field `i` is up;
one unit of fuel per sent field and one for the closing zero -/
theorem decFields_chain {i : Nat} {fs : List (Option Bytes)} {acc acc' : Result} (h : Chain i fs acc acc') :
    ∀ (next gap fuel : Nat), next + gap = i + 1 → 1 ≤ gap → i + fs.length < 2 ^ 64 →
      (encFields gap fs).length ≤ fuel → decFields fuel next (encFields gap fs) acc = some acc' := by
  induction h with
  | nil i acc =>
    intro next gap fuel _ _ _ hf
    simp only [encFields] at hf ⊢
    cases fuel with
    | zero => simp at hf
    | succ f => simp [decFields, decUint]
  | skip i fs acc acc' _ ih =>
    intro next gap fuel h1 h2 h3 hf
    simp only [encFields] at hf ⊢
    exact ih next (gap + 1) fuel (by omega) (by omega) (by simp at h3; omega) hf
  | send i p fs acc mid acc' hd _ ih =>
    intro next gap fuel h1 h2 h3 hf
    simp only [encFields, List.length_append] at hf
    have := encodeUint_length_pos gap
    cases fuel with
    | zero => omega
    | succ f =>
      simp only [encFields, decFields, List.append_assoc]
      rw [decUint_encodeUint gap (by simp at h3; omega)]
      simp only
      rw [if_neg (by omega)]
      have e : next + gap - 1 = i := by omega
      rw [e, hd]
      simp only
      rw [h1]
      exact ih (i + 1) 1 f rfl (by omega) (by simp at h3; omega) (by omega)

/-! ### the twelve fields -/

theorem fString_none {s : Bytes} (h : fString s = none) : s = [] := by
  unfold fString at h
  split at h
  · rename_i he; simpa using he
  · cases h

theorem fString_some {s p : Bytes} (h : fString s = some p) : p = gBytes s ∧ s.isEmpty = false := by
  unfold fString at h
  split at h
  · cases h
  · rename_i he; cases h; exact ⟨rfl, by simpa using he⟩

theorem fUint_none {n : Nat} (h : fUint n = none) : n = 0 := by
  unfold fUint at h
  split at h
  · assumption
  · cases h

theorem fUint_some {n : Nat} {p : Bytes} (h : fUint n = some p) : p = encodeUint n := by
  unfold fUint at h
  split at h
  · cases h
  · cases h; rfl

theorem fInt_none {n : Int} (h : fInt n = none) : n = 0 := by
  unfold fInt at h
  split at h
  · assumption
  · cases h

theorem fInt_some {n : Int} {p : Bytes} (h : fInt n = some p) : p = gInt n := by
  unfold fInt at h
  split at h
  · cases h
  · cases h; rfl

/-- the list of field payloads of `r` (time field `some (gBytes b)`) takes the zero result to `gobDecoded r` -/
theorem fields_chain (r : Result) (b : Bytes) (hnum : ReprNumbers r)
    (hb : decTimeBinary b = some r.timestamp) (hbl : b.length < 2 ^ 64)
    (hh : ∀ h, r.headers = some h → (h.map (·.1)).Nodup)
    (hsz : ∀ f ∈ [fString r.attack, fUint r.seq, fUint r.code, some (gBytes b), fInt r.latency, fUint r.bytesOut,
        fUint r.bytesIn, fString r.error, fString (r.body.getD []), fString r.method, fString r.url,
        r.headers.map gHeader], ∀ q, f = some q → q.length < 2 ^ 64) :
    Chain 0 [fString r.attack, fUint r.seq, fUint r.code, some (gBytes b), fInt r.latency, fUint r.bytesOut,
        fUint r.bytesIn, fString r.error, fString (r.body.getD []), fString r.method, fString r.url,
        r.headers.map gHeader] {} (gobDecoded r) := by
  obtain ⟨hseq, hcode, _, _, hlat, hbo, hbi⟩ := hnum
  obtain ⟨attack, seq, code, ts, latency, bytesOut, bytesIn, error, body, method, url, headers⟩ := r
  simp only at *
  -- 0 attack
  refine Chain.step
    { attack := attack } (fun h => ?_) (fun p h rest => ?_) ?_
  · obtain rfl := fString_none h; rfl
  · have hq := hsz _ (by simp) p h
    obtain ⟨rfl, _⟩ := fString_some h
    have := gBytes_length attack
    simp [decField, decBytes_gBytes _ _ (by omega : attack.length < 2 ^ 64)]
  -- 1 seq
  refine Chain.step
    { attack := attack, seq := seq } (fun h => ?_) (fun p h rest => ?_) ?_
  · obtain rfl := fUint_none h; rfl
  · obtain rfl := fUint_some h
    simp [decField, decUint_encodeUint _ hseq]
  -- 2 code
  refine Chain.step
    { attack := attack, seq := seq, code := code } (fun h => ?_) (fun p h rest => ?_) ?_
  · obtain rfl := fUint_none h; rfl
  · obtain rfl := fUint_some h
    simp [decField, decUint_encodeUint _ (by omega : code < 2 ^ 64), hcode]
  -- 3 timestamp
  refine Chain.step
    { attack := attack, seq := seq, code := code, timestamp := ts } (fun h => ?_)
    (fun p h rest => ?_) ?_
  · cases h
  · cases h
    simp [decField, decBytes_gBytes _ _ hbl, hb]
  -- 4 latency
  refine Chain.step
    { attack := attack, seq := seq, code := code, timestamp := ts, latency := latency }
    (fun h => ?_) (fun p h rest => ?_) ?_
  · obtain rfl := fInt_none h; rfl
  · obtain rfl := fInt_some h
    simp [decField, decInt_gInt _ hlat]
  -- 5 bytesOut
  refine Chain.step
    { attack := attack, seq := seq, code := code, timestamp := ts, latency := latency,
      bytesOut := bytesOut } (fun h => ?_) (fun p h rest => ?_) ?_
  · obtain rfl := fUint_none h; rfl
  · obtain rfl := fUint_some h
    simp [decField, decUint_encodeUint _ hbo]
  -- 6 bytesIn
  refine Chain.step
    { attack := attack, seq := seq, code := code, timestamp := ts, latency := latency,
      bytesOut := bytesOut, bytesIn := bytesIn } (fun h => ?_) (fun p h rest => ?_) ?_
  · obtain rfl := fUint_none h; rfl
  · obtain rfl := fUint_some h
    simp [decField, decUint_encodeUint _ hbi]
  -- 7 error
  refine Chain.step
    { attack := attack, seq := seq, code := code, timestamp := ts, latency := latency,
      bytesOut := bytesOut, bytesIn := bytesIn, error := error } (fun h => ?_) (fun p h rest => ?_) ?_
  · obtain rfl := fString_none h; rfl
  · have hq := hsz _ (by simp) p h
    obtain ⟨rfl, _⟩ := fString_some h
    have := gBytes_length error
    simp [decField, decBytes_gBytes _ _ (by omega : error.length < 2 ^ 64)]
  -- 8 body
  refine Chain.step
    { attack := attack, seq := seq, code := code, timestamp := ts, latency := latency,
      bytesOut := bytesOut, bytesIn := bytesIn, error := error,
      body := if (body.getD []).isEmpty then none else some (body.getD []) } (fun h => ?_) (fun p h rest => ?_) ?_
  · rw [fString_none h]; rfl
  · have hq := hsz _ (by simp) p h
    obtain ⟨rfl, hne⟩ := fString_some h
    have := gBytes_length (body.getD [])
    simp [decField, decBytes_gBytes _ _ (by omega : (body.getD []).length < 2 ^ 64), hne]
  -- 9 method
  refine Chain.step
    { attack := attack, seq := seq, code := code, timestamp := ts, latency := latency,
      bytesOut := bytesOut, bytesIn := bytesIn, error := error,
      body := if (body.getD []).isEmpty then none else some (body.getD []), method := method }
    (fun h => ?_) (fun p h rest => ?_) ?_
  · obtain rfl := fString_none h; rfl
  · have hq := hsz _ (by simp) p h
    obtain ⟨rfl, _⟩ := fString_some h
    have := gBytes_length method
    simp [decField, decBytes_gBytes _ _ (by omega : method.length < 2 ^ 64)]
  -- 10 url
  refine Chain.step
    { attack := attack, seq := seq, code := code, timestamp := ts, latency := latency,
      bytesOut := bytesOut, bytesIn := bytesIn, error := error,
      body := if (body.getD []).isEmpty then none else some (body.getD []), method := method, url := url }
    (fun h => ?_) (fun p h rest => ?_) ?_
  · obtain rfl := fString_none h; rfl
  · have hq := hsz _ (by simp) p h
    obtain ⟨rfl, _⟩ := fString_some h
    have := gBytes_length url
    simp [decField, decBytes_gBytes _ _ (by omega : url.length < 2 ^ 64)]
  -- 11 headers
  refine Chain.step
    { attack := attack, seq := seq, code := code, timestamp := ts, latency := latency,
      bytesOut := bytesOut, bytesIn := bytesIn, error := error,
      body := if (body.getD []).isEmpty then none else some (body.getD []), method := method, url := url,
      headers := headers } (fun h => ?_) (fun p h rest => ?_) ?_
  · cases headers with
    | none => rfl
    | some hd => cases h
  · have hq := hsz _ (by simp) p h
    cases headers with
    | none => cases h
    | some hd =>
      cases h
      have ⟨h1, h2⟩ := gHeader_bounds hd
      have := decHeader_gHeader hd rest (by omega) (hh hd rfl) (fun kv hkv => by
        have ⟨a, b, c⟩ := h2 kv hkv
        exact ⟨by omega, by omega, fun v hv => by have := c v hv; omega⟩)
      simp [decField, this]
  -- the end
  have hfin : gobDecoded
      { attack := attack, seq := seq, code := code, timestamp := ts, latency := latency,
        bytesOut := bytesOut, bytesIn := bytesIn, error := error, body := body, method := method, url := url,
        headers := headers } =
      { attack := attack, seq := seq, code := code, timestamp := ts, latency := latency,
        bytesOut := bytesOut, bytesIn := bytesIn, error := error,
        body := if (body.getD []).isEmpty then none else some (body.getD []), method := method, url := url,
        headers := headers } := by
    cases body with
    | none => rfl
    | some x => simp [gobDecoded]
  rw [hfin]
  exact Chain.nil _ _

/-! ### one value message -/

/-- one value message: the decoder (into a zero `Result`) returns the result (an empty body comes back nil) -/
theorem decValue_valuePayload (z : Zone) (r : Result) (hz : ZoneOK z) (hr : ReprGobResult z r) :
    ∃ p, valuePayload z r = some p ∧ p.length < tooBig ∧ decValue p = some (gobDecoded r) := by
  have hnum := hr.num
  obtain ⟨b, hb, hbl⟩ : ∃ b, timeBinary z r.timestamp = some b ∧ (b.length = 15 ∨ b.length = 16) := by
    cases z with
    | utc => obtain ⟨b, h1, h2⟩ := timeBinary_utc r.timestamp; exact ⟨b, h1, Or.inl h2⟩
    | fixed off => exact timeBinary_fixed off r.timestamp hz
  have hdec : decTimeBinary b = some r.timestamp := decTimeBinary_timeBinary z _ b (by
    have h0 := hnum.ts0
    have h1 := hnum.ts1
    unfold tsLimit at h1
    unfold unixToInternal
    omega) hb
  have hnz : ¬ (r.timestamp = zeroTime ∧ z = .utc) := by
    intro h
    have h0 := hnum.ts0
    rw [h.1] at h0
    unfold zeroTime at h0
    omega
  have hvp : valuePayload z r = some (255 :: 128 :: encFields 1
      [fString r.attack, fUint r.seq, fUint r.code, some (gBytes b), fInt r.latency, fUint r.bytesOut,
        fUint r.bytesIn, fString r.error, fString (r.body.getD []), fString r.method, fString r.url,
        r.headers.map gHeader]) := by
    unfold valuePayload fieldPayloads
    simp only [if_neg hnz, hb, Option.map_some]
  have hsize := hr.size _ hvp
  simp only [List.length_cons] at hsize
  refine ⟨_, hvp, by simpa using hsize, ?_⟩
  have hsz : ∀ f ∈ [fString r.attack, fUint r.seq, fUint r.code, some (gBytes b), fInt r.latency, fUint r.bytesOut,
        fUint r.bytesIn, fString r.error, fString (r.body.getD []), fString r.method, fString r.url,
        r.headers.map gHeader], ∀ q, f = some q → q.length < 2 ^ 64 := by
    intro f hf q hq
    subst hq
    have := encFields_mem_length _ 1 q hf
    unfold tooBig at hsize
    omega
  have hc := fields_chain r b hnum hdec (by omega) hr.headers hsz
  simp only [decValue]
  exact decFields_chain hc 0 1 _ rfl (Nat.le_refl _) (by simp) (by omega)

/-- what comes back is `Equal` to what was written -/
theorem gobDecoded_equal (r : Result) (hd : ∀ h, r.headers = some h → (h.map (·.1)).Nodup) :
    (gobDecoded r).equal r = true ∧ r.equal (gobDecoded r) = true := by
  have hh : headerEqual r.headers r.headers = true := by
    cases hr : r.headers with
    | none => rfl
    | some h => exact headerEqual_refl h (hd h hr)
  have hb : (gobDecoded r).body.getD [] = r.body.getD [] := by
    unfold gobDecoded
    cases r.body with
    | none => simp
    | some x => cases x <;> simp
  constructor
  · simp only [Result.equal, hb]
    simp [gobDecoded, hh]
  · simp only [Result.equal, hb]
    simp [gobDecoded, hh]

/-! ### streams -/

theorem stripPre_take (pre ps : List Bytes) :
    ∀ m, stripPre pre ((pre ++ ps).take m) = some (ps.take (m - pre.length)) := by
  induction pre with
  | nil => intro m; simp [stripPre]
  | cons p pre ih =>
    intro m
    cases m with
    | zero => simp [stripPre]
    | succ m =>
      simp only [List.cons_append, List.take_succ_cons, stripPre, List.length_cons]
      rw [if_pos True.intro, ih m]
      congr 2
      omega

theorem valueFrames_spec (z : Zone) (rs : List Result) (hz : ZoneOK z) (hrs : ∀ r ∈ rs, ReprGobResult z r) :
    ∃ ps, valueFrames z rs = some ps ∧ ps.length = rs.length ∧ (∀ p ∈ ps, p.length < tooBig) ∧
      ∀ n, decValues (ps.take n) = ((rs.map gobDecoded).take n, true) := by
  induction rs with
  | nil => exact ⟨[], rfl, rfl, by simp, by simp [decValues]⟩
  | cons r rs ih =>
    obtain ⟨ps, h1, h2, h3, h4⟩ := ih (fun x hx => hrs x (by simp [hx]))
    obtain ⟨p, hp1, hp2, hp3⟩ := decValue_valuePayload z r hz (hrs r (by simp))
    refine ⟨p :: ps, by simp [valueFrames, hp1, h1], by simp [h2], ?_, ?_⟩
    · intro q hq
      rcases List.mem_cons.mp hq with rfl | hq
      · exact hp2
      · exact h3 q hq
    · intro n
      cases n with
      | zero => simp [decValues]
      | succ n => simp [decValues, hp3, h4 n]

set_option maxRecDepth 8000 in
theorem preFrames_lt : ∀ f ∈ preFrames, f.length < tooBig := by decide

/-- **record-level cut**: the stream (type definitions, then one value message per result) cut after ANY
number of bytes `k` decodes to exactly the results whose value message lies wholly before the cut
(`cutFrames` of GobFrame counts the complete messages; the first four are the type definitions), then
`gobTerm`: end-of-stream if the cut is at a message boundary after at least one value message (or before
the first byte), else an error -/
theorem decodeGob_cut (z : Zone) (rs : List Result) (hz : ZoneOK z) (hrs : ∀ r ∈ rs, ReprGobResult z r) (k : Nat) :
    ∃ ps, valueFrames z rs = some ps ∧ ps.length = rs.length ∧
      decodeGob ((encodeFrames (preFrames ++ ps)).take k) =
        ((rs.map gobDecoded).take ((cutFrames (preFrames ++ ps) k).1.length - 4),
         gobTerm (cutFrames (preFrames ++ ps) k).1 (cutFrames (preFrames ++ ps) k).2 true) := by
  obtain ⟨ps, h1, h2, h3, h4⟩ := valueFrames_spec z rs hz hrs
  refine ⟨ps, h1, h2, ?_⟩
  have hall : ∀ f ∈ preFrames ++ ps, f.length < tooBig := by
    intro f hf
    rcases List.mem_append.mp hf with h | h
    · exact preFrames_lt f h
    · exact h3 f h
  obtain ⟨m, hm, hc, _, _⟩ := cutFrames_prefix (preFrames ++ ps) k
  have hlen : (cutFrames (preFrames ++ ps) k).1.length = m := by
    rw [hc, List.length_take]; omega
  unfold decodeGob
  simp only [frame_prefix_safe _ hall k]
  rw [hlen]
  rw [hc, stripPre_take preFrames ps m]
  have h4len : preFrames.length = 4 := rfl
  simp only [h4len, h4 (m - 4)]

/-- **gob round trip on streams** -/
theorem decodeGob_encodeGobAll (z : Zone) (rs : List Result) (hz : ZoneOK z) (hrs : ∀ r ∈ rs, ReprGobResult z r) :
    ∃ s, encodeGobAll z rs = some s ∧ decodeGob s = (rs.map gobDecoded, .eof) := by
  cases rs with
  | nil => exact ⟨[], rfl, by decide⟩
  | cons r rs =>
    obtain ⟨ps, h0, _⟩ := valueFrames_spec z (r :: rs) hz hrs
    obtain ⟨ps', h1, h2, h3⟩ := decodeGob_cut z (r :: rs) hz hrs (encodeFrames (preFrames ++ ps)).length
    obtain rfl : ps = ps' := Option.some.inj (h0.symm.trans h1)
    refine ⟨encodeFrames (preFrames ++ ps), by simp [encodeGobAll, h1], ?_⟩
    rw [List.take_length, cutFrames_all _ _ (Nat.le_refl _)] at h3
    rw [h3]
    have h4len : preFrames.length = 4 := rfl
    have e : (preFrames ++ ps).length - 4 = (List.map gobDecoded (r :: rs)).length := by
      simp [h4len, h2]
    have ht : gobTerm (preFrames ++ ps) .eof true = .eof := by
      unfold gobTerm
      rw [List.length_append, h4len, h2]
      simp
    rw [e, List.take_length, ht]

theorem equalAll_gobDecoded (rs : List Result) (hd : ∀ r ∈ rs, ∀ h, r.headers = some h → (h.map (·.1)).Nodup) :
    equalAll (rs.map gobDecoded) rs = true := by
  induction rs with
  | nil => rfl
  | cons r rs ih =>
    simp only [List.map_cons, equalAll, Bool.and_eq_true]
    exact ⟨(gobDecoded_equal r (hd r (by simp))).1, ih (fun x hx => hd x (by simp [hx]))⟩

theorem gob_roundtrip_equal (z : Zone) (rs : List Result) (hz : ZoneOK z) (hrs : ∀ r ∈ rs, ReprGobResult z r) :
    ∃ s out, encodeGobAll z rs = some s ∧ decodeGob s = (out, .eof) ∧ equalAll out rs = true := by
  obtain ⟨s, h1, h2⟩ := decodeGob_encodeGobAll z rs hz hrs
  exact ⟨s, _, h1, h2, equalAll_gobDecoded rs (fun r hr => (hrs r hr).headers)⟩

/-! ### Sanity checks -/

/-- attack "ab", seq 3, code 200, 2020-09-13T12:26:40.000000123Z, latency 5 ms, error "e", body "hi", GET "u",
headers K: [a, bc] and L: [] -/
def exResult : Result :=
  { attack := [97, 98], seq := 3, code := 200, timestamp := 1600000000000000123, latency := 5000000,
    bytesOut := 7, bytesIn := 300, error := [101], body := some [104, 105], method := [71, 69, 84],
    url := [117], headers := some [([75], [[97], [98, 99]]), ([76], [])] }

/-- the same with everything optional at its zero value (only the timestamp is sent) -/
def exZero : Result := { timestamp := 0, body := some [] }

example : valuePayload .utc exResult =
    some [255, 128, 1, 2, 97, 98, 1, 3, 1, 255, 200, 1, 15, 1, 0, 0, 0, 14, 214, 240, 7, 0, 0, 0, 0, 123, 255, 255,
      1, 253, 152, 150, 128, 1, 7, 1, 254, 1, 44, 1, 1, 101, 1, 2, 104, 105, 1, 3, 71, 69, 84, 1, 1, 117,
      1, 2, 1, 75, 2, 1, 97, 2, 98, 99, 1, 76, 0, 0] := by decide

example : valuePayload .utc exZero = some [255, 128, 4, 15, 1, 0, 0, 0, 14, 119, 145, 247, 0, 0, 0, 0, 0, 255, 255, 0] := by
  decide

theorem exResult_repr : ReprGobResult .utc exResult where
  num := ⟨by decide, by decide, by decide, by decide, by unfold inS64 minInt64 maxInt64; decide, by decide, by decide⟩
  headers := by
    intro h hh
    cases hh
    decide
  size := by
    intro p hp
    have : valuePayload .utc exResult = some [255, 128, 1, 2, 97, 98, 1, 3, 1, 255, 200, 1, 15, 1, 0, 0, 0, 14, 214, 240, 7,
      0, 0, 0, 0, 123, 255, 255, 1, 253, 152, 150, 128, 1, 7, 1, 254, 1, 44, 1, 1, 101, 1, 2, 104, 105, 1, 3, 71, 69, 84,
      1, 1, 117, 1, 2, 1, 75, 2, 1, 97, 2, 98, 99, 1, 76, 0, 0] := by decide
    rw [this] at hp
    cases hp
    decide

example : decValue [255, 128, 1, 2, 97, 98, 1, 3, 1, 255, 200, 1, 15, 1, 0, 0, 0, 14, 214, 240, 7, 0, 0, 0, 0, 123, 255, 255,
      1, 253, 152, 150, 128, 1, 7, 1, 254, 1, 44, 1, 1, 101, 1, 2, 104, 105, 1, 3, 71, 69, 84, 1, 1, 117,
      1, 2, 1, 75, 2, 1, 97, 2, 98, 99, 1, 76, 0, 0] = some exResult := by decide

example : decValue [255, 128, 4, 15, 1, 0, 0, 0, 14, 119, 145, 247, 0, 0, 0, 0, 0, 255, 255, 0]
    = some { exZero with body := none } := by decide

example : gobDecoded exZero = { exZero with body := none } := by decide
example : gobDecoded exResult = exResult := by decide

-- a two-record stream, decoded whole
set_option maxRecDepth 20000 in
example : ∃ s, encodeGobAll .utc [exResult, exZero] = some s ∧
    decodeGob s = ([exResult, { exZero with body := none }], .eof) :=
  ⟨_, rfl, by decide⟩

/-- `gobTerm` when every complete value message decoded: end-of-stream iff the input ends at a message
boundary and either nothing at all or at least one value message was read -/
theorem gobTerm_true (fs : List Bytes) (t : FrameRes) :
    gobTerm fs t true = if t = .eof ∧ (fs = [] ∨ 4 < fs.length) then .eof else .err := by
  have h4len : preFrames.length = 4 := rfl
  unfold gobTerm
  rw [h4len]
  cases fs <;> cases t <;> simp

-- cut right after the type definitions (no result written, or before the first value message): the frames
-- end at a boundary (`cutFrames … = (preFrames, eof)`), yet the decoder reports an error (io.ErrUnexpectedEOF)
set_option maxRecDepth 20000 in
example : cutFrames preFrames (encodeFrames preFrames).length = (preFrames, .eof) ∧
    decodeGob ((encodeFrames (preFrames ++ [])).take (encodeFrames preFrames).length) = ([], .err) := by
  decide

-- the two-record stream cut inside the second value message, and exactly after the first
set_option maxRecDepth 20000 in
example : ∃ s, encodeGobAll .utc [exResult, exZero] = some s ∧ s.length = 296 ∧
    decodeGob (s.take 290) = ([exResult], .err) ∧ decodeGob (s.take 275) = ([exResult], .eof) ∧
    decodeGob (s.take 274) = ([], .err) ∧ decodeGob (s.take 0) = ([], .eof) :=
  ⟨_, rfl, by decide, by decide, by decide, by decide, by decide⟩

end Vegeta.Proofs.Gob
