/-
The two stream targeters as sources: exhaustion is stable, every call that does not report
exhaustion consumes input (so draining terminates), `ReadAllTargets`.
-/
import Vegeta.Proofs.HTTPTargetsL
import Vegeta.Proofs.TargeterConc
import Vegeta.Model.JSONTargets
namespace Vegeta.Proofs.TargeterLaws
open Vegeta.Go
open Vegeta.Model
open Vegeta.Model.TargeterConc
open Vegeta.Proofs.TargeterConc

/-! ### JSON reader -/

section json
open Vegeta.Model.JSONTargets

theorem readLine_length {src l rest : Bytes} (h : readLine src = some (l, rest)) : rest.length < src.length := by
  induction src generalizing l with
  | nil => simp [readLine] at h
  | cons c r ih =>
    simp only [readLine] at h
    split at h
    · cases h; simp
    · split at h
      · cases h
      · rename_i l' rest' hr
        cases h
        have := ih hr; simp; omega

theorem popLine_length : ∀ (fuel : Nat) (src d rest : Bytes), popLine fuel src = (some d, rest) → rest.length < src.length := by
  intro fuel
  induction fuel with
  | zero => intro src d rest h; simp [popLine] at h
  | succ f ih =>
    intro src d rest h
    simp only [popLine] at h
    split at h
    · cases h
    · rename_i l r hr
      have h1 := readLine_length hr
      split at h
      · have := ih _ _ _ h; omega
      · cases h; exact h1

theorem popLine_none : ∀ (fuel : Nat) (src : Bytes), src.length < fuel → (popLine fuel src).1 = none → (popLine fuel src).2 = [] := by
  intro fuel
  induction fuel with
  | zero => intro src h; omega
  | succ f ih =>
    intro src hf hn
    simp only [popLine] at hn ⊢
    split
    · rfl
    · rename_i l r hr
      have h1 := readLine_length hr
      rw [hr] at hn
      simp only at hn
      split
      · rename_i hd; rw [if_pos hd] at hn; exact ih r (by omega) hn
      · rename_i hd; rw [if_neg hd] at hn; cases hn

theorem json_stable (cfg : JSONTargets.Cfg) : Stable (jsonSys cfg) := by
  intro s s' h
  simp only [jsonSys] at h ⊢
  have h1 : (popLine (s.length + 1) s).1 = none := by rw [h]
  have h2 := popLine_none (s.length + 1) s (by omega) h1
  rw [h] at h2
  simp only at h2
  subst h2
  simp [popLine, readLine]

theorem json_drains (cfg : JSONTargets.Cfg) : ∀ (n : Nat) (src : Bytes), src.length ≤ n → ∃ all, Drains (jsonSys cfg) src all := by
  intro n
  induction n with
  | zero =>
    intro src h
    have : src = [] := List.length_eq_zero_iff.mp (by omega)
    subst this
    exact ⟨[], Drains.done (by simp [jsonSys, popLine, readLine])⟩
  | succ n ih =>
    intro src h
    cases hp : (jsonSys cfg).pop src with
    | mk o rest =>
      cases o with
      | none => exact ⟨[], Drains.done (by rw [hp])⟩
      | some d =>
        have hl := popLine_length _ _ _ _ hp
        obtain ⟨all, ha⟩ := ih rest (by omega)
        exact ⟨d :: all, Drains.more hp ha⟩

end json

/-! ### HTTP targeter -/

section http
open Vegeta.Model.HTTPTargets
open Vegeta.Proofs.HTTPTargetsL

theorem headerStep_err {cfg : Cfg} {line : Bytes} {tgt tgt' : Target} {h h' : Heap} {e : Nat}
    (hs : headerStep cfg line tgt h = .stop (some e) tgt' h') : e ≠ eNoTargets := by
  unfold headerStep at hs
  split at hs
  · cases hs
  · split at hs
    · cases hs
    · split at hs
      · split at hs
        · cases hs; decide
        · cases hs
      · split at hs
        · cases hs; decide
        · dsimp only at hs
          split at hs
          · cases hs; decide
          · cases hs

theorem headerL_err (cfg : Cfg) : ∀ (ls : List Bytes) (tgt : Target) (h : Heap) (e : Nat),
    (headerL cfg ls tgt h).1 = some e → e ≠ eNoTargets := by
  intro ls
  induction ls with
  | nil => intro tgt h e he; simp [headerL] at he
  | cons t r ih =>
    intro tgt h e he
    simp only [headerL] at he
    cases hs : headerStep cfg (Vegeta.Model.Histogram.trimSpace t) tgt h with
    | stop e' tgt' h' =>
      rw [hs] at he
      simp only at he
      subst he
      exact headerStep_err hs
    | next tgt' h' => rw [hs] at he; exact ih tgt' h' e he

theorem headerL_length (cfg : Cfg) : ∀ (ls : List Bytes) (tgt : Target) (h : Heap),
    (headerL cfg ls tgt h).2.1.length ≤ ls.length := by
  intro ls
  induction ls with
  | nil => intro tgt h; simp [headerL]
  | cons t r ih =>
    intro tgt h
    simp only [headerL]
    cases headerStep cfg (Vegeta.Model.Histogram.trimSpace t) tgt h with
    | stop e' tgt' h' => simp
    | next tgt' h' => have := ih tgt' h'; simp; omega

theorem requestLine_err {cfg : Cfg} {line : Bytes} {hdr : HMap} {e : Nat} (h : requestLine cfg line hdr = .error e) : e ≠ eNoTargets := by
  unfold requestLine at h
  split at h
  · cases h; decide
  · split at h
    · cases h; decide
    · split at h
      · cases h; decide
      · cases h

/-- `ErrNoTargets` comes from the skip loop running out of lines only, and leaves nothing behind;
every other outcome consumed at least one line; no call panics -/
theorem callL_cases (cfg : Cfg) (ls : List Bytes) (h : Heap) :
    (callL cfg ls h = (.error eNoTargets, [], h) ∧ skipL ls = none) ∨
    ((callL cfg ls h).1 ≠ .error eNoTargets ∧ (callL cfg ls h).1 ≠ .panic ∧ (callL cfg ls h).2.1.length < ls.length) := by
  unfold callL
  cases hs : skipL ls with
  | none => exact Or.inl ⟨rfl, rfl⟩
  | some lr =>
    obtain ⟨line, r⟩ := lr
    have hlen := skipL_length hs
    have hpl : (peekL r []).2.length ≤ r.length := by
      have := peekL_length r []; simpa using this
    right
    simp only
    cases hrq : requestLine cfg line (copyDefaults cfg.hdr h).1 with
    | error e =>
      refine ⟨?_, by simp, hlen⟩
      intro he; cases he; exact requestLine_err hrq rfl
    | ok tgt =>
      simp only
      split
      · exact ⟨by simp, by simp, by simp only; omega⟩
      · have hl := headerL_length cfg (peekL r []).2 tgt (copyDefaults cfg.hdr h).2
        have he := headerL_err cfg (peekL r []).2 tgt (copyDefaults cfg.hdr h).2
        generalize headerL cfg (peekL r []).2 tgt (copyDefaults cfg.hdr h).2 = res at hl he
        obtain ⟨e, r3, t3, h3⟩ := res
        cases e with
        | none => exact ⟨by simp, by simp, by simp only at hl ⊢; omega⟩
        | some e =>
          refine ⟨?_, by simp, by simp only at hl ⊢; omega⟩
          intro hc; cases hc; exact he _ rfl rfl

theorem callL_nil (cfg : Cfg) (h : Heap) : callL cfg [] h = (.error eNoTargets, [], h) := by
  simp [callL, skipL]

theorem http_stable (cfg : Cfg) : Stable (httpSys cfg) := by
  intro s s' hp
  obtain ⟨ps', c1, c2⟩ := call_refines cfg s
  simp only [httpSys] at hp ⊢
  rw [c1] at hp
  rcases callL_cases cfg (eff s.ps) s.heap with ⟨hc, _⟩ | ⟨hne, _, _⟩
  · rw [hc] at hp c2
    simp only [↓reduceIte, Prod.mk.injEq, true_and] at hp
    subst hp
    obtain ⟨ps2, d1, _⟩ := call_refines cfg { ps := ps', heap := s.heap }
    rw [d1]
    simp only [c2, callL_nil, ↓reduceIte]
  · exfalso
    generalize callL cfg (eff s.ps) s.heap = res at hp hne
    obtain ⟨o, r, h'⟩ := res
    cases o with
    | ok t => simp at hp
    | panic => simp at hp
    | error e =>
      simp only at hp hne
      split at hp
      · rename_i he; subst he; exact hne rfl
      · cases hp

theorem http_drains (cfg : Cfg) : ∀ (n : Nat) (st : St), (eff st.ps).length ≤ n → ∃ all, Drains (httpSys cfg) st all := by
  intro n
  induction n with
  | zero =>
    intro st h
    have he : eff st.ps = [] := List.length_eq_zero_iff.mp (by omega)
    obtain ⟨ps', c1, _⟩ := call_refines cfg st
    refine ⟨[], Drains.done ?_⟩
    simp only [httpSys, c1, he, callL_nil, ↓reduceIte]
  | succ n ih =>
    intro st h
    obtain ⟨ps', c1, c2⟩ := call_refines cfg st
    rcases callL_cases cfg (eff st.ps) st.heap with ⟨hc, _⟩ | ⟨hne, _, hlen⟩
    · refine ⟨[], Drains.done ?_⟩
      simp only [httpSys, c1, hc, ↓reduceIte]
    · have hp : ∃ o, (httpSys cfg).pop st = (some o, { ps := ps', heap := (callL cfg (eff st.ps) st.heap).2.2 }) := by
        simp only [httpSys, c1]
        generalize callL cfg (eff st.ps) st.heap = res at hne
        obtain ⟨o, r, h'⟩ := res
        cases o with
        | ok t => exact ⟨_, rfl⟩
        | panic => exact ⟨_, rfl⟩
        | error e =>
          simp only at hne
          have : ¬ e = eNoTargets := fun he => hne (by rw [he])
          exact ⟨.error e, by simp [this]⟩
      obtain ⟨o, hp⟩ := hp
      obtain ⟨all, ha⟩ := ih { ps := ps', heap := (callL cfg (eff st.ps) st.heap).2.2 } (by simp only; rw [c2]; omega)
      exact ⟨o :: all, Drains.more hp ha⟩

end http

/-! ### ReadAllTargets -/

section readall
open Vegeta.Model.HTTPTargets

/-- the calls of a targeter up to and including the first one that fails -/
inductive RunsTo {S T : Type} (step : S → Outcome T × S) : S → List T → Nat → S → Prop where
  | stop {s s' : S} {e : Nat} : step s = (.error e, s') → RunsTo step s [] e s'
  | more {s s1 s' : S} {t : T} {ts : List T} {e : Nat} :
      step s = (.ok t, s1) → RunsTo step s1 ts e s' → RunsTo step s (t :: ts) e s'

/-- **`ReadAllTargets`**: if the targeter's successive calls yield `ts` and then fail with `e`,
the eager reader returns exactly `ts` when `e` is `ErrNoTargets` and there is at least one
target, `ErrNoTargets` when there is none, and aborts with `e` otherwise. -/
theorem readAllLoop_spec {S T : Type} (step : S → Outcome T × S) :
    ∀ (fuel : Nat) (s s' : S) (acc ts : List T) (e : Nat), RunsTo step s ts e s' → ts.length < fuel →
      readAllLoop step fuel s acc =
        (if e = eNoTargets then (if acc ++ ts = [] then .error eNoTargets else .ok (acc ++ ts)) else .error e, s') := by
  intro fuel
  induction fuel with
  | zero => intro s s' acc ts e _ h; omega
  | succ f ih =>
    intro s s' acc ts e hr hlen
    cases hr with
    | stop hs =>
      simp only [readAllLoop, hs, List.append_nil]
      split <;> rfl
    | more hs hrest =>
      simp only [readAllLoop, hs]
      rw [ih _ _ _ _ _ hrest (by simp at hlen; omega)]
      simp

theorem http_runsTo (cfg : Cfg) : ∀ (n : Nat) (st : St), (Vegeta.Proofs.HTTPTargetsL.eff st.ps).length ≤ n →
    ∃ ts e st', RunsTo (call cfg) st ts e st' ∧ ts.length ≤ n := by
  intro n
  induction n with
  | zero =>
    intro st h
    have he : Vegeta.Proofs.HTTPTargetsL.eff st.ps = [] := List.length_eq_zero_iff.mp (by omega)
    obtain ⟨ps', c1, _⟩ := Vegeta.Proofs.HTTPTargetsL.call_refines cfg st
    rw [he, callL_nil] at c1
    exact ⟨[], _, _, RunsTo.stop c1, by simp⟩
  | succ n ih =>
    intro st h
    obtain ⟨ps', c1, c2⟩ := Vegeta.Proofs.HTTPTargetsL.call_refines cfg st
    rcases callL_cases cfg (Vegeta.Proofs.HTTPTargetsL.eff st.ps) st.heap with ⟨hc, _⟩ | ⟨_, hnp, hlen⟩
    · rw [hc] at c1
      exact ⟨[], _, _, RunsTo.stop c1, by simp⟩
    · generalize hres : Vegeta.Proofs.HTTPTargetsL.callL cfg (Vegeta.Proofs.HTTPTargetsL.eff st.ps) st.heap = res at c1 c2 hnp hlen
      obtain ⟨o, r, h'⟩ := res
      cases o with
      | panic => exact absurd rfl hnp
      | error e => exact ⟨[], e, _, RunsTo.stop c1, by simp⟩
      | ok t =>
        obtain ⟨ts, e, st', hr, hl⟩ := ih { ps := ps', heap := h' } (by simp only at c2 hlen ⊢; rw [c2]; omega)
        exact ⟨t :: ts, e, st', RunsTo.more c1 hr, by simp; omega⟩

theorem json_runsTo (cfg : JSONTargets.Cfg) : ∀ (n : Nat) (src : Bytes), src.length ≤ n →
    ∃ ts e s', RunsTo (JSONTargets.call cfg) src ts e s' ∧ ts.length ≤ n := by
  intro n
  induction n with
  | zero =>
    intro src h
    have : src = [] := List.length_eq_zero_iff.mp (by omega)
    subst this
    exact ⟨[], JSONTargets.eNoTargets, [], RunsTo.stop (by simp [JSONTargets.call, JSONTargets.popLine, JSONTargets.readLine]), by simp⟩
  | succ n ih =>
    intro src h
    cases hp : JSONTargets.popLine (src.length + 1) src with
    | mk o rest =>
      cases o with
      | none => exact ⟨[], JSONTargets.eNoTargets, rest, RunsTo.stop (by simp [JSONTargets.call, hp]), by simp⟩
      | some d =>
        have hl := popLine_length _ _ _ _ hp
        cases hf : JSONTargets.finish cfg d with
        | panic =>
          exfalso
          unfold JSONTargets.finish at hf
          split at hf
          · cases hf
          · split at hf
            · cases hf
            · split at hf <;> cases hf
        | error e => exact ⟨[], e, rest, RunsTo.stop (by simp [JSONTargets.call, hp, hf]), by simp⟩
        | ok t =>
          obtain ⟨ts, e, s', hr, hlen⟩ := ih rest (by omega)
          exact ⟨t :: ts, e, s', RunsTo.more (by simp [JSONTargets.call, hp, hf]) hr, by simp; omega⟩

end readall

end Vegeta.Proofs.TargeterLaws
