/-
Target selection of the attack command: eager (`ReadAllTargets` + `NewStaticTargeter`) and lazy
mode hand out the same targets.
-/
import Vegeta.Model.AttackTargets
import Vegeta.Proofs.TargeterLaws
namespace Vegeta.Proofs.AttackTargets
open Vegeta.Go
open Vegeta.Model.HTTPTargets (readAllLoop eNoTargets)
open Vegeta.Model.AttackTargets
open Vegeta.Proofs.TargeterLaws (RunsTo readAllLoop_spec)
open Vegeta.Proofs.TargeterConc (sindex_nat)

/-- target number `i` of the rotation over `ts` -/
def rot {T : Type} (ts : List T) (i : Nat) : Outcome T :=
  match ts[i % ts.length]? with
  | some t => .ok t
  | none => .panic

theorem rot_ok {T : Type} (ts : List T) (hne : ts ≠ []) (i : Nat) : ∃ t, ts[i % ts.length]? = some t ∧ rot ts i = .ok t := by
  have hpos : 0 < ts.length := List.length_pos_iff.mpr hne
  have hlt : i % ts.length < ts.length := Nat.mod_lt _ hpos
  exact ⟨ts[i % ts.length], List.getElem?_eq_getElem hlt, by simp [rot, List.getElem?_eq_getElem hlt]⟩

/-- the `k`-th call of the static targeter (counter `k - 1` before it) hands out target `k mod n` -/
theorem staticDraw_nat {T : Type} (ts : List T) (hne : ts ≠ []) (k : Nat) (hk : k < two63) :
    staticDraw ts ((k : Int) - 1) = (rot ts k, (k : Int)) := by
  have hpos : 0 < ts.length := List.length_pos_iff.mpr hne
  have hv : wrapS64 ((k : Int) - 1 + 1) = (k : Int) := by
    have : ((k : Int) - 1 + 1) = (k : Int) := by omega
    rw [this]
    apply wrapS64_id
    unfold inS64 minInt64 maxInt64
    unfold two63 at hk
    omega
  obtain ⟨t, ht, hr⟩ := rot_ok ts hne k
  simp only [staticDraw, hv, sindex_nat ts.length k hpos, ht, hr]

theorem draws_static {S T : Type} (step : S → Outcome T × S) (ts : List T) (hne : ts ≠ []) :
    ∀ (m k : Nat), k + m ≤ two63 → draws step m (.static ts ((k : Int) - 1)) = (List.range' k m).map (rot ts) := by
  intro m
  induction m with
  | zero => intro k _; rfl
  | succ m ih =>
    intro k hk
    have hd := staticDraw_nat ts hne k (by omega)
    simp only [draws, draw, hd, List.range'_succ, List.map_cons]
    have := ih (k + 1) (by omega)
    simp only [Int.natCast_add, Int.natCast_one, Int.add_sub_cancel] at this
    rw [this]

theorem draws_stream {S T : Type} (step : S → Outcome T × S) : ∀ (s : S) (ts : List T) (e : Nat) (s' : S),
    RunsTo step s ts e s' → draws step (ts.length + 1) (.stream s) = ts.map Outcome.ok ++ [.error e] := by
  intro s ts e s' h
  induction h with
  | stop hs => simp [draws, draw, hs]
  | more hs _ ih =>
    rename_i s0 s1 s2 t ts' e' _
    have : draws step ((t :: ts').length + 1) (.stream s0) = .ok t :: draws step (ts'.length + 1) (.stream s1) := by
      simp only [List.length_cons]
      rw [draws]; simp only [draw, hs]
    rw [this, ih]; rfl

theorem select_eager {S T : Type} (step : S → Outcome T × S) (fuel : Nat) (s s' : S) (ts : List T) (e : Nat)
    (hr : RunsTo step s ts e s') (hf : ts.length < fuel) :
    selectTargeter step fuel false s =
      if e = eNoTargets then (if ts = [] then .error eNoTargets else .ok (.static ts (-1))) else .error e := by
  have := readAllLoop_spec step fuel s s' [] ts e hr hf
  simp only [List.nil_append] at this
  simp only [selectTargeter, Bool.false_eq_true, ↓reduceIte, this]
  by_cases he : e = eNoTargets
  · by_cases ht : ts = []
    · simp [he, ht]
    · simp [he, ht]
  · simp [he]

theorem take_map_rot {T : Type} (ts : List T) : (List.range' 0 ts.length).map (rot ts) = ts.map Outcome.ok := by
  apply List.ext_getElem?
  intro i
  simp only [List.getElem?_map, List.getElem?_range']
  by_cases hi : i < ts.length
  · simp [hi, rot, Nat.mod_eq_of_lt hi, List.getElem?_eq_getElem hi]
  · simp [hi, List.getElem?_eq_none (Nat.le_of_not_lt hi)]

end Vegeta.Proofs.AttackTargets
