/-
Round trip of `time.Time.MarshalJSON` / `UnmarshalJSON` (RFC 3339 with nanoseconds) as modelled in
`Vegeta.Model.CodecRFC3339`: civil-date algorithms, fixed-width fields, fractional second, zone.
-/
import Vegeta.Model.CodecResult
namespace Vegeta.Proofs.Codec
open Vegeta.Go Vegeta.Model.Codec

/-! ### Civil date: `dateDays ∘ absDate = id` (algebraic, for every day number) -/

/-- the year part of `absDate`: (years since the absolute zero year, day within the year) -/
def t3339YearOff (d0 : Nat) : Nat × Nat :=
  let n := d0 / 146097
  let y := 400 * n
  let d := d0 - 146097 * n
  let n := d / 36524
  let n := n - n / 4
  let y := y + 100 * n
  let d := d - 36524 * n
  let n := d / 1461
  let y := y + 4 * n
  let d := d - 1461 * n
  let n := d / 365
  let n := n - n / 4
  let y := y + n
  let d := d - 365 * n
  (y, d)

/-- the month/day part of `absDate` -/
def t3339MonthDay (year : Int) (d : Nat) : Int × Nat × Nat :=
  if isLeap year && d == 59 then (year, 2, 29)
  else
    let day := if isLeap year && d > 59 then d - 1 else d
    let m := day / 31
    let e := daysBefore.getD (m + 1) 0
    if day ≥ e then (year, m + 2, day - e + 1)
    else (year, m + 1, day - daysBefore.getD m 0 + 1)

/-- the month/day part with the leap flag abstracted -/
def t3339MonthDayL (lp : Bool) (d : Nat) : Nat × Nat :=
  if lp && d == 59 then (2, 29)
  else
    let day := if lp && d > 59 then d - 1 else d
    let m := day / 31
    let e := daysBefore.getD (m + 1) 0
    if day ≥ e then (m + 2, day - e + 1)
    else (m + 1, day - daysBefore.getD m 0 + 1)

theorem t3339_absDate_eq (d0 : Nat) :
    absDate d0 = t3339MonthDay (((t3339YearOff d0).1 : Int) + absZeroYear) (t3339YearOff d0).2 := rfl

theorem t3339_monthDay_eq (year : Int) (d : Nat) :
    t3339MonthDay year d = (year, t3339MonthDayL (isLeap year) d) := by
  unfold t3339MonthDay t3339MonthDayL
  simp only []
  repeat' split
  all_goals rfl

set_option maxRecDepth 100000 in
theorem t3339_monthDayL_ok : ∀ lp : Bool, ∀ d, d < 365 + lp.toNat →
    1 ≤ (t3339MonthDayL lp d).1 ∧ (t3339MonthDayL lp d).1 ≤ 12 ∧ 1 ≤ (t3339MonthDayL lp d).2 ∧
    (t3339MonthDayL lp d).2 ≤ (if (t3339MonthDayL lp d).1 == 2 && lp then 29
        else daysBefore.getD (t3339MonthDayL lp d).1 0 - daysBefore.getD ((t3339MonthDayL lp d).1 - 1) 0) ∧
    daysBefore.getD ((t3339MonthDayL lp d).1 - 1) 0 + (if lp && (t3339MonthDayL lp d).1 ≥ 3 then 1 else 0) +
      ((t3339MonthDayL lp d).2 - 1) = d := by
  decide +kernel

theorem t3339_isLeap_iff (y : Int) :
    isLeap y = true ↔ (y % 4 = 0 ∧ (y % 100 ≠ 0 ∨ y % 400 = 0)) := by
  simp [isLeap]

/-- the year decomposition of `absDate` in elementary terms -/
theorem t3339_yearOff_parts (d0 : Nat) : ∃ n400 n100 n4 n1 yd : Nat,
    t3339YearOff d0 = (400 * n400 + 100 * n100 + 4 * n4 + n1, yd) ∧
    146097 * n400 + 36524 * n100 + 1461 * n4 + 365 * n1 + yd = d0 ∧
    n100 ≤ 3 ∧ n4 ≤ 24 ∧ n1 ≤ 3 ∧ yd ≤ 365 ∧ (yd = 365 → n1 = 3 ∧ (n4 = 24 → n100 = 3)) := by
  let n400 := d0 / 146097
  let r1 := d0 - 146097 * n400
  let q100 := r1 / 36524
  let n100 := q100 - q100 / 4
  let r2 := r1 - 36524 * n100
  let n4 := r2 / 1461
  let r3 := r2 - 1461 * n4
  let q1 := r3 / 365
  let n1 := q1 - q1 / 4
  let yd := r3 - 365 * n1
  refine ⟨n400, n100, n4, n1, yd, rfl, ?_⟩
  have a1 : r1 + 146097 * n400 = d0 ∧ r1 < 146097 := by omega
  have a2 : q100 ≤ 4 ∧ 36524 * q100 ≤ r1 ∧ r1 < 36524 * q100 + 36524 := by omega
  have a3 : n100 ≤ 3 ∧ (q100 ≤ 3 → n100 = q100) ∧ (q100 = 4 → n100 = 3) := by omega
  have a4 : r2 + 36524 * n100 = r1 ∧ r2 ≤ 36524 ∧ (n100 < 3 → r2 < 36524) := by omega
  have a5 : n4 ≤ 24 ∧ 1461 * n4 ≤ r2 ∧ r2 < 1461 * n4 + 1461 := by omega
  have a6 : r3 + 1461 * n4 = r2 ∧ r3 < 1461 := by omega
  have a7 : q1 ≤ 4 ∧ 365 * q1 ≤ r3 ∧ r3 < 365 * q1 + 365 := by omega
  have a8 : n1 ≤ 3 ∧ (q1 ≤ 3 → n1 = q1) ∧ (q1 = 4 → n1 = 3) := by omega
  have a9 : yd + 365 * n1 = r3 := by omega
  clear_value n400 r1 q100 n100 r2 n4 r3 q1 n1 yd
  omega

/-- **Go's civil-date algorithms are mutually inverse**: for every day number `d0` (counted from the
absolute epoch) `absDate` yields a valid civil date which `Date` maps back to `d0`; day numbers from
1969-12-31 to 2201-01-01 have years 1969..2201. -/
theorem t3339_civil (d0 : Nat) : ∃ (y : Int) (m dd : Nat), absDate d0 = (y, m, dd) ∧
    1 ≤ m ∧ m ≤ 12 ∧ 1 ≤ dd ∧ dd ≤ daysIn m y ∧ dateDays y m dd = d0 ∧
    (unixToAbsDays - 1 ≤ d0 → d0 ≤ unixToAbsDays + 84371 → 1969 ≤ y ∧ y ≤ 2201) := by
  obtain ⟨n400, n100, n4, n1, yd, hy, hsum, b100, b4, b1, byd, hyd⟩ := t3339_yearOff_parts d0
  rw [t3339_absDate_eq, hy, t3339_monthDay_eq]
  simp only []
  generalize hyear : ((400 * n400 + 100 * n100 + 4 * n4 + n1 : Nat) : Int) + absZeroYear = year
  have hleap := t3339_isLeap_iff year
  have hdse : daysSinceEpoch year = 146097 * n400 + 36524 * n100 + 1461 * n4 + 365 * n1 := by
    have : (year - absZeroYear).toNat = 400 * n400 + 100 * n100 + 4 * n4 + n1 := by omega
    unfold daysSinceEpoch
    simp only [this]
    omega
  have hlt : yd < 365 + (isLeap year).toNat := by
    cases hb : isLeap year
    · have hnl : ¬ (year % 4 = 0 ∧ (year % 100 ≠ 0 ∨ year % 400 = 0)) := by
        rw [← hleap, hb]; simp
      unfold absZeroYear at hyear
      simp only [Bool.toNat_false]
      omega
    · simp only [Bool.toNat_true]
      omega
  have hm := t3339_monthDayL_ok (isLeap year) yd hlt
  refine ⟨year, (t3339MonthDayL (isLeap year) yd).1, (t3339MonthDayL (isLeap year) yd).2, rfl, hm.1, hm.2.1, hm.2.2.1, ?_, ?_, ?_⟩
  · have := hm.2.2.2.1
    unfold daysIn
    exact this
  · have := hm.2.2.2.2
    unfold dateDays
    rw [hdse]
    omega
  · intro hlo hhi
    unfold unixToAbsDays at hlo hhi
    unfold absZeroYear at hyear
    have : n400 = 730692560 ∨ n400 = 730692561 := by omega
    rcases this with h | h <;> subst h <;> omega

/-! ### fixed-width decimal fields -/

/-- `k` decimal digits of `n`, least significant first -/
def t3339Lsd : Nat → Nat → List Nat
  | 0, _ => []
  | k+1, n => (48 + n % 10) :: t3339Lsd k (n / 10)

theorem t3339_lsd_zero (k : Nat) : t3339Lsd k 0 = List.replicate k 48 := by
  induction k with
  | zero => rfl
  | succ k ih => simp [t3339Lsd, ih, List.replicate_succ]

theorem t3339_lsd_length (k n : Nat) : (t3339Lsd k n).length = k := by
  induction k generalizing n with
  | zero => rfl
  | succ k ih => simp [t3339Lsd, ih]

theorem t3339_digitsRev_pad (k n f : Nat) (hn : n < 10 ^ (k + 1)) (hf : n < f) :
    digitsRev f n ++ List.replicate (k + 1 - (digitsRev f n).length) 48 = t3339Lsd (k + 1) n := by
  induction k generalizing n f with
  | zero =>
    obtain ⟨f, rfl⟩ : ∃ f', f = f' + 1 := ⟨f - 1, by omega⟩
    have h10 : n < 10 := by simpa using hn
    simp [digitsRev, h10, t3339Lsd]
    omega
  | succ k ih =>
    obtain ⟨f, rfl⟩ : ∃ f', f = f' + 1 := ⟨f - 1, by omega⟩
    by_cases h10 : n < 10
    · have : n / 10 = 0 := by omega
      have h2 : n % 10 = n := by omega
      simp [digitsRev, h10, t3339Lsd, this, t3339_lsd_zero, h2, List.replicate_succ]
    · rw [t3339Lsd, ← ih (n / 10) f (by rw [Nat.pow_succ] at hn; omega) (by omega)]
      simp [digitsRev, h10]

theorem t3339_padNat (k n : Nat) (hn : n < 10 ^ (k + 1)) :
    padNat (k + 1) n = (t3339Lsd (k + 1) n).reverse := by
  unfold padNat fmtNat
  rw [← t3339_digitsRev_pad k n (n + 1) hn (by omega)]
  simp

theorem t3339_padNat2 (n : Nat) (hn : n < 100) : padNat 2 n = [48 + n / 10, 48 + n % 10] := by
  rw [t3339_padNat 1 n (by simpa using hn)]
  have : n / 10 % 10 = n / 10 := by omega
  simp [t3339Lsd, this]

theorem t3339_padNat4 (n : Nat) (hn : n < 10000) :
    padNat 4 n = [48 + n / 1000, 48 + n / 100 % 10, 48 + n / 10 % 10, 48 + n % 10] := by
  rw [t3339_padNat 3 n (by simpa using hn)]
  have h1 : n / 10 / 10 / 10 % 10 = n / 1000 := by omega
  have h2 : n / 10 / 10 % 10 = n / 100 % 10 := by omega
  simp [t3339Lsd, h1, h2]

theorem t3339_parseRange2 (n lo hi : Nat) (hn : n < 100) (hlo : lo ≤ n) (hhi : n ≤ hi) :
    parseRange (padNat 2 n) lo hi = some n := by
  rw [t3339_padNat2 n hn]
  have h1 : isDigitB (48 + n / 10) = true := by simp [isDigitB]; omega
  have h2 : isDigitB (48 + n % 10) = true := by simp [isDigitB]; omega
  have h3 : (0 * 10 + (48 + n / 10 - 48)) * 10 + (48 + n % 10 - 48) = n := by omega
  simp [parseRange, List.all, List.foldl, h1, h2]
  omega

theorem t3339_parseRange4 (n lo hi : Nat) (hn : n < 10000) (hlo : lo ≤ n) (hhi : n ≤ hi) :
    parseRange (padNat 4 n) lo hi = some n := by
  rw [t3339_padNat4 n hn]
  have h1 : isDigitB (48 + n / 1000) = true := by simp [isDigitB]; omega
  have h2 : isDigitB (48 + n / 100 % 10) = true := by simp [isDigitB]; omega
  have h3 : isDigitB (48 + n / 10 % 10) = true := by simp [isDigitB]; omega
  have h4 : isDigitB (48 + n % 10) = true := by simp [isDigitB]; omega
  have h5 : (((0 * 10 + (48 + n / 1000 - 48)) * 10 + (48 + n / 100 % 10 - 48)) * 10 +
      (48 + n / 10 % 10 - 48)) * 10 + (48 + n % 10 - 48) = n := by omega
  simp [parseRange, List.all, List.foldl, h1, h2, h3, h4]
  omega

/-! ### fractional second -/

/-- value of decimal digits given least significant first -/
def t3339ValL : List Nat → Nat
  | [] => 0
  | c :: r => (c - 48) + 10 * t3339ValL r

theorem t3339_foldl_reverse (l : List Nat) :
    l.reverse.foldl (fun a c => a * 10 + (c - 48)) 0 = t3339ValL l := by
  rw [List.foldl_reverse]
  induction l with
  | nil => rfl
  | cons c r ih => simp only [List.foldr, ih, t3339ValL]; omega

theorem t3339_valL_lsd (k n : Nat) : t3339ValL (t3339Lsd k n) = n % 10 ^ k := by
  induction k generalizing n with
  | zero => simp [t3339Lsd, t3339ValL, Nat.mod_one]
  | succ k ih =>
    simp only [t3339Lsd, t3339ValL, ih]
    rw [Nat.pow_succ', Nat.mod_mul]
    omega

theorem t3339_lsd_digits (k n : Nat) : ∀ c ∈ t3339Lsd k n, isDigitB c = true := by
  induction k generalizing n with
  | zero => intro c hc; simp [t3339Lsd] at hc
  | succ k ih =>
    intro c hc
    simp only [t3339Lsd, List.mem_cons] at hc
    rcases hc with rfl | hc
    · simp [isDigitB]; omega
    · exact ih _ c hc

theorem t3339_valL_dropWhile (l : List Nat) :
    t3339ValL (l.dropWhile (· == 48)) * 10 ^ (l.length - (l.dropWhile (· == 48)).length) =
      t3339ValL l := by
  induction l with
  | nil => rfl
  | cons c r ih =>
    by_cases hc : c = 48
    · subst hc
      have hle : (r.dropWhile (· == 48)).length ≤ r.length :=
        (List.dropWhile_sublist _).length_le
      have : (48 :: r).length - (r.dropWhile (· == 48)).length =
          (r.length - (r.dropWhile (· == 48)).length) + 1 := by simp only [List.length_cons]; omega
      simp only [List.dropWhile_cons, beq_self_eq_true, if_true, this, t3339ValL, ← ih, Nat.pow_succ]
      rw [← Nat.mul_assoc]
      omega
    · have : ((c == 48) = true) = False := by simp [hc]
      simp [this]

theorem t3339_parseFrac_none (z : Nat) (rest : Bytes) (hz : z ≠ 46) :
    parseFrac (z :: rest) = (0, z :: rest) := by
  unfold parseFrac
  split
  · rename_i h; injection h with h1 _; exact absurd h1 hz
  · rfl

theorem t3339_parseFrac_digits (ds : Bytes) (z : Nat) (rest : Bytes) (hne : ds ≠ [])
    (hall : ∀ c ∈ ds, isDigitB c = true) (hlen : ds.length ≤ 9) (hz : isDigitB z = false) :
    parseFrac (46 :: (ds ++ z :: rest)) =
      (ds.foldl (fun a c => a * 10 + (c - 48)) 0 * 10 ^ (9 - ds.length), z :: rest) := by
  cases ds with
  | nil => exact absurd rfl hne
  | cons c r =>
    have hc : isDigitB c = true := hall c (by simp)
    have hz' : ¬ isDigitB z = true := by simp [hz]
    have htw : List.takeWhile isDigitB (c :: r ++ z :: rest) = c :: r := by
      rw [List.takeWhile_append_of_pos hall, List.takeWhile_cons_of_neg hz']; simp
    have hdw : List.dropWhile isDigitB (c :: r ++ z :: rest) = z :: rest := by
      rw [List.dropWhile_append_of_pos hall, List.dropWhile_cons_of_neg hz']
    rw [List.cons_append] at htw hdw ⊢
    simp only [parseFrac, hc, if_true, htw, hdw, List.take_of_length_le hlen]

theorem t3339_parseFrac_fmtNanos (nsec z : Nat) (rest : Bytes) (hn : nsec < 1000000000)
    (hz : isDigitB z = false) (hz46 : z ≠ 46) :
    parseFrac (fmtNanos nsec ++ z :: rest) = (nsec, z :: rest) := by
  unfold fmtNanos
  by_cases h0 : nsec = 0
  · simp only [h0, if_true, List.nil_append]
    exact t3339_parseFrac_none z rest hz46
  · simp only [h0, if_false, dropTrailingZeros]
    rw [t3339_padNat 8 nsec (by simpa using hn), List.reverse_reverse]
    have hv := t3339_valL_dropWhile (t3339Lsd 9 nsec)
    rw [t3339_valL_lsd, t3339_lsd_length, Nat.mod_eq_of_lt (by simpa using hn)] at hv
    generalize hdw : (t3339Lsd 9 nsec).dropWhile (· == 48) = dw at hv
    have hsub : dw.Sublist (t3339Lsd 9 nsec) := hdw ▸ List.dropWhile_sublist _
    have hlen : dw.length ≤ 9 := by
      have := hsub.length_le; rwa [t3339_lsd_length] at this
    have hne : dw.reverse ≠ [] := by
      intro h
      have : dw = [] := by simpa using h
      subst this
      simp [t3339ValL] at hv
      omega
    rw [List.cons_append, t3339_parseFrac_digits dw.reverse z rest hne
      (fun c hc => t3339_lsd_digits 9 nsec c (hsub.mem (by simpa using hc)))
      (by simpa using hlen) hz]
    rw [t3339_foldl_reverse, List.length_reverse, hv]

/-! ### zone -/

theorem t3339_fmtZone_head (off : Int) :
    ∃ z zr, fmtZone off = z :: zr ∧ isDigitB z = false ∧ z ≠ 46 := by
  unfold fmtZone
  by_cases h0 : off = 0
  · exact ⟨90, [], by simp [h0], by decide, by decide⟩
  · by_cases hneg : off < 0
    · exact ⟨45, _, by rw [if_neg h0, if_pos hneg], by decide, by decide⟩
    · exact ⟨43, _, by rw [if_neg h0, if_neg hneg], by decide, by decide⟩

theorem t3339_parseZone_fmtZone (off : Int) (ho : off.natAbs < 1440) :
    parseZone (fmtZone off) = some (off * 60) := by
  unfold fmtZone
  by_cases h0 : off = 0
  · simp [h0, parseZone]
  · have hh : off.natAbs / 60 < 100 := by omega
    have hm : off.natAbs % 60 < 100 := by omega
    have p1 := t3339_parseRange2 (off.natAbs / 60) 0 23 hh (by omega) (by omega)
    have p2 := t3339_parseRange2 (off.natAbs % 60) 0 59 hm (by omega) (by omega)
    rw [t3339_padNat2 _ hh] at p1
    rw [t3339_padNat2 _ hm] at p2
    simp only [h0, if_false, t3339_padNat2 _ hh, t3339_padNat2 _ hm, List.cons_append,
      List.nil_append, parseZone, p1, p2]
    by_cases hneg : off < 0
    · simp [hneg]; omega
    · simp [hneg]; omega

/-! ### assembly -/

theorem t3339_daysIn_le (m : Nat) (y : Int) (hm : m ≤ 12) : daysIn m y ≤ 31 := by
  unfold daysIn
  split
  · omega
  · have : ∀ m, m ≤ 12 → daysBefore.getD m 0 - daysBefore.getD (m - 1) 0 ≤ 31 := by decide
    exact this m hm

/-- the fast-path parser on a well-formed text with in-range fields -/
theorem t3339_parse_fields (y m dd hh mi ss nsec : Nat) (off : Int)
    (hy : y < 10000) (hm1 : 1 ≤ m) (hm : m ≤ 12) (hd1 : 1 ≤ dd) (hd : dd ≤ daysIn m (y : Int))
    (hhh : hh < 24) (hmi : mi < 60) (hss : ss < 60) (hn : nsec < 1000000000)
    (ho : off.natAbs < 1440) :
    parseRFC3339 (padNat 4 y ++ 45 :: padNat 2 m ++ 45 :: padNat 2 dd ++ 84 ::
      padNat 2 hh ++ 58 :: padNat 2 mi ++ 58 :: padNat 2 ss ++ fmtNanos nsec ++ fmtZone off) =
    some ((((dateDays (y : Int) m dd : Int) - (unixToAbsDays : Int)) * 86400 +
      ((hh * 3600 + mi * 60 + ss : Nat) : Int) - off * 60) * 1000000000 + (nsec : Int)) := by
  have hdd : dd ≤ 31 := Nat.le_trans hd (t3339_daysIn_le m y hm)
  have py := t3339_parseRange4 y 0 9999 hy (by omega) (by omega)
  have pm := t3339_parseRange2 m 1 12 (by omega) hm1 hm
  have pd := t3339_parseRange2 dd 1 (daysIn m (y : Int)) (by omega) hd1 hd
  have ph := t3339_parseRange2 hh 0 23 (by omega) (by omega) (by omega)
  have pi := t3339_parseRange2 mi 0 59 (by omega) (by omega) (by omega)
  have ps := t3339_parseRange2 ss 0 59 (by omega) (by omega) (by omega)
  rw [t3339_padNat4 y hy] at py
  rw [t3339_padNat2 m (by omega)] at pm
  rw [t3339_padNat2 dd (by omega)] at pd
  rw [t3339_padNat2 hh (by omega)] at ph
  rw [t3339_padNat2 mi (by omega)] at pi
  rw [t3339_padNat2 ss (by omega)] at ps
  obtain ⟨z, zr, hz, hzd, hz46⟩ := t3339_fmtZone_head off
  have pz := t3339_parseZone_fmtZone off ho
  have pf := t3339_parseFrac_fmtNanos nsec z zr hn hzd hz46
  rw [hz] at pz ⊢
  rw [t3339_padNat4 y hy, t3339_padNat2 m (by omega), t3339_padNat2 dd (by omega),
    t3339_padNat2 hh (by omega), t3339_padNat2 mi (by omega), t3339_padNat2 ss (by omega)]
  simp only [List.cons_append, List.nil_append, parseRFC3339, py, pm, pd, ph,
    pi, ps, pf, pz, and_self, if_true]

/-- bytes that need no escaping inside a JSON string -/
def t3339OkB (c : Nat) : Prop := 32 ≤ c ∧ c < 128 ∧ c ≠ 34 ∧ c ≠ 92

theorem t3339_ok_digit (c : Nat) (h : isDigitB c = true) : t3339OkB c := by
  simp [isDigitB] at h
  unfold t3339OkB
  omega

theorem t3339_ok_append (a b : Bytes) (ha : ∀ c ∈ a, t3339OkB c) (hb : ∀ c ∈ b, t3339OkB c) :
    ∀ c ∈ a ++ b, t3339OkB c := by
  intro c hc
  rcases List.mem_append.mp hc with h | h
  · exact ha c h
  · exact hb c h

theorem t3339_ok_cons (x : Nat) (b : Bytes) (hx : t3339OkB x) (hb : ∀ c ∈ b, t3339OkB c) :
    ∀ c ∈ x :: b, t3339OkB c := by
  intro c hc
  rcases List.mem_cons.mp hc with h | h
  · exact h ▸ hx
  · exact hb c h

theorem t3339_ok_padNat (k n : Nat) (hn : n < 10 ^ (k + 1)) : ∀ c ∈ padNat (k + 1) n, t3339OkB c := by
  intro c hc
  rw [t3339_padNat k n hn] at hc
  exact t3339_ok_digit c (t3339_lsd_digits _ _ c (by simpa using hc))

theorem t3339_ok_fmtNanos (nsec : Nat) (hn : nsec < 1000000000) : ∀ c ∈ fmtNanos nsec, t3339OkB c := by
  unfold fmtNanos
  split
  · intro c hc; simp at hc
  · apply t3339_ok_cons _ _ (by unfold t3339OkB; omega)
    intro c hc
    unfold dropTrailingZeros at hc
    rw [t3339_padNat 8 nsec (by simpa using hn), List.reverse_reverse, List.mem_reverse] at hc
    exact t3339_ok_digit c (t3339_lsd_digits _ _ c ((List.dropWhile_sublist _).mem hc))

theorem t3339_ok_fmtZone (off : Int) (ho : off.natAbs < 1440) : ∀ c ∈ fmtZone off, t3339OkB c := by
  unfold fmtZone
  split
  · exact t3339_ok_cons _ _ (by unfold t3339OkB; omega) (by intro c hc; simp at hc)
  · apply t3339_ok_cons
    · unfold t3339OkB; split <;> omega
    · apply t3339_ok_append
      · exact t3339_ok_padNat 1 _ (by simp; omega)
      · exact t3339_ok_cons _ _ (by unfold t3339OkB; omega) (t3339_ok_padNat 1 _ (by simp; omega))

/-! ### main theorems -/

/-- **time.Time: UnmarshalJSON ∘ MarshalJSON = id** for every instant from 1970-01-01T00:00:00Z up to
2200-12-31T23:59:59.999999999Z, with nanosecond precision, shown in any zone of whole minutes
(|offset| < 24 h): formatting succeeds, the fast-path parser returns the same instant, and the text
consists of printable ASCII without '"' and '\\'. -/
theorem parseRFC3339_fmtRFC3339 (ns offMin : Int) (h0 : 0 ≤ ns) (h1 : ns < 7289654400000000000)
    (ho : offMin.natAbs < 1440) :
    ∃ b, fmtRFC3339 ns offMin = some b ∧ parseRFC3339 b = some ns ∧
      ∀ c ∈ b, 32 ≤ c ∧ c < 128 ∧ c ≠ 34 ∧ c ≠ 92 := by
  obtain ⟨y, m, dd, hab, hm1, hm12, hd1, hdd, hdate, hyr⟩ :=
    t3339_civil ((ns / 1000000000 + offMin * 60) / 86400 + (unixToAbsDays : Int)).toNat
  have hd0 : ¬ ((ns / 1000000000 + offMin * 60) / 86400 + (unixToAbsDays : Int) < 0) := by
    unfold unixToAbsDays; omega
  obtain ⟨hy1, hy2⟩ := hyr (by unfold unixToAbsDays; omega) (by unfold unixToAbsDays; omega)
  have hyc : ¬ (y < 0 ∨ y > 9999 ∨ offMin.natAbs ≥ 1440) := by omega
  have hyn : ((y.toNat : Nat) : Int) = y := Int.toNat_of_nonneg (by omega)
  unfold fmtRFC3339
  simp only [hab, if_neg hd0, if_neg hyc]
  refine ⟨_, rfl, ?_, ?_⟩
  · rw [t3339_parse_fields y.toNat m dd _ _ _ _ offMin (by omega) hm1 hm12 hd1 (by rw [hyn]; exact hdd)
      (by omega) (by omega) (by omega) (by omega) ho]
    rw [hyn, hdate]
    unfold unixToAbsDays
    congr 1
    omega
  · show ∀ c ∈ (_ : Bytes), t3339OkB c
    have hdd' : dd ≤ 31 := Nat.le_trans hdd (t3339_daysIn_le m y hm12)
    have k45 : t3339OkB 45 := by unfold t3339OkB; omega
    have k58 : t3339OkB 58 := by unfold t3339OkB; omega
    have k84 : t3339OkB 84 := by unfold t3339OkB; omega
    refine t3339_ok_append _ _ (t3339_ok_append _ _ (t3339_ok_append _ _ (t3339_ok_append _ _
      (t3339_ok_append _ _ (t3339_ok_append _ _ (t3339_ok_append _ _
        (t3339_ok_padNat 3 _ ?_) (t3339_ok_cons _ _ k45 (t3339_ok_padNat 1 _ ?_)))
        (t3339_ok_cons _ _ k45 (t3339_ok_padNat 1 _ ?_)))
        (t3339_ok_cons _ _ k84 (t3339_ok_padNat 1 _ ?_)))
        (t3339_ok_cons _ _ k58 (t3339_ok_padNat 1 _ ?_)))
        (t3339_ok_cons _ _ k58 (t3339_ok_padNat 1 _ ?_)))
        (t3339_ok_fmtNanos _ ?_)) (t3339_ok_fmtZone _ ho)
    all_goals first | omega | (simp only [Nat.reducePow, Nat.reduceAdd]; omega)

theorem t3339_unmarshal_quoted (b : Bytes) (t : Int) (h : parseRFC3339 b = some t) :
    timeUnmarshalJSON (34 :: (b ++ [34])) = .ok t := by
  have h1 : (b ++ [34]).isEmpty = false := by cases b <;> rfl
  have h2 : (b ++ [34]).getLast? = some 34 := by simp
  have h3 : (b ++ [34]).dropLast = b := by simp
  simp only [timeUnmarshalJSON, h1, h2, h3, h]
  rfl

/-- the JSON forms: `Time.UnmarshalJSON (Time.MarshalJSON t) = t` on the same range -/
theorem timeUnmarshal_timeMarshal (ns offMin : Int) (h0 : 0 ≤ ns) (h1 : ns < 7289654400000000000)
    (ho : offMin.natAbs < 1440) :
    ∃ b, timeMarshalJSON ns offMin = some (34 :: (b ++ [34])) ∧ timeUnmarshalJSON (34 :: (b ++ [34])) = .ok ns ∧
      ∀ c ∈ b, 32 ≤ c ∧ c < 128 ∧ c ≠ 34 ∧ c ≠ 92 := by
  obtain ⟨b, hf, hp, hb⟩ := parseRFC3339_fmtRFC3339 ns offMin h0 h1 ho
  exact ⟨b, by simp [timeMarshalJSON, hf], t3339_unmarshal_quoted b ns hp, hb⟩

/-! ### sanity checks -/

/-- "2020-09-13T14:26:40.123456+02:00" -/
def t3339Ex1 : Bytes := [50, 48, 50, 48, 45, 48, 57, 45, 49, 51, 84, 49, 52, 58, 50, 54, 58, 52, 48, 46,
  49, 50, 51, 52, 53, 54, 43, 48, 50, 58, 48, 48]

example : fmtRFC3339 1600000000123456000 120 = some t3339Ex1 := by decide +kernel
example : parseRFC3339 t3339Ex1 = some 1600000000123456000 := by decide +kernel
/-- "1970-01-01T00:00:00Z" -/
example : fmtRFC3339 0 0 = some [49, 57, 55, 48, 45, 48, 49, 45, 48, 49, 84, 48, 48, 58, 48, 48, 58, 48, 48, 90] := by
  decide +kernel
/-- "1969-12-31T23:59:00.000000001-00:01": one nanosecond after the epoch, one minute west -/
example : fmtRFC3339 1 (-1) = some [49, 57, 54, 57, 45, 49, 50, 45, 51, 49, 84, 50, 51, 58, 53, 57, 58, 48, 48,
  46, 48, 48, 48, 48, 48, 48, 48, 48, 49, 45, 48, 48, 58, 48, 49] := by decide +kernel
/-- "2200-12-31T23:59:59.999999999Z", the last instant covered -/
example : fmtRFC3339 7289654399999999999 0 = some [50, 50, 48, 48, 45, 49, 50, 45, 51, 49, 84, 50, 51, 58, 53, 57,
  58, 53, 57, 46, 57, 57, 57, 57, 57, 57, 57, 57, 57, 90] := by decide +kernel
/-- a leap day: 2024-02-29T12:00:00Z -/
example : fmtRFC3339 1709208000000000000 0 = some [50, 48, 50, 52, 45, 48, 50, 45, 50, 57, 84, 49, 50, 58, 48, 48,
  58, 48, 48, 90] := by decide +kernel
example : timeUnmarshalJSON (34 :: (t3339Ex1 ++ [34])) = .ok 1600000000123456000 := by decide +kernel

end Vegeta.Proofs.Codec
