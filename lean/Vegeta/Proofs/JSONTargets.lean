/-
Lemmas about the JSON targeter model: merge by append, the line reader.
-/
import Vegeta.Model.JSONTargets
namespace Vegeta.Proofs.JSONTargets
open Vegeta.Go
open Vegeta.Model.Histogram (trimSpace)
open Vegeta.Model.JSONTargets

/-! ### merge by append -/

theorem vlookup_vset (m : VMap) (k k' : Bytes) (vs : List Bytes) :
    vlookup (vset m k vs) k' = if k = k' then some vs else vlookup m k' := by
  induction m with
  | nil => simp only [vset, vlookup]
  | cons e r ih =>
    obtain ⟨k0, v0⟩ := e
    simp only [vset]
    by_cases h0 : k0 = k
    · subst h0
      simp only [↓reduceIte, vlookup]
      by_cases h1 : k0 = k' <;> simp [h1]
    · simp only [h0, ↓reduceIte, vlookup, ih]
      by_cases h1 : k0 = k'
      · subst h1
        have : ¬ k = k0 := fun e => h0 e.symm
        simp [this]
      · simp [h1]

theorem vlookup_vappend (m : VMap) (k k' : Bytes) (vs : List Bytes) :
    vlookup (vappend m k vs) k' = if k = k' then some ((vlookup m k).getD [] ++ vs) else vlookup m k' := by
  simp only [vappend, vlookup_vset]

/-- merging a map with distinct keys: every key of the source has its values appended to
whatever the target map had, all other keys are untouched -/
theorem vlookup_vmerge (src : VMap) (hnd : (src.map (·.1)).Nodup) : ∀ (m : VMap) (k : Bytes),
    vlookup (vmerge m src) k =
      match vlookup src k with
      | none => vlookup m k
      | some vs => some ((vlookup m k).getD [] ++ vs) := by
  induction src with
  | nil => intro m k; rfl
  | cons e r ih =>
    intro m k
    obtain ⟨k0, v0⟩ := e
    simp only [List.map_cons, List.nodup_cons] at hnd
    have hvm : vmerge m ((k0, v0) :: r) = vmerge (vappend m k0 v0) r := by simp [vmerge]
    rw [hvm, ih hnd.2, vlookup_vappend]
    simp only [vlookup]
    by_cases h0 : k0 = k
    · subst h0
      have hnone : vlookup r k0 = none := by
        have hnot := hnd.1
        clear ih hvm hnd
        induction r with
        | nil => rfl
        | cons e2 r2 ih2 =>
          obtain ⟨k2, v2⟩ := e2
          simp only [List.map_cons, List.mem_cons, not_or] at hnot
          simp only [vlookup]
          have : ¬ k2 = k0 := fun e => hnot.1 e.symm
          simp [this, ih2 hnot.2]
      simp [hnone]
    · simp [h0]

/-- what the unlocked part of the JSON targeter returns: the decoded method and URL, the decoded
body or else the default body, and per key the default values followed by the decoded ones -/
theorem finish_spec (cfg : Cfg) (line : Bytes) (t : JRec) (h : finish cfg line = .ok t)
    (hd : (cfg.hdr.map (·.1)).Nodup) (hr : ∀ r, cfg.dec line = some r → (r.header.map (·.1)).Nodup) :
    ∃ r, cfg.dec line = some r ∧ r.method ≠ [] ∧ r.url ≠ [] ∧ t.method = r.method ∧ t.url = r.url ∧
      t.body = (if r.body.length > 0 then r.body else cfg.body) ∧
      ∀ k, vlookup t.header k =
        match vlookup cfg.hdr k, vlookup r.header k with
        | none, none => none
        | some ds, none => some ds
        | none, some vs => some vs
        | some ds, some vs => some (ds ++ vs) := by
  unfold finish at h
  split at h
  · cases h
  · rename_i r hdec
    split at h
    · cases h
    · split at h
      · cases h
      · rename_i hm hu
        cases h
        refine ⟨r, hdec, hm, hu, rfl, rfl, rfl, ?_⟩
        intro k
        simp only
        rw [vlookup_vmerge _ (hr r hdec), vlookup_vmerge _ hd]
        cases vlookup cfg.hdr k <;> cases vlookup r.header k <;> simp [vlookup]

/-! ### the line reader -/

theorem readLine_line (l : Bytes) (hl : 10 ∉ l) (rest : Bytes) : readLine (l ++ 10 :: rest) = some (l ++ [10], rest) := by
  induction l with
  | nil => simp [readLine]
  | cons c t ih =>
    have hc : c ≠ 10 := by intro h; exact hl (by simp [h])
    have ht : 10 ∉ t := by intro h; exact hl (by simp [h])
    simp [readLine, hc, ih ht]

theorem readLine_tail (t : Bytes) (ht : 10 ∉ t) : readLine t = none := by
  induction t with
  | nil => rfl
  | cons c r ih =>
    have hc : c ≠ 10 := by intro h; exact ht (by simp [h])
    have hr : 10 ∉ r := by intro h; exact ht (by simp [h])
    simp [readLine, hc, ih hr]

/-- a file: newline-terminated lines, then an unterminated rest -/
def fileOf (ls : List Bytes) (tail : Bytes) : Bytes :=
  match ls with
  | [] => tail
  | l :: r => l ++ 10 :: fileOf r tail

/-- the trimmed non-blank lines, in order: what the targeter decodes -/
def nonBlank : List Bytes → List Bytes
  | [] => []
  | l :: r => if trimSpace (l ++ [10]) = [] then nonBlank r else trimSpace (l ++ [10]) :: nonBlank r

theorem fileOf_length (ls : List Bytes) (tail : Bytes) : ls.length ≤ (fileOf ls tail).length := by
  induction ls with
  | nil => simp
  | cons l r ih => simp [fileOf]; omega

/-- the locked region on a file: skip blank lines, deliver the first non-blank one -/
theorem popLine_file (tail : Bytes) (ht : 10 ∉ tail) : ∀ (ls : List Bytes) (fuel : Nat), (∀ l ∈ ls, 10 ∉ l) → ls.length < fuel →
    (nonBlank ls = [] ∧ popLine fuel (fileOf ls tail) = (none, [])) ∨
    (∃ d rest, nonBlank ls = d :: nonBlank rest ∧ (∀ l ∈ rest, 10 ∉ l) ∧ rest.length < ls.length ∧
      popLine fuel (fileOf ls tail) = (some d, fileOf rest tail)) := by
  intro ls
  induction ls with
  | nil =>
    intro fuel _ hf
    left
    cases fuel with
    | zero => omega
    | succ f => simp [nonBlank, fileOf, popLine, readLine_tail tail ht]
  | cons l r ih =>
    intro fuel hls hf
    have hl := hls l (by simp)
    have hr : ∀ x ∈ r, 10 ∉ x := fun x hx => hls x (by simp [hx])
    cases fuel with
    | zero => omega
    | succ f =>
      simp only [fileOf, popLine, readLine_line l hl, nonBlank]
      by_cases hb : trimSpace (l ++ [10]) = []
      · simp only [hb, ↓reduceIte]
        rcases ih f hr (by simp at hf; omega) with ⟨h1, h2⟩ | ⟨d, rest, h1, h2, h3, h4⟩
        · exact Or.inl ⟨h1, h2⟩
        · exact Or.inr ⟨d, rest, h1, h2, by simp; omega, h4⟩
      · simp only [hb, ↓reduceIte]
        exact Or.inr ⟨_, r, rfl, hr, by simp, rfl⟩

/-- **The JSON targeter on a file**: the calls return `finish` of every trimmed non-blank
newline-terminated line, in order, and `ErrNoTargets` ever after; an unterminated last line is
never delivered. -/
theorem calls_file (cfg : Cfg) (tail : Bytes) (ht : 10 ∉ tail) : ∀ (n : Nat) (ls : List Bytes), ls.length ≤ n →
    (∀ l ∈ ls, 10 ∉ l) → ∀ k,
    (calls cfg ((nonBlank ls).length + k) (fileOf ls tail)).1 =
      (nonBlank ls).map (finish cfg) ++ List.replicate k (.error eNoTargets) := by
  intro n
  induction n with
  | zero =>
    intro ls hn hls k
    have : ls = [] := List.length_eq_zero_iff.mp (by omega)
    subst this
    simp only [nonBlank, List.length_nil, Nat.zero_add, List.map_nil, List.nil_append, fileOf]
    induction k with
    | zero => rfl
    | succ k ih =>
      have hp : popLine (tail.length + 1) tail = (none, []) := by simp [popLine, readLine_tail tail ht]
      simp only [calls, call, hp, List.replicate_succ, List.cons.injEq, true_and]
      -- from now on the reader is empty
      have : ∀ j, (calls cfg j []).1 = List.replicate j (.error eNoTargets) := by
        intro j
        induction j with
        | zero => rfl
        | succ j ihj => simp [calls, call, popLine, readLine, ihj, List.replicate_succ]
      exact this k
  | succ n ih =>
    intro ls hn hls k
    have hfuel : ls.length < (fileOf ls tail).length + 1 := by have := fileOf_length ls tail; omega
    rcases popLine_file tail ht ls _ hls hfuel with ⟨h1, h2⟩ | ⟨d, rest, h1, h2, h3, h4⟩
    · rw [h1]
      simp only [List.length_nil, Nat.zero_add, List.map_nil, List.nil_append]
      have : ∀ j, (calls cfg j []).1 = List.replicate j (.error eNoTargets) := by
        intro j
        induction j with
        | zero => rfl
        | succ j ihj => simp [calls, call, popLine, readLine, ihj, List.replicate_succ]
      cases k with
      | zero => rfl
      | succ k => simp only [calls, call, h2, List.replicate_succ, this k]
    · rw [h1]
      simp only [List.length_cons, List.map_cons, List.cons_append]
      rw [show (nonBlank rest).length + 1 + k = ((nonBlank rest).length + k) + 1 by omega]
      simp only [calls, call, h4]
      rw [ih rest (by omega) h2 k]

end Vegeta.Proofs.JSONTargets
