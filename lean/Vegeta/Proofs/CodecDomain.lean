/-
The representable domains of the CSV and JSON result codecs (explicit, decidable predicates),
the stream-level encoders, and what each decoder hands back for an encoded result.
-/
import Vegeta.Model.GobFrame
import Vegeta.Proofs.CodecMIME
namespace Vegeta.Proofs.Codec
open Vegeta.Go Vegeta.Model.Codec

/-- 2201-01-01T00:00:00Z in Unix nanoseconds: timestamps of the domain lie in `[0, tsLimit)`,
i.e. 1970-01-01T00:00:00Z … 2200-12-31T23:59:59.999999999Z -/
def tsLimit : Int := 7289654400000000000

/-- the numeric fields of a `Result` hold values of their Go types, the timestamp is between 1970 and 2200 -/
structure ReprNumbers (r : Result) : Prop where
  seq : r.seq < 2 ^ 64
  code : r.code < 65536
  ts0 : 0 ≤ r.timestamp
  ts1 : r.timestamp < tsLimit
  latency : inS64 r.latency
  bytesOut : r.bytesOut < 2 ^ 64
  bytesIn : r.bytesIn < 2 ^ 64

/-- **the CSV domain**: texts without '\r' (the CSV reader turns "\r\n" inside a quoted field into
"\n", so such a text has no CSV representation at all), a body of bytes, headers as net/http yields
them (`ReprHeaders`: distinct canonical keys, each with ≥ 1 value, values without control bytes and
without leading/trailing blank) -/
structure ReprCSVResult (r : Result) : Prop where
  num : ReprNumbers r
  attack : 13 ∉ r.attack
  error : 13 ∉ r.error
  method : 13 ∉ r.method
  url : 13 ∉ r.url
  body : ∀ x ∈ r.body.getD [], x < 256
  headers : ∀ h, r.headers = some h → ReprHeaders h ∧ ∀ kv ∈ h, ∀ v ∈ kv.2, ∀ c ∈ v, c < 256

/-- **the JSON domain**: every text valid UTF-8 (anything else is replaced by U+FFFD by the writer),
a body of bytes, header maps with distinct keys -/
structure ReprJSONResult (r : Result) : Prop where
  num : ReprNumbers r
  attack : validUTF8 r.attack = true
  error : validUTF8 r.error = true
  method : validUTF8 r.method = true
  url : validUTF8 r.url = true
  body : ∀ b, r.body = some b → ∀ x ∈ b, x < 256
  headers : ∀ h, r.headers = some h → (h.map (·.1)).Nodup ∧
    ∀ kv ∈ h, validUTF8 kv.1 = true ∧ ∀ v ∈ kv.2, validUTF8 v = true

/-- what the CSV decoder returns for an encoded `r`: a nil body comes back empty (equal under
`bytes.Equal`), the header map comes back with its keys in sorted order (the same map) -/
def csvDecoded (r : Result) : Result :=
  { r with body := some (r.body.getD []), headers := r.headers.map sortKV }

/-- all `Encode` calls of a JSON encoder on a stream (`none` if a `MarshalJSON` fails) -/
def encodeJSONAll (offMin : Int) : List Result → Option Bytes
  | [] => some []
  | r :: rs =>
    match encodeJSON offMin r, encodeJSONAll offMin rs with
    | some a, some b => some (a ++ b)
    | _, _ => none

/-- pointwise `Result.Equal` on sequences -/
def equalAll : List Result → List Result → Bool
  | [], [] => true
  | a :: as, b :: bs => a.equal b && equalAll as bs
  | _, _ => false

end Vegeta.Proofs.Codec
