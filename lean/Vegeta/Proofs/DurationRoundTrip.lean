/-
Lemmas about the kit's model of `time.ParseDuration` / `Duration.String`
(`Vegeta.Go.Duration`) used by C19 and C16.
-/
import Vegeta.Go.Duration
namespace Vegeta.Proofs.DurationRoundTrip
open Vegeta.Go Vegeta.Go.Duration

/-- The parse loop never yields the panic outcome. -/
theorem parseLoopF_never_panics : ∀ (fuel : Nat) (s : Bytes) (d : Nat), parseLoopF fuel s d ≠ .panic := by
  intro fuel
  induction fuel with
  | zero => intro s d h; simp [parseLoopF] at h
  | succ k ih =>
    intro s d h
    unfold parseLoopF at h
    simp only [] at h
    repeat' (first | contradiction | exact absurd h (ih _ _) | split at h)

/-- `time.ParseDuration` (model) never panics, whatever the bytes. -/
theorem parse_never_panics (s : Bytes) : parse s ≠ .panic := by
  intro h
  unfold parse at h
  simp only [] at h
  repeat' (first | contradiction | (rename_i hp; exact absurd hp (parseLoopF_never_panics _ _ _)) | split at h)

/-! ### decimal digits -/

def dFrom (acc : Nat) (ds : Bytes) : Nat := ds.foldl (fun n c => n * 10 + (c - 48)) acc
def Digs (ds : Bytes) : Prop := ∀ c ∈ ds, isDigit c = true
/-- the next byte, if any, is not a digit -/
def StopsAt (rest : Bytes) : Prop := ∀ c, rest.head? = some c → isDigit c = false

theorem dFrom_cons (acc c : Nat) (r : Bytes) : dFrom acc (c :: r) = dFrom (acc * 10 + (c - 48)) r := by
  simp [dFrom]

theorem dFrom_ge (ds : Bytes) : ∀ acc, acc ≤ dFrom acc ds := by
  induction ds with
  | nil => intro acc; simp [dFrom]
  | cons c rest ih =>
    intro acc
    have := ih (acc * 10 + (c - 48))
    rw [dFrom_cons]; omega

theorem dFrom_append (a b : Bytes) (acc : Nat) : dFrom acc (a ++ b) = dFrom (dFrom acc a) b := by
  simp [dFrom, List.foldl_append]

theorem digitsRev_spec (fuel : Nat) : ∀ n, n < fuel →
    Digs (digitsRev fuel n) ∧ digitsRev fuel n ≠ [] ∧
    (digitsRev fuel n).foldr (fun c n => n * 10 + (c - 48)) 0 = n := by
  induction fuel with
  | zero => intro n h; omega
  | succ f ih =>
    intro n h
    unfold digitsRev
    by_cases h10 : n < 10
    · simp only [h10, ↓reduceIte]
      refine ⟨?_, by simp, by simp⟩
      intro c hc; simp at hc; subst hc
      simp [isDigit]; omega
    · simp only [h10, ↓reduceIte]
      obtain ⟨h1, h2, h3⟩ := ih (n / 10) (by omega)
      refine ⟨?_, by simp, ?_⟩
      · intro c hc; simp at hc
        rcases hc with rfl | hc
        · simp [isDigit]; omega
        · exact h1 c hc
      · simp only [List.foldr_cons, h3]; omega

theorem fmtNat_spec (n : Nat) : Digs (fmtNat n) ∧ fmtNat n ≠ [] ∧ dFrom 0 (fmtNat n) = n := by
  obtain ⟨h1, h2, h3⟩ := digitsRev_spec (n + 1) n (by omega)
  refine ⟨?_, by simp [fmtNat, h2], ?_⟩
  · intro c hc; simp [fmtNat] at hc; exact h1 c hc
  · simp only [dFrom, fmtNat, List.foldl_reverse]; exact h3

/-- `leadingInt` reads back a run of digits that stays within 2^63 -/
theorem leadingInt_digits (ds rest : Bytes) : ∀ x : Nat, Digs ds → StopsAt rest → dFrom x ds ≤ p63 →
    leadingInt (ds ++ rest) x = some (dFrom x ds, rest) := by
  induction ds with
  | nil =>
    intro x _ hr _
    cases rest with
    | nil => simp [leadingInt, dFrom]
    | cons c r => have := hr c rfl; simp [leadingInt, dFrom, this]
  | cons c r ih =>
    intro x hd hr hle
    have hc : isDigit c = true := hd c (by simp)
    have hd' : Digs r := fun y hy => hd y (by simp [hy])
    rw [dFrom_cons] at hle ⊢
    have hge := dFrom_ge r (x * 10 + (c - 48))
    simp only [List.cons_append, leadingInt, hc, ↓reduceIte]
    have h1 : ¬ x > p63 / 10 := by simp only [p63] at *; omega
    have h2 : ¬ x * 10 + (c - 48) > p63 := by omega
    simp only [h1, h2, ↓reduceIte]
    exact ih _ hd' hr hle

/-- `leadingFraction` reads back a short run of digits: value and digit count -/
theorem leadingFraction_digits (ds rest : Bytes) : ∀ x k : Nat, Digs ds → StopsAt rest → dFrom x ds < 1000000000000000000 →
    leadingFraction (ds ++ rest) x k false = (dFrom x ds, k + ds.length, rest) := by
  induction ds with
  | nil =>
    intro x k _ hr _
    cases rest with
    | nil => simp [leadingFraction, dFrom]
    | cons c r => have := hr c rfl; simp [leadingFraction, dFrom, this]
  | cons c r ih =>
    intro x k hd hr hle
    have hc : isDigit c = true := hd c (by simp)
    have hd' : Digs r := fun y hy => hd y (by simp [hy])
    rw [dFrom_cons] at hle ⊢
    have hge := dFrom_ge r (x * 10 + (c - 48))
    simp only [List.cons_append, leadingFraction, hc, ↓reduceIte, Bool.false_eq_true]
    have h1 : ¬ x > (p63 - 1) / 10 := by simp only [p63] at *; omega
    have h2 : ¬ x * 10 + (c - 48) > p63 := by simp only [p63] at *; omega
    simp only [h1, h2, ↓reduceIte]
    rw [ih _ _ hd' hr hle]
    simp; omega

/-! ### `fmtFrac` -/

theorem pow10_succ_mod (v p : Nat) : v % 10 ^ (p + 1) = v % 10 + 10 * (v / 10 % 10 ^ p) := by
  rw [Nat.pow_succ, Nat.mul_comm, Nat.mod_mul]

theorem pow10_succ_div (v p : Nat) : v / 10 / 10 ^ p = v / 10 ^ (p + 1) := by
  rw [Nat.div_div_eq_div_mul, Nat.pow_succ, Nat.mul_comm]

theorem digit_isDigit (v : Nat) : isDigit (48 + v % 10) = true := by
  simp [isDigit]; omega

/-- `fmtFrac` once a non-zero digit has been seen: all remaining digits are printed -/
theorem fmtFrac_true (p : Nat) : ∀ (v : Nat) (acc : Bytes), ∃ ds : Bytes,
    fmtFrac p v true acc = (46 :: (ds ++ acc), v / 10 ^ p) ∧ Digs ds ∧ ds.length = p ∧ dFrom 0 ds = v % 10 ^ p := by
  induction p with
  | zero => intro v acc; exact ⟨[], by simp [fmtFrac], by intro c hc; simp at hc, rfl, by simp [dFrom, Nat.mod_one]⟩
  | succ p ih =>
    intro v acc
    obtain ⟨ds, h1, h2, h3, h4⟩ := ih (v / 10) ((48 + v % 10) :: acc)
    refine ⟨ds ++ [48 + v % 10], ?_, ?_, by simp [h3], ?_⟩
    · simp only [fmtFrac, Bool.true_or, ↓reduceIte, h1, pow10_succ_div]
      simp
    · intro c hc; simp at hc; rcases hc with hc | rfl
      · exact h2 c hc
      · exact digit_isDigit v
    · rw [dFrom_append, h4, pow10_succ_mod]
      simp [dFrom]; omega

/-- `fmtFrac` from the start: nothing for a zero fraction, otherwise `.` and the fraction's
digits without trailing zeros -/
theorem fmtFrac_false (p : Nat) : ∀ v : Nat,
    (v % 10 ^ p = 0 ∧ fmtFrac p v false [] = ([], v / 10 ^ p)) ∨
    (v % 10 ^ p ≠ 0 ∧ ∃ ds : Bytes, fmtFrac p v false [] = (46 :: ds, v / 10 ^ p) ∧ Digs ds ∧ 1 ≤ ds.length ∧ ds.length ≤ p ∧
      dFrom 0 ds * 10 ^ (p - ds.length) = v % 10 ^ p) := by
  induction p with
  | zero => intro v; exact Or.inl ⟨Nat.mod_one v, by simp [fmtFrac]⟩
  | succ p ih =>
    intro v
    by_cases hd : v % 10 = 0
    · have hstep : fmtFrac (p + 1) v false [] = fmtFrac p (v / 10) false [] := by
        simp [fmtFrac, hd]
      rcases ih (v / 10) with ⟨h1, h2⟩ | ⟨h1, ds, h2, h3, h4, h5, h6⟩
      · refine Or.inl ⟨by rw [pow10_succ_mod, hd, h1], ?_⟩
        rw [hstep, h2, pow10_succ_div]
      · refine Or.inr ⟨by rw [pow10_succ_mod, hd]; omega, ds, ?_, h3, h4, by omega, ?_⟩
        · rw [hstep, h2, pow10_succ_div]
        · have : p + 1 - ds.length = (p - ds.length) + 1 := by omega
          rw [this, Nat.pow_succ, ← Nat.mul_assoc, h6, pow10_succ_mod, hd]; omega
    · have hb : (v % 10 != 0) = true := by simp [hd]
      have hstep : fmtFrac (p + 1) v false [] = fmtFrac p (v / 10) true [48 + v % 10] := by
        simp [fmtFrac, hb]
      obtain ⟨ds, h1, h2, h3, h4⟩ := fmtFrac_true p (v / 10) [48 + v % 10]
      refine Or.inr ⟨by rw [pow10_succ_mod]; omega, ds ++ [48 + v % 10], ?_, ?_, by simp, by simp [h3], ?_⟩
      · rw [hstep, h1, pow10_succ_div]
      · intro c hc; simp at hc; rcases hc with hc | rfl
        · exact h2 c hc
        · exact digit_isDigit v
      · have : p + 1 - (ds ++ [48 + v % 10]).length = 0 := by simp [h3]
        rw [this, dFrom_append, h4, pow10_succ_mod]
        simp [dFrom]; omega

/-! ### one component of the parse loop -/

/-- unit names consist of bytes that are neither digits nor '.' -/
def UnitChars (u : Bytes) : Prop := ∀ c ∈ u, (c == 46 || isDigit c) = false
/-- what follows a component: nothing, or the next component's first digit -/
def NextOK (rest : Bytes) : Prop := ∀ c, rest.head? = some c → isDigit c = true

theorem spanUnit_unit (u rest : Bytes) (hu : UnitChars u) (hr : NextOK rest) : spanUnit (u ++ rest) = (u, rest) := by
  induction u with
  | nil =>
    cases rest with
    | nil => simp [spanUnit]
    | cons c r => have := hr c rfl; simp [spanUnit, this]
  | cons c r ih =>
    have hc := hu c (by simp)
    have := ih (fun x hx => hu x (by simp [hx]))
    simp [spanUnit, hc, this]

theorem unitchars_stops (u rest : Bytes) (hu : UnitChars u) (hne : u ≠ []) : StopsAt (u ++ rest) := by
  intro c hc
  cases u with
  | nil => contradiction
  | cons a r =>
    simp at hc; subst hc
    have := hu a (by simp)
    simp at this; exact this.2

/-- one component without a fraction: `<digits><unit>` adds `v * U` -/
theorem step_int (fuel : Nat) (v : Nat) (u rest : Bytes) (d U : Nat)
    (hu : UnitChars u) (hne : u ≠ []) (hU : unitValue u = some U) (hr : NextOK rest)
    (hv : v ≤ p63) (hvU : ¬ v > p63 / U) (hd : d + v * U ≤ p63) :
    parseLoopF (fuel + 1) (fmtNat v ++ (u ++ rest)) d = parseLoopF fuel rest (d + v * U) := by
  obtain ⟨hdig, hnn, hval⟩ := fmtNat_spec v
  have hli := leadingInt_digits (fmtNat v) (u ++ rest) 0 hdig (unitchars_stops u rest hu hne) (by rw [hval]; exact hv)
  rw [hval] at hli
  obtain ⟨c0, tl, hs⟩ : ∃ c0 tl, fmtNat v = c0 :: tl := by
    cases h : fmtNat v with
    | nil => exact absurd h hnn
    | cons a b => exact ⟨a, b, rfl⟩
  have hc0 : isDigit c0 = true := hdig c0 (by rw [hs]; simp)
  obtain ⟨a, r, hus⟩ : ∃ a r, u = a :: r := by
    cases u with
    | nil => contradiction
    | cons a r => exact ⟨a, r, rfl⟩
  have ha : a ≠ 46 := by
    have := hu a (by rw [hus]; simp)
    simp at this; exact this.1
  conv => lhs; unfold parseLoopF
  rw [hs] at hli ⊢
  simp only [List.cons_append, hc0, Bool.or_true, Bool.not_true, Bool.false_eq_true, ↓reduceIte]
  simp only [List.cons_append] at hli
  rw [hli]
  subst hus
  simp only [List.cons_append]
  split
  · rename_i heq; injection heq with h1 _; exact absurd h1 ha
  · have hsp := spanUnit_unit (a :: r) rest hu hr
    simp only [List.cons_append] at hsp
    have hpre : ((c0 :: (tl ++ a :: (r ++ rest))).length != (a :: (r ++ rest)).length) = true := by
      simp; omega
    simp only [hpre, hsp, hU, hvU, Bool.not_true, Bool.false_and, Bool.false_eq_true, ↓reduceIte, reduceCtorEq,
      Nat.lt_irrefl, gt_iff_lt]
    have hmod : (d + v * U) % two64 = d + v * U := Nat.mod_eq_of_lt (by simp only [p63, two64] at *; omega)
    rw [hmod]
    have : ¬ p63 < d + v * U := by omega
    simp only [this, ↓reduceIte]

/-- Up to 9 accepted digits (all that `Duration.String` ever writes) Go's iterated `scale *= 10` is exactly `10^k`. -/
theorem scalePow_small : ∀ k, k ∈ [0,1,2,3,4,5,6,7,8,9] → scalePow k = F64.ofNat (10 ^ k) := by decide

theorem scalePow_le9 (k : Nat) (h : k ≤ 9) : scalePow k = F64.ofNat (10 ^ k) := by
  apply scalePow_small; simp; omega

/-- one component with a fraction: `<digits>.<digits><unit>` adds `v * U` plus the float
computation of the fraction (`add`) -/
theorem step_frac (fuel : Nat) (v : Nat) (ds u rest : Bytes) (d U add : Nat)
    (hu : UnitChars u) (hne : u ≠ []) (hU : unitValue u = some U) (hr : NextOK rest)
    (hds : Digs ds) (hsmall : dFrom 0 ds < 1000000000000000000) (hf : 0 < dFrom 0 ds) (hlen : ds.length ≤ 9)
    (hadd : (F64.toUInt64 (F64.mul (F64.ofNat (dFrom 0 ds)) (F64.div (F64.ofNat U) (F64.ofNat (10 ^ ds.length))))).toNat = add)
    (hv : v ≤ p63) (hvU : ¬ v > p63 / U) (hd : d + (v * U + add) ≤ p63) :
    parseLoopF (fuel + 1) (fmtNat v ++ 46 :: (ds ++ (u ++ rest))) d = parseLoopF fuel rest (d + (v * U + add)) := by
  obtain ⟨hdig, hnn, hval⟩ := fmtNat_spec v
  have hstop : StopsAt (46 :: (ds ++ (u ++ rest))) := by
    intro c hc; simp at hc; subst hc; decide
  have hli := leadingInt_digits (fmtNat v) (46 :: (ds ++ (u ++ rest))) 0 hdig hstop (by rw [hval]; exact hv)
  rw [hval] at hli
  obtain ⟨c0, tl, hs⟩ : ∃ c0 tl, fmtNat v = c0 :: tl := by
    cases h : fmtNat v with
    | nil => exact absurd h hnn
    | cons a b => exact ⟨a, b, rfl⟩
  have hc0 : isDigit c0 = true := hdig c0 (by rw [hs]; simp)
  have hlf := leadingFraction_digits ds (u ++ rest) 0 0 hds (unitchars_stops u rest hu hne) hsmall
  have hsp := spanUnit_unit u rest hu hr
  conv => lhs; unfold parseLoopF
  rw [hs] at hli ⊢
  simp only [List.cons_append, hc0, Bool.or_true, Bool.not_true, Bool.false_eq_true, ↓reduceIte]
  simp only [List.cons_append] at hli
  rw [hli]
  simp only [hlf, hsp, Nat.zero_add]
  have hpre : ((c0 :: (tl ++ 46 :: (ds ++ (u ++ rest)))).length != (46 :: (ds ++ (u ++ rest))).length) = true := by
    simp; omega
  have hfpos : dFrom 0 ds > 0 := hf
  simp only [hpre, hne, hU, hvU, hfpos, scalePow_le9 _ hlen, hadd, Bool.not_true, Bool.false_and, Bool.false_eq_true, ↓reduceIte]
  have hmod1 : (v * U + add) % two64 = v * U + add := Nat.mod_eq_of_lt (by simp only [p63, two64] at *; omega)
  have hmod : (d + (v * U + add)) % two64 = d + (v * U + add) := Nat.mod_eq_of_lt (by simp only [p63, two64] at *; omega)
  have h1 : ¬ v * U + add > p63 := by omega
  have h2 : ¬ d + (v * U + add) > p63 := by omega
  simp only [hmod1, h1, ↓reduceIte, hmod, h2]

/-! ### SoftF64: small integers are exact -/

/-- shift that normalises `n` into `[2^52, 2^53)` -/
def shiftOf (n : Nat) : Nat := 52 - Nat.log2 n

theorem shiftOf_spec (n : Nat) (h0 : 0 < n) (h : n < 2 ^ 53) :
    Nat.log2 n ≤ 52 ∧ 2 ^ 52 ≤ n * 2 ^ shiftOf n ∧ n * 2 ^ shiftOf n < 2 ^ 53 := by
  have hn : n ≠ 0 := by omega
  have hL : Nat.log2 n < 53 := (Nat.log2_lt hn).mpr h
  have h1 : 2 ^ Nat.log2 n ≤ n := Nat.log2_self_le hn
  have h2 : n < 2 ^ (Nat.log2 n + 1) := Nat.lt_log2_self
  have hs : Nat.log2 n + shiftOf n = 52 := by unfold shiftOf; omega
  refine ⟨by omega, ?_, ?_⟩
  · calc 2 ^ 52 = 2 ^ (Nat.log2 n + shiftOf n) := by rw [hs]
      _ = 2 ^ Nat.log2 n * 2 ^ shiftOf n := Nat.pow_add _ _ _
      _ ≤ n * 2 ^ shiftOf n := Nat.mul_le_mul_right _ h1
  · calc n * 2 ^ shiftOf n < 2 ^ (Nat.log2 n + 1) * 2 ^ shiftOf n :=
          Nat.mul_lt_mul_of_pos_right h2 (Nat.two_pow_pos _)
      _ = 2 ^ (Nat.log2 n + 1 + shiftOf n) := (Nat.pow_add _ _ _).symm
      _ = 2 ^ 53 := by rw [show Nat.log2 n + 1 + shiftOf n = 53 by omega]

theorem log2_mul_pow (n j : Nat) (h0 : 0 < n) : Nat.log2 (n * 2 ^ j) = Nat.log2 n + j := by
  have hn : n ≠ 0 := by omega
  have hnj : n * 2 ^ j ≠ 0 := Nat.mul_ne_zero hn (Nat.ne_of_gt (Nat.two_pow_pos j))
  have h1 : 2 ^ Nat.log2 n ≤ n := Nat.log2_self_le hn
  have h2 : n < 2 ^ (Nat.log2 n + 1) := Nat.lt_log2_self
  apply Nat.le_antisymm
  · have : Nat.log2 (n * 2 ^ j) < Nat.log2 n + j + 1 := by
      rw [Nat.log2_lt hnj]
      calc n * 2 ^ j < 2 ^ (Nat.log2 n + 1) * 2 ^ j := Nat.mul_lt_mul_of_pos_right h2 (Nat.two_pow_pos _)
        _ = 2 ^ (Nat.log2 n + j + 1) := by rw [← Nat.pow_add, show Nat.log2 n + 1 + j = Nat.log2 n + j + 1 by omega]
    omega
  · rw [Nat.le_log2 hnj, Nat.pow_add]
    exact Nat.mul_le_mul_right _ h1

/-- the bit pattern of a positive integer below 2^53 -/
def bitsOf (n : Nat) : Nat := (1074 - shiftOf n) * F64.p52 + n * 2 ^ shiftOf n

/-- rounding `N·2^j / 2^j` is exact for `0 < N < 2^53` -/
theorem roundRat_pow2 (N j : Nat) (h0 : 0 < N) (h : N < 2 ^ 53) :
    F64.roundRat false (N * 2 ^ j) (2 ^ j) = ⟨bitsOf N⟩ := by
  obtain ⟨hL, hlo, hhi⟩ := shiftOf_spec N h0 h
  have hpos : 0 < 2 ^ j := Nat.two_pow_pos j
  have hn0 : (N * 2 ^ j == 0) = false := by
    have : N * 2 ^ j ≠ 0 := Nat.mul_ne_zero (by omega) (by omega)
    simp [this]
  have hd0 : (2 ^ j == 0) = false := by simp
  have hk0 : (52 : Int) - ((F64.log2 (N * 2 ^ j) : Int) - (F64.log2 (2 ^ j) : Int)) = (shiftOf N : Int) := by
    unfold F64.log2
    rw [log2_mul_pow N j h0, Nat.log2_two_pow]
    unfold shiftOf; omega
  have hq0 : N * 2 ^ j * 2 ^ shiftOf N / 2 ^ j = N * 2 ^ shiftOf N := by
    rw [Nat.mul_right_comm, Nat.mul_div_cancel _ hpos]
  have hr0 : N * 2 ^ j * 2 ^ shiftOf N % 2 ^ j = 0 := by
    rw [Nat.mul_right_comm, Nat.mul_mod_left]
  unfold F64.roundRat
  have hge : ((shiftOf N : Int) ≥ 0) := Int.natCast_nonneg _
  have h53 : ¬ (N * 2 ^ shiftOf N ≥ F64.p53) := by simp only [F64.p53]; omega
  have h52 : ¬ (N * 2 ^ shiftOf N < F64.p52) := by simp only [F64.p52]; omega
  have hK : ¬ ((shiftOf N : Int) > 1074) := by unfold shiftOf; omega
  simp only [hn0, hd0, Bool.false_eq_true, ↓reduceIte, hk0, hge, Int.toNat_natCast, hq0, h53, h52, hK, hr0]
  have hz1 : ¬ (2 * 0 > 2 ^ j) := by omega
  have hz2 : ((2 * 0 == 2 ^ j) = true) = False := by simp; omega
  simp only [hz1, hz2, ↓reduceIte]
  have hbody : ((1075 : Int) - (shiftOf N : Int) - 1) * (F64.p52 : Int) + ((N * 2 ^ shiftOf N : Nat) : Int) = ((bitsOf N : Nat) : Int) := by
    unfold bitsOf
    generalize (N * 2 ^ shiftOf N) = X
    have : shiftOf N ≤ 52 := by unfold shiftOf; omega
    have e : ((1075 : Int) - (shiftOf N : Int) - 1) = ((1074 - shiftOf N : Nat) : Int) := by omega
    rw [e, Int.natCast_add, Int.natCast_mul]
  rw [hbody]
  have hlt : ¬ ((bitsOf N : Int) ≥ ((2047 * F64.p52 : Nat) : Int)) := by
    unfold bitsOf
    simp only [F64.p52]
    have : shiftOf N ≤ 52 := by unfold shiftOf; omega
    omega
  simp only [hlt, ↓reduceIte, Int.toNat_natCast, Nat.zero_add]

theorem ofNat_bits (n : Nat) (h0 : 0 < n) (h : n < 2 ^ 53) : F64.ofNat n = ⟨bitsOf n⟩ := by
  have := roundRat_pow2 n 0 h0 h
  simpa [F64.ofNat] using this

/-- the fields of the representation of a positive integer below 2^53 -/
theorem bitsOf_fields (n : Nat) (h0 : 0 < n) (h : n < 2 ^ 53) :
    let x : F64 := ⟨bitsOf n⟩
    x.sign = false ∧ x.isNaN = false ∧ x.isInf = false ∧ x.isZero = false ∧ x.isFinite = true ∧
    x.mant = n * 2 ^ shiftOf n ∧ x.expo = -(shiftOf n : Int) := by
  obtain ⟨hL, hlo, hhi⟩ := shiftOf_spec n h0 h
  have hK : shiftOf n ≤ 52 := by unfold shiftOf; omega
  generalize hM : n * 2 ^ shiftOf n = M at hlo hhi
  have hb : bitsOf n = (1074 - shiftOf n) * F64.p52 + M := by unfold bitsOf; rw [hM]
  simp only []
  have hbexp : (⟨bitsOf n⟩ : F64).bexp = 1075 - shiftOf n := by
    simp only [F64.bexp, hb, F64.p52]; omega
  have hfrac : (⟨bitsOf n⟩ : F64).frac = M - F64.p52 := by
    simp only [F64.frac, hb, F64.p52]; omega
  have hne0 : ((1075 - shiftOf n == 0) = false) := by simp; omega
  have hne47 : ((1075 - shiftOf n == 2047) = false) := by simp; omega
  refine ⟨?_, ?_, ?_, ?_, ?_, ?_, ?_⟩
  · simp only [F64.sign, hb, F64.p52, F64.p63]
    have : ((1074 - shiftOf n) * 4503599627370496 + M) / 9223372036854775808 % 2 = 0 := by omega
    simp [this]
  · simp [F64.isNaN, hbexp, hne47]
  · simp [F64.isInf, hbexp, hne47]
  · simp [F64.isZero, hbexp, hne0]
  · simp [F64.isFinite, hbexp]; omega
  · simp only [F64.mant, hbexp, hne0, hfrac, Bool.false_eq_true, ↓reduceIte, F64.p52]; omega
  · simp only [F64.expo, hbexp, hne0, Bool.false_eq_true, ↓reduceIte]; omega

/-- the product of two positive integers is exact when it stays below 2^53 -/
theorem mul_ofNat (a b : Nat) (ha : 0 < a) (hb : 0 < b) (hab : a * b < 2 ^ 53) :
    F64.mul (F64.ofNat a) (F64.ofNat b) = F64.ofNat (a * b) := by
  have ha53 : a < 2 ^ 53 := Nat.lt_of_le_of_lt (Nat.le_mul_of_pos_right a hb) hab
  have hb53 : b < 2 ^ 53 := Nat.lt_of_le_of_lt (Nat.le_mul_of_pos_left b ha) hab
  have hpos : 0 < a * b := Nat.mul_pos ha hb
  obtain ⟨a1, a2, a3, a4, _, a6, a7⟩ := bitsOf_fields a ha ha53
  obtain ⟨b1, b2, b3, b4, _, b6, b7⟩ := bitsOf_fields b hb hb53
  rw [ofNat_bits a ha ha53, ofNat_bits b hb hb53, ofNat_bits (a * b) hpos hab]
  unfold F64.mul
  simp only [a1, a2, a3, a4, a6, a7, b1, b2, b3, b4, b6, b7, Bool.or_self, Bool.false_eq_true, ↓reduceIte, bne_self_eq_false]
  have hm : a * 2 ^ shiftOf a * (b * 2 ^ shiftOf b) = a * b * 2 ^ (shiftOf a + shiftOf b) := by
    rw [Nat.pow_add]; ac_rfl
  unfold F64.ofScaled
  rw [hm]
  by_cases hz : shiftOf a + shiftOf b = 0
  · have he : (-(shiftOf a : Int) + -(shiftOf b : Int)) ≥ 0 := by omega
    have he0 : (-(shiftOf a : Int) + -(shiftOf b : Int)).toNat = 0 := by omega
    simp only [he, ↓reduceIte, he0, hz]
    have := roundRat_pow2 (a * b) 0 hpos hab
    simpa using this
  · have he : ¬ (-(shiftOf a : Int) + -(shiftOf b : Int)) ≥ 0 := by omega
    have he0 : (-(-(shiftOf a : Int) + -(shiftOf b : Int))).toNat = shiftOf a + shiftOf b := by omega
    simp only [he, ↓reduceIte, he0]
    exact roundRat_pow2 (a * b) _ hpos hab

theorem p63_fields : (F64.ofNat F64.p63).isNaN = false ∧ (F64.ofNat F64.p63).isInf = false ∧ (F64.ofNat F64.p63).sign = false ∧
    (F64.ofNat F64.p63).mant = 2 ^ 52 ∧ (F64.ofNat F64.p63).expo = 11 := by decide

/-- `uint64(float64(n))` is `n` for a positive integer below 2^53 -/
theorem toUInt64_ofNat (n : Nat) (h0 : 0 < n) (h : n < 2 ^ 53) : F64.toUInt64 (F64.ofNat n) = n := by
  obtain ⟨a1, a2, a3, a4, a5, a6, a7⟩ := bitsOf_fields n h0 h
  obtain ⟨c1, c2, c3, c4, c5⟩ := p63_fields
  obtain ⟨hL, hlo, hhi⟩ := shiftOf_spec n h0 h
  rw [ofNat_bits n h0 h]
  have hpk : 0 < 2 ^ shiftOf n := Nat.two_pow_pos _
  have hlt : F64.lt ⟨bitsOf n⟩ (F64.ofNat F64.p63) = true := by
    unfold F64.lt F64.cmpKey
    simp only [a2, a3, c1, c2, c3, a1, c4, c5, a6, a7, Bool.or_self, Bool.false_eq_true, ↓reduceIte]
    have hmin : min (-(shiftOf n : Int)) 11 = -(shiftOf n : Int) := by omega
    simp only [hmin]
    have e1 : (-(shiftOf n : Int) - -(shiftOf n : Int)).toNat = 0 := by omega
    have e2 : ((11 : Int) - -(shiftOf n : Int)).toNat = 11 + shiftOf n := by omega
    simp only [e1, e2, decide_eq_true_eq]
    have h2 : 2 ≤ 2 ^ (11 + shiftOf n) := by
      calc 2 = 2 ^ 1 := rfl
        _ ≤ 2 ^ (11 + shiftOf n) := Nat.pow_le_pow_right (by omega) (by omega)
    have : n * 2 ^ shiftOf n < 2 ^ 52 * 2 ^ (11 + shiftOf n) := by
      calc n * 2 ^ shiftOf n < 2 ^ 53 := hhi
        _ = 2 ^ 52 * 2 := by decide
        _ ≤ 2 ^ 52 * 2 ^ (11 + shiftOf n) := Nat.mul_le_mul_left _ h2
    have this' : n * 2 ^ shiftOf n * 2 ^ 0 < 2 ^ 52 * 2 ^ (11 + shiftOf n) := by simpa using this
    exact_mod_cast this'
  have htr : F64.truncInt ⟨bitsOf n⟩ = n := by
    unfold F64.truncInt
    simp only [a1, a6, a7, Bool.false_eq_true, ↓reduceIte]
    by_cases hz : shiftOf n = 0
    · simp [hz]
    · have : ¬ (-(shiftOf n : Int) ≥ 0) := by omega
      have e : (-(-(shiftOf n : Int))).toNat = shiftOf n := by omega
      simp only [this, ↓reduceIte, e]
      have : ((n * 2 ^ shiftOf n : Nat) : Int) / ((2 : Int) ^ shiftOf n) = n := by
        have : ((2 : Int) ^ shiftOf n) = ((2 ^ shiftOf n : Nat) : Int) := by simp
        rw [this, ← Int.natCast_ediv, Nat.mul_div_cancel _ hpk]
      exact this
  unfold F64.toUInt64
  rw [hlt]
  simp only [↓reduceIte]
  unfold F64.toInt64
  simp only [a5, Bool.not_true, Bool.false_eq_true, ↓reduceIte, htr]
  have hr : minInt64 ≤ (n : Int) ∧ (n : Int) ≤ maxInt64 := by
    simp only [minInt64, maxInt64]; omega
  simp only [hr, and_self, ↓reduceIte]
  exact wrapU64_id (by unfold inU64 two64; omega)

theorem div_pow10_9 : ∀ k, k ∈ [1,2,3,4,5,6,7,8,9] → F64.div (F64.ofNat 1000000000) (F64.ofNat (10 ^ k)) = F64.ofNat (10 ^ (9 - k)) := by decide
theorem div_pow10_6 : ∀ k, k ∈ [1,2,3,4,5,6] → F64.div (F64.ofNat 1000000) (F64.ofNat (10 ^ k)) = F64.ofNat (10 ^ (6 - k)) := by decide
theorem div_pow10_3 : ∀ k, k ∈ [1,2,3] → F64.div (F64.ofNat 1000) (F64.ofNat (10 ^ k)) = F64.ofNat (10 ^ (3 - k)) := by decide

/-! ### the fraction's float arithmetic is exact -/

theorem pow10_lt_2_53 (j : Nat) (hj : j ≤ 9) : 10 ^ j ≤ 1000000000 := by
  calc 10 ^ j ≤ 10 ^ 9 := Nat.pow_le_pow_right (by omega) hj
    _ = 1000000000 := by decide

theorem frac_add_core (U f k p : Nat) (hp : p ≤ 9) (hU : U = 10 ^ p) (hkp : k ≤ p) (hf : 0 < f) (hfk : f < 10 ^ k)
    (hdiv : F64.div (F64.ofNat U) (F64.ofNat (10 ^ k)) = F64.ofNat (10 ^ (p - k))) :
    (F64.toUInt64 (F64.mul (F64.ofNat f) (F64.div (F64.ofNat U) (F64.ofNat (10 ^ k))))).toNat = f * 10 ^ (p - k) := by
  have hpos : 0 < 10 ^ (p - k) := Nat.pow_pos (by omega)
  have hprod : f * 10 ^ (p - k) < 10 ^ p := by
    calc f * 10 ^ (p - k) < 10 ^ k * 10 ^ (p - k) := Nat.mul_lt_mul_of_pos_right hfk hpos
      _ = 10 ^ p := by rw [← Nat.pow_add]; congr 1; omega
  have h53 : f * 10 ^ (p - k) < 2 ^ 53 := by
    have := pow10_lt_2_53 p hp
    omega
  rw [hdiv, mul_ofNat f _ hf hpos h53, toUInt64_ofNat _ (Nat.mul_pos hf hpos) h53]
  exact Int.toNat_natCast _

theorem frac_add_9 (f k : Nat) (hk1 : 1 ≤ k) (hk : k ≤ 9) (hf : 0 < f) (hfk : f < 10 ^ k) :
    (F64.toUInt64 (F64.mul (F64.ofNat f) (F64.div (F64.ofNat 1000000000) (F64.ofNat (10 ^ k))))).toNat = f * 10 ^ (9 - k) :=
  frac_add_core 1000000000 f k 9 (by omega) (by decide) hk hf hfk
    (div_pow10_9 k (by simp; omega))

theorem frac_add_6 (f k : Nat) (hk1 : 1 ≤ k) (hk : k ≤ 6) (hf : 0 < f) (hfk : f < 10 ^ k) :
    (F64.toUInt64 (F64.mul (F64.ofNat f) (F64.div (F64.ofNat 1000000) (F64.ofNat (10 ^ k))))).toNat = f * 10 ^ (6 - k) :=
  frac_add_core 1000000 f k 6 (by omega) (by decide) hk hf hfk
    (div_pow10_6 k (by simp; omega))

theorem frac_add_3 (f k : Nat) (hk1 : 1 ≤ k) (hk : k ≤ 3) (hf : 0 < f) (hfk : f < 10 ^ k) :
    (F64.toUInt64 (F64.mul (F64.ofNat f) (F64.div (F64.ofNat 1000) (F64.ofNat (10 ^ k))))).toNat = f * 10 ^ (3 - k) :=
  frac_add_core 1000 f k 3 (by omega) (by decide) hk hf hfk
    (div_pow10_3 k (by simp; omega))

/-! ### the last component (with the fraction) -/

theorem dFrom_lt_pow (ds : Bytes) : ∀ acc, Digs ds → dFrom acc ds < (acc + 1) * 10 ^ ds.length := by
  induction ds with
  | nil => intro acc _; simp [dFrom]
  | cons c r ih =>
    intro acc hd
    have hc := hd c (by simp)
    have hd' : Digs r := fun y hy => hd y (by simp [hy])
    rw [dFrom_cons]
    have h1 := ih (acc * 10 + (c - 48)) hd'
    have h2 : acc * 10 + (c - 48) + 1 ≤ (acc + 1) * 10 := by
      simp [isDigit] at hc; omega
    calc dFrom (acc * 10 + (c - 48)) r < (acc * 10 + (c - 48) + 1) * 10 ^ r.length := h1
      _ ≤ (acc + 1) * 10 * 10 ^ r.length := Nat.mul_le_mul_right _ h2
      _ = (acc + 1) * 10 ^ (c :: r).length := by rw [List.length_cons, Nat.pow_succ, Nat.mul_assoc, Nat.mul_comm 10]

theorem loop_nil (fuel d : Nat) : parseLoopF (fuel + 1) [] d = .ok d := by
  simp [parseLoopF]

theorem last_component (p U : Nat) (unit : Bytes) (hp9 : p ≤ 9)
    (hu : UnitChars unit) (hne : unit ≠ []) (hUv : unitValue unit = some U)
    (hfa : ∀ f k, 1 ≤ k → k ≤ p → 0 < f → f < 10 ^ k →
      (F64.toUInt64 (F64.mul (F64.ofNat f) (F64.div (F64.ofNat U) (F64.ofNat (10 ^ k))))).toNat = f * 10 ^ (p - k))
    (u0 w d fuel : Nat) (hw : w ≤ p63) (hwU : ¬ w > p63 / U) (hd : d + (w * U + u0 % 10 ^ p) ≤ p63) :
    parseLoopF (fuel + 2) (fmtNat w ++ ((fmtFrac p u0 false []).1 ++ unit)) d = .ok (d + (w * U + u0 % 10 ^ p)) := by
  have hnil : NextOK [] := by intro c hc; simp at hc
  rcases fmtFrac_false p u0 with ⟨hz, hff⟩ | ⟨hnz, ds, hff, hds, hk1, hkp, hval⟩
  · rw [hff, hz]
    simp only [List.nil_append, Nat.add_zero]
    have := step_int (fuel + 1) w unit [] d U hu hne hUv hnil hw hwU (by rw [hz] at hd; simpa using hd)
    simp only [List.append_nil] at this
    rw [this, loop_nil]
  · rw [hff]
    have hfpos : 0 < dFrom 0 ds := by
      rcases Nat.eq_zero_or_pos (dFrom 0 ds) with h0 | h0
      · rw [h0] at hval; simp at hval; exact absurd hval.symm hnz
      · exact h0
    have hflt : dFrom 0 ds < 10 ^ ds.length := by simpa using dFrom_lt_pow ds 0 hds
    have hsmall : dFrom 0 ds < 1000000000000000000 := by
      have : 10 ^ ds.length ≤ 1000000000 := pow10_lt_2_53 _ (by omega)
      omega
    have hadd := hfa (dFrom 0 ds) ds.length hk1 hkp hfpos hflt
    rw [hval] at hadd
    have := step_frac (fuel + 1) w ds unit [] d U (u0 % 10 ^ p) hu hne hUv hnil hds hsmall hfpos (by omega) hadd hw hwU hd
    simp only [List.append_nil] at this
    simp only [List.cons_append]
    rw [this, loop_nil]

/-! ### `ParseDuration(d.String()) = d` -/

def uNs : Bytes := [110, 115]
def uUs : Bytes := [194, 181, 115]
def uMs : Bytes := [109, 115]
def uS : Bytes := [115]
def uM : Bytes := [109]
def uH : Bytes := [104]

theorem units_ok :
    (UnitChars uNs ∧ unitValue uNs = some 1) ∧ (UnitChars uUs ∧ unitValue uUs = some 1000) ∧
    (UnitChars uMs ∧ unitValue uMs = some 1000000) ∧ (UnitChars uS ∧ unitValue uS = some 1000000000) ∧
    (UnitChars uM ∧ unitValue uM = some 60000000000) ∧ (UnitChars uH ∧ unitValue uH = some 3600000000000) := by
  unfold UnitChars; decide

/-- the text `Duration.String` produces for a positive duration of `u` nanoseconds -/
def body (u : Nat) : Bytes :=
  if u < 1000000000 then
    if u < 1000 then fmtNat u ++ uNs
    else if u < 1000000 then fmtNat (fmtFrac 3 u false []).2 ++ ((fmtFrac 3 u false []).1 ++ uUs)
    else fmtNat (fmtFrac 6 u false []).2 ++ ((fmtFrac 6 u false []).1 ++ uMs)
  else
    let secs := (fmtFrac 9 u false []).2
    let sPart := fmtNat (secs % 60) ++ ((fmtFrac 9 u false []).1 ++ uS)
    let mins := secs / 60
    if mins > 0 then
      let mPart := fmtNat (mins % 60) ++ (uM ++ sPart)
      let hrs := mins / 60
      if hrs > 0 then fmtNat hrs ++ (uH ++ mPart) else mPart
    else sPart

theorem toString_pos (u : Nat) (h0 : 0 < u) (hmax : u ≤ 9223372036854775807) : Duration.toString (u : Int) = body u := by
  have hneg : ¬ ((u : Int) < 0) := by omega
  have hw : (wrapU64 (u : Int)).toNat = u := by
    rw [wrapU64_id (by unfold inU64 two64; omega)]; exact Int.toNat_natCast u
  have hu0 : (u == 0) = false := by simp; omega
  unfold Duration.toString body
  simp only [hneg, Bool.false_eq_true, ↓reduceIte, hw, hu0, uNs, uUs, uMs, uS, uM, uH,
    List.append_assoc]

theorem fmtFrac_snd (p v : Nat) : (fmtFrac p v false []).2 = v / 10 ^ p := by
  rcases fmtFrac_false p v with ⟨_, h⟩ | ⟨_, ds, h, _⟩ <;> rw [h]

theorem nextok_fmtNat (x : Nat) (t : Bytes) : NextOK (fmtNat x ++ t) := by
  obtain ⟨hd, hn, _⟩ := fmtNat_spec x
  intro c hc
  cases h : fmtNat x with
  | nil => exact absurd h hn
  | cons a b =>
    rw [h] at hc; simp at hc; subst hc
    exact hd a (by rw [h]; simp)

theorem fmtNat_len (x : Nat) : 1 ≤ (fmtNat x).length := by
  obtain ⟨_, hn, _⟩ := fmtNat_spec x
  cases h : fmtNat x with
  | nil => exact absurd h hn
  | cons a b => simp

/-- from the loop's result to `ParseDuration`'s, for a text that starts with a digit -/
theorem parse_of_loop (s : Bytes) (u : Nat) (x : Nat) (t : Bytes) (hs : s = fmtNat x ++ t) (ht : t ≠ [])
    (hu : u ≤ p63 - 1) (hloop : parseLoop s 0 = .ok u) : parse s = .ok (u : Int) := by
  obtain ⟨hd, hn, _⟩ := fmtNat_spec x
  obtain ⟨c0, tl, hc⟩ : ∃ c0 tl, fmtNat x = c0 :: tl := by
    cases h : fmtNat x with
    | nil => exact absurd h hn
    | cons a b => exact ⟨a, b, rfl⟩
  have hc0 : isDigit c0 = true := hd c0 (by rw [hc]; simp)
  have h45 : c0 ≠ 45 ∧ c0 ≠ 43 := by simp [isDigit] at hc0; omega
  have hs' : s = c0 :: (tl ++ t) := by rw [hs, hc]; rfl
  have htl : tl ++ t ≠ [] := by simp [ht]
  unfold parse
  subst hs'
  split
  · rename_i heq
    split at heq
    · rename_i h2; injection h2 with h3 _; exact absurd h3 h45.1
    · rename_i h2; injection h2 with h3 _; exact absurd h3 h45.2
    · injection heq with hneg hs1
      subst hneg; subst hs1
      have h1 : ((c0 :: (tl ++ t)) == [48]) = false := by
        cases hh : tl ++ t with
        | nil => exact absurd hh htl
        | cons a b => simp
      have h2 : ((c0 :: (tl ++ t)) == ([] : Bytes)) = false := by simp
      simp only [h1, h2, Bool.false_eq_true, ↓reduceIte, hloop]
      have : ¬ u > p63 - 1 := by omega
      simp only [this, ↓reduceIte]

set_option linter.unusedSimpArgs false in
theorem loop_body (u : Nat) (h0 : 0 < u) (hmax : u ≤ 9223372036854775807) : parseLoop (body u) 0 = .ok u := by
  obtain ⟨⟨cNs, vNs⟩, ⟨cUs, vUs⟩, ⟨cMs, vMs⟩, ⟨cS, vS⟩, ⟨cM, vM⟩, ⟨cH, vH⟩⟩ := units_ok
  have hnil : NextOK [] := by intro c hc; simp at hc
  unfold parseLoop body
  by_cases h9 : u < 1000000000
  · simp only [h9, ↓reduceIte]
    by_cases h3 : u < 1000
    · simp only [h3, ↓reduceIte]
      have hl := fmtNat_len u
      obtain ⟨n, hn⟩ : ∃ n, (fmtNat u ++ uNs).length + 1 = n + 2 := ⟨(fmtNat u ++ uNs).length - 1, by simp only [List.length_append, uNs, uUs, uMs, uS, uM, uH, List.length_cons, List.length_nil]; omega⟩
      rw [hn]
      have := step_int (n + 1) u uNs [] 0 1 cNs (by decide) vNs hnil (by simp only [p63]; omega) (by simp only [p63]; omega)
        (by simp only [p63]; omega)
      simp only [List.append_nil] at this
      rw [this, loop_nil]; simp
    · simp only [h3, ↓reduceIte]
      by_cases h6 : u < 1000000
      · simp only [h6, ↓reduceIte, fmtFrac_snd]
        have hl := fmtNat_len (u / 10 ^ 3)
        obtain ⟨n, hn⟩ : ∃ n, (fmtNat (u / 10 ^ 3) ++ ((fmtFrac 3 u false []).1 ++ uUs)).length + 1 = n + 2 :=
          ⟨(fmtNat (u / 10 ^ 3) ++ ((fmtFrac 3 u false []).1 ++ uUs)).length - 1, by simp only [List.length_append, uNs, uUs, uMs, uS, uM, uH, List.length_cons, List.length_nil]; omega⟩
        rw [hn]
        have := last_component 3 1000 uUs (by omega) cUs (by decide) vUs (fun f k h1 h2 h3 h4 => frac_add_3 f k h1 h2 h3 h4)
          u (u / 10 ^ 3) 0 n (by simp only [p63]; omega) (by simp only [p63]; omega) (by simp only [p63]; omega)
        rw [this]; congr 1; omega
      · simp only [h6, ↓reduceIte, fmtFrac_snd]
        have hl := fmtNat_len (u / 10 ^ 6)
        obtain ⟨n, hn⟩ : ∃ n, (fmtNat (u / 10 ^ 6) ++ ((fmtFrac 6 u false []).1 ++ uMs)).length + 1 = n + 2 :=
          ⟨(fmtNat (u / 10 ^ 6) ++ ((fmtFrac 6 u false []).1 ++ uMs)).length - 1, by simp only [List.length_append, uNs, uUs, uMs, uS, uM, uH, List.length_cons, List.length_nil]; omega⟩
        rw [hn]
        have := last_component 6 1000000 uMs (by omega) cMs (by decide) vMs (fun f k h1 h2 h3 h4 => frac_add_6 f k h1 h2 h3 h4)
          u (u / 10 ^ 6) 0 n (by simp only [p63]; omega) (by simp only [p63]; omega) (by simp only [p63]; omega)
        rw [this]; congr 1; omega
  · simp only [h9, ↓reduceIte, fmtFrac_snd]
    -- seconds component, reached with `d` already accumulated
    have hsec : ∀ (d n : Nat), d + (u / 10 ^ 9 % 60 * 1000000000 + u % 10 ^ 9) ≤ p63 →
        parseLoopF (n + 2) (fmtNat (u / 10 ^ 9 % 60) ++ ((fmtFrac 9 u false []).1 ++ uS)) d =
          .ok (d + (u / 10 ^ 9 % 60 * 1000000000 + u % 10 ^ 9)) := by
      intro d n hd
      exact last_component 9 1000000000 uS (by omega) cS (by decide) vS (fun f k h1 h2 h3 h4 => frac_add_9 f k h1 h2 h3 h4)
        u (u / 10 ^ 9 % 60) d n (by simp only [p63]; omega) (by simp only [p63]; omega) hd
    by_cases hm : u / 10 ^ 9 / 60 > 0
    · simp only [hm, ↓reduceIte]
      by_cases hh : u / 10 ^ 9 / 60 / 60 > 0
      · simp only [hh, ↓reduceIte]
        have l1 := fmtNat_len (u / 10 ^ 9 / 60 / 60)
        have l2 := fmtNat_len (u / 10 ^ 9 / 60 % 60)
        have l3 := fmtNat_len (u / 10 ^ 9 % 60)
        generalize hS : fmtNat (u / 10 ^ 9 % 60) ++ ((fmtFrac 9 u false []).1 ++ uS) = sPart at hsec
        obtain ⟨n, hn⟩ : ∃ n, (fmtNat (u / 10 ^ 9 / 60 / 60) ++ (uH ++ (fmtNat (u / 10 ^ 9 / 60 % 60) ++ (uM ++ sPart)))).length + 1 = n + 4 :=
          ⟨(fmtNat (u / 10 ^ 9 / 60 / 60) ++ (uH ++ (fmtNat (u / 10 ^ 9 / 60 % 60) ++ (uM ++ sPart)))).length - 3, by
            simp only [List.length_append, uNs, uUs, uMs, uS, uM, uH, List.length_cons, List.length_nil]; omega⟩
        rw [hn]
        have hsp : NextOK sPart := by rw [← hS]; exact nextok_fmtNat _ _
        rw [step_int (n + 3) (u / 10 ^ 9 / 60 / 60) uH _ 0 3600000000000 cH (by decide) vH (nextok_fmtNat _ _)
          (by simp only [p63]; omega) (by simp only [p63]; omega) (by simp only [p63]; omega)]
        rw [step_int (n + 2) (u / 10 ^ 9 / 60 % 60) uM sPart _ 60000000000 cM (by decide) vM hsp
          (by simp only [p63]; omega) (by simp only [p63]; omega) (by simp only [p63]; omega)]
        rw [hsec _ n (by simp only [p63]; omega)]
        congr 1; omega
      · simp only [hh, ↓reduceIte]
        have l2 := fmtNat_len (u / 10 ^ 9 / 60 % 60)
        generalize hS : fmtNat (u / 10 ^ 9 % 60) ++ ((fmtFrac 9 u false []).1 ++ uS) = sPart at hsec
        obtain ⟨n, hn⟩ : ∃ n, (fmtNat (u / 10 ^ 9 / 60 % 60) ++ (uM ++ sPart)).length + 1 = n + 3 :=
          ⟨(fmtNat (u / 10 ^ 9 / 60 % 60) ++ (uM ++ sPart)).length - 2, by simp only [List.length_append, uNs, uUs, uMs, uS, uM, uH, List.length_cons, List.length_nil]; omega⟩
        rw [hn]
        have hsp : NextOK sPart := by rw [← hS]; exact nextok_fmtNat _ _
        rw [step_int (n + 2) (u / 10 ^ 9 / 60 % 60) uM sPart _ 60000000000 cM (by decide) vM hsp
          (by simp only [p63]; omega) (by simp only [p63]; omega) (by simp only [p63]; omega)]
        rw [hsec _ n (by simp only [p63]; omega)]
        congr 1; omega
    · simp only [hm, ↓reduceIte]
      have l3 := fmtNat_len (u / 10 ^ 9 % 60)
      obtain ⟨n, hn⟩ : ∃ n, (fmtNat (u / 10 ^ 9 % 60) ++ ((fmtFrac 9 u false []).1 ++ uS)).length + 1 = n + 2 :=
        ⟨(fmtNat (u / 10 ^ 9 % 60) ++ ((fmtFrac 9 u false []).1 ++ uS)).length - 1, by simp only [List.length_append, uNs, uUs, uMs, uS, uM, uH, List.length_cons, List.length_nil]; omega⟩
      rw [hn, hsec 0 n (by simp only [p63]; omega)]
      congr 1; omega

/-- **`time.ParseDuration(d.String()) = d`** for every positive duration (model of Go's
functions, including the float64 arithmetic of the fraction). -/
theorem parse_toString (d : Int) (h0 : 0 < d) (hmax : d ≤ maxInt64) : parse (Duration.toString d) = .ok d := by
  obtain ⟨u, rfl⟩ : ∃ u : Nat, d = u := ⟨d.toNat, by omega⟩
  have hu0 : 0 < u := by omega
  have hum : u ≤ 9223372036854775807 := by simp only [maxInt64] at hmax; omega
  rw [toString_pos u hu0 hum]
  have hloop := loop_body u hu0 hum
  -- the text starts with the digits of some number and continues with a unit
  have hshape : ∃ x t, body u = fmtNat x ++ t ∧ t ≠ [] := by
    unfold body
    split
    · split
      · exact ⟨_, _, rfl, by decide⟩
      · split
        · exact ⟨_, _, rfl, by simp [uUs]⟩
        · exact ⟨_, _, rfl, by simp [uMs]⟩
    · simp only []
      split
      · split
        · exact ⟨_, _, rfl, by simp [uH]⟩
        · exact ⟨_, _, rfl, by simp [uM]⟩
      · exact ⟨_, _, rfl, by simp [uS]⟩
  obtain ⟨x, t, hb, ht⟩ := hshape
  exact parse_of_loop (body u) u x t hb ht (by simp only [p63]; omega) hloop

end Vegeta.Proofs.DurationRoundTrip
