/-
Float-level lemmas for property C11, about SoftF64 (`Vegeta.Go.F64`) itself — no hypothesis about
IEEE-754 is assumed, everything is derived from the definitions of `F64.add/sub/mul/roundRat` and of
`goMax/goMin`:

* `clamp_float64`  : `math.Max(v, math.Min(x, v))` is `v`, or NaN when `x` is NaN — for ALL `x`;
* `interp_float64` : `v + t·(v − v)` is `v`, or NaN when `t` is NaN or infinite — for ALL `t`;

for every finite non-zero `v` (with a 64-bit pattern).  The second needs that rounding an exactly
representable value returns its own encoding (`aux_roundRat_normal`, `aux_roundRat_subnormal`).
-/
import Vegeta.Model.Quantile
import Mathlib.Tactic.Linarith
import Mathlib.Tactic.Ring
import Mathlib.Tactic.Positivity
namespace Vegeta.Proofs.QuantileF64
open Vegeta.Go Vegeta.Model.Quantile

set_option linter.unusedSimpArgs false

/-- `math.Max(v, math.Min(x, v))` over SoftF64 is `v` for every finite non-zero `v` and EVERY `x`, except
that it is NaN when `x` is NaN. -/
theorem clamp_float64 (v x : F64) (hn : v.isNaN = false) (hi : v.isInf = false) (hz : v.isZero = false) :
    goMax v (goMin x v) = v ∨ (goMax v (goMin x v)).isNaN = true := by
  by_cases hxn : x.isNaN = true
  · right
    have : goMin x v = F64.nan := by
      unfold goMin
      simp [hxn, hi]
      intro h1 _
      -- a NaN is not an infinity
      unfold F64.isNaN at hxn; unfold F64.isInf at h1
      simp at hxn h1
      omega
    rw [this]
    unfold goMax
    have e1 : F64.nan.isInf = false := by decide
    have e2 : F64.nan.isNaN = true := by decide
    simp [hi, hn, e1, e2]
  · left
    simp only [Bool.not_eq_true] at hxn
    by_cases hxm : (x.isInf && x.sign) = true
    · have : goMin x v = F64.inf true := by unfold goMin; simp [hxm]
      rw [this]
      unfold goMax
      have e1 : (F64.inf true).isInf = true := by decide
      have e2 : (F64.inf true).sign = true := by decide
      have e3 : (F64.inf true).isNaN = false := by decide
      have e4 : F64.lt (F64.inf true) v = true := by unfold F64.lt; simp [e1, e2, e3, hn, hi]
      simp [hi, hn, hz, e1, e2, e3, e4]
    · simp only [Bool.not_eq_true] at hxm
      by_cases hlt : F64.lt x v = true
      · have : goMin x v = x := by unfold goMin; simp [hxm, hi, hxn, hn, hz, hlt]
        rw [this]
        have hxp : (x.isInf && !x.sign) = false := by
          cases hxi : x.isInf with
          | false => simp
          | true =>
            cases hxs : x.sign with
            | true => simp
            | false =>
              exfalso
              unfold F64.lt at hlt
              simp [hxn, hn, hxi, hxs] at hlt
        unfold goMax
        simp [hi, hn, hz, hxn, hxp, hlt]
      · simp only [Bool.not_eq_true] at hlt
        have : goMin x v = v := by unfold goMin; simp [hxm, hi, hxn, hn, hz, hlt]
        rw [this]
        unfold goMax
        simp [hi, hn, hz]

theorem aux_neg_bexp (v : F64) : (F64.neg v).bexp = v.bexp := by
  unfold F64.neg F64.bexp F64.sign
  simp only [F64.p52, F64.p63, beq_iff_eq]
  split <;> simp only <;> omega

theorem aux_neg_frac (v : F64) : (F64.neg v).frac = v.frac := by
  unfold F64.neg F64.frac F64.sign
  simp only [F64.p52, F64.p63, beq_iff_eq]
  split <;> simp only <;> omega

theorem aux_neg_sign (v : F64) : (F64.neg v).sign = !v.sign := by
  unfold F64.neg
  cases h : v.sign with
  | true =>
    simp only [↓reduceIte, Bool.not_true]
    unfold F64.sign at h ⊢
    simp only [F64.p63, beq_iff_eq, beq_eq_false_iff_ne, ne_eq] at h ⊢
    omega
  | false =>
    simp only [Bool.false_eq_true, ↓reduceIte, Bool.not_false]
    unfold F64.sign at h ⊢
    simp only [F64.p63, beq_iff_eq, beq_eq_false_iff_ne, ne_eq] at h ⊢
    omega

theorem aux_neg_isNaN (v : F64) : (F64.neg v).isNaN = v.isNaN := by
  unfold F64.isNaN; rw [aux_neg_bexp, aux_neg_frac]
theorem aux_neg_isInf (v : F64) : (F64.neg v).isInf = v.isInf := by
  unfold F64.isInf; rw [aux_neg_bexp, aux_neg_frac]
theorem aux_neg_mant (v : F64) : (F64.neg v).mant = v.mant := by
  unfold F64.mant; rw [aux_neg_bexp, aux_neg_frac]
theorem aux_neg_expo (v : F64) : (F64.neg v).expo = v.expo := by
  unfold F64.expo; rw [aux_neg_bexp]

/-- `v - v = +0` for every finite `v` -/
theorem aux_sub_self (v : F64) (hn : v.isNaN = false) (hi : v.isInf = false) : F64.sub v v = F64.posZero := by
  unfold F64.sub F64.add
  simp only [aux_neg_isNaN, aux_neg_isInf, aux_neg_mant, aux_neg_expo, aux_neg_sign, hn, hi, Bool.or_self,
    Bool.false_eq_true, ↓reduceIte, min_self, Int.sub_self, Int.toNat_zero, Nat.pow_zero, Int.mul_one]
  cases v.sign <;> simp

theorem aux_mul_posZero (t : F64) :
    F64.mul t F64.posZero = F64.nan ∨ F64.mul t F64.posZero = F64.posZero ∨ F64.mul t F64.posZero = F64.negZero := by
  unfold F64.mul
  have e1 : F64.posZero.isNaN = false := by decide
  have e2 : F64.posZero.isInf = false := by decide
  have e3 : F64.posZero.isZero = true := by decide
  simp only [e1, e2, e3, Bool.or_false, Bool.or_true, ↓reduceIte]
  by_cases h1 : t.isNaN = true
  · simp [h1]
  · by_cases h2 : t.isInf = true
    · simp [h1, h2]
    · simp only [h1, h2, Bool.false_eq_true, ↓reduceIte]
      unfold F64.zero
      split <;> simp

theorem aux_add_nan (v : F64) : F64.add v F64.nan = F64.nan := by
  unfold F64.add
  have : F64.nan.isNaN = true := by decide
  simp [this]
theorem aux_log2_scaled (M j L : Nat) (h1 : 2 ^ L ≤ M) (h2 : M < 2 ^ (L+1)) : F64.log2 (M * 2 ^ j) = L + j := by
  unfold F64.log2
  have hpos : 0 < 2 ^ j := Nat.pow_pos (by omega)
  have hM : 0 < M := lt_of_lt_of_le (Nat.pow_pos (by omega)) h1
  rw [Nat.log2_eq_iff (by positivity)]
  constructor
  · rw [Nat.pow_add]; exact Nat.mul_le_mul_right _ h1
  · have : 2 ^ (L + j + 1) = 2 ^ (L+1) * 2 ^ j := by rw [← Nat.pow_add]; congr 1; omega
    rw [this]; exact Nat.mul_lt_mul_of_pos_right h2 hpos

/-- rounding an exactly representable normal value returns its encoding -/
theorem aux_roundRat_normal (sg : Bool) (f j E : Nat) (hE : E = 1074) (hf : f < F64.p52) (hj : j ≤ 2045) :
    F64.roundRat sg ((F64.p52 + f) * 2 ^ j) (2 ^ E) = ⟨(if sg then F64.p63 else 0) + ((j + 1) * F64.p52 + f)⟩ := by
  have hM1 : 2 ^ 52 ≤ F64.p52 + f := by unfold F64.p52; omega
  have hM2 : F64.p52 + f < 2 ^ 53 := by unfold F64.p52 at hf ⊢; omega
  have hlogn := aux_log2_scaled (F64.p52 + f) j 52 hM1 hM2
  have hlogd : F64.log2 (2 ^ E) = E := by unfold F64.log2; exact Nat.log2_two_pow
  have hn0 : ((F64.p52 + f) * 2 ^ j == 0) = false := by
    rw [beq_eq_false_iff_ne]; positivity
  have hd0 : ((2:Nat) ^ E == 0) = false := by
    rw [beq_eq_false_iff_ne]; positivity
  subst hE
  have hK : (52 : Int) - (((52 + j : Nat) : Int) - ((1074 : Nat) : Int)) = 1074 - (j : Int) := by push_cast; ring
  have hpj : 0 < 2 ^ j := Nat.pow_pos (by omega)
  -- the first quotient is the significand itself
  have hq0 : (if (1074 : Int) - (j : Int) ≥ 0 then (F64.p52 + f) * 2 ^ j * 2 ^ ((1074 : Int) - (j : Int)).toNat / 2 ^ 1074
      else (F64.p52 + f) * 2 ^ j / (2 ^ 1074 * 2 ^ (-((1074 : Int) - (j : Int))).toNat)) = F64.p52 + f := by
    split
    · rename_i h
      have e : ((1074 : Int) - (j : Int)).toNat = 1074 - j := by omega
      rw [e, Nat.mul_assoc, ← Nat.pow_add]
      have : j + (1074 - j) = 1074 := by omega
      rw [this]
      exact Nat.mul_div_cancel _ (Nat.pow_pos (by omega))
    · rename_i h
      have e : (-((1074 : Int) - (j : Int))).toNat = j - 1074 := by omega
      rw [e, ← Nat.pow_add]
      have : 1074 + (j - 1074) = j := by omega
      rw [this]
      exact Nat.mul_div_cancel _ hpj
  have hge : ¬ (F64.p52 + f ≥ F64.p53) := by unfold F64.p53 F64.p52 at *; omega
  have hlt : ¬ (F64.p52 + f < F64.p52) := by omega
  have hk : ¬ ((1074 : Int) - (j : Int) > 1074) := by omega
  have hnum : (if (1074 : Int) - (j : Int) ≥ 0 then (F64.p52 + f) * 2 ^ j * 2 ^ ((1074 : Int) - (j : Int)).toNat
      else (F64.p52 + f) * 2 ^ j) = (F64.p52 + f) * 2 ^ (max j 1074) := by
    split
    · have e : ((1074 : Int) - (j : Int)).toNat = 1074 - j := by omega
      rw [e, Nat.mul_assoc, ← Nat.pow_add]
      have e1 : j + (1074 - j) = 1074 := by omega
      have e2 : max j 1074 = 1074 := by omega
      rw [e1, e2]
    · have e2 : max j 1074 = j := by omega
      rw [e2]
  have hden : (if (1074 : Int) - (j : Int) ≥ 0 then 2 ^ 1074 else 2 ^ 1074 * 2 ^ (-((1074 : Int) - (j : Int))).toNat)
      = 2 ^ (max j 1074) := by
    split
    · have e2 : max j 1074 = 1074 := by omega
      rw [e2]
    · have e : (-((1074 : Int) - (j : Int))).toNat = j - 1074 := by omega
      have e1 : 1074 + (j - 1074) = j := by omega
      have e2 : max j 1074 = j := by omega
      rw [e, ← Nat.pow_add, e1, e2]
  have hD : 0 < 2 ^ (max j 1074) := Nat.pow_pos (by omega)
  unfold F64.roundRat
  rw [hn0, hd0, hlogn, hlogd]
  simp only [Bool.false_eq_true, ↓reduceIte, hK, hq0, hge, hlt, hk, hnum, hden,
    Nat.mul_div_cancel _ hD, Nat.mul_mod_left, Nat.mul_mod_left]
  have h1 : ¬ (2 * 0 > 2 ^ max j 1074) := by omega
  have h2 : ((2 * 0 == 2 ^ max j 1074) = true) = False := by
    simp only [Nat.mul_zero, beq_iff_eq, eq_iff_iff, iff_false]; omega
  simp only [h1, h2, ↓reduceIte]
  have h3 : ¬ ((1075 - (1074 - (j:Int)) - 1) * (F64.p52 : Int) + ((F64.p52 + f : Nat) : Int) ≥ ((2047 * F64.p52 : Nat) : Int)) := by
    unfold F64.p52 at *; push_cast; omega
  simp only [h3, ↓reduceIte]
  have h4 : ((1075 - (1074 - (j:Int)) - 1) * (F64.p52 : Int) + ((F64.p52 + f : Nat) : Int)).toNat = (j + 1) * F64.p52 + f := by
    unfold F64.p52 at *; push_cast; omega
  rw [h4]

/-- rounding an exactly representable subnormal value returns its encoding -/
theorem aux_roundRat_subnormal (sg : Bool) (f : Nat) (hf0 : 0 < f) (hf : f < F64.p52) :
    F64.roundRat sg f (2 ^ 1074) = ⟨(if sg then F64.p63 else 0) + f⟩ := by
  obtain ⟨L, hL⟩ : ∃ L, F64.log2 f = L := ⟨_, rfl⟩
  have hb : 2 ^ L ≤ f ∧ f < 2 ^ (L + 1) := by
    unfold F64.log2 at hL
    exact (Nat.log2_eq_iff (by omega)).mp hL
  have hL51 : L ≤ 51 := by
    by_contra h
    have : 2 ^ 52 ≤ 2 ^ L := Nat.pow_le_pow_right (by omega) (by omega)
    unfold F64.p52 at hf; omega
  have hlogd : F64.log2 (2 ^ 1074) = 1074 := by unfold F64.log2; exact Nat.log2_two_pow
  have hn0 : (f == 0) = false := by rw [beq_eq_false_iff_ne]; omega
  have hd0 : ((2:Nat) ^ 1074 == 0) = false := by rw [beq_eq_false_iff_ne]; positivity
  have hK : (52 : Int) - ((L : Int) - ((1074 : Nat) : Int)) = 1126 - (L : Int) := by push_cast; ring
  have hq0 : (if (1126 : Int) - (L : Int) ≥ 0 then f * 2 ^ ((1126 : Int) - (L : Int)).toNat / 2 ^ 1074
      else f / (2 ^ 1074 * 2 ^ (-((1126 : Int) - (L : Int))).toNat)) = f * 2 ^ (52 - L) := by
    have hc : (1126 : Int) - (L : Int) ≥ 0 := by omega
    simp only [hc, ↓reduceIte]
    have e : ((1126 : Int) - (L : Int)).toNat = (52 - L) + 1074 := by omega
    rw [e, Nat.pow_add, ← Nat.mul_assoc]
    exact Nat.mul_div_cancel _ (Nat.pow_pos (by omega))
  have hq0lo : ¬ (f * 2 ^ (52 - L) < F64.p52) := by
    have : 2 ^ L * 2 ^ (52 - L) ≤ f * 2 ^ (52 - L) := Nat.mul_le_mul_right _ hb.1
    rw [← Nat.pow_add] at this
    have e : L + (52 - L) = 52 := by omega
    rw [e] at this
    unfold F64.p52; omega
  have hq0hi : ¬ (f * 2 ^ (52 - L) ≥ F64.p53) := by
    have : f * 2 ^ (52 - L) < 2 ^ (L+1) * 2 ^ (52 - L) := Nat.mul_lt_mul_of_pos_right hb.2 (Nat.pow_pos (by omega))
    rw [← Nat.pow_add] at this
    have e : L + 1 + (52 - L) = 53 := by omega
    rw [e] at this
    unfold F64.p53; omega
  have hk : ((1126 : Int) - (L : Int) > 1074) := by omega
  have hD : 0 < 2 ^ 1074 := Nat.pow_pos (by omega)
  unfold F64.roundRat
  rw [hn0, hd0, hL, hlogd]
  simp only [Bool.false_eq_true, ↓reduceIte, hK, hq0, hq0lo, hq0hi, hk]
  have hc : ((1074 : Int) ≥ 0) := by omega
  have ht : Int.toNat 1074 = 1074 := rfl
  simp only [hc, ↓reduceIte, ht, Nat.mul_div_cancel _ hD, Nat.mul_mod_left]
  have h1 : ¬ (2 * 0 > 2 ^ 1074) := by omega
  have h2 : ((2 * 0 == 2 ^ 1074) = true) = False := by
    simp only [Nat.mul_zero, beq_iff_eq, eq_iff_iff, iff_false]; omega
  simp only [h1, h2, ↓reduceIte]
  have h3 : ¬ (((1075 : Int) - 1074 - 1) * (F64.p52 : Int) + (f : Int) ≥ ((2047 * F64.p52 : Nat) : Int)) := by
    unfold F64.p52 at *; push_cast; omega
  simp only [h3, ↓reduceIte]
  have h4 : (((1075 : Int) - 1074 - 1) * (F64.p52 : Int) + (f : Int)).toNat = f := by omega
  rw [h4]

theorem aux_bits_decomp (v : F64) (hb : v.bits < 2 ^ 64) :
    v.bits = (if v.sign then F64.p63 else 0) + (v.bexp * F64.p52 + v.frac) := by
  unfold F64.sign F64.bexp F64.frac F64.p63 F64.p52
  by_cases h : v.bits / 9223372036854775808 % 2 = 1
  · simp only [h, beq_self_eq_true, ↓reduceIte]; omega
  · have : (v.bits / 9223372036854775808 % 2 == 1) = false := by rw [beq_eq_false_iff_ne]; exact h
    simp only [this, Bool.false_eq_true, ↓reduceIte]; omega

/-- `v + (±0) = v` for every finite non-zero `v` (with a 64-bit pattern) -/
theorem aux_add_zero (v z : F64) (hz : z = F64.posZero ∨ z = F64.negZero)
    (hn : v.isNaN = false) (hi : v.isInf = false) (hnz : v.isZero = false) (hb : v.bits < 2 ^ 64) :
    F64.add v z = v := by
  have hzn : z.isNaN = false := by rcases hz with h | h <;> subst h <;> decide
  have hzi : z.isInf = false := by rcases hz with h | h <;> subst h <;> decide
  have hzm : z.mant = 0 := by rcases hz with h | h <;> subst h <;> decide
  have hze : z.expo = -1074 := by rcases hz with h | h <;> subst h <;> decide
  have hfin : v.bexp ≠ 2047 := by
    unfold F64.isNaN at hn
    unfold F64.isInf at hi
    intro h; rw [h] at hn hi; simp at hn hi
    exact hi hn
  have hbexp : v.bexp < 2048 := by unfold F64.bexp; omega
  have hfrac : v.frac < F64.p52 := by unfold F64.frac F64.p52; omega
  unfold F64.add
  simp only [hn, hzn, hi, hzi, Bool.or_self, Bool.false_eq_true, ↓reduceIte, hzm, hze]
  by_cases hsub : v.bexp = 0
  · -- subnormal
    have hm : v.mant = v.frac := by unfold F64.mant; simp [hsub]
    have he : v.expo = -1074 := by unfold F64.expo; simp [hsub]
    have hf0 : 0 < v.frac := by
      unfold F64.isZero at hnz; rw [hsub] at hnz; simp at hnz; omega
    rw [hm, he]
    simp only [min_self, Int.sub_self, Int.toNat_zero, pow_zero, mul_one, Nat.cast_zero, zero_mul,
      neg_zero, ite_self, add_zero]
    have hdec := aux_bits_decomp v hb
    rw [hsub] at hdec
    cases hs : v.sign with
    | true =>
      rw [hs] at hdec
      simp only [↓reduceIte, Nat.zero_mul, Nat.zero_add] at hdec
      have h1 : ((-(v.frac : Int) == 0) = true) = False := by simp; omega
      have h2 : (-(v.frac : Int) < 0) := by omega
      simp only [↓reduceIte, h1, h2, decide_true, Int.natAbs_neg, Int.natAbs_natCast]
      unfold F64.ofScaled
      simp only [show ¬ ((-1074 : Int) ≥ 0) by omega, ↓reduceIte, show (-(-1074 : Int)).toNat = 1074 from rfl]
      rw [aux_roundRat_subnormal true v.frac hf0 hfrac]
      simp only [↓reduceIte]
      rw [← hdec]
    | false =>
      rw [hs] at hdec
      simp only [Bool.false_eq_true, ↓reduceIte, Nat.zero_mul, Nat.zero_add] at hdec
      have h1 : (((v.frac : Int) == 0) = true) = False := by simp; omega
      have h2 : ¬ ((v.frac : Int) < 0) := by omega
      simp only [Bool.false_eq_true, ↓reduceIte, h1, h2, decide_false, Int.natAbs_natCast]
      unfold F64.ofScaled
      simp only [show ¬ ((-1074 : Int) ≥ 0) by omega, ↓reduceIte, show (-(-1074 : Int)).toNat = 1074 from rfl]
      rw [aux_roundRat_subnormal false v.frac hf0 hfrac]
      simp only [Bool.false_eq_true, ↓reduceIte]
      rw [← hdec, Nat.zero_add]
  · -- normal
    have hm : v.mant = F64.p52 + v.frac := by
      unfold F64.mant; simp [hsub]
    have he : v.expo = (v.bexp : Int) - 1075 := by
      unfold F64.expo; simp [hsub]
    have hmin : min ((v.bexp : Int) - 1075) (-1074) = -1074 := by omega
    have hk : ((v.bexp : Int) - 1075 - -1074).toNat = v.bexp - 1 := by omega
    rw [hm, he, hmin, hk]
    simp only [Int.sub_self, Int.toNat_zero, pow_zero, mul_one, Nat.cast_zero, zero_mul, neg_zero, ite_self, add_zero]
    have hdec := aux_bits_decomp v hb
    have hpos : (0 : Int) < ((F64.p52 + v.frac : Nat) : Int) * 2 ^ (v.bexp - 1) := by
      have h0 : (0 : Int) < ((F64.p52 + v.frac : Nat) : Int) := by unfold F64.p52; omega
      exact Int.mul_pos h0 (by positivity)
    have hcast : (((F64.p52 + v.frac : Nat) : Int) * 2 ^ (v.bexp - 1)).natAbs = (F64.p52 + v.frac) * 2 ^ (v.bexp - 1) := by
      have : ((F64.p52 + v.frac : Nat) : Int) * 2 ^ (v.bexp - 1) = (((F64.p52 + v.frac) * 2 ^ (v.bexp - 1) : Nat) : Int) := by push_cast; ring
      rw [this, Int.natAbs_natCast]
    have hj : v.bexp - 1 ≤ 2045 := by omega
    have hb1 : v.bexp - 1 + 1 = v.bexp := by omega
    cases hs : v.sign with
    | true =>
      rw [hs] at hdec
      simp only [↓reduceIte] at hdec
      have h1 : ((-(((F64.p52 + v.frac : Nat) : Int) * 2 ^ (v.bexp - 1)) == 0) = true) = False := by
        simp only [beq_iff_eq, eq_iff_iff, iff_false]; omega
      have h2 : (-(((F64.p52 + v.frac : Nat) : Int) * 2 ^ (v.bexp - 1)) < 0) := by omega
      simp only [↓reduceIte, h1, h2, decide_true, Int.natAbs_neg, hcast]
      unfold F64.ofScaled
      simp only [show ¬ ((-1074 : Int) ≥ 0) by omega, ↓reduceIte, show (-(-1074 : Int)).toNat = 1074 from rfl]
      rw [aux_roundRat_normal true v.frac (v.bexp - 1) 1074 rfl hfrac hj, hb1]
      simp only [↓reduceIte]
      rw [← hdec]
    | false =>
      rw [hs] at hdec
      simp only [Bool.false_eq_true, ↓reduceIte, Nat.zero_add] at hdec
      have h1 : (((((F64.p52 + v.frac : Nat) : Int) * 2 ^ (v.bexp - 1)) == 0) = true) = False := by
        simp only [beq_iff_eq, eq_iff_iff, iff_false]; omega
      have h2 : ¬ ((((F64.p52 + v.frac : Nat) : Int) * 2 ^ (v.bexp - 1)) < 0) := by omega
      simp only [Bool.false_eq_true, ↓reduceIte, h1, h2, decide_false, hcast]
      unfold F64.ofScaled
      simp only [show ¬ ((-1074 : Int) ≥ 0) by omega, ↓reduceIte, show (-(-1074 : Int)).toNat = 1074 from rfl]
      rw [aux_roundRat_normal false v.frac (v.bexp - 1) 1074 rfl hfrac hj, hb1]
      simp only [Bool.false_eq_true, ↓reduceIte, Nat.zero_add]
      rw [← hdec]

/-- **`v + t·(v − v)` is `v` or NaN, for every double `t`** and every finite non-zero `v`:
`v − v = +0`; `t·(+0)` is NaN (t NaN or infinite) or `±0`; `v + NaN = NaN`, `v + (±0) = v`. -/
theorem interp_float64 (v t : F64) (hn : v.isNaN = false) (hi : v.isInf = false) (hnz : v.isZero = false)
    (hb : v.bits < 2 ^ 64) :
    F64.add v (F64.mul t (F64.sub v v)) = v ∨ (F64.add v (F64.mul t (F64.sub v v))).isNaN = true := by
  rw [aux_sub_self v hn hi]
  rcases aux_mul_posZero t with h | h | h
  · right; rw [h, aux_add_nan]; decide
  · left; rw [h]; exact aux_add_zero v _ (Or.inl rfl) hn hi hnz hb
  · left; rw [h]; exact aux_add_zero v _ (Or.inr rfl) hn hi hnz hb

end Vegeta.Proofs.QuantileF64
