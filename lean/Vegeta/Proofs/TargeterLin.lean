/-
Linearisation of the stream targeters at the lock (C15), and the role of the fresh copy that
`ReadBytes` returns in the JSON targeter's two-phase shape.
-/
import Vegeta.Proofs.TargeterConc
namespace Vegeta.Proofs.TargeterLin
open Vegeta.Go
open Vegeta.Model.TargeterConc
open Vegeta.Proofs.TargeterConc

variable {S R T : Type}

/-- the answers caller `c` has received, in the order it received them -/
def eventsOf (c : Nat) (log : List (Ev T)) : List (Ev T) :=
  log.filter fun
    | .exhausted c' => c' == c
    | .result c' _ => c' == c

/-- the answer caller `c` is about to receive (it has left the lock and not yet returned) -/
def pendingOf' (sys : Sys S R T) (c : Nat) (loc : List (Local R)) : List (Ev T) :=
  match loc[c]? with
  | some (.holding r) => [.result c (sys.dec r)]
  | _ => []

/-- the sequential schedule in lock order: every call runs to its end before the next begins -/
def seqTrace : List Nat → List Label
  | [] => []
  | c :: r => .lock c :: .finish c :: seqTrace r

theorem runLenient_append (sys : Sys S R T) (s : St S R T) (a b : List Label) :
    runLenient sys s (a ++ b) = runLenient sys (runLenient sys s a) b := by
  induction a generalizing s with
  | nil => rfl
  | cons l r ih =>
    simp only [List.cons_append, runLenient]
    split <;> exact ih _

theorem seqTrace_append (a b : List Nat) : seqTrace (a ++ b) = seqTrace a ++ seqTrace b := by
  induction a with
  | nil => rfl
  | cons c r ih => simp [seqTrace, ih]

theorem lockCallers_append (a b : List Label) : lockCallers (a ++ b) = lockCallers a ++ lockCallers b := by
  induction a with
  | nil => rfl
  | cons l r ih => cases l <;> simp [lockCallers, ih]

theorem eventsOf_append (c : Nat) (a b : List (Ev T)) : eventsOf c (a ++ b) = eventsOf c a ++ eventsOf c b := by
  simp [eventsOf]

/-- the interleaved state `st` and the sequential state `sq` (same calls, in lock order, each
run to its end): same source, nobody mid-call in `sq`, and every caller has in `sq` exactly the
answers it has in `st` plus the one it is about to receive -/
structure Lin (sys : Sys S R T) (st sq : St S R T) : Prop where
  src : sq.src = st.src
  len : sq.loc.length = st.loc.length
  idle : ∀ c, c < sq.loc.length → sq.loc[c]? = some .idle
  evs : ∀ c, eventsOf c sq.log = eventsOf c st.log ++ pendingOf' sys c st.loc

theorem lin_init (sys : Sys S R T) (src : S) (n : Nat) : Lin sys (init src n) (init src n) := by
  refine ⟨rfl, rfl, ?_, ?_⟩
  · intro c hc
    simp only [init, List.length_replicate] at hc ⊢
    simp [hc]
  · intro c
    simp only [init, eventsOf, List.filter_nil, pendingOf', List.nil_append]
    by_cases hc : c < n <;> simp [hc]

theorem getElem?_set_other {α} (l : List α) (i j : Nat) (x : α) (h : i ≠ j) : (l.set i x)[j]? = l[j]? := by
  rw [List.getElem?_set]; simp [h]

theorem getElem?_set_same {α} (l : List α) (i : Nat) (x : α) (h : i < l.length) : (l.set i x)[i]? = some x := by
  rw [List.getElem?_set]; simp [h]

theorem lin_step (sys : Sys S R T) (st st2 sq : St S R T) (l : Label) (lin : Lin sys st sq)
    (hs : step sys st l = some st2) :
    Lin sys st2 (runLenient sys sq (seqTrace (lockCallers [l]))) := by
  cases l with
  | lock c =>
    simp only [lockCallers, seqTrace, runLenient]
    simp only [step] at hs
    split at hs
    · rename_i hidle
      have hc : c < st.loc.length := by
        rcases Nat.lt_or_ge c st.loc.length with h | h
        · exact h
        · rw [List.getElem?_eq_none h] at hidle; cases hidle
      have hsq : sq.loc[c]? = some .idle := lin.idle c (by rw [lin.len]; exact hc)
      have hpend : pendingOf' sys c st.loc = [] := by simp [pendingOf', hidle]
      split at hs
      · -- exhausted
        rename_i src' hpop
        cases hs
        have h1 : step sys sq (.lock c) = some { sq with src := src', log := sq.log ++ [.exhausted c] } := by
          simp only [step, hsq, lin.src, hpop]
        have h2 : step sys { sq with src := src', log := sq.log ++ [.exhausted c] } (.finish c) = none := by
          simp only [step, hsq]
        simp only [h1, h2]
        refine ⟨rfl, lin.len, lin.idle, ?_⟩
        intro c'
        simp only [eventsOf_append, lin.evs c']
        simp only [eventsOf, List.filter_cons, List.filter_nil]
        by_cases hcc : c = c'
        · subst hcc; simp [hpend]
        · simp [hcc]
      · rename_i r src' hpop
        cases hs
        have h1 : step sys sq (.lock c) = some { sq with src := src', loc := sq.loc.set c (.holding r) } := by
          simp only [step, hsq, lin.src, hpop]
        have hget : (sq.loc.set c (Local.holding r))[c]? = some (.holding r) :=
          getElem?_set_same _ _ _ (by rw [lin.len]; exact hc)
        have h2 : step sys { sq with src := src', loc := sq.loc.set c (.holding r) } (.finish c) =
            some { sq with src := src', loc := (sq.loc.set c (.holding r)).set c .idle, log := sq.log ++ [.result c (sys.dec r)] } := by
          simp only [step, hget]
        simp only [h1, h2]
        refine ⟨rfl, by simp [lin.len], ?_, ?_⟩
        · intro c' hc'
          simp only [List.length_set] at hc'
          by_cases hcc : c = c'
          · subst hcc; exact getElem?_set_same _ _ _ (by simpa using hc')
          · rw [getElem?_set_other _ _ _ _ hcc, getElem?_set_other _ _ _ _ hcc]; exact lin.idle c' hc'
        · intro c'
          simp only [eventsOf_append, lin.evs c']
          by_cases hcc : c = c'
          · subst hcc
            have : pendingOf' sys c (st.loc.set c (Local.holding r)) = [.result c (sys.dec r)] := by
              simp [pendingOf', getElem?_set_same _ _ _ hc]
            simp [this, hpend, eventsOf]
          · have : pendingOf' sys c' (st.loc.set c (Local.holding r)) = pendingOf' sys c' st.loc := by
              simp [pendingOf', getElem?_set_other _ _ _ _ hcc]
            simp [this, eventsOf, hcc]
    · cases hs
  | finish c =>
    simp only [lockCallers, seqTrace, runLenient]
    simp only [step] at hs
    split at hs
    · rename_i r hhold
      cases hs
      have hc : c < st.loc.length := by
        rcases Nat.lt_or_ge c st.loc.length with h | h
        · exact h
        · rw [List.getElem?_eq_none h] at hhold; cases hhold
      refine ⟨lin.src, by simp [lin.len], lin.idle, ?_⟩
      intro c'
      rw [lin.evs c', eventsOf_append]
      by_cases hcc : c = c'
      · subst hcc
        have h1 : pendingOf' sys c st.loc = [.result c (sys.dec r)] := by simp [pendingOf', hhold]
        have h2 : pendingOf' sys c (st.loc.set c Local.idle) = [] := by
          simp [pendingOf', getElem?_set_same _ _ _ hc]
        simp [h1, h2, eventsOf]
      · have : pendingOf' sys c' (st.loc.set c Local.idle) = pendingOf' sys c' st.loc := by
          simp [pendingOf', getElem?_set_other _ _ _ _ hcc]
        simp [this, eventsOf, hcc]
    · cases hs

/-- **Linearisation at the lock**: whatever the interleaving `tr`, the sequential schedule that
performs the same calls one after the other in the order in which they took the lock reaches
the same source state, and every caller has received the same answers in the same order — up to
the answer of a call that is still between lock and return. -/
theorem lin_run (sys : Sys S R T) : ∀ (tr : List Label) (st st2 sq : St S R T), Lin sys st sq →
    run sys st tr = some st2 → Lin sys st2 (runLenient sys sq (seqTrace (lockCallers tr))) := by
  intro tr
  induction tr with
  | nil => intro st st2 sq lin h; simp [run] at h; subst h; simpa [lockCallers, seqTrace, runLenient] using lin
  | cons l ls ih =>
    intro st st2 sq lin h
    simp only [run] at h
    split at h
    · rename_i s1 hs
      have l1 := lin_step sys st s1 sq l lin hs
      have := ih s1 st2 _ l1 h
      rw [← runLenient_append, ← seqTrace_append, ← lockCallers_append] at this
      exact this
    · cases h

/-! ### the fresh copy -/

/-- forget the buffer: a caller that owns its line holds that line -/
def projLoc : Local Line → Local Bytes
  | .idle => .idle
  | .holding (.own d) => .holding d
  | .holding .window => .idle

def OwnsOnly (loc : List (Local Line)) : Prop := ∀ l ∈ loc, l ≠ .holding .window

def proj (s : BSt) : St Bytes Bytes Vegeta.Model.JSONTargets.JRec :=
  { src := s.rest, loc := s.loc.map projLoc, log := s.log }

theorem ownsOnly_set {loc : List (Local Line)} (h : OwnsOnly loc) (c : Nat) (x : Local Line) (hx : x ≠ .holding .window) :
    OwnsOnly (loc.set c x) := by
  intro l hl
  rcases List.mem_or_eq_of_mem_set hl with h1 | h1
  · exact h l h1
  · rw [h1]; exact hx

/-- **Decoding outside the lock is safe because the line is the caller's own copy**: with
`fresh = true` (`ReadBytes`) the buffer-explicit model is, step for step, the two-phase model
`jsonSys` that all C15 theorems are about — the buffer is never looked at. -/
theorem fresh_step (cfg : Vegeta.Model.JSONTargets.Cfg) (s s' : BSt) (l : Label) (ho : OwnsOnly s.loc)
    (hs : bstep cfg true s l = some s') :
    step (jsonSys cfg) (proj s) l = some (proj s') ∧ OwnsOnly s'.loc := by
  cases l with
  | lock c =>
    simp only [bstep] at hs
    split at hs
    · rename_i hidle
      have hp : (proj s).loc[c]? = some .idle := by simp [proj, hidle, projLoc]
      split at hs
      · rename_i rest' hpop
        cases hs
        exact ⟨by simp only [step, hp, jsonSys]; simp only [proj, hpop], ho⟩
      · rename_i d rest' hpop
        cases hs
        refine ⟨?_, ownsOnly_set ho c _ (by simp)⟩
        simp only [step, hp, jsonSys]
        simp only [proj, hpop, ↓reduceIte, List.map_set, projLoc]
    · cases hs
  | finish c =>
    simp only [bstep] at hs
    split at hs
    · rename_i d hhold
      cases hs
      have hp : (proj s).loc[c]? = some (.holding d) := by simp [proj, hhold, projLoc]
      refine ⟨?_, ownsOnly_set ho c _ (by simp)⟩
      simp only [step, hp, jsonSys]
      simp only [proj, List.map_set, projLoc]
    · rename_i hhold
      exact absurd rfl (ho _ (List.mem_of_getElem? hhold))
    · cases hs

theorem fresh_run (cfg : Vegeta.Model.JSONTargets.Cfg) : ∀ (tr : List Label) (s s' : BSt), OwnsOnly s.loc →
    brun cfg true s tr = some s' → run (jsonSys cfg) (proj s) tr = some (proj s') := by
  intro tr
  induction tr with
  | nil => intro s s' _ h; simp [brun] at h; subst h; rfl
  | cons l ls ih =>
    intro s s' ho h
    simp only [brun] at h
    split at h
    · rename_i s1 hs
      obtain ⟨h1, h2⟩ := fresh_step cfg s s1 l ho hs
      simp only [run, h1]
      exact ih s1 s' h2 h
    · cases h

end Vegeta.Proofs.TargeterLin
