/-
Text-level lemmas for C14: `strings.TrimSpace` on padded lines, `bufio.ScanLines` on rendered
files, `dropCR`, `SplitN`, the method regexp.
-/
import Vegeta.Model.HTTPTargets
import Vegeta.Spec.TargetGrammar
namespace Vegeta.Proofs.TargetText
open Vegeta.Go
open Vegeta.Model.Histogram
open Vegeta.Model.HTTPTargets
open Vegeta.Spec.TargetGrammar (isPadByte IsPad isPlain EdgePlain)

/-! ### padding and plain bytes -/

theorem pad_ascii {c : Nat} (h : isPadByte c = true) : isAsciiSpace c = true := by
  simp [isPadByte] at h
  simp [isAsciiSpace]
  omega

theorem plain_bounds {c : Nat} (h : isPlain c = true) : 33 ≤ c ∧ c ≤ 126 := by
  simpa [isPlain] using h

theorem plain_not_ascii {c : Nat} (h : isPlain c = true) : isAsciiSpace c = false := by
  have := plain_bounds h
  simp [isAsciiSpace]
  omega

theorem eq_nil_or_snoc {α} (l : List α) : l = [] ∨ ∃ p x, l = p ++ [x] := by
  rcases List.eq_nil_or_concat l with h | ⟨p, x, h⟩
  · exact Or.inl h
  · exact Or.inr ⟨p, x, by simpa using h⟩

theorem getLast?_snoc {α} (l : List α) (x : α) : (l ++ [x]).getLast? = some x := by simp

theorem isPad_nil : IsPad [] := by intro c h; cases h

theorem isPad_cons {c : Nat} {ws : Bytes} : IsPad (c :: ws) ↔ isPadByte c = true ∧ IsPad ws := by
  constructor
  · intro h; exact ⟨h c (by simp), fun d hd => h d (by simp [hd])⟩
  · intro ⟨h1, h2⟩ d hd
    simp at hd
    rcases hd with rfl | hd
    · exact h1
    · exact h2 d hd

theorem isPad_append {a b : Bytes} : IsPad (a ++ b) ↔ IsPad a ∧ IsPad b := by
  constructor
  · intro h; exact ⟨fun c hc => h c (by simp [hc]), fun c hc => h c (by simp [hc])⟩
  · intro ⟨h1, h2⟩ c hc
    simp at hc
    rcases hc with hc | hc
    · exact h1 c hc
    · exact h2 c hc

theorem isPad_reverse {a : Bytes} (h : IsPad a) : IsPad a.reverse := by
  intro c hc; exact h c (by simpa using hc)

/-! ### dropSpaceRune -/

theorem dropSpaceRune_pad {c : Nat} (r : Bytes) (h : isPadByte c = true) : dropSpaceRune (c :: r) = some r := by
  simp [dropSpaceRune, pad_ascii h]

theorem dropSpaceRune_plain {c : Nat} (r : Bytes) (h : isPlain c = true) : dropSpaceRune (c :: r) = none := by
  have hb := plain_bounds h
  unfold dropSpaceRune
  simp only [plain_not_ascii h, Bool.false_eq_true, ↓reduceIte]
  split <;> first | rfl | (exfalso; omega) | skip
  all_goals (split <;> first | rfl | (exfalso; omega))

theorem dropSpaceRuneRev_pad {c : Nat} (r : Bytes) (h : isPadByte c = true) : dropSpaceRuneRev (c :: r) = some r := by
  simp [dropSpaceRuneRev, pad_ascii h]

theorem dropSpaceRuneRev_plain {c : Nat} (r : Bytes) (h : isPlain c = true) : dropSpaceRuneRev (c :: r) = none := by
  have hb := plain_bounds h
  unfold dropSpaceRuneRev
  simp only [plain_not_ascii h, Bool.false_eq_true, ↓reduceIte]
  split <;> first | rfl | (exfalso; omega) | skip
  all_goals (split <;> first | rfl | (exfalso; omega) | (rename_i hx; simp at hx; exfalso; omega))

theorem trimLeft_pad_plain (ws : Bytes) (c : Nat) (t : Bytes) (hws : IsPad ws) (hc : isPlain c = true) :
    ∀ fuel, ws.length ≤ fuel → trimLeft fuel (ws ++ c :: t) = c :: t := by
  induction ws with
  | nil =>
    intro fuel _
    cases fuel with
    | zero => rfl
    | succ f => simp [trimLeft, dropSpaceRune_plain t hc]
  | cons w ws ih =>
    intro fuel hf
    have ⟨h1, h2⟩ := isPad_cons.mp hws
    cases fuel with
    | zero => simp at hf
    | succ f =>
      simp only [List.cons_append, trimLeft, dropSpaceRune_pad _ h1]
      exact ih h2 f (by simpa using hf)

theorem trimLeft_pad (ws : Bytes) (hws : IsPad ws) : ∀ fuel, ws.length ≤ fuel → trimLeft fuel ws = [] := by
  induction ws with
  | nil => intro fuel _; cases fuel <;> simp [trimLeft, dropSpaceRune]
  | cons w ws ih =>
    intro fuel hf
    have ⟨h1, h2⟩ := isPad_cons.mp hws
    cases fuel with
    | zero => simp at hf
    | succ f =>
      simp only [trimLeft, dropSpaceRune_pad _ h1]
      exact ih h2 f (by simpa using hf)

theorem trimLeftRev_pad_plain (ws : Bytes) (c : Nat) (t : Bytes) (hws : IsPad ws) (hc : isPlain c = true) :
    ∀ fuel, ws.length ≤ fuel → trimLeftRev fuel (ws ++ c :: t) = c :: t := by
  induction ws with
  | nil =>
    intro fuel _
    cases fuel with
    | zero => rfl
    | succ f => simp [trimLeftRev, dropSpaceRuneRev_plain t hc]
  | cons w ws ih =>
    intro fuel hf
    have ⟨h1, h2⟩ := isPad_cons.mp hws
    cases fuel with
    | zero => simp at hf
    | succ f =>
      simp only [List.cons_append, trimLeftRev, dropSpaceRuneRev_pad _ h1]
      exact ih h2 f (by simpa using hf)

/-- what `dropSpaceRuneRev` removes is a non-empty prefix without plain bytes -/
theorem aux_np2 (a b : Nat) (ha : isPlain a = false) (hb : isPlain b = false) : ∀ x ∈ [a, b], isPlain x = false := by
  intro x hx; simp at hx; rcases hx with rfl | rfl <;> assumption
theorem aux_np3 (a b c : Nat) (ha : isPlain a = false) (hb : isPlain b = false) (hc : isPlain c = false) : ∀ x ∈ [a, b, c], isPlain x = false := by
  intro x hx; simp at hx; rcases hx with rfl | rfl | rfl <;> assumption

theorem dropSpaceRuneRev_some {l r : Bytes} (h : dropSpaceRuneRev l = some r) :
    ∃ p, l = p ++ r ∧ p ≠ [] ∧ ∀ b ∈ p, isPlain b = false := by
  unfold dropSpaceRuneRev at h
  split at h
  · rename_i c rest
    split at h
    · rename_i hsp
      cases h
      refine ⟨[c], rfl, by simp, ?_⟩
      intro b hb
      simp at hb; subst hb
      simp [isAsciiSpace] at hsp
      simp [isPlain]; omega
    · split at h
      · cases h; exact ⟨[133, 194], rfl, by simp, aux_np2 _ _ (by decide) (by decide)⟩
      · cases h; exact ⟨[160, 194], rfl, by simp, aux_np2 _ _ (by decide) (by decide)⟩
      · cases h; exact ⟨[128, 154, 225], rfl, by simp, aux_np3 _ _ _ (by decide) (by decide) (by decide)⟩
      · cases h; exact ⟨[159, 129, 226], rfl, by simp, aux_np3 _ _ _ (by decide) (by decide) (by decide)⟩
      · cases h; exact ⟨[128, 128, 227], rfl, by simp, aux_np3 _ _ _ (by decide) (by decide) (by decide)⟩
      · split at h
        · rename_i hx
          cases h
          refine ⟨[c, 128, 226], rfl, by simp, aux_np3 _ _ _ ?_ (by decide) (by decide)⟩
          simp at hx; simp [isPlain]; omega
        · cases h
      · cases h
  · cases h

/-- a plain byte at the far end survives `trimLeftRev` -/
theorem trimLeftRev_keeps_last (c : Nat) (hc : isPlain c = true) :
    ∀ (fuel : Nat) (xs : Bytes), ∃ ys, trimLeftRev fuel (xs ++ [c]) = ys ++ [c] := by
  intro fuel
  induction fuel with
  | zero => intro xs; exact ⟨xs, rfl⟩
  | succ f ih =>
    intro xs
    unfold trimLeftRev
    split
    · rename_i r hr
      obtain ⟨p, hp, hne, hpl⟩ := dropSpaceRuneRev_some hr
      -- r is a suffix of xs ++ [c] that still ends with c
      have : ∃ zs, r = zs ++ [c] := by
        rcases eq_nil_or_snoc r with hr0 | ⟨zs, d, hd⟩
        · subst hr0
          simp at hp
          have : c ∈ p := by rw [← hp]; simp
          have := hpl c this
          rw [hc] at this; cases this
        · subst hd
          have h2 : xs ++ [c] = (p ++ zs) ++ [d] := by rw [hp]; simp
          have := List.append_inj_right' h2 rfl
          simp at this; subst this
          exact ⟨zs, by simp⟩
      obtain ⟨zs, hz⟩ := this
      rw [hz]; exact ih zs
    · exact ⟨xs, rfl⟩

/-! ### trimSpace on rendered lines -/

theorem trimSpace_pad (ws : Bytes) (h : IsPad ws) : trimSpace ws = [] := by
  unfold trimSpace
  simp only [trimLeft_pad ws h ws.length (Nat.le_refl _)]
  simp [trimLeftRev]

/-- `pre ++ c :: mid ++ [d] ++ post` trims to `c :: mid ++ [d]` -/
theorem trimSpace_core (pre post : Bytes) (c d : Nat) (mid : Bytes) (hpre : IsPad pre) (hpost : IsPad post)
    (hc : isPlain c = true) (hd : isPlain d = true) :
    trimSpace (pre ++ (c :: (mid ++ [d])) ++ post) = c :: (mid ++ [d]) := by
  unfold trimSpace
  have h1 : trimLeft (pre ++ (c :: (mid ++ [d])) ++ post).length (pre ++ (c :: (mid ++ [d])) ++ post) = c :: (mid ++ [d] ++ post) := by
    have := trimLeft_pad_plain pre c (mid ++ [d] ++ post) hpre hc (pre ++ (c :: (mid ++ [d])) ++ post).length (by simp <;> omega)
    simpa using this
  simp only [h1]
  have h2 : (c :: (mid ++ [d] ++ post)).reverse = post.reverse ++ d :: (mid.reverse ++ [c]) := by simp
  rw [h2, trimLeftRev_pad_plain post.reverse d (mid.reverse ++ [c]) (isPad_reverse hpost) hd _ (by simp <;> omega)]
  simp

/-- a single plain byte between paddings -/
theorem trimSpace_single (pre post : Bytes) (c : Nat) (hpre : IsPad pre) (hpost : IsPad post) (hc : isPlain c = true) :
    trimSpace (pre ++ [c] ++ post) = [c] := by
  unfold trimSpace
  have h1 : trimLeft (pre ++ [c] ++ post).length (pre ++ [c] ++ post) = c :: post := by
    have := trimLeft_pad_plain pre c post hpre hc (pre ++ [c] ++ post).length (by simp <;> omega)
    simpa using this
  simp only [h1]
  have h2 : (c :: post).reverse = post.reverse ++ [c] := by simp
  rw [h2, trimLeftRev_pad_plain post.reverse c [] (isPad_reverse hpost) hc _ (by simp)]
  simp

/-- the shape of an `EdgePlain` string -/
theorem edgePlain_shape {s : Bytes} (h : EdgePlain s) :
    (∃ c, s = [c] ∧ isPlain c = true) ∨ (∃ c mid d, s = c :: (mid ++ [d]) ∧ isPlain c = true ∧ isPlain d = true) := by
  obtain ⟨⟨c, hc1, hc2⟩, ⟨d, hd1, hd2⟩, _⟩ := h
  cases s with
  | nil => simp at hc1
  | cons a t =>
    simp at hc1; subst hc1
    rcases eq_nil_or_snoc t with ht | ⟨m, e, he⟩
    · subst ht; exact Or.inl ⟨a, rfl, hc2⟩
    · subst he
      have : (a :: (m ++ [e])).getLast? = some e := getLast?_snoc (a :: m) e
      rw [this] at hd1
      have hde : e = d := by simpa using hd1
      subst hde
      exact Or.inr ⟨a, m, e, rfl, hc2, hd2⟩

theorem trimSpace_edgePlain (pre post s : Bytes) (hpre : IsPad pre) (hpost : IsPad post) (hs : EdgePlain s) :
    trimSpace (pre ++ s ++ post) = s := by
  rcases edgePlain_shape hs with ⟨c, rfl, hc⟩ | ⟨c, mid, d, rfl, hc, hd⟩
  · exact trimSpace_single pre post c hpre hpost hc
  · exact trimSpace_core pre post c d mid hpre hpost hc hd

/-- a padded string that starts with a plain byte keeps that byte at its head -/
theorem trimSpace_head (pre : Bytes) (c : Nat) (text : Bytes) (hpre : IsPad pre) (hc : isPlain c = true) :
    ∃ t, trimSpace (pre ++ c :: text) = c :: t := by
  unfold trimSpace
  have h1 : trimLeft (pre ++ c :: text).length (pre ++ c :: text) = c :: text :=
    trimLeft_pad_plain pre c text hpre hc _ (by simp)
  simp only [h1]
  have h2 : (c :: text).reverse = text.reverse ++ [c] := by simp
  obtain ⟨ys, hy⟩ := trimLeftRev_keeps_last c hc (c :: text).length text.reverse
  rw [h2, hy]
  exact ⟨ys.reverse, by simp⟩

/-! ### dropCR -/

theorem dropCR_append_pad (a post : Bytes) (hpost : IsPad post) (ha : a.getLast? ≠ some 13) :
    ∃ post', IsPad post' ∧ dropCR (a ++ post) = a ++ post' := by
  rcases eq_nil_or_snoc post with hp | ⟨p, x, hx⟩
  · subst hp
    refine ⟨[], isPad_nil, ?_⟩
    simp [dropCR, ha]
  · subst hx
    have hp : IsPad p := (isPad_append.mp hpost).1
    have hl : (a ++ (p ++ [x])).getLast? = some x := by
      rw [← List.append_assoc]; simp
    unfold dropCR
    rw [hl]
    by_cases h13 : x = 13
    · subst h13
      refine ⟨p, hp, ?_⟩
      simp only [↓reduceIte]
      rw [← List.append_assoc, List.dropLast_concat]
    · refine ⟨p ++ [x], hpost, ?_⟩
      simp [h13]

theorem dropCR_pad (ws : Bytes) (h : IsPad ws) : IsPad (dropCR ws) := by
  obtain ⟨p, hp, he⟩ := dropCR_append_pad [] ws h (by simp)
  simp at he; rw [he]; exact hp

theorem dropCR_comment (pre text : Bytes) : ∃ text', dropCR (pre ++ 35 :: text) = pre ++ 35 :: text' := by
  rcases eq_nil_or_snoc text with ht | ⟨t, x, hx⟩
  · subst ht
    refine ⟨[], ?_⟩
    have : (pre ++ [35]).getLast? = some 35 := by simp
    simp [dropCR, this]
  · subst hx
    have hl : (pre ++ 35 :: (t ++ [x])).getLast? = some x := by
      have := getLast?_snoc (pre ++ 35 :: t) x
      simpa using this
    unfold dropCR
    rw [hl]
    by_cases h13 : x = 13
    · subst h13
      refine ⟨t, ?_⟩
      simp only [↓reduceIte]
      rw [show pre ++ 35 :: (t ++ [13]) = (pre ++ 35 :: t) ++ [13] by simp, List.dropLast_concat]
    · exact ⟨t ++ [x], by simp [h13]⟩

/-! ### ScanLines on joined lines -/

theorem scanLines_line (l : Bytes) (hl : 10 ∉ l) (rest : Bytes) :
    scanLines (l ++ 10 :: rest) = l :: scanLines rest := by
  induction l with
  | nil => simp [scanLines]
  | cons c t ih =>
    have hc : c ≠ 10 := by intro h; exact hl (by simp [h])
    have ht : 10 ∉ t := by intro h; exact hl (by simp [h])
    simp only [List.cons_append, scanLines, hc, ↓reduceIte, ih ht]

theorem scanLines_last (l : Bytes) (hl : 10 ∉ l) (hne : l ≠ []) : scanLines l = [l] := by
  induction l with
  | nil => exact absurd rfl hne
  | cons c t ih =>
    have hc : c ≠ 10 := by intro h; exact hl (by simp [h])
    have ht : 10 ∉ t := by intro h; exact hl (by simp [h])
    cases t with
    | nil => simp [scanLines, hc]
    | cons d t' =>
      rw [scanLines.eq_2, ih ht (by simp)]
      simp [hc]

open Vegeta.Spec.TargetGrammar (joinLines) in
/-- terminated files give back their lines -/
theorem scanLines_join_true (ls : List Bytes) (h : ∀ l ∈ ls, 10 ∉ l) : scanLines (joinLines ls true) = ls := by
  induction ls with
  | nil => simp [joinLines, scanLines]
  | cons l t ih =>
    have hl := h l (by simp)
    have ht : ∀ x ∈ t, 10 ∉ x := fun x hx => h x (by simp [hx])
    cases t with
    | nil =>
      simp only [joinLines, ↓reduceIte]
      rw [show l ++ [10] = l ++ 10 :: [] by rfl, scanLines_line l hl]; simp [scanLines]
    | cons l2 t2 =>
      simp only [joinLines]
      rw [scanLines_line l hl, ih ht]

open Vegeta.Spec.TargetGrammar (joinLines) in
/-- an unterminated file gives back its lines, except that a final empty line vanishes -/
theorem scanLines_join_false (ls : List Bytes) (h : ∀ l ∈ ls, 10 ∉ l) :
    scanLines (joinLines ls false) = if ls.getLast? = some [] then ls.dropLast else ls := by
  induction ls with
  | nil => simp [joinLines, scanLines]
  | cons l t ih =>
    have hl := h l (by simp)
    have ht : ∀ x ∈ t, 10 ∉ x := fun x hx => h x (by simp [hx])
    cases t with
    | nil =>
      simp only [joinLines, Bool.false_eq_true, ↓reduceIte]
      by_cases hne : l = []
      · subst hne; simp [scanLines]
      · rw [scanLines_last l hl hne]; simp [hne]
    | cons l2 t2 =>
      simp only [joinLines]
      rw [scanLines_line l hl, ih ht]
      simp only [List.getLast?_cons_cons]
      split <;> simp

/-! ### SplitN and the method regexp -/

theorem splitFirst_append (sep : Nat) (a b : Bytes) (h : sep ∉ a) : splitFirst sep (a ++ sep :: b) = some (a, b) := by
  induction a with
  | nil => simp [splitFirst]
  | cons c t ih =>
    have hc : c ≠ sep := by intro e; exact h (by simp [e])
    have ht : sep ∉ t := by intro e; exact h (by simp [e])
    simp [splitFirst, hc, ih ht]

theorem afterUpper_method (m : Bytes) (rest : Bytes) (h : ∀ c ∈ m, 65 ≤ c ∧ c ≤ 90) : afterUpper (m ++ 32 :: rest) = true := by
  induction m with
  | nil => simp [afterUpper, isUpper, isReSpace]
  | cons c t ih =>
    have hc := h c (by simp)
    have : isUpper c = true := by simp [isUpper]; omega
    simp only [List.cons_append, afterUpper, this, ↓reduceIte]
    exact ih (fun d hd => h d (by simp [hd]))

theorem startsWithHTTPMethod_request (m rest : Bytes) (hne : m ≠ []) (h : ∀ c ∈ m, 65 ≤ c ∧ c ≤ 90) :
    startsWithHTTPMethod (m ++ 32 :: rest) = true := by
  cases m with
  | nil => exact absurd rfl hne
  | cons c t =>
    have hc := h c (by simp)
    have : isUpper c = true := by simp [isUpper]; omega
    simp only [List.cons_append, startsWithHTTPMethod, this, Bool.true_and]
    exact afterUpper_method t rest (fun d hd => h d (by simp [hd]))

/-- a run of plain bytes followed by a colon never looks like `[A-Z]*\s` -/
theorem afterUpper_key (k rest : Bytes) (h : ∀ c ∈ k, isPlain c = true) : afterUpper (k ++ 58 :: rest) = false := by
  induction k with
  | nil => simp [afterUpper, isUpper, isReSpace]
  | cons c t ih =>
    have hc := plain_bounds (h c (by simp))
    simp only [List.cons_append, afterUpper]
    split
    · exact ih (fun d hd => h d (by simp [hd]))
    · simp [isReSpace]; omega

theorem startsWithHTTPMethod_key (k rest : Bytes) (h : ∀ c ∈ k, isPlain c = true) :
    startsWithHTTPMethod (k ++ 58 :: rest) = false := by
  cases k with
  | nil => simp [startsWithHTTPMethod, isUpper]
  | cons c t =>
    simp only [List.cons_append, startsWithHTTPMethod]
    rw [afterUpper_key t rest (fun d hd => h d (by simp [hd]))]
    simp

theorem startsWithHTTPMethod_nonupper (c : Nat) (rest : Bytes) (h : isUpper c = false) :
    startsWithHTTPMethod (c :: rest) = false := by
  simp [startsWithHTTPMethod, h]

end Vegeta.Proofs.TargetText
