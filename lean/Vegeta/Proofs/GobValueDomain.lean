/-
The representable domain of the gob result codec and what its decoder hands back.
-/
import Vegeta.Model.GobValue
import Vegeta.Proofs.CodecDomain
namespace Vegeta.Proofs.Gob
open Vegeta.Go Vegeta.Model.Codec Vegeta.Model.GobFrame Vegeta.Model.GobValue Vegeta.Proofs.Codec

/-- a zone `Time.MarshalBinary` accepts: the offset in whole minutes fits an int16 and is not -1
(-1 is the marker for UTC) -/
def ZoneOK : Zone → Prop
  | .utc => True
  | .fixed off => -32768 ≤ Int.tdiv off 60 ∧ Int.tdiv off 60 ≤ 32767 ∧ Int.tdiv off 60 ≠ -1

/-- **the gob domain**: any texts, body and header values (arbitrary bytes), full numeric ranges,
timestamps 1970–2200, header maps with distinct keys (in any iteration order = list order), and a
value message below gob's size limit `tooBig` = 2^33 bytes -/
structure ReprGobResult (z : Zone) (r : Result) : Prop where
  num : ReprNumbers r
  headers : ∀ h, r.headers = some h → (h.map (·.1)).Nodup
  size : ∀ p, valuePayload z r = some p → p.length < tooBig

/-- what the gob decoder returns for an encoded `r`: an empty body is not sent and comes back nil -/
def gobDecoded (r : Result) : Result :=
  { r with body := if (r.body.getD []).isEmpty then none else r.body }

end Vegeta.Proofs.Gob
