/-
Soundness of the trace acceptor used by the controlled-schedule conformance check: every state
the acceptor carries is a reachable state of the transition system, so every observation it
accepts is the observation of a state in which all the invariants of Proofs/AttackInv.lean hold.
-/
import Vegeta.Model.AttackAccept
import Vegeta.Proofs.AttackInv
namespace Vegeta.Proofs.Attack
open Vegeta.Model.Attack

variable {w m d : Nat}

theorem filterMap_step_reachable (ss : List St) (l : Lbl) (h : ∀ s ∈ ss, Reachable w m d s) :
    ∀ s ∈ ss.filterMap (step · l), Reachable w m d s := by
  intro s hs
  obtain ⟨s0, h0, hst⟩ := List.mem_filterMap.mp hs
  exact Reachable.step l (h s0 h0) hst

theorem tauSucc_reachable (s : St) (fm : Bool) (h : Reachable w m d s) : ∀ s' ∈ tauSucc s fm, Reachable w m d s' := by
  intro s' hs'
  unfold tauSucc at hs'
  obtain ⟨l, _, hst⟩ := List.mem_filterMap.mp hs'
  exact Reachable.step l h hst

theorem closure_reachable : ∀ (fuel : Nat) (fm : Bool) (todo seen acc : List St),
    (∀ s ∈ todo, Reachable w m d s) → (∀ s ∈ acc, Reachable w m d s) →
    ∀ s ∈ closure fuel fm todo seen acc, Reachable w m d s := by
  intro fuel
  induction fuel with
  | zero => intro fm todo seen acc _ ha s hs; simp [closure] at hs; exact ha s hs
  | succ fuel ih =>
    intro fm todo seen acc ht ha s hs
    cases todo with
    | nil => simp [closure] at hs; exact ha s hs
    | cons s0 rest =>
      have h0 : Reachable w m d s0 := ht s0 (by simp)
      have hr : ∀ x ∈ rest, Reachable w m d x := fun x hx => ht x (by simp [hx])
      simp only [closure] at hs
      split at hs
      · exact ih fm rest seen acc hr ha s hs
      · split at hs
        · apply ih fm rest (s0 :: seen) _ hr _ s hs
          intro x hx
          split at hx
          · exact ha x hx
          · rcases List.mem_cons.mp hx with rfl | hx
            · exact h0
            · exact ha x hx
        · apply ih fm (tauSucc s0 fm ++ rest) (s0 :: seen) acc _ ha s hs
          intro x hx
          rcases List.mem_append.mp hx with hx | hx
          · exact tauSucc_reachable s0 fm h0 x hx
          · exact hr x hx

theorem quiesce_reachable (fm : Bool) (ss : List St) (h : ∀ s ∈ ss, Reachable w m d s) :
    ∀ s ∈ quiesce fm ss, Reachable w m d s :=
  closure_reachable _ fm ss [] [] h (by simp)

theorem applyCmd_reachable (a : ASt) (c : Cmd) (co : CmdObs) (h : ∀ s ∈ a.states, Reachable w m d s) :
    ∀ s ∈ (applyCmd a c co).states, Reachable w m d s := by
  intro s hs
  unfold applyCmd at hs
  split at hs
  · exact filterMap_step_reachable _ _ h s hs
  · exact filterMap_step_reachable _ _ h s hs
  · exact filterMap_step_reachable _ _ h s hs
  · exact h s hs
  · exact h s hs
  · obtain ⟨s0, h0, hst⟩ := List.mem_filterMap.mp hs
    split at hst
    · cases hst
    · exact Reachable.step _ (h s0 h0) hst
  · exact h s (List.mem_filter.mp hs).1
  · exact h s (List.mem_filter.mp hs).1
  · obtain ⟨s0, h0, hst⟩ := List.mem_filterMap.mp hs
    split at hst
    · exact Reachable.step _ (h s0 h0) hst
    · cases hst
  · simp at hs

/-- **Every accepted observation is the observation of a reachable state**: if the acceptor
accepts a trace, then each observation recorded on the implementation equals the observable
projection of some reachable state of the transition system — so the invariants proved for all
reachable states (sequence numbers, in-flight bound, close-after-last, …) hold of a model state
that looks exactly like what the real attack showed at that point. -/
theorem accept_explained : ∀ (tr : List (Cmd × CmdObs × Obs)) (a : ASt) (k : Nat),
    (∀ s ∈ a.states, Reachable w m d s) → accept a k tr = none →
    ∀ x ∈ tr, ∃ s sc, Reachable w m d s ∧ obsOf s sc = x.2.2 := by
  intro tr
  induction tr with
  | nil => intro a k _ _ x hx; simp at hx
  | cons hd rest ih =>
    intro a k ha hacc x hx
    obtain ⟨c, co, o⟩ := hd
    simp only [accept] at hacc
    split at hacc
    · cases hacc
    · rename_i hne
      have hreach : ∀ s ∈ (quiesce (applyCmd a c co).failMode (applyCmd a c co).states).filter
          (fun s => obsOf s (applyCmd a c co).sawClosed == o), Reachable w m d s := by
        intro s hs
        exact quiesce_reachable _ _ (applyCmd_reachable a c co ha) s (List.mem_filter.mp hs).1
      rcases List.mem_cons.mp hx with rfl | hx
      · -- the observation of this very step
        cases hl : (quiesce (applyCmd a c co).failMode (applyCmd a c co).states).filter
            (fun s => obsOf s (applyCmd a c co).sawClosed == o) with
        | nil => simp [hl] at hne
        | cons s0 _ =>
          have hm : s0 ∈ (quiesce (applyCmd a c co).failMode (applyCmd a c co).states).filter
              (fun s => obsOf s (applyCmd a c co).sawClosed == o) := by rw [hl]; simp
          refine ⟨s0, (applyCmd a c co).sawClosed, hreach s0 hm, ?_⟩
          have := (List.mem_filter.mp hm).2
          simpa using this
      · exact ih _ (k + 1) hreach hacc x hx

theorem acceptRun_explained (workers maxW : Nat) (o0 : Obs) (tr : List (Cmd × CmdObs × Obs))
    (h : acceptRun workers maxW o0 tr = none) :
    (∃ s, Reachable workers maxW 0 s ∧ obsOf s false = o0) ∧
    ∀ x ∈ tr, ∃ s sc, Reachable workers maxW 0 s ∧ obsOf s sc = x.2.2 := by
  unfold acceptRun at h
  simp only [] at h
  split at h
  · cases h
  · rename_i hne
    have hq : ∀ s ∈ quiesce false [init workers maxW 0], Reachable workers maxW 0 s :=
      quiesce_reachable false _ (by intro s hs; simp at hs; subst hs; exact Reachable.init)
    have hreach : ∀ s ∈ (quiesce false [init workers maxW 0]).filter (fun s => obsOf s false == o0),
        Reachable workers maxW 0 s := fun s hs => hq s (List.mem_filter.mp hs).1
    constructor
    · cases hl : (quiesce false [init workers maxW 0]).filter (fun s => obsOf s false == o0) with
      | nil => simp [hl] at hne
      | cons s0 _ =>
        have hm : s0 ∈ (quiesce false [init workers maxW 0]).filter (fun s => obsOf s false == o0) := by rw [hl]; simp
        exact ⟨s0, hreach s0 hm, by simpa using (List.mem_filter.mp hm).2⟩
    · exact accept_explained tr _ 1 hreach h

end Vegeta.Proofs.Attack
